package fakes12

import (
	"sync"

	"github.com/gorilla/mux"
	clconfig "github.com/metrico/cloki-config"
	"github.com/metrico/qryn/reader/config"
	"github.com/metrico/qryn/reader/model"
	apirouterv1 "github.com/metrico/qryn/reader/router"
)

var cfgOnce sync.Once

// EnsureReaderConfig sets reader/config.Cloki the way /repo/main.go does (clconfig.New(CLOKI_READER, …) with no
// config file), once per process.
func EnsureReaderConfig() {
	cfgOnce.Do(func() {
		if config.Cloki == nil {
			config.Cloki = clconfig.New(clconfig.CLOKI_READER, nil, "", "")
		}
	})
}

// NewReaderRouter assembles the real read routes exactly as reader/main.go performV1APIRouting does, in the
// same order, minus dbRegistry.Init() and watchdog.Init (the registry is the given fake).
func NewReaderRouter(reg model.IDBRegistry) *mux.Router {
	EnsureReaderConfig()
	acc := mux.NewRouter()
	apirouterv1.RouteQueryRangeApis(acc, reg)
	apirouterv1.RouteSelectLabels(acc, reg)
	apirouterv1.RouteSelectPrometheusLabels(acc, reg)
	apirouterv1.RoutePrometheusQueryRange(acc, reg, config.Cloki.Setting.SYSTEM_SETTINGS.QueryStats)
	apirouterv1.RouteTempo(acc, reg)
	apirouterv1.RouteMiscApis(acc)
	apirouterv1.RouteProf(acc, reg)
	apirouterv1.PluggableRoutes(acc, reg)
	return acc
}
