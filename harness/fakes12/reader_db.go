// Package fakes: reusable fakes for driving the real qryn code in-process.
//
// Read side (files reader_*.go):
//
//	db := fakes.NewReaderDB()              // scripted database/sql driver behind a model.ISqlxDB
//	db.SetScript(fakes.Script{...})        // how the next queries are answered (see Answer)
//	router := fakes.NewReaderRouter(db.Registry(false))   // the real read routes (reader/main.go performV1APIRouting)
//	... serve HTTP through router ...
//	db.Log()                               // every SQL text the code sent, in order
//
// The two bookkeeping queries of dbVersion.GetVersionInfo (`type='update'` settings and `SHOW TABLES`) are
// answered by the fake itself (Script.Versions / Script.Tables) and are logged like every other query.
// They can be made slow and/or failing (Script.VersionDelay / VersionErr / TablesErr / VersionErrN) and are counted
// (ReaderDB.Bookkeeping): "a second request arrives while the first one's version lookup is still under way, and that
// lookup fails" is scripted with these. Answer.Delay makes any other query slow. Zero values = none of this.
package fakes12

import (
	"context"
	"database/sql"
	"database/sql/driver"
	"errors"
	"fmt"
	"io"
	"strings"
	"sync"
	"sync/atomic"
	"time"

	"github.com/metrico/cloki-config/config"
	"github.com/metrico/qryn/reader/model"
)

// Answer describes the result set of ONE query.
type Answer struct {
	Cols []string         // column names; when empty, derived from the first row ("c0", "c1", …)
	Rows [][]driver.Value // a value may be any Go value database/sql can assign (map[string]string, []string, [][]any …)

	Delay time.Duration // QueryContext first waits this long (ends early with ctx.Err() when the query context is cancelled)

	QueryErr error // QueryContext fails with this error (no rows object at all)
	Block    bool  // QueryContext blocks until its context is cancelled, then returns ctx.Err()

	FailAt  int   // n > 0: the n-th call of Next (1-based) returns FailErr — a mid-stream error after n-1 rows; 0 = never
	FailErr error // default: ErrMidStream
	BlockAt int   // n > 0: the n-th call of Next blocks until the query context is cancelled, then returns ctx.Err(); 0 = never
}

// ErrMidStream is the default error of a scripted mid-stream failure.
var ErrMidStream = errors.New("scripted: connection lost while streaming rows")

// ErrQuery is a ready-made error for Answer.QueryErr.
var ErrQuery = errors.New("scripted: query failed")

// Rows builds a plain answer (no failure).
func Rows(cols []string, rows ...[]driver.Value) Answer {
	return Answer{Cols: cols, Rows: rows}
}

// Script: how the fake database answers. The i-th non-bookkeeping query of a script gets
// Answers[min(i, len-1)]; Match (if set) is tried first and wins when it returns ok.
type Script struct {
	Answers  []Answer
	Match    func(query string) (Answer, bool)
	Versions [][2]string // rows of the `type='update'` settings query (name, unix-seconds as string)
	Tables   []string    // rows of SHOW TABLES

	// the two bookkeeping queries of dbVersion.GetVersionInfo (zero values: answered at once, never failing)
	VersionDelay time.Duration // each bookkeeping query first waits this long (cancellable like Answer.Delay)
	VersionErr   error         // the `type='update'` settings query fails with this error
	TablesErr    error         // SHOW TABLES fails with this error
	VersionErrN  int           // n > 0: only the first n bookkeeping queries that would fail do fail; 0 = all of them
}

// ReaderDB is one scripted database: a database/sql handle over the scripted driver, wrapped as model.ISqlxDB.
type ReaderDB struct {
	name string
	db   *sql.DB

	mtx    sync.Mutex
	script Script
	nq     int
	nbk    int // bookkeeping queries received since the last SetScript
	nbkErr int // bookkeeping queries failed since the last SetScript
	log    []string
	open   int64 // rows objects opened and not yet closed
}

var dbSeq int64

type sDriver struct{ owner *ReaderDB }
type sConn struct{ owner *ReaderDB }
type sRows struct {
	owner  *ReaderDB
	ctx    context.Context
	a      Answer
	i      int
	calls  int
	closed bool
}

func (d sDriver) Open(name string) (driver.Conn, error) { return sConn{d.owner}, nil }
func (sConn) Prepare(q string) (driver.Stmt, error)   { return nil, fmt.Errorf("scripted driver: no prepare") }
func (sConn) Close() error                             { return nil }
func (sConn) Begin() (driver.Tx, error)                { return nil, fmt.Errorf("scripted driver: no tx") }

// CheckNamedValue lets any argument through (the reader passes none in practice).
func (sConn) CheckNamedValue(*driver.NamedValue) error { return nil }

func (c sConn) QueryContext(ctx context.Context, q string, args []driver.NamedValue) (driver.Rows, error) {
	a := c.owner.answer(q)
	if a.Delay > 0 { // outside owner.mtx: other queries are answered meanwhile
		t := time.NewTimer(a.Delay)
		select {
		case <-t.C:
		case <-ctx.Done():
			t.Stop()
			return nil, ctx.Err()
		}
	}
	if a.Block {
		<-ctx.Done()
		return nil, ctx.Err()
	}
	if a.QueryErr != nil {
		return nil, a.QueryErr
	}
	if err := ctx.Err(); err != nil {
		return nil, err
	}
	atomic.AddInt64(&c.owner.open, 1)
	return &sRows{owner: c.owner, ctx: ctx, a: a}, nil
}

func (r *sRows) Columns() []string {
	if len(r.a.Cols) > 0 {
		return r.a.Cols
	}
	n := 0
	if len(r.a.Rows) > 0 {
		n = len(r.a.Rows[0])
	}
	cols := make([]string, n)
	for i := range cols {
		cols[i] = fmt.Sprintf("c%d", i)
	}
	return cols
}
func (r *sRows) Close() error {
	if !r.closed {
		r.closed = true
		atomic.AddInt64(&r.owner.open, -1)
	}
	return nil
}
func (r *sRows) Next(dest []driver.Value) error {
	r.calls++
	if r.a.BlockAt > 0 && r.calls == r.a.BlockAt {
		<-r.ctx.Done()
		return r.ctx.Err()
	}
	if r.a.FailAt > 0 && r.calls == r.a.FailAt {
		if r.a.FailErr != nil {
			return r.a.FailErr
		}
		return ErrMidStream
	}
	if r.i >= len(r.a.Rows) {
		return io.EOF
	}
	row := r.a.Rows[r.i]
	for j := range dest {
		if j < len(row) {
			dest[j] = row[j]
		} else {
			dest[j] = nil
		}
	}
	r.i++
	return nil
}

// NewReaderDB creates a scripted database (each one registers its own driver name).
func NewReaderDB() *ReaderDB {
	n := atomic.AddInt64(&dbSeq, 1)
	r := &ReaderDB{name: fmt.Sprintf("scripted-reader-%d", n)}
	sql.Register(r.name, sDriver{r})
	db, err := sql.Open(r.name, "")
	if err != nil {
		panic(err)
	}
	r.db = db
	r.script = Script{Answers: []Answer{Rows(nil)}}
	return r
}

// SetScript installs a script and restarts its answer counter and the bookkeeping counters (Bookkeeping, VersionErrN);
// the SQL log is kept (see ResetLog).
func (r *ReaderDB) SetScript(s Script) {
	r.mtx.Lock()
	defer r.mtx.Unlock()
	r.script = s
	r.nq, r.nbk, r.nbkErr = 0, 0, 0
}

// Bookkeeping is the number of bookkeeping queries (`type='update'` settings, SHOW TABLES) received since the last
// SetScript (ResetLog does not touch it). A query counts when it ARRIVES, before its VersionDelay.
func (r *ReaderDB) Bookkeeping() int {
	r.mtx.Lock()
	defer r.mtx.Unlock()
	return r.nbk
}

// Log returns a copy of every SQL text received so far.
func (r *ReaderDB) Log() []string {
	r.mtx.Lock()
	defer r.mtx.Unlock()
	return append([]string(nil), r.log...)
}
func (r *ReaderDB) ResetLog() {
	r.mtx.Lock()
	defer r.mtx.Unlock()
	r.log = nil
}

// OpenRows is the number of result sets handed out and not yet closed (a leaked *sql.Rows shows up here).
func (r *ReaderDB) OpenRows() int64 { return atomic.LoadInt64(&r.open) }

func isVersionQuery(q string) bool { return strings.Contains(q, "type='update'") }
func isShowTables(q string) bool   { return strings.TrimSpace(q) == "SHOW TABLES" }

func (r *ReaderDB) answer(q string) Answer {
	r.mtx.Lock()
	defer r.mtx.Unlock()
	r.log = append(r.log, q)
	if isVersionQuery(q) {
		a := Rows([]string{"_name", "_value"})
		for _, v := range r.script.Versions {
			a.Rows = append(a.Rows, []driver.Value{v[0], v[1]})
		}
		return r.bookkeeping(a, r.script.VersionErr)
	}
	if isShowTables(q) {
		a := Rows([]string{"name"})
		for _, t := range r.script.Tables {
			a.Rows = append(a.Rows, []driver.Value{t})
		}
		return r.bookkeeping(a, r.script.TablesErr)
	}
	if r.script.Match != nil {
		if a, ok := r.script.Match(q); ok {
			return a
		}
	}
	if len(r.script.Answers) == 0 {
		return Rows(nil)
	}
	i := r.nq
	r.nq++
	if i >= len(r.script.Answers) {
		i = len(r.script.Answers) - 1
	}
	return r.script.Answers[i]
}

// bookkeeping (r.mtx held): counts the query, applies VersionDelay and the scripted failure
func (r *ReaderDB) bookkeeping(a Answer, err error) Answer {
	r.nbk++
	a.Delay = r.script.VersionDelay
	if err != nil && (r.script.VersionErrN <= 0 || r.nbkErr < r.script.VersionErrN) {
		r.nbkErr++
		a.QueryErr = err
	}
	return a
}

// ---- model.ISqlxDB over the scripted handle
type sqlxDB struct{ r *ReaderDB }

func (s sqlxDB) GetName() string { return s.r.name }
func (s sqlxDB) QueryCtx(ctx context.Context, q string, args ...any) (*sql.Rows, error) {
	return s.r.db.QueryContext(ctx, q, args...)
}
func (s sqlxDB) ExecCtx(ctx context.Context, q string, args ...any) error { return nil }
func (s sqlxDB) Conn(ctx context.Context) (*sql.Conn, error)             { return s.r.db.Conn(ctx) }
func (s sqlxDB) Begin() (*sql.Tx, error)                                 { return s.r.db.Begin() }
func (s sqlxDB) Close()                                                  {}

// Session returns the scripted database as the interface the reader services use.
func (r *ReaderDB) Session() model.ISqlxDB { return sqlxDB{r} }

// ---- model.IDBRegistry
type registry struct {
	m      *model.DataDatabasesMap
	getErr error
}

func (g *registry) GetDB(ctx context.Context) (*model.DataDatabasesMap, error) {
	if g.getErr != nil {
		return nil, g.getErr
	}
	return g.m, nil
}
func (g *registry) Run()        {}
func (g *registry) Stop()       {}
func (g *registry) Ping() error { return nil }

// Registry returns a fake model.IDBRegistry whose only database is this scripted one.
// cluster=true makes the services take their distributed (`…_dist`, INLINE_WITH) paths.
func (r *ReaderDB) Registry(cluster bool) model.IDBRegistry {
	cfg := &config.ClokiBaseDataBase{Name: "qryn", Node: "fake"}
	if cluster {
		cfg.ClusterName = "cl"
	}
	return &registry{m: &model.DataDatabasesMap{Config: cfg, Session: r.Session()}}
}
