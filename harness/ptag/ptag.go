// Package ptag reads the participle grammar written in the struct tags of a parser package (logql_parser) as a tree,
// so that (a) the translator can list the grammar's productions as a regenerated fact and (b) the C07 harness can derive
// its query generator from the grammar itself and compare what it emitted with that list.
//
// A struct's grammar is the concatenation of its fields' tags (participle's rule). Supported tag language: `@@`, `@<expr>`,
// "literal", TokenName, ( … ), alternation |, postfix ? * + !. Anything else is an error (fail closed).
package ptag

import (
	"fmt"
	"sort"
	"strings"
)

// Field describes one struct field: Kind is "string", "ptr", "slice", "struct" (by value) or "other"; Elem the struct type
// a ptr/slice/struct field holds ("" for strings)
type Field struct {
	Name, Kind, Elem, Tag string
}

type Struct struct {
	Name   string
	Fields []Field
}

// Node kinds: seq, alt, opt, star, plus, lit (Text), tok (Text = token rule name), sub (`@@` into Field), cap (`@expr` into
// Field; Kids[0] = expr)
type Node struct {
	Kind  string
	Kids  []*Node
	Text  string
	Field string
	ID    int // position in the struct's tree (pre-order), stable for a given grammar
}

type tok struct {
	kind, text, field string
}

func lex(tag, field string) ([]tok, error) {
	var res []tok
	i := 0
	for i < len(tag) {
		c := tag[i]
		switch {
		case c == ' ' || c == '\t' || c == '\n' || c == '\r':
			i++
		case c == '"' || c == '\'':
			j := i + 1
			var sb strings.Builder
			for j < len(tag) && tag[j] != c {
				if tag[j] == '\\' && j+1 < len(tag) {
					j++
				}
				sb.WriteByte(tag[j])
				j++
			}
			if j >= len(tag) {
				return nil, fmt.Errorf("unterminated literal in tag %q", tag)
			}
			res = append(res, tok{"lit", sb.String(), field})
			i = j + 1
		case c == '@':
			if i+1 < len(tag) && tag[i+1] == '@' {
				res = append(res, tok{"sub", "", field})
				i += 2
			} else {
				res = append(res, tok{"at", "", field})
				i++
			}
		case strings.ContainsRune("()|?*+!", rune(c)):
			res = append(res, tok{string(c), "", field})
			i++
		case c == '_' || c >= 'a' && c <= 'z' || c >= 'A' && c <= 'Z':
			j := i
			for j < len(tag) && (tag[j] == '_' || tag[j] >= 'a' && tag[j] <= 'z' || tag[j] >= 'A' && tag[j] <= 'Z' || tag[j] >= '0' && tag[j] <= '9') {
				j++
			}
			res = append(res, tok{"tok", tag[i:j], field})
			i = j
		default:
			return nil, fmt.Errorf("character %q in tag %q is outside the supported tag language", c, tag)
		}
	}
	return res, nil
}

type parser struct {
	toks []tok
	pos  int
}

func (p *parser) peek() string {
	if p.pos < len(p.toks) {
		return p.toks[p.pos].kind
	}
	return ""
}

func (p *parser) alt() (*Node, error) {
	first, err := p.seq()
	if err != nil {
		return nil, err
	}
	if p.peek() != "|" {
		return first, nil
	}
	n := &Node{Kind: "alt", Kids: []*Node{first}}
	for p.peek() == "|" {
		p.pos++
		k, err := p.seq()
		if err != nil {
			return nil, err
		}
		n.Kids = append(n.Kids, k)
	}
	return n, nil
}

func (p *parser) seq() (*Node, error) {
	n := &Node{Kind: "seq"}
	for {
		k := p.peek()
		if k == "" || k == "|" || k == ")" {
			break
		}
		t, err := p.term()
		if err != nil {
			return nil, err
		}
		n.Kids = append(n.Kids, t)
	}
	if len(n.Kids) == 1 {
		return n.Kids[0], nil
	}
	return n, nil
}

func (p *parser) term() (*Node, error) {
	a, err := p.atom()
	if err != nil {
		return nil, err
	}
	for {
		switch p.peek() {
		case "?":
			p.pos++
			a = &Node{Kind: "opt", Kids: []*Node{a}}
		case "*":
			p.pos++
			a = &Node{Kind: "star", Kids: []*Node{a}}
		case "+":
			p.pos++
			a = &Node{Kind: "plus", Kids: []*Node{a}}
		case "!":
			return nil, fmt.Errorf("the non-empty operator ! is not supported")
		default:
			return a, nil
		}
	}
}

func (p *parser) atom() (*Node, error) {
	if p.pos >= len(p.toks) {
		return nil, fmt.Errorf("unexpected end of tag")
	}
	t := p.toks[p.pos]
	p.pos++
	switch t.kind {
	case "lit":
		return &Node{Kind: "lit", Text: t.text}, nil
	case "tok":
		return &Node{Kind: "tok", Text: t.text}, nil
	case "sub":
		return &Node{Kind: "sub", Field: t.field}, nil
	case "at":
		a, err := p.atom()
		if err != nil {
			return nil, err
		}
		return &Node{Kind: "cap", Field: t.field, Kids: []*Node{a}}, nil
	case "(":
		a, err := p.alt()
		if err != nil {
			return nil, err
		}
		if p.peek() != ")" {
			return nil, fmt.Errorf("missing )")
		}
		p.pos++
		return a, nil
	}
	return nil, fmt.Errorf("unexpected %q in a tag of field %s", t.kind, t.field)
}

func number(n *Node, next *int) {
	n.ID = *next
	*next++
	for _, k := range n.Kids {
		number(k, next)
	}
}

// Parse builds the tree of one struct
func Parse(s Struct) (*Node, error) {
	var toks []tok
	for _, f := range s.Fields {
		tag := f.Tag
		if strings.HasPrefix(tag, "parser:") {
			return nil, fmt.Errorf("%s.%s: keyed tag form is not supported", s.Name, f.Name)
		}
		ts, err := lex(tag, f.Name)
		if err != nil {
			return nil, fmt.Errorf("%s.%s: %v", s.Name, f.Name, err)
		}
		toks = append(toks, ts...)
	}
	p := &parser{toks: toks}
	n, err := p.alt()
	if err != nil {
		return nil, fmt.Errorf("%s: %v", s.Name, err)
	}
	if p.pos != len(toks) {
		return nil, fmt.Errorf("%s: trailing %q", s.Name, toks[p.pos].kind)
	}
	id := 0
	number(n, &id)
	return n, nil
}

const many = 1 << 20

// counts: how often field f is captured on a path through n: (min, max)
func counts(n *Node, f string) (int, int) {
	switch n.Kind {
	case "sub", "cap":
		if n.Field == f {
			return 1, 1
		}
		return 0, 0
	case "seq":
		lo, hi := 0, 0
		for _, k := range n.Kids {
			a, b := counts(k, f)
			lo += a
			hi += b
		}
		if hi > many {
			hi = many
		}
		return lo, hi
	case "alt":
		lo, hi := many, 0
		for _, k := range n.Kids {
			a, b := counts(k, f)
			if a < lo {
				lo = a
			}
			if b > hi {
				hi = b
			}
		}
		return lo, hi
	case "opt":
		_, b := counts(n.Kids[0], f)
		return 0, b
	case "star":
		_, b := counts(n.Kids[0], f)
		if b > 0 {
			b = many
		}
		return 0, b
	case "plus":
		a, b := counts(n.Kids[0], f)
		if b > 0 {
			b = many
		}
		return a, b
	}
	return 0, 0
}

// atoms of a captured expression: literals ("=lit"), token rules ("tok:Name"); structured = the expression is more than an
// alternation of atoms (a sequence / repetition captured as one string)
func atoms(n *Node, out *[]string, structured *bool) {
	switch n.Kind {
	case "lit":
		*out = append(*out, "="+n.Text)
	case "tok":
		*out = append(*out, "tok:"+n.Text)
	case "alt":
		for _, k := range n.Kids {
			atoms(k, out, structured)
		}
	default:
		*structured = true
		for _, k := range n.Kids {
			atoms(k, out, structured)
		}
	}
}

func walk(n *Node, f func(*Node)) {
	f(n)
	for _, k := range n.Kids {
		walk(k, f)
	}
}

// Production: one value class the grammar allows a field of a struct to take.
//
//	string fields: "=<literal>" (an enumerated alternative), "tok:<Rule>" (text of that token rule), "seq:<atoms…>" (several
//	               tokens captured as one string), "absent" (the capture is optional)
//	ptr fields:    "set", "absent"
//	slice fields:  "0", "1", "many"
//	struct fields: "set"
type Production struct {
	Struct, Field, Class string
}

func (p Production) Key() string { return p.Struct + "." + p.Field + " " + p.Class }

// Productions of one struct, in field order
func Productions(s Struct, tree *Node) ([]Production, error) {
	var res []Production
	for _, f := range s.Fields {
		lo, hi := counts(tree, f.Name)
		if hi == 0 {
			return nil, fmt.Errorf("%s.%s is never captured by the grammar", s.Name, f.Name)
		}
		add := func(c string) { res = append(res, Production{s.Name, f.Name, c}) }
		switch f.Kind {
		case "string":
			var as []string
			structured := false
			walk(tree, func(n *Node) {
				if n.Kind == "cap" && n.Field == f.Name {
					atoms(n.Kids[0], &as, &structured)
				}
				if n.Kind == "sub" && n.Field == f.Name {
					structured = true
				}
			})
			if structured {
				u := uniq(as)
				sort.Strings(u)
				add("seq:" + strings.Join(u, ","))
			} else {
				for _, a := range uniq(as) {
					add(a)
				}
			}
			if lo == 0 {
				add("absent")
			}
		case "ptr":
			add("set")
			if lo == 0 {
				add("absent")
			}
		case "struct":
			add("set")
			if lo == 0 {
				add("absent") // observable as the zero value
			}
		case "slice":
			if lo == 0 {
				add("0")
			}
			if lo <= 1 {
				add("1")
			}
			if hi > 1 {
				add("many")
			}
		default:
			return nil, fmt.Errorf("%s.%s: field kind %q not supported", s.Name, f.Name, f.Kind)
		}
	}
	return res, nil
}

func uniq(xs []string) []string {
	seen := map[string]bool{}
	var res []string
	for _, x := range xs {
		if !seen[x] {
			seen[x] = true
			res = append(res, x)
		}
	}
	return res
}

// Reachable: the struct names reachable from root through ptr/slice/struct fields, in discovery order
func Reachable(all map[string]Struct, root string) ([]string, error) {
	var order []string
	seen := map[string]bool{}
	var visit func(string) error
	visit = func(n string) error {
		if seen[n] {
			return nil
		}
		s, ok := all[n]
		if !ok {
			return fmt.Errorf("struct %s not found", n)
		}
		seen[n] = true
		order = append(order, n)
		for _, f := range s.Fields {
			if f.Elem != "" {
				if err := visit(f.Elem); err != nil {
					return err
				}
			}
		}
		return nil
	}
	if err := visit(root); err != nil {
		return nil, err
	}
	return order, nil
}

// Grammar: trees and productions of everything reachable from root
type Grammar struct {
	Order   []string
	Structs map[string]Struct
	Trees   map[string]*Node
	Prods   []Production
}

func Build(all map[string]Struct, root string) (*Grammar, error) {
	order, err := Reachable(all, root)
	if err != nil {
		return nil, err
	}
	g := &Grammar{Order: order, Structs: all, Trees: map[string]*Node{}}
	for _, n := range order {
		t, err := Parse(all[n])
		if err != nil {
			return nil, err
		}
		g.Trees[n] = t
		ps, err := Productions(all[n], t)
		if err != nil {
			return nil, err
		}
		g.Prods = append(g.Prods, ps...)
	}
	return g, nil
}
