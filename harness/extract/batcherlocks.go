package main

import (
	"fmt"
	"go/ast"
	"go/token"
	"sort"
	"strings"
)

// Gen.BatcherLocks (C01/C02): the critical sections of InsertServiceV2 (writer/service/genericInsertService.go).
//
//   - `methods`: for every method of *InsertServiceV2 (and every function literal inside one that is not invoked
//     on the spot) the sequence of *segments* in source order — a `hold` (from `svc.mtx.Lock()` to the matching
//     `svc.mtx.Unlock()`, or to the end of the enclosing function when the unlock is deferred) or a `free` stretch
//     outside any hold — each with the InsertServiceV2 fields it reads and writes and the methods of svc it calls;
//   - `swapProgram`: swapBuffers statement by statement, as the list of its holds, each a list of moves (renew the
//     insert context, early return when size == 0, take-and-replace columns / size / results, other);
//   - `requestProgram`: Request statement by statement (the stopped check, and inside the hold: processRequest into
//     svc.columns, early completion, size booking, size trigger, promise booking);
//   - `iterationProgram`: fetchLoopIteration as the order of its effects (connect when there is no client, swap, the
//     nil-portion return, OnBeforeInsert, the copy of the waiting promises, Do, release of the waiting promises with
//     Do's error, client dropped on error).
//
// Fails closed: a statement of swapBuffers/Request/fetchLoopIteration that is not recognised, a lock state that differs
// between the branches of a non-terminating if/for/switch, a double lock or an unlock without a lock is an error.

func init() { register("BatcherLocks", genBatcherLocks) }

type blAccess struct {
	reads, writes, calls map[string]bool
}

func newBlAccess() *blAccess {
	return &blAccess{map[string]bool{}, map[string]bool{}, map[string]bool{}}
}
func (a *blAccess) empty() bool { return len(a.reads)+len(a.writes)+len(a.calls) == 0 }

type blSeg struct {
	hold bool
	acc  *blAccess
}

type blMethod struct {
	name string
	segs []blSeg
	tail []blSeg // segments of terminating branches that changed the lock state (they never join the main path)
}

type blWalker struct {
	recv    string          // receiver identifier
	fields  map[string]bool // fields of InsertServiceV2
	methods map[string]bool // methods of *InsertServiceV2
	out     []*blMethod
	err     error
	nlit    int
}

type blState struct {
	m    *blMethod
	held bool
	cur  *blAccess // accesses of the current segment
	// scopes: whether a deferred unlock is pending for the function (literal) being walked
	deferUnlock bool
}

func (w *blWalker) fail(format string, a ...any) {
	if w.err == nil {
		w.err = fmt.Errorf(format, a...)
	}
}

func (w *blWalker) closeSeg(st *blState) {
	if !st.cur.empty() || st.held {
		st.m.segs = append(st.m.segs, blSeg{st.held, st.cur})
	}
	st.cur = newBlAccess()
}

func (w *blWalker) isMtxCall(e ast.Expr, name string) bool {
	call, ok := e.(*ast.CallExpr)
	if !ok || len(call.Args) != 0 {
		return false
	}
	return exprTextNoPos(call.Fun) == w.recv+".mtx."+name
}

func (w *blWalker) lock(st *blState) {
	if st.held {
		w.fail("%s: %s.mtx.Lock() while the lock is held", st.m.name, w.recv)
		return
	}
	w.closeSeg(st)
	st.held = true
}

func (w *blWalker) unlock(st *blState) {
	if !st.held {
		w.fail("%s: %s.mtx.Unlock() without a hold", st.m.name, w.recv)
		return
	}
	w.closeSeg(st)
	st.held = false
}

// expr records the accesses of an expression read for its value
func (w *blWalker) expr(st *blState, e ast.Expr) {
	if e == nil {
		return
	}
	switch x := e.(type) {
	case *ast.SelectorExpr:
		if id, ok := x.X.(*ast.Ident); ok && id.Name == w.recv {
			switch {
			case x.Sel.Name == "mtx":
			case w.fields[x.Sel.Name]:
				st.cur.reads[x.Sel.Name] = true
			case w.methods[x.Sel.Name]:
				st.cur.calls[x.Sel.Name] = true
			default:
				// promoted from the embedded ServiceData or unknown: recorded as a read of that name
				st.cur.reads[x.Sel.Name] = true
			}
			return
		}
		w.expr(st, x.X)
	case *ast.CallExpr:
		if fl, ok := x.Fun.(*ast.FuncLit); ok {
			// invoked on the spot: part of the enclosing flow, with its own defer scope
			for _, a := range x.Args {
				w.expr(st, a)
			}
			w.funcBody(st, fl.Body)
			return
		}
		if w.isMtxCall(x, "Lock") || w.isMtxCall(x, "Unlock") {
			w.fail("%s: lock operation inside an expression", st.m.name)
			return
		}
		w.expr(st, x.Fun)
		for _, a := range x.Args {
			w.expr(st, a)
		}
	case *ast.FuncLit:
		// a closure that runs later (assigned, passed, `go`): its own pseudo-method, starting outside any hold
		w.nlit++
		w.method(fmt.Sprintf("%s.func%d", st.m.name, w.nlit), x.Body)
	case *ast.UnaryExpr:
		if x.Op == token.AND {
			// &svc.f handed to somebody (atomic.*): both a read and a write
			if se, ok := x.X.(*ast.SelectorExpr); ok {
				if id, ok := se.X.(*ast.Ident); ok && id.Name == w.recv && w.fields[se.Sel.Name] {
					st.cur.reads[se.Sel.Name] = true
					st.cur.writes[se.Sel.Name] = true
					return
				}
			}
		}
		w.expr(st, x.X)
	case *ast.BinaryExpr:
		w.expr(st, x.X)
		w.expr(st, x.Y)
	case *ast.ParenExpr:
		w.expr(st, x.X)
	case *ast.StarExpr:
		w.expr(st, x.X)
	case *ast.IndexExpr:
		w.expr(st, x.X)
		w.expr(st, x.Index)
	case *ast.IndexListExpr:
		w.expr(st, x.X)
	case *ast.SliceExpr:
		w.expr(st, x.X)
		w.expr(st, x.Low)
		w.expr(st, x.High)
		w.expr(st, x.Max)
	case *ast.TypeAssertExpr:
		w.expr(st, x.X)
	case *ast.CompositeLit:
		for _, el := range x.Elts {
			w.expr(st, el)
		}
	case *ast.KeyValueExpr:
		w.expr(st, x.Value)
	case *ast.Ident, *ast.BasicLit, *ast.ArrayType, *ast.MapType, *ast.ChanType, *ast.FuncType, *ast.InterfaceType, *ast.StructType, *ast.Ellipsis:
	default:
		w.fail("%s: unrecognised expression %T", st.m.name, e)
	}
}

// lhs records an assignment target
func (w *blWalker) lhs(st *blState, e ast.Expr, alsoRead bool) {
	switch x := e.(type) {
	case *ast.SelectorExpr:
		if id, ok := x.X.(*ast.Ident); ok && id.Name == w.recv {
			st.cur.writes[x.Sel.Name] = true
			if alsoRead {
				st.cur.reads[x.Sel.Name] = true
			}
			return
		}
		w.expr(st, x.X) // a field of something reached through svc
	case *ast.IndexExpr:
		w.lhs(st, x.X, true)
		w.expr(st, x.Index)
	case *ast.StarExpr:
		w.expr(st, x.X)
	case *ast.Ident:
	default:
		w.expr(st, e)
	}
}

func blTerminates(list []ast.Stmt) bool {
	if len(list) == 0 {
		return false
	}
	switch s := list[len(list)-1].(type) {
	case *ast.ReturnStmt:
		return true
	case *ast.ExprStmt:
		if c, ok := s.X.(*ast.CallExpr); ok {
			if id, ok := c.Fun.(*ast.Ident); ok && id.Name == "panic" {
				return true
			}
		}
	}
	return false
}

// branch walks a nested statement list. A terminating branch may leave the lock state as it likes (it never joins
// the main path): its accesses up to an unlock belong to the current segment, those after it to an extra free segment.
func (w *blWalker) branch(st *blState, list []ast.Stmt) {
	if blTerminates(list) {
		shared := st.cur
		sub := &blState{m: st.m, held: st.held, cur: shared, deferUnlock: st.deferUnlock}
		nsegs := len(st.m.segs)
		w.stmts(sub, list)
		// segments the branch closed: the main path's current one (it goes on after the branch: not closed yet) is
		// dropped from the list, the branch's own ones are kept apart
		added := append([]blSeg{}, st.m.segs[nsegs:]...)
		st.m.segs = st.m.segs[:nsegs]
		for _, sg := range added {
			if sg.acc != shared {
				st.m.tail = append(st.m.tail, sg)
			}
		}
		if sub.cur != shared && !sub.cur.empty() {
			st.m.tail = append(st.m.tail, blSeg{sub.held, sub.cur})
		}
		return
	}
	held := st.held
	w.stmts(st, list)
	if st.held != held {
		w.fail("%s: the lock state at the end of a branch differs from its start", st.m.name)
	}
}

func (w *blWalker) stmts(st *blState, list []ast.Stmt) {
	for _, s := range list {
		w.stmt(st, s)
	}
}

func (w *blWalker) stmt(st *blState, s ast.Stmt) {
	if w.err != nil {
		return
	}
	switch x := s.(type) {
	case *ast.ExprStmt:
		switch {
		case w.isMtxCall(x.X, "Lock"):
			w.lock(st)
		case w.isMtxCall(x.X, "Unlock"):
			w.unlock(st)
		default:
			w.expr(st, x.X)
		}
	case *ast.DeferStmt:
		if w.isMtxCall(x.Call, "Unlock") {
			if !st.held {
				w.fail("%s: defer Unlock without a hold", st.m.name)
			}
			st.deferUnlock = true
			return
		}
		w.expr(st, x.Call)
	case *ast.GoStmt:
		w.expr(st, x.Call)
	case *ast.AssignStmt:
		for _, r := range x.Rhs {
			w.expr(st, r)
		}
		for _, l := range x.Lhs {
			w.lhs(st, l, x.Tok != token.ASSIGN && x.Tok != token.DEFINE)
		}
	case *ast.IncDecStmt:
		w.lhs(st, x.X, true)
	case *ast.DeclStmt:
		if gd, ok := x.Decl.(*ast.GenDecl); ok {
			for _, sp := range gd.Specs {
				if vs, ok := sp.(*ast.ValueSpec); ok {
					for _, v := range vs.Values {
						w.expr(st, v)
					}
				}
			}
		}
	case *ast.ReturnStmt:
		for _, r := range x.Results {
			w.expr(st, r)
		}
	case *ast.IfStmt:
		if x.Init != nil {
			w.stmt(st, x.Init)
		}
		w.expr(st, x.Cond)
		w.branch(st, x.Body.List)
		switch e := x.Else.(type) {
		case *ast.BlockStmt:
			w.branch(st, e.List)
		case *ast.IfStmt:
			w.branch(st, []ast.Stmt{e})
		}
	case *ast.ForStmt:
		if x.Init != nil {
			w.stmt(st, x.Init)
		}
		w.expr(st, x.Cond)
		if x.Post != nil {
			w.stmt(st, x.Post)
		}
		held := st.held
		w.stmts(st, x.Body.List)
		if st.held != held {
			w.fail("%s: the lock state at the end of a loop body differs from its start", st.m.name)
		}
	case *ast.RangeStmt:
		w.expr(st, x.X)
		held := st.held
		w.stmts(st, x.Body.List)
		if st.held != held {
			w.fail("%s: the lock state at the end of a loop body differs from its start", st.m.name)
		}
	case *ast.BlockStmt:
		w.stmts(st, x.List)
	case *ast.SwitchStmt:
		if x.Init != nil {
			w.stmt(st, x.Init)
		}
		w.expr(st, x.Tag)
		for _, c := range x.Body.List {
			cc := c.(*ast.CaseClause)
			for _, e := range cc.List {
				w.expr(st, e)
			}
			w.branch(st, cc.Body)
		}
	case *ast.TypeSwitchStmt:
		for _, c := range x.Body.List {
			w.branch(st, c.(*ast.CaseClause).Body)
		}
	case *ast.SelectStmt:
		for _, c := range x.Body.List {
			cc := c.(*ast.CommClause)
			if cc.Comm != nil {
				w.stmt(st, cc.Comm)
			}
			w.branch(st, cc.Body)
		}
	case *ast.SendStmt:
		w.expr(st, x.Chan)
		w.expr(st, x.Value)
	case *ast.BranchStmt, *ast.EmptyStmt:
	case *ast.LabeledStmt:
		w.stmt(st, x.Stmt)
	default:
		w.fail("%s: unrecognised statement %T", st.m.name, s)
	}
}

// funcBody walks the body of a function (literal) that runs as part of the current flow
func (w *blWalker) funcBody(st *blState, body *ast.BlockStmt) {
	outer := st.deferUnlock
	st.deferUnlock = false
	w.stmts(st, body.List)
	if st.deferUnlock {
		w.unlock(st)
	}
	st.deferUnlock = outer
}

func (w *blWalker) method(name string, body *ast.BlockStmt) {
	m := &blMethod{name: name}
	w.out = append(w.out, m)
	st := &blState{m: m, cur: newBlAccess()}
	w.funcBody(st, body)
	if st.held {
		w.fail("%s: returns holding the lock", name)
	}
	w.closeSeg(st)
	m.segs = append(m.segs, m.tail...)
}

func blSorted(m map[string]bool) []string {
	var ks []string
	for k := range m {
		ks = append(ks, k)
	}
	sort.Strings(ks)
	return ks
}

// ---------------------------------------------------------------- swapBuffers, statement by statement

func (w *blWalker) swapProgram(fd *ast.FuncDecl) ([][]string, error) {
	r := w.recv
	var holds [][]string
	var cur []string
	held, deferred := false, false
	saved := map[string]string{} // field -> local that holds its old value (within the current hold)
	fresh := map[string]bool{}   // locals assigned from svc.acquireColumns()
	taken := map[string]string{} // field -> local, over the whole function
	isFresh := func(e ast.Expr) bool {
		t := exprTextNoPos(e)
		return t == r+".acquireColumns()" || fresh[t]
	}
	closeHold := func() {
		holds = append(holds, cur)
		cur, held = nil, false
		saved = map[string]string{}
	}
	for i, s := range fd.Body.List {
		txt := exprTextNoPosStmt(s)
		switch {
		case txt == r+".mtx.Lock()":
			if held {
				return nil, fmt.Errorf("swapBuffers: Lock while held")
			}
			held = true
		case txt == "defer "+r+".mtx.Unlock()":
			deferred = true
		case txt == r+".mtx.Unlock()":
			if !held {
				return nil, fmt.Errorf("swapBuffers: Unlock without a hold")
			}
			closeHold()
		case strings.HasPrefix(txt, r+".insertCtx, "+r+".insertCancel = context.WithTimeout("):
			if !held {
				return nil, fmt.Errorf("swapBuffers: the insert context is renewed outside a hold")
			}
			cur = append(cur, ".renew")
		case txt == "if "+r+".size == 0 { return nil, nil }" || txt == "if "+r+".size == 0 { "+r+".mtx.Unlock() return nil, nil }":
			if !held {
				return nil, fmt.Errorf("swapBuffers: size is tested outside a hold")
			}
			cur = append(cur, ".checkEmpty")
		case strings.HasPrefix(txt, r+".lastSend = "):
			if held {
				cur = append(cur, ".other")
			}
		default:
			as, ok := s.(*ast.AssignStmt)
			if ok && len(as.Lhs) == 1 && len(as.Rhs) == 1 {
				l, rr := exprTextNoPos(as.Lhs[0]), exprTextNoPos(as.Rhs[0])
				if as.Tok == token.DEFINE {
					switch rr {
					case r + ".columns", r + ".size", r + ".results":
						if !held {
							return nil, fmt.Errorf("swapBuffers: %s read outside a hold", rr)
						}
						saved[strings.TrimPrefix(rr, r+".")] = l
						continue
					case r + ".acquireColumns()":
						fresh[l] = true
						continue
					}
				}
				if as.Tok == token.ASSIGN {
					f := strings.TrimPrefix(l, r+".")
					if (f == "columns" && isFresh(as.Rhs[0])) || (f == "size" && rr == "0") || (f == "results" && rr == "nil") {
						if !held {
							return nil, fmt.Errorf("swapBuffers: %s replaced outside a hold", l)
						}
						loc, ok := saved[f]
						if !ok {
							return nil, fmt.Errorf("swapBuffers: %s is replaced without its old value having been saved in the same hold", l)
						}
						taken[f] = loc
						cur = append(cur, map[string]string{"columns": ".takeCols", "size": ".takeSize", "results": ".takeResults"}[f])
						continue
					}
				}
			}
			if rs, ok := s.(*ast.ReturnStmt); ok && i == len(fd.Body.List)-1 {
				want := fmt.Sprintf("return &requestPortion{%s, %s, %s}, nil", taken["columns"], taken["results"], taken["size"])
				if txt != want {
					return nil, fmt.Errorf("swapBuffers returns `%s`, expected `%s`", txt, want)
				}
				_ = rs
				continue
			}
			return nil, fmt.Errorf("swapBuffers: unrecognised statement `%s`", txt)
		}
	}
	if held {
		if !deferred {
			return nil, fmt.Errorf("swapBuffers returns holding the lock")
		}
		closeHold()
	}
	for _, f := range []string{"columns", "size", "results"} {
		if _, ok := taken[f]; !ok {
			return nil, fmt.Errorf("swapBuffers never takes svc.%s", f)
		}
	}
	return holds, nil
}

// ---------------------------------------------------------------- Request, statement by statement

func (w *blWalker) requestProgram(fd *ast.FuncDecl) ([]string, error) {
	r := w.recv
	var segs []string
	var free []string
	sawHold := false
	for _, s := range fd.Body.List {
		txt := exprTextNoPosStmt(s)
		switch {
		case txt == "p := promise.New[uint32]()", txt == "var size int64", txt == "size = req.GetSize()", txt == "return p":
		case strings.HasPrefix(txt, "if !"+r+".running {") && strings.Contains(txt, `p.Done(0, fmt.Errorf("service stopped"))`) && strings.HasSuffix(txt, "return p }"):
			free = append(free, ".stoppedCheck")
		default:
			es, ok := s.(*ast.ExprStmt)
			var fl *ast.FuncLit
			if ok {
				if c, ok := es.X.(*ast.CallExpr); ok && len(c.Args) == 0 {
					fl, _ = c.Fun.(*ast.FuncLit)
				}
			}
			if fl == nil {
				return nil, fmt.Errorf("Request: unrecognised statement `%s`", txt)
			}
			if sawHold {
				return nil, fmt.Errorf("Request: a second function literal")
			}
			sawHold = true
			segs = append(segs, ".free ["+strings.Join(free, ", ")+"]")
			free = nil
			var moves []string
			held := false
			for _, hs := range fl.Body.List {
				ht := exprTextNoPosStmt(hs)
				switch {
				case strings.HasPrefix(ht, "var ("):
				case ht == r+".mtx.Lock()":
					held = true
				case ht == "defer "+r+".mtx.Unlock()":
					if !held {
						return nil, fmt.Errorf("Request: defer Unlock before Lock")
					}
				case ht == "inserted, "+r+".columns, err = "+r+".processRequest(req, "+r+".columns)":
					moves = append(moves, ".process")
				case ht == "if err != nil || inserted == 0 { p.Done(0, err) return }":
					moves = append(moves, ".earlyDone")
				case ht == r+".size += size":
					moves = append(moves, ".bookSize")
				case ht == "if "+r+".maxQueueSize > 0 && "+r+".size > "+r+".maxQueueSize { "+r+".insertCancel() }":
					moves = append(moves, ".sizeTrigger")
				case ht == r+".results = append("+r+".results, p)":
					moves = append(moves, ".bookPromise")
				default:
					return nil, fmt.Errorf("Request: unrecognised statement `%s`", ht)
				}
				if !held && len(moves) > 0 {
					return nil, fmt.Errorf("Request: `%s` runs before the lock is taken", ht)
				}
			}
			segs = append(segs, ".hold ["+strings.Join(moves, ", ")+"]")
		}
	}
	if len(free) > 0 {
		segs = append(segs, ".free ["+strings.Join(free, ", ")+"]")
	}
	return segs, nil
}

// ---------------------------------------------------------------- fetchLoopIteration: the order of its effects

func (w *blWalker) iterationProgram(fd *ast.FuncDecl) ([]string, error) {
	r := w.recv
	var evs []string
	for _, s := range fd.Body.List {
		txt := exprTextNoPosStmt(s)
		switch {
		case strings.HasPrefix(txt, "if "+r+".client == nil {") && strings.Contains(txt, r+".client, err = "+r+".V3Session()") &&
			strings.Contains(txt, "if err != nil {") && strings.Contains(txt, "time.Sleep(time.Second) return }"):
			evs = append(evs, ".connectIfNil")
		case txt == "portion, err := "+r+".swapBuffers()":
			evs = append(evs, ".swap")
		case txt == "if portion == nil { return }":
			evs = append(evs, ".returnIfNoPortion")
		case txt == "if "+r+".OnBeforeInsert != nil { "+r+".OnBeforeInsert() }":
			evs = append(evs, ".onBeforeInsert")
		case txt == "waiting := append([]*promise.Promise[uint32]{}, portion.res...)":
			evs = append(evs, ".copyWaiting")
		case txt == "releaseWaiting := func(err error) { for _, w := range waiting { w.Done(0, err) } }":
			evs = append(evs, ".defRelease")
		case txt == "input := make(proto.Input, len(portion.cols))", txt == "size := int64(0)",
			strings.HasPrefix(txt, "for i, c := range portion.cols { input[i] = c.Input()"):
			if len(evs) == 0 || evs[len(evs)-1] != ".buildInput" {
				evs = append(evs, ".buildInput")
			}
		case txt == r+".setState(INSERT_STATE_INSERTING)":
			evs = append(evs, ".stateInserting")
		case txt == "defer "+r+".setState(INSERT_STATE_IDLE)":
			evs = append(evs, ".deferStateIdle")
		case txt == "startSending := time.Now()", txt == "lastFlush := time.Now()", txt == "defer cancel2()",
			strings.HasPrefix(txt, "to, cancel2 := context.WithTimeout("+r+".ctx,"), strings.HasPrefix(txt, "stat.Add"):
		case txt == "rows := int64(input[0].Data.Rows())":
			evs = append(evs, ".firstColumnRows")
		case strings.HasPrefix(txt, "err = "+r+".client.Do(to, fch.Query{") && strings.Contains(txt, "Input: input"):
			evs = append(evs, ".doInsert")
		case txt == r+".lastRequest = time.Now()":
			evs = append(evs, ".stampLastRequest")
		case txt == "releaseWaiting(err)":
			evs = append(evs, ".releaseWithDoError")
		case txt == "if err != nil { "+r+".client.Close() "+r+".client = nil }":
			evs = append(evs, ".dropClientOnError")
		default:
			return nil, fmt.Errorf("fetchLoopIteration: unrecognised statement `%s`", txt)
		}
	}
	return evs, nil
}

func genBatcherLocks() (string, error) {
	_, f, err := parseFile("writer/service/genericInsertService.go")
	if err != nil {
		return "", err
	}
	w := &blWalker{fields: map[string]bool{}, methods: map[string]bool{}}
	// fields of InsertServiceV2
	found := false
	ast.Inspect(f, func(n ast.Node) bool {
		ts, ok := n.(*ast.TypeSpec)
		if !ok || ts.Name.Name != "InsertServiceV2" {
			return true
		}
		st, ok := ts.Type.(*ast.StructType)
		if !ok {
			return true
		}
		found = true
		for _, fl := range st.Fields.List {
			if len(fl.Names) == 0 {
				w.fields[exprTextNoPos(fl.Type)] = true
			}
			for _, n := range fl.Names {
				w.fields[n.Name] = true
			}
		}
		return false
	})
	if !found {
		return "", fmt.Errorf("type InsertServiceV2 not found")
	}
	var decls []*ast.FuncDecl
	for _, d := range f.Decls {
		fd, ok := d.(*ast.FuncDecl)
		if !ok || fd.Body == nil || recvName(fd) != "InsertServiceV2" {
			continue
		}
		w.methods[fd.Name.Name] = true
		decls = append(decls, fd)
	}
	if len(decls) == 0 {
		return "", fmt.Errorf("no method of InsertServiceV2 found")
	}
	byName := map[string]*ast.FuncDecl{}
	for _, fd := range decls {
		if len(fd.Recv.List[0].Names) != 1 {
			return "", fmt.Errorf("method %s has no receiver name", fd.Name.Name)
		}
		w.recv = fd.Recv.List[0].Names[0].Name
		byName[fd.Name.Name] = fd
		w.method(fd.Name.Name, fd.Body)
		if w.err != nil {
			return "", w.err
		}
	}
	for _, need := range []string{"Request", "swapBuffers", "fetchLoopIteration", "Init", "PlanFlush", "Run"} {
		if byName[need] == nil {
			return "", fmt.Errorf("method InsertServiceV2.%s not found", need)
		}
	}
	w.recv = byName["swapBuffers"].Recv.List[0].Names[0].Name
	swap, err := w.swapProgram(byName["swapBuffers"])
	if err != nil {
		return "", err
	}
	w.recv = byName["Request"].Recv.List[0].Names[0].Name
	req, err := w.requestProgram(byName["Request"])
	if err != nil {
		return "", err
	}
	w.recv = byName["fetchLoopIteration"].Recv.List[0].Names[0].Name
	iter, err := w.iterationProgram(byName["fetchLoopIteration"])
	if err != nil {
		return "", err
	}

	var b strings.Builder
	b.WriteString("import Qryn.Ingest.BatcherLocks\nnamespace Qryn.Gen.BatcherLocks\nopen Qryn.Ingest.BatcherLocks\n\n")
	b.WriteString("/-- every method of *InsertServiceV2 (genericInsertService.go): its lock holds and free stretches in source\n    order with the fields read/written and the methods called in each -/\n")
	b.WriteString("def methods : List Method :=\n  [ ")
	var ms []string
	for _, m := range w.out {
		var segs []string
		for _, sg := range m.segs {
			kind := ".free"
			if sg.hold {
				kind = ".hold"
			}
			segs = append(segs, fmt.Sprintf("%s ⟨%s, %s, %s⟩", kind, leanStrList(blSorted(sg.acc.reads)), leanStrList(blSorted(sg.acc.writes)), leanStrList(blSorted(sg.acc.calls))))
		}
		ms = append(ms, fmt.Sprintf("{ name := %s\n      segs := [%s] }", leanStr(m.name), strings.Join(segs, ",\n               ")))
	}
	b.WriteString(strings.Join(ms, ",\n    ") + " ]\n\n")
	b.WriteString("/-- swapBuffers: its holds in order, each the moves it makes -/\ndef swapProgram : List (List Move) :=\n  [")
	var hs []string
	for _, h := range swap {
		hs = append(hs, "["+strings.Join(h, ", ")+"]")
	}
	b.WriteString(strings.Join(hs, ",\n   ") + "]\n\n")
	b.WriteString("/-- Request, statement by statement -/\ndef requestProgram : List ReqSeg :=\n  [" + strings.Join(req, ",\n   ") + "]\n\n")
	b.WriteString("/-- fetchLoopIteration: the order of its effects -/\ndef iterationProgram : List IterEv :=\n  [" + strings.Join(iter, ", ") + "]\n\n")
	b.WriteString("end Qryn.Gen.BatcherLocks\n")
	return b.String(), nil
}
