package main

import (
	"fmt"
	"go/ast"
	"go/token"
	"strings"
)

// Gen.ServiceNames (C06): the attribute-name lists from which the OTLP writer (otlpGetServiceNames, local
// name) and the trace reader (parseOTLP) resolve a span's service name, whether each loop stops at its
// first hit (`break`), and the default name each side falls back to. The theorem C06.service_name_agrees
// needs the two sides to be equal; the model is instantiated with exactly these values.

type c06NameLoop struct {
	names    []string
	hasBreak bool
	dflt     string
}

// c06FirstNameLoop finds the first `for _, x := range []string{...}` of fn and the `if v == "" { v = "lit" }`
// default that follows it, v being the variable the loop assigns.
func c06FirstNameLoop(fd *ast.FuncDecl) (*c06NameLoop, error) {
	var loop *ast.RangeStmt
	ast.Inspect(fd.Body, func(n ast.Node) bool {
		if loop != nil {
			return false
		}
		rs, ok := n.(*ast.RangeStmt)
		if !ok {
			return true
		}
		cl, ok := rs.X.(*ast.CompositeLit)
		if !ok {
			return true
		}
		at, ok := cl.Type.(*ast.ArrayType)
		if !ok {
			return true
		}
		if id, ok := at.Elt.(*ast.Ident); !ok || id.Name != "string" {
			return true
		}
		loop = rs
		return false
	})
	if loop == nil {
		return nil, fmt.Errorf("no range over a []string literal in %s", fd.Name.Name)
	}
	res := &c06NameLoop{}
	for _, el := range loop.X.(*ast.CompositeLit).Elts {
		s, ok := strLit(el)
		if !ok {
			return nil, fmt.Errorf("%s: non-literal element in the attribute-name list", fd.Name.Name)
		}
		res.names = append(res.names, s)
	}
	// a break that belongs to this loop (not to a nested loop/switch/select)
	var assigned string
	var walk func(n ast.Node, nested bool)
	walk = func(n ast.Node, nested bool) {
		ast.Inspect(n, func(m ast.Node) bool {
			switch x := m.(type) {
			case *ast.ForStmt, *ast.RangeStmt, *ast.SwitchStmt, *ast.TypeSwitchStmt, *ast.SelectStmt:
				if m != n {
					walk(m, true)
					return false
				}
			case *ast.BranchStmt:
				if x.Tok == token.BREAK && !nested && x.Label == nil {
					res.hasBreak = true
				}
			case *ast.AssignStmt:
				if !nested && x.Tok == token.ASSIGN && len(x.Lhs) == 1 {
					if id, ok := x.Lhs[0].(*ast.Ident); ok {
						assigned = id.Name
					}
				}
			}
			return true
		})
	}
	walk(loop.Body, false)
	if assigned == "" {
		return nil, fmt.Errorf("%s: the name loop assigns no variable", fd.Name.Name)
	}
	// default: if <assigned> == "" { <assigned> = "lit" }
	found := false
	ast.Inspect(fd.Body, func(n ast.Node) bool {
		is, ok := n.(*ast.IfStmt)
		if !ok || is.Pos() < loop.End() || found {
			return true
		}
		be, ok := is.Cond.(*ast.BinaryExpr)
		if !ok || be.Op != token.EQL {
			return true
		}
		id, ok := be.X.(*ast.Ident)
		if !ok || id.Name != assigned {
			return true
		}
		if s, ok := strLit(be.Y); !ok || s != "" {
			return true
		}
		if len(is.Body.List) != 1 {
			return true
		}
		as, ok := is.Body.List[0].(*ast.AssignStmt)
		if !ok || len(as.Lhs) != 1 || len(as.Rhs) != 1 {
			return true
		}
		if l, ok := as.Lhs[0].(*ast.Ident); !ok || l.Name != assigned {
			return true
		}
		s, ok := strLit(as.Rhs[0])
		if !ok {
			return true
		}
		res.dflt, found = s, true
		return false
	})
	if !found {
		return nil, fmt.Errorf("%s: default `if %s == \"\" { %s = \"...\" }` not found after the name loop", fd.Name.Name, assigned, assigned)
	}
	return res, nil
}

func svcLeanBytesList(xs []string) string {
	parts := make([]string, len(xs))
	for i, x := range xs {
		parts[i] = leanBytes(x)
	}
	return "[" + strings.Join(parts, ",\n   ") + "]"
}

func init() {
	register("ServiceNames", func() (string, error) {
		_, wf, err := parseFile("writer/utils/unmarshal/otlpUnmarshal.go")
		if err != nil {
			return "", err
		}
		wfd := findFunc(wf, "", "otlpGetServiceNames")
		if wfd == nil {
			return "", fmt.Errorf("otlpGetServiceNames not found in the OTLP writer")
		}
		w, err := c06FirstNameLoop(wfd)
		if err != nil {
			return "", err
		}
		_, rf, err := parseFile("reader/service/tempoService.go")
		if err != nil {
			return "", err
		}
		rfd := findFunc(rf, "", "parseOTLP")
		if rfd == nil {
			return "", fmt.Errorf("parseOTLP not found in the trace reader")
		}
		r, err := c06FirstNameLoop(rfd)
		if err != nil {
			return "", err
		}
		var b strings.Builder
		b.WriteString("namespace Qryn.Gen.ServiceNames\n")
		fmt.Fprintf(&b, "/-- otlpGetServiceNames (writer), local name: %q -/\n", w.names)
		fmt.Fprintf(&b, "def writerAttrs : List (List UInt8) :=\n  %s\n", svcLeanBytesList(w.names))
		fmt.Fprintf(&b, "/-- the writer's loop leaves at its first hit (`break`) -/\ndef writerFirst : Bool := %v\n", w.hasBreak)
		fmt.Fprintf(&b, "/-- %q -/\ndef writerDefault : List UInt8 := %s\n", w.dflt, leanBytes(w.dflt))
		fmt.Fprintf(&b, "/-- parseOTLP (reader): %q -/\n", r.names)
		fmt.Fprintf(&b, "def readerAttrs : List (List UInt8) :=\n  %s\n", svcLeanBytesList(r.names))
		fmt.Fprintf(&b, "def readerFirst : Bool := %v\n", r.hasBreak)
		fmt.Fprintf(&b, "/-- %q -/\ndef readerDefault : List UInt8 := %s\n", r.dflt, leanBytes(r.dflt))
		b.WriteString("end Qryn.Gen.ServiceNames\n")
		return b.String(), nil
	})
}
