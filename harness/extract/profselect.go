package main

import (
	"fmt"
	"go/ast"
	"go/token"
	"strings"
)

// Gen.ProfSelect: the Pyroscope selector planner (reader/prof/transpiler/planner_selector.go).
//   - getMatchers: pseudo-label ↦ (SQL field the matcher is applied to, wrapped in arrayExists over sample_types_units?)
//   - getMatcherClause: operator ↦ (comparison, applied to match(field, value)?)
//   - Process / the key-value fallback: shape guards (fail closed), the text itself is compared in the fpsql-prof stream
func init() {
	register("ProfSelect", func() (string, error) {
		cmp, err := sqlCmpFns()
		if err != nil {
			return "", err
		}
		fset, f, err := parseFile("reader/prof/transpiler/planner_selector.go")
		if err != nil {
			return "", err
		}
		// ---- getMatcherClause
		fd := findFunc(f, "StreamSelectorPlanner", "getMatcherClause")
		if fd == nil {
			return "", fmt.Errorf("getMatcherClause not found")
		}
		var sw *ast.SwitchStmt
		for _, st := range fd.Body.List {
			if s, ok := st.(*ast.SwitchStmt); ok && s.Tag != nil && promPrintNode(fset, s.Tag) == "op" {
				sw = s
			}
		}
		if sw == nil {
			return "", fmt.Errorf("getMatcherClause: switch op not found")
		}
		type opc struct {
			op, fn string
			match  bool
		}
		var ops []opc
		for _, st := range sw.Body.List {
			cc := st.(*ast.CaseClause)
			if len(cc.List) != 1 || len(cc.Body) != 1 {
				return "", fmt.Errorf("getMatcherClause: unexpected case shape")
			}
			op, ok := strLit(cc.List[0])
			if !ok {
				return "", fmt.Errorf("getMatcherClause: case is not a literal")
			}
			rs, ok := cc.Body[0].(*ast.ReturnStmt)
			if !ok || len(rs.Results) != 2 || promPrintNode(fset, rs.Results[1]) != "nil" {
				return "", fmt.Errorf("getMatcherClause: case %q does not return (clause, nil)", op)
			}
			call, ok := rs.Results[0].(*ast.CallExpr)
			if !ok || len(call.Args) != 2 {
				return "", fmt.Errorf("getMatcherClause: case %q: unexpected clause", op)
			}
			fn, ok := selName(call.Fun, "sql")
			if !ok || cmp[fn] == "" {
				return "", fmt.Errorf("getMatcherClause: case %q: unknown comparison", op)
			}
			c := opc{op: op, fn: cmp[fn]}
			a0, a1 := promPrintNode(fset, call.Args[0]), promPrintNode(fset, call.Args[1])
			switch {
			case a0 == "field" && a1 == "val":
			case strings.HasPrefix(a0, "sql.NewCustomCol(") && strings.Contains(a0, `fmt.Sprintf("match(%s, %s)", strField, strVal)`) && a1 == `sql.NewRawObject("1")`:
				c.match = true
			default:
				return "", fmt.Errorf("getMatcherClause: case %q: shape not recognised", op)
			}
			ops = append(ops, c)
		}
		// ---- getMatchers
		fd = findFunc(f, "StreamSelectorPlanner", "getMatchers")
		if fd == nil {
			return "", fmt.Errorf("getMatchers not found")
		}
		var nameSw *ast.SwitchStmt
		var loopBody []ast.Stmt
		ast.Inspect(fd.Body, func(n ast.Node) bool {
			if rs, ok := n.(*ast.RangeStmt); ok && promPrintNode(fset, rs.X) == "s.Selectors" {
				loopBody = rs.Body.List
			}
			if s, ok := n.(*ast.SwitchStmt); ok && s.Tag != nil && promPrintNode(fset, s.Tag) == "selector.Name" {
				nameSw = s
			}
			return true
		})
		if nameSw == nil || loopBody == nil {
			return "", fmt.Errorf("getMatchers: loop / switch selector.Name not found")
		}
		type pseudo struct {
			name, field string
			arr         bool
		}
		var pseudos []pseudo
		for _, st := range nameSw.Body.List {
			cc := st.(*ast.CaseClause)
			if len(cc.List) != 1 {
				return "", fmt.Errorf("getMatchers: unexpected case shape")
			}
			name, ok := strLit(cc.List[0])
			if !ok {
				return "", fmt.Errorf("getMatchers: case is not a literal")
			}
			p := pseudo{name: name}
			locals := map[string]string{}
			var field string
			nCalls := 0
			for _, bs := range cc.Body {
				ast.Inspect(bs, func(n ast.Node) bool {
					switch x := n.(type) {
					case *ast.AssignStmt:
						if len(x.Lhs) == 1 && len(x.Rhs) == 1 {
							if id, ok := x.Lhs[0].(*ast.Ident); ok {
								if s, ok := strLit(x.Rhs[0]); ok {
									locals[id.Name] = s
								}
							}
						}
					case *ast.CallExpr:
						switch promPrintNode(fset, x.Fun) {
						case "s.getMatcherClause":
							nCalls++
							if len(x.Args) == 3 && promPrintNode(fset, x.Args[1]) == "selector.Op" && promPrintNode(fset, x.Args[2]) == "sql.NewStringVal(_str)" {
								if c, ok := x.Args[0].(*ast.CallExpr); ok && promPrintNode(fset, c.Fun) == "sql.NewRawObject" && len(c.Args) == 1 {
									if s, ok := strLit(c.Args[0]); ok {
										field = s
									} else if id, ok := c.Args[0].(*ast.Ident); ok {
										field = locals[id.Name]
									}
								}
							}
						case "s.getArrayExists":
							if promPrintNode(fset, x) == `s.getArrayExists(cond, sql.NewRawObject("sample_types_units"))` {
								p.arr = true
							}
						}
					}
					return true
				})
			}
			if nCalls != 1 || field == "" {
				return "", fmt.Errorf("getMatchers: case %q: field of the matcher not recognised", name)
			}
			p.field = field
			if p.arr {
				// the clause must be  sql.Eq(arrayExists(...), 1)
				found := false
				for _, bs := range cc.Body {
					if promPrintNode(fset, bs) == `clause = sql.Eq(s.getArrayExists(cond, sql.NewRawObject("sample_types_units")), sql.NewIntVal(1))` {
						found = true
					}
				}
				if !found {
					return "", fmt.Errorf("getMatchers: case %q: arrayExists clause not recognised", name)
				}
			}
			pseudos = append(pseudos, p)
		}
		// (the tail of the loop, getArrayExists and Process are not Gen facts: the profsql stream compares the
		// rendered text byte for byte and judges every selector's condition in it)
		// the head of the loop: `_str, err := selector.Val.Unquote()`, its error check, then optionally the anchoring
		// `if selector.Op == "=~" || selector.Op == "!~" { _str = "^(?:" + _str + ")$" }`, then `var clause …`, the switch
		var anchoredOps []string
		anchorPre, anchorSuf := "", ""
		if len(loopBody) < 4 || promPrintNode(fset, loopBody[0]) != "_str, err := selector.Val.Unquote()" {
			return "", fmt.Errorf("getMatchers: the loop does not start with the Unquote of the selector value")
		}
		for _, st := range loopBody[2:] {
			if _, ok := st.(*ast.SwitchStmt); ok {
				break
			}
			txt := promPrintNode(fset, st)
			if !strings.Contains(txt, "_str") {
				continue
			}
			ifs, ok := st.(*ast.IfStmt)
			if !ok || ifs.Else != nil || ifs.Init != nil || len(ifs.Body.List) != 1 {
				return "", fmt.Errorf("getMatchers: statement touching _str before the switch not recognised: %s", txt)
			}
			var collect func(e ast.Expr) bool
			collect = func(e ast.Expr) bool {
				be, ok := e.(*ast.BinaryExpr)
				if !ok {
					return false
				}
				if be.Op == token.LOR {
					return collect(be.X) && collect(be.Y)
				}
				if be.Op != token.EQL || promPrintNode(fset, be.X) != "selector.Op" {
					return false
				}
				op, ok := strLit(be.Y)
				if !ok {
					return false
				}
				anchoredOps = append(anchoredOps, op)
				return true
			}
			if !collect(ifs.Cond) {
				return "", fmt.Errorf("getMatchers: condition %q not recognised", promPrintNode(fset, ifs.Cond))
			}
			as, ok := ifs.Body.List[0].(*ast.AssignStmt)
			if !ok || len(as.Lhs) != 1 || promPrintNode(fset, as.Lhs[0]) != "_str" || as.Tok != token.ASSIGN {
				return "", fmt.Errorf("getMatchers: value rewrite not recognised")
			}
			outer, ok := as.Rhs[0].(*ast.BinaryExpr)
			if !ok || outer.Op != token.ADD {
				return "", fmt.Errorf("getMatchers: value rewrite not recognised")
			}
			inner, ok := outer.X.(*ast.BinaryExpr)
			if !ok || inner.Op != token.ADD || promPrintNode(fset, inner.Y) != "_str" {
				return "", fmt.Errorf("getMatchers: value rewrite not recognised")
			}
			var ok1, ok2 bool
			anchorPre, ok1 = strLit(inner.X)
			anchorSuf, ok2 = strLit(outer.Y)
			if !ok1 || !ok2 {
				return "", fmt.Errorf("getMatchers: value rewrite not recognised")
			}
		}
		// ---- selectors that accept the empty value (after `fix: a Pyroscope selector that accepts the empty value …`):
		// the tail of the loop (key/value selectors) and the key/value block of Process, compared with the two shapes
		// the model knows
		var tail []string
		for i, st := range loopBody {
			if _, ok := st.(*ast.SwitchStmt); ok {
				for _, t := range loopBody[i+1:] {
					tail = append(tail, promPrintNode(fset, t))
				}
			}
		}
		const globalStmt = `if clause != nil { globalClauses = append(globalClauses, clause) continue }`
		const errStmt = `if err != nil { return nil, err }`
		tailOld := []string{globalStmt,
			`clause, err = s.getMatcherClause(sql.NewRawObject("val"), selector.Op, sql.NewStringVal(_str))`, errStmt,
			`clause = sql.And(sql.Eq(sql.NewRawObject("key"), sql.NewStringVal(selector.Name)), clause)`,
			`kvClauses = append(kvClauses, clause)`}
		tailNew := []string{globalStmt,
			`op := selector.Op`, `optional, err := acceptsEmpty(op, _str)`, errStmt,
			`if optional { op = inverseOp(op) } else { kvRequired |= 1 << len(kvClauses) }`,
			`clause, err = s.getMatcherClause(sql.NewRawObject("val"), op, sql.NewStringVal(_str))`, errStmt,
			`clause = sql.And(sql.Eq(sql.NewRawObject("key"), sql.NewStringVal(selector.Name)), clause)`,
			`kvClauses = append(kvClauses, clause)`}
		pd := findFunc(f, "StreamSelectorPlanner", "Process")
		if pd == nil {
			return "", fmt.Errorf("StreamSelectorPlanner.Process not found")
		}
		kvBlock := ""
		for _, st := range pd.Body.List {
			if ifs, ok := st.(*ast.IfStmt); ok && promPrintNode(fset, ifs.Cond) == "len(matchers.kvMatchers) > 0" {
				kvBlock = promPrintNode(fset, ifs.Body)
			}
		}
		const kvOld = `{ res = res. AndWhere(sql.Or(matchers.kvMatchers...)). AndHaving(sql.Eq( clickhouse_planner.NewSqlBitSetAnd(matchers.kvMatchers), sql.NewIntVal((1<<len(matchers.kvMatchers))-1))) }`
		const kvNew = `{ if matchers.kvRequired != 0 { res = res.AndWhere(sql.Or(matchers.kvMatchers...)) } res = res.AndHaving(sql.Eq( clickhouse_planner.NewSqlBitSetAnd(matchers.kvMatchers), sql.NewIntVal(matchers.kvRequired))) }`
		absentLabel := ""
		var inverseOps [][2]string
		inverseDefault := ""
		switch {
		case strings.Join(tail, "\n") == strings.Join(tailOld, "\n") && kvBlock == kvOld:
			absentLabel = "row-required"
		case strings.Join(tail, "\n") == strings.Join(tailNew, "\n") && kvBlock == kvNew:
			absentLabel = "inverse"
			ae := findFunc(f, "", "acceptsEmpty")
			const aeBody = `{ switch op { case "=": return val == "", nil case "!=": return val != "", nil case "=~", "!~": re, err := regexp.Compile(val) if err != nil { return false, err } return re.MatchString("") == (op == "=~"), nil } return false, fmt.Errorf("unknown operator: %s", op) }`
			if ae == nil || promPrintNode(fset, ae.Body) != aeBody {
				return "", fmt.Errorf("acceptsEmpty: body not recognised")
			}
			io := findFunc(f, "", "inverseOp")
			if io == nil || len(io.Body.List) != 2 {
				return "", fmt.Errorf("inverseOp: expected a switch followed by a return")
			}
			isw, ok := io.Body.List[0].(*ast.SwitchStmt)
			if !ok || promPrintNode(fset, isw.Tag) != "op" {
				return "", fmt.Errorf("inverseOp: expected switch op")
			}
			for _, st := range isw.Body.List {
				cc := st.(*ast.CaseClause)
				if len(cc.List) != 1 || len(cc.Body) != 1 {
					return "", fmt.Errorf("inverseOp: unexpected case shape")
				}
				from, ok1 := strLit(cc.List[0])
				rs, ok2 := cc.Body[0].(*ast.ReturnStmt)
				if !ok1 || !ok2 || len(rs.Results) != 1 {
					return "", fmt.Errorf("inverseOp: unexpected case shape")
				}
				to, ok := strLit(rs.Results[0])
				if !ok {
					return "", fmt.Errorf("inverseOp: case does not return a literal")
				}
				inverseOps = append(inverseOps, [2]string{from, to})
			}
			rs, ok := io.Body.List[1].(*ast.ReturnStmt)
			if !ok || len(rs.Results) != 1 {
				return "", fmt.Errorf("inverseOp: no final return")
			}
			inverseDefault, ok = strLit(rs.Results[0])
			if !ok {
				return "", fmt.Errorf("inverseOp: final return is not a literal")
			}
		default:
			return "", fmt.Errorf("getMatchers / Process: the key/value selector code is neither of the two known shapes: tail %q, block %q", tail, kvBlock)
		}
		var b strings.Builder
		b.WriteString("namespace Qryn.Gen.ProfSelect\n")
		b.WriteString("/-- getMatchers/Process: \"inverse\" = a key/value selector that accepts the empty value is asked inverted and its bit must stay clear; \"row-required\" = every key/value selector needs an index row (the code as it was written) -/\n")
		fmt.Fprintf(&b, "def absentLabel : String := %s\n", leanStr(absentLabel))
		b.WriteString("/-- inverseOp: operator ↦ its inverse (switch cases in order), and the value returned for every other operator -/\n")
		b.WriteString("def inverseOps : List (String × String) := [")
		for i, p := range inverseOps {
			if i > 0 {
				b.WriteString(", ")
			}
			fmt.Fprintf(&b, "(%s, %s)", leanStr(p[0]), leanStr(p[1]))
		}
		fmt.Fprintf(&b, "]\ndef inverseDefault : String := %s\n", leanStr(inverseDefault))
		b.WriteString("/-- getMatchers: pseudo-label ↦ (SQL field, applied inside arrayExists(x -> …, sample_types_units)) -/\n")
		b.WriteString("def pseudoLabels : List (String × (String × Bool)) := [")
		for i, p := range pseudos {
			if i > 0 {
				b.WriteString(",\n  ")
			}
			fmt.Fprintf(&b, "(%s, (%s, %v))", leanStr(p.name), leanStr(p.field), p.arr)
		}
		b.WriteString("]\n/-- getMatcherClause: operator ↦ (comparison, left side is match(field, value) and right side 1) -/\n")
		b.WriteString("def opClauses : List (String × (String × Bool)) := [")
		for i, c := range ops {
			if i > 0 {
				b.WriteString(", ")
			}
			fmt.Fprintf(&b, "(%s, (%s, %v))", leanStr(c.op), leanStr(c.fn), c.match)
		}
		b.WriteString("]\n/-- getMatchers: operators whose value is wrapped as prefix ++ value ++ suffix before it reaches match() -/\n")
		fmt.Fprintf(&b, "def anchoredOps : List String := %s\ndef valuePrefix : String := %s\ndef valueSuffix : String := %s\n", leanStrList(anchoredOps), leanStr(anchorPre), leanStr(anchorSuf))
		b.WriteString("end Qryn.Gen.ProfSelect\n")
		return b.String(), nil
	})
}
