package main

import (
	"fmt"
	"go/ast"
	"strings"
)

// Gen.ProfSelect: the Pyroscope selector planner (reader/prof/transpiler/planner_selector.go).
//   * getMatchers: pseudo-label ↦ (SQL field the matcher is applied to, wrapped in arrayExists over sample_types_units?)
//   * getMatcherClause: operator ↦ (comparison, applied to match(field, value)?)
//   * Process / the key-value fallback: shape guards (fail closed), the text itself is compared in the fpsql-prof stream
func init() {
	register("ProfSelect", func() (string, error) {
		cmp, err := sqlCmpFns()
		if err != nil {
			return "", err
		}
		fset, f, err := parseFile("reader/prof/transpiler/planner_selector.go")
		if err != nil {
			return "", err
		}
		// ---- getMatcherClause
		fd := findFunc(f, "StreamSelectorPlanner", "getMatcherClause")
		if fd == nil {
			return "", fmt.Errorf("getMatcherClause not found")
		}
		var sw *ast.SwitchStmt
		for _, st := range fd.Body.List {
			if s, ok := st.(*ast.SwitchStmt); ok && s.Tag != nil && promPrintNode(fset, s.Tag) == "op" {
				sw = s
			}
		}
		if sw == nil {
			return "", fmt.Errorf("getMatcherClause: switch op not found")
		}
		type opc struct {
			op, fn string
			match  bool
		}
		var ops []opc
		for _, st := range sw.Body.List {
			cc := st.(*ast.CaseClause)
			if len(cc.List) != 1 || len(cc.Body) != 1 {
				return "", fmt.Errorf("getMatcherClause: unexpected case shape")
			}
			op, ok := strLit(cc.List[0])
			if !ok {
				return "", fmt.Errorf("getMatcherClause: case is not a literal")
			}
			rs, ok := cc.Body[0].(*ast.ReturnStmt)
			if !ok || len(rs.Results) != 2 || promPrintNode(fset, rs.Results[1]) != "nil" {
				return "", fmt.Errorf("getMatcherClause: case %q does not return (clause, nil)", op)
			}
			call, ok := rs.Results[0].(*ast.CallExpr)
			if !ok || len(call.Args) != 2 {
				return "", fmt.Errorf("getMatcherClause: case %q: unexpected clause", op)
			}
			fn, ok := selName(call.Fun, "sql")
			if !ok || cmp[fn] == "" {
				return "", fmt.Errorf("getMatcherClause: case %q: unknown comparison", op)
			}
			c := opc{op: op, fn: cmp[fn]}
			a0, a1 := promPrintNode(fset, call.Args[0]), promPrintNode(fset, call.Args[1])
			switch {
			case a0 == "field" && a1 == "val":
			case strings.HasPrefix(a0, "sql.NewCustomCol(") && strings.Contains(a0, `fmt.Sprintf("match(%s, %s)", strField, strVal)`) && a1 == `sql.NewRawObject("1")`:
				c.match = true
			default:
				return "", fmt.Errorf("getMatcherClause: case %q: shape not recognised", op)
			}
			ops = append(ops, c)
		}
		// ---- getMatchers
		fd = findFunc(f, "StreamSelectorPlanner", "getMatchers")
		if fd == nil {
			return "", fmt.Errorf("getMatchers not found")
		}
		var nameSw *ast.SwitchStmt
		var loopBody []ast.Stmt
		ast.Inspect(fd.Body, func(n ast.Node) bool {
			if rs, ok := n.(*ast.RangeStmt); ok && promPrintNode(fset, rs.X) == "s.Selectors" {
				loopBody = rs.Body.List
			}
			if s, ok := n.(*ast.SwitchStmt); ok && s.Tag != nil && promPrintNode(fset, s.Tag) == "selector.Name" {
				nameSw = s
			}
			return true
		})
		if nameSw == nil || loopBody == nil {
			return "", fmt.Errorf("getMatchers: loop / switch selector.Name not found")
		}
		type pseudo struct {
			name, field string
			arr         bool
		}
		var pseudos []pseudo
		for _, st := range nameSw.Body.List {
			cc := st.(*ast.CaseClause)
			if len(cc.List) != 1 {
				return "", fmt.Errorf("getMatchers: unexpected case shape")
			}
			name, ok := strLit(cc.List[0])
			if !ok {
				return "", fmt.Errorf("getMatchers: case is not a literal")
			}
			p := pseudo{name: name}
			locals := map[string]string{}
			var field string
			nCalls := 0
			for _, bs := range cc.Body {
				ast.Inspect(bs, func(n ast.Node) bool {
					switch x := n.(type) {
					case *ast.AssignStmt:
						if len(x.Lhs) == 1 && len(x.Rhs) == 1 {
							if id, ok := x.Lhs[0].(*ast.Ident); ok {
								if s, ok := strLit(x.Rhs[0]); ok {
									locals[id.Name] = s
								}
							}
						}
					case *ast.CallExpr:
						switch promPrintNode(fset, x.Fun) {
						case "s.getMatcherClause":
							nCalls++
							if len(x.Args) == 3 && promPrintNode(fset, x.Args[1]) == "selector.Op" && promPrintNode(fset, x.Args[2]) == "sql.NewStringVal(_str)" {
								if c, ok := x.Args[0].(*ast.CallExpr); ok && promPrintNode(fset, c.Fun) == "sql.NewRawObject" && len(c.Args) == 1 {
									if s, ok := strLit(c.Args[0]); ok {
										field = s
									} else if id, ok := c.Args[0].(*ast.Ident); ok {
										field = locals[id.Name]
									}
								}
							}
						case "s.getArrayExists":
							if promPrintNode(fset, x) == `s.getArrayExists(cond, sql.NewRawObject("sample_types_units"))` {
								p.arr = true
							}
						}
					}
					return true
				})
			}
			if nCalls != 1 || field == "" {
				return "", fmt.Errorf("getMatchers: case %q: field of the matcher not recognised", name)
			}
			p.field = field
			if p.arr {
				// the clause must be  sql.Eq(arrayExists(...), 1)
				found := false
				for _, bs := range cc.Body {
					if promPrintNode(fset, bs) == `clause = sql.Eq(s.getArrayExists(cond, sql.NewRawObject("sample_types_units")), sql.NewIntVal(1))` {
						found = true
					}
				}
				if !found {
					return "", fmt.Errorf("getMatchers: case %q: arrayExists clause not recognised", name)
				}
			}
			pseudos = append(pseudos, p)
		}
		// (the tail of the loop, getArrayExists and Process are not Gen facts: the profsql stream compares the
		// rendered text byte for byte and judges every selector's condition in it)
		_ = loopBody
		var b strings.Builder
		b.WriteString("namespace Qryn.Gen.ProfSelect\n")
		b.WriteString("/-- getMatchers: pseudo-label ↦ (SQL field, applied inside arrayExists(x -> …, sample_types_units)) -/\n")
		b.WriteString("def pseudoLabels : List (String × (String × Bool)) := [")
		for i, p := range pseudos {
			if i > 0 {
				b.WriteString(",\n  ")
			}
			fmt.Fprintf(&b, "(%s, (%s, %v))", leanStr(p.name), leanStr(p.field), p.arr)
		}
		b.WriteString("]\n/-- getMatcherClause: operator ↦ (comparison, left side is match(field, value) and right side 1) -/\n")
		b.WriteString("def opClauses : List (String × (String × Bool)) := [")
		for i, c := range ops {
			if i > 0 {
				b.WriteString(", ")
			}
			fmt.Fprintf(&b, "(%s, (%s, %v))", leanStr(c.op), leanStr(c.fn), c.match)
		}
		b.WriteString("]\nend Qryn.Gen.ProfSelect\n")
		return b.String(), nil
	})
}
