package main

import (
	"fmt"
	"go/ast"
	"go/token"
	"strings"
)

// Gen.ProfSelect: the Pyroscope selector planner (reader/prof/transpiler/planner_selector.go).
//   - getMatchers: pseudo-label ↦ (SQL field the matcher is applied to, wrapped in arrayExists over sample_types_units?)
//   - getMatcherClause: operator ↦ (comparison, applied to match(field, value)?)
//   - Process / the key-value fallback: shape guards (fail closed), the text itself is compared in the fpsql-prof stream
func init() {
	register("ProfSelect", func() (string, error) {
		cmp, err := sqlCmpFns()
		if err != nil {
			return "", err
		}
		fset, f, err := parseFile("reader/prof/transpiler/planner_selector.go")
		if err != nil {
			return "", err
		}
		// ---- getMatcherClause
		fd := findFunc(f, "StreamSelectorPlanner", "getMatcherClause")
		if fd == nil {
			return "", fmt.Errorf("getMatcherClause not found")
		}
		var sw *ast.SwitchStmt
		for _, st := range fd.Body.List {
			if s, ok := st.(*ast.SwitchStmt); ok && s.Tag != nil && promPrintNode(fset, s.Tag) == "op" {
				sw = s
			}
		}
		if sw == nil {
			return "", fmt.Errorf("getMatcherClause: switch op not found")
		}
		type opc struct {
			op, fn string
			match  bool
		}
		var ops []opc
		for _, st := range sw.Body.List {
			cc := st.(*ast.CaseClause)
			if len(cc.List) != 1 || len(cc.Body) != 1 {
				return "", fmt.Errorf("getMatcherClause: unexpected case shape")
			}
			op, ok := strLit(cc.List[0])
			if !ok {
				return "", fmt.Errorf("getMatcherClause: case is not a literal")
			}
			rs, ok := cc.Body[0].(*ast.ReturnStmt)
			if !ok || len(rs.Results) != 2 || promPrintNode(fset, rs.Results[1]) != "nil" {
				return "", fmt.Errorf("getMatcherClause: case %q does not return (clause, nil)", op)
			}
			call, ok := rs.Results[0].(*ast.CallExpr)
			if !ok || len(call.Args) != 2 {
				return "", fmt.Errorf("getMatcherClause: case %q: unexpected clause", op)
			}
			fn, ok := selName(call.Fun, "sql")
			if !ok || cmp[fn] == "" {
				return "", fmt.Errorf("getMatcherClause: case %q: unknown comparison", op)
			}
			c := opc{op: op, fn: cmp[fn]}
			a0, a1 := promPrintNode(fset, call.Args[0]), promPrintNode(fset, call.Args[1])
			switch {
			case a0 == "field" && a1 == "val":
			case strings.HasPrefix(a0, "sql.NewCustomCol(") && strings.Contains(a0, `fmt.Sprintf("match(%s, %s)", strField, strVal)`) && a1 == `sql.NewRawObject("1")`:
				c.match = true
			default:
				return "", fmt.Errorf("getMatcherClause: case %q: shape not recognised", op)
			}
			ops = append(ops, c)
		}
		// ---- getMatchers
		fd = findFunc(f, "StreamSelectorPlanner", "getMatchers")
		if fd == nil {
			return "", fmt.Errorf("getMatchers not found")
		}
		var nameSw *ast.SwitchStmt
		var loopBody []ast.Stmt
		ast.Inspect(fd.Body, func(n ast.Node) bool {
			if rs, ok := n.(*ast.RangeStmt); ok && promPrintNode(fset, rs.X) == "s.Selectors" {
				loopBody = rs.Body.List
			}
			if s, ok := n.(*ast.SwitchStmt); ok && s.Tag != nil && promPrintNode(fset, s.Tag) == "selector.Name" {
				nameSw = s
			}
			return true
		})
		if nameSw == nil || loopBody == nil {
			return "", fmt.Errorf("getMatchers: loop / switch selector.Name not found")
		}
		type pseudo struct {
			name, field string
			arr         bool
		}
		var pseudos []pseudo
		for _, st := range nameSw.Body.List {
			cc := st.(*ast.CaseClause)
			if len(cc.List) != 1 {
				return "", fmt.Errorf("getMatchers: unexpected case shape")
			}
			name, ok := strLit(cc.List[0])
			if !ok {
				return "", fmt.Errorf("getMatchers: case is not a literal")
			}
			p := pseudo{name: name}
			locals := map[string]string{}
			var field string
			nCalls := 0
			for _, bs := range cc.Body {
				ast.Inspect(bs, func(n ast.Node) bool {
					switch x := n.(type) {
					case *ast.AssignStmt:
						if len(x.Lhs) == 1 && len(x.Rhs) == 1 {
							if id, ok := x.Lhs[0].(*ast.Ident); ok {
								if s, ok := strLit(x.Rhs[0]); ok {
									locals[id.Name] = s
								}
							}
						}
					case *ast.CallExpr:
						switch promPrintNode(fset, x.Fun) {
						case "s.getMatcherClause":
							nCalls++
							if len(x.Args) == 3 && promPrintNode(fset, x.Args[1]) == "selector.Op" && promPrintNode(fset, x.Args[2]) == "sql.NewStringVal(_str)" {
								if c, ok := x.Args[0].(*ast.CallExpr); ok && promPrintNode(fset, c.Fun) == "sql.NewRawObject" && len(c.Args) == 1 {
									if s, ok := strLit(c.Args[0]); ok {
										field = s
									} else if id, ok := c.Args[0].(*ast.Ident); ok {
										field = locals[id.Name]
									}
								}
							}
						case "s.getArrayExists":
							if promPrintNode(fset, x) == `s.getArrayExists(cond, sql.NewRawObject("sample_types_units"))` {
								p.arr = true
							}
						}
					}
					return true
				})
			}
			if nCalls != 1 || field == "" {
				return "", fmt.Errorf("getMatchers: case %q: field of the matcher not recognised", name)
			}
			p.field = field
			if p.arr {
				// the clause must be  sql.Eq(arrayExists(...), 1)
				found := false
				for _, bs := range cc.Body {
					if promPrintNode(fset, bs) == `clause = sql.Eq(s.getArrayExists(cond, sql.NewRawObject("sample_types_units")), sql.NewIntVal(1))` {
						found = true
					}
				}
				if !found {
					return "", fmt.Errorf("getMatchers: case %q: arrayExists clause not recognised", name)
				}
			}
			pseudos = append(pseudos, p)
		}
		// (the tail of the loop, getArrayExists and Process are not Gen facts: the profsql stream compares the
		// rendered text byte for byte and judges every selector's condition in it)
		// the head of the loop: `_str, err := selector.Val.Unquote()`, its error check, then optionally the anchoring
		// `if selector.Op == "=~" || selector.Op == "!~" { _str = "^(?:" + _str + ")$" }`, then `var clause …`, the switch
		var anchoredOps []string
		anchorPre, anchorSuf := "", ""
		if len(loopBody) < 4 || promPrintNode(fset, loopBody[0]) != "_str, err := selector.Val.Unquote()" {
			return "", fmt.Errorf("getMatchers: the loop does not start with the Unquote of the selector value")
		}
		for _, st := range loopBody[2:] {
			if _, ok := st.(*ast.SwitchStmt); ok {
				break
			}
			txt := promPrintNode(fset, st)
			if !strings.Contains(txt, "_str") {
				continue
			}
			ifs, ok := st.(*ast.IfStmt)
			if !ok || ifs.Else != nil || ifs.Init != nil || len(ifs.Body.List) != 1 {
				return "", fmt.Errorf("getMatchers: statement touching _str before the switch not recognised: %s", txt)
			}
			var collect func(e ast.Expr) bool
			collect = func(e ast.Expr) bool {
				be, ok := e.(*ast.BinaryExpr)
				if !ok {
					return false
				}
				if be.Op == token.LOR {
					return collect(be.X) && collect(be.Y)
				}
				if be.Op != token.EQL || promPrintNode(fset, be.X) != "selector.Op" {
					return false
				}
				op, ok := strLit(be.Y)
				if !ok {
					return false
				}
				anchoredOps = append(anchoredOps, op)
				return true
			}
			if !collect(ifs.Cond) {
				return "", fmt.Errorf("getMatchers: condition %q not recognised", promPrintNode(fset, ifs.Cond))
			}
			as, ok := ifs.Body.List[0].(*ast.AssignStmt)
			if !ok || len(as.Lhs) != 1 || promPrintNode(fset, as.Lhs[0]) != "_str" || as.Tok != token.ASSIGN {
				return "", fmt.Errorf("getMatchers: value rewrite not recognised")
			}
			outer, ok := as.Rhs[0].(*ast.BinaryExpr)
			if !ok || outer.Op != token.ADD {
				return "", fmt.Errorf("getMatchers: value rewrite not recognised")
			}
			inner, ok := outer.X.(*ast.BinaryExpr)
			if !ok || inner.Op != token.ADD || promPrintNode(fset, inner.Y) != "_str" {
				return "", fmt.Errorf("getMatchers: value rewrite not recognised")
			}
			var ok1, ok2 bool
			anchorPre, ok1 = strLit(inner.X)
			anchorSuf, ok2 = strLit(outer.Y)
			if !ok1 || !ok2 {
				return "", fmt.Errorf("getMatchers: value rewrite not recognised")
			}
		}
		var b strings.Builder
		b.WriteString("namespace Qryn.Gen.ProfSelect\n")
		b.WriteString("/-- getMatchers: pseudo-label ↦ (SQL field, applied inside arrayExists(x -> …, sample_types_units)) -/\n")
		b.WriteString("def pseudoLabels : List (String × (String × Bool)) := [")
		for i, p := range pseudos {
			if i > 0 {
				b.WriteString(",\n  ")
			}
			fmt.Fprintf(&b, "(%s, (%s, %v))", leanStr(p.name), leanStr(p.field), p.arr)
		}
		b.WriteString("]\n/-- getMatcherClause: operator ↦ (comparison, left side is match(field, value) and right side 1) -/\n")
		b.WriteString("def opClauses : List (String × (String × Bool)) := [")
		for i, c := range ops {
			if i > 0 {
				b.WriteString(", ")
			}
			fmt.Fprintf(&b, "(%s, (%s, %v))", leanStr(c.op), leanStr(c.fn), c.match)
		}
		b.WriteString("]\n/-- getMatchers: operators whose value is wrapped as prefix ++ value ++ suffix before it reaches match() -/\n")
		fmt.Fprintf(&b, "def anchoredOps : List String := %s\ndef valuePrefix : String := %s\ndef valueSuffix : String := %s\n", leanStrList(anchoredOps), leanStr(anchorPre), leanStr(anchorSuf))
		b.WriteString("end Qryn.Gen.ProfSelect\n")
		return b.String(), nil
	})
}
