package main

import (
	"bytes"
	"fmt"
	"go/ast"
	"go/printer"
	"go/token"
	"regexp"
	"strconv"
	"strings"
)

// Gen.Rotate: what ctrl/qryn/maintenance/rotate.go says about the retention groups —
//   * the calls of storagePolicyUpdate / rotateTables in Rotate, in order: settings row name, tables, minimum tier
//     interval in seconds, time expression, column of the drop expression (each call followed by `if err != nil {return err}`),
//   * the statement skeleton of rotateTables and storagePolicyUpdate ("alter all tables of the group, then put the setting"),
//   * the expression converting a tier duration to seconds and its clamp,
//   * the format of the settings key that is hashed into the fingerprint.
// Fails closed when a shape is not recognised.

func rotExprStr(e ast.Node) string {
	var b bytes.Buffer
	printer.Fprint(&b, token.NewFileSet(), e)
	return b.String()
}

var plainName = regexp.MustCompile(`^[A-Za-z0-9_]+$`)

func isErrCheck(s ast.Stmt) bool {
	is, ok := s.(*ast.IfStmt)
	if !ok || is.Init != nil || is.Else != nil || rotExprStr(is.Cond) != "err != nil" || len(is.Body.List) == 0 {
		return false
	}
	r, ok := is.Body.List[len(is.Body.List)-1].(*ast.ReturnStmt)
	if !ok || len(r.Results) != 1 {
		return false
	}
	if id, ok := r.Results[0].(*ast.Ident); ok && id.Name == "nil" {
		return false
	}
	return true
}

func rotCallName(c *ast.CallExpr) string {
	switch f := c.Fun.(type) {
	case *ast.Ident:
		return f.Name
	case *ast.SelectorExpr:
		return rotExprStr(f)
	}
	return ""
}

// durSeconds evaluates a constant duration expression built from time.{Second,Minute,Hour}, integer literals and `*`.
func durSeconds(e ast.Expr) (int64, bool, error) {
	switch x := e.(type) {
	case *ast.ParenExpr:
		return durSeconds(x.X)
	case *ast.BasicLit:
		if x.Kind != token.INT {
			return 0, false, fmt.Errorf("not an integer literal: %s", x.Value)
		}
		v, err := strconv.ParseInt(x.Value, 0, 64)
		return v, false, err
	case *ast.SelectorExpr:
		switch rotExprStr(x) {
		case "time.Second":
			return 1, true, nil
		case "time.Minute":
			return 60, true, nil
		case "time.Hour":
			return 3600, true, nil
		}
		return 0, false, fmt.Errorf("unknown duration unit %s", rotExprStr(x))
	case *ast.BinaryExpr:
		if x.Op != token.MUL {
			return 0, false, fmt.Errorf("unsupported operator in %s", rotExprStr(x))
		}
		a, da, err := durSeconds(x.X)
		if err != nil {
			return 0, false, err
		}
		b, db, err := durSeconds(x.Y)
		if err != nil {
			return 0, false, err
		}
		if da && db {
			return 0, false, fmt.Errorf("duration * duration in %s", rotExprStr(x))
		}
		return a * b, da || db, nil
	}
	return 0, false, fmt.Errorf("unsupported duration expression %s", rotExprStr(e))
}

// shapeOf: the effectful skeleton of rotateTables / storagePolicyUpdate in source order.
func shapeOf(fd *ast.FuncDecl) ([]string, error) {
	var toks []string
	var errOut error
	// a deviation from the expected skeleton is written into the skeleton (the order fact then no longer proves)
	// instead of failing the extraction: the groups stay available to the model and the correspondence still runs
	fail := func(f string, a ...any) {
		toks = append(toks, "!"+fmt.Sprintf(f, a...))
	}
	qFmt, qArgs := "", []string(nil) // last `q := fmt.Sprintf(...)`
	sprintf := func(c *ast.CallExpr) (string, []string, bool) {
		if rotCallName(c) != "fmt.Sprintf" || len(c.Args) == 0 {
			return "", nil, false
		}
		f, ok := strLit(c.Args[0])
		if !ok {
			return "", nil, false
		}
		var as []string
		for _, a := range c.Args[1:] {
			as = append(as, rotExprStr(a))
		}
		return f, as, true
	}
	classify := func(format string, fargs []string, extra []string, loopVar string) string {
		norm := func(xs []string) string {
			var o []string
			for _, x := range xs {
				if x == loopVar {
					x = "$t"
				}
				o = append(o, x)
			}
			return strings.Join(o, ",")
		}
		switch format {
		case "ALTER TABLE %s %s\nMODIFY SETTING ttl_only_drop_parts = 1, merge_with_ttl_timeout = 3600, index_granularity = 8192":
			return "exec:tune(" + norm(fargs) + ")(" + norm(extra) + ")"
		case "ALTER TABLE %s %s MODIFY TTL %s":
			return "exec:ttl(" + norm(fargs) + ")(" + norm(extra) + ")"
		case "ALTER TABLE %s %s MODIFY SETTING storage_policy=$1":
			return "exec:policy(" + norm(fargs) + ")(" + norm(extra) + ")"
		}
		return "exec:?" + strconv.Quote(format)
	}
	var walk func(list []ast.Stmt, loopVar string)
	effect := func(c *ast.CallExpr, inReturn bool, loopVar string) (string, bool) {
		switch rotCallName(c) {
		case "getSetting":
			if len(c.Args) != 4 {
				fail("getSetting with %d arguments", len(c.Args))
				return "", false
			}
			return "get(" + rotExprStr(c.Args[1]) + "," + rotExprStr(c.Args[2]) + "," + rotExprStr(c.Args[3]) + ")", true
		case "putSetting":
			if len(c.Args) != 4 {
				fail("putSetting with %d arguments", len(c.Args))
				return "", false
			}
			p := "put("
			if inReturn {
				p = "return-put("
			}
			return p + rotExprStr(c.Args[1]) + "," + rotExprStr(c.Args[2]) + "," + rotExprStr(c.Args[3]) + ")", true
		case "db.Exec":
			if len(c.Args) < 2 {
				fail("db.Exec without statement")
				return "", false
			}
			var extra []string
			for _, a := range c.Args[2:] {
				extra = append(extra, rotExprStr(a))
			}
			if id, ok := c.Args[1].(*ast.Ident); ok && id.Name == "q" {
				return classify(qFmt, qArgs, extra, loopVar), true
			}
			if sc, ok := c.Args[1].(*ast.CallExpr); ok {
				if f, as, ok := sprintf(sc); ok {
					return classify(f, as, extra, loopVar), true
				}
			}
			return "exec:?" + rotExprStr(c.Args[1]), true
		case "db.Query", "db.QueryRow", "db.Select", "db.PrepareBatch", "db.AsyncInsert":
			return "other:" + rotCallName(c), true
		}
		return "", false
	}
	walk = func(list []ast.Stmt, loopVar string) {
		for i := 0; i < len(list); i++ {
			switch s := list[i].(type) {
			case *ast.AssignStmt:
				if len(s.Rhs) == 1 {
					if c, ok := s.Rhs[0].(*ast.CallExpr); ok {
						if len(s.Lhs) == 1 && rotExprStr(s.Lhs[0]) == "q" {
							if f, as, ok := sprintf(c); ok {
								qFmt, qArgs = f, as
								continue
							}
						}
						if tok, ok := effect(c, false, loopVar); ok {
							toks = append(toks, tok)
							// the error of an effect must be looked at by the next statement
							lhs := rotExprStr(s.Lhs[len(s.Lhs)-1])
							if lhs != "err" {
								fail("result of %s is assigned to %s, not err", rotCallName(c), lhs)
							}
							if i+1 >= len(list) {
								fail("%s is not followed by an error check", rotCallName(c))
								continue
							}
							if is, ok := list[i+1].(*ast.IfStmt); ok && strings.HasPrefix(rotExprStr(is.Cond), "err != nil ||") && len(is.Body.List) == 1 && rotExprStr(is.Body.List[0]) == "return err" && is.Else == nil {
								toks = append(toks, "return-if("+rotExprStr(is.Cond)+")")
								i++
							} else if isErrCheck(list[i+1]) {
								i++
							} else {
								fail("%s is not followed by `if err != nil { return ... }`", rotCallName(c))
							}
						}
					}
				}
			case *ast.RangeStmt:
				if s.Value == nil {
					fail("range without value variable")
					continue
				}
				toks = append(toks, "for("+rotExprStr(s.X)+")[")
				walk(s.Body.List, rotExprStr(s.Value))
				toks = append(toks, "]")
			case *ast.ReturnStmt:
				if len(s.Results) == 1 {
					if c, ok := s.Results[0].(*ast.CallExpr); ok {
						if tok, ok := effect(c, true, loopVar); ok {
							toks = append(toks, tok)
						}
					}
				}
			case *ast.ExprStmt:
				if c, ok := s.X.(*ast.CallExpr); ok {
					if _, ok := effect(c, false, loopVar); ok {
						fail("result of %s is dropped", rotCallName(c))
					}
				}
			case *ast.IfStmt:
				// an `if` that is not an error check directly after an effect: must not hide effects
				hidden := false
				ast.Inspect(s, func(n ast.Node) bool {
					if c, ok := n.(*ast.CallExpr); ok {
						if _, ok := effect(c, false, loopVar); ok {
							hidden = true
						}
					}
					return true
				})
				if hidden {
					fail("conditional effect: %s", rotExprStr(s.Cond))
				}
			case *ast.ForStmt, *ast.SwitchStmt, *ast.GoStmt, *ast.DeferStmt, *ast.BlockStmt:
				hidden := false
				ast.Inspect(s, func(n ast.Node) bool {
					if c, ok := n.(*ast.CallExpr); ok {
						if _, ok := effect(c, false, loopVar); ok {
							hidden = true
						}
					}
					return true
				})
				if hidden {
					fail("effect inside an unrecognised statement")
				}
			}
		}
	}
	walk(fd.Body.List, "")
	return toks, errOut
}


func leanBytesList(xs []string) string {
	var p []string
	for _, x := range xs {
		p = append(p, leanBytes(x))
	}
	return "[" + strings.Join(p, ", ") + "]"
}

func init() {
	register("Rotate", func() (string, error) {
		_, f, err := parseFile("ctrl/qryn/maintenance/rotate.go")
		if err != nil {
			return "", err
		}
		rot := findFunc(f, "", "Rotate")
		rt := findFunc(f, "", "rotateTables")
		sp := findFunc(f, "", "storagePolicyUpdate")
		gs := findFunc(f, "", "getSetting")
		ps := findFunc(f, "", "putSetting")
		if rot == nil || rt == nil || sp == nil || gs == nil || ps == nil {
			return "", fmt.Errorf("Rotate/rotateTables/storagePolicyUpdate/getSetting/putSetting not all found")
		}
		// ---- parameter names the positional reading below relies on
		params := func(fd *ast.FuncDecl) []string {
			var o []string
			for _, p := range fd.Type.Params.List {
				for _, n := range p.Names {
					o = append(o, n.Name)
				}
			}
			return o
		}
		if got := strings.Join(params(rt), ","); got != "db,clusterName,distributed,days,minTTL,insertTimeExpression,dropTTLExpression,settingName,logger,tables" {
			return "", fmt.Errorf("rotateTables parameters changed: %s", got)
		}
		if got := strings.Join(params(sp), ","); got != "db,clusterName,distributed,storagePolicy,setting,tables" {
			return "", fmt.Errorf("storagePolicyUpdate parameters changed: %s", got)
		}
		if got := strings.Join(params(rot), ","); got != "db,clusterName,distributed,days,dropTTLDays,storagePolicy,logger" {
			return "", fmt.Errorf("Rotate parameters changed: %s", got)
		}
		// ---- Rotate: locals and calls in order
		durs := map[string]int64{}
		dropFmt := map[string]string{}
		type grp struct {
			ttl      bool
			setting  string
			tables   []string
			min      int64
			timeExpr string
			dropCol  string
		}
		var groups []grp
		var rotateNotes []string
		list := rot.Body.List
		for i := 0; i < len(list); i++ {
			as, ok := list[i].(*ast.AssignStmt)
			if !ok {
				switch s := list[i].(type) {
				case *ast.IfStmt:
					if !isErrCheck(s) {
						rotateNotes = append(rotateNotes, "unexpected if "+rotExprStr(s.Cond))
					}
				case *ast.ReturnStmt:
				default:
					return "", fmt.Errorf("Rotate: unexpected statement %s", rotExprStr(list[i]))
				}
				continue
			}
			if len(as.Lhs) != 1 || len(as.Rhs) != 1 {
				return "", fmt.Errorf("Rotate: unexpected assignment %s", rotExprStr(as))
			}
			lhs := rotExprStr(as.Lhs[0])
			switch r := as.Rhs[0].(type) {
			case *ast.FuncLit:
				// func(column string) string { return fmt.Sprintf("%s + toIntervalDay(%d)", column, dropTTLDays) }
				if len(r.Body.List) != 1 {
					return "", fmt.Errorf("Rotate: closure %s has an unexpected body", lhs)
				}
				ret, ok := r.Body.List[0].(*ast.ReturnStmt)
				if !ok || len(ret.Results) != 1 {
					return "", fmt.Errorf("Rotate: closure %s has an unexpected body", lhs)
				}
				c, ok := ret.Results[0].(*ast.CallExpr)
				if !ok || rotCallName(c) != "fmt.Sprintf" || len(c.Args) != 3 || rotExprStr(c.Args[1]) != "column" || rotExprStr(c.Args[2]) != "dropTTLDays" {
					return "", fmt.Errorf("Rotate: closure %s is not Sprintf(format, column, dropTTLDays)", lhs)
				}
				fs, ok := strLit(c.Args[0])
				if !ok {
					return "", fmt.Errorf("Rotate: closure %s: format is not a literal", lhs)
				}
				dropFmt[lhs] = fs
			case *ast.CallExpr:
				switch rotCallName(r) {
				case "storagePolicyUpdate", "rotateTables":
					if lhs != "err" {
						return "", fmt.Errorf("Rotate: result of %s assigned to %s", rotCallName(r), lhs)
					}
					if i+1 >= len(list) || !isErrCheck(list[i+1]) {
						rotateNotes = append(rotateNotes, fmt.Sprintf("%s is not followed by `if err != nil { return err }`", rotExprStr(r)))
						i--
					}
					var g grp
					lits := func(es []ast.Expr) ([]string, error) {
						var o []string
						for _, e := range es {
							s, ok := strLit(e)
							if !ok {
								return nil, fmt.Errorf("Rotate: table argument %s is not a string literal", rotExprStr(e))
							}
							o = append(o, s)
						}
						return o, nil
					}
					if rotCallName(r) == "storagePolicyUpdate" {
						if len(r.Args) < 6 || rotExprStr(r.Args[0]) != "db" || rotExprStr(r.Args[1]) != "clusterName" || rotExprStr(r.Args[2]) != "distributed" || rotExprStr(r.Args[3]) != "storagePolicy" {
							return "", fmt.Errorf("Rotate: unexpected storagePolicyUpdate call %s", rotExprStr(r))
						}
						s, ok := strLit(r.Args[4])
						if !ok {
							return "", fmt.Errorf("Rotate: setting name is not a literal in %s", rotExprStr(r))
						}
						g.setting = s
						if g.tables, err = lits(r.Args[5:]); err != nil {
							return "", err
						}
					} else {
						if len(r.Args) < 10 || rotExprStr(r.Args[0]) != "db" || rotExprStr(r.Args[1]) != "clusterName" || rotExprStr(r.Args[2]) != "distributed" || rotExprStr(r.Args[3]) != "days" || rotExprStr(r.Args[8]) != "logger" {
							return "", fmt.Errorf("Rotate: unexpected rotateTables call %s", rotExprStr(r))
						}
						g.ttl = true
						m, ok := durs[rotExprStr(r.Args[4])]
						if !ok {
							return "", fmt.Errorf("Rotate: minimum %s is not a known local duration", rotExprStr(r.Args[4]))
						}
						g.min = m
						if g.timeExpr, ok = strLit(r.Args[5]); !ok {
							return "", fmt.Errorf("Rotate: time expression is not a literal in %s", rotExprStr(r))
						}
						dc, ok := r.Args[6].(*ast.CallExpr)
						if !ok || len(dc.Args) != 1 {
							return "", fmt.Errorf("Rotate: drop expression %s is not a call of a local closure", rotExprStr(r.Args[6]))
						}
						df, ok := dropFmt[rotCallName(dc)]
						if !ok || df != "%s + toIntervalDay(%d)" {
							return "", fmt.Errorf("Rotate: drop expression closure %s has format %q", rotCallName(dc), df)
						}
						if g.dropCol, ok = strLit(dc.Args[0]); !ok {
							return "", fmt.Errorf("Rotate: drop column is not a literal in %s", rotExprStr(dc))
						}
						if g.setting, ok = strLit(r.Args[7]); !ok {
							return "", fmt.Errorf("Rotate: setting name is not a literal in %s", rotExprStr(r))
						}
						if g.tables, err = lits(r.Args[9:]); err != nil {
							return "", err
						}
					}
					if !plainName.MatchString(g.setting) {
						return "", fmt.Errorf("setting name %q is not plain (strconv.Quote would escape it)", g.setting)
					}
					for _, t := range g.tables {
						if !plainName.MatchString(t) {
							return "", fmt.Errorf("table name %q is not plain", t)
						}
					}
					groups = append(groups, g)
					i++
				default:
					return "", fmt.Errorf("Rotate: unexpected call %s", rotExprStr(r))
				}
			default:
				// minTTL := time.Minute ; dayTTL := time.Hour * 24
				v, isDur, err := durSeconds(as.Rhs[0])
				if err != nil || !isDur {
					return "", fmt.Errorf("Rotate: local %s = %s is not a constant duration (%v)", lhs, rotExprStr(as.Rhs[0]), err)
				}
				durs[lhs] = v
			}
		}
		if len(groups) == 0 {
			return "", fmt.Errorf("Rotate: no group found")
		}
		// ---- skeletons
		rtShape, err := shapeOf(rt)
		if err != nil {
			return "", err
		}
		spShape, err := shapeOf(sp)
		if err != nil {
			return "", err
		}
		// ---- tier seconds: `x := <conv>` ; `if x < <min> { x = <min> }` inside the loop over days
		conv, clampCond, clampSet, tierFmt, diskStmt := "", "", "", "", ""
		ast.Inspect(rt.Body, func(n ast.Node) bool {
			rs, ok := n.(*ast.RangeStmt)
			if !ok || rotExprStr(rs.X) != "days" {
				return true
			}
			for _, s := range rs.Body.List {
				switch x := s.(type) {
				case *ast.AssignStmt:
					if len(x.Lhs) == 1 && len(x.Rhs) == 1 && x.Tok == token.DEFINE {
						if c, ok := x.Rhs[0].(*ast.CallExpr); ok && rotCallName(c) == "fmt.Sprintf" {
							if fs, ok := strLit(c.Args[0]); ok {
								var as []string
								for _, a := range c.Args[1:] {
									as = append(as, rotExprStr(a))
								}
								tierFmt = fs + "|" + strings.Join(as, ",")
							}
						} else if conv == "" {
							conv = rotExprStr(x.Lhs[0]) + " := " + rotExprStr(x.Rhs[0])
						}
					}
				case *ast.IfStmt:
					if len(x.Body.List) == 1 && x.Else == nil && x.Init == nil {
						if strings.Contains(rotExprStr(x.Cond), "<") {
							clampCond, clampSet = rotExprStr(x.Cond), rotExprStr(x.Body.List[0])
						} else {
							diskStmt = "if " + rotExprStr(x.Cond) + " { " + rotExprStr(x.Body.List[0]) + " }"
						}
					}
				}
			}
			return false
		})
		if conv == "" || clampCond == "" || tierFmt == "" {
			return "", fmt.Errorf("rotateTables: tier interval conversion / clamp / format not found")
		}
		// ---- settings key format (getSetting and putSetting must agree)
		keyFmt := func(fd *ast.FuncDecl) (string, error) {
			res := ""
			ast.Inspect(fd.Body, func(n ast.Node) bool {
				if c, ok := n.(*ast.CallExpr); ok && rotCallName(c) == "fmt.Sprintf" && len(c.Args) == 3 {
					if fs, ok := strLit(c.Args[0]); ok && strings.Contains(fs, "type") {
						res = fs + "|" + rotExprStr(c.Args[1]) + "," + rotExprStr(c.Args[2])
					}
				}
				return true
			})
			if res == "" {
				return "", fmt.Errorf("%s: settings key format not found", fd.Name.Name)
			}
			return res, nil
		}
		k1, err := keyFmt(gs)
		if err != nil {
			return "", err
		}
		k2, err := keyFmt(ps)
		if err != nil {
			return "", err
		}
		if k1 != k2 {
			return "", fmt.Errorf("getSetting and putSetting hash different keys: %q vs %q", k1, k2)
		}
		// ---- emit
		var b strings.Builder
		b.WriteString("namespace Qryn.Gen.Rotate\n")
		b.WriteString("/-- calls of storagePolicyUpdate / rotateTables in `Rotate`, in order:\n    (is TTL group, settings row name, tables, minimum tier interval [s], time expression, drop column) -/\n")
		b.WriteString("def groups : List (Bool × List UInt8 × List (List UInt8) × Int × List UInt8 × List UInt8) :=\n  [")
		for i, g := range groups {
			if i > 0 {
				b.WriteString(",\n   ")
			}
			fmt.Fprintf(&b, "-- %s %q tables=%q min=%d time=%q drop=%q\n   (%v, %s,\n    %s,\n    %d, %s, %s)", map[bool]string{true: "rotateTables", false: "storagePolicyUpdate"}[g.ttl],
				g.setting, g.tables, g.min, g.timeExpr, g.dropCol, g.ttl, leanBytes(g.setting), leanBytesList(g.tables), g.min, leanBytes(g.timeExpr), leanBytes(g.dropCol))
		}
		b.WriteString("]\n")
		fmt.Fprintf(&b, "/-- calls in `Rotate` whose error is not returned (expected: none) -/\ndef rotateNotes : List String :=\n  %s\n", leanStrList(rotateNotes))
		fmt.Fprintf(&b, "/-- effectful skeleton of rotateTables in source order (every effect is followed by an error check) -/\ndef ttlShape : List String :=\n  %s\n", leanStrList(rtShape))
		fmt.Fprintf(&b, "/-- effectful skeleton of storagePolicyUpdate -/\ndef policyShape : List String :=\n  %s\n", leanStrList(spShape))
		fmt.Fprintf(&b, "/-- tier interval: conversion, clamp condition, clamp assignment, format|arguments, disk clause -/\ndef tierConv : List String :=\n  %s\n", leanStrList([]string{conv, clampCond, clampSet, tierFmt, diskStmt}))
		fmt.Fprintf(&b, "/-- format|arguments of the text hashed into the settings fingerprint (same in getSetting and putSetting) -/\ndef keyFormat : String := %s\n", leanStr(k1))
		b.WriteString("end Qryn.Gen.Rotate\n")
		return b.String(), nil
	})
}
