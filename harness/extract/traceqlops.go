package main

import (
	"fmt"
	"go/ast"
	"strings"
)

// Gen.TraceQLOps: the operator → SQL operator maps of the switches in
// reader/traceql/transpiler/clickhouse_transpiler/{shared.go, attr_condition.go, aggregator.go},
// with the sql.Eq/Neq/... constructors resolved through reader/utils/sql_select/condition.go.

// sqlCondOps: constructor name → operator text, from `func Eq(l, r) *LogicalOp { return BinaryLogicalOp("==", l, r) }`
func sqlCondOps() (map[string]string, error) {
	_, f, err := parseFile("reader/utils/sql_select/condition.go")
	if err != nil {
		return nil, err
	}
	res := map[string]string{}
	for _, d := range f.Decls {
		fd, ok := d.(*ast.FuncDecl)
		if !ok || fd.Recv != nil || fd.Body == nil || len(fd.Body.List) != 1 {
			continue
		}
		ret, ok := fd.Body.List[0].(*ast.ReturnStmt)
		if !ok || len(ret.Results) != 1 {
			continue
		}
		call, ok := ret.Results[0].(*ast.CallExpr)
		if !ok || len(call.Args) != 3 {
			continue
		}
		if id, ok := call.Fun.(*ast.Ident); !ok || id.Name != "BinaryLogicalOp" {
			continue
		}
		if op, ok := strLit(call.Args[0]); ok {
			res[fd.Name.Name] = op
		}
	}
	if len(res) < 6 {
		return nil, fmt.Errorf("condition.go: expected the six comparison constructors, found %d", len(res))
	}
	return res, nil
}

func tqSelName(e ast.Expr) (string, bool) {
	se, ok := e.(*ast.SelectorExpr)
	if !ok {
		return "", false
	}
	if id, ok := se.X.(*ast.Ident); !ok || id.Name != "sql" {
		return "", false
	}
	return se.Sel.Name, true
}

// switchOn finds the first `switch <recv>.<field>` / `switch <ident>` statement in fn whose tag prints as tag
func switchOn(fd *ast.FuncDecl, tag string) *ast.SwitchStmt {
	var res *ast.SwitchStmt
	ast.Inspect(fd.Body, func(n ast.Node) bool {
		sw, ok := n.(*ast.SwitchStmt)
		if !ok || res != nil {
			return res == nil
		}
		switch t := sw.Tag.(type) {
		case *ast.Ident:
			if t.Name == tag {
				res = sw
			}
		case *ast.SelectorExpr:
			if id, ok := t.X.(*ast.Ident); ok && id.Name+"."+t.Sel.Name == tag {
				res = sw
			}
		}
		return res == nil
	})
	return res
}

type opCase struct {
	key  string
	body []ast.Stmt
}

func casesOf(sw *ast.SwitchStmt) ([]opCase, error) {
	var res []opCase
	for _, st := range sw.Body.List {
		cc := st.(*ast.CaseClause)
		if cc.List == nil {
			continue // default
		}
		for _, e := range cc.List {
			k, ok := strLit(e)
			if !ok {
				return nil, fmt.Errorf("case label is not a string literal")
			}
			res = append(res, opCase{k, cc.Body})
		}
	}
	return res, nil
}

func leanPairs(name, doc string, ps [][2]string) string {
	var sb strings.Builder
	fmt.Fprintf(&sb, "/-- %s -/\ndef %s : List (String × String) :=\n  [", doc, name)
	for i, p := range ps {
		if i > 0 {
			sb.WriteString(", ")
		}
		fmt.Fprintf(&sb, "(%s, %s)", leanStr(p[0]), leanStr(p[1]))
	}
	sb.WriteString("]\n")
	return sb.String()
}

func init() {
	register("TraceQLOps", func() (string, error) {
		ops, err := sqlCondOps()
		if err != nil {
			return "", err
		}
		dir := "reader/traceql/transpiler/clickhouse_transpiler/"
		// 1. getComparisonFn: case "=": return sql.Eq, nil
		_, f, err := parseFile(dir + "shared.go")
		if err != nil {
			return "", err
		}
		fd := findFunc(f, "", "getComparisonFn")
		if fd == nil {
			return "", fmt.Errorf("getComparisonFn not found")
		}
		sw := switchOn(fd, "op")
		if sw == nil {
			return "", fmt.Errorf("getComparisonFn: switch op not found")
		}
		cs, err := casesOf(sw)
		if err != nil {
			return "", err
		}
		var cmp [][2]string
		for _, c := range cs {
			if len(c.body) != 1 {
				return "", fmt.Errorf("getComparisonFn: case %q has an unexpected body", c.key)
			}
			ret, ok := c.body[0].(*ast.ReturnStmt)
			if !ok || len(ret.Results) != 2 {
				return "", fmt.Errorf("getComparisonFn: case %q does not return (fn, nil)", c.key)
			}
			n, ok := tqSelName(ret.Results[0])
			if !ok || ops[n] == "" {
				return "", fmt.Errorf("getComparisonFn: case %q returns an unknown constructor", c.key)
			}
			cmp = append(cmp, [2]string{c.key, ops[n]})
		}
		// 2. getTermNum: case "=": fn = sql.Eq
		_, f, err = parseFile(dir + "attr_condition.go")
		if err != nil {
			return "", err
		}
		fd = findFunc(f, "AttrConditionPlanner", "getTermNum")
		if fd == nil {
			return "", fmt.Errorf("getTermNum not found")
		}
		sw = switchOn(fd, "t.Op")
		if sw == nil {
			return "", fmt.Errorf("getTermNum: switch t.Op not found")
		}
		cs, err = casesOf(sw)
		if err != nil {
			return "", err
		}
		var num [][2]string
		for _, c := range cs {
			if len(c.body) != 1 {
				return "", fmt.Errorf("getTermNum: case %q has an unexpected body", c.key)
			}
			as, ok := c.body[0].(*ast.AssignStmt)
			if !ok || len(as.Rhs) != 1 {
				return "", fmt.Errorf("getTermNum: case %q is not an assignment", c.key)
			}
			n, ok := tqSelName(as.Rhs[0])
			if !ok || ops[n] == "" {
				return "", fmt.Errorf("getTermNum: case %q assigns an unknown constructor", c.key)
			}
			num = append(num, [2]string{c.key, ops[n]})
		}
		// 3. getTermStr: case "=": return sql.And(sql.Eq(key…), sql.Eq(sql.NewRawObject("val"), …)) / sql.Eq(&matchRe{…}, sql.NewIntVal(1))
		fd = findFunc(f, "AttrConditionPlanner", "getTermStr")
		if fd == nil {
			return "", fmt.Errorf("getTermStr not found")
		}
		sw = switchOn(fd, "t.Op")
		if sw == nil {
			return "", fmt.Errorf("getTermStr: switch t.Op not found")
		}
		cs, err = casesOf(sw)
		if err != nil {
			return "", err
		}
		var str [][2]string
		for _, c := range cs {
			var ret *ast.ReturnStmt
			for _, st := range c.body {
				if r, ok := st.(*ast.ReturnStmt); ok {
					ret = r
				}
			}
			if ret == nil || len(ret.Results) != 2 {
				return "", fmt.Errorf("getTermStr: case %q: no final return", c.key)
			}
			and, ok := ret.Results[0].(*ast.CallExpr)
			if n, ok2 := tqSelName(and.Fun); !ok || !ok2 || n != "And" || len(and.Args) != 2 {
				return "", fmt.Errorf("getTermStr: case %q does not return sql.And(key, value)", c.key)
			}
			vc, ok := and.Args[1].(*ast.CallExpr)
			if !ok || len(vc.Args) != 2 {
				return "", fmt.Errorf("getTermStr: case %q: value condition has an unexpected shape", c.key)
			}
			n, ok := tqSelName(vc.Fun)
			if !ok || ops[n] == "" {
				return "", fmt.Errorf("getTermStr: case %q: unknown constructor", c.key)
			}
			desc := ""
			switch l := vc.Args[0].(type) {
			case *ast.CallExpr: // sql.NewRawObject("val")
				if len(l.Args) == 1 {
					if s, ok := strLit(l.Args[0]); ok {
						desc = s + " " + ops[n]
					}
				}
			case *ast.UnaryExpr: // &matchRe{…} compared with NewIntVal(k)
				if cl, ok := l.X.(*ast.CompositeLit); ok {
					if id, ok := cl.Type.(*ast.Ident); ok && id.Name == "matchRe" {
						if rc, ok := vc.Args[1].(*ast.CallExpr); ok && len(rc.Args) == 1 {
							if bl, ok := rc.Args[0].(*ast.BasicLit); ok {
								desc = "match " + ops[n] + " " + bl.Value
							}
						}
					}
				}
			}
			if desc == "" {
				return "", fmt.Errorf("getTermStr: case %q: value condition not recognised", c.key)
			}
			str = append(str, [2]string{c.key, desc})
		}
		// 4. getAggregator: case "avg": return sql.NewRawObject("avgIf(agg_val, isNotNull(agg_val))"), nil
		_, f, err = parseFile(dir + "aggregator.go")
		if err != nil {
			return "", err
		}
		fd = findFunc(f, "AggregatorPlanner", "getAggregator")
		if fd == nil {
			return "", fmt.Errorf("getAggregator not found")
		}
		sw = switchOn(fd, "a.Fn")
		if sw == nil {
			return "", fmt.Errorf("getAggregator: switch a.Fn not found")
		}
		cs, err = casesOf(sw)
		if err != nil {
			return "", err
		}
		var agg, aggHead [][2]string
		for _, c := range cs {
			text := ""
			ast.Inspect(&ast.BlockStmt{List: c.body}, func(n ast.Node) bool {
				if s, ok := n.(*ast.BasicLit); ok && text == "" {
					if v, ok := strLit(s); ok {
						text = v
					}
				}
				return true
			})
			if text == "" {
				return "", fmt.Errorf("getAggregator: case %q: no SQL text", c.key)
			}
			agg = append(agg, [2]string{c.key, text})
			head, _, ok := strings.Cut(text, "(")
			if !ok {
				return "", fmt.Errorf("getAggregator: case %q: SQL text is not a function call", c.key)
			}
			aggHead = append(aggHead, [2]string{c.key, head})
		}
		s := "namespace Qryn.Gen\n" +
			leanPairs("traceqlCmpOps", "`getComparisonFn` (shared.go): TraceQL comparison → SQL operator", cmp) +
			leanPairs("traceqlNumOps", "`getTermNum` (attr_condition.go): TraceQL operator → SQL operator on `toFloat64OrZero(val)`", num) +
			leanPairs("traceqlStrOps", "`getTermStr` (attr_condition.go): TraceQL operator → shape of the value condition", str) +
			leanPairs("traceqlAggs", "`getAggregator` (aggregator.go): aggregate → SQL text (`%s` = prefix)", agg) +
			leanPairs("traceqlAggHeads", "the outermost SQL function of each aggregate", aggHead) +
			"end Qryn.Gen\n"
		return s, nil
	})
}
