package main

// Gen.Params — the position inventory of C10/C12: every request parameter read by a read controller
// (reader/controller/*.go), per HTTP handler, found syntactically:
//
//	query   r.URL.Query().Get("x"), r.URL.Query()["x"]
//	path    mux.Vars(r)["x"]
//	form    r.Form["x"], r.PostForm["x"], r.FormValue("x"), `for key … := range r.Form { if key == "x"`,
//	        schema.Decoder.Decode(&target, r.Form) → the fields of target's struct type
//	header  r.Header.Get("x")
//	body    json.Unmarshal / proto.Unmarshal(body, target) → the fields of target READ by the handler (req.Field)
//
// A handler is a method with the signature (http.ResponseWriter, *http.Request); reads made by helper functions
// of the package the request is handed to are attributed to the handler (transitively), with parameter names that
// are function parameters resolved at the call site, range variables over literal tables resolved to the literals.
// Anything the translator does not recognise about the request value is an error (fail closed).

import (
	"fmt"
	"go/ast"
	"go/parser"
	"go/token"
	"os"
	"path/filepath"
	"sort"
	"strings"
)

type pEntry struct{ file, handler, kind, name string }

type pFunc struct {
	file string
	decl *ast.FuncDecl
	name string // Recv.Method or Func
}

type pCtx struct {
	funcs   map[string]*pFunc          // by name (methods: also by bare method name when unique)
	structs map[string]*ast.StructType // package-level struct types
	imports map[string]map[string]string
	fset    *token.FileSet
}

func recvName(fd *ast.FuncDecl) string {
	if fd.Recv == nil || len(fd.Recv.List) != 1 {
		return ""
	}
	t := fd.Recv.List[0].Type
	if st, ok := t.(*ast.StarExpr); ok {
		t = st.X
	}
	if id, ok := t.(*ast.Ident); ok {
		return id.Name
	}
	return ""
}

func isSel(e ast.Expr, x, sel string) bool {
	s, ok := e.(*ast.SelectorExpr)
	if !ok || s.Sel.Name != sel {
		return false
	}
	id, ok := s.X.(*ast.Ident)
	return ok && id.Name == x
}

// reqParams: names of the parameters of type *http.Request
func reqParams(fd *ast.FuncDecl) map[string]bool {
	res := map[string]bool{}
	for _, f := range fd.Type.Params.List {
		st, ok := f.Type.(*ast.StarExpr)
		if !ok || !isSel(st.X, "http", "Request") {
			continue
		}
		for _, n := range f.Names {
			res[n.Name] = true
		}
	}
	return res
}

func isHandler(fd *ast.FuncDecl) bool {
	if fd.Recv == nil || fd.Type.Params == nil || len(fd.Type.Params.List) != 2 {
		return false
	}
	p := fd.Type.Params.List
	if !isSel(p[0].Type, "http", "ResponseWriter") {
		return false
	}
	st, ok := p[1].Type.(*ast.StarExpr)
	return ok && isSel(st.X, "http", "Request")
}

// nameVal: a parameter name expression — literal(s), or "param:<i>" when it is the i-th parameter of the function
type nameVal struct {
	lits  []string
	param int // -1: none
}

func paramIndex(fd *ast.FuncDecl, name string) int {
	i := 0
	for _, f := range fd.Type.Params.List {
		for _, n := range f.Names {
			if n.Name == name {
				return i
			}
			i++
		}
		if len(f.Names) == 0 {
			i++
		}
	}
	return -1
}

// rangeLits: ident is the value variable of an enclosing `for _, ident := range <composite literal>`
func rangeLits(fd *ast.FuncDecl, ident string, elem int) ([]string, bool) {
	var res []string
	found := false
	ast.Inspect(fd.Body, func(n ast.Node) bool {
		rs, ok := n.(*ast.RangeStmt)
		if !ok || rs.Value == nil {
			return true
		}
		id, ok := rs.Value.(*ast.Ident)
		if !ok || id.Name != ident {
			return true
		}
		cl, ok := rs.X.(*ast.CompositeLit)
		if !ok {
			return true
		}
		var out []string
		for _, el := range cl.Elts {
			if elem < 0 {
				s, ok := strLit(el)
				if !ok {
					return true
				}
				out = append(out, s)
				continue
			}
			inner, ok := el.(*ast.CompositeLit)
			if !ok || len(inner.Elts) <= elem {
				return true
			}
			s, ok := strLit(inner.Elts[elem])
			if !ok {
				return true
			}
			out = append(out, s)
		}
		res, found = out, true
		return false
	})
	return res, found
}

func (c *pCtx) resolveName(fd *ast.FuncDecl, e ast.Expr) (nameVal, error) {
	if s, ok := strLit(e); ok {
		return nameVal{lits: []string{s}, param: -1}, nil
	}
	if id, ok := e.(*ast.Ident); ok {
		if i := paramIndex(fd, id.Name); i >= 0 {
			return nameVal{param: i}, nil
		}
		if l, ok := rangeLits(fd, id.Name, -1); ok {
			return nameVal{lits: l, param: -1}, nil
		}
	}
	// x[0].(string) with x ranging over a literal table
	if ta, ok := e.(*ast.TypeAssertExpr); ok {
		if ix, ok := ta.X.(*ast.IndexExpr); ok {
			if id, ok := ix.X.(*ast.Ident); ok {
				if bl, ok := ix.Index.(*ast.BasicLit); ok && bl.Kind == token.INT {
					var k int
					fmt.Sscanf(bl.Value, "%d", &k)
					if l, ok := rangeLits(fd, id.Name, k); ok {
						return nameVal{lits: l, param: -1}, nil
					}
				}
			}
		}
	}
	return nameVal{}, fmt.Errorf("%s: parameter name expression not recognised at %s", fd.Name.Name, c.fset.Position(e.Pos()))
}

type pRead struct {
	kind string
	name nameVal
}
type pCall struct {
	callee string
	args   []ast.Expr
}
type pSummary struct {
	reads []pRead
	calls []pCall // calls to package functions that receive a request
}

// isQueryCall: X.URL.Query()
func isQueryCall(e ast.Expr, reqs map[string]bool) bool {
	ce, ok := e.(*ast.CallExpr)
	if !ok || len(ce.Args) != 0 {
		return false
	}
	s, ok := ce.Fun.(*ast.SelectorExpr)
	if !ok || s.Sel.Name != "Query" {
		return false
	}
	u, ok := s.X.(*ast.SelectorExpr)
	if !ok || u.Sel.Name != "URL" {
		return false
	}
	id, ok := u.X.(*ast.Ident)
	return ok && reqs[id.Name]
}

func prReqField(e ast.Expr, reqs map[string]bool, field string) bool {
	s, ok := e.(*ast.SelectorExpr)
	if !ok || s.Sel.Name != field {
		return false
	}
	id, ok := s.X.(*ast.Ident)
	return ok && reqs[id.Name]
}

// typeOfVar: the declared type expression of a local variable: `v := T{}`, `var v T`
func typeOfVar(fd *ast.FuncDecl, name string) ast.Expr {
	var res ast.Expr
	ast.Inspect(fd.Body, func(n ast.Node) bool {
		switch x := n.(type) {
		case *ast.AssignStmt:
			if x.Tok == token.DEFINE && len(x.Lhs) == 1 && len(x.Rhs) == 1 {
				if id, ok := x.Lhs[0].(*ast.Ident); ok && id.Name == name {
					if cl, ok := x.Rhs[0].(*ast.CompositeLit); ok {
						res = cl.Type
					}
				}
			}
		case *ast.ValueSpec:
			for _, id := range x.Names {
				if id.Name == name && x.Type != nil {
					res = x.Type
				}
			}
		}
		return res == nil
	})
	return res
}

// structOf resolves a type expression of this package to its struct type
func (c *pCtx) structOf(t ast.Expr) *ast.StructType {
	switch x := t.(type) {
	case *ast.StructType:
		return x
	case *ast.Ident:
		return c.structs[x.Name]
	}
	return nil
}

// schemaFields: the names gorilla/schema binds for a struct (tag `schema:"…"`, else the field name; embedded structs flattened)
func (c *pCtx) schemaFields(st *ast.StructType) ([]string, error) {
	var res []string
	for _, f := range st.Fields.List {
		if len(f.Names) == 0 {
			return nil, fmt.Errorf("embedded field in a schema-decoded struct")
		}
		for _, n := range f.Names {
			if !n.IsExported() {
				continue
			}
			res = append(res, n.Name)
		}
	}
	return res, nil
}

func (c *pCtx) summarize(pf *pFunc) (*pSummary, error) {
	fd := pf.decl
	reqs := reqParams(fd)
	sum := &pSummary{}
	if len(reqs) == 0 || fd.Body == nil {
		return sum, nil
	}
	accounted := map[*ast.Ident]bool{}
	var firstErr error
	fail := func(err error) {
		if firstErr == nil {
			firstErr = err
		}
	}
	markReq := func(e ast.Expr) {
		ast.Inspect(e, func(n ast.Node) bool {
			if id, ok := n.(*ast.Ident); ok && reqs[id.Name] {
				accounted[id] = true
			}
			return true
		})
	}
	addRead := func(kind string, nameExpr ast.Expr) {
		nv, err := c.resolveName(fd, nameExpr)
		if err != nil {
			fail(err)
			return
		}
		sum.reads = append(sum.reads, pRead{kind, nv})
	}
	bodyTargets := map[string]bool{} // local variables / parameters the body is decoded into
	ast.Inspect(fd.Body, func(n ast.Node) bool {
		switch x := n.(type) {
		case *ast.CallExpr:
			if s, ok := x.Fun.(*ast.SelectorExpr); ok {
				// X.URL.Query().Get(name)
				if s.Sel.Name == "Get" && len(x.Args) == 1 && isQueryCall(s.X, reqs) {
					markReq(s.X)
					addRead("query", x.Args[0])
					return true
				}
				// X.Header.Get(name)
				if s.Sel.Name == "Get" && len(x.Args) == 1 && prReqField(s.X, reqs, "Header") {
					markReq(s.X)
					addRead("header", x.Args[0])
					return true
				}
				if (s.Sel.Name == "FormValue" || s.Sel.Name == "PostFormValue") && len(x.Args) == 1 {
					if id, ok := s.X.(*ast.Ident); ok && reqs[id.Name] {
						accounted[id] = true
						addRead("form", x.Args[0])
						return true
					}
				}
				// request methods without parameter names
				if id, ok := s.X.(*ast.Ident); ok && reqs[id.Name] {
					switch s.Sel.Name {
					case "ParseForm", "Context", "WithContext":
						accounted[id] = true
						return true
					}
				}
				// X.URL.String()
				if s.Sel.Name == "String" && prReqField(s.X, reqs, "URL") {
					markReq(s.X)
					return true
				}
				// dec.Decode(&target, X.Form)
				if s.Sel.Name == "Decode" && len(x.Args) == 2 && (prReqField(x.Args[1], reqs, "Form") || prReqField(x.Args[1], reqs, "PostForm")) {
					markReq(x.Args[1])
					st, err := c.targetStruct(fd, x.Args[0])
					if err != nil {
						fail(err)
						return true
					}
					names, err := c.schemaFields(st)
					if err != nil {
						fail(err)
						return true
					}
					sum.reads = append(sum.reads, pRead{"form", nameVal{lits: names, param: -1}})
					return true
				}
				// json.Unmarshal(b, target) / proto.Unmarshal(b, target): body → target
				if s.Sel.Name == "Unmarshal" && len(x.Args) == 2 {
					if id, ok := s.X.(*ast.Ident); ok && (id.Name == "json" || id.Name == "proto" || id.Name == "protojson" || id.Name == "jsoniter") {
						if t, ok := x.Args[1].(*ast.Ident); ok {
							bodyTargets[t.Name] = true
						} else if u, ok := x.Args[1].(*ast.UnaryExpr); ok {
							if t, ok := u.X.(*ast.Ident); ok {
								bodyTargets[t.Name] = true
							}
						} else {
							fail(fmt.Errorf("%s: body decode target not recognised", pf.name))
						}
						return true
					}
				}
				// io.ReadAll(X.Body)
				if s.Sel.Name == "ReadAll" && len(x.Args) == 1 && prReqField(x.Args[0], reqs, "Body") {
					markReq(x.Args[0])
					return true
				}
				// mux.Vars(X) is handled at the index expression; upgrader.Upgrade(w, X, nil) reads the handshake headers only
				if isSel(x.Fun, "upgrader", "Upgrade") {
					for _, a := range x.Args {
						markReq(a)
					}
					return true
				}
			}
			// calls that hand the request on
			passes := false
			for _, a := range x.Args {
				if id, ok := a.(*ast.Ident); ok && reqs[id.Name] {
					passes = true
				}
			}
			if !passes {
				return true
			}
			if isSel(x.Fun, "mux", "Vars") {
				return true // accounted at the IndexExpr
			}
			callee := ""
			switch f := x.Fun.(type) {
			case *ast.Ident:
				callee = f.Name
			case *ast.SelectorExpr:
				callee = f.Sel.Name
				// method of the controller: pc.writeResponse with pc the receiver of this function
				if id, ok := f.X.(*ast.Ident); ok && fd.Recv != nil && len(fd.Recv.List) == 1 && len(fd.Recv.List[0].Names) == 1 && fd.Recv.List[0].Names[0].Name == id.Name {
					callee = recvName(fd) + "." + f.Sel.Name
				}
			}
			if callee == "plugin" {
				// a pre-request plugin hook (reader/plugins): outside the controllers
				for _, a := range x.Args {
					markReq(a)
				}
				return true
			}
			if _, ok := c.funcs[callee]; !ok {
				fail(fmt.Errorf("%s: the request is handed to %s, which is not a function of the controller package", pf.name, callee))
				return true
			}
			for _, a := range x.Args {
				if id, ok := a.(*ast.Ident); ok && reqs[id.Name] {
					accounted[id] = true
				}
			}
			sum.calls = append(sum.calls, pCall{callee, x.Args})
		case *ast.IndexExpr:
			// X.URL.Query()[name]
			if isQueryCall(x.X, reqs) {
				markReq(x.X)
				addRead("query", x.Index)
				return true
			}
			// mux.Vars(X)[name]
			if ce, ok := x.X.(*ast.CallExpr); ok && isSel(ce.Fun, "mux", "Vars") {
				for _, a := range ce.Args {
					markReq(a)
				}
				addRead("path", x.Index)
				return true
			}
			if prReqField(x.X, reqs, "Form") || prReqField(x.X, reqs, "PostForm") {
				markReq(x.X)
				addRead("form", x.Index)
				return true
			}
		case *ast.RangeStmt:
			if prReqField(x.X, reqs, "Form") || prReqField(x.X, reqs, "PostForm") {
				markReq(x.X)
				key, ok := x.Key.(*ast.Ident)
				if !ok {
					fail(fmt.Errorf("%s: range over the form without a key variable", pf.name))
					return true
				}
				var names []string
				ast.Inspect(x.Body, func(m ast.Node) bool {
					be, ok := m.(*ast.BinaryExpr)
					if !ok || be.Op != token.EQL {
						return true
					}
					if id, ok := be.X.(*ast.Ident); ok && id.Name == key.Name {
						if s, ok := strLit(be.Y); ok {
							names = append(names, s)
						}
					}
					return true
				})
				if len(names) == 0 {
					fail(fmt.Errorf("%s: range over the form: no `key == \"…\"` selection found", pf.name))
					return true
				}
				sum.reads = append(sum.reads, pRead{"form", nameVal{lits: names, param: -1}})
			}
		case *ast.SelectorExpr:
			// X.Method: routing information, not a parameter
			if id, ok := x.X.(*ast.Ident); ok && reqs[id.Name] && x.Sel.Name == "Method" {
				accounted[id] = true
			}
		}
		return true
	})
	// body targets: a parameter → resolved at the call sites; a local → the fields read in this function
	for t := range bodyTargets {
		if i := paramIndex(fd, t); i >= 0 {
			sum.reads = append(sum.reads, pRead{"body", nameVal{param: i}})
		} else {
			fail(fmt.Errorf("%s: body decoded into local %s (not supported: decode through a helper taking the target)", pf.name, t))
		}
	}
	// every use of a request variable must be accounted for
	ast.Inspect(fd.Body, func(n ast.Node) bool {
		if id, ok := n.(*ast.Ident); ok && reqs[id.Name] && !accounted[id] && id.Obj != nil {
			fail(fmt.Errorf("%s: use of the request not recognised at %s", pf.name, c.fset.Position(id.Pos())))
		}
		return true
	})
	return sum, firstErr
}

// targetStruct: &v or &v.F → struct type
func (c *pCtx) targetStruct(fd *ast.FuncDecl, e ast.Expr) (*ast.StructType, error) {
	u, ok := e.(*ast.UnaryExpr)
	if !ok || u.Op != token.AND {
		return nil, fmt.Errorf("%s: decode target is not &x", fd.Name.Name)
	}
	var path []string
	x := u.X
	for {
		if s, ok := x.(*ast.SelectorExpr); ok {
			path = append([]string{s.Sel.Name}, path...)
			x = s.X
			continue
		}
		break
	}
	id, ok := x.(*ast.Ident)
	if !ok {
		return nil, fmt.Errorf("%s: decode target not recognised", fd.Name.Name)
	}
	t := typeOfVar(fd, id.Name)
	if t == nil {
		return nil, fmt.Errorf("%s: type of %s not found", fd.Name.Name, id.Name)
	}
	st := c.structOf(t)
	for _, p := range path {
		if st == nil {
			break
		}
		var next *ast.StructType
		for _, f := range st.Fields.List {
			for _, n := range f.Names {
				if n.Name == p {
					next = c.structOf(f.Type)
				}
			}
		}
		st = next
	}
	if st == nil {
		return nil, fmt.Errorf("%s: struct type of the decode target not found", fd.Name.Name)
	}
	return st, nil
}

// bodyFieldsRead: fields of local variable v read in fd (v.Field)
func bodyFieldsRead(fd *ast.FuncDecl, v string) []string {
	seen := map[string]bool{}
	ast.Inspect(fd.Body, func(n ast.Node) bool {
		if s, ok := n.(*ast.SelectorExpr); ok {
			if id, ok := s.X.(*ast.Ident); ok && id.Name == v {
				seen[s.Sel.Name] = true
			}
		}
		return true
	})
	var res []string
	for k := range seen {
		res = append(res, k)
	}
	sort.Strings(res)
	return res
}

func init() {
	register("Params", func() (string, error) {
		dir := filepath.Join(repo, "reader/controller")
		ents, err := os.ReadDir(dir)
		if err != nil {
			return "", err
		}
		c := &pCtx{funcs: map[string]*pFunc{}, structs: map[string]*ast.StructType{}, fset: token.NewFileSet()}
		var handlers []*pFunc
		dup := map[string]bool{}
		for _, e := range ents {
			if !strings.HasSuffix(e.Name(), ".go") || strings.HasSuffix(e.Name(), "_test.go") {
				continue
			}
			f, err := parser.ParseFile(c.fset, filepath.Join(dir, e.Name()), nil, 0)
			if err != nil {
				return "", err
			}
			for _, d := range f.Decls {
				switch x := d.(type) {
				case *ast.FuncDecl:
					pf := &pFunc{file: e.Name(), decl: x, name: x.Name.Name}
					if r := recvName(x); r != "" {
						pf.name = r + "." + x.Name.Name
					}
					if isHandler(x) {
						handlers = append(handlers, pf)
						continue // handlers are not called by name
					}
					if _, ok := c.funcs[pf.name]; ok {
						dup[pf.name] = true
					}
					c.funcs[pf.name] = pf
				case *ast.GenDecl:
					for _, sp := range x.Specs {
						if ts, ok := sp.(*ast.TypeSpec); ok {
							if st, ok := ts.Type.(*ast.StructType); ok {
								c.structs[ts.Name.Name] = st
							}
						}
					}
				}
			}
		}
		if len(handlers) == 0 {
			return "", fmt.Errorf("no handler found in reader/controller")
		}
		sums := map[*pFunc]*pSummary{}
		summ := func(pf *pFunc) (*pSummary, error) {
			if s, ok := sums[pf]; ok {
				return s, nil
			}
			s, err := c.summarize(pf)
			if err != nil {
				return nil, err
			}
			sums[pf] = s
			return s, nil
		}
		var entries []pEntry
		// collect(pf, args): reads of pf with parameter-valued names bound to args (expressions of the caller `from`)
		var collect func(h *pFunc, pf *pFunc, from *pFunc, args []ast.Expr, depth int) error
		collect = func(h *pFunc, pf *pFunc, from *pFunc, args []ast.Expr, depth int) error {
			if depth > 8 {
				return fmt.Errorf("call chain too deep from %s", h.name)
			}
			s, err := summ(pf)
			if err != nil {
				return err
			}
			for _, rd := range s.reads {
				if rd.kind == "body" {
					// the decode target is parameter rd.name.param of pf: &req in the caller
					if from == nil || rd.name.param >= len(args) {
						return fmt.Errorf("%s: body target unresolved", pf.name)
					}
					u, ok := args[rd.name.param].(*ast.UnaryExpr)
					if !ok {
						return fmt.Errorf("%s: body target passed by %s is not &x", pf.name, from.name)
					}
					id, ok := u.X.(*ast.Ident)
					if !ok {
						return fmt.Errorf("%s: body target passed by %s is not &x", pf.name, from.name)
					}
					if from != h {
						return fmt.Errorf("%s: body decoded outside the handler", from.name)
					}
					if typeOfVar(h.decl, id.Name) == nil {
						return fmt.Errorf("%s: type of body target %s not found", h.name, id.Name)
					}
					for _, f := range bodyFieldsRead(h.decl, id.Name) {
						entries = append(entries, pEntry{h.file, h.name, "body", f})
					}
					continue
				}
				lits := rd.name.lits
				if rd.name.param >= 0 {
					if from == nil || rd.name.param >= len(args) {
						return fmt.Errorf("%s: parameter name is a function parameter but there is no call site", pf.name)
					}
					nv, err := c.resolveName(from.decl, args[rd.name.param])
					if err != nil {
						return err
					}
					if nv.param >= 0 {
						return fmt.Errorf("%s: parameter name passed through two levels", pf.name)
					}
					lits = nv.lits
				}
				for _, l := range lits {
					entries = append(entries, pEntry{h.file, h.name, rd.kind, l})
				}
			}
			for _, cl := range s.calls {
				if dup[cl.callee] {
					return fmt.Errorf("function name %s is ambiguous in the controller package", cl.callee)
				}
				if err := collect(h, c.funcs[cl.callee], pf, cl.args, depth+1); err != nil {
					return err
				}
			}
			return nil
		}
		for _, hd := range handlers {
			if err := collect(hd, hd, nil, nil, 0); err != nil {
				return "", err
			}
		}
		seen := map[pEntry]bool{}
		var uniq []pEntry
		for _, e := range entries {
			if !seen[e] {
				seen[e] = true
				uniq = append(uniq, e)
			}
		}
		sort.Slice(uniq, func(i, j int) bool {
			a, b := uniq[i], uniq[j]
			if a.file != b.file {
				return a.file < b.file
			}
			if a.handler != b.handler {
				return a.handler < b.handler
			}
			if a.kind != b.kind {
				return a.kind < b.kind
			}
			return a.name < b.name
		})
		var hs []string
		for _, hd := range handlers {
			hs = append(hs, leanStr(hd.file+"|"+hd.name))
		}
		sort.Strings(hs)
		var b strings.Builder
		b.WriteString("namespace Qryn.Gen\n")
		b.WriteString("/-- the HTTP handlers of reader/controller (file|Receiver.Method) -/\n")
		b.WriteString("def handlers : List String :=\n  [" + strings.Join(hs, ",\n   ") + "]\n")
		b.WriteString("/-- request parameters read per handler: (controller file, handler, kind, parameter name);\n    kind ∈ query | path | form | header | body -/\n")
		b.WriteString("def params : List (String × String × String × String) :=\n  [")
		for i, e := range uniq {
			if i > 0 {
				b.WriteString(",\n   ")
			}
			fmt.Fprintf(&b, "(%s, %s, %s, %s)", leanStr(e.file), leanStr(e.handler), leanStr(e.kind), leanStr(e.name))
		}
		b.WriteString("]\nend Qryn.Gen\n")
		return b.String(), nil
	})
}
