package main

import (
	"fmt"
	"go/ast"
	"go/parser"
	"go/token"
	"os"
	"path/filepath"
	"sort"
	"strings"
)

// Gen.PlannerGlobalFlows (C14): for every package-level variable of the translation packages, WHAT it is and WHERE it goes.
//
// `Gen.PlannerGlobals` lists the names; the theorems of C14 about independence from earlier translations are about a
// model in which the plan objects of one translation share nothing with those of another. A package-level value of
// reference type (slice, map, pointer, interface, func, or anything built by a call) that is handed to a plan object
// (`Select(g...)`, `AddWith(g)`, `And(g...)`, a field of a planner struct, an alias `x := g` that is then handed on)
// makes every plan of the process share it; any in-place write of `Gen.PlannerListWrites` then reaches the next
// translation. This fact gives per variable
//
//	kind    value (basic literal) | slice | map | array | ptr | func | struct:T | type:T | call:<constructor>
//	uses    every syntactic use anywhere under reader/ (same package: bare identifier not shadowed; other packages:
//	        pkg.Name), classified by its context:
//	          init:<var>          inside the initialiser of another package-level variable
//	          method:<M>          g.M(…)                        field:<f> g.f (read)     index-read  g[k] (read)
//	          range / len / cap   for … range g / len(g)
//	          arg:<callee>        passed to a call              spread:<callee>          passed as g...
//	          ret@<func>          returned                      alias:<x>                x := g / x = g / var x = g
//	          via(<x>):<use>      a use of the alias x inside the same function (one level)
//	          lit:<T>             element/field of a composite literal
//	          assign / index-write / field-write / addr / slice / other:<node>
//
// and the derived list `plannerGlobalsIntoPlan`: variables of a kind other than `value` with a use outside the
// read-only set {init, method, field, index-read, index-key, range, len, cap, read (operand of an operator / condition), deref} and outside the reviewed hand-over of a lexer
// definition to the parser generator (`arg:Lexer`, `arg:MustSimple`, `ret@Symbols`). Fails closed: a new variable, a
// new use, or a use the classifier does not know (`other:`) changes the fact; the table in Props/C14 pins it.
func init() {
	register("PlannerGlobalFlows", func() (string, error) {
		pkgs := []string{
			"reader/logql/logql_parser", "reader/logql/logql_transpiler_v2", "reader/logql/logql_transpiler_v2/clickhouse_planner",
			"reader/logql/logql_transpiler_v2/internal_planner",
			"reader/logql/logql_transpiler_v2/shared", "reader/utils/sql_select", "reader/traceql/parser", "reader/traceql/transpiler",
			"reader/traceql/transpiler/clickhouse_transpiler", "reader/promql/transpiler", "reader/prof/transpiler", "reader/prof/parser",
		}
		type gvar struct {
			pkg, name, kind string
			spec            *ast.ValueSpec
			uses            map[string]bool
		}
		vars := map[string]*gvar{} // "pkg.name"
		inPkg := map[string]bool{}
		for _, p := range pkgs {
			inPkg[p] = true
		}
		type pfile struct {
			pkg string
			f   *ast.File
		}
		var files []pfile
		root := filepath.Join(repo, "reader")
		err := filepath.Walk(root, func(path string, info os.FileInfo, err error) error {
			if err != nil {
				return err
			}
			if info.IsDir() || !strings.HasSuffix(path, ".go") || strings.HasSuffix(path, "_test.go") {
				return nil
			}
			fset := token.NewFileSet()
			f, err := parser.ParseFile(fset, path, nil, 0)
			if err != nil {
				return fmt.Errorf("%s: %v", path, err)
			}
			rel, _ := filepath.Rel(repo, filepath.Dir(path))
			files = append(files, pfile{filepath.ToSlash(rel), f})
			return nil
		})
		if err != nil {
			return "", err
		}
		for _, pf := range files {
			if !inPkg[pf.pkg] {
				continue
			}
			for _, d := range pf.f.Decls {
				gd, ok := d.(*ast.GenDecl)
				if !ok || gd.Tok != token.VAR {
					continue
				}
				for _, sp := range gd.Specs {
					vs := sp.(*ast.ValueSpec)
					for i, n := range vs.Names {
						if n.Name == "_" {
							continue
						}
						var val ast.Expr
						if i < len(vs.Values) {
							val = vs.Values[i]
						} else if len(vs.Values) == 1 && len(vs.Names) > 1 {
							val = vs.Values[0]
						}
						vars[pf.pkg+"."+n.Name] = &gvar{pf.pkg, n.Name, gfKind(vs.Type, val), vs, map[string]bool{}}
					}
				}
			}
		}
		if len(vars) == 0 {
			return "", fmt.Errorf("no package-level variable found (the lexer definitions were expected)")
		}
		for _, pf := range files {
			imports := map[string]string{}
			for _, im := range pf.f.Imports {
				p := strings.Trim(im.Path.Value, "\"")
				const mod = "github.com/metrico/qryn/"
				if !strings.HasPrefix(p, mod) {
					continue
				}
				p = strings.TrimPrefix(p, mod)
				name := p[strings.LastIndex(p, "/")+1:]
				if im.Name != nil {
					name = im.Name.Name
				}
				imports[name] = p
			}
			// which global does this identifier / selector denote (nil: none)
			resolve := func(n ast.Node) *gvar {
				switch x := n.(type) {
				case *ast.Ident:
					g := vars[pf.pkg+"."+x.Name]
					if g == nil {
						return nil
					}
					if x.Obj == nil {
						return g // declared in another file of the package
					}
					if x.Obj.Decl == g.spec {
						return g
					}
					return nil // shadowed by a local declaration
				case *ast.SelectorExpr:
					if id, ok := x.X.(*ast.Ident); ok && id.Obj == nil {
						if p, ok := imports[id.Name]; ok {
							return vars[p+"."+x.Sel.Name]
						}
					}
				}
				return nil
			}
			for _, d := range pf.f.Decls {
				switch x := d.(type) {
				case *ast.GenDecl:
					if x.Tok != token.VAR {
						continue
					}
					for _, sp := range x.Specs {
						vs := sp.(*ast.ValueSpec)
						for _, v := range vs.Values {
							gfWalk(v, nil, func(n ast.Node, stack []ast.Node) {
								if g := resolve(n); g != nil && !gfIsSelOfSelector(n, stack) {
									g.uses["init:"+vs.Names[0].Name] = true
								}
							})
						}
					}
				case *ast.FuncDecl:
					if x.Body == nil {
						continue
					}
					fname := x.Name.Name
					aliases := map[string][]*gvar{} // local alias name -> globals it may stand for
					gfWalk(x.Body, nil, func(n ast.Node, stack []ast.Node) {
						g := resolve(n)
						if g == nil || gfIsSelOfSelector(n, stack) {
							return
						}
						if _, isSel := n.(*ast.SelectorExpr); !isSel {
							// an identifier that is the X of a resolving pkg.Name selector is handled at the selector
							if len(stack) > 0 {
								if se, ok := stack[len(stack)-1].(*ast.SelectorExpr); ok && se.X == n && resolve(se) != nil {
									return
								}
							}
						}
						u := gfUse(n, stack, fname)
						g.uses[u] = true
						if strings.HasPrefix(u, "alias:") {
							aliases[strings.TrimPrefix(u, "alias:")] = append(aliases[strings.TrimPrefix(u, "alias:")], g)
						}
					})
					if len(aliases) > 0 {
						gfWalk(x.Body, nil, func(n ast.Node, stack []ast.Node) {
							id, ok := n.(*ast.Ident)
							if !ok || aliases[id.Name] == nil || gfIsSelOfSelector(n, stack) {
								return
							}
							u := gfUse(n, stack, fname)
							if u == "assign" || u == "define" {
								return // re-binding the local name
							}
							for _, g := range aliases[id.Name] {
								g.uses["via("+id.Name+"):"+u] = true
							}
						})
					}
				}
			}
		}
		var keys []string
		for k := range vars {
			keys = append(keys, k)
		}
		sort.Strings(keys)
		readonly := func(u string) bool {
			for _, p := range []string{"init:", "method:", "field:", "index-read", "index-key", "range", "len", "cap", "read", "deref"} {
				if strings.HasPrefix(u, p) {
					return true
				}
			}
			switch u {
			case "arg:Lexer", "arg:MustSimple", "ret@Symbols":
				return true // a lexer definition handed to the parser generator (participle)
			}
			return false
		}
		s := "namespace Qryn.Gen\n/-- package-level variables of the translation packages: (name, kind, uses) -/\ndef plannerGlobalFlows : List (String × String × List String) :=\n  ["
		var into []string
		for i, k := range keys {
			g := vars[k]
			var us []string
			for u := range g.uses {
				us = append(us, u)
			}
			sort.Strings(us)
			if i > 0 {
				s += ",\n   "
			}
			var qs []string
			for _, u := range us {
				qs = append(qs, leanStr(u))
				if g.kind != "value" && !readonly(u) {
					into = append(into, k+" "+u)
				}
			}
			s += "(" + leanStr(k) + ", " + leanStr(g.kind) + ", [" + strings.Join(qs, ", ") + "])"
		}
		s += "]\n/-- variables of reference kind with a use that hands them on (to a plan object, a local alias, a callee, a literal) or writes them -/\ndef plannerGlobalsIntoPlan : List String :=\n  ["
		for i, x := range into {
			if i > 0 {
				s += ",\n   "
			}
			s += leanStr(x)
		}
		s += "]\nend Qryn.Gen\n"
		return s, nil
	})
}

func gfKind(t, val ast.Expr) string {
	var of func(e ast.Expr) string
	of = func(e ast.Expr) string {
		switch x := e.(type) {
		case *ast.ArrayType:
			if x.Len == nil {
				return "slice"
			}
			return "array"
		case *ast.MapType:
			return "map"
		case *ast.StarExpr:
			return "ptr"
		case *ast.FuncType:
			return "func"
		case *ast.InterfaceType:
			return "iface"
		case *ast.ChanType:
			return "chan"
		case *ast.Ident:
			switch x.Name {
			case "string", "int", "int64", "int32", "uint64", "uint32", "uint8", "float64", "bool", "byte", "rune", "uint", "int8", "int16", "uint16", "float32":
				return "value"
			}
			return "type:" + x.Name
		case *ast.SelectorExpr:
			return "type:" + lwCallee(x.X) + "." + x.Sel.Name
		case *ast.IndexExpr:
			return of(x.X)
		}
		return "unknown"
	}
	if t != nil {
		return of(t)
	}
	switch x := val.(type) {
	case nil:
		return "unknown"
	case *ast.BasicLit:
		return "value"
	case *ast.CompositeLit:
		k := of(x.Type)
		if strings.HasPrefix(k, "type:") {
			return "struct:" + strings.TrimPrefix(k, "type:")
		}
		return k
	case *ast.UnaryExpr:
		if x.Op == token.AND {
			return "ptr"
		}
		return "value"
	case *ast.FuncLit:
		return "func"
	case *ast.CallExpr:
		if id, ok := x.Fun.(*ast.Ident); ok && (id.Name == "make" || id.Name == "new") && len(x.Args) > 0 {
			if id.Name == "new" {
				return "ptr"
			}
			return of(x.Args[0])
		}
		if fl, ok := x.Fun.(*ast.FuncLit); ok && fl.Type.Results != nil && len(fl.Type.Results.List) == 1 {
			return "call:func()" + of(fl.Type.Results.List[0].Type)
		}
		switch f := x.Fun.(type) {
		case *ast.SelectorExpr:
			return "call:" + lwCallee(f.X) + "." + f.Sel.Name
		case *ast.IndexExpr:
			return "call:" + lwCallee(f.X)
		}
		return "call:" + lwCallee(x.Fun)
	case *ast.Ident:
		if x.Name == "true" || x.Name == "false" {
			return "value"
		}
	}
	return "unknown"
}

// gfWalk: ast.Inspect with the stack of ancestors
func gfWalk(root ast.Node, stack []ast.Node, visit func(n ast.Node, stack []ast.Node)) {
	var st []ast.Node
	ast.Inspect(root, func(n ast.Node) bool {
		if n == nil {
			st = st[:len(st)-1]
			return true
		}
		visit(n, st)
		st = append(st, n)
		return true
	})
}

// gfIsSelOfSelector: n is the `.Sel` identifier of a selector expression (a field/method name, not a reference)
func gfIsSelOfSelector(n ast.Node, stack []ast.Node) bool {
	if len(stack) == 0 {
		return false
	}
	if se, ok := stack[len(stack)-1].(*ast.SelectorExpr); ok {
		return se.Sel == n
	}
	if kv, ok := stack[len(stack)-1].(*ast.KeyValueExpr); ok && kv.Key == n && len(stack) > 1 {
		if cl, ok := stack[len(stack)-2].(*ast.CompositeLit); ok {
			if _, isMap := cl.Type.(*ast.MapType); !isMap {
				return true // field name of a struct literal
			}
		}
	}
	return false
}

// gfUse: the context of a reference n to a package-level variable
func gfUse(n ast.Node, stack []ast.Node, fname string) string {
	if len(stack) == 0 {
		return "other:root"
	}
	e, _ := n.(ast.Expr)
	// skip parentheses
	i := len(stack) - 1
	for i > 0 {
		if pe, ok := stack[i].(*ast.ParenExpr); ok {
			e = pe
			i--
			continue
		}
		break
	}
	parent := stack[i]
	isLHS := func(x ast.Expr) bool { // is x (an index/selector expression) the target of an assignment
		for j := i - 1; j >= 0; j-- {
			switch p := stack[j].(type) {
			case *ast.AssignStmt:
				for _, l := range p.Lhs {
					if l == x {
						return true
					}
				}
				return false
			case *ast.IncDecStmt:
				return p.X == x
			case *ast.ParenExpr:
				continue
			default:
				return false
			}
		}
		return false
	}
	switch p := parent.(type) {
	case *ast.CallExpr:
		if p.Fun == e {
			return "call"
		}
		callee := lwCallee(p.Fun)
		for k, a := range p.Args {
			if a == e {
				if callee == "len" || callee == "cap" {
					return callee
				}
				if p.Ellipsis.IsValid() && k == len(p.Args)-1 {
					return "spread:" + callee
				}
				return "arg:" + callee
			}
		}
		return "other:call"
	case *ast.SelectorExpr:
		if p.X == e {
			if i > 0 {
				if ce, ok := stack[i-1].(*ast.CallExpr); ok && ce.Fun == p {
					return "method:" + p.Sel.Name
				}
			}
			if isLHS(p) {
				return "field-write"
			}
			return "field:" + p.Sel.Name
		}
	case *ast.IndexExpr:
		if p.X == e {
			if isLHS(p) {
				return "index-write"
			}
			return "index-read"
		}
		return "index-key"
	case *ast.RangeStmt:
		if p.X == e {
			return "range"
		}
		return "assign"
	case *ast.AssignStmt:
		for _, l := range p.Lhs {
			if l == e {
				if p.Tok == token.DEFINE {
					return "define"
				}
				return "assign"
			}
		}
		for k, r := range p.Rhs {
			if r == e {
				if len(p.Lhs) == len(p.Rhs) {
					if id, ok := p.Lhs[k].(*ast.Ident); ok {
						return "alias:" + id.Name
					}
					return "store"
				}
			}
		}
		return "other:assign"
	case *ast.ValueSpec:
		for k, v := range p.Values {
			if v == e && k < len(p.Names) {
				return "alias:" + p.Names[k].Name
			}
		}
		return "other:var"
	case *ast.UnaryExpr:
		if p.Op == token.AND {
			return "addr"
		}
		return "read"
	case *ast.BinaryExpr:
		return "read"
	case *ast.ReturnStmt:
		return "ret@" + fname
	case *ast.CompositeLit:
		return "lit:" + lwCallee(p.Type)
	case *ast.KeyValueExpr:
		if p.Value == e {
			return "lit"
		}
		return "read"
	case *ast.SliceExpr:
		if p.X == e {
			return "slice"
		}
		return "read"
	case *ast.IncDecStmt:
		return "assign"
	case *ast.StarExpr:
		return "deref"
	case *ast.TypeAssertExpr:
		return "other:assert"
	case *ast.IfStmt, *ast.SwitchStmt, *ast.CaseClause, *ast.ExprStmt:
		return "read"
	}
	return fmt.Sprintf("other:%T", parent)
}
