package main

import "fmt"

// Gen.Escape: the find/replace table of sql_select.StringVal.String, order preserved.
func init() {
	register("Escape", func() (string, error) {
		_, f, err := parseFile("reader/utils/sql_select/objects.go")
		if err != nil {
			return "", err
		}
		fd := findFunc(f, "StringVal", "String")
		if fd == nil {
			return "", fmt.Errorf("method StringVal.String not found")
		}
		find, ok1 := stringSliceAssigned(fd.Body, "find")
		repl, ok2 := stringSliceAssigned(fd.Body, "replace")
		if !ok1 || !ok2 {
			return "", fmt.Errorf("find/replace string tables not found in StringVal.String")
		}
		if len(find) != len(repl) {
			return "", fmt.Errorf("find has %d entries, replace %d", len(find), len(repl))
		}
		s := "namespace Qryn.Gen\n/-- (pattern byte, replacement) in loop order -/\ndef escapeTable : List (UInt8 × List UInt8) :=\n  ["
		for i := range find {
			if len(find[i]) != 1 {
				return "", fmt.Errorf("pattern %q is not a single byte (the model treats one-byte patterns)", find[i])
			}
			if i > 0 {
				s += ",\n   "
			}
			s += fmt.Sprintf("(%d, %s)", find[i][0], leanBytes(repl[i]))
		}
		s += "]\nend Qryn.Gen\n"
		return s, nil
	})
}
