package main

import (
	"fmt"
	"go/ast"
	"go/parser"
	"go/token"
	"os"
	"path/filepath"
	"sort"
	"strings"
)

// Gen.PlannerGlobals: every package-level `var` of the translation packages (query → SQL). Translation is
// independent of earlier translations only if these hold no mutable state: the expected list is the lexer
// definitions (immutable tables built at init).
func init() {
	register("PlannerGlobals", func() (string, error) {
		pkgs := []string{
			"reader/logql/logql_parser", "reader/logql/logql_transpiler_v2", "reader/logql/logql_transpiler_v2/clickhouse_planner",
			"reader/logql/logql_transpiler_v2/shared", "reader/utils/sql_select", "reader/traceql/parser", "reader/traceql/transpiler",
			"reader/traceql/transpiler/clickhouse_transpiler", "reader/promql/transpiler", "reader/prof/transpiler", "reader/prof/parser",
		}
		var vars []string
		for _, pkg := range pkgs {
			ents, err := os.ReadDir(filepath.Join(repo, pkg))
			if err != nil {
				return "", err
			}
			for _, e := range ents {
				if e.IsDir() || !strings.HasSuffix(e.Name(), ".go") || strings.HasSuffix(e.Name(), "_test.go") {
					continue
				}
				fset := token.NewFileSet()
				f, err := parser.ParseFile(fset, filepath.Join(repo, pkg, e.Name()), nil, 0)
				if err != nil {
					return "", fmt.Errorf("%s/%s: %v", pkg, e.Name(), err)
				}
				for _, d := range f.Decls {
					gd, ok := d.(*ast.GenDecl)
					if !ok || gd.Tok != token.VAR {
						continue
					}
					for _, sp := range gd.Specs {
						for _, n := range sp.(*ast.ValueSpec).Names {
							if n.Name != "_" {
								vars = append(vars, pkg+"."+n.Name)
							}
						}
					}
				}
			}
		}
		sort.Strings(vars)
		s := "namespace Qryn.Gen\n/-- package-level variables of the query-translation packages -/\ndef plannerGlobals : List String :=\n  ["
		for i, v := range vars {
			if i > 0 {
				s += ",\n   "
			}
			s += leanStr(v)
		}
		s += "]\nend Qryn.Gen\n"
		return s, nil
	})
}
