package main

import (
	"bytes"
	"fmt"
	"go/ast"
	"go/printer"
	"go/token"
)

// Gen.QuantileOps (C08): what planner_quantile.go writes and from where it takes it.
//   texts  — every string literal of QuantilePlanner.Process, in source order (aliases, column texts, formats)
//   fmtArgs — every fmt.Sprintf of that method: format ↦ source text of its arguments
//   wiring — planQuantileOverTime (planner.go): the fields of the QuantilePlanner literal ↦ the expression they are set
//            from, with local variables replaced by the call that defines them (Param from strconv.ParseFloat(script.Param…),
//            Duration from time.ParseDuration(script.Time + script.TimeUnit))
// Fails closed when the shape is not recognised.

func c08ExprText(fset *token.FileSet, e ast.Expr) string {
	var b bytes.Buffer
	printer.Fprint(&b, fset, e)
	return b.String()
}

func init() {
	register("QuantileOps", func() (string, error) {
		dir := "reader/logql/logql_transpiler_v2/clickhouse_planner/"
		fset, f, err := parseFile(dir + "planner_quantile.go")
		if err != nil {
			return "", err
		}
		fd := findFunc(f, "QuantilePlanner", "Process")
		if fd == nil {
			return "", fmt.Errorf("planner_quantile.go: QuantilePlanner.Process not found")
		}
		var texts []string
		var fmtArgs [][2]string
		ast.Inspect(fd.Body, func(n ast.Node) bool {
			switch x := n.(type) {
			case *ast.BasicLit:
				if s, ok := strLit(x); ok {
					texts = append(texts, s)
				}
			case *ast.CallExpr:
				if sel, ok := x.Fun.(*ast.SelectorExpr); ok && sel.Sel.Name == "Sprintf" && len(x.Args) >= 1 {
					if format, ok := strLit(x.Args[0]); ok {
						args := ""
						for i, a := range x.Args[1:] {
							if i > 0 {
								args += ", "
							}
							args += c08ExprText(fset, a)
						}
						fmtArgs = append(fmtArgs, [2]string{format, args})
					}
				}
			}
			return true
		})
		if len(fmtArgs) != 2 {
			return "", fmt.Errorf("planner_quantile.go: %d Sprintf calls in Process (expected 2: bucket column, quantile column)", len(fmtArgs))
		}
		// the wiring in planner.go
		pset, pf, err := parseFile(dir + "planner.go")
		if err != nil {
			return "", err
		}
		pq := findFunc(pf, "planner", "planQuantileOverTime")
		if pq == nil {
			return "", fmt.Errorf("planner.go: planQuantileOverTime not found")
		}
		defs := map[string]string{}
		var lit *ast.CompositeLit
		nLit := 0
		ast.Inspect(pq.Body, func(n ast.Node) bool {
			switch x := n.(type) {
			case *ast.AssignStmt:
				if len(x.Lhs) >= 1 && len(x.Rhs) == 1 {
					if id, ok := x.Lhs[0].(*ast.Ident); ok && id.Name != "err" && id.Name != "_" {
						if _, isCall := x.Rhs[0].(*ast.CallExpr); isCall {
							defs[id.Name] = c08ExprText(pset, x.Rhs[0])
						}
					}
				}
			case *ast.CompositeLit:
				if id, ok := x.Type.(*ast.Ident); ok && id.Name == "QuantilePlanner" {
					lit = x
					nLit++
				}
			}
			return true
		})
		if nLit != 1 {
			return "", fmt.Errorf("planner.go: %d QuantilePlanner literals in planQuantileOverTime (expected 1)", nLit)
		}
		var wiring [][2]string
		for _, el := range lit.Elts {
			kv, ok := el.(*ast.KeyValueExpr)
			if !ok {
				return "", fmt.Errorf("planner.go: QuantilePlanner literal without field names")
			}
			key, ok := kv.Key.(*ast.Ident)
			if !ok {
				return "", fmt.Errorf("planner.go: QuantilePlanner literal key")
			}
			val := c08ExprText(pset, kv.Value)
			if id, ok := kv.Value.(*ast.Ident); ok {
				if d, ok := defs[id.Name]; ok {
					val = d
				}
			}
			wiring = append(wiring, [2]string{key.Name, val})
		}
		out := "namespace Qryn.Gen.QuantileOps\n"
		out += "/-- every string literal of QuantilePlanner.Process, in source order -/\ndef texts : List String := " + leanStrList(texts) + "\n"
		out += lqLeanPairs("fmtArgs", "the fmt.Sprintf calls of QuantilePlanner.Process: format ↦ source text of the arguments", fmtArgs)
		out += lqLeanPairs("wiring", "planQuantileOverTime: field of the QuantilePlanner ↦ the expression it is set from", wiring)
		out += "end Qryn.Gen.QuantileOps\n"
		return out, nil
	})
}
