package main

import (
	"fmt"
	"go/ast"
	"go/token"
	"sort"
	"strings"
)

// Gen.PromStep: what the stepped / down-sampled PromQL sample path says in the source right now.
//   * processHints                (reader/promql/transpiler/transpiler.go): the two function tables, the per-step
//     aggregation (argMax value, bucket-end time), the range-window filter
//   * TranspileLabelMatchers      (same file): processHints runs exactly when hints.Step != 0
//   * transpileLabelMatchers      (reader/service/promQueryable.go): supportedFunctions and the raw / down-sampled routing
//   * InitDownsamplePlanner.Process, DownsampleHintsPlanner.Process/getValueMerge, StreamSelectPlanner.Process,
//     ReshuffleSeries (the key of a label set)
// Every shape is compared with the text the model was written against; anything else fails closed.

// mapKeysAssigned finds `name := map[string]bool{ "k": true, … }` and returns the keys in source order with values.
func mapLitAssigned(fset *token.FileSet, body ast.Node, name string) ([][2]string, bool) {
	var res [][2]string
	found := false
	ast.Inspect(body, func(n ast.Node) bool {
		var lhs, rhs ast.Expr
		switch x := n.(type) {
		case *ast.AssignStmt:
			if len(x.Lhs) != 1 || len(x.Rhs) != 1 {
				return true
			}
			lhs, rhs = x.Lhs[0], x.Rhs[0]
		case *ast.ValueSpec:
			if len(x.Names) != 1 || len(x.Values) != 1 {
				return true
			}
			lhs, rhs = x.Names[0], x.Values[0]
		default:
			return true
		}
		id, ok := lhs.(*ast.Ident)
		if !ok || id.Name != name || found {
			return true
		}
		cl, ok := rhs.(*ast.CompositeLit)
		if !ok {
			return true
		}
		var out [][2]string
		for _, el := range cl.Elts {
			kv, ok := el.(*ast.KeyValueExpr)
			if !ok {
				return true
			}
			k, ok := strLit(kv.Key)
			if !ok {
				return true
			}
			v := promPrintNode(fset, kv.Value)
			if s, ok := strLit(kv.Value); ok {
				v = s
			}
			out = append(out, [2]string{k, v})
		}
		res, found = out, true
		return false
	})
	return res, found
}

func keysWhereTrue(kv [][2]string) ([]string, error) {
	var res []string
	for _, p := range kv {
		if p[1] != "true" {
			return nil, fmt.Errorf("entry %q is %s, not true", p[0], p[1])
		}
		res = append(res, p[0])
	}
	return res, nil
}

func init() {
	register("PromStep", func() (string, error) {
		cmp, err := sqlCmpFns()
		if err != nil {
			return "", err
		}
		fset, f, err := parseFile("reader/promql/transpiler/transpiler.go")
		if err != nil {
			return "", err
		}
		// ---- TranspileLabelMatchers: `if hints.Step != 0 { query = processHints(query, hints) }`
		fd := findFunc(f, "", "TranspileLabelMatchers")
		if fd == nil {
			return "", fmt.Errorf("TranspileLabelMatchers not found")
		}
		gate := false
		for _, st := range fd.Body.List {
			if ifs, ok := st.(*ast.IfStmt); ok && promPrintNode(fset, ifs.Cond) == "hints.Step != 0" &&
				len(ifs.Body.List) == 1 && promPrintNode(fset, ifs.Body.List[0]) == "query = processHints(query, hints)" && ifs.Else == nil {
				gate = true
			}
		}
		if !gate {
			return "", fmt.Errorf("TranspileLabelMatchers: `if hints.Step != 0 { query = processHints(query, hints) }` not found")
		}
		// ---- processHints
		fd = findFunc(f, "", "processHints")
		if fd == nil {
			return "", fmt.Errorf("processHints not found")
		}
		ikv, ok1 := mapLitAssigned(fset, fd.Body, "instantVectors")
		rkv, ok2 := mapLitAssigned(fset, fd.Body, "rangeVectors")
		if !ok1 || !ok2 {
			return "", fmt.Errorf("processHints: instantVectors / rangeVectors literals not found")
		}
		instant, err := keysWhereTrue(ikv)
		if err != nil {
			return "", fmt.Errorf("processHints.instantVectors: %v", err)
		}
		rangeFns, err := keysWhereTrue(rkv)
		if err != nil {
			return "", fmt.Errorf("processHints.rangeVectors: %v", err)
		}
		var ifs []*ast.IfStmt
		for _, st := range fd.Body.List {
			if x, ok := st.(*ast.IfStmt); ok {
				ifs = append(ifs, x)
			}
		}
		if len(ifs) != 2 {
			return "", fmt.Errorf("processHints: expected two if statements, found %d", len(ifs))
		}
		// the per-step aggregation: two recognised shapes. "bucket-end" (as it was written): every instant-vector function,
		// the last sample of a step bucket re-timed to the bucket end; "sample" (after `fix: a stepped range query hands the
		// engine the last sample of every step bucket with its own time …`): only for an instant selector (Range == 0) and a
		// step that divides the engine's lookback delta, the last sample of a step bucket with its own time
		bucketTime, lookbackMs := "", int64(0)
		cond0 := promPrintNode(fset, ifs[0].Cond)
		body0 := stripComments(promPrintNode(fset, ifs[0].Body))
		const wantBucketEnd = `{ withQuery := sql.NewWith(query, "spls") query = sql.NewSelect().With(withQuery).Select( sql.NewRawObject("fingerprint"), sql.NewSimpleCol("argMax(spls.value, spls.timestamp_ms)", "value"), sql.NewSimpleCol(fmt.Sprintf("intDiv(spls.timestamp_ms - %d + %d - 1, %d) * %d + %d", hints.Start, hints.Step, hints.Step, hints.Step, hints.Start), "timestamp_ms"), ).From( sql.NewWithRef(withQuery), ).GroupBy( sql.NewRawObject("timestamp_ms"), sql.NewRawObject("fingerprint"), ).OrderBy( sql.NewOrderBy(sql.NewRawObject("fingerprint"), sql.ORDER_BY_DIRECTION_ASC), sql.NewOrderBy(sql.NewRawObject("timestamp_ms"), sql.ORDER_BY_DIRECTION_ASC), ) }`
		const wantSample = `{ withQuery := sql.NewWith(query, "spls") query = sql.NewSelect().With(withQuery).Select( sql.NewRawObject("fingerprint"), sql.NewSimpleCol("argMax(spls.value, spls.timestamp_ms)", "value"), sql.NewSimpleCol("max(spls.timestamp_ms)", "last_ms"), ).From( sql.NewWithRef(withQuery), ).GroupBy( sql.NewRawObject(fmt.Sprintf("intDiv(spls.timestamp_ms - %d + %d - 1, %d)", hints.Start, hints.Step, hints.Step)), sql.NewRawObject("fingerprint"), ).OrderBy( sql.NewOrderBy(sql.NewRawObject("fingerprint"), sql.ORDER_BY_DIRECTION_ASC), sql.NewOrderBy(sql.NewRawObject("last_ms"), sql.ORDER_BY_DIRECTION_ASC), ) }`
		switch {
		case cond0 == `instantVectors[hints.Func] || hints.Func == ""` && body0 == wantBucketEnd:
			bucketTime = "bucket-end"
		case cond0 == `(instantVectors[hints.Func] || hints.Func == "") && hints.Range == 0 && lookbackDeltaMs%hints.Step == 0` && body0 == wantSample:
			bucketTime = "sample"
			found := false
			for _, d := range f.Decls {
				gd, ok := d.(*ast.GenDecl)
				if !ok || gd.Tok != token.CONST {
					continue
				}
				for _, sp := range gd.Specs {
					vs := sp.(*ast.ValueSpec)
					if len(vs.Names) == 1 && vs.Names[0].Name == "lookbackDeltaMs" && len(vs.Values) == 1 {
						if promPrintNode(fset, vs.Values[0]) != "5 * 60 * 1000" {
							return "", fmt.Errorf("lookbackDeltaMs = %s: not the recognised constant", promPrintNode(fset, vs.Values[0]))
						}
						lookbackMs, found = 5*60*1000, true
					}
				}
			}
			if !found {
				return "", fmt.Errorf("const lookbackDeltaMs not found")
			}
		default:
			return "", fmt.Errorf("processHints: the per-step aggregation (condition %q) is not a recognised shape: %s", cond0, body0)
		}
		// the guard of the range filter: with or without `hints.Range > 0` (an instant selector under a sub-query of a
		// range-vector function has Range == 0)
		rangeGuard := ""
		switch promPrintNode(fset, ifs[1].Cond) {
		case `rangeVectors[hints.Func] && hints.Step > hints.Range`:
			rangeGuard = "none"
		case `rangeVectors[hints.Func] && hints.Range > 0 && hints.Step > hints.Range`:
			rangeGuard = "range-selector"
		default:
			return "", fmt.Errorf("processHints: second condition is %q", promPrintNode(fset, ifs[1].Cond))
		}
		// the range-window filter: two recognised shapes
		body1 := stripComments(promPrintNode(fset, ifs[1].Body))
		filterKind := ""
		switch body1 {
		case `{ msInStep := sql.NewRawObject(fmt.Sprintf("(timestamp_ms - %d) %% %d", hints.Start, hints.Step)) query.AndWhere(sql.Le(msInStep, sql.NewIntVal(hints.Range))) }`:
			filterKind = "windows" // (timestamp_ms − Start) % Step <= Range
		case `{ msInStep := sql.NewRawObject(fmt.Sprintf("timestamp_ms %% %d", hints.Step)) query.AndWhere(sql.Or( sql.Eq(msInStep, sql.NewIntVal(0)), sql.Ge(msInStep, sql.NewIntVal(hints.Step-hints.Range)), )) }`:
			filterKind = "modstep" // timestamp_ms % Step == 0 or >= Step − Range (the pinned tree)
		default:
			return "", fmt.Errorf("processHints: the range filter is not a recognised shape: %s", body1)
		}
		// ---- promQueryable.go: routing
		fset, f, err = parseFile("reader/service/promQueryable.go")
		if err != nil {
			return "", err
		}
		skv, ok := mapLitAssigned(fset, f, "supportedFunctions")
		if !ok {
			return "", fmt.Errorf("supportedFunctions literal not found")
		}
		fd = findFunc(f, "CLokiQuerier", "transpileLabelMatchers")
		if fd == nil {
			return "", fmt.Errorf("CLokiQuerier.transpileLabelMatchers not found")
		}
		routing := ""
		ast.Inspect(fd.Body, func(n ast.Node) bool {
			if as, ok := n.(*ast.AssignStmt); ok && len(as.Lhs) == 1 && promPrintNode(fset, as.Lhs[0]) == "useRawData" {
				routing = promPrintNode(fset, as.Rhs[0])
			}
			return true
		})
		if routing != `hints.Start%15000 != 0 || hints.Step < 15000 || (hints.Range > 0 && hints.Range < 15000) || !(isSupported || !ok)` {
			return "", fmt.Errorf("transpileLabelMatchers: useRawData is %q", routing)
		}
		tail := ""
		for _, st := range fd.Body.List[len(fd.Body.List)-2:] {
			tail += promPrintNode(fset, st) + " "
		}
		if strings.TrimSpace(tail) != `if useRawData { return transpiler.TranspileLabelMatchers(hints, &ctx, matchers...) } return transpiler.TranspileLabelMatchersDownsample(hints, &ctx, matchers...)` {
			return "", fmt.Errorf("transpileLabelMatchers: routing tail is %q", tail)
		}
		// ReshuffleSeries: the key of a label set
		fd = findFunc(f, "CLokiQuerier", "ReshuffleSeries")
		if fd == nil {
			return "", fmt.Errorf("ReshuffleSeries not found")
		}
		rs := promPrintNode(fset, fd.Body)
		keyKind := ""
		switch {
		case strings.Contains(rs, `key.WriteString(strconv.Quote(lbl.Name)) key.WriteByte('=') key.WriteString(strconv.Quote(lbl.Value)) key.WriteByte(' ')`) &&
			strings.Contains(rs, `str := key.String() if chunk, ok := seriesMap[str]; ok {`) && strings.Contains(rs, `seriesMap[str] = ent`):
			keyKind = "quoted" // "name"="value" per label, each followed by a blank; the map is keyed by the text
		case strings.Contains(rs, `strLabels[i] = []byte(lbl.Name + "=" + lbl.Value)`) && strings.Contains(rs, `bytes.Join(strLabels, []byte(" "))`):
			keyKind = "blankjoined" // name=value joined by blanks, hashed (the pinned tree)
		default:
			return "", fmt.Errorf("ReshuffleSeries: key construction not recognised")
		}
		// ---- the down-sampling planners
		fset, f, err = parseFile("reader/promql/transpiler/init_downsample_clickhouse_planner.go")
		if err != nil {
			return "", err
		}
		fd = findFunc(f, "InitDownsamplePlanner", "Process")
		if fd == nil {
			return "", fmt.Errorf("InitDownsamplePlanner.Process not found")
		}
		lower, upper := "", ""
		ast.Inspect(fd.Body, func(n ast.Node) bool {
			call, ok := n.(*ast.CallExpr)
			if !ok || len(call.Args) != 2 {
				return true
			}
			fn, ok := selName(call.Fun, "sql")
			if !ok || cmp[fn] == "" || promPrintNode(fset, call.Args[0]) != `sql.NewRawObject("samples.timestamp_ns")` {
				return true
			}
			switch promPrintNode(fset, call.Args[1]) {
			case "sql.NewIntVal(ctx.From.UnixNano())":
				lower = cmp[fn]
			case "sql.NewIntVal(ctx.To.UnixNano())":
				upper = cmp[fn]
			}
			return true
		})
		if lower == "" || upper == "" {
			return "", fmt.Errorf("InitDownsamplePlanner.Process: bounds on samples.timestamp_ns not found")
		}
		fset, f, err = parseFile("reader/promql/transpiler/stream_select_planner.go")
		if err != nil {
			return "", err
		}
		fd = findFunc(f, "StreamSelectPlanner", "Process")
		if fd == nil {
			return "", fmt.Errorf("transpiler.StreamSelectPlanner.Process not found")
		}
		selBody := stripComments(promPrintNode(fset, fd.Body))
		downSel := ""
		switch {
		case selBody == `{ return fingerprintsQuery(ctx, s.Matchers...) }`:
			downSel = "fingerprintsQuery"
		case strings.Contains(selBody, "values = append(values, matcher.GetVal())"):
			downSel = "raw-values" // the pinned tree: regular expressions reach match() unanchored
		default:
			return "", fmt.Errorf("transpiler.StreamSelectPlanner.Process: body not recognised: %s", selBody)
		}
		fset, f, err = parseFile("reader/promql/transpiler/hints_downsample_planner.go")
		if err != nil {
			return "", err
		}
		fd = findFunc(f, "DownsampleHintsPlanner", "getValueMerge")
		if fd == nil {
			return "", fmt.Errorf("getValueMerge not found")
		}
		merge, ok := mapLitAssigned(fset, fd.Body, "supportedRangeVectors")
		if !ok {
			return "", fmt.Errorf("getValueMerge: supportedRangeVectors literal not found")
		}
		last := fd.Body.List[len(fd.Body.List)-1]
		if promPrintNode(fset, last) != `return "argMaxMerge(samples.last)"` {
			return "", fmt.Errorf("getValueMerge: default is %q", promPrintNode(fset, last))
		}
		fd = findFunc(f, "DownsampleHintsPlanner", "Process")
		if fd == nil {
			return "", fmt.Errorf("DownsampleHintsPlanner.Process not found")
		}
		dp := stripComments(promPrintNode(fset, fd.Body))
		for _, want := range []string{
			`if d.Hints.Step == 0 { return query, nil }`,
			`if rangeVectors[hints.Func] && hints.Step > hints.Range { timeField := fmt.Sprintf("intDiv(samples.timestamp_ns + %d000000, %d * 1000000) * %d - 1", hints.Range, hints.Step, hints.Step)`,
			`msInStep := sql.NewRawObject(fmt.Sprintf("timestamp_ns %% %d000000", hints.Step)) query.AndWhere(sql.Or( sql.Eq(msInStep, sql.NewIntVal(0)), sql.Gt(msInStep, sql.NewIntVal(hints.Step*1000000-hints.Range*1000000)), ))`,
			`} else { timeField := fmt.Sprintf("intDiv(samples.timestamp_ns, %d * 1000000) * %d - 1", hints.Step, hints.Step)`,
			`patchField(query, "value", sql.NewSimpleCol(d.getValueMerge(hints.Func), "value").(sql.Aliased))`,
		} {
			if !strings.Contains(dp, want) {
				return "", fmt.Errorf("DownsampleHintsPlanner.Process: expected %q", want)
			}
		}
		drkv, ok := mapLitAssigned(fset, fd.Body, "rangeVectors")
		if !ok {
			return "", fmt.Errorf("DownsampleHintsPlanner.Process: rangeVectors literal not found")
		}
		downRange, err := keysWhereTrue(drkv)
		if err != nil {
			return "", err
		}

		var b strings.Builder
		b.WriteString("namespace Qryn.Gen.PromStep\n")
		b.WriteString("/-- processHints: functions of an instant vector whose samples are pre-aggregated per step (besides \"\") -/\n")
		fmt.Fprintf(&b, "def instantFuncs : List String := %s\n", leanStrList(instant))
		b.WriteString("/-- processHints: range-vector functions whose samples are filtered to the evaluated windows when Step > Range -/\n")
		fmt.Fprintf(&b, "def rangeFuncs : List String := %s\n", leanStrList(rangeFns))
		b.WriteString("/-- processHints: shape of the range filter: \"windows\" = (timestamp_ms − Start) % Step <= Range; \"modstep\" = timestamp_ms % Step == 0 or >= Step − Range -/\n")
		fmt.Fprintf(&b, "def rangeFilter : String := %s\n", leanStr(filterKind))
		b.WriteString("/-- processHints: the range filter is applied to \"range-selector\" = hints.Range > 0 only, or \"none\" = whenever Step > Range (the code as it was written: also to the instant selector of a sub-query) -/\n")
		fmt.Fprintf(&b, "def rangeGuard : String := %s\n", leanStr(rangeGuard))
		b.WriteString("/-- processHints: the per-step aggregation sends the last sample of a step bucket \"sample\" = with its own time, only for an instant selector and a step dividing lookbackMs; \"bucket-end\" = moved to the end of the bucket, for every step (the code as it was written) -/\n")
		fmt.Fprintf(&b, "def bucketTime : String := %s\ndef lookbackMs : Int := %d\n", leanStr(bucketTime), lookbackMs)
		b.WriteString("/-- promQueryable.go supportedFunctions (name ↦ value) and the routing threshold in ms -/\n")
		b.WriteString("def supportedFuncs : List (String × Bool) := [")
		for i, p := range skv {
			if i > 0 {
				b.WriteString(", ")
			}
			fmt.Fprintf(&b, "(%s, %s)", leanStr(p[0]), p[1])
		}
		b.WriteString("]\ndef downsampleMs : Int := 15000\n")
		b.WriteString("/-- ReshuffleSeries: how a label set becomes a map key: \"quoted\" or \"blankjoined\" -/\n")
		fmt.Fprintf(&b, "def reshuffleKey : String := %s\n", leanStr(keyKind))
		b.WriteString("/-- InitDownsamplePlanner.Process: comparison of samples.timestamp_ns with ctx.From / ctx.To -/\n")
		fmt.Fprintf(&b, "def downLower : String := %s\ndef downUpper : String := %s\n", leanStr(lower), leanStr(upper))
		b.WriteString("/-- transpiler.StreamSelectPlanner.Process: \"fingerprintsQuery\" (shares the anchored label index query) or \"raw-values\" -/\n")
		fmt.Fprintf(&b, "def downSelector : String := %s\n", leanStr(downSel))
		b.WriteString("/-- DownsampleHintsPlanner.getValueMerge (not partial): function ↦ value column; any other function: argMaxMerge(samples.last) -/\n")
		sort.SliceStable(merge, func(i, j int) bool { return false })
		b.WriteString("def valueMerge : List (String × String) := [")
		for i, p := range merge {
			if i > 0 {
				b.WriteString(", ")
			}
			fmt.Fprintf(&b, "(%s, %s)", leanStr(p[0]), leanStr(p[1]))
		}
		b.WriteString("]\ndef valueMergeDefault : String := \"argMaxMerge(samples.last)\"\n")
		b.WriteString("/-- DownsampleHintsPlanner.Process: its own copy of the range-vector table -/\n")
		fmt.Fprintf(&b, "def downRangeFuncs : List String := %s\n", leanStrList(downRange))
		b.WriteString("end Qryn.Gen.PromStep\n")
		return b.String(), nil
	})
}

// stripComments removes /* … */ and // … remnants from a printed node (printer keeps comments inside bodies)
func stripComments(s string) string {
	for {
		i := strings.Index(s, "/*")
		if i < 0 {
			break
		}
		j := strings.Index(s[i:], "*/")
		if j < 0 {
			break
		}
		s = s[:i] + s[i+j+2:]
	}
	return strings.Join(strings.Fields(s), " ")
}
