package main

import (
	"fmt"
	"go/ast"
	"go/token"
	"strconv"
	"strings"
)

// Gen.SpanConsts (C06): payload-type tags of the three span parsers and of the reader's dispatch, the hex
// widths handed to decodeHexStr, the row-size constants and the flush threshold of onSpan.

func c06IntLit(e ast.Expr) (int64, bool) {
	switch x := e.(type) {
	case *ast.BasicLit:
		if x.Kind != token.INT {
			return 0, false
		}
		v, err := strconv.ParseInt(x.Value, 0, 64)
		return v, err == nil
	case *ast.ParenExpr:
		return c06IntLit(x.X)
	case *ast.BinaryExpr:
		a, ok1 := c06IntLit(x.X)
		b, ok2 := c06IntLit(x.Y)
		if !ok1 || !ok2 {
			return 0, false
		}
		switch x.Op {
		case token.MUL:
			return a * b, true
		case token.ADD:
			return a + b, true
		}
	}
	return 0, false
}

// payload type of `var <name> = Build(withPayloadType(N), ...)`
func c06BuildPayloadType(f *ast.File, name string) (int64, error) {
	for _, d := range f.Decls {
		gd, ok := d.(*ast.GenDecl)
		if !ok || gd.Tok != token.VAR {
			continue
		}
		for _, sp := range gd.Specs {
			vs := sp.(*ast.ValueSpec)
			for i, n := range vs.Names {
				if n.Name != name || i >= len(vs.Values) {
					continue
				}
				call, ok := vs.Values[i].(*ast.CallExpr)
				if !ok {
					return 0, fmt.Errorf("%s is not a call", name)
				}
				if id, ok := call.Fun.(*ast.Ident); !ok || id.Name != "Build" {
					return 0, fmt.Errorf("%s is not built with Build(...)", name)
				}
				for _, a := range call.Args {
					c, ok := a.(*ast.CallExpr)
					if !ok {
						continue
					}
					if id, ok := c.Fun.(*ast.Ident); ok && id.Name == "withPayloadType" && len(c.Args) == 1 {
						if v, ok := c06IntLit(c.Args[0]); ok {
							return v, nil
						}
					}
				}
				return 0, fmt.Errorf("%s: no withPayloadType(<int>) option", name)
			}
		}
	}
	return 0, fmt.Errorf("var %s not found", name)
}

// leftmost operand of a chain of +
func c06LeftmostAdd(e ast.Expr) ast.Expr {
	for {
		be, ok := e.(*ast.BinaryExpr)
		if !ok || be.Op != token.ADD {
			return e
		}
		e = be.X
	}
}

func c06Sel(e ast.Expr) string {
	switch x := e.(type) {
	case *ast.Ident:
		return x.Name
	case *ast.SelectorExpr:
		return c06Sel(x.X) + "." + x.Sel.Name
	}
	return "?"
}

func init() {
	register("SpanConsts", func() (string, error) {
		_, zf, err := parseFile("writer/utils/unmarshal/zipkinJsonUnmarshal.go")
		if err != nil {
			return "", err
		}
		_, of, err := parseFile("writer/utils/unmarshal/otlpUnmarshal.go")
		if err != nil {
			return "", err
		}
		zt, err := c06BuildPayloadType(zf, "UnmarshalZipkinJSONV2")
		if err != nil {
			return "", err
		}
		zndt, err := c06BuildPayloadType(zf, "UnmarshalZipkinNDJSONV2")
		if err != nil {
			return "", err
		}
		ot, err := c06BuildPayloadType(of, "UnmarshalOTLPV2")
		if err != nil {
			return "", err
		}
		// hex widths: decodeHexStr(x, N) under case "traceId" / "id" / "parentId" of decodeSpan
		ds := findFunc(zf, "zipkinDecoderV2", "decodeSpan")
		if ds == nil {
			return "", fmt.Errorf("zipkinDecoderV2.decodeSpan not found")
		}
		widths := map[string]int64{}
		ast.Inspect(ds.Body, func(n ast.Node) bool {
			cc, ok := n.(*ast.CaseClause)
			if !ok || len(cc.List) != 1 {
				return true
			}
			key, ok := strLit(cc.List[0])
			if !ok {
				return true
			}
			for _, st := range cc.Body {
				ast.Inspect(st, func(m ast.Node) bool {
					c, ok := m.(*ast.CallExpr)
					if !ok || len(c.Args) != 2 {
						return true
					}
					if se, ok := c.Fun.(*ast.SelectorExpr); ok && se.Sel.Name == "decodeHexStr" {
						if v, ok := c06IntLit(c.Args[1]); ok {
							widths[key] = v
						}
					}
					return true
				})
			}
			return true
		})
		for _, k := range []string{"traceId", "id", "parentId"} {
			if _, ok := widths[k]; !ok {
				return "", fmt.Errorf("decodeSpan: no decodeHexStr(.., <int>) under case %q", k)
			}
		}
		// reader dispatch
		_, rf, err := parseFile("reader/service/tempoService.go")
		if err != nil {
			return "", err
		}
		oq := findFunc(rf, "TempoService", "OutputQuery")
		if oq == nil {
			return "", fmt.Errorf("TempoService.OutputQuery not found")
		}
		disp := map[string]int64{}
		ast.Inspect(oq.Body, func(n ast.Node) bool {
			sw, ok := n.(*ast.SwitchStmt)
			if !ok || sw.Tag == nil || !strings.HasSuffix(c06Sel(sw.Tag), "payloadType") {
				return true
			}
			for _, st := range sw.Body.List {
				cc := st.(*ast.CaseClause)
				if len(cc.List) != 1 {
					continue
				}
				v, ok := c06IntLit(cc.List[0])
				if !ok {
					continue
				}
				for _, b := range cc.Body {
					ast.Inspect(b, func(m ast.Node) bool {
						if c, ok := m.(*ast.CallExpr); ok {
							if id, ok := c.Fun.(*ast.Ident); ok && (id.Name == "parseZipkinJSON" || id.Name == "parseOTLP") {
								disp[id.Name] = v
							}
						}
						return true
					})
				}
			}
			return false
		})
		for _, k := range []string{"parseZipkinJSON", "parseOTLP"} {
			if _, ok := disp[k]; !ok {
				return "", fmt.Errorf("OutputQuery: no `case <int>:` calling %s in the switch on payloadType", k)
			}
		}
		// onSpan sizes
		_, bf, err := parseFile("writer/utils/unmarshal/builder.go")
		if err != nil {
			return "", err
		}
		os := findFunc(bf, "parserDoer", "onSpan")
		if os == nil {
			return "", fmt.Errorf("parserDoer.onSpan not found")
		}
		sizes := map[string]int64{}
		var flush int64 = -1
		ast.Inspect(os.Body, func(n ast.Node) bool {
			switch x := n.(type) {
			case *ast.AssignStmt:
				if x.Tok == token.ADD_ASSIGN && len(x.Lhs) == 1 && len(x.Rhs) == 1 {
					if v, ok := c06IntLit(c06LeftmostAdd(x.Rhs[0])); ok {
						sizes[c06Sel(x.Lhs[0])] = v
					}
				}
			case *ast.IfStmt:
				if be, ok := x.Cond.(*ast.BinaryExpr); ok && be.Op == token.GTR {
					if v, ok := c06IntLit(be.Y); ok && strings.Contains(c06Sel(c06LeftmostAdd(be.X)), "Size") {
						flush = v
					}
				}
			}
			return true
		})
		sp, ok1 := sizes["p.spans.Size"]
		tg, ok2 := sizes["p.attrs.Size"]
		if !ok1 || !ok2 || flush < 0 {
			return "", fmt.Errorf("onSpan: `p.spans.Size += <int> + ..`, `p.attrs.Size += <int> + ..` or the flush threshold not found")
		}
		var b strings.Builder
		b.WriteString("namespace Qryn.Gen.SpanConsts\n")
		fmt.Fprintf(&b, "/-- withPayloadType of UnmarshalZipkinJSONV2 / UnmarshalZipkinNDJSONV2 / UnmarshalOTLPV2 -/\n")
		fmt.Fprintf(&b, "def zipkinType : Int := %d\ndef zipkinNDType : Int := %d\ndef otlpType : Int := %d\n", zt, zndt, ot)
		fmt.Fprintf(&b, "/-- OutputQuery: `case N:` that calls parseZipkinJSON / parseOTLP -/\n")
		fmt.Fprintf(&b, "def readZipkinType : Int := %d\ndef readOtlpType : Int := %d\n", disp["parseZipkinJSON"], disp["parseOTLP"])
		fmt.Fprintf(&b, "/-- decodeHexStr widths (hex digits) under case \"traceId\" / \"id\" / \"parentId\" -/\n")
		fmt.Fprintf(&b, "def traceHex : Nat := %d\ndef spanHex : Nat := %d\ndef parentHex : Nat := %d\n", widths["traceId"], widths["id"], widths["parentId"])
		fmt.Fprintf(&b, "/-- onSpan: per-row size constants and the flush threshold -/\n")
		fmt.Fprintf(&b, "def spanRowSize : Nat := %d\ndef tagRowSize : Nat := %d\ndef flushAt : Nat := %d\n", sp, tg, flush)
		b.WriteString("end Qryn.Gen.SpanConsts\n")
		return b.String(), nil
	})
}
