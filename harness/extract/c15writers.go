package main

// Gen.ResponseWriters and Gen.C15Batch (C15).
//
// ResponseWriters.writers — the inventory of every place under reader/ that produces (a piece of) a response body:
//   send    `ch <- v` on a channel whose element type is string or model.QueryRangeOutput (resolved from parameters,
//           `make(chan T)`, `var`), or whose value is syntactically a string chunk (literal, string(…), x.String(),
//           fmt.Sprintf, a QueryRangeOutput literal);
//   send?   a send whose channel type the translator cannot resolve and whose value is not obviously something else —
//           listed so that the review has to look at it (fails closed);
//   write   w.Write / w.WriteString / fmt.Fprint*(w,…) / io.WriteString(w,…) / io.Copy(w,…) / json.NewEncoder(w).Encode
//           on an http.ResponseWriter;
//   ws      WriteMessage / WriteJSON (websocket);
//   stream  calls of Write* methods on a jsoniter Stream (per function: the methods and how often each is called).
// One entry per (file, function, kind) with the pieces in source order. The reviewed, classified table is
// lean/Qryn/Read/EncoderCensus.lean; Props/C15.lean (`encoder_census`) proves the two equal, so a new piecewise writer,
// a new piece in an existing one, or a changed literal breaks the theorem until it is reviewed.
//
// ResponseWriters.guards — every `if <counter compared with 0> { … a piece is written … }` of those functions with the
// assignments to the counters the condition reads (a separator guard must read a counter that is never reset).
//
// C15Batch.consts — integer literals ≥ 2 (also through package-level constants) in comparisons and make() sizes of the
// functions above and of every function under reader/ that sends on a channel: the batching constants. The harness puts
// size classes around each of them; the reviewed list is in EncoderCensus.lean (`batch_constants_reviewed`).

import (
	"bytes"
	"fmt"
	"go/ast"
	"go/parser"
	"go/printer"
	"go/token"
	"os"
	"path/filepath"
	"sort"
	"strconv"
	"strings"
)

type c15wEntry struct {
	file, fn, kind string
	pieces         []string
	lits           []string // values of the string-literal pieces, in source order
}

type c15wGuard struct {
	file, fn, cond, body string
	writes               []string
}

type c15wConst struct {
	file, fn, ctx string
	val           int
}

func c15wText(n ast.Node) string {
	var b bytes.Buffer
	printer.Fprint(&b, token.NewFileSet(), n)
	return strings.Join(strings.Fields(b.String()), " ")
}

func c15wFuncName(fd *ast.FuncDecl) string {
	if fd.Recv != nil && len(fd.Recv.List) == 1 {
		t := fd.Recv.List[0].Type
		if st, ok := t.(*ast.StarExpr); ok {
			t = st.X
		}
		if ix, ok := t.(*ast.IndexExpr); ok {
			t = ix.X
		}
		if id, ok := t.(*ast.Ident); ok {
			return id.Name + "." + fd.Name.Name
		}
	}
	return fd.Name.Name
}

// identifier -> printed type, from parameters, results, receivers, `var`, `:= make(chan T)`, stream/builder constructors
func c15wTypes(fd *ast.FuncDecl) map[string]string {
	ty := map[string]string{}
	addFields := func(fl *ast.FieldList) {
		if fl == nil {
			return
		}
		for _, f := range fl.List {
			for _, n := range f.Names {
				ty[n.Name] = c15wText(f.Type)
			}
		}
	}
	addFields(fd.Recv)
	addFields(fd.Type.Params)
	addFields(fd.Type.Results)
	if fd.Body == nil {
		return ty
	}
	ast.Inspect(fd.Body, func(n ast.Node) bool {
		switch x := n.(type) {
		case *ast.FuncLit:
			addFields(x.Type.Params)
		case *ast.ValueSpec:
			if x.Type != nil {
				for _, n := range x.Names {
					ty[n.Name] = c15wText(x.Type)
				}
			}
		case *ast.AssignStmt:
			if len(x.Lhs) < 1 || len(x.Rhs) != 1 {
				return true
			}
			id, ok := x.Lhs[0].(*ast.Ident)
			if !ok {
				return true
			}
			switch r := x.Rhs[0].(type) {
			case *ast.CallExpr:
				if f, ok := r.Fun.(*ast.Ident); ok && f.Name == "make" && len(r.Args) >= 1 {
					ty[id.Name] = c15wText(r.Args[0])
				}
				if se, ok := r.Fun.(*ast.SelectorExpr); ok && (se.Sel.Name == "BorrowStream" || se.Sel.Name == "NewStream") {
					ty[id.Name] = "*jsoniter.Stream"
				}
			case *ast.CompositeLit:
				ty[id.Name] = c15wText(r.Type)
			case *ast.UnaryExpr:
				if cl, ok := r.X.(*ast.CompositeLit); ok && r.Op == token.AND {
					ty[id.Name] = "*" + c15wText(cl.Type)
				}
			}
		}
		return true
	})
	return ty
}

func c15wIsBodyChan(t string) bool {
	t = strings.TrimPrefix(strings.TrimPrefix(t, "chan<- "), "chan ")
	return t == "string" || t == "model.QueryRangeOutput" || t == "QueryRangeOutput"
}

// is the value of a send syntactically a string chunk?
func c15wStringy(e ast.Expr) bool {
	switch x := e.(type) {
	case *ast.BasicLit:
		return x.Kind == token.STRING
	case *ast.CompositeLit:
		return strings.HasSuffix(c15wText(x.Type), "QueryRangeOutput")
	case *ast.CallExpr:
		if id, ok := x.Fun.(*ast.Ident); ok && id.Name == "string" {
			return true
		}
		if se, ok := x.Fun.(*ast.SelectorExpr); ok {
			if se.Sel.Name == "String" && len(x.Args) == 0 {
				return true
			}
			if p, ok := se.X.(*ast.Ident); ok && p.Name == "fmt" && strings.HasPrefix(se.Sel.Name, "Sprint") {
				return true
			}
		}
	case *ast.BinaryExpr:
		return x.Op == token.ADD && (c15wStringy(x.X) || c15wStringy(x.Y))
	}
	return false
}

func c15wUnwrapBytes(e ast.Expr) ast.Expr {
	if ce, ok := e.(*ast.CallExpr); ok && len(ce.Args) == 1 {
		if at, ok := ce.Fun.(*ast.ArrayType); ok && at.Len == nil {
			if id, ok := at.Elt.(*ast.Ident); ok && id.Name == "byte" {
				return ce.Args[0]
			}
		}
	}
	return e
}

type c15wSite struct {
	pos   token.Pos
	kind  string
	piece string
	lit   *string // the value when the piece is a string literal
}

// the string literal written by a piece, through []byte(…) and model.QueryRangeOutput{Str: …}
func c15wLit(e ast.Expr) *string {
	e = c15wUnwrapBytes(e)
	if cl, ok := e.(*ast.CompositeLit); ok {
		for _, el := range cl.Elts {
			if kv, ok := el.(*ast.KeyValueExpr); ok {
				if k, ok := kv.Key.(*ast.Ident); ok && k.Name == "Str" {
					return c15wLit(kv.Value)
				}
			}
		}
		return nil
	}
	if s, ok := strLit(e); ok {
		return &s
	}
	return nil
}

// the write sites directly inside a node (function literals included)
func c15wSites(n ast.Node, ty map[string]string) []c15wSite {
	var sites []c15wSite
	typeOf := func(e ast.Expr) string {
		if id, ok := e.(*ast.Ident); ok {
			return ty[id.Name]
		}
		return ""
	}
	isRW := func(e ast.Expr) bool { return typeOf(e) == "http.ResponseWriter" }
	ast.Inspect(n, func(x ast.Node) bool {
		switch s := x.(type) {
		case *ast.SendStmt:
			t := typeOf(s.Chan)
			switch {
			case t != "" && c15wIsBodyChan(t):
				sites = append(sites, c15wSite{s.Pos(), "send", c15wText(s.Value), c15wLit(s.Value)})
			case t != "":
				// a channel of something else (entry batches, spans, …): not a body
			case c15wStringy(s.Value):
				sites = append(sites, c15wSite{s.Pos(), "send", c15wText(s.Value), c15wLit(s.Value)})
			default:
				sites = append(sites, c15wSite{s.Pos(), "send?", c15wText(s.Chan) + " <- " + c15wText(s.Value), nil})
			}
		case *ast.CallExpr:
			se, ok := s.Fun.(*ast.SelectorExpr)
			if !ok {
				return true
			}
			name := se.Sel.Name
			switch {
			case (name == "Write" || name == "WriteString") && isRW(se.X) && len(s.Args) == 1:
				sites = append(sites, c15wSite{s.Pos(), "write", c15wText(c15wUnwrapBytes(s.Args[0])), c15wLit(s.Args[0])})
			case (name == "Fprintf" || name == "Fprint" || name == "Fprintln" || name == "WriteString" || name == "Copy") && len(s.Args) >= 2 && isRW(s.Args[0]):
				sites = append(sites, c15wSite{s.Pos(), "write", c15wText(se) + "(" + c15wText(s.Args[1]) + ")", nil})
			case name == "Encode" && len(s.Args) == 1:
				if inner, ok := se.X.(*ast.CallExpr); ok && len(inner.Args) == 1 && isRW(inner.Args[0]) {
					sites = append(sites, c15wSite{s.Pos(), "write", c15wText(inner.Fun) + ".Encode(" + c15wText(s.Args[0]) + ")", nil})
				}
			case name == "WriteMessage" || name == "WriteJSON" || name == "WritePreparedMessage":
				args := make([]string, len(s.Args))
				for i, a := range s.Args {
					args[i] = c15wText(c15wUnwrapBytes(a))
				}
				var lit *string
				if len(s.Args) > 0 {
					lit = c15wLit(s.Args[len(s.Args)-1])
				}
				sites = append(sites, c15wSite{s.Pos(), "ws", name + "(" + strings.Join(args, ", ") + ")", lit})
			case strings.HasPrefix(name, "Write") && (typeOf(se.X) == "*jsoniter.Stream" || typeOf(se.X) == "jsoniter.Stream"):
				sites = append(sites, c15wSite{s.Pos(), "stream", name, nil})
			}
		}
		return true
	})
	sort.SliceStable(sites, func(i, j int) bool { return sites[i].pos < sites[j].pos })
	return sites
}

func c15wIsZero(e ast.Expr) bool {
	bl, ok := e.(*ast.BasicLit)
	return ok && bl.Kind == token.INT && bl.Value == "0"
}

// identifiers compared with the literal 0 in a condition
func c15wZeroCompared(cond ast.Expr) []string {
	var ids []string
	ast.Inspect(cond, func(x ast.Node) bool {
		be, ok := x.(*ast.BinaryExpr)
		if !ok {
			return true
		}
		switch be.Op {
		case token.GTR, token.NEQ, token.EQL, token.LSS, token.GEQ, token.LEQ:
			if id, ok := be.X.(*ast.Ident); ok && c15wIsZero(be.Y) {
				ids = append(ids, id.Name)
			}
			if id, ok := be.Y.(*ast.Ident); ok && c15wIsZero(be.X) {
				ids = append(ids, id.Name)
			}
		}
		return true
	})
	return ids
}

func c15wGuards(file, fn string, fd *ast.FuncDecl, ty map[string]string) []c15wGuard {
	var out []c15wGuard
	// all writes to an identifier inside the function, in source order
	writesOf := func(name string) []string {
		type w struct {
			pos token.Pos
			s   string
		}
		var ws []w
		ast.Inspect(fd.Body, func(x ast.Node) bool {
			switch s := x.(type) {
			case *ast.AssignStmt:
				for _, l := range s.Lhs {
					if id, ok := l.(*ast.Ident); ok && id.Name == name {
						ws = append(ws, w{s.Pos(), c15wText(s)})
					}
				}
			case *ast.IncDecStmt:
				if id, ok := s.X.(*ast.Ident); ok && id.Name == name {
					ws = append(ws, w{s.Pos(), c15wText(s)})
				}
			case *ast.RangeStmt:
				if id, ok := s.Key.(*ast.Ident); ok && id.Name == name {
					ws = append(ws, w{s.Pos(), "range key of " + c15wText(s.X)})
				}
			case *ast.ValueSpec:
				for i, n := range s.Names {
					if n.Name == name {
						t := "var " + name
						if s.Type != nil {
							t += " " + c15wText(s.Type)
						}
						if i < len(s.Values) {
							t += " = " + c15wText(s.Values[i])
						}
						ws = append(ws, w{s.Pos(), t})
					}
				}
			}
			return true
		})
		sort.SliceStable(ws, func(i, j int) bool { return ws[i].pos < ws[j].pos })
		res := make([]string, len(ws))
		for i := range ws {
			res[i] = ws[i].s
		}
		return res
	}
	ast.Inspect(fd.Body, func(x ast.Node) bool {
		is, ok := x.(*ast.IfStmt)
		if !ok {
			return true
		}
		ids := c15wZeroCompared(is.Cond)
		if len(ids) == 0 {
			return true
		}
		// pieces written directly in the body (not inside nested ifs/loops)
		var direct []string
		for _, st := range is.Body.List {
			switch st.(type) {
			case *ast.IfStmt, *ast.ForStmt, *ast.RangeStmt, *ast.SwitchStmt, *ast.BlockStmt:
				continue
			}
			for _, s := range c15wSites(st, ty) {
				p := s.piece
				if s.kind == "stream" {
					p = "stream." + p
				}
				direct = append(direct, p)
			}
		}
		if len(direct) == 0 {
			return true
		}
		g := c15wGuard{file: file, fn: fn, cond: c15wText(is.Cond), body: strings.Join(direct, "; ")}
		seen := map[string]bool{}
		for _, id := range ids {
			if seen[id] {
				continue
			}
			seen[id] = true
			for _, w := range writesOf(id) {
				g.writes = append(g.writes, w)
			}
		}
		out = append(out, g)
		return true
	})
	return out
}

// package-level integer constants of a directory
func c15wPkgConsts(files []*ast.File) map[string]int {
	cs := map[string]int{}
	for _, f := range files {
		for _, d := range f.Decls {
			gd, ok := d.(*ast.GenDecl)
			if !ok || (gd.Tok != token.CONST && gd.Tok != token.VAR) {
				continue
			}
			for _, sp := range gd.Specs {
				vs, ok := sp.(*ast.ValueSpec)
				if !ok {
					continue
				}
				for i, n := range vs.Names {
					if i < len(vs.Values) {
						if bl, ok := vs.Values[i].(*ast.BasicLit); ok && bl.Kind == token.INT {
							if v, err := strconv.Atoi(bl.Value); err == nil {
								cs[n.Name] = v
							}
						}
					}
				}
			}
		}
	}
	return cs
}

func c15wConsts(file, fn string, fd *ast.FuncDecl, pkg map[string]int) []c15wConst {
	var out []c15wConst
	// local constants / variables initialised with an integer literal and never reassigned are resolved too
	local := map[string]int{}
	ast.Inspect(fd.Body, func(x ast.Node) bool {
		if as, ok := x.(*ast.AssignStmt); ok && as.Tok == token.DEFINE && len(as.Lhs) == 1 && len(as.Rhs) == 1 {
			if id, ok := as.Lhs[0].(*ast.Ident); ok {
				if bl, ok := as.Rhs[0].(*ast.BasicLit); ok && bl.Kind == token.INT {
					if v, err := strconv.Atoi(bl.Value); err == nil {
						local[id.Name] = v
					}
				}
			}
		}
		if vs, ok := x.(*ast.ValueSpec); ok {
			for i, n := range vs.Names {
				if i < len(vs.Values) {
					if bl, ok := vs.Values[i].(*ast.BasicLit); ok && bl.Kind == token.INT {
						if v, err := strconv.Atoi(bl.Value); err == nil {
							local[n.Name] = v
						}
					}
				}
			}
		}
		return true
	})
	// … but only when nothing else assigns to the name
	ast.Inspect(fd.Body, func(x ast.Node) bool {
		switch st := x.(type) {
		case *ast.AssignStmt:
			if st.Tok != token.DEFINE || len(st.Lhs) != 1 {
				for _, l := range st.Lhs {
					if id, ok := l.(*ast.Ident); ok {
						delete(local, id.Name)
					}
				}
			}
		case *ast.IncDecStmt:
			if id, ok := st.X.(*ast.Ident); ok {
				delete(local, id.Name)
			}
		}
		return true
	})
	val := func(e ast.Expr) (int, bool) {
		switch v := e.(type) {
		case *ast.BasicLit:
			if v.Kind == token.INT {
				n, err := strconv.Atoi(v.Value)
				return n, err == nil
			}
		case *ast.Ident:
			if n, ok := pkg[v.Name]; ok {
				return n, true
			}
			if n, ok := local[v.Name]; ok && n >= 2 {
				return n, true
			}
		}
		return 0, false
	}
	type hit struct {
		pos token.Pos
		c   c15wConst
	}
	var hits []hit
	ast.Inspect(fd.Body, func(x ast.Node) bool {
		switch e := x.(type) {
		case *ast.BinaryExpr:
			switch e.Op {
			case token.GTR, token.GEQ, token.LSS, token.LEQ, token.EQL, token.NEQ, token.REM:
				for _, side := range []ast.Expr{e.X, e.Y} {
					if v, ok := val(side); ok && v >= 2 {
						hits = append(hits, hit{e.Pos(), c15wConst{file, fn, c15wText(e), v}})
					}
				}
			}
		case *ast.CallExpr:
			if id, ok := e.Fun.(*ast.Ident); ok && id.Name == "make" {
				for _, a := range e.Args[1:] {
					if v, ok := val(a); ok && v >= 2 {
						hits = append(hits, hit{e.Pos(), c15wConst{file, fn, c15wText(e), v}})
					}
				}
			}
		}
		return true
	})
	sort.SliceStable(hits, func(i, j int) bool { return hits[i].pos < hits[j].pos })
	for _, h := range hits {
		out = append(out, h.c)
	}
	return out
}

type c15wAll struct {
	entries []c15wEntry
	guards  []c15wGuard
	consts  []c15wConst
}

var c15wCache *c15wAll

func c15wScan() (*c15wAll, error) {
	if c15wCache != nil {
		return c15wCache, nil
	}
	res := &c15wAll{}
	root := filepath.Join(repo, "reader")
	byDir := map[string][]string{}
	err := filepath.Walk(root, func(p string, info os.FileInfo, err error) error {
		if err != nil {
			return err
		}
		if info.IsDir() || !strings.HasSuffix(p, ".go") || strings.HasSuffix(p, "_test.go") || strings.HasSuffix(p, ".pb.go") {
			return nil
		}
		byDir[filepath.Dir(p)] = append(byDir[filepath.Dir(p)], p)
		return nil
	})
	if err != nil {
		return nil, err
	}
	var dirs []string
	for d := range byDir {
		dirs = append(dirs, d)
	}
	sort.Strings(dirs)
	for _, d := range dirs {
		sort.Strings(byDir[d])
		fset := token.NewFileSet()
		var files []*ast.File
		for _, p := range byDir[d] {
			f, err := parser.ParseFile(fset, p, nil, 0)
			if err != nil {
				return nil, err
			}
			files = append(files, f)
		}
		pkg := c15wPkgConsts(files)
		for fi, f := range files {
			rel, _ := filepath.Rel(root, byDir[d][fi])
			for _, decl := range f.Decls {
				fd, ok := decl.(*ast.FuncDecl)
				if !ok || fd.Body == nil {
					continue
				}
				fn := c15wFuncName(fd)
				ty := c15wTypes(fd)
				sites := c15wSites(fd.Body, ty)
				hasSend := false
				ast.Inspect(fd.Body, func(x ast.Node) bool {
					if _, ok := x.(*ast.SendStmt); ok {
						hasSend = true
					}
					return true
				})
				if len(sites) > 0 {
					byKind := map[string][]string{}
					litsOf := map[string][]string{}
					var kinds []string
					for _, s := range sites {
						if _, ok := byKind[s.kind]; !ok {
							kinds = append(kinds, s.kind)
						}
						byKind[s.kind] = append(byKind[s.kind], s.piece)
						if s.lit != nil {
							litsOf[s.kind] = append(litsOf[s.kind], *s.lit)
						}
					}
					sort.Strings(kinds)
					for _, k := range kinds {
						pieces := byKind[k]
						if k == "stream" {
							cnt := map[string]int{}
							for _, p := range pieces {
								cnt[p]++
							}
							var names []string
							for n := range cnt {
								names = append(names, n)
							}
							sort.Strings(names)
							pieces = nil
							for _, n := range names {
								pieces = append(pieces, fmt.Sprintf("%s×%d", n, cnt[n]))
							}
						}
						res.entries = append(res.entries, c15wEntry{rel, fn, k, pieces, litsOf[k]})
					}
					res.guards = append(res.guards, c15wGuards(rel, fn, fd, ty)...)
				}
				if len(sites) > 0 || hasSend {
					res.consts = append(res.consts, c15wConsts(rel, fn, fd, pkg)...)
				}
			}
		}
	}
	if len(res.entries) == 0 {
		return nil, fmt.Errorf("no response writer found under reader/")
	}
	c15wCache = res
	return res, nil
}

func init() {
	register("ResponseWriters", func() (string, error) {
		all, err := c15wScan()
		if err != nil {
			return "", err
		}
		// the encoders the C15 model is about must be there
		need := map[string]bool{"QueryLabelsService.GenericLabelReq": false, "QueryLabelsService.series": false, "QueryRangeService.exportStreamsValue": false,
			"QueryRangeService.QueryRange": false, "QueryRangeService.QueryInstant": false, "QueryRangeService.Tail": false, "TempoController.Tags": false,
			"TempoController.Values": false, "TempoController.Search": false, "TempoController.Trace": false, "writeResponse": false, "writeVector": false,
			"writeMatrix": false, "writeScalar": false}
		for _, e := range all.entries {
			if _, ok := need[e.fn]; ok {
				need[e.fn] = true
			}
		}
		for fn, ok := range need {
			if !ok {
				return "", fmt.Errorf("response writer %s not found (renamed or no longer writing piecewise?)", fn)
			}
		}
		var sb strings.Builder
		sb.WriteString("namespace Qryn.Gen.ResponseWriters\n")
		sb.WriteString("/-- (file under reader/, function, kind, pieces in source order) of every place that writes (a piece of) a response body -/\n")
		sb.WriteString("def writers : List (String × String × String × List String) := [\n")
		for i, e := range all.entries {
			sep := ","
			if i == len(all.entries)-1 {
				sep = ""
			}
			fmt.Fprintf(&sb, "  (%s, %s, %s,\n    %s)%s\n", leanStr(e.file), leanStr(e.fn), leanStr(e.kind), leanStrList(e.pieces), sep)
		}
		sb.WriteString("]\n\n")
		sb.WriteString("/-- the bytes of the string-literal pieces, per (function, kind), in source order -/\n")
		sb.WriteString("def literals : List (String × String × List (List UInt8)) := [\n")
		first := true
		for _, e := range all.entries {
			if len(e.lits) == 0 {
				continue
			}
			if !first {
				sb.WriteString(",\n")
			}
			first = false
			bs := make([]string, len(e.lits))
			for i, l := range e.lits {
				bs[i] = leanBytes(l)
			}
			fmt.Fprintf(&sb, "  (%s, %s,\n    [%s])", leanStr(e.fn), leanStr(e.kind), strings.Join(bs, ",\n     "))
		}
		sb.WriteString("\n]\n\n")
		sb.WriteString("/-- (file, function, condition, pieces written under it, every write to the counters the condition compares with 0) -/\n")
		sb.WriteString("def guards : List (String × String × String × String × List String) := [\n")
		for i, g := range all.guards {
			sep := ","
			if i == len(all.guards)-1 {
				sep = ""
			}
			fmt.Fprintf(&sb, "  (%s, %s, %s, %s,\n    %s)%s\n", leanStr(g.file), leanStr(g.fn), leanStr(g.cond), leanStr(g.body), leanStrList(g.writes), sep)
		}
		sb.WriteString("]\nend Qryn.Gen.ResponseWriters\n")
		return sb.String(), nil
	})
	register("C15Batch", func() (string, error) {
		all, err := c15wScan()
		if err != nil {
			return "", err
		}
		getter := map[string][]int{}
		for _, c := range all.consts {
			if c.fn == "ClickhouseGetterPlanner.Scan" || c.fn == "ClickhouseGetterPlanner.ScanMatrix" {
				getter[c.fn] = append(getter[c.fn], c.val)
			}
		}
		batch := -1
		for _, fn := range []string{"ClickhouseGetterPlanner.Scan", "ClickhouseGetterPlanner.ScanMatrix"} {
			vs := getter[fn]
			if len(vs) == 0 {
				return "", fmt.Errorf("%s: no batch size literal found", fn)
			}
			for _, v := range vs {
				if batch == -1 {
					batch = v
				}
				if v != batch {
					return "", fmt.Errorf("%s: batch size literals disagree (%d vs %d)", fn, v, batch)
				}
			}
		}
		var sb strings.Builder
		sb.WriteString("namespace Qryn.Gen.C15Batch\n")
		fmt.Fprintf(&sb, "/-- entries per batch sent by ClickhouseGetterPlanner.Scan and ScanMatrix (buffer size = flush threshold, all literals equal) -/\ndef getterBatch : Nat := %d\n\n", batch)
		sb.WriteString("/-- (file, function, expression, value): integer literals ≥ 2 in comparisons and make() sizes of the response writers and of every function under reader/ that sends on a channel -/\n")
		sb.WriteString("def consts : List (String × String × String × Nat) := [\n")
		for i, c := range all.consts {
			sep := ","
			if i == len(all.consts)-1 {
				sep = ""
			}
			fmt.Fprintf(&sb, "  (%s, %s, %s, %d)%s\n", leanStr(c.file), leanStr(c.fn), leanStr(c.ctx), c.val, sep)
		}
		sb.WriteString("]\nend Qryn.Gen.C15Batch\n")
		return sb.String(), nil
	})
}
