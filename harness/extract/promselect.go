package main

import (
	"bytes"
	"fmt"
	"go/ast"
	"go/printer"
	"go/token"
	"strings"
)

// Gen.PromSelect: what the Prometheus matcher → SQL mapping says in the source right now.
//   * parser.LabelMatcher.GetOp            (reader/promql/parser/nodes.go): labels.MatchType → operator string
//   * StreamSelectPlanner.Process          (…/clickhouse_planner/planner_stream_select.go): operator → value clause
//   * SqlBitSetAnd.String                  (same file): the operand of bitShiftLeft (UInt8 comparison, or toUInt64(…))
//   * InitClickhousePlanner.Process        (reader/promql/transpiler/init_clickhouse_planner.go): scan bounds
//   * sql_select.Eq/Neq/Gt/Ge/Lt/Le        (reader/utils/sql_select/condition.go): the SQL operator each renders

func promPrintNode(fset *token.FileSet, n ast.Node) string {
	var b bytes.Buffer
	printer.Fprint(&b, fset, n)
	return strings.Join(strings.Fields(b.String()), " ")
}

// sqlCmpFns reads condition.go: func X(left, right) *LogicalOp { return BinaryLogicalOp("<op>", left, right) }
func sqlCmpFns() (map[string]string, error) {
	_, f, err := parseFile("reader/utils/sql_select/condition.go")
	if err != nil {
		return nil, err
	}
	res := map[string]string{}
	for _, name := range []string{"Eq", "Neq", "Gt", "Ge", "Lt", "Le"} {
		fd := findFunc(f, "", name)
		if fd == nil || fd.Body == nil || len(fd.Body.List) != 1 {
			return nil, fmt.Errorf("sql_select.%s: unexpected shape", name)
		}
		rs, ok := fd.Body.List[0].(*ast.ReturnStmt)
		if !ok || len(rs.Results) != 1 {
			return nil, fmt.Errorf("sql_select.%s: unexpected shape", name)
		}
		call, ok := rs.Results[0].(*ast.CallExpr)
		if !ok || len(call.Args) != 3 {
			return nil, fmt.Errorf("sql_select.%s: unexpected shape", name)
		}
		if id, ok := call.Fun.(*ast.Ident); !ok || id.Name != "BinaryLogicalOp" {
			return nil, fmt.Errorf("sql_select.%s: does not call BinaryLogicalOp", name)
		}
		op, ok := strLit(call.Args[0])
		if !ok {
			return nil, fmt.Errorf("sql_select.%s: operator is not a literal", name)
		}
		res[name] = op
	}
	return res, nil
}

func selName(e ast.Expr, pkg string) (string, bool) {
	se, ok := e.(*ast.SelectorExpr)
	if !ok {
		return "", false
	}
	id, ok := se.X.(*ast.Ident)
	if !ok || id.Name != pkg {
		return "", false
	}
	return se.Sel.Name, true
}

func init() {
	register("PromSelect", func() (string, error) {
		cmp, err := sqlCmpFns()
		if err != nil {
			return "", err
		}
		// ---- GetOp
		fset, f, err := parseFile("reader/promql/parser/nodes.go")
		if err != nil {
			return "", err
		}
		fd := findFunc(f, "LabelMatcher", "GetOp")
		if fd == nil || len(fd.Body.List) != 2 {
			return "", fmt.Errorf("LabelMatcher.GetOp: expected a switch followed by a return")
		}
		sw, ok := fd.Body.List[0].(*ast.SwitchStmt)
		if !ok || promPrintNode(fset, sw.Tag) != "l.Node.Type" {
			return "", fmt.Errorf("LabelMatcher.GetOp: expected switch l.Node.Type")
		}
		var mtOps [][2]string
		for _, st := range sw.Body.List {
			cc := st.(*ast.CaseClause)
			if len(cc.List) != 1 || len(cc.Body) != 1 {
				return "", fmt.Errorf("LabelMatcher.GetOp: unexpected case shape")
			}
			mt, ok := selName(cc.List[0], "labels")
			if !ok {
				return "", fmt.Errorf("LabelMatcher.GetOp: case is not labels.X")
			}
			rs, ok := cc.Body[0].(*ast.ReturnStmt)
			if !ok || len(rs.Results) != 1 {
				return "", fmt.Errorf("LabelMatcher.GetOp: case does not return")
			}
			op, ok := strLit(rs.Results[0])
			if !ok {
				return "", fmt.Errorf("LabelMatcher.GetOp: case does not return a literal")
			}
			mtOps = append(mtOps, [2]string{mt, op})
		}
		rs, ok := fd.Body.List[1].(*ast.ReturnStmt)
		if !ok || len(rs.Results) != 1 {
			return "", fmt.Errorf("LabelMatcher.GetOp: no final return")
		}
		defOp, ok := strLit(rs.Results[0])
		if !ok {
			return "", fmt.Errorf("LabelMatcher.GetOp: final return is not a literal")
		}
		// ---- StreamSelectPlanner.Process
		fset, f, err = parseFile("reader/logql/logql_transpiler_v2/clickhouse_planner/planner_stream_select.go")
		if err != nil {
			return "", err
		}
		fd = findFunc(f, "StreamSelectPlanner", "Process")
		if fd == nil {
			return "", fmt.Errorf("StreamSelectPlanner.Process not found")
		}
		var opSw *ast.SwitchStmt
		var clauseAssign, fpReq string
		ast.Inspect(fd.Body, func(n ast.Node) bool {
			switch x := n.(type) {
			case *ast.SwitchStmt:
				if x.Tag != nil && promPrintNode(fset, x.Tag) == "s.Ops[i]" {
					opSw = x
				}
			case *ast.AssignStmt:
				if len(x.Lhs) == 1 {
					switch promPrintNode(fset, x.Lhs[0]) {
					case "clauses[i]":
						clauseAssign = promPrintNode(fset, x)
					case "fpRequest":
						fpReq = promPrintNode(fset, x)
					}
				}
			}
			return true
		})
		if opSw == nil {
			return "", fmt.Errorf("StreamSelectPlanner.Process: switch s.Ops[i] not found")
		}
		// (the shape of the request itself — clause wrapper, WHERE/GROUP BY/HAVING — is not a Gen fact: the fpsql
		// stream compares the rendered text byte for byte and the e2e stream executes it)
		_, _ = clauseAssign, fpReq
		type clause struct {
			op, fn string
			match  bool
			rhs    int64
		}
		var clauses []clause
		for _, st := range opSw.Body.List {
			cc := st.(*ast.CaseClause)
			if cc.List == nil {
				continue // default: NotSupportedError
			}
			if len(cc.List) != 1 || len(cc.Body) < 1 {
				return "", fmt.Errorf("StreamSelectPlanner.Process: unexpected case shape")
			}
			op, ok := strLit(cc.List[0])
			if !ok {
				return "", fmt.Errorf("StreamSelectPlanner.Process: case is not a string literal")
			}
			as, ok := cc.Body[0].(*ast.AssignStmt)
			if !ok || len(as.Lhs) != 1 || promPrintNode(fset, as.Lhs[0]) != "valClause" || len(as.Rhs) != 1 {
				return "", fmt.Errorf("StreamSelectPlanner.Process: case %q does not assign valClause", op)
			}
			call, ok := as.Rhs[0].(*ast.CallExpr)
			if !ok || len(call.Args) != 2 {
				return "", fmt.Errorf("StreamSelectPlanner.Process: case %q: unexpected value clause", op)
			}
			fn, ok := selName(call.Fun, "sql")
			if !ok || cmp[fn] == "" {
				return "", fmt.Errorf("StreamSelectPlanner.Process: case %q: unknown comparison %s", op, promPrintNode(fset, call.Fun))
			}
			c := clause{op: op, fn: cmp[fn]}
			lhs, rhs := promPrintNode(fset, call.Args[0]), promPrintNode(fset, call.Args[1])
			switch {
			case lhs == `sql.NewRawObject("val")` && rhs == `sql.NewStringVal(s.Values[i])`:
			case lhs == `&sqlMatch{ col: sql.NewRawObject("val"), pattern: s.Values[i]}` && strings.HasPrefix(rhs, "sql.NewIntVal(") && strings.HasSuffix(rhs, ")"):
				c.match = true
				if _, err := fmt.Sscanf(rhs, "sql.NewIntVal(%d)", &c.rhs); err != nil {
					return "", fmt.Errorf("StreamSelectPlanner.Process: case %q: %s is not an integer literal", op, rhs)
				}
			default:
				return "", fmt.Errorf("StreamSelectPlanner.Process: case %q compares %s with %s: shape not recognised", op, lhs, rhs)
			}
			clauses = append(clauses, c)
		}
		// ---- SqlBitSetAnd.String
		fd = findFunc(f, "SqlBitSetAnd", "String")
		if fd == nil {
			return "", fmt.Errorf("SqlBitSetAnd.String not found")
		}
		var shiftFmt, orFmt string
		ast.Inspect(fd.Body, func(n ast.Node) bool {
			if s, ok := n.(*ast.BasicLit); ok && s.Kind == token.STRING {
				v, _ := strLit(s)
				if strings.HasPrefix(v, "bitShiftLeft(") {
					shiftFmt = v
				}
				if strings.HasPrefix(v, "groupBitOr(") {
					orFmt = v
				}
			}
			return true
		})
		width, cast := 0, ""
		switch shiftFmt {
		case "bitShiftLeft(%s, %d)":
			width = 8 // a comparison is UInt8 and bitShiftLeft keeps the type of its first argument
		case "bitShiftLeft(toUInt64(%s), %d)":
			width, cast = 64, "toUInt64"
		default:
			return "", fmt.Errorf("SqlBitSetAnd.String: shift term %q not recognised", shiftFmt)
		}
		if orFmt != "groupBitOr(%s)" {
			return "", fmt.Errorf("SqlBitSetAnd.String: aggregate %q not recognised", orFmt)
		}
		// ---- InitClickhousePlanner.Process
		fset, f, err = parseFile("reader/promql/transpiler/init_clickhouse_planner.go")
		if err != nil {
			return "", err
		}
		fd = findFunc(f, "InitClickhousePlanner", "Process")
		if fd == nil {
			return "", fmt.Errorf("InitClickhousePlanner.Process not found")
		}
		lower, upper := "", ""
		ast.Inspect(fd.Body, func(n ast.Node) bool {
			call, ok := n.(*ast.CallExpr)
			if !ok || len(call.Args) != 2 {
				return true
			}
			fn, ok := selName(call.Fun, "sql")
			if !ok || cmp[fn] == "" || promPrintNode(fset, call.Args[0]) != `sql.NewRawObject("samples.timestamp_ns")` {
				return true
			}
			switch promPrintNode(fset, call.Args[1]) {
			case "sql.NewIntVal(ctx.From.UnixNano())":
				lower = cmp[fn]
			case "sql.NewIntVal(ctx.To.UnixNano())":
				upper = cmp[fn]
			}
			return true
		})
		if lower == "" || upper == "" {
			return "", fmt.Errorf("InitClickhousePlanner.Process: bounds on samples.timestamp_ns against ctx.From/ctx.To not found")
		}

		// ---- fingerprintsQuery: which matcher values are rewritten before they reach the planner
		fset, f, err = parseFile("reader/promql/transpiler/shared.go")
		if err != nil {
			return "", err
		}
		fd = findFunc(f, "", "fingerprintsQuery")
		if fd == nil {
			return "", fmt.Errorf("fingerprintsQuery not found")
		}
		var loop *ast.RangeStmt
		for _, st := range fd.Body.List {
			if rs, ok := st.(*ast.RangeStmt); ok && promPrintNode(fset, rs.X) == "matchers" {
				loop = rs
			}
		}
		if loop == nil || promPrintNode(fset, loop.Value) != "_matcher" {
			return "", fmt.Errorf("fingerprintsQuery: loop over matchers not found")
		}
		var body []string
		for _, st := range loop.Body.List {
			body = append(body, promPrintNode(fset, st))
		}
		// ---- a matcher that accepts the empty value: asked inverted, its bit not required (after `fix: a PromQL matcher
		// that accepts the empty value …`); without that statement every matcher needs a row ("row-required")
		absentLabel := "row-required"
		var optClauses []clause
		const inverseStmt = `if _matcher.Matches("") { inverse, err := _matcher.Inverse() if err != nil { return nil, err } _matcher = inverse } else { required |= 1 << i }`
		if len(body) > 0 && strings.HasPrefix(body[0], "if _matcher.Matches(") {
			if body[0] != inverseStmt {
				return "", fmt.Errorf("fingerprintsQuery: the test for matchers that accept the empty value is %q, expected %q", body[0], inverseStmt)
			}
			if loop.Key == nil || promPrintNode(fset, loop.Key) != "i" {
				return "", fmt.Errorf("fingerprintsQuery: the loop index is not i")
			}
			absentLabel = "inverse"
			body = body[1:]
			loop.Body.List = loop.Body.List[1:]
			// the statements after the loop: the shared planner when every bit is required, optionalLabelsQuery otherwise
			var after []string
			seen := false
			for _, st := range fd.Body.List {
				if st == ast.Stmt(loop) {
					seen = true
					continue
				}
				if seen {
					after = append(after, promPrintNode(fset, st))
				}
			}
			wantAfter := []string{
				`if len(matchers) > 0 && required == (1<<len(matchers))-1 { plannerStreamSelect := logql_transpiler.NewStreamSelectPlanner(labelNames, ops, values) return plannerStreamSelect.Process(ctx) }`,
				`return optionalLabelsQuery(ctx, labelNames, ops, values, required)`}
			if strings.Join(after, "\n") != strings.Join(wantAfter, "\n") {
				return "", fmt.Errorf("fingerprintsQuery: statements after the loop %q, expected %q", after, wantAfter)
			}
			od := findFunc(f, "", "optionalLabelsQuery")
			if od == nil {
				return "", fmt.Errorf("optionalLabelsQuery not found")
			}
			var osw *ast.SwitchStmt
			var rest []string
			for _, st := range od.Body.List {
				if rs, ok := st.(*ast.RangeStmt); ok {
					if promPrintNode(fset, rs.X) != "labelNames" || promPrintNode(fset, rs.Key) != "i" || promPrintNode(fset, rs.Value) != "name" || len(rs.Body.List) != 3 {
						return "", fmt.Errorf("optionalLabelsQuery: loop not recognised")
					}
					if promPrintNode(fset, rs.Body.List[0]) != "var valClause sql.SQLCondition" ||
						promPrintNode(fset, rs.Body.List[2]) != `clauses[i] = sql.And(sql.Eq(sql.NewRawObject("key"), sql.NewStringVal(name)), valClause)` {
						return "", fmt.Errorf("optionalLabelsQuery: clause construction not recognised")
					}
					sw, ok := rs.Body.List[1].(*ast.SwitchStmt)
					if !ok || promPrintNode(fset, sw.Tag) != "ops[i]" {
						return "", fmt.Errorf("optionalLabelsQuery: switch ops[i] not found")
					}
					osw = sw
					continue
				}
				rest = append(rest, promPrintNode(fset, st))
			}
			wantRest := []string{
				`clauses := make([]sql.SQLCondition, len(labelNames))`,
				`fpRequest := sql.NewSelect(). Select(sql.NewRawObject("fingerprint")). From(sql.NewRawObject(ctx.TimeSeriesGinTableName)). AndWhere( sql.Ge(sql.NewRawObject("date"), sql.NewStringVal(logql_transpiler.FormatFromDate(ctx.From))), logql_transpiler.GetTypes(ctx)). GroupBy(sql.NewRawObject("fingerprint"))`,
				`if required != 0 { fpRequest.AndWhere(sql.Or(clauses...)) }`,
				`if len(clauses) > 0 { fpRequest.AndHaving(sql.Eq(logql_transpiler.NewSqlBitSetAnd(clauses), sql.NewIntVal(required))) }`,
				`return fpRequest, nil`}
			if osw == nil || strings.Join(rest, "\n") != strings.Join(wantRest, "\n") {
				return "", fmt.Errorf("optionalLabelsQuery: body %q, expected %q", rest, wantRest)
			}
			for _, st := range osw.Body.List {
				cc := st.(*ast.CaseClause)
				if cc.List == nil {
					continue // default: NotSupportedError
				}
				if len(cc.List) != 1 || len(cc.Body) != 1 {
					return "", fmt.Errorf("optionalLabelsQuery: unexpected case shape")
				}
				op, ok := strLit(cc.List[0])
				if !ok {
					return "", fmt.Errorf("optionalLabelsQuery: case is not a string literal")
				}
				as, ok := cc.Body[0].(*ast.AssignStmt)
				if !ok || len(as.Lhs) != 1 || promPrintNode(fset, as.Lhs[0]) != "valClause" || len(as.Rhs) != 1 {
					return "", fmt.Errorf("optionalLabelsQuery: case %q does not assign valClause", op)
				}
				call, ok := as.Rhs[0].(*ast.CallExpr)
				if !ok || len(call.Args) != 2 {
					return "", fmt.Errorf("optionalLabelsQuery: case %q: unexpected value clause", op)
				}
				fn, ok := selName(call.Fun, "sql")
				if !ok || cmp[fn] == "" {
					return "", fmt.Errorf("optionalLabelsQuery: case %q: unknown comparison", op)
				}
				c := clause{op: op, fn: cmp[fn]}
				lhs, rhs := promPrintNode(fset, call.Args[0]), promPrintNode(fset, call.Args[1])
				switch {
				case lhs == `sql.NewRawObject("val")` && rhs == `sql.NewStringVal(values[i])`:
				case lhs == `logql_transpiler.NewSqlMatch(sql.NewRawObject("val"), values[i])` && strings.HasPrefix(rhs, "sql.NewIntVal(") && strings.HasSuffix(rhs, ")"):
					c.match = true
					if _, err := fmt.Sscanf(rhs, "sql.NewIntVal(%d)", &c.rhs); err != nil {
						return "", fmt.Errorf("optionalLabelsQuery: case %q: %s is not an integer literal", op, rhs)
					}
				default:
					return "", fmt.Errorf("optionalLabelsQuery: case %q compares %s with %s: shape not recognised", op, lhs, rhs)
				}
				optClauses = append(optClauses, c)
			}
			// NewSqlMatch builds the node the shared planner builds
			_, mf, err := parseFile("reader/logql/logql_transpiler_v2/clickhouse_planner/sql_misc.go")
			if err != nil {
				return "", err
			}
			nm := findFunc(mf, "", "NewSqlMatch")
			if nm == nil || len(nm.Body.List) != 1 || promPrintNode(token.NewFileSet(), nm.Body.List[0]) != "return &sqlMatch{col: col, pattern: pattern}" {
				return "", fmt.Errorf("clickhouse_planner.NewSqlMatch: shape not recognised")
			}
		}
		head := []string{"matcher := parser.LabelMatcher{Node: _matcher}", "labelNames = append(labelNames, matcher.GetLabel())", "ops = append(ops, matcher.GetOp())"}
		for i, w := range head {
			if i >= len(body) || body[i] != w {
				return "", fmt.Errorf("fingerprintsQuery: statement %d of the loop is not %q", i, w)
			}
		}
		var anchored []string
		rePrefix, reSuffix := "", ""
		switch {
		case len(body) == 4 && body[3] == "values = append(values, matcher.GetVal())":
		case len(body) == 6 && body[3] == "val := matcher.GetVal()" && body[5] == "values = append(values, val)":
			ifs, ok := loop.Body.List[4].(*ast.IfStmt)
			if !ok || ifs.Else != nil || ifs.Init != nil || len(ifs.Body.List) != 1 {
				return "", fmt.Errorf("fingerprintsQuery: value rewrite not recognised")
			}
			var collect func(e ast.Expr) bool
			collect = func(e ast.Expr) bool {
				be, ok := e.(*ast.BinaryExpr)
				if !ok {
					return false
				}
				if be.Op == token.LOR {
					return collect(be.X) && collect(be.Y)
				}
				if be.Op != token.EQL || promPrintNode(fset, be.X) != "_matcher.Type" {
					return false
				}
				mt, ok := selName(be.Y, "labels")
				if !ok {
					return false
				}
				anchored = append(anchored, mt)
				return true
			}
			if !collect(ifs.Cond) {
				return "", fmt.Errorf("fingerprintsQuery: condition %q not recognised", promPrintNode(fset, ifs.Cond))
			}
			as, ok := ifs.Body.List[0].(*ast.AssignStmt)
			if !ok || len(as.Lhs) != 1 || promPrintNode(fset, as.Lhs[0]) != "val" || as.Tok != token.ASSIGN {
				return "", fmt.Errorf("fingerprintsQuery: value rewrite not recognised")
			}
			outer, ok := as.Rhs[0].(*ast.BinaryExpr)
			if !ok || outer.Op != token.ADD {
				return "", fmt.Errorf("fingerprintsQuery: value rewrite not recognised")
			}
			inner, ok := outer.X.(*ast.BinaryExpr)
			if !ok || inner.Op != token.ADD || promPrintNode(fset, inner.Y) != "val" {
				return "", fmt.Errorf("fingerprintsQuery: value rewrite not recognised")
			}
			var ok1, ok2 bool
			rePrefix, ok1 = strLit(inner.X)
			reSuffix, ok2 = strLit(outer.Y)
			if !ok1 || !ok2 {
				return "", fmt.Errorf("fingerprintsQuery: value rewrite not recognised")
			}
		default:
			return "", fmt.Errorf("fingerprintsQuery: loop body %q not recognised", body)
		}

		var b strings.Builder
		b.WriteString("namespace Qryn.Gen.PromSelect\n")
		b.WriteString("/-- fingerprintsQuery: match types whose value is wrapped as prefix ++ value ++ suffix -/\n")
		b.WriteString("def anchoredTypes : List String := [")
		for i, a := range anchored {
			if i > 0 {
				b.WriteString(", ")
			}
			b.WriteString(leanStr(a))
		}
		fmt.Fprintf(&b, "]\ndef valuePrefix : String := %s\ndef valueSuffix : String := %s\n", leanStr(rePrefix), leanStr(reSuffix))
		b.WriteString("/-- sql_select constructors ↦ the operator BinaryLogicalOp renders (condition.go) -/\n")
		b.WriteString("def cmpFns : List (String × String) := [")
		for i, name := range []string{"Eq", "Neq", "Gt", "Ge", "Lt", "Le"} {
			if i > 0 {
				b.WriteString(", ")
			}
			fmt.Fprintf(&b, "(%s, %s)", leanStr(name), leanStr(cmp[name]))
		}
		b.WriteString("]\n")
		b.WriteString("/-- parser.LabelMatcher.GetOp: labels.MatchType constant ↦ operator string (switch cases in order) -/\n")
		b.WriteString("def matchTypeOps : List (String × String) := [")
		for i, p := range mtOps {
			if i > 0 {
				b.WriteString(", ")
			}
			fmt.Fprintf(&b, "(%s, %s)", leanStr(p[0]), leanStr(p[1]))
		}
		b.WriteString("]\n/-- … and the operator returned for every other match type -/\n")
		fmt.Fprintf(&b, "def matchTypeDefault : String := %s\n", leanStr(defOp))
		b.WriteString("/-- StreamSelectPlanner.Process: operator ↦ (SQL comparison, left side is match(val, pattern), integer right side) -/\n")
		b.WriteString("def opClauses : List (String × (String × Bool × Int)) := [")
		for i, c := range clauses {
			if i > 0 {
				b.WriteString(", ")
			}
			fmt.Fprintf(&b, "(%s, (%s, %v, %d))", leanStr(c.op), leanStr(c.fn), c.match, c.rhs)
		}
		b.WriteString("]\n/-- fingerprintsQuery: \"inverse\" = a matcher that accepts the empty value is asked inverted and its bit must stay clear; \"row-required\" = every matcher needs an index row (the code as it was written) -/\n")
		fmt.Fprintf(&b, "def absentLabel : String := %s\n", leanStr(absentLabel))
		b.WriteString("/-- optionalLabelsQuery: operator ↦ value clause, same format as opClauses (empty when the function does not exist) -/\n")
		b.WriteString("def optClauses : List (String × (String × Bool × Int)) := [")
		for i, c := range optClauses {
			if i > 0 {
				b.WriteString(", ")
			}
			fmt.Fprintf(&b, "(%s, (%s, %v, %d))", leanStr(c.op), leanStr(c.fn), c.match, c.rhs)
		}
		b.WriteString("]\n/-- SqlBitSetAnd.String: bit width of the operand of bitShiftLeft, and the cast wrapped around the condition -/\n")
		fmt.Fprintf(&b, "def shiftWidth : Nat := %d\ndef shiftCast : String := %s\n", width, leanStr(cast))
		b.WriteString("/-- InitClickhousePlanner.Process: comparison of samples.timestamp_ns with ctx.From / ctx.To -/\n")
		fmt.Fprintf(&b, "def scanLower : String := %s\ndef scanUpper : String := %s\n", leanStr(lower), leanStr(upper))
		b.WriteString("end Qryn.Gen.PromSelect\n")
		return b.String(), nil
	})
}
