package main

// Gen.GrammarFields — every field of the participle grammar structs of the query languages (LogQL, TraceQL, the
// profile selector, the path language of `| json x="path"`) that captures TOKEN TEXT: the places where text of the
// request enters the syntax tree the planners read. Per field: the token rules it can capture. Fields that capture
// only literal alternatives ("by"|"without") are enumerations and are listed as such; fields that hold sub-nodes
// are followed. Fails closed on a field whose tag is not understood. The C10 harness must name a taint position
// (or a reason) for every entry: a new string-carrying grammar field fails the `grammar` stream.

import (
	"fmt"
	"go/ast"
	"sort"
	"strconv"
	"strings"
)

type gField struct {
	lang, strct, field, kind, tokens string
}

// captures of a participle tag: the atoms after each '@' ('@@' = sub-node)
func tagCaptures(tag string) (atoms []string, sub bool, err error) {
	i := 0
	for i < len(tag) {
		c := tag[i]
		switch {
		case c == '"':
			j := i + 1
			for j < len(tag) && tag[j] != '"' {
				if tag[j] == '\\' {
					j++
				}
				j++
			}
			i = j + 1
		case c == '@':
			if i+1 < len(tag) && tag[i+1] == '@' {
				sub = true
				i += 2
				continue
			}
			i++
			if i >= len(tag) {
				return nil, false, fmt.Errorf("dangling @")
			}
			if tag[i] == '(' {
				depth := 0
				j := i
				for j < len(tag) {
					if tag[j] == '"' {
						k := j + 1
						for k < len(tag) && tag[k] != '"' {
							k++
						}
						j = k + 1
						continue
					}
					if tag[j] == '(' {
						depth++
					}
					if tag[j] == ')' {
						depth--
						if depth == 0 {
							break
						}
					}
					j++
				}
				if j >= len(tag) {
					return nil, false, fmt.Errorf("unbalanced capture group")
				}
				as, err := groupAtoms(tag[i+1 : j])
				if err != nil {
					return nil, false, err
				}
				atoms = append(atoms, as...)
				i = j + 1
			} else if tag[i] == '"' {
				j := i + 1
				for j < len(tag) && tag[j] != '"' {
					j++
				}
				atoms = append(atoms, tag[i:j+1])
				i = j + 1
			} else {
				j := i
				for j < len(tag) && (tag[j] == '_' || tag[j] >= 'a' && tag[j] <= 'z' || tag[j] >= 'A' && tag[j] <= 'Z' || tag[j] >= '0' && tag[j] <= '9') {
					j++
				}
				if j == i {
					return nil, false, fmt.Errorf("capture of unexpected shape at %q", tag[i:])
				}
				atoms = append(atoms, tag[i:j])
				i = j
			}
		default:
			i++
		}
	}
	return atoms, sub, nil
}

// atoms inside @( … ): literals and token names separated by | blanks and the postfix operators ? * +
func groupAtoms(s string) ([]string, error) {
	var res []string
	i := 0
	for i < len(s) {
		c := s[i]
		switch {
		case c == '"':
			j := i + 1
			for j < len(s) && s[j] != '"' {
				j++
			}
			res = append(res, s[i:j+1])
			i = j + 1
		case c == '_' || c >= 'a' && c <= 'z' || c >= 'A' && c <= 'Z':
			j := i
			for j < len(s) && (s[j] == '_' || s[j] >= 'a' && s[j] <= 'z' || s[j] >= 'A' && s[j] <= 'Z' || s[j] >= '0' && s[j] <= '9') {
				j++
			}
			res = append(res, s[i:j])
			i = j
		case strings.IndexByte(" |?*+()\n\t\r", c) >= 0:
			i++
		default:
			return nil, fmt.Errorf("unexpected %q in capture group %q", c, s)
		}
	}
	return res, nil
}

func typeName(e ast.Expr) (name string, wrap string) {
	switch t := e.(type) {
	case *ast.Ident:
		return t.Name, ""
	case *ast.StarExpr:
		n, _ := typeName(t.X)
		return n, "*"
	case *ast.ArrayType:
		n, _ := typeName(t.Elt)
		return n, "[]"
	}
	return "", "?"
}

func grammarOf(lang, rel string, only map[string]bool) ([]gField, error) {
	_, f, err := parseFile(rel)
	if err != nil {
		return nil, err
	}
	type fld struct {
		name, typ, tag string
	}
	structs := map[string][]fld{}
	var order []string
	for _, d := range f.Decls {
		gd, ok := d.(*ast.GenDecl)
		if !ok {
			continue
		}
		for _, sp := range gd.Specs {
			ts, ok := sp.(*ast.TypeSpec)
			if !ok {
				continue
			}
			st, ok := ts.Type.(*ast.StructType)
			if !ok {
				continue
			}
			if only != nil && !only[ts.Name.Name] {
				continue
			}
			tagged := false
			var fs []fld
			for _, fl := range st.Fields.List {
				if fl.Tag == nil {
					continue
				}
				tagged = true
				tag, err := strconv.Unquote(fl.Tag.Value)
				if err != nil {
					return nil, fmt.Errorf("%s: %s: tag not a string literal", rel, ts.Name.Name)
				}
				tn, wrap := typeName(fl.Type)
				if wrap == "?" {
					return nil, fmt.Errorf("%s: %s: field type of unexpected shape", rel, ts.Name.Name)
				}
				for _, n := range fl.Names {
					fs = append(fs, fld{n.Name, tn, tag})
				}
			}
			if tagged {
				structs[ts.Name.Name] = fs
				order = append(order, ts.Name.Name)
			}
		}
	}
	if len(order) == 0 {
		return nil, fmt.Errorf("%s: no grammar structs found", rel)
	}
	isTok := func(a string) bool { return !strings.HasPrefix(a, "\"") }
	toks := func(atoms []string) string {
		m := map[string]bool{}
		for _, a := range atoms {
			if isTok(a) {
				m[a] = true
			}
		}
		var l []string
		for a := range m {
			l = append(l, a)
		}
		sort.Strings(l)
		return strings.Join(l, "|")
	}
	// wrappers: a struct with exactly one string field capturing tokens (QuotedString, LabelName, Str)
	wrappers := map[string]string{}
	for _, s := range order {
		fs := structs[s]
		if len(fs) == 1 && fs[0].typ == "string" {
			atoms, sub, err := tagCaptures(fs[0].tag)
			if err != nil {
				return nil, fmt.Errorf("%s: %s.%s: %v", rel, s, fs[0].name, err)
			}
			if !sub && toks(atoms) != "" {
				wrappers[s] = toks(atoms)
			}
		}
	}
	var res []gField
	for _, s := range order {
		if _, w := wrappers[s]; w {
			res = append(res, gField{lang, s, structs[s][0].name, "wrapper", wrappers[s]})
			continue
		}
		for _, fl := range structs[s] {
			atoms, sub, err := tagCaptures(fl.tag)
			if err != nil {
				return nil, fmt.Errorf("%s: %s.%s: %v", rel, s, fl.name, err)
			}
			switch {
			case fl.typ == "string":
				if sub || len(atoms) == 0 {
					return nil, fmt.Errorf("%s: %s.%s: string field without a token capture", rel, s, fl.name)
				}
				if t := toks(atoms); t != "" {
					res = append(res, gField{lang, s, fl.name, "token", t})
				} else {
					res = append(res, gField{lang, s, fl.name, "enum", ""})
				}
			case wrappers[fl.typ] != "":
				if !sub {
					return nil, fmt.Errorf("%s: %s.%s: wrapper field without @@", rel, s, fl.name)
				}
				res = append(res, gField{lang, s, fl.name, "use:" + fl.typ, wrappers[fl.typ]})
			default:
				if _, known := structs[fl.typ]; !known || !sub {
					return nil, fmt.Errorf("%s: %s.%s: field of type %s is neither token text nor a grammar node", rel, s, fl.name, fl.typ)
				}
			}
		}
	}
	return res, nil
}

func init() {
	register("GrammarFields", func() (string, error) {
		var all []gField
		for _, g := range []struct {
			lang, rel string
			only      map[string]bool
		}{
			{"logql", "reader/logql/logql_parser/model_v2.go", nil},
			{"traceql", "reader/traceql/parser/model_v2.go", nil},
			{"prof", "reader/prof/parser/model.go", nil},
			{"jsonpath", "reader/logql/logql_transpiler_v2/shared/path_parser.go", nil},
		} {
			fs, err := grammarOf(g.lang, g.rel, g.only)
			if err != nil {
				return "", err
			}
			all = append(all, fs...)
		}
		var b strings.Builder
		b.WriteString("namespace Qryn.Gen\n/-! (language, struct, field, kind, token rules): every grammar field that captures token text.\n" +
			"    kind: `token` = a string field capturing the listed token rules; `use:<W>` = a field of the one-field wrapper\n" +
			"    struct W (QuotedString, LabelName, Str); `wrapper` = the wrapper's own field; `enum` = literal alternatives only -/\n")
		b.WriteString("def grammarFields : List (String × String × String × String × String) := [\n")
		for i, g := range all {
			sep := ","
			if i == len(all)-1 {
				sep = ""
			}
			fmt.Fprintf(&b, "  (%s, %s, %s, %s, %s)%s\n", leanStr(g.lang), leanStr(g.strct), leanStr(g.field), leanStr(g.kind), leanStr(g.tokens), sep)
		}
		b.WriteString("]\nend Qryn.Gen\n")
		return b.String(), nil
	})
}
