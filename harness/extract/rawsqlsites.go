package main

// Gen.RawSqlSites (C10): the inventory of every place under reader/ where SQL text can be written WITHOUT going
// through a `sql_select` constructor that escapes (`NewStringVal`) or formats a number (`NewIntVal`, `NewFloatVal`).
//
// Listed (go/ast only, in source order per file; no line numbers, so that unrelated edits do not disturb the census):
//
//   sprintf    every fmt.Sprintf call under reader/ (format string when it is a literal / concatenation of literals,
//              else its source text behind "≠lit:"), with every argument
//   fmtraw     every sql.FmtRawObject call (same shape)
//   raw        sql.NewRawObject(x)           with x not a string literal
//   simplecol  sql.NewSimpleCol(name, alias) with a non-literal name or alias
//   colalias   sql.NewCol(expr, alias)       with a non-literal alias
//   withalias  sql.NewWith(sel, alias)       with a non-literal alias
//   jointype   sql.NewJoin(tp, …)            with a non-literal type
//   logicalop  sql.NewGenericLogicalOp(fn,…) with a non-literal operator
//   ctxparam   sql.NewCtxParam / NewCtxParamOrDef (text taken from the rendering context)
//   setting    every `.AddSetting(name, value)` call (SETTINGS clause of a select)
//   customcol  every sql.NewCustomCol(func…) (a rendering closure)
//   stringer   every method `String(ctx *sql.Ctx, …) (string, error)` (a custom SQL object), the library's own included
//   append     every `x += rhs` with a non-constant right-hand side, in those files
//   write      every `b.WriteString(x)` / `Write…` with a non-literal argument, in those files
//   concat     every maximal `a + b + …` chain that mixes a string literal with a non-literal operand, in files that
//              import sql_select (or belong to it), outside the argument lists already listed above
//
// For each argument: its source text and, for an identifier, where the function it stands in assigns it ("origin":
// the right-hand sides of its assignments, `range X`, `param`, or `free`). A reviewed table on the Lean side
// (`Qryn.Read.RawSqlCensus`) classifies every argument of every site; the theorem `raw_sql_census` demands equality, so a
// new site, a changed format string or a changed argument fails closed.
//
// Also counted (not listed one by one): constructor calls whose string arguments are all literals (`constSites`).

import (
	"encoding/json"
	"fmt"
	"go/ast"
	"go/token"
	"hash/fnv"
	"os"
	"path/filepath"
	"sort"
	"strconv"
	"strings"
)

type rqArg struct{ text, origin string }

var rqKindN = map[string]int{"sprintf": 0, "concat": 1, "fmtraw": 2, "append": 3, "raw": 4, "simplecol": 5, "colalias": 6, "withalias": 7,
	"jointype": 8, "write": 9, "logicalop": 10, "setting": 11, "customcol": 20, "stringer": 21, "ctxparam": 22}

type rqSite struct {
	file, fn, kind, format string
	args                   []rqArg
	pos                    token.Pos
}

const rqSqlPkg = "github.com/metrico/qryn/reader/utils/sql_select"

func rqTrunc(s string, n int) string {
	if len(s) > n {
		// cut at a rune boundary
		for n > 0 && (s[n]&0xC0) == 0x80 {
			n--
		}
		return s[:n] + "…"
	}
	return s
}

// a string literal or a `+` chain of string literals
func rqConstStr(e ast.Expr) (string, bool) {
	switch e := e.(type) {
	case *ast.BasicLit:
		if e.Kind != token.STRING {
			return "", false
		}
		s, err := strconv.Unquote(e.Value)
		return s, err == nil
	case *ast.ParenExpr:
		return rqConstStr(e.X)
	case *ast.BinaryExpr:
		if e.Op != token.ADD {
			return "", false
		}
		l, ok := rqConstStr(e.X)
		if !ok {
			return "", false
		}
		r, ok := rqConstStr(e.Y)
		return l + r, ok
	}
	return "", false
}

func rqHasStrLit(e ast.Expr) bool {
	switch e := e.(type) {
	case *ast.BasicLit:
		return e.Kind == token.STRING
	case *ast.ParenExpr:
		return rqHasStrLit(e.X)
	case *ast.BinaryExpr:
		return e.Op == token.ADD && (rqHasStrLit(e.X) || rqHasStrLit(e.Y))
	}
	return false
}

// where `name` gets its value inside `scope` (a function declaration or literal)
func rqOrigin(scope ast.Node, ftype *ast.FuncType, outer []*ast.FuncType, name string) string {
	var res []string
	add := func(s string) {
		s = rqTrunc(s, 140)
		for _, o := range res {
			if o == s {
				return
			}
		}
		res = append(res, s)
	}
	isParam := func(ft *ast.FuncType) bool {
		if ft == nil || ft.Params == nil {
			return false
		}
		for _, f := range ft.Params.List {
			for _, n := range f.Names {
				if n.Name == name {
					return true
				}
			}
		}
		return false
	}
	if isParam(ftype) {
		add("param")
	}
	for _, ft := range outer {
		if isParam(ft) {
			add("param")
		}
	}
	if scope != nil {
		ast.Inspect(scope, func(n ast.Node) bool {
			switch s := n.(type) {
			case *ast.AssignStmt:
				for i, l := range s.Lhs {
					id, ok := l.(*ast.Ident)
					if !ok || id.Name != name {
						continue
					}
					if len(s.Rhs) == len(s.Lhs) {
						if s.Tok == token.ADD_ASSIGN {
							add("+= " + rgText(s.Rhs[i]))
						} else {
							add(rgText(s.Rhs[i]))
						}
					} else if len(s.Rhs) == 1 {
						add(fmt.Sprintf("#%d of %s", i, rgText(s.Rhs[0])))
					}
				}
			case *ast.RangeStmt:
				for i, l := range []ast.Expr{s.Key, s.Value} {
					if id, ok := l.(*ast.Ident); ok && id.Name == name {
						add(fmt.Sprintf("range#%d %s", i, rgText(s.X)))
					}
				}
			case *ast.ValueSpec:
				for i, n := range s.Names {
					if n.Name != name {
						continue
					}
					if i < len(s.Values) {
						add(rgText(s.Values[i]))
					} else if len(s.Values) == 1 {
						add(fmt.Sprintf("#%d of %s", i, rgText(s.Values[0])))
					} else {
						add("var")
					}
				}
			}
			return true
		})
	}
	if len(res) == 0 {
		return "free"
	}
	return rqTrunc(strings.Join(res, " | "), 260)
}

func init() {
	register("RawSqlSites", func() (string, error) {
		dirs, err := rgDirs("reader")
		if err != nil {
			return "", err
		}
		var sites []rqSite
		constSites := 0
		nfiles := 0
		// for the dead-code facts: every identifier / selector name that is USED (not declared), every type name that is
		// constructed (composite literal, new(T)), over all of reader/ (tests excluded)
		usedName := map[string]int{}
		constructed := map[string]bool{}
		declNames := map[string]int{}
		for _, dir := range dirs {
			files, err := goFiles(dir)
			if err != nil {
				return "", err
			}
			for _, rel := range files {
				_, f, err := parseFile(rel)
				if err != nil {
					return "", err
				}
				nfiles++
				{
					dirKey := filepath.ToSlash(filepath.Dir(rel))
					imp := map[string]string{}
					for _, is := range f.Imports {
						path := strings.Trim(is.Path.Value, "\"`")
						name := path[strings.LastIndex(path, "/")+1:]
						if is.Name != nil {
							name = is.Name.Name
						}
						imp[name] = strings.TrimPrefix(path, "github.com/metrico/qryn/")
					}
					tyKey := func(t ast.Expr) string {
						switch t := t.(type) {
						case *ast.Ident:
							return dirKey + "." + t.Name
						case *ast.SelectorExpr:
							if id, ok := t.X.(*ast.Ident); ok {
								if d, ok := imp[id.Name]; ok {
									return d + "." + t.Sel.Name
								}
							}
							return "?." + t.Sel.Name
						}
						return ""
					}
					ast.Inspect(f, func(n ast.Node) bool {
						switch x := n.(type) {
						case *ast.FuncDecl:
							declNames[x.Name.Name]++
						case *ast.Ident:
							usedName[x.Name]++
						case *ast.CompositeLit:
							if k := tyKey(x.Type); k != "" {
								constructed[k] = true
							}
						case *ast.CallExpr:
							if id, ok := x.Fun.(*ast.Ident); ok && id.Name == "new" && len(x.Args) == 1 {
								if k := tyKey(x.Args[0]); k != "" {
									constructed[k] = true
								}
							}
						}
						return true
					})
				}
				short, _ := filepath.Rel("reader", rel)
				inLib := filepath.ToSlash(filepath.Dir(rel)) == "reader/utils/sql_select"
				sqlName, fmtName := "", ""
				for _, is := range f.Imports {
					path := strings.Trim(is.Path.Value, "\"`")
					name := path[strings.LastIndex(path, "/")+1:]
					if is.Name != nil {
						name = is.Name.Name
					}
					switch path {
					case rqSqlPkg:
						sqlName = name
					case "fmt":
						fmtName = name
					}
				}
				if sqlName == "." || fmtName == "." || sqlName == "_" {
					return "", fmt.Errorf("%s: dot/blank import of fmt or sql_select: calls cannot be recognised syntactically", rel)
				}
				sqlFile := inLib || sqlName != ""
				// is `fun` the library function `name`?
				libCall := func(fun ast.Expr, name string) bool {
					switch f := fun.(type) {
					case *ast.SelectorExpr:
						id, ok := f.X.(*ast.Ident)
						return ok && sqlName != "" && id.Name == sqlName && f.Sel.Name == name
					case *ast.Ident:
						return inLib && f.Name == name
					}
					return false
				}
				type scopeT struct {
					node  ast.Node
					ftype *ast.FuncType
				}
				var walk func(n ast.Node, fn string, scopes []scopeT, covered bool)
				mkArg := func(e ast.Expr, scopes []scopeT) rqArg {
					a := rqArg{text: rqTrunc(rgText(e), 160)}
					if id, ok := e.(*ast.Ident); ok {
						switch id.Name {
						case "nil", "true", "false":
							a.origin = "const"
						default:
							if len(scopes) == 0 {
								a.origin = "free"
							} else {
								in := scopes[len(scopes)-1]
								var outer []*ast.FuncType
								for _, s := range scopes[:len(scopes)-1] {
									outer = append(outer, s.ftype)
								}
								a.origin = rqOrigin(scopes[0].node, in.ftype, outer, id.Name)
							}
						}
					} else if _, ok := rqConstStr(e); ok {
						a.origin = "const"
					} else if bl, ok := e.(*ast.BasicLit); ok && bl.Kind != token.STRING {
						a.origin = "const"
					}
					return a
				}
				walk = func(n ast.Node, fn string, scopes []scopeT, covered bool) {
					if n == nil {
						return
					}
					ast.Inspect(n, func(m ast.Node) bool {
						if m == nil || m == n && false {
							return true
						}
						switch x := m.(type) {
						case *ast.FuncLit:
							if m == n {
								return true
							}
							walk(x.Body, fn, append(append([]scopeT{}, scopes...), scopeT{x, x.Type}), false)
							return false
						case *ast.CallExpr:
							kind := ""
							var strArgs []int // indices of arguments that carry SQL text
							switch {
							case fmtName != "" && rgText(x.Fun) == fmtName+".Sprintf":
								kind = "sprintf"
							case libCall(x.Fun, "FmtRawObject"):
								kind = "fmtraw"
							case libCall(x.Fun, "NewRawObject"):
								kind, strArgs = "raw", []int{0}
							case libCall(x.Fun, "NewSimpleCol"):
								kind, strArgs = "simplecol", []int{0, 1}
							case libCall(x.Fun, "NewCol"):
								kind, strArgs = "colalias", []int{1}
							case libCall(x.Fun, "NewWith"):
								kind, strArgs = "withalias", []int{1}
							case libCall(x.Fun, "NewJoin"):
								kind, strArgs = "jointype", []int{0}
							case libCall(x.Fun, "NewGenericLogicalOp"):
								kind, strArgs = "logicalop", []int{0}
							case libCall(x.Fun, "NewCtxParam"), libCall(x.Fun, "NewCtxParamOrDef"):
								kind = "ctxparam"
							case libCall(x.Fun, "NewCustomCol"):
								kind = "customcol"
							default:
								if se, ok := x.Fun.(*ast.SelectorExpr); ok && se.Sel.Name == "AddSetting" && len(x.Args) == 2 {
									kind, strArgs = "setting", []int{0, 1}
									break
								}
								// text written into a strings.Builder / bytes.Buffer
								if se, ok := x.Fun.(*ast.SelectorExpr); ok && sqlFile && (se.Sel.Name == "WriteString" || se.Sel.Name == "WriteByte" || se.Sel.Name == "WriteRune" || se.Sel.Name == "Write") && len(x.Args) == 1 {
									if _, ok := rqConstStr(x.Args[0]); !ok {
										if _, isLit := x.Args[0].(*ast.BasicLit); !isLit {
											kind, strArgs = "write", []int{0}
										}
									}
								}
							}
							if kind == "" {
								return true
							}
							s := rqSite{file: filepath.ToSlash(short), fn: fn, kind: kind, pos: x.Pos()}
							switch kind {
							case "sprintf", "fmtraw":
								if len(x.Args) == 0 {
									return true
								}
								if c, ok := rqConstStr(x.Args[0]); ok {
									s.format = c
								} else {
									s.format = "≠lit:" + rqTrunc(rgText(x.Args[0]), 200)
								}
								for _, a := range x.Args[1:] {
									s.args = append(s.args, mkArg(a, scopes))
								}
								sites = append(sites, s)
								for _, a := range x.Args {
									walk(a, fn, scopes, true)
								}
								return false
							case "customcol", "ctxparam":
								for _, a := range x.Args {
									if _, isLit := a.(*ast.FuncLit); !isLit {
										s.args = append(s.args, mkArg(a, scopes))
									}
								}
								sites = append(sites, s)
								return true
							default:
								allConst := true
								for _, i := range strArgs {
									if i < len(x.Args) {
										if _, ok := rqConstStr(x.Args[i]); !ok {
											allConst = false
										}
									}
								}
								if allConst {
									constSites++
									return true
								}
								for _, i := range strArgs {
									if i < len(x.Args) {
										s.args = append(s.args, mkArg(x.Args[i], scopes))
									}
								}
								sites = append(sites, s)
								for i, a := range x.Args {
									isStr := false
									for _, j := range strArgs {
										if i == j {
											isStr = true
										}
									}
									walk(a, fn, scopes, isStr)
								}
								return false
							}
						case *ast.AssignStmt:
							// `x += rhs` with a right-hand side that is not a constant: text appended piecewise
							if x.Tok == token.ADD_ASSIGN && sqlFile && len(x.Rhs) == 1 && len(x.Lhs) == 1 {
								if _, ok := rqConstStr(x.Rhs[0]); !ok {
									if bl, isLit := x.Rhs[0].(*ast.BasicLit); !(isLit && bl.Kind != token.STRING) {
										if be, isBin := x.Rhs[0].(*ast.BinaryExpr); !(isBin && be.Op == token.ADD && rqHasStrLit(be)) {
											sites = append(sites, rqSite{file: filepath.ToSlash(short), fn: fn, kind: "append", format: rqTrunc(rgText(x.Lhs[0]), 80) + " += %s",
												args: []rqArg{mkArg(x.Rhs[0], scopes)}, pos: x.Pos()})
										}
									}
								}
							}
							return true
						case *ast.BinaryExpr:
							if x.Op != token.ADD || !sqlFile {
								return true
							}
							if _, ok := rqConstStr(x); ok {
								return false
							}
							if !rqHasStrLit(x) {
								return true
							}
							// maximal chain: the walk meets the outermost `+` first
							if !(covered && m == n) {
								s := rqSite{file: filepath.ToSlash(short), fn: fn, kind: "concat", pos: x.Pos()}
								var ops []ast.Expr
								var flat func(e ast.Expr)
								flat = func(e ast.Expr) {
									if be, ok := e.(*ast.BinaryExpr); ok && be.Op == token.ADD {
										flat(be.X)
										flat(be.Y)
										return
									}
									if pe, ok := e.(*ast.ParenExpr); ok {
										if be, ok := pe.X.(*ast.BinaryExpr); ok && be.Op == token.ADD {
											flat(be)
											return
										}
									}
									ops = append(ops, e)
								}
								flat(x)
								var fparts []string
								for _, o := range ops {
									if c, ok := rqConstStr(o); ok {
										fparts = append(fparts, strings.ReplaceAll(c, "%", "%%"))
									} else {
										fparts = append(fparts, "%s")
										s.args = append(s.args, mkArg(o, scopes))
									}
								}
								s.format = strings.Join(fparts, "")
								sites = append(sites, s)
							}
							// operands: calls inside them are still sites of their own
							var ops2 func(e ast.Expr)
							ops2 = func(e ast.Expr) {
								if be, ok := e.(*ast.BinaryExpr); ok && be.Op == token.ADD {
									ops2(be.X)
									ops2(be.Y)
									return
								}
								if pe, ok := e.(*ast.ParenExpr); ok {
									ops2(pe.X)
									return
								}
								walk(e, fn, scopes, false)
							}
							ops2(x)
							return false
						}
						return true
					})
				}
				for _, d := range f.Decls {
					switch d := d.(type) {
					case *ast.FuncDecl:
						name := funcName(d)
						// a custom SQL object: String(ctx *sql.Ctx, …)
						if d.Name.Name == "String" && d.Recv != nil && d.Type.Params != nil && len(d.Type.Params.List) >= 1 {
							pt := rgText(d.Type.Params.List[0].Type)
							if pt == "*"+sqlName+".Ctx" && sqlName != "" || inLib && pt == "*Ctx" {
								sites = append(sites, rqSite{file: filepath.ToSlash(short), fn: name, kind: "stringer", pos: d.Pos()})
							}
						}
						if d.Body != nil {
							walk(d.Body, name, []scopeT{{d, d.Type}}, false)
						}
					case *ast.GenDecl:
						for _, sp := range d.Specs {
							if vs, ok := sp.(*ast.ValueSpec); ok {
								for i, v := range vs.Values {
									nm := "var"
									if i < len(vs.Names) {
										nm = "var " + vs.Names[i].Name
									} else if len(vs.Names) > 0 {
										nm = "var " + vs.Names[0].Name
									}
									walk(v, nm, nil, false)
								}
							}
						}
					}
				}
			}
		}
		sort.SliceStable(sites, func(i, j int) bool {
			if sites[i].file != sites[j].file {
				return sites[i].file < sites[j].file
			}
			return sites[i].pos < sites[j].pos
		})
		if len(sites) < 100 || nfiles < 50 {
			return "", fmt.Errorf("only %d sites in %d files under reader/: the tree is not the expected one", len(sites), nfiles)
		}
		if dump := os.Getenv("RAWSQL_JSON"); dump != "" {
			// for the maintenance script that drafts the reviewed table (scripts/rawsql_draft.py); not used by the check
			type ja struct{ Text, Origin string }
			type js struct {
				File, Fn, Kind, Fmt string
				Args                []ja
				Hash                uint64
			}
			var out []js
			for _, st := range sites {
				e := js{File: st.file, Fn: st.fn, Kind: st.kind, Fmt: st.format}
				hsrc := st.file + "\x00" + st.fn + "\x00" + st.kind + "\x00" + st.format
				for _, a := range st.args {
					e.Args = append(e.Args, ja{a.text, a.origin})
					hsrc += "\x00" + a.text + "\x00" + a.origin
				}
				hh := fnv.New64a()
				hh.Write([]byte(hsrc))
				e.Hash = hh.Sum64()
				out = append(out, e)
			}
			bs, _ := json.MarshalIndent(out, "", " ")
			os.WriteFile(dump, bs, 0o644)
		}
		// dead-code facts about the functions that hold sites: a function/method name that occurs nowhere but in its own
		// declaration(s); a receiver type that is never constructed (no composite literal, no new(T)) anywhere in reader/
		var uncalled, unconstructed []string
		seenFn, seenTy := map[string]bool{}, map[string]bool{}
		deadTy, deadName := map[string]bool{}, map[string]bool{}
		for _, st := range sites {
			fnm := st.fn
			if strings.HasPrefix(fnm, "var ") {
				continue
			}
			bare := fnm
			if i := strings.LastIndex(fnm, "."); i >= 0 {
				bare = fnm[i+1:]
				ty := "reader/" + filepath.ToSlash(filepath.Dir(st.file)) + "." + fnm[:i]
				if !seenTy[ty] {
					seenTy[ty] = true
					if !constructed[ty] && !constructed["?."+fnm[:i]] {
						unconstructed = append(unconstructed, strings.TrimPrefix(ty, "reader/"))
						deadTy[ty] = true
					}
				}
			}
			if !seenFn[fnm] {
				seenFn[fnm] = true
				if usedName[bare] <= declNames[bare] {
					uncalled = append(uncalled, fnm)
					deadName[fnm] = true
				}
			}
		}
		sort.Strings(uncalled)
		sort.Strings(unconstructed)
		deadFn := map[string]bool{}
		for _, st := range sites {
			if strings.HasPrefix(st.fn, "var ") {
				continue
			}
			d := deadName[st.fn]
			if i := strings.LastIndex(st.fn, "."); i >= 0 && deadTy["reader/"+filepath.ToSlash(filepath.Dir(st.file))+"."+st.fn[:i]] {
				d = true
			}
			if d {
				deadFn[st.file+"|"+st.fn] = true
			}
		}
		var sb strings.Builder
		sb.WriteString("namespace Qryn.Gen.RawSqlSites\n")
		sb.WriteString("/-- one place where SQL text can be written without an escaping constructor: file (relative to reader/), function,\n    kind, format string, arguments as (source text, origin inside the function) -/\n")
		sb.WriteString("structure Site where\n  file : String\n  fn : String\n  kind : String\n  fmt : String\n  args : List (String × String)\n" +
			"  /-- the format string as UTF-8 bytes (what the checks evaluate) -/\n  fmtB : List UInt8\n" +
			"  /-- the kind as a number: 0 sprintf, 1 concat, 2 fmtraw, 3 append, 4 raw, 5 simplecol, 6 colalias, 7 withalias, 8 jointype, 9 write, 10 logicalop, 11 setting, 20 customcol, 21 stringer, 22 ctxparam -/\n  kindN : Nat\n" +
			"  /-- per argument, what its text / origin shows: bit 0 `NewStringVal(…).String(` or `enquoteStr(`; bit 1 `.String(ctx` / a `strings.Join(` / an element of a slice of rendered texts / `genFilterFn(ctx`; bit 2 a `fmt.Sprintf(` or a text built by `+=` -/\n  argFlags : List Nat\n" +
			"  /-- the function is in `uncalled` or its receiver type in `unconstructed` -/\n  dead : Bool\n" +
			"  /-- FNV-1a (64 bit) of file, fn, kind, fmt and every argument text and origin, NUL-separated -/\n  hash : Nat\nderiving Repr\n\n")
		fmt.Fprintf(&sb, "/-- constructor calls (NewRawObject, NewSimpleCol, NewCol, NewWith, NewJoin, NewGenericLogicalOp) whose text arguments are all string literals -/\ndef constSites : Nat := %d\n\n", constSites)
		// per file one definition (keeps every term small)
		byFile := map[string][]rqSite{}
		var order []string
		for _, s := range sites {
			if _, ok := byFile[s.file]; !ok {
				order = append(order, s.file)
			}
			byFile[s.file] = append(byFile[s.file], s)
		}
		var names []string
		for i, file := range order {
			_ = i
			nm := "f_" + strings.Map(func(r rune) rune {
				if r >= 'a' && r <= 'z' || r >= 'A' && r <= 'Z' || r >= '0' && r <= '9' {
					return r
				}
				return '_'
			}, strings.TrimSuffix(file, ".go"))
			names = append(names, nm)
			fmt.Fprintf(&sb, "/-- %s -/\ndef %s : List Site := [\n", file, nm)
			for j, s := range byFile[file] {
				var as []string
				for _, a := range s.args {
					as = append(as, "("+leanStr(a.text)+", "+leanStr(a.origin)+")")
				}
				sep := ","
				if j == len(byFile[file])-1 {
					sep = ""
				}
				var flags []string
				hsrc := s.file + "\x00" + s.fn + "\x00" + s.kind + "\x00" + s.format
				for _, a := range s.args {
					fl := 0
					if strings.Contains(a.origin, "NewStringVal(") && strings.Contains(a.origin, ").String(") || strings.Contains(a.origin, "enquoteStr(") {
						fl |= 1
					}
					if strings.Contains(a.origin, ".String(ctx") || strings.Contains(a.origin, "genFilterFn(ctx") || strings.HasPrefix(a.text, "strings.Join(") || strings.Contains(a.text, "[i]") {
						fl |= 2
					}
					if strings.HasPrefix(a.text, "fmt.Sprintf(") || strings.Contains(a.origin, "fmt.Sprintf(") || strings.Contains(a.origin, "+= ") {
						fl |= 4
					}
					flags = append(flags, strconv.Itoa(fl))
					hsrc += "\x00" + a.text + "\x00" + a.origin
				}
				fnv := fnv.New64a()
				fnv.Write([]byte(hsrc))
				kn, ok := rqKindN[s.kind]
				if !ok {
					return "", fmt.Errorf("kind %q has no number", s.kind)
				}
				dead := "false"
				if deadFn[s.file+"|"+s.fn] {
					dead = "true"
				}
				fmt.Fprintf(&sb, "  ⟨%s, %s, %s, %s, [%s], %s, %d, [%s], %s, %d⟩%s\n", leanStr(s.file), leanStr(s.fn), leanStr(s.kind), leanStr(s.format), strings.Join(as, ", "),
					leanBytes(s.format), kn, strings.Join(flags, ", "), dead, fnv.Sum64(), sep)
			}
			sb.WriteString("]\n")
		}
		fmt.Fprintf(&sb, "\n/-- functions holding sites whose name is used nowhere under reader/ except in their declaration -/\ndef uncalled : List String := %s\n", rgLeanList(uncalled))
		fmt.Fprintf(&sb, "/-- receiver types of methods holding sites that are never constructed under reader/ (no composite literal, no new(T)) -/\ndef unconstructed : List String := %s\n", rgLeanList(unconstructed))
		fmt.Fprintf(&sb, "\ndef files : List (String × List Site) := [%s]\n", func() string {
			var ps []string
			for i, file := range order {
				ps = append(ps, "("+leanStr(file)+", "+names[i]+")")
			}
			return strings.Join(ps, ", ")
		}())
		sb.WriteString("def sites : List Site := files.flatMap (·.2)\n")
		sb.WriteString("end Qryn.Gen.RawSqlSites\n")
		return sb.String(), nil
	})
}
