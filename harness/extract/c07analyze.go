package main

// Gen.C07Analyze — the push-down decision of clickhouse_planner/analyze.go (`analyzeScript`) and the places of planner.go
// that act on it, as tables the planner model (`LogQL.PlannerX`: `simpleOps`, `labelsJoinIdx`, `groupRuns`) is built from:
//
//   pushdownMarks   the pipeline-element fields whose presence marks a stage as decidable on the stored labels
//                   (`p.simpleLabelOperation[i] = true`)
//   pushdownStops   the fields whose presence ends that loop (`break`): no later stage is marked
//   joinAt          the tests of the second loop that set `labelsJoinIdx` (field, "unless marked simple")
//   changesLabels   the fields the closure `changesLabels` tests; renewRule = the right-hand side of `renewMainAfter[i]`
//   dispatch        planSpl's if/else-if chain: field ↦ planner method (a field that is absent is never planned)
//   skipsWhenSimple the plan* methods that return at once when `p.simpleLabelOperation[idx]`
//   tsWraps         the field planTS tests before wrapping the fingerprint planner into a SimpleLabelFilterPlanner
//
// Fails closed: a mark condition that is anything but `ppl.<Field> != nil [|| …]` (e.g. one that also looks into the
// filter), a second statement in the marking `if`, another statement in the loop, … is an error, the fact is not written
// and every theorem about the planner model is an open obligation.

import (
	"fmt"
	"go/ast"
	"go/token"
	"strings"
)

const c07aDir = "reader/logql/logql_transpiler_v2/clickhouse_planner/"

// c07aFieldNotNil: `<recv>.<Field> != nil` → Field
func c07aFieldNotNil(e ast.Expr, recv string) (string, bool) {
	be, ok := e.(*ast.BinaryExpr)
	if !ok || be.Op != token.NEQ {
		return "", false
	}
	if id, ok := be.Y.(*ast.Ident); !ok || id.Name != "nil" {
		return "", false
	}
	sel, ok := be.X.(*ast.SelectorExpr)
	if !ok {
		return "", false
	}
	if id, ok := sel.X.(*ast.Ident); !ok || id.Name != recv {
		return "", false
	}
	return sel.Sel.Name, true
}

// c07aOrChain: `a != nil || b != nil || …` → fields
func c07aOrChain(e ast.Expr, recv string) ([]string, bool) {
	if pe, ok := e.(*ast.ParenExpr); ok {
		return c07aOrChain(pe.X, recv)
	}
	if be, ok := e.(*ast.BinaryExpr); ok && be.Op == token.LOR {
		l, ok1 := c07aOrChain(be.X, recv)
		r, ok2 := c07aOrChain(be.Y, recv)
		return append(l, r...), ok1 && ok2
	}
	f, ok := c07aFieldNotNil(e, recv)
	return []string{f}, ok
}

func c07aRangeVar(rs *ast.RangeStmt) string {
	if id, ok := rs.Value.(*ast.Ident); ok {
		return id.Name
	}
	return ""
}

func c07aIsBreak(st ast.Stmt) bool {
	bs, ok := st.(*ast.BranchStmt)
	return ok && bs.Tok == token.BREAK && bs.Label == nil
}

func init() {
	register("C07Analyze", func() (string, error) {
		fset, f, err := parseFile(c07aDir + "analyze.go")
		if err != nil {
			return "", err
		}
		fd := findFunc(f, "planner", "analyzeScript")
		if fd == nil {
			return "", fmt.Errorf("planner.analyzeScript not found")
		}
		var loops []*ast.RangeStmt
		for _, st := range fd.Body.List {
			if rs, ok := st.(*ast.RangeStmt); ok {
				loops = append(loops, rs)
			}
		}
		if len(loops) < 3 {
			return "", fmt.Errorf("analyzeScript: %d top-level loops over the pipeline (expected the marking loop, the labelsJoinIdx loop and the renewMainAfter loop)", len(loops))
		}
		for i, rs := range loops[:2] {
			if ipExprText(fset, rs.X) != "pipeline" {
				return "", fmt.Errorf("analyzeScript: loop %d ranges over %s, not over pipeline", i+1, ipExprText(fset, rs.X))
			}
		}
		// ---- loop 1: simpleLabelOperation
		l1 := loops[0]
		v := c07aRangeVar(l1)
		if v == "" || len(l1.Body.List) != 2 {
			return "", fmt.Errorf("analyzeScript: the marking loop has %d statements (expected: if <mark>, if <stop> break)", len(l1.Body.List))
		}
		markIf, ok1 := l1.Body.List[0].(*ast.IfStmt)
		stopIf, ok2 := l1.Body.List[1].(*ast.IfStmt)
		if !ok1 || !ok2 || markIf.Else != nil || stopIf.Else != nil || markIf.Init != nil || stopIf.Init != nil {
			return "", fmt.Errorf("analyzeScript: the marking loop is not `if … {mark}; if … {break}`")
		}
		marks, ok := c07aOrChain(markIf.Cond, v)
		if !ok {
			return "", fmt.Errorf("analyzeScript: the test that marks a stage as decidable on the stored labels is `%s`, not a test of the stage kind alone", ipExprText(fset, markIf.Cond))
		}
		if len(markIf.Body.List) != 1 || ipExprText(fset, markIf.Body.List[0]) != "p.simpleLabelOperation[i] = true" {
			return "", fmt.Errorf("analyzeScript: the marking branch is not the single statement p.simpleLabelOperation[i] = true")
		}
		stops, ok := c07aOrChain(stopIf.Cond, v)
		if !ok {
			return "", fmt.Errorf("analyzeScript: the test that ends the marking loop is `%s`, not a test of the stage kind alone", ipExprText(fset, stopIf.Cond))
		}
		if len(stopIf.Body.List) != 1 || !c07aIsBreak(stopIf.Body.List[0]) {
			return "", fmt.Errorf("analyzeScript: the stop branch of the marking loop is not a single break")
		}
		// nothing else may write simpleLabelOperation
		writes := 0
		ast.Inspect(f, func(n ast.Node) bool {
			if as, ok := n.(*ast.AssignStmt); ok {
				for _, l := range as.Lhs {
					if strings.HasPrefix(ipExprText(fset, l), "p.simpleLabelOperation") {
						writes++
					}
				}
			}
			return true
		})
		if writes != 2 {
			return "", fmt.Errorf("analyze.go: %d assignments to p.simpleLabelOperation (expected the make and the mark)", writes)
		}
		// ---- loop 2: labelsJoinIdx
		l2 := loops[1]
		v2 := c07aRangeVar(l2)
		var joinAt []string
		for _, st := range l2.Body.List {
			is, ok := st.(*ast.IfStmt)
			if !ok || is.Else != nil || is.Init != nil {
				return "", fmt.Errorf("analyzeScript: the labelsJoinIdx loop has a statement that is not a plain if")
			}
			if len(is.Body.List) != 2 || !c07aIsBreak(is.Body.List[1]) || ipExprText(fset, is.Body.List[0]) != "p.labelsJoinIdx = i" {
				return "", fmt.Errorf("analyzeScript: a branch of the labelsJoinIdx loop is not `p.labelsJoinIdx = i; break`")
			}
			if fld, ok := c07aFieldNotNil(is.Cond, v2); ok {
				joinAt = append(joinAt, fmt.Sprintf("(%s, false)", leanStr(fld)))
				continue
			}
			be, ok := is.Cond.(*ast.BinaryExpr)
			if ok && be.Op == token.LAND {
				fld, ok1 := c07aFieldNotNil(be.X, v2)
				if ok1 && ipExprText(fset, be.Y) == "!p.simpleLabelOperation[i]" {
					joinAt = append(joinAt, fmt.Sprintf("(%s, true)", leanStr(fld)))
					continue
				}
			}
			return "", fmt.Errorf("analyzeScript: labelsJoinIdx test of unexpected shape: %s", ipExprText(fset, is.Cond))
		}
		// ---- changesLabels + renewMainAfter
		var changes []string
		renew := ""
		ast.Inspect(fd.Body, func(n ast.Node) bool {
			as, ok := n.(*ast.AssignStmt)
			if !ok || len(as.Lhs) != 1 || len(as.Rhs) != 1 {
				return true
			}
			switch ipExprText(fset, as.Lhs[0]) {
			case "changesLabels":
				fl, ok := as.Rhs[0].(*ast.FuncLit)
				if !ok || len(fl.Body.List) != 1 || len(fl.Type.Params.List) != 1 || len(fl.Type.Params.List[0].Names) != 1 {
					return true
				}
				ret, ok := fl.Body.List[0].(*ast.ReturnStmt)
				if !ok || len(ret.Results) != 1 {
					return true
				}
				if c, ok := c07aOrChain(ret.Results[0], fl.Type.Params.List[0].Names[0].Name); ok {
					changes = c
				}
			case "p.renewMainAfter[i]":
				renew = ipExprText(fset, as.Rhs[0])
			}
			return true
		})
		if changes == nil {
			return "", fmt.Errorf("analyzeScript: closure changesLabels of the shape `return ppl.X != nil || …` not found")
		}
		if renew == "" {
			return "", fmt.Errorf("analyzeScript: assignment to p.renewMainAfter[i] not found")
		}

		// ---- planner.go: planSpl dispatch, guards on simpleLabelOperation, planTS
		fset, f, err = parseFile(c07aDir + "planner.go")
		if err != nil {
			return "", err
		}
		spl := findFunc(f, "planner", "planSpl")
		if spl == nil {
			return "", fmt.Errorf("planner.planSpl not found")
		}
		var dispatch []string
		found := false
		ast.Inspect(spl.Body, func(n ast.Node) bool {
			is, ok := n.(*ast.IfStmt)
			if !ok || found {
				return true
			}
			if _, ok := c07aFieldNotNil(is.Cond, "ppl"); !ok {
				return true
			}
			found = true
			for cur := is; cur != nil; {
				fld, ok := c07aFieldNotNil(cur.Cond, "ppl")
				if !ok || len(cur.Body.List) != 1 {
					dispatch = nil
					return false
				}
				as, ok := cur.Body.List[0].(*ast.AssignStmt)
				if !ok || len(as.Rhs) != 1 {
					dispatch = nil
					return false
				}
				call, ok := as.Rhs[0].(*ast.CallExpr)
				if !ok {
					dispatch = nil
					return false
				}
				dispatch = append(dispatch, fmt.Sprintf("(%s, %s)", leanStr(fld), leanStr(strings.TrimPrefix(ipExprText(fset, call.Fun), "p."))))
				switch e := cur.Else.(type) {
				case *ast.IfStmt:
					cur = e
				case nil:
					cur = nil
				default:
					dispatch = nil // a final else: a stage kind planned by default
					return false
				}
			}
			return false
		})
		if len(dispatch) == 0 {
			return "", fmt.Errorf("planSpl: the if/else-if chain over the pipeline element's fields was not recognised")
		}
		var skips []string
		for _, d := range f.Decls {
			m, ok := d.(*ast.FuncDecl)
			if !ok || m.Recv == nil || m.Body == nil || len(m.Body.List) == 0 {
				continue
			}
			uses := false
			ast.Inspect(m.Body, func(n ast.Node) bool {
				if se, ok := n.(*ast.SelectorExpr); ok && se.Sel.Name == "simpleLabelOperation" {
					uses = true
				}
				return true
			})
			if !uses || m.Name.Name == "planTS" {
				continue
			}
			is, ok := m.Body.List[0].(*ast.IfStmt)
			if ok && is.Else == nil && len(is.Body.List) == 1 && ipExprText(fset, is.Body.List[0]) == "return nil" {
				if ix, ok := is.Cond.(*ast.IndexExpr); ok && ipExprText(fset, ix.X) == "p.simpleLabelOperation" {
					skips = append(skips, leanStr(m.Name.Name))
					continue
				}
			}
			return "", fmt.Errorf("planner.go: %s reads p.simpleLabelOperation in a way that is not `if p.simpleLabelOperation[i] { return nil }` first", m.Name.Name)
		}
		ts := findFunc(f, "planner", "planTS")
		if ts == nil {
			return "", fmt.Errorf("planner.planTS not found")
		}
		tsWraps := ""
		ast.Inspect(ts.Body, func(n ast.Node) bool {
			rs, ok := n.(*ast.RangeStmt)
			if !ok || ipExprText(fset, rs.X) != "p.simpleLabelOperation" {
				return true
			}
			if len(rs.Body.List) != 3 {
				return false
			}
			guard, ok1 := rs.Body.List[0].(*ast.IfStmt)
			wrap, ok2 := rs.Body.List[2].(*ast.IfStmt)
			if !ok1 || !ok2 || ipExprText(fset, guard.Cond) != "!"+c07aRangeVar(rs) || len(guard.Body.List) != 1 || ipExprText(fset, guard.Body.List[0]) != "continue" {
				return false
			}
			if fld, ok := c07aFieldNotNil(wrap.Cond, "ppl"); ok && wrap.Else == nil && len(wrap.Body.List) == 1 &&
				strings.HasPrefix(ipExprText(fset, wrap.Body.List[0]), "p.fpPlanner = &SimpleLabelFilterPlanner{") {
				tsWraps = fld
			}
			return false
		})
		if tsWraps == "" {
			return "", fmt.Errorf("planTS: the loop wrapping the fingerprint planner for every marked stage was not recognised")
		}

		var sb strings.Builder
		sb.WriteString("namespace Qryn.Gen.C07Analyze\n")
		fmt.Fprintf(&sb, "/-- analyzeScript, first loop: pipeline-element fields whose presence marks the stage as decidable on the stored labels -/\ndef pushdownMarks : List String := %s\n", ipLeanStrList(marks))
		fmt.Fprintf(&sb, "/-- … and those whose presence ends the loop: no later stage is marked -/\ndef pushdownStops : List String := %s\n", ipLeanStrList(stops))
		fmt.Fprintf(&sb, "/-- second loop: (field, only when the stage is not marked) — the first stage passing one of them is labelsJoinIdx -/\ndef joinAt : List (String × Bool) := [%s]\n", strings.Join(joinAt, ", "))
		fmt.Fprintf(&sb, "/-- the closure `changesLabels` -/\ndef changesLabels : List String := %s\n", ipLeanStrList(changes))
		fmt.Fprintf(&sb, "/-- right-hand side of `p.renewMainAfter[i] = …` -/\ndef renewRule : String := %s\n", leanStr(renew))
		fmt.Fprintf(&sb, "/-- planSpl: pipeline-element field ↦ the method that plans it, in the order of the if/else-if chain (no default branch) -/\ndef dispatch : List (String × String) := [%s]\n", strings.Join(dispatch, ", "))
		fmt.Fprintf(&sb, "/-- methods that plan nothing for a marked stage (`if p.simpleLabelOperation[i] { return nil }`) -/\ndef skipsWhenSimple : List String := [%s]\n", strings.Join(skips, ", "))
		fmt.Fprintf(&sb, "/-- planTS wraps the fingerprint planner into a SimpleLabelFilterPlanner for every marked stage with this field -/\ndef tsWraps : String := %s\n", leanStr(tsWraps))
		sb.WriteString("end Qryn.Gen.C07Analyze\n")
		return sb.String(), nil
	})
}
