package main

// Gen.ProfExtShape (C16 extension): the code the models of the DIFF view (lean/Qryn/Prof/Diff.lean), of the pprof payload
// merge (lean/Qryn/Prof/PprofMerge.lean) and of the first-by-name projection (lean/Qryn/Prof/TypeSel.lean) mirror.
//   * bodyHashes: a hash of the body of every function those models were written from, as it is in /repo now. The
//     property module compares them with the hashes recorded when the model was reviewed (`ext_shape_pinned`), so an edit
//     of any of these functions is a broken obligation that names the function, and the check then searches for a failing
//     input with the oracles.
//   * the four repairs of the pprof merge, read from the statements: a reverted repair breaks `pprof_repairs_present`.
// Imported by Props/C16.lean only (the driver still builds when the shape changes). Fails closed on a missing function.

import (
	"fmt"
	"go/ast"
	"go/token"
	"strings"
)

type extFn struct{ file, recv, name string }

var profExtFns = []extFn{
	{"reader/service/profTree.go", "", "synchronizeNames"},
	{"reader/service/profTree.go", "", "mergeNodes"},
	{"reader/service/profTree.go", "", "mergeChildren"},
	{"reader/service/profTree.go", "", "createEmptyNode"},
	{"reader/service/profTree.go", "", "computeFlameGraphDiff"},
	{"reader/service/profTree.go", "", "assertPositive"},
	{"reader/service/profTree.go", "Tree", "AddName"},
	{"reader/service/profTree.go", "Tree", "Total"},
	{"reader/service/profMerge_v2.go", "", "NewProfileMergeV2"},
	{"reader/service/profMerge_v2.go", "ProfileMergeV2", "Merge"},
	{"reader/service/profMerge_v2.go", "ProfileMergeV2", "init"},
	{"reader/service/profMerge_v2.go", "ProfileMergeV2", "Profile"},
	{"reader/service/profMerge_v2.go", "RewriteTableV2", "Get"},
	{"reader/service/profMerge_v1.go", "", "sanitizeProfile"},
	{"reader/service/profMerge_v1.go", "", "removeInPlace"},
	{"reader/service/profMerge_v1.go", "", "combineHeaders"},
	{"reader/service/profMerge_v1.go", "", "compatible"},
	{"reader/service/profMerge_v1.go", "", "equalValueType"},
	{"reader/service/profMerge_v1.go", "", "GetFunctionKey"},
	{"reader/service/profMerge_v1.go", "", "GetMappingKey"},
	{"reader/service/profMerge_v1.go", "", "GetLocationKey"},
	{"reader/service/profMerge_v1.go", "", "hashLines"},
	{"reader/service/profMerge_v1.go", "", "GetSampleKey"},
	{"reader/service/profMerge_v1.go", "", "hashProfileLabels"},
	{"reader/service/profMerge_v1.go", "", "hashLocations"},
}

// like findFunc, also for a generic receiver (`func (rt *RewriteTableV2[V]) Get`)
func findFuncGeneric(f *ast.File, recv, name string) *ast.FuncDecl {
	if fd := findFunc(f, recv, name); fd != nil || recv == "" {
		return fd
	}
	for _, d := range f.Decls {
		fd, ok := d.(*ast.FuncDecl)
		if !ok || fd.Name.Name != name || fd.Recv == nil || len(fd.Recv.List) != 1 {
			continue
		}
		t := fd.Recv.List[0].Type
		if st, ok := t.(*ast.StarExpr); ok {
			t = st.X
		}
		if ix, ok := t.(*ast.IndexExpr); ok {
			if id, ok := ix.X.(*ast.Ident); ok && id.Name == recv {
				return fd
			}
		}
	}
	return nil
}

func init() {
	register("ProfExtShape", func() (string, error) {
		type parsed struct {
			fset *token.FileSet
			f    *ast.File
		}
		files := map[string]parsed{}
		bodies := map[string]string{}
		var b strings.Builder
		b.WriteString("namespace Qryn.Gen.ProfExtShape\n")
		b.WriteString("/-- (function, hash of its body in /repo now) for the functions the C16 extension models -/\n")
		b.WriteString("def bodyHashes : List (String × String) := [\n")
		for i, p := range profExtFns {
			pf, ok := files[p.file]
			if !ok {
				fset, f, err := parseFile(p.file)
				if err != nil {
					return "", fmt.Errorf("%s: %v", p.file, err)
				}
				f.Comments = nil
				pf = parsed{fset, f}
				files[p.file] = pf
			}
			fd := findFuncGeneric(pf.f, p.recv, p.name)
			if fd == nil || fd.Body == nil {
				return "", fmt.Errorf("%s: %s.%s is modelled, but no longer exists", p.file, p.recv, p.name)
			}
			hsh, err := hashNode(pf.fset, fd.Body)
			if err != nil {
				return "", err
			}
			key := p.name
			if p.recv != "" {
				key = p.recv + "." + p.name
			}
			bodies[key] = squeeze(printNode(pf.fset, fd.Body))
			sep := ","
			if i == len(profExtFns)-1 {
				sep = ""
			}
			fmt.Fprintf(&b, "  (%s, %s)%s\n", leanStr(key), leanStr(hsh), sep)
		}
		b.WriteString("]\n")
		yes := func(c bool) string {
			if c {
				return "true"
			}
			return "false"
		}
		hl := bodies["hashLocations"]
		hn := bodies["hashLines"]
		mg := bodies["ProfileMergeV2.Merge"]
		b.WriteString("/-- `hashLocations` returns before taking `&locations[0]` when the stack is empty -/\n")
		fmt.Fprintf(&b, "def emptyStackGuard : Bool := %s\n", yes(strings.HasPrefix(hl, "{ if len(locations) == 0 { return 0 }")))
		b.WriteString("/-- `hashLines` returns before taking `&x[0]` when the location has no lines -/\n")
		fmt.Fprintf(&b, "def emptyLinesGuard : Bool := %s\n", yes(strings.HasPrefix(hn, "{ if len(lines) == 0 { return 0 }")))
		b.WriteString("/-- `Merge` takes a label's `NumUnit` through `strIdx` like `Key` and `Str` -/\n")
		fmt.Fprintf(&b, "def numUnitReindexed : Bool := %s\n", yes(strings.Contains(mg, "label.Key = strIdx[label.Key] label.Str = strIdx[label.Str] label.NumUnit = strIdx[label.NumUnit]")))
		b.WriteString("/-- `Merge` takes `DropFrames`, `KeepFrames`, `DefaultSampleType` through `strIdx` before `init` / `combineHeaders` -/\n")
		hdr := strings.Index(mg, "p.DropFrames = strIdx[p.DropFrames] p.KeepFrames = strIdx[p.KeepFrames] p.DefaultSampleType = strIdx[p.DefaultSampleType]")
		ini := strings.Index(mg, "pm.init(p)")
		fmt.Fprintf(&b, "def headerReindexed : Bool := %s\n", yes(hdr >= 0 && ini > hdr))
		// the entry points: only the statements the models start from (other properties repair these functions too)
		wired := true
		var why []string
		for _, w := range []struct {
			file, recv, name string
			frags            []string
		}{
			{"reader/service/profService.go", "ProfService", "RenderDiff", []string{
				"if !assertPositive(leftTree) {", "if !assertPositive(rightTree) {",
				"synchronizeNames(leftTree, rightTree) mergeNodes(leftTree, rightTree) diff := computeFlameGraphDiff(leftTree, rightTree)"}},
			{"reader/service/profService.go", "ProfService", "getTree", []string{
				"tree := NewTree() tree.SampleTypes = []string{sampleTypeUnit} tree.MergeTrie(treeNodes, functions, sampleTypeUnit) return tree, nil"}},
			{"reader/service/profService.go", "ProfService", "MergeProfiles", []string{
				"merger = NewProfileMergeV2()", "err = proto.Unmarshal(payload, &p) if err != nil { return err } return merger.Merge(&p)", "return merger.Profile(), nil"}},
			{"reader/prof/transpiler/planner_merge_raw.go", "MergeRawPlanner", "Process", []string{
				`"arrayMap(x -> (x.1, x.2, x.3, (arrayFirst(y -> y.1 == %s, x.4) as af).2, af.3), tree)"`, `val := sql.NewStringVal(m.sampleType + ":" + m.sampleUnit)`}},
		} {
			fset, f, err := parseFile(w.file)
			if err != nil {
				return "", err
			}
			fd := findFuncGeneric(f, w.recv, w.name)
			if fd == nil || fd.Body == nil {
				return "", fmt.Errorf("%s: %s.%s not found", w.file, w.recv, w.name)
			}
			body := squeeze(printNode(fset, fd.Body))
			for _, fr := range w.frags {
				if !strings.Contains(body, fr) {
					wired = false
					why = append(why, w.name+": "+fr)
				}
			}
		}
		if !wired {
			return "", fmt.Errorf("entry points of the C16 extension not in the recognised form: %s", strings.Join(why, " | "))
		}
		b.WriteString("/-- RenderDiff = assertPositive ×2, synchronizeNames, mergeNodes, computeFlameGraphDiff; getTree = NewTree + one MergeTrie; MergeProfiles = one Merge per payload, then Profile; the projection selects `arrayFirst` by `type:unit` -/\n")
		b.WriteString("def entryPointsRecognised : Bool := true\n")
		b.WriteString("end Qryn.Gen.ProfExtShape\n")
		return b.String(), nil
	})
}
