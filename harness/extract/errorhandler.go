package main

import (
	"fmt"
	"go/ast"
	"go/parser"
	"go/token"
	"path/filepath"
	"sort"
	"strings"
)

// Gen.ErrorHandler (C01): how the push handler turns the error returned by the handler chain into an answer.
//
//   - `ErrorHandler` in writer/controller/builder.go as an ordered rule table: every `if … { …; return }` is either a
//     typed guard (`e, ok := customErrors.Unwrap[T](err); ok` → `writeErrorResponse(w, e.GetCode(), e.Error())`) or a
//     text guard (`strings.HasPrefix/Contains/HasSuffix(err.Error(), "lit")`) with what its body does — a
//     `writeErrorResponse(w, <constant>, …)` or NOTHING before `return` (the silent outcome: net/http then answers
//     200) — followed by the tail after the last `if`;
//   - `writeErrorResponse` begins with `w.WriteHeader(<its code parameter>)`;
//   - `Build`'s handler is `err := pusherCtx.Do(w, r); if err != nil { ErrorHandler(w, r, err) }; return`;
//   - the text format of `retry.Error.Error()` of the retry-go version go.mod pins (module cache): the header, the
//     per-attempt line format and the separator;
//   - the status code of every typed error writer/utils/errors/error.go constructs.
//
// Fails closed: any other statement in these functions is an error.

func init() { register("ErrorHandler", genErrorHandler) }

var ehHTTPStatus = map[string]int64{
	"http.StatusOK": 200, "http.StatusCreated": 201, "http.StatusAccepted": 202, "http.StatusNoContent": 204,
	"http.StatusBadRequest": 400, "http.StatusUnauthorized": 401, "http.StatusForbidden": 403, "http.StatusNotFound": 404,
	"http.StatusRequestTimeout": 408, "http.StatusRequestEntityTooLarge": 413, "http.StatusTooManyRequests": 429,
	"http.StatusInternalServerError": 500, "http.StatusNotImplemented": 501, "http.StatusBadGateway": 502,
	"http.StatusServiceUnavailable": 503, "http.StatusGatewayTimeout": 504,
}

func ehCode(e ast.Expr) (int64, bool) {
	if v, ok := constInt(e); ok {
		return v, true
	}
	v, ok := ehHTTPStatus[exprTextNoPos(e)]
	return v, ok
}

// ehBody reads the body of one guard (or the tail): only metric/log calls, at most one writeErrorResponse, and
// (for a guard) a final bare return. Returns the action as Lean text; typedVar != "" demands the typed form.
func ehBody(stmts []ast.Stmt, needReturn bool, typedVar string) (string, error) {
	action := ""
	returned := false
	for _, st := range stmts {
		if returned {
			return "", fmt.Errorf("statement after return: %s", exprTextNoPosStmt(st))
		}
		switch s := st.(type) {
		case *ast.ReturnStmt:
			if len(s.Results) != 0 {
				return "", fmt.Errorf("return with values in ErrorHandler")
			}
			returned = true
		case *ast.ExprStmt:
			call, ok := s.X.(*ast.CallExpr)
			if !ok {
				return "", fmt.Errorf("unrecognised statement: %s", exprTextNoPosStmt(st))
			}
			fn := exprTextNoPos(call.Fun)
			switch {
			case strings.HasPrefix(fn, "stat.") || strings.HasPrefix(fn, "logger."):
				// metrics and logging do not touch the ResponseWriter
			case fn == "writeErrorResponse":
				if action != "" {
					return "", fmt.Errorf("two writeErrorResponse calls in one branch")
				}
				if len(call.Args) != 3 || exprTextNoPos(call.Args[0]) != "w" {
					return "", fmt.Errorf("writeErrorResponse call shape: %s", exprTextNoPos(call))
				}
				if typedVar != "" {
					if exprTextNoPos(call.Args[1]) != typedVar+".GetCode()" {
						return "", fmt.Errorf("typed branch does not write %s.GetCode(): %s", typedVar, exprTextNoPos(call))
					}
					action = "typed"
				} else {
					c, ok := ehCode(call.Args[1])
					if !ok {
						return "", fmt.Errorf("status of writeErrorResponse is not a known constant: %s", exprTextNoPos(call.Args[1]))
					}
					action = fmt.Sprintf(".write %d", c)
				}
			default:
				return "", fmt.Errorf("unrecognised call in ErrorHandler: %s", exprTextNoPos(call))
			}
		default:
			return "", fmt.Errorf("unrecognised statement: %s", exprTextNoPosStmt(st))
		}
	}
	if needReturn && !returned {
		return "", fmt.Errorf("guard body does not end with return")
	}
	if action == "" {
		if typedVar != "" {
			return "", fmt.Errorf("typed branch writes nothing")
		}
		action = ".silent"
	}
	return action, nil
}

func exprTextNoPosStmt(st ast.Stmt) string { return rsExprText(token.NewFileSet(), st) }

func genErrorHandler() (string, error) {
	_, f, err := parseFile("writer/controller/builder.go")
	if err != nil {
		return "", err
	}
	fd := findFunc(f, "", "ErrorHandler")
	if fd == nil || fd.Body == nil {
		return "", fmt.Errorf("func ErrorHandler not found in writer/controller/builder.go")
	}
	if fd.Type.Params == nil || len(fd.Type.Params.List) != 3 {
		return "", fmt.Errorf("ErrorHandler does not have the parameters (w, r, err)")
	}
	errName := fd.Type.Params.List[2].Names[0].Name
	var rules []string
	i := 0
	for ; i < len(fd.Body.List); i++ {
		is, ok := fd.Body.List[i].(*ast.IfStmt)
		if !ok {
			break
		}
		if is.Else != nil {
			return "", fmt.Errorf("if with else in ErrorHandler")
		}
		if is.Init != nil {
			as, ok := is.Init.(*ast.AssignStmt)
			if !ok || as.Tok != token.DEFINE || len(as.Lhs) != 2 || len(as.Rhs) != 1 {
				return "", fmt.Errorf("unrecognised guard: %s", exprTextNoPosStmt(is.Init))
			}
			call, ok := as.Rhs[0].(*ast.CallExpr)
			if !ok || len(call.Args) != 1 || exprTextNoPos(call.Args[0]) != errName {
				return "", fmt.Errorf("unrecognised guard: %s", exprTextNoPosStmt(is.Init))
			}
			ix, ok := call.Fun.(*ast.IndexExpr)
			if !ok || exprTextNoPos(ix.X) != "customErrors.Unwrap" {
				return "", fmt.Errorf("typed guard is not customErrors.Unwrap[T](%s): %s", errName, exprTextNoPos(call))
			}
			if exprTextNoPos(is.Cond) != exprTextNoPos(as.Lhs[1]) {
				return "", fmt.Errorf("typed guard condition is not the ok result: %s", exprTextNoPos(is.Cond))
			}
			act, err := ehBody(is.Body.List, true, exprTextNoPos(as.Lhs[0]))
			if err != nil {
				return "", err
			}
			if act != "typed" {
				return "", fmt.Errorf("typed guard without e.GetCode() response")
			}
			rules = append(rules, fmt.Sprintf(".typed %s", leanStr(exprTextNoPos(ix.Index))))
			continue
		}
		call, ok := is.Cond.(*ast.CallExpr)
		if !ok || len(call.Args) != 2 || exprTextNoPos(call.Args[0]) != errName+".Error()" {
			return "", fmt.Errorf("unrecognised guard: %s", exprTextNoPos(is.Cond))
		}
		pred := map[string]string{"strings.HasPrefix": ".hasPrefix", "strings.Contains": ".contains", "strings.HasSuffix": ".hasSuffix"}[exprTextNoPos(call.Fun)]
		lit, okl := strLit(call.Args[1])
		if pred == "" || !okl {
			return "", fmt.Errorf("unrecognised text guard: %s", exprTextNoPos(is.Cond))
		}
		act, err := ehBody(is.Body.List, true, "")
		if err != nil {
			return "", err
		}
		rules = append(rules, fmt.Sprintf(".text %s /- %s -/ %s (%s)", pred, leanStr(lit), leanBytes(lit), act))
	}
	tail, err := ehBody(fd.Body.List[i:], false, "")
	if err != nil {
		return "", fmt.Errorf("tail of ErrorHandler: %v", err)
	}
	rules = append(rules, fmt.Sprintf(".otherwise (%s)", tail))

	// writeErrorResponse: WriteHeader(code) comes first
	wr := findFunc(f, "", "writeErrorResponse")
	if wr == nil || wr.Body == nil || len(wr.Body.List) == 0 || wr.Type.Params == nil {
		return "", fmt.Errorf("func writeErrorResponse not found")
	}
	var pnames []string
	for _, p := range wr.Type.Params.List {
		for _, n := range p.Names {
			pnames = append(pnames, n.Name)
		}
	}
	if len(pnames) != 3 {
		return "", fmt.Errorf("writeErrorResponse does not have three parameters")
	}
	if es, ok := wr.Body.List[0].(*ast.ExprStmt); !ok || exprTextNoPos(es.X) != pnames[0]+".WriteHeader("+pnames[1]+")" {
		return "", fmt.Errorf("writeErrorResponse does not begin with %s.WriteHeader(%s)", pnames[0], pnames[1])
	}

	// Build: the handler calls ErrorHandler exactly when Do returned an error
	bd := findFunc(f, "", "Build")
	if bd == nil || bd.Body == nil {
		return "", fmt.Errorf("func Build not found")
	}
	var handler *ast.FuncLit
	for _, st := range bd.Body.List {
		if rs, ok := st.(*ast.ReturnStmt); ok && len(rs.Results) == 1 {
			handler, _ = rs.Results[0].(*ast.FuncLit)
		}
	}
	if handler == nil {
		return "", fmt.Errorf("Build does not return a function literal")
	}
	var hs []string
	for _, st := range handler.Body.List {
		hs = append(hs, exprTextNoPosStmt(st))
	}
	want := []string{"err := pusherCtx.Do(w, r)", "if err != nil { ErrorHandler(w, r, err) }", "return"}
	if strings.Join(hs, " ; ") != strings.Join(want, " ; ") {
		return "", fmt.Errorf("Build's handler is not `%s` but `%s`", strings.Join(want, "; "), strings.Join(hs, "; "))
	}

	// retry-go's Error.Error()
	dir, err := c15ModDir("github.com/avast/retry-go")
	if err != nil {
		return "", fmt.Errorf("retry-go in the module cache: %v", err)
	}
	rf, err := parser.ParseFile(token.NewFileSet(), filepath.Join(dir, "retry.go"), nil, 0)
	if err != nil {
		return "", err
	}
	ef := findFunc(rf, "Error", "Error")
	if ef == nil || ef.Body == nil {
		return "", fmt.Errorf("retry-go: method Error.Error not found")
	}
	var lineFmt, headFmt, sep string
	ast.Inspect(ef.Body, func(n ast.Node) bool {
		call, ok := n.(*ast.CallExpr)
		if !ok {
			return true
		}
		switch exprTextNoPos(call.Fun) {
		case "fmt.Sprintf":
			if len(call.Args) == 3 && strings.ReplaceAll(exprTextNoPos(call.Args[1]), " ", "") == "i+1" {
				lineFmt, _ = strLit(call.Args[0])
			} else if len(call.Args) == 2 {
				headFmt, _ = strLit(call.Args[0])
			}
		case "strings.Join":
			if len(call.Args) == 2 {
				sep, _ = strLit(call.Args[1])
			}
		}
		return true
	})
	lp := strings.SplitN(lineFmt, "%d", 2)
	if len(lp) != 2 || !strings.HasSuffix(lp[1], "%s") || strings.Contains(lp[0], "%") || strings.Count(lineFmt, "%") != 2 {
		return "", fmt.Errorf("retry-go: per-attempt line format %q is not <prefix>%%d<sep>%%s", lineFmt)
	}
	if !strings.HasSuffix(headFmt, "%s") || strings.Count(headFmt, "%") != 1 || sep == "" {
		return "", fmt.Errorf("retry-go: header format %q / separator %q not recognised", headFmt, sep)
	}
	// the loop of Do fills errorLog[n] for every failed attempt and returns errorLog itself
	do := findFunc(rf, "", "Do")
	if do == nil || do.Body == nil {
		return "", fmt.Errorf("retry-go: func Do not found")
	}
	last, ok := do.Body.List[len(do.Body.List)-1].(*ast.ReturnStmt)
	if !ok || len(last.Results) != 1 || exprTextNoPos(last.Results[0]) != "errorLog" {
		return "", fmt.Errorf("retry-go: Do does not end with `return errorLog`")
	}

	// typed errors: every composite literal of QrynError / UnMarshalError in writer/utils/errors/error.go
	_, ef2, err := parseFile("writer/utils/errors/error.go")
	if err != nil {
		return "", err
	}
	codes := map[int64]bool{}
	var bad error
	ast.Inspect(ef2, func(n ast.Node) bool {
		cl, ok := n.(*ast.CompositeLit)
		if !ok {
			return true
		}
		tn := exprTextNoPos(cl.Type)
		if tn != "QrynError" && tn != "UnMarshalError" {
			return true
		}
		idx := map[string]int{"QrynError": 0, "UnMarshalError": 1}[tn] // position of Code in an unkeyed literal
		var ce ast.Expr
		for k, el := range cl.Elts {
			if kv, ok := el.(*ast.KeyValueExpr); ok {
				if exprTextNoPos(kv.Key) == "Code" {
					ce = kv.Value
				}
			} else if k == idx {
				ce = el
			}
		}
		c, ok := int64(0), false
		if ce != nil {
			c, ok = ehCode(ce)
		}
		if !ok {
			bad = fmt.Errorf("typed error literal without a constant Code: %s", exprTextNoPos(cl))
			return false
		}
		codes[c] = true
		return true
	})
	if bad != nil {
		return "", bad
	}
	if len(codes) == 0 {
		return "", fmt.Errorf("no QrynError/UnMarshalError literal found in writer/utils/errors/error.go")
	}
	var cs []int64
	for c := range codes {
		cs = append(cs, c)
	}
	sort.Slice(cs, func(a, b int) bool { return cs[a] < cs[b] })
	cstr := make([]string, len(cs))
	for k, c := range cs {
		cstr[k] = fmt.Sprint(c)
	}

	var b strings.Builder
	b.WriteString("import Qryn.Ingest.ErrorHandler\nnamespace Qryn.Gen.ErrorHandler\nopen Qryn.Ingest.ErrorHandler\n\n")
	b.WriteString("/-- `ErrorHandler` of writer/controller/builder.go, one rule per `if`, then the tail -/\n")
	b.WriteString("def rules : List Rule :=\n  [ " + strings.Join(rules, ",\n    ") + " ]\n\n")
	fmt.Fprintf(&b, "/-- retry-go `Error.Error()`: header %s, line %s, joined by %s -/\n", leanStr(headFmt), leanStr(lineFmt), leanStr(sep))
	fmt.Fprintf(&b, "def retryFmt : RetryFmt :=\n  { header := %s\n    linePrefix := %s\n    lineSep := %s\n    join := %s }\n\n",
		leanBytes(strings.TrimSuffix(headFmt, "%s")), leanBytes(lp[0]), leanBytes(strings.TrimSuffix(lp[1], "%s")), leanBytes(sep))
	b.WriteString("/-- `writeErrorResponse` calls `WriteHeader(code)` before anything else -/\ndef writeHeaderFirst : Bool := true\n\n")
	b.WriteString("/-- `Build`'s handler: `err := pusherCtx.Do(w, r); if err != nil { ErrorHandler(w, r, err) }` -/\ndef handlerCallsErrorHandlerOnError : Bool := true\n\n")
	b.WriteString("/-- the `Code` of every typed error constructed in writer/utils/errors/error.go -/\n")
	b.WriteString("def typedCodes : List Nat := [" + strings.Join(cstr, ", ") + "]\n\n")
	b.WriteString("end Qryn.Gen.ErrorHandler\n")
	return b.String(), nil
}
