package main

import (
	"fmt"
	"go/ast"
	"go/token"
	"os"
	"path/filepath"
	"strings"
)

// Gen.InternalParams (C09): how the in-process parser stage treats its parameters and how the script is split.
//   planner_parser.go      ParserPlanner.Process: the `switch p.Op` cases, the loop that fills logfmtFields
//                          (guard, skip test, type-switch case, the assignment), the statements of OnEntry
//   planner_parser_json.go jsonWithParams (what an ahead is made of), filterAhead (tests), process (when a label is set),
//                          processObject / processArray (what is done with a member nobody asks for)
//   planner_parser_logfmt.go HandleLogfmt (tests and the two assignments)
//   planner.go             breakScript: the two slice expressions of the split and the in-place assignment
// Fails closed when a shape is not found.

func ipStmtTexts(fset *token.FileSet, stmts []ast.Stmt) []string {
	out := make([]string, 0, len(stmts))
	for _, s := range stmts {
		out = append(out, ipExprText(fset, s))
	}
	return out
}

// ipIfConds: the conditions of all `if` statements under n, in source order
func ipIfConds(fset *token.FileSet, n ast.Node) []string {
	var conds []string
	ast.Inspect(n, func(x ast.Node) bool {
		if is, ok := x.(*ast.IfStmt); ok {
			conds = append(conds, ipExprText(fset, is.Cond))
		}
		return true
	})
	return conds
}

// ipAssignsTo: texts of assignments whose (single) left side starts with prefix, in source order
func ipAssignsTo(fset *token.FileSet, n ast.Node, prefix string) []string {
	var res []string
	ast.Inspect(n, func(x ast.Node) bool {
		as, ok := x.(*ast.AssignStmt)
		if ok && len(as.Lhs) == 1 && strings.HasPrefix(ipExprText(fset, as.Lhs[0]), prefix) {
			res = append(res, ipExprText(fset, as))
		}
		return true
	})
	return res
}

func init() {
	register("InternalParams", func() (string, error) {
		var sb strings.Builder
		sb.WriteString("namespace Qryn.Gen.InternalParams\n")

		// ---- planner_parser.go
		fset, f, err := parseFile(ipDir + "planner_parser.go")
		if err != nil {
			return "", err
		}
		fd := findFunc(f, "ParserPlanner", "Process")
		if fd == nil {
			return "", fmt.Errorf("ParserPlanner.Process not found")
		}
		names, _, ok := switchCases(fset, fd, "p.Op")
		if !ok {
			return "", fmt.Errorf("switch p.Op not found in ParserPlanner.Process")
		}
		fmt.Fprintf(&sb, "/-- the parsers the in-process engine has (cases of `switch p.Op`; everything else is NotSupported) -/\ndef parserOpCases : List String := %s\n", ipLeanStrList(names))
		// the `if len(p.ParameterNames) > 0 { p.logfmtFields = make(...); for i, name := range p.ParameterNames {...} }` block
		var fieldsIf *ast.IfStmt
		for _, st := range fd.Body.List {
			if is, ok := st.(*ast.IfStmt); ok && len(ipAssignsTo(fset, is.Body, "p.logfmtFields")) > 0 {
				fieldsIf = is
				break
			}
		}
		if fieldsIf == nil {
			return "", fmt.Errorf("the block that fills p.logfmtFields not found in ParserPlanner.Process")
		}
		var loop *ast.RangeStmt
		for _, st := range fieldsIf.Body.List {
			if rs, ok := st.(*ast.RangeStmt); ok {
				loop = rs
			}
		}
		if loop == nil {
			return "", fmt.Errorf("the loop over p.ParameterNames not found")
		}
		var typeCases []string
		ast.Inspect(loop.Body, func(n ast.Node) bool {
			ts, ok := n.(*ast.TypeSwitchStmt)
			if !ok {
				return true
			}
			for _, st := range ts.Body.List {
				cc := st.(*ast.CaseClause)
				for _, e := range cc.List {
					typeCases = append(typeCases, ipExprText(fset, e))
				}
			}
			return false
		})
		fmt.Fprintf(&sb, "/-- the loop that fills `logfmtFields`: guard, range, skip test(s), type-switch cases, assignments in source order -/\n")
		fmt.Fprintf(&sb, "def fieldsGuard : String := %s\n", leanStr(ipExprText(fset, fieldsIf.Cond)))
		fmt.Fprintf(&sb, "def fieldsRange : String := %s\n", leanStr(ipExprText(fset, loop.Key)+", "+ipExprText(fset, loop.Value)+" := range "+ipExprText(fset, loop.X)))
		fmt.Fprintf(&sb, "def fieldsSkip : List String := %s\n", ipLeanStrList(ipIfConds(fset, loop.Body)))
		fmt.Fprintf(&sb, "def fieldsTypeCases : List String := %s\n", ipLeanStrList(typeCases))
		fmt.Fprintf(&sb, "def fieldsAssign : List String := %s\n", ipLeanStrList(ipAssignsTo(fset, fieldsIf.Body, "p.logfmtFields")))
		// OnEntry
		var onEntry *ast.FuncLit
		ast.Inspect(fd.Body, func(n ast.Node) bool {
			kv, ok := n.(*ast.KeyValueExpr)
			if ok && ipExprText(fset, kv.Key) == "OnEntry" {
				if fl, ok := kv.Value.(*ast.FuncLit); ok {
					onEntry = fl
				}
				return false
			}
			return true
		})
		if onEntry == nil {
			return "", fmt.Errorf("OnEntry of ParserPlanner.Process not found")
		}
		fmt.Fprintf(&sb, "/-- the statements of the parser stage's OnEntry (marker entries pass; a parse error keeps the labels extracted so far; the fingerprint is recomputed in every case) -/\n")
		fmt.Fprintf(&sb, "def parserOnEntry : List String := %s\n", ipLeanStrList(ipStmtTexts(fset, onEntry.Body.List)))

		// ---- planner_parser_json.go
		fset, f, err = parseFile(ipDir + "planner_parser_json.go")
		if err != nil {
			return "", err
		}
		fd = findFunc(f, "ParserPlanner", "jsonWithParams")
		if fd == nil {
			return "", fmt.Errorf("jsonWithParams not found")
		}
		var rng *ast.RangeStmt
		for _, st := range fd.Body.List {
			if rs, ok := st.(*ast.RangeStmt); ok {
				rng = rs
				break
			}
		}
		if rng == nil {
			return "", fmt.Errorf("the loop of jsonWithParams not found")
		}
		fmt.Fprintf(&sb, "/-- jsonWithParams: one ahead per parameter, in parameter order -/\n")
		fmt.Fprintf(&sb, "def aheadsRange : String := %s\n", leanStr(ipExprText(fset, rng.Key)+", "+ipExprText(fset, rng.Value)+" := range "+ipExprText(fset, rng.X)))
		fmt.Fprintf(&sb, "def aheadsBody : List String := %s\n", ipLeanStrList(ipStmtTexts(fset, rng.Body.List)))
		// every named label is set: the walk writes to a map of its own (`found`), guarded by the validity test; a last
		// loop over the aheads assigns found[label] ("" when absent) to the entry's labels
		var lastRng *ast.RangeStmt
		for _, st := range fd.Body.List {
			if rs, ok := st.(*ast.RangeStmt); ok {
				lastRng = rs
			}
		}
		if lastRng == rng {
			return "", fmt.Errorf("the loop of jsonWithParams that sets every named label not found")
		}
		fmt.Fprintf(&sb, "/-- jsonWithParams: the tests guarding the walk, and what the walk writes to -/\n")
		fmt.Fprintf(&sb, "def jsonParamsConds : List String := %s\n", ipLeanStrList(ipIfConds(fset, fd.Body)))
		fmt.Fprintf(&sb, "def jsonParamsFound : List String := %s\n", ipLeanStrList(append(ipAssignsTo(fset, fd.Body, "found"), ipAssignsTo(fset, fd.Body, "jpp")...)))
		fmt.Fprintf(&sb, "def jsonParamsFinalRange : String := %s\n", leanStr(ipExprText(fset, lastRng.Key)+", "+ipExprText(fset, lastRng.Value)+" := range "+ipExprText(fset, lastRng.X)))
		fmt.Fprintf(&sb, "def jsonParamsFinalBody : List String := %s\n", ipLeanStrList(ipStmtTexts(fset, lastRng.Body.List)))
		fd = findFunc(f, "", "filterAhead")
		if fd == nil {
			return "", fmt.Errorf("filterAhead not found")
		}
		fmt.Fprintf(&sb, "def filterAheadConds : List String := %s\n", ipLeanStrList(ipIfConds(fset, fd.Body)))
		fd = findFunc(f, "jsonPathProcessor", "process")
		if fd == nil {
			return "", fmt.Errorf("jsonPathProcessor.process not found")
		}
		var setConds, setAssigns []string
		ast.Inspect(fd.Body, func(n ast.Node) bool {
			rs, ok := n.(*ast.RangeStmt)
			if !ok {
				return true
			}
			setConds = append(setConds, ipIfConds(fset, rs.Body)...)
			setAssigns = append(setAssigns, ipAssignsTo(fset, rs.Body, "(*j.labels)")...)
			return false
		})
		fmt.Fprintf(&sb, "/-- process: every test, in source order (object/array some path ends at: read as a whole, text to the exhausted aheads, the others go on) -/\n")
		fmt.Fprintf(&sb, "def processConds : List String := %s\n", ipLeanStrList(ipIfConds(fset, fd.Body)))
		var deeperStmts []string
		ast.Inspect(fd.Body, func(n ast.Node) bool {
			if as, ok := n.(*ast.AssignStmt); ok {
				if t := ipExprText(fset, as); strings.Contains(t, "deeper") || strings.Contains(t, "dec.Raw()") {
					deeperStmts = append(deeperStmts, t)
				}
			}
			return true
		})
		fmt.Fprintf(&sb, "def processDeeper : List String := %s\n", ipLeanStrList(deeperStmts))
		fmt.Fprintf(&sb, "/-- process: which aheads get the value (composite case, string case, default case; the first loop collects the aheads that go on) -/\n")
		fmt.Fprintf(&sb, "def setConds : List String := %s\n", ipLeanStrList(setConds))
		fmt.Fprintf(&sb, "def setAssigns : List String := %s\n", ipLeanStrList(setAssigns))
		for _, m := range []string{"processObject", "processArray"} {
			fd = findFunc(f, "jsonPathProcessor", m)
			if fd == nil {
				return "", fmt.Errorf("jsonPathProcessor.%s not found", m)
			}
			var cut []string
			ast.Inspect(fd.Body, func(n ast.Node) bool {
				cl, ok := n.(*ast.CompositeLit)
				if ok && ipExprText(fset, cl.Type) == "pathAhead" {
					cut = append(cut, ipExprText(fset, cl))
				}
				return true
			})
			fmt.Fprintf(&sb, "def %sConds : List String := %s\n", m, ipLeanStrList(ipIfConds(fset, fd.Body)))
			fmt.Fprintf(&sb, "def %sCut : List String := %s\n", m, ipLeanStrList(cut))
		}

		// ---- planner_parser_logfmt.go
		fset, f, err = parseFile(ipDir + "planner_parser_logfmt.go")
		if err != nil {
			return "", err
		}
		fd = findFunc(f, "logFmtParser", "HandleLogfmt")
		if fd == nil {
			return "", fmt.Errorf("HandleLogfmt not found")
		}
		fmt.Fprintf(&sb, "def handleLogfmtConds : List String := %s\n", ipLeanStrList(ipIfConds(fset, fd.Body)))
		fmt.Fprintf(&sb, "def handleLogfmtAssigns : List String := %s\n", ipLeanStrList(append(ipAssignsTo(fset, fd.Body, "l"), ipAssignsTo(fset, fd.Body, "(*p.labels)")...)))

		// ---- planner.go breakScript
		fset, f, err = parseFile("reader/logql/logql_transpiler_v2/planner.go")
		if err != nil {
			return "", err
		}
		fd = findFunc(f, "", "breakScript")
		if fd == nil {
			return "", fmt.Errorf("breakScript not found")
		}
		var slices []string
		ast.Inspect(fd.Body, func(n ast.Node) bool {
			se, ok := n.(*ast.SliceExpr)
			if ok {
				slices = append(slices, ipExprText(fset, se))
			}
			return true
		})
		if len(slices) == 0 {
			return "", fmt.Errorf("the slice expressions of breakScript not found")
		}
		fmt.Fprintf(&sb, "/-- breakScript: the slice expressions of the split, and what it assigns in the parsed script (it mutates it in place) -/\n")
		fmt.Fprintf(&sb, "def splitSlices : List String := %s\n", ipLeanStrList(slices))
		fmt.Fprintf(&sb, "def splitMutations : List String := %s\n", ipLeanStrList(ipAssignsTo(fset, fd.Body, "_script.")))
		// Plan: who calls breakScript, with what
		fd = findFunc(f, "", "Plan")
		if fd == nil {
			return "", fmt.Errorf("Plan not found")
		}
		var calls []string
		ast.Inspect(fd.Body, func(n ast.Node) bool {
			ce, ok := n.(*ast.CallExpr)
			if ok {
				t := ipExprText(fset, ce.Fun)
				if t == "breakScript" || t == "GetBreakpoint" || t == "internal_planner.Plan" || t == "clickhouse_planner.Plan" {
					calls = append(calls, ipExprText(fset, ce))
				}
			}
			return true
		})
		fmt.Fprintf(&sb, "/-- Plan: the calls that split and plan the two halves, in source order -/\n")
		fmt.Fprintf(&sb, "def planCalls : List String := %s\n", ipLeanStrList(calls))
		// who hands a script to Plan: the functions of package logql_transpiler_v2 that call Plan, and Transpile's body
		ents, err := os.ReadDir(filepath.Join(repo, "reader/logql/logql_transpiler_v2"))
		if err != nil {
			return "", err
		}
		var callers []string
		var transpile []string
		for _, e := range ents {
			if e.IsDir() || !strings.HasSuffix(e.Name(), ".go") || strings.HasSuffix(e.Name(), "_test.go") {
				continue
			}
			fs2, f2, err := parseFile("reader/logql/logql_transpiler_v2/" + e.Name())
			if err != nil {
				return "", err
			}
			for _, d := range f2.Decls {
				fd2, ok := d.(*ast.FuncDecl)
				if !ok || fd2.Body == nil {
					continue
				}
				calls := false
				ast.Inspect(fd2.Body, func(n ast.Node) bool {
					if ce, ok := n.(*ast.CallExpr); ok {
						if id, ok := ce.Fun.(*ast.Ident); ok && id.Name == "Plan" {
							calls = true
						}
					}
					return true
				})
				if calls {
					callers = append(callers, e.Name()+":"+fd2.Name.Name)
				}
				if fd2.Name.Name == "Transpile" && fd2.Recv == nil {
					transpile = ipStmtTexts(fs2, fd2.Body.List)
				}
			}
		}
		if transpile == nil {
			return "", fmt.Errorf("Transpile not found in logql_transpiler_v2")
		}
		fmt.Fprintf(&sb, "/-- the functions of package logql_transpiler_v2 that call Plan, and the statements of Transpile -/\n")
		// callers from other packages of the reader tree (through whatever name the package is imported under)
		var outside []string
		werr := filepath.Walk(filepath.Join(repo, "reader"), func(path string, info os.FileInfo, err error) error {
			if err != nil || info.IsDir() || !strings.HasSuffix(path, ".go") || strings.HasSuffix(path, "_test.go") {
				return err
			}
			rel, _ := filepath.Rel(repo, path)
			fs3, f3, err := parseFile(rel)
			if err != nil {
				return err
			}
			alias := ""
			for _, im := range f3.Imports {
				if strings.Trim(im.Path.Value, "\"") == "github.com/metrico/qryn/reader/logql/logql_transpiler_v2" {
					alias = "logql_transpiler_v2"
					if im.Name != nil {
						alias = im.Name.Name
					}
				}
			}
			if alias == "" {
				return nil
			}
			ast.Inspect(f3, func(n ast.Node) bool {
				if ce, ok := n.(*ast.CallExpr); ok && ipExprText(fs3, ce.Fun) == alias+".Plan" {
					outside = append(outside, rel)
				}
				return true
			})
			return nil
		})
		if werr != nil {
			return "", werr
		}
		fmt.Fprintf(&sb, "def planCallers : List String := %s\n", ipLeanStrList(callers))
		fmt.Fprintf(&sb, "def planCallersOutside : List String := %s\n", ipLeanStrList(outside))
		fmt.Fprintf(&sb, "def transpileBody : List String := %s\n", ipLeanStrList(transpile))
		// logql_parser.Parse: builds a parser and parses the text, nothing is kept
		fset, f, err = parseFile("reader/logql/logql_parser/parser.go")
		if err != nil {
			return "", err
		}
		fd = findFunc(f, "", "Parse")
		if fd == nil {
			return "", fmt.Errorf("logql_parser.Parse not found")
		}
		fmt.Fprintf(&sb, "/-- the statements of logql_parser.Parse (no cache: every call parses the text afresh) -/\n")
		fmt.Fprintf(&sb, "def parseBody : List String := %s\n", ipLeanStrList(ipStmtTexts(fset, fd.Body.List)))
		sb.WriteString("end Qryn.Gen.InternalParams\n")
		return sb.String(), nil
	})
}
