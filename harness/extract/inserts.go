package main

// Gen.Inserts (C01, C02): for each insert service in writer/service/impl — the INSERT column list, the
// acquirer's column order (serialize()/toIFace()), the Go type its ProcessRequest asserts, the statements
// of ProcessRequest in source order as "column <- request field", and the counted column; plus the
// handler wiring: doParse's pairing of parser-response fields with services, the context keys the
// middlewares bind to registry getters, the Go type the parser builder stores in each response field,
// and the chain registry getter -> constructor.

import (
	"fmt"
	"go/ast"
	"go/token"
	"sort"
	"strings"
)

type insStep struct{ kind, col, field, lead string }

type insPlan struct {
	insertCols, acquired []string
	ptype                string
	steps                []insStep
	countCol             string
}

var insPTypes = map[string]string{
	"TimeSamplesData": "timeSamplesData", "TimeSeriesData": "timeSeriesData", "TempoSamples": "tempoSamples",
	"TempoTag": "tempoTag", "ProfileData": "profileData",
}

// constant string expression: literals joined by +
func constString(e ast.Expr) (string, bool) {
	switch v := e.(type) {
	case *ast.BasicLit:
		return strLit(v)
	case *ast.BinaryExpr:
		if v.Op != token.ADD {
			return "", false
		}
		a, ok1 := constString(v.X)
		b, ok2 := constString(v.Y)
		return a + b, ok1 && ok2
	case *ast.ParenExpr:
		return constString(v.X)
	}
	return "", false
}

// selPath renders a.b.c selector chains; "" if not a pure chain
func selPath(e ast.Expr) string {
	switch v := e.(type) {
	case *ast.Ident:
		return v.Name
	case *ast.SelectorExpr:
		p := selPath(v.X)
		if p == "" {
			return ""
		}
		return p + "." + v.Sel.Name
	case *ast.ParenExpr:
		return selPath(v.X)
	case *ast.UnaryExpr:
		if v.Op == token.AND {
			return selPath(v.X)
		}
	}
	return ""
}

// acquirer: field -> column name (from acq()), and the order of fields in the serialize method
func acquirerInfo(f *ast.File, typ, serMethod string) (map[string]string, []string, error) {
	acq := findFunc(f, typ, "acq")
	if acq == nil {
		return nil, nil, fmt.Errorf("%s.acq not found", typ)
	}
	recv := acq.Recv.List[0].Names[0].Name
	names := map[string]string{}
	for _, st := range acq.Body.List {
		as, ok := st.(*ast.AssignStmt)
		if !ok || len(as.Lhs) != 1 || len(as.Rhs) != 1 {
			continue
		}
		lhs := selPath(as.Lhs[0])
		call, ok := as.Rhs[0].(*ast.CallExpr)
		if !ok || !strings.HasPrefix(lhs, recv+".") {
			continue
		}
		if se, ok := call.Fun.(*ast.SelectorExpr); ok && se.Sel.Name == "Acquire" && len(call.Args) == 1 {
			n, ok := strLit(call.Args[0])
			if !ok {
				return nil, nil, fmt.Errorf("%s.acq: Acquire with a non-literal name", typ)
			}
			names[strings.TrimPrefix(lhs, recv+".")] = n
		}
	}
	ser := findFunc(f, typ, serMethod)
	if ser == nil {
		return nil, nil, fmt.Errorf("%s.%s not found", typ, serMethod)
	}
	srecv := ser.Recv.List[0].Names[0].Name
	var order []string
	for _, st := range ser.Body.List {
		ret, ok := st.(*ast.ReturnStmt)
		if !ok || len(ret.Results) != 1 {
			continue
		}
		cl, ok := ret.Results[0].(*ast.CompositeLit)
		if !ok {
			return nil, nil, fmt.Errorf("%s.%s does not return a slice literal", typ, serMethod)
		}
		for _, el := range cl.Elts {
			p := selPath(el)
			if !strings.HasPrefix(p, srecv+".") {
				return nil, nil, fmt.Errorf("%s.%s: unexpected element", typ, serMethod)
			}
			fld := strings.TrimPrefix(p, srecv+".")
			if _, ok := names[fld]; !ok {
				return nil, nil, fmt.Errorf("%s.%s: field %s is not acquired in acq()", typ, serMethod, fld)
			}
			order = append(order, fld)
		}
	}
	if len(order) == 0 || len(order) != len(names) {
		return nil, nil, fmt.Errorf("%s: %d acquired columns, %d serialized", typ, len(names), len(order))
	}
	return names, order, nil
}

func parseInsertCols(sql string) ([]string, error) {
	i := strings.Index(sql, "(")
	j := strings.LastIndex(sql, ")")
	if !strings.HasPrefix(strings.TrimSpace(sql), "INSERT INTO %s") || i < 0 || j < i {
		return nil, fmt.Errorf("unexpected INSERT text %q", sql)
	}
	var cols []string
	for _, c := range strings.Split(sql[i+1:j], ",") {
		c = strings.Trim(strings.TrimSpace(c), "`")
		if c == "" {
			return nil, fmt.Errorf("empty column in %q", sql)
		}
		cols = append(cols, c)
	}
	return cols, nil
}

// colOfData maps ACQ.field.Data (possibly behind & or parentheses) to the acquirer field
func colOfData(e ast.Expr, acqVar string) (string, bool) {
	p := selPath(e)
	if strings.HasPrefix(p, acqVar+".") && strings.HasSuffix(p, ".Data") {
		return strings.TrimSuffix(strings.TrimPrefix(p, acqVar+"."), ".Data"), true
	}
	return "", false
}

func reqField(e ast.Expr, reqVar string) (string, bool) {
	p := selPath(e)
	if strings.HasPrefix(p, reqVar+".") && strings.Count(p, ".") == 1 {
		return strings.TrimPrefix(p, reqVar+"."), true
	}
	return "", false
}

// appendCall recognises COL.Append(x) / AppendBytes(x) / AppendArr(x) and adaptor forms; returns
// (acquirer field, method, argument)
func appendCall(e ast.Expr, acqVar string) (string, string, ast.Expr, bool) {
	call, ok := e.(*ast.CallExpr)
	if !ok || len(call.Args) != 1 {
		return "", "", nil, false
	}
	se, ok := call.Fun.(*ast.SelectorExpr)
	if !ok {
		return "", "", nil, false
	}
	m := se.Sel.Name
	if m != "Append" && m != "AppendBytes" && m != "AppendArr" {
		return "", "", nil, false
	}
	if c, ok := colOfData(se.X, acqVar); ok {
		return c, m, call.Args[0], true
	}
	// (&service.XAdaptor{K: &ACQ.c.Data}).AppendArr(...)
	x := se.X
	if pe, ok := x.(*ast.ParenExpr); ok {
		x = pe.X
	}
	if ue, ok := x.(*ast.UnaryExpr); ok && ue.Op == token.AND {
		x = ue.X
	}
	if cl, ok := x.(*ast.CompositeLit); ok && len(cl.Elts) == 1 {
		if kv, ok := cl.Elts[0].(*ast.KeyValueExpr); ok {
			if c, ok := colOfData(kv.Value, acqVar); ok {
				return c, m, call.Args[0], true
			}
		}
	}
	return "", "", nil, false
}

func extractPlan(f *ast.File, ctor string) (*insPlan, error) {
	fd := findFunc(f, "", ctor)
	if fd == nil {
		return nil, fmt.Errorf("%s not found", ctor)
	}
	pl := &insPlan{}
	var lit *ast.CompositeLit
	for _, st := range fd.Body.List {
		switch v := st.(type) {
		case *ast.AssignStmt:
			if len(v.Lhs) == 1 && len(v.Rhs) == 1 {
				if id, ok := v.Lhs[0].(*ast.Ident); ok && (id.Name == "insertReq" || id.Name == "insertRequest") {
					call, ok := v.Rhs[0].(*ast.CallExpr)
					if !ok || len(call.Args) < 1 {
						return nil, fmt.Errorf("%s: %s is not a Sprintf call", ctor, id.Name)
					}
					s, ok := constString(call.Args[0])
					if !ok {
						return nil, fmt.Errorf("%s: INSERT format is not a constant string", ctor)
					}
					cols, err := parseInsertCols(s)
					if err != nil {
						return nil, fmt.Errorf("%s: %v", ctor, err)
					}
					pl.insertCols = cols
				}
			}
		case *ast.ReturnStmt:
			if len(v.Results) == 1 {
				if ue, ok := v.Results[0].(*ast.UnaryExpr); ok {
					if cl, ok := ue.X.(*ast.CompositeLit); ok && selPath(cl.Type) == "service.InsertServiceV2Multimodal" {
						lit = cl
					}
				}
			}
		}
	}
	if lit == nil || pl.insertCols == nil {
		return nil, fmt.Errorf("%s: INSERT statement or InsertServiceV2Multimodal literal not found", ctor)
	}
	var acqFn, procFn *ast.FuncLit
	for _, el := range lit.Elts {
		kv, ok := el.(*ast.KeyValueExpr)
		if !ok {
			continue
		}
		switch selPath(kv.Key) {
		case "AcquireColumns":
			acqFn, _ = kv.Value.(*ast.FuncLit)
		case "ProcessRequest":
			procFn, _ = kv.Value.(*ast.FuncLit)
		case "InsertRequest":
			if n := selPath(kv.Value); n != "insertReq" && n != "insertRequest" {
				return nil, fmt.Errorf("%s: InsertRequest is bound to %s", ctor, n)
			}
		}
	}
	if acqFn == nil || procFn == nil {
		return nil, fmt.Errorf("%s: AcquireColumns/ProcessRequest closures not found", ctor)
	}
	// AcquireColumns: return (&T{}).acq().<ser>()
	var accType, serMethod string
	if len(acqFn.Body.List) == 1 {
		if ret, ok := acqFn.Body.List[0].(*ast.ReturnStmt); ok && len(ret.Results) == 1 {
			if c1, ok := ret.Results[0].(*ast.CallExpr); ok {
				if s1, ok := c1.Fun.(*ast.SelectorExpr); ok {
					serMethod = s1.Sel.Name
					if c2, ok := s1.X.(*ast.CallExpr); ok {
						if s2, ok := c2.Fun.(*ast.SelectorExpr); ok && s2.Sel.Name == "acq" {
							x := s2.X
							if pe, ok := x.(*ast.ParenExpr); ok {
								x = pe.X
							}
							if ue, ok := x.(*ast.UnaryExpr); ok {
								if cl, ok := ue.X.(*ast.CompositeLit); ok {
									accType = selPath(cl.Type)
								}
							}
						}
					}
				}
			}
		}
	}
	if accType == "" {
		return nil, fmt.Errorf("%s: AcquireColumns is not `return (&T{}).acq().ser()`", ctor)
	}
	names, order, err := acquirerInfo(f, accType, serMethod)
	if err != nil {
		return nil, fmt.Errorf("%s: %v", ctor, err)
	}
	for _, fld := range order {
		pl.acquired = append(pl.acquired, names[fld])
	}
	// ProcessRequest(req any, res []IColPoolRes)
	if len(procFn.Type.Params.List) != 2 {
		return nil, fmt.Errorf("%s: ProcessRequest has an unexpected signature", ctor)
	}
	anyVar := procFn.Type.Params.List[0].Names[0].Name
	resVar := procFn.Type.Params.List[1].Names[0].Name
	var reqVar, okVar, acqVar, lenVar string
	countField := "" // acquirer field, or "#0" for res[0]
	sawGuard, sawReturn := false, false
	colName := func(fld string) (string, error) {
		n, ok := names[fld]
		if !ok {
			return "", fmt.Errorf("%s: ProcessRequest appends to unknown acquirer field %s", ctor, fld)
		}
		return n, nil
	}
	countExpr := func(e ast.Expr) (string, bool) {
		// len(ACQ.F.Data)  |  res[0].Size()
		call, ok := e.(*ast.CallExpr)
		if !ok {
			return "", false
		}
		if id, ok := call.Fun.(*ast.Ident); ok && id.Name == "len" && len(call.Args) == 1 {
			if c, ok := colOfData(call.Args[0], acqVar); ok {
				return c, true
			}
		}
		if se, ok := call.Fun.(*ast.SelectorExpr); ok && se.Sel.Name == "Size" && len(call.Args) == 0 {
			if ix, ok := se.X.(*ast.IndexExpr); ok && selPath(ix.X) == resVar {
				if bl, ok := ix.Index.(*ast.BasicLit); ok && bl.Value == "0" {
					return "#0", true
				}
			}
		}
		return "", false
	}
	for _, st := range procFn.Body.List {
		switch v := st.(type) {
		case *ast.AssignStmt:
			if len(v.Lhs) == 2 && len(v.Rhs) == 1 {
				if ta, ok := v.Rhs[0].(*ast.TypeAssertExpr); ok && selPath(ta.X) == anyVar {
					t := selPath(ta.Type)
					if se, ok := ta.Type.(*ast.StarExpr); ok {
						t = selPath(se.X)
					}
					lean, ok := insPTypes[strings.TrimPrefix(t, "model.")]
					if !ok {
						return nil, fmt.Errorf("%s: ProcessRequest asserts unknown type %s", ctor, t)
					}
					pl.ptype = lean
					reqVar = v.Lhs[0].(*ast.Ident).Name
					okVar = v.Lhs[1].(*ast.Ident).Name
					continue
				}
			}
			if len(v.Lhs) == 1 && len(v.Rhs) == 1 {
				lhs := selPath(v.Lhs[0])
				if call, ok := v.Rhs[0].(*ast.CallExpr); ok {
					if se, ok := call.Fun.(*ast.SelectorExpr); ok && (se.Sel.Name == "deserialize" || se.Sel.Name == "fromIFace") &&
						len(call.Args) == 1 && selPath(call.Args[0]) == resVar {
						acqVar = lhs
						continue
					}
				}
				if c, ok := countExpr(v.Rhs[0]); ok {
					lenVar, countField = lhs, c
					continue
				}
			}
			return nil, fmt.Errorf("%s: unrecognised assignment in ProcessRequest", ctor)
		case *ast.IfStmt:
			// validate-before-append guard: `if err := check…(req fields…); err != nil { return 0, res, err }`
			// — rejects the request with the shared columns handed back unchanged (nothing appended yet)
			if v.Init != nil {
				be, ok := v.Cond.(*ast.BinaryExpr)
				ret, ok2 := v.Body.List[len(v.Body.List)-1].(*ast.ReturnStmt)
				if ok && ok2 && be.Op == token.NEQ && selPath(be.Y) == "nil" && len(v.Body.List) == 1 &&
					len(ret.Results) == 3 && selPath(ret.Results[1]) == resVar && acqVar == "" {
					continue
				}
				return nil, fmt.Errorf("%s: unrecognised guarded if in ProcessRequest", ctor)
			}
			// if !ok { ...; return 0, nil, err }
			ue, ok := v.Cond.(*ast.UnaryExpr)
			if !ok || ue.Op != token.NOT || selPath(ue.X) != okVar || okVar == "" {
				return nil, fmt.Errorf("%s: unrecognised if in ProcessRequest", ctor)
			}
			last, ok := v.Body.List[len(v.Body.List)-1].(*ast.ReturnStmt)
			if !ok || len(last.Results) != 3 || selPath(last.Results[1]) != "nil" {
				return nil, fmt.Errorf("%s: the type-mismatch branch does not `return 0, nil, err`", ctor)
			}
			sawGuard = true
		case *ast.RangeStmt:
			fld, ok := reqField(v.X, reqVar)
			if !ok {
				return nil, fmt.Errorf("%s: range over something that is not a request field", ctor)
			}
			keyName, valName := "_", "_"
			if id, ok := v.Key.(*ast.Ident); ok && v.Key != nil {
				keyName = id.Name
			}
			if v.Value != nil {
				if id, ok := v.Value.(*ast.Ident); ok {
					valName = id.Name
				}
			}
			for _, bs := range v.Body.List {
				es, ok := bs.(*ast.ExprStmt)
				if !ok {
					return nil, fmt.Errorf("%s: unrecognised statement in a range body", ctor)
				}
				c, m, arg, ok := appendCall(es.X, acqVar)
				if !ok || m == "AppendArr" {
					return nil, fmt.Errorf("%s: unrecognised call in a range body", ctor)
				}
				cn, err := colName(c)
				if err != nil {
					return nil, err
				}
				if id, ok := arg.(*ast.Ident); ok && id.Name == valName && valName != "_" {
					pl.steps = append(pl.steps, insStep{"arr", cn, fld, ""})
				} else if ix, ok := arg.(*ast.IndexExpr); ok {
					g, ok1 := reqField(ix.X, reqVar)
					if id, ok2 := ix.Index.(*ast.Ident); ok1 && ok2 && id.Name == keyName && keyName != "_" {
						pl.steps = append(pl.steps, insStep{"zip", cn, g, fld})
					} else {
						return nil, fmt.Errorf("%s: unrecognised indexed append in a range body", ctor)
					}
				} else {
					return nil, fmt.Errorf("%s: range body appends something that is not the loop value", ctor)
				}
			}
		case *ast.ExprStmt:
			if call, ok := v.X.(*ast.CallExpr); ok {
				if p := selPath(call.Fun); p == "logger.Info" || p == "logger.Error" {
					continue
				}
			}
			c, m, arg, ok := appendCall(v.X, acqVar)
			if !ok {
				return nil, fmt.Errorf("%s: unrecognised call in ProcessRequest", ctor)
			}
			cn, err := colName(c)
			if err != nil {
				return nil, err
			}
			fld, ok := reqField(arg, reqVar)
			if !ok {
				return nil, fmt.Errorf("%s: append of something that is not a request field", ctor)
			}
			if m == "AppendArr" {
				pl.steps = append(pl.steps, insStep{"arr", cn, fld, ""})
			} else {
				pl.steps = append(pl.steps, insStep{"one", cn, fld, ""})
			}
		case *ast.ReturnStmt:
			if len(v.Results) != 3 || selPath(v.Results[2]) != "nil" {
				return nil, fmt.Errorf("%s: unexpected final return", ctor)
			}
			be, ok := v.Results[0].(*ast.BinaryExpr)
			if !ok || be.Op != token.SUB || selPath(be.Y) != lenVar {
				return nil, fmt.Errorf("%s: inserted count is not `<count now> - %s`", ctor, lenVar)
			}
			c, ok := countExpr(be.X)
			if !ok || c != countField {
				return nil, fmt.Errorf("%s: inserted count compares different columns", ctor)
			}
			sawReturn = true
		default:
			return nil, fmt.Errorf("%s: unrecognised statement in ProcessRequest", ctor)
		}
	}
	if !sawGuard || !sawReturn || pl.ptype == "" || acqVar == "" || countField == "" {
		return nil, fmt.Errorf("%s: ProcessRequest misses the type guard, the count or the final return", ctor)
	}
	if countField == "#0" {
		pl.countCol = pl.acquired[0]
	} else {
		cn, err := colName(countField)
		if err != nil {
			return nil, err
		}
		pl.countCol = cn
	}
	return pl, nil
}

func leanStrList(xs []string) string {
	q := make([]string, len(xs))
	for i, x := range xs {
		q[i] = leanStr(x)
	}
	return "[" + strings.Join(q, ", ") + "]"
}

func (p *insPlan) lean(name string) string {
	var st []string
	for _, s := range p.steps {
		switch s.kind {
		case "arr":
			st = append(st, fmt.Sprintf(".arr %s %s", leanStr(s.col), leanStr(s.field)))
		case "zip":
			st = append(st, fmt.Sprintf(".zip %s %s %s", leanStr(s.col), leanStr(s.field), leanStr(s.lead)))
		case "one":
			st = append(st, fmt.Sprintf(".one %s %s", leanStr(s.col), leanStr(s.field)))
		}
	}
	return fmt.Sprintf("def %s : Plan :=\n  { insertCols := %s\n    acquired := %s\n    ptype := .%s\n    steps := [%s]\n    countCol := %s }\n",
		name, leanStrList(p.insertCols), leanStrList(p.acquired), p.ptype, strings.Join(st, ",\n              "), leanStr(p.countCol))
}

// ---- handler wiring

func doParsePairings() ([][2]string, error) {
	_, f, err := parseFile("writer/controller/builder.go")
	if err != nil {
		return nil, err
	}
	fd := findFunc(f, "", "doParse")
	if fd == nil {
		return nil, fmt.Errorf("doParse not found")
	}
	svcKey := map[string]string{}
	var res [][2]string
	var bad error
	ast.Inspect(fd.Body, func(n ast.Node) bool {
		switch v := n.(type) {
		case *ast.AssignStmt:
			if len(v.Lhs) == 1 && len(v.Rhs) == 1 {
				if call, ok := v.Rhs[0].(*ast.CallExpr); ok && selPath(call.Fun) == "getService" && len(call.Args) == 2 {
					if k, ok := strLit(call.Args[1]); ok {
						svcKey[selPath(v.Lhs[0])] = k
					}
				}
			}
		case *ast.CallExpr:
			if selPath(v.Fun) == "doPush" {
				if len(v.Args) != 3 {
					bad = fmt.Errorf("doPush with %d arguments", len(v.Args))
					return false
				}
				fld := selPath(v.Args[0])
				if !strings.HasPrefix(fld, "response.") {
					bad = fmt.Errorf("doPush of %s", fld)
					return false
				}
				if selPath(v.Args[1]) != "service.INSERT_MODE_SYNC" {
					bad = fmt.Errorf("doPush mode is %s", selPath(v.Args[1]))
					return false
				}
				k, ok := svcKey[selPath(v.Args[2])]
				if !ok {
					bad = fmt.Errorf("doPush to a service that is not taken from the context")
					return false
				}
				res = append(res, [2]string{strings.TrimPrefix(fld, "response."), k})
			}
		}
		return true
	})
	if bad != nil {
		return nil, bad
	}
	if len(res) == 0 {
		return nil, fmt.Errorf("no doPush call found in doParse")
	}
	return res, nil
}

func ctxServices() ([][2]string, error) {
	_, f, err := parseFile("writer/controller/middleware.go")
	if err != nil {
		return nil, err
	}
	var res [][2]string
	ast.Inspect(f, func(n ast.Node) bool {
		fl, ok := n.(*ast.FuncLit)
		if !ok {
			return true
		}
		getter := ""
		for _, st := range fl.Body.List {
			as, ok := st.(*ast.AssignStmt)
			if !ok || len(as.Rhs) != 1 {
				continue
			}
			call, ok := as.Rhs[0].(*ast.CallExpr)
			if !ok {
				continue
			}
			p := selPath(call.Fun)
			if strings.HasPrefix(p, "Registry.Get") {
				getter = strings.TrimPrefix(p, "Registry.")
			}
			if p == "context.WithValue" && len(call.Args) == 3 && selPath(call.Args[2]) == "svc" && getter != "" {
				if k, ok := strLit(call.Args[1]); ok {
					res = append(res, [2]string{k, getter})
				}
			}
		}
		return true
	})
	if len(res) == 0 {
		return nil, fmt.Errorf("no service binding found in middleware.go")
	}
	sort.Slice(res, func(i, j int) bool { return res[i][0] < res[j][0] })
	return res, nil
}

// response field -> Go type stored in it, from every model.ParserResponse literal of the unmarshal package
func responseFieldTypes() ([][2]string, error) {
	fieldType := map[string]string{} // "parserDoer.spans" -> "TempoSamples"
	recvType := map[string]string{}  // per file+func: receiver var -> type, flattened as "func/var"
	var lits []struct {
		fn  string
		lit *ast.CompositeLit
	}
	for _, rel := range []string{"writer/utils/unmarshal/builder.go", "writer/utils/unmarshal/shared.go"} {
		_, f, err := parseFile(rel)
		if err != nil {
			return nil, err
		}
		for _, d := range f.Decls {
			switch v := d.(type) {
			case *ast.GenDecl:
				for _, sp := range v.Specs {
					ts, ok := sp.(*ast.TypeSpec)
					if !ok {
						continue
					}
					st, ok := ts.Type.(*ast.StructType)
					if !ok {
						continue
					}
					for _, fl := range st.Fields.List {
						t := ""
						if se, ok := fl.Type.(*ast.StarExpr); ok {
							t = selPath(se.X)
						}
						for _, n := range fl.Names {
							fieldType[ts.Name.Name+"."+n.Name] = strings.TrimPrefix(t, "model.")
						}
					}
				}
			case *ast.FuncDecl:
				if v.Recv != nil && len(v.Recv.List) == 1 && len(v.Recv.List[0].Names) == 1 {
					t := v.Recv.List[0].Type
					if se, ok := t.(*ast.StarExpr); ok {
						t = se.X
					}
					recvType[v.Name.Name+"/"+v.Recv.List[0].Names[0].Name] = selPath(t)
				}
				fn := v.Name.Name
				ast.Inspect(v, func(n ast.Node) bool {
					if cl, ok := n.(*ast.CompositeLit); ok && selPath(cl.Type) == "model.ParserResponse" {
						lits = append(lits, struct {
							fn  string
							lit *ast.CompositeLit
						}{fn, cl})
					}
					return true
				})
			}
		}
	}
	got := map[string]string{}
	for _, l := range lits {
		for _, el := range l.lit.Elts {
			kv, ok := el.(*ast.KeyValueExpr)
			if !ok {
				return nil, fmt.Errorf("positional ParserResponse literal in %s", l.fn)
			}
			k := selPath(kv.Key)
			if k == "Error" || k == "TimeSeriesFpKeys" { // not requests: the parse error and the cache keys handed back to doParse
				continue
			}
			v := selPath(kv.Value) // recv.field
			parts := strings.Split(v, ".")
			if len(parts) != 2 {
				return nil, fmt.Errorf("%s: ParserResponse.%s is set from %q", l.fn, k, v)
			}
			rt, ok := recvType[l.fn+"/"+parts[0]]
			if !ok {
				return nil, fmt.Errorf("%s: cannot type %q", l.fn, v)
			}
			t, ok := fieldType[rt+"."+parts[1]]
			if !ok || t == "" {
				return nil, fmt.Errorf("%s: no pointer type for %s.%s", l.fn, rt, parts[1])
			}
			if old, ok := got[k]; ok && old != t {
				return nil, fmt.Errorf("ParserResponse.%s receives both %s and %s", k, old, t)
			}
			got[k] = t
		}
	}
	var res [][2]string
	for k, t := range got {
		lean, ok := insPTypes[t]
		if !ok {
			return nil, fmt.Errorf("ParserResponse.%s receives unknown type %s", k, t)
		}
		res = append(res, [2]string{k, lean})
	}
	sort.Slice(res, func(i, j int) bool { return res[i][0] < res[j][0] })
	return res, nil
}

// registry getter -> impl constructor, following: getter -> registry field -> NewStaticServiceRegistry
// parameter -> argument variable at the call in the plugin -> factory method -> impl constructor
func getterConstructors() ([][2]string, error) {
	_, rf, err := parseFile("writer/service/registry/staticServiceRegistry.go")
	if err != nil {
		return nil, err
	}
	getterField := map[string]string{}
	for _, d := range rf.Decls {
		fd, ok := d.(*ast.FuncDecl)
		if !ok || fd.Recv == nil || !strings.HasPrefix(fd.Name.Name, "Get") || len(fd.Body.List) != 1 {
			continue
		}
		ret, ok := fd.Body.List[0].(*ast.ReturnStmt)
		if !ok || len(ret.Results) != 1 {
			continue
		}
		call, ok := ret.Results[0].(*ast.CallExpr)
		if !ok || len(call.Args) != 2 {
			continue
		}
		p := selPath(call.Args[1])
		if i := strings.Index(p, "."); i >= 0 {
			getterField[fd.Name.Name] = p[i+1:]
		}
	}
	ctor := findFunc(rf, "", "NewStaticServiceRegistry")
	if ctor == nil {
		return nil, fmt.Errorf("NewStaticServiceRegistry not found")
	}
	var params []string
	for _, fl := range ctor.Type.Params.List {
		for _, n := range fl.Names {
			params = append(params, n.Name)
		}
	}
	fieldParam := map[string]string{}
	ast.Inspect(ctor.Body, func(n ast.Node) bool {
		rs, ok := n.(*ast.RangeStmt)
		if !ok {
			return true
		}
		src := selPath(rs.X)
		for _, st := range rs.Body.List {
			if as, ok := st.(*ast.AssignStmt); ok && len(as.Lhs) == 1 {
				p := selPath(as.Lhs[0])
				if i := strings.Index(p, "."); i >= 0 {
					fieldParam[p[i+1:]] = src
				}
			}
		}
		return true
	})
	_, pf, err := parseFile("writer/plugin/qryn_writer_db.go")
	if err != nil {
		return nil, err
	}
	varFactory := map[string]string{}
	var callArgs []string
	ast.Inspect(pf, func(n ast.Node) bool {
		switch v := n.(type) {
		case *ast.AssignStmt:
			if len(v.Lhs) == 1 && len(v.Rhs) == 1 {
				if ix, ok := v.Lhs[0].(*ast.IndexExpr); ok {
					if call, ok := v.Rhs[0].(*ast.CallExpr); ok {
						if p := selPath(call.Fun); strings.HasPrefix(p, "factory.New") {
							varFactory[selPath(ix.X)] = strings.TrimPrefix(p, "factory.")
						}
					}
				}
			}
		case *ast.CallExpr:
			if selPath(v.Fun) == "registry.NewStaticServiceRegistry" {
				for _, a := range v.Args {
					callArgs = append(callArgs, selPath(a))
				}
			}
		}
		return true
	})
	if len(callArgs) != len(params) {
		return nil, fmt.Errorf("NewStaticServiceRegistry has %d parameters, called with %d", len(params), len(callArgs))
	}
	paramArg := map[string]string{}
	for i, p := range params {
		paramArg[p] = callArgs[i]
	}
	_, ff, err := parseFile("writer/service/impl/impl.go")
	if err != nil {
		return nil, err
	}
	factoryCtor := map[string]string{}
	for _, d := range ff.Decls {
		fd, ok := d.(*ast.FuncDecl)
		if !ok || fd.Recv == nil || len(fd.Body.List) != 1 {
			continue
		}
		if ret, ok := fd.Body.List[0].(*ast.ReturnStmt); ok && len(ret.Results) == 1 {
			if call, ok := ret.Results[0].(*ast.CallExpr); ok {
				factoryCtor[fd.Name.Name] = selPath(call.Fun)
			}
		}
	}
	var res [][2]string
	for g, fld := range getterField {
		p, ok1 := fieldParam[fld]
		a, ok2 := paramArg[p]
		fm, ok3 := varFactory[a]
		c, ok4 := factoryCtor[fm]
		if !(ok1 && ok2 && ok3 && ok4) {
			return nil, fmt.Errorf("cannot follow registry getter %s to a constructor (field %s, param %s, var %s, factory %s)", g, fld, p, a, fm)
		}
		res = append(res, [2]string{g, c})
	}
	sort.Slice(res, func(i, j int) bool { return res[i][0] < res[j][0] })
	return res, nil
}

func init() {
	register("Inserts", func() (string, error) {
		type svc struct{ file, ctor, lean, kind string }
		svcs := []svc{
			{"writer/service/impl/samplesInsertService.go", "NewSamplesInsertService", "samplesPlan", "samples"},
			{"writer/service/impl/timeSeriesInsertService.go", "NewTimeSeriesInsertService", "timeSeriesPlan", "timeSeries"},
			{"writer/service/impl/metricsInsertService.go", "NewMetricsInsertService", "metricsPlan", "metrics"},
			{"writer/service/impl/tempoInsertService.go", "NewTempoSamplesInsertService", "tempoSamplesPlan", "tempoSamples"},
			{"writer/service/impl/tempoInsertService.go", "NewTempoTagsInsertService", "tempoTagsPlan", "tempoTags"},
			{"writer/service/impl/profileInsertService.go", "NewProfileSamplesInsertService", "profilePlan", "profile"},
		}
		s := "import Qryn.Ingest.Batcher\nnamespace Qryn.Gen.Inserts\nopen Qryn.Ingest.Batcher\n\n"
		for _, sv := range svcs {
			_, f, err := parseFile(sv.file)
			if err != nil {
				return "", err
			}
			pl, err := extractPlan(f, sv.ctor)
			if err != nil {
				return "", err
			}
			s += "/-- " + sv.ctor + " -/\n" + pl.lean(sv.lean) + "\n"
		}
		s += "def planOf : Kind → Plan\n"
		for _, sv := range svcs {
			s += fmt.Sprintf("  | .%s => %s\n", sv.kind, sv.lean)
		}
		s += "\n/-- impl constructor ↦ service kind -/\ndef ctorKind : List (String × Kind) :=\n  ["
		for i, sv := range svcs {
			if i > 0 {
				s += ", "
			}
			s += fmt.Sprintf("(%s, .%s)", leanStr(sv.ctor), sv.kind)
		}
		s += "]\n\n"
		pairs, err := doParsePairings()
		if err != nil {
			return "", fmt.Errorf("doParse: %v", err)
		}
		pair := func(name, doc string, xs [][2]string, second func(string) string) string {
			o := "/-- " + doc + " -/\ndef " + name + " :=\n  ["
			for i, x := range xs {
				if i > 0 {
					o += ",\n   "
				}
				o += "(" + leanStr(x[0]) + ", " + second(x[1]) + ")"
			}
			return o + "]\n\n"
		}
		s += pair("pairings : List (String × String)", "doParse: parser-response field ↦ context key of the service it is pushed to, in call order", pairs, leanStr)
		cs, err := ctxServices()
		if err != nil {
			return "", err
		}
		s += pair("ctxServices : List (String × String)", "middlewares: context key ↦ registry getter that fills it", cs, leanStr)
		ft, err := responseFieldTypes()
		if err != nil {
			return "", fmt.Errorf("ParserResponse literals: %v", err)
		}
		s += pair("fieldTypes : List (String × PType)", "parser builder: response field ↦ Go type stored in it (every ParserResponse literal of the unmarshal package)", ft, func(x string) string { return "PType." + x })
		gc, err := getterConstructors()
		if err != nil {
			return "", err
		}
		s += pair("getterCtor : List (String × String)", "registry getter ↦ impl constructor (registry field, NewStaticServiceRegistry parameter, plugin variable, factory method)", gc, leanStr)
		s += "end Qryn.Gen.Inserts\n"
		return s, nil
	})
}
