package main

// Gen.ReadGoroutines (C12): a fault-site census of every goroutine started under reader/.
//
// For every `go` statement (function literal or named function/method) the translator walks the body that runs on
// the new goroutine's stack — the literal or the named function, deferred calls, immediately applied and callback
// literals, local closures (`f := func(){…}; f()`) and, transitively, the functions and methods of the SAME package it
// calls (up to rgMaxDepth levels; a deeper call is itself reported as a site `depth`, so the census fails closed) — and
// lists the syntactic places where the Go run time can panic:
//
//   index   a[i]            (not listed when i is the key of an enclosing `range a`, or the form is `v, ok := a[i]`)
//   slice   a[i:j]
//   store   a[i] = v        (write through an index: out of range, or a nil map; not listed when `a` was created by
//                            make/composite literal in the same function)
//   assert  x.(T)           without `, ok`
//   div     x / y, x % y    with a divisor that is not a constant
//   shift   x << n, x >> n  with a count that is not a constant
//   make    make(T, n)      with a size that is neither a constant nor built from len()/cap() and constants
//   deref   *p              explicit dereference
//   conv    [N]T(x)         slice-to-array conversion
//   panic   panic(…)
//   send    ch <- v         (panics when ch is closed; blocks for ever when nobody receives)
//   close   close(ch)       (panics when ch is nil or closed twice)
//   errdrop v, err := f()   whose err is not looked at by the next statement (v may be nil / zero)
//   dyn     f(…)            call of a function value / of a method on a value whose type is not known syntactically
//   depth   f(…)            same-package callee beyond the depth bound
//
// Each site carries the function it is in, its source text and the conditions that dominate it (`if C`, `else C`
// for the else branch and for the right operand of `||`, `unless C` for statements after `if C { …return }`,
// `for C`, `range k, v := X`, `case …`, `select …`, `defer`). Library calls (`pkg.F`, methods of values of
// imported types) are listed per goroutine as `externs`: the census stops there (trusted boundary).
//
// Second fact (channel discipline): every loop in reader/controller that receives from a channel, whether it can be
// left before the channel is closed and whether the function then leaves a drain behind or cancels.
//
// go/ast only, no type information; everything not recognised is listed, never dropped.

import (
	"fmt"
	"go/ast"
	"go/token"
	"os"
	"path/filepath"
	"sort"
	"strings"
)

const rgMaxDepth = 4

type rgSite struct {
	kind, fn, text string
	guards         []string
}

type rgPkg struct {
	dir     string
	files   []*ast.File
	rels    []string
	funcs   map[string][]*ast.FuncDecl // bare name → declarations (functions and methods)
	types   map[string]bool            // declared type names
	consts  map[string]bool            // package-level constants
	fileOf  map[*ast.FuncDecl]*ast.File
	imports map[*ast.File]map[string]string // local import name → path
}

var rgBuiltins = map[string]bool{"len": true, "cap": true, "append": true, "copy": true, "delete": true, "new": true,
	"min": true, "max": true, "print": true, "println": true, "recover": true, "clear": true, "complex": true, "real": true, "imag": true}

var rgBuiltinTypes = map[string]bool{"int": true, "int8": true, "int16": true, "int32": true, "int64": true, "uint": true,
	"uint8": true, "uint16": true, "uint32": true, "uint64": true, "uintptr": true, "float32": true, "float64": true,
	"string": true, "byte": true, "rune": true, "bool": true, "error": true, "any": true, "complex64": true, "complex128": true}

func rgLoadPkg(dir string) (*rgPkg, error) {
	files, err := goFiles(dir)
	if err != nil {
		return nil, err
	}
	p := &rgPkg{dir: dir, funcs: map[string][]*ast.FuncDecl{}, types: map[string]bool{}, consts: map[string]bool{},
		fileOf: map[*ast.FuncDecl]*ast.File{}, imports: map[*ast.File]map[string]string{}}
	for _, rel := range files {
		_, f, err := parseFile(rel)
		if err != nil {
			return nil, err
		}
		p.files = append(p.files, f)
		p.rels = append(p.rels, rel)
		im := map[string]string{}
		for _, is := range f.Imports {
			path := strings.Trim(is.Path.Value, "\"`")
			name := path[strings.LastIndex(path, "/")+1:]
			if is.Name != nil {
				name = is.Name.Name
			}
			im[name] = path
		}
		p.imports[f] = im
		for _, d := range f.Decls {
			switch d := d.(type) {
			case *ast.FuncDecl:
				p.funcs[d.Name.Name] = append(p.funcs[d.Name.Name], d)
				p.fileOf[d] = f
			case *ast.GenDecl:
				for _, sp := range d.Specs {
					switch sp := sp.(type) {
					case *ast.TypeSpec:
						p.types[sp.Name.Name] = true
					case *ast.ValueSpec:
						if d.Tok == token.CONST {
							for _, n := range sp.Names {
								p.consts[n.Name] = true
							}
						}
					}
				}
			}
		}
	}
	return p, nil
}

// one walk = one goroutine
type rgWalk struct {
	pk      *rgPkg
	sites   []rgSite
	externs map[string]bool
	visited map[ast.Node]bool
}

type rgScope struct {
	file     *ast.File
	encl     *ast.FuncDecl       // for the lookup of local closures and of declared types of locals
	fn       string              // label of the function the site is in
	depth    int
	rangeKey map[string]string // key identifier → text of the ranged operand, for enclosing range statements
}

func rgText(n ast.Node) string { return rsExprText(token.NewFileSet(), n) }

func (w *rgWalk) site(sc *rgScope, kind string, n ast.Node, guards []string) {
	txt := rgText(n)
	if len(txt) > 160 {
		txt = txt[:160] + "…"
	}
	g := make([]string, len(guards))
	copy(g, guards)
	if kind == "close" {
		if ce, ok := n.(*ast.CallExpr); ok && len(ce.Args) == 1 {
			if c := rgCloseCount(sc.encl, rgText(ce.Args[0])); c == 1 {
				g = append(g, "@sole-close", "sole close of "+rgText(ce.Args[0])+" in "+funcName(sc.encl))
			}
		}
	}
	for _, o := range w.sites {
		if o.kind == kind && o.fn == sc.fn && o.text == txt && strings.Join(o.guards, "\x00") == strings.Join(g, "\x00") {
			return
		}
	}
	w.sites = append(w.sites, rgSite{kind, sc.fn, txt, g})
}

// number of close(<arg>) calls in a declaration (nested literals included)
func rgCloseCount(fd *ast.FuncDecl, arg string) int {
	if fd == nil || fd.Body == nil {
		return 0
	}
	n := 0
	ast.Inspect(fd.Body, func(m ast.Node) bool {
		if ce, ok := m.(*ast.CallExpr); ok && len(ce.Args) == 1 {
			if id, ok := ce.Fun.(*ast.Ident); ok && id.Name == "close" && rgText(ce.Args[0]) == arg {
				n++
			}
		}
		return true
	})
	return n
}

func rgWith(guards []string, g string) []string {
	if len(g) > 120 {
		g = g[:120] + "…"
	}
	res := make([]string, len(guards)+1)
	copy(res, guards)
	res[len(guards)] = g
	return res
}

func (w *rgWalk) isConst(sc *rgScope, e ast.Expr) bool {
	switch e := e.(type) {
	case *ast.BasicLit:
		return true
	case *ast.ParenExpr:
		return w.isConst(sc, e.X)
	case *ast.UnaryExpr:
		return (e.Op == token.SUB || e.Op == token.ADD) && w.isConst(sc, e.X)
	case *ast.BinaryExpr:
		return w.isConst(sc, e.X) && w.isConst(sc, e.Y)
	case *ast.Ident:
		return w.pk.consts[e.Name] && !rgDeclaredLocally(sc.encl, e.Name)
	case *ast.SelectorExpr:
		// time.Second, math.MaxInt64 …: an exported name of an imported package that is not called
		if id, ok := e.X.(*ast.Ident); ok {
			if _, imp := w.pk.imports[sc.file][id.Name]; imp && !rgDeclaredLocally(sc.encl, id.Name) {
				return rgLooksConst(id.Name, e.Sel.Name)
			}
		}
	case *ast.CallExpr:
		// conversion of a constant: int64(10), time.Duration(5)
		if len(e.Args) == 1 && w.isConst(sc, e.Args[0]) {
			if id, ok := e.Fun.(*ast.Ident); ok && rgBuiltinTypes[id.Name] {
				return true
			}
		}
	}
	return false
}

// the library constants the read side divides by / sizes with
func rgLooksConst(pkg, name string) bool {
	switch pkg + "." + name {
	case "time.Nanosecond", "time.Microsecond", "time.Millisecond", "time.Second", "time.Minute", "time.Hour",
		"math.MaxInt64", "math.MaxInt32", "math.MaxUint32":
		return true
	}
	return false
}

// size built from len()/cap() and constants only
func (w *rgWalk) isLenSize(sc *rgScope, e ast.Expr) bool {
	if w.isConst(sc, e) {
		return true
	}
	switch e := e.(type) {
	case *ast.ParenExpr:
		return w.isLenSize(sc, e.X)
	case *ast.CallExpr:
		if id, ok := e.Fun.(*ast.Ident); ok && (id.Name == "len" || id.Name == "cap") {
			return true
		}
	case *ast.BinaryExpr:
		if e.Op == token.ADD || e.Op == token.MUL {
			return w.isLenSize(sc, e.X) && w.isLenSize(sc, e.Y)
		}
	}
	return false
}

// does the enclosing function declare `name` (parameter, receiver, :=, var)? — shadows package-level names
func rgDeclaredLocally(fd *ast.FuncDecl, name string) bool {
	if fd == nil {
		return false
	}
	found := false
	chk := func(fl *ast.FieldList) {
		if fl == nil {
			return
		}
		for _, f := range fl.List {
			for _, n := range f.Names {
				if n.Name == name {
					found = true
				}
			}
		}
	}
	chk(fd.Recv)
	chk(fd.Type.Params)
	chk(fd.Type.Results)
	if fd.Body != nil {
		ast.Inspect(fd.Body, func(n ast.Node) bool {
			switch n := n.(type) {
			case *ast.AssignStmt:
				if n.Tok == token.DEFINE {
					for _, l := range n.Lhs {
						if id, ok := l.(*ast.Ident); ok && id.Name == name {
							found = true
						}
					}
				}
			case *ast.ValueSpec:
				for _, id := range n.Names {
					if id.Name == name {
						found = true
					}
				}
			case *ast.RangeStmt:
				if n.Tok == token.DEFINE {
					for _, l := range []ast.Expr{n.Key, n.Value} {
						if id, ok := l.(*ast.Ident); ok && id.Name == name {
							found = true
						}
					}
				}
			case *ast.FuncLit:
				chk(n.Type.Params)
			}
			return !found
		})
	}
	return found
}

// local closure `name := func…` / `var name = func…` / `name = func…` of the enclosing declaration
func rgLocalClosure(fd *ast.FuncDecl, name string) *ast.FuncLit {
	if fd == nil || fd.Body == nil {
		return nil
	}
	var res *ast.FuncLit
	n := 0
	ast.Inspect(fd.Body, func(m ast.Node) bool {
		switch m := m.(type) {
		case *ast.AssignStmt:
			if len(m.Lhs) == len(m.Rhs) {
				for i, l := range m.Lhs {
					if id, ok := l.(*ast.Ident); ok && id.Name == name {
						if fl, ok := m.Rhs[i].(*ast.FuncLit); ok {
							res = fl
							n++
						} else {
							n += 2 // assigned something that is not a literal: not resolvable
						}
					}
				}
			}
		case *ast.ValueSpec:
			for i, id := range m.Names {
				if id.Name == name && i < len(m.Values) {
					if fl, ok := m.Values[i].(*ast.FuncLit); ok {
						res = fl
						n++
					} else {
						n += 2
					}
				}
			}
		}
		return true
	})
	if n == 1 {
		return res
	}
	return nil
}

// syntactic type of a local / parameter / receiver: "T" (type of this package), "pkg.T" (imported), "" (unknown)
func rgTypeOf(fd *ast.FuncDecl, lit *ast.FuncLit, name string) string {
	typ := func(t ast.Expr) string {
		for {
			switch x := t.(type) {
			case *ast.StarExpr:
				t = x.X
				continue
			case *ast.Ident:
				return x.Name
			case *ast.SelectorExpr:
				if id, ok := x.X.(*ast.Ident); ok {
					return id.Name + "." + x.Sel.Name
				}
			}
			return ""
		}
	}
	res := ""
	chk := func(fl *ast.FieldList) {
		if fl == nil {
			return
		}
		for _, f := range fl.List {
			for _, n := range f.Names {
				if n.Name == name {
					res = typ(f.Type)
				}
			}
		}
	}
	if fd == nil {
		return ""
	}
	chk(fd.Recv)
	chk(fd.Type.Params)
	if fd.Body != nil {
		ast.Inspect(fd.Body, func(n ast.Node) bool {
			switch n := n.(type) {
			case *ast.FuncLit:
				chk(n.Type.Params)
			case *ast.ValueSpec:
				for _, id := range n.Names {
					if id.Name == name && n.Type != nil {
						res = typ(n.Type)
					}
				}
			case *ast.AssignStmt:
				if n.Tok == token.DEFINE && len(n.Lhs) == len(n.Rhs) {
					for i, l := range n.Lhs {
						if id, ok := l.(*ast.Ident); ok && id.Name == name {
							r := n.Rhs[i]
							if u, ok := r.(*ast.UnaryExpr); ok && u.Op == token.AND {
								r = u.X
							}
							if cl, ok := r.(*ast.CompositeLit); ok && cl.Type != nil {
								res = typ(cl.Type)
							}
						}
					}
				}
			}
			return true
		})
	}
	_ = lit
	return res
}

func rgTerminates(b *ast.BlockStmt) bool {
	if b == nil || len(b.List) == 0 {
		return false
	}
	switch s := b.List[len(b.List)-1].(type) {
	case *ast.ReturnStmt:
		return true
	case *ast.BranchStmt:
		return s.Tok == token.CONTINUE || s.Tok == token.BREAK || s.Tok == token.GOTO
	case *ast.ExprStmt:
		if ce, ok := s.X.(*ast.CallExpr); ok {
			if id, ok := ce.Fun.(*ast.Ident); ok && id.Name == "panic" {
				return true
			}
		}
	}
	return false
}

func rgMentions(n ast.Node, name string) bool {
	found := false
	ast.Inspect(n, func(m ast.Node) bool {
		if id, ok := m.(*ast.Ident); ok && id.Name == name {
			found = true
		}
		return !found
	})
	return found
}

// was `name` created as a map (make(map…) / map literal) in the enclosing declaration, and never assigned anything else?
func rgMapMadeLocally(fd *ast.FuncDecl, name string) bool {
	if fd == nil || fd.Body == nil {
		return false
	}
	good, bad := 0, 0
	ast.Inspect(fd.Body, func(m ast.Node) bool {
		as, ok := m.(*ast.AssignStmt)
		if !ok {
			return true
		}
		for i, l := range as.Lhs {
			id, ok := l.(*ast.Ident)
			if !ok || id.Name != name {
				continue
			}
			if len(as.Lhs) != len(as.Rhs) {
				bad++
				continue
			}
			switch r := as.Rhs[i].(type) {
			case *ast.CompositeLit:
				if _, ok := r.Type.(*ast.MapType); ok {
					good++
				} else {
					bad++
				}
			case *ast.CallExpr:
				f, ok := r.Fun.(*ast.Ident)
				if ok && f.Name == "make" && len(r.Args) > 0 {
					if _, ok := r.Args[0].(*ast.MapType); ok {
						good++
						continue
					}
				}
				bad++
			default:
				bad++
			}
		}
		return true
	})
	return good > 0 && bad == 0
}

func (w *rgWalk) block(sc *rgScope, list []ast.Stmt, guards []string) {
	for i, st := range list {
		w.stmt(sc, st, guards, list[i+1:])
		// `if C { …; return }` without else: what follows runs only when C is false
		if is, ok := st.(*ast.IfStmt); ok && is.Else == nil && rgTerminates(is.Body) {
			guards = rgWith(guards, "unless "+rgText(is.Cond))
		}
	}
}

func (w *rgWalk) stmt(sc *rgScope, st ast.Stmt, guards []string, rest []ast.Stmt) {
	switch s := st.(type) {
	case nil:
	case *ast.BlockStmt:
		w.block(sc, s.List, guards)
	case *ast.LabeledStmt:
		w.stmt(sc, s.Stmt, guards, rest)
	case *ast.ExprStmt:
		w.expr(sc, s.X, guards)
	case *ast.IncDecStmt:
		w.lhs(sc, s.X, guards)
	case *ast.SendStmt:
		w.site(sc, "send", s, guards)
		w.expr(sc, s.Chan, guards)
		w.expr(sc, s.Value, guards)
	case *ast.GoStmt:
		// a nested goroutine is an entry of its own; its arguments are evaluated here
		for _, a := range s.Call.Args {
			w.expr(sc, a, guards)
		}
	case *ast.DeferStmt:
		w.call(sc, s.Call, rgWith(guards, "defer"))
	case *ast.ReturnStmt:
		for _, e := range s.Results {
			w.expr(sc, e, guards)
		}
	case *ast.BranchStmt, *ast.EmptyStmt:
	case *ast.DeclStmt:
		if gd, ok := s.Decl.(*ast.GenDecl); ok {
			for _, sp := range gd.Specs {
				if vs, ok := sp.(*ast.ValueSpec); ok {
					w.assign(sc, nil, vs.Values, len(vs.Names), st, guards, rest)
				}
			}
		}
	case *ast.AssignStmt:
		if s.Tok == token.QUO_ASSIGN || s.Tok == token.REM_ASSIGN {
			if !w.isConst(sc, s.Rhs[0]) {
				w.site(sc, "div", s, guards)
			}
		}
		if s.Tok == token.SHL_ASSIGN || s.Tok == token.SHR_ASSIGN {
			if !w.isConst(sc, s.Rhs[0]) {
				w.site(sc, "shift", s, guards)
			}
		}
		for _, l := range s.Lhs {
			w.lhs(sc, l, guards)
		}
		w.assign(sc, s.Lhs, s.Rhs, len(s.Lhs), st, guards, rest)
	case *ast.IfStmt:
		w.stmt(sc, s.Init, guards, nil)
		w.expr(sc, s.Cond, guards)
		c := rgText(s.Cond)
		w.block(sc, s.Body.List, rgWith(guards, "if "+c))
		if s.Else != nil {
			w.stmt(sc, s.Else, rgWith(guards, "else "+c), nil)
		}
	case *ast.ForStmt:
		w.stmt(sc, s.Init, guards, nil)
		g := guards
		if s.Cond != nil {
			w.expr(sc, s.Cond, guards)
			g = rgWith(guards, "for "+rgText(s.Cond))
		} else {
			g = rgWith(guards, "for")
		}
		w.stmt(sc, s.Post, g, nil)
		w.block(sc, s.Body.List, g)
	case *ast.RangeStmt:
		w.expr(sc, s.X, guards)
		head := "range "
		if s.Key != nil {
			head += rgText(s.Key)
			if s.Value != nil {
				head += ", " + rgText(s.Value)
			}
			head += " := "
		}
		head += rgText(s.X)
		saved := sc.rangeKey
		sc.rangeKey = map[string]string{}
		for k, v := range saved {
			sc.rangeKey[k] = v
		}
		if id, ok := s.Key.(*ast.Ident); ok && id.Name != "_" {
			sc.rangeKey[id.Name] = rgText(s.X)
		}
		w.block(sc, s.Body.List, rgWith(guards, head))
		sc.rangeKey = saved
	case *ast.SwitchStmt:
		w.stmt(sc, s.Init, guards, nil)
		tag := ""
		if s.Tag != nil {
			w.expr(sc, s.Tag, guards)
			tag = rgText(s.Tag) + " "
		}
		for _, c := range s.Body.List {
			cc := c.(*ast.CaseClause)
			var vals []string
			for _, e := range cc.List {
				w.expr(sc, e, guards)
				vals = append(vals, rgText(e))
			}
			g := "case " + tag + strings.Join(vals, ", ")
			if cc.List == nil {
				g = "case " + tag + "default"
			}
			w.block(sc, cc.Body, rgWith(guards, g))
		}
	case *ast.TypeSwitchStmt:
		w.stmt(sc, s.Init, guards, nil)
		// x := y.(type): the assertion of a type switch cannot fail
		ast.Inspect(s.Assign, func(n ast.Node) bool {
			if ta, ok := n.(*ast.TypeAssertExpr); ok {
				w.expr(sc, ta.X, guards)
				return false
			}
			return true
		})
		for _, c := range s.Body.List {
			cc := c.(*ast.CaseClause)
			var vals []string
			for _, e := range cc.List {
				vals = append(vals, rgText(e))
			}
			g := "typecase " + strings.Join(vals, ", ")
			if cc.List == nil {
				g = "typecase default"
			}
			w.block(sc, cc.Body, rgWith(guards, g))
		}
	case *ast.SelectStmt:
		var comms []string
		for _, c := range s.Body.List {
			cc := c.(*ast.CommClause)
			if cc.Comm == nil {
				comms = append(comms, "default")
			} else {
				comms = append(comms, rgText(cc.Comm))
			}
		}
		in := rgWith(guards, "select ["+strings.Join(comms, " | ")+"]")
		for _, c := range comms {
			if strings.HasPrefix(c, "<-") && strings.HasSuffix(c, ".Done()") {
				in = rgWith(in, "@select-done") // a send among these alternatives does not block once the context is cancelled
				break
			}
		}
		for _, c := range s.Body.List {
			cc := c.(*ast.CommClause)
			if cc.Comm != nil {
				w.stmt(sc, cc.Comm, in, nil)
			}
			g := "default"
			if cc.Comm != nil {
				g = rgText(cc.Comm)
			}
			w.block(sc, cc.Body, rgWith(guards, "select case "+g))
		}
	default:
		w.site(sc, "dyn", st, rgWith(guards, fmt.Sprintf("statement %T not recognised", st)))
	}
}

// the right-hand sides of an assignment / declaration; the comma-ok forms cannot fault
func (w *rgWalk) assign(sc *rgScope, lhs, rhs []ast.Expr, nl int, st ast.Stmt, guards []string, rest []ast.Stmt) {
	if nl == 2 && len(rhs) == 1 {
		switch r := rhs[0].(type) {
		case *ast.TypeAssertExpr:
			w.expr(sc, r.X, guards)
			return
		case *ast.IndexExpr:
			w.expr(sc, r.X, guards)
			w.expr(sc, r.Index, guards)
			return
		case *ast.UnaryExpr:
			if r.Op == token.ARROW {
				w.expr(sc, r.X, guards)
				return
			}
		}
	}
	for _, r := range rhs {
		w.expr(sc, r, guards)
	}
	// errdrop: `…, err := f(…)` (or `…, _ := f(…)`) whose error is not looked at by the next statement
	if len(rhs) == 1 && nl >= 2 && lhs != nil {
		if _, ok := rhs[0].(*ast.CallExpr); ok {
			last, ok := lhs[len(lhs)-1].(*ast.Ident)
			if ok && (last.Name == "err" || last.Name == "_") {
				looked := false
				if last.Name == "err" && len(rest) > 0 {
					switch nx := rest[0].(type) {
					case *ast.IfStmt:
						looked = rgMentions(nx.Cond, "err")
					case *ast.ReturnStmt:
						looked = rgMentions(nx, "err")
					case *ast.ForStmt:
						looked = nx.Cond != nil && rgMentions(nx.Cond, "err")
					case *ast.SwitchStmt:
						looked = nx.Tag != nil && rgMentions(nx.Tag, "err")
					}
				}
				if last.Name == "err" && len(rest) == 0 && len(guards) > 0 {
					// last statement of a loop body whose condition tests err
					g := guards[len(guards)-1]
					looked = strings.HasPrefix(g, "for ") && strings.Contains(g, "err")
				}
				if !looked {
					w.site(sc, "errdrop", st, guards)
				}
			}
		}
	}
}

// an expression that is assigned to / incremented
func (w *rgWalk) lhs(sc *rgScope, e ast.Expr, guards []string) {
	switch x := e.(type) {
	case *ast.IndexExpr:
		made := false
		if id, ok := x.X.(*ast.Ident); ok {
			made = rgMapMadeLocally(sc.encl, id.Name)
		}
		if !made && !w.rangeKeyed(sc, x) {
			w.site(sc, "store", x, guards)
		}
		w.expr(sc, x.X, guards)
		w.expr(sc, x.Index, guards)
	case *ast.Ident:
	default:
		w.expr(sc, e, guards)
	}
}

func (w *rgWalk) rangeKeyed(sc *rgScope, x *ast.IndexExpr) bool {
	if id, ok := x.Index.(*ast.Ident); ok {
		if over, ok := sc.rangeKey[id.Name]; ok && over == rgText(x.X) {
			return true
		}
	}
	return false
}

func (w *rgWalk) expr(sc *rgScope, e ast.Expr, guards []string) {
	switch x := e.(type) {
	case nil:
	case *ast.Ident, *ast.BasicLit:
	case *ast.ParenExpr:
		w.expr(sc, x.X, guards)
	case *ast.SelectorExpr:
		w.expr(sc, x.X, guards)
	case *ast.IndexExpr:
		made := false
		if id, ok := x.X.(*ast.Ident); ok {
			made = rgMapMadeLocally(sc.encl, id.Name) // reading a map cannot fault
		}
		if !made && !w.rangeKeyed(sc, x) {
			w.site(sc, "index", x, guards)
		}
		w.expr(sc, x.X, guards)
		w.expr(sc, x.Index, guards)
	case *ast.IndexListExpr:
		w.expr(sc, x.X, guards)
	case *ast.SliceExpr:
		w.site(sc, "slice", x, guards)
		w.expr(sc, x.X, guards)
		w.expr(sc, x.Low, guards)
		w.expr(sc, x.High, guards)
		w.expr(sc, x.Max, guards)
	case *ast.TypeAssertExpr:
		if x.Type != nil {
			w.site(sc, "assert", x, guards)
		}
		w.expr(sc, x.X, guards)
	case *ast.StarExpr:
		w.site(sc, "deref", x, guards)
		w.expr(sc, x.X, guards)
	case *ast.UnaryExpr:
		w.expr(sc, x.X, guards)
	case *ast.BinaryExpr:
		w.expr(sc, x.X, guards)
		switch x.Op {
		case token.LAND:
			w.expr(sc, x.Y, rgWith(guards, "if "+rgText(x.X)))
			return
		case token.LOR:
			w.expr(sc, x.Y, rgWith(guards, "else "+rgText(x.X)))
			return
		case token.QUO, token.REM:
			if !w.isConst(sc, x.Y) {
				w.site(sc, "div", x, guards)
			}
		case token.SHL, token.SHR:
			if !w.isConst(sc, x.Y) {
				w.site(sc, "shift", x, guards)
			}
		}
		w.expr(sc, x.Y, guards)
	case *ast.KeyValueExpr:
		w.expr(sc, x.Value, guards)
	case *ast.CompositeLit:
		for _, el := range x.Elts {
			w.expr(sc, el, guards)
		}
	case *ast.FuncLit:
		// a literal that is not applied here: a callback or a stored closure. A stored closure is walked where it is
		// called; a callback (argument) is walked by call()
	case *ast.CallExpr:
		w.call(sc, x, guards)
	case *ast.ArrayType, *ast.MapType, *ast.ChanType, *ast.FuncType, *ast.StructType, *ast.InterfaceType, *ast.Ellipsis:
	default:
		w.site(sc, "dyn", e, rgWith(guards, fmt.Sprintf("expression %T not recognised", e)))
	}
}

func (w *rgWalk) enter(sc *rgScope, label string, file *ast.File, encl *ast.FuncDecl, body *ast.BlockStmt, key ast.Node, guards []string, callee ast.Node) {
	if w.visited[key] {
		return
	}
	if sc.depth+1 > rgMaxDepth {
		w.site(sc, "depth", callee, guards)
		return
	}
	w.visited[key] = true
	inner := &rgScope{file: file, encl: encl, fn: label, depth: sc.depth + 1, rangeKey: map[string]string{}}
	w.block(inner, body.List, nil)
}

func (w *rgWalk) call(sc *rgScope, ce *ast.CallExpr, guards []string) {
	args := func() {
		for _, a := range ce.Args {
			if fl, ok := a.(*ast.FuncLit); ok {
				// callback: runs on this stack whenever the callee calls it
				saved := sc.rangeKey
				w.block(sc, fl.Body.List, rgWith(guards, "callback of "+rgText(ce.Fun)))
				sc.rangeKey = saved
				continue
			}
			w.expr(sc, a, guards)
		}
	}
	switch f := ce.Fun.(type) {
	case *ast.ParenExpr:
		// (T)(x) conversion or (f)(x)
		args()
		return
	case *ast.ArrayType:
		if f.Len != nil {
			w.site(sc, "conv", ce, guards)
		}
		args()
		return
	case *ast.MapType, *ast.ChanType, *ast.FuncType, *ast.InterfaceType, *ast.StarExpr:
		args()
		return
	case *ast.FuncLit:
		args()
		w.block(sc, f.Body.List, guards)
		return
	case *ast.Ident:
		local := rgDeclaredLocally(sc.encl, f.Name)
		switch {
		case !local && f.Name == "make":
			for _, a := range ce.Args[1:] {
				if !w.isLenSize(sc, a) {
					w.site(sc, "make", ce, guards)
					break
				}
			}
			for _, a := range ce.Args[1:] {
				w.expr(sc, a, guards)
			}
			return
		case !local && f.Name == "panic":
			w.site(sc, "panic", ce, guards)
			args()
			return
		case !local && f.Name == "close":
			w.site(sc, "close", ce, guards)
			args()
			return
		case !local && rgBuiltins[f.Name]:
			args()
			return
		case !local && (rgBuiltinTypes[f.Name] || w.pk.types[f.Name]):
			args() // conversion
			return
		}
		args()
		if local {
			if fl := rgLocalClosure(sc.encl, f.Name); fl != nil {
				w.enter(sc, sc.fn+"/"+f.Name, sc.file, sc.encl, fl.Body, fl, guards, ce.Fun)
				return
			}
			w.site(sc, "dyn", ce.Fun, guards)
			return
		}
		if fds := w.pk.funcs[f.Name]; len(fds) > 0 {
			n := 0
			for _, fd := range fds {
				if fd.Recv == nil && fd.Body != nil {
					w.enter(sc, funcName(fd), w.pk.fileOf[fd], fd, fd.Body, fd, guards, ce.Fun)
					n++
				}
			}
			if n > 0 {
				return
			}
		}
		w.site(sc, "dyn", ce.Fun, guards)
		return
	case *ast.SelectorExpr:
		args()
		if id, ok := f.X.(*ast.Ident); ok && !rgDeclaredLocally(sc.encl, id.Name) {
			if _, imp := w.pk.imports[sc.file][id.Name]; imp {
				w.externs[id.Name+"."+f.Sel.Name] = true
				return
			}
		}
		w.expr(sc, f.X, guards)
		// method call on a value
		typ := ""
		if id, ok := f.X.(*ast.Ident); ok {
			typ = rgTypeOf(sc.encl, nil, id.Name)
		}
		if strings.Contains(typ, ".") {
			w.externs["("+typ+")."+f.Sel.Name] = true
			return
		}
		var cands []*ast.FuncDecl
		for _, fd := range w.pk.funcs[f.Sel.Name] {
			if fd.Recv == nil || fd.Body == nil {
				continue
			}
			if typ != "" && w.pk.types[typ] {
				if !strings.HasPrefix(funcName(fd), typ+".") {
					continue
				}
			}
			cands = append(cands, fd)
		}
		if typ != "" && w.pk.types[typ] && len(cands) > 0 {
			for _, fd := range cands {
				w.enter(sc, funcName(fd), w.pk.fileOf[fd], fd, fd.Body, fd, guards, ce.Fun)
			}
			return
		}
		// type not known: a method of an imported type or an interface; listed, and any same-package method of
		// that name is walked as well
		w.externs["?."+f.Sel.Name] = true
		for _, fd := range cands {
			w.enter(sc, funcName(fd), w.pk.fileOf[fd], fd, fd.Body, fd, guards, ce.Fun)
		}
		return
	default:
		args()
		w.expr(sc, ce.Fun, guards)
		w.site(sc, "dyn", ce.Fun, guards)
	}
}

func rgLeanList(xs []string) string {
	parts := make([]string, len(xs))
	for i, x := range xs {
		parts[i] = leanStr(x)
	}
	return "[" + strings.Join(parts, ", ") + "]"
}

func rgDirs(root string) ([]string, error) {
	var dirs []string
	err := filepath.Walk(filepath.Join(repo, root), func(path string, info os.FileInfo, err error) error {
		if err != nil {
			return err
		}
		if info.IsDir() {
			rel, _ := filepath.Rel(repo, path)
			dirs = append(dirs, rel)
		}
		return nil
	})
	sort.Strings(dirs)
	return dirs, err
}

func init() {
	register("ReadGoroutines", func() (string, error) {
		var sb strings.Builder
		sb.WriteString("namespace Qryn.Gen.ReadGoroutines\n")
		dirs, err := rgDirs("reader")
		if err != nil {
			return "", err
		}
		type entry struct {
			name, shape string
			recovers    bool
			sites       []rgSite
			externs     []string
		}
		var entries []entry
		for _, d := range dirs {
			pk, err := rgLoadPkg(d)
			if err != nil {
				return "", err
			}
			for fi, f := range pk.files {
				rel := strings.TrimPrefix(pk.rels[fi], "reader/")
				for _, decl := range f.Decls {
					fd, ok := decl.(*ast.FuncDecl)
					if !ok || fd.Body == nil {
						continue
					}
					k := 0
					var failure error
					ast.Inspect(fd.Body, func(n ast.Node) bool {
						gs, ok := n.(*ast.GoStmt)
						if !ok {
							return true
						}
						k++
						e := entry{name: fmt.Sprintf("%s:%s#%d", rel, funcName(fd), k)}
						w := &rgWalk{pk: pk, externs: map[string]bool{}, visited: map[ast.Node]bool{}}
						sc := &rgScope{file: f, encl: fd, fn: funcName(fd) + fmt.Sprintf("#%d", k), depth: 0, rangeKey: map[string]string{}}
						switch fn := gs.Call.Fun.(type) {
						case *ast.FuncLit:
							e.shape = "lit"
							e.recovers = recovers(fn.Body)
							w.visited[fn] = true
							w.block(sc, fn.Body.List, nil)
						default:
							target, recvTyp := "", ""
							switch fn := fn.(type) {
							case *ast.SelectorExpr:
								target = fn.Sel.Name
								if id, ok := fn.X.(*ast.Ident); ok {
									if _, imp := pk.imports[f][id.Name]; imp && !rgDeclaredLocally(fd, id.Name) {
										failure = fmt.Errorf("%s: `go %s` starts a function of another package: not followed", e.name, rgText(fn))
										return true
									}
									recvTyp = rgTypeOf(fd, nil, id.Name)
								}
							case *ast.Ident:
								target = fn.Name
							}
							e.shape = "call " + target
							var cands []*ast.FuncDecl
							for _, c := range pk.funcs[target] {
								if c.Body == nil {
									continue
								}
								if _, isSel := gs.Call.Fun.(*ast.SelectorExpr); isSel != (c.Recv != nil) {
									continue
								}
								if recvTyp != "" && pk.types[recvTyp] && !strings.HasPrefix(funcName(c), recvTyp+".") {
									continue
								}
								cands = append(cands, c)
							}
							if len(cands) != 1 {
								failure = fmt.Errorf("%s: `go %s`: %d candidate declarations in the package", e.name, rgText(gs.Call.Fun), len(cands))
								return true
							}
							c := cands[0]
							e.recovers = recovers(c.Body)
							w.visited[c] = true
							inner := &rgScope{file: pk.fileOf[c], encl: c, fn: funcName(c), depth: 0, rangeKey: map[string]string{}}
							w.block(inner, c.Body.List, nil)
						}
						for _, a := range gs.Call.Args {
							_ = a // evaluated by the goroutine that executes the go statement
						}
						if e.recovers {
							// a fault is caught: only the channel operations matter (who sends, who closes)
							for _, st := range w.sites {
								if st.kind == "send" || st.kind == "close" {
									e.sites = append(e.sites, st)
								}
							}
						} else {
							e.sites = w.sites
							for x := range w.externs {
								e.externs = append(e.externs, x)
							}
						}
						sort.Strings(e.externs)
						entries = append(entries, e)
						return true
					})
					if failure != nil {
						return "", failure
					}
				}
			}
		}
		if len(entries) == 0 {
			return "", fmt.Errorf("no go statement found under reader/")
		}
		sb.WriteString("/-- (goroutine, shape, recovers, fault sites (kind, function, source text, dominating conditions), library calls).\n")
		sb.WriteString("    Of a goroutine that recovers only the channel operations (send, close) in reach are listed. -/\n")
		sb.WriteString("def goroutines : List (String × String × Bool × List (String × String × String × List String) × List String) :=\n  [")
		for i, e := range entries {
			if i > 0 {
				sb.WriteString(",\n   ")
			}
			sb.WriteString(fmt.Sprintf("(%s, %s, %v,\n    [", leanStr(e.name), leanStr(e.shape), e.recovers))
			for j, s := range e.sites {
				if j > 0 {
					sb.WriteString(",\n     ")
				}
				sb.WriteString(fmt.Sprintf("(%s, %s, %s, %s)", leanStr(s.kind), leanStr(s.fn), leanStr(s.text), rgLeanList(s.guards)))
			}
			sb.WriteString("],\n    " + rgLeanList(e.externs) + ")")
		}
		sb.WriteString("]\n\n")
		union := map[string]bool{}
		for _, e := range entries {
			if !e.recovers {
				for _, x := range e.externs {
					union[x] = true
				}
			}
		}
		var us []string
		for x := range union {
			us = append(us, x)
		}
		sort.Strings(us)
		sb.WriteString("/-- every library function / method of a value of unknown type called on the stack of an un-recovered goroutine -/\n")
		sb.WriteString("def externsUnion : List String :=\n  [" + strings.Join(func() []string {
			r := make([]string, len(us))
			for i, x := range us {
				r[i] = leanStr(x)
			}
			return r
		}(), ",\n   ") + "]\n\n")

		// ---- the handlers' receive loops
		loops, err := rgHandlerLoops()
		if err != nil {
			return "", err
		}
		sb.WriteString("/-- every loop of reader/controller that receives from a channel:\n")
		sb.WriteString("    (handler, loop, can be left by return/break/goto/panic before the channel is closed, the function leaves a drain\n    behind, it cancels, the functions called in the loop body) -/\n")
		sb.WriteString("def handlerLoops : List (String × String × Bool × Bool × Bool × List String) :=\n  [" + strings.Join(loops, ",\n   ") + "]\n\n")
		// ---- the typed census (go/types + SSA + call graph): readtyped*.go
		typed, err := rtBuild()
		if err != nil {
			return "", fmt.Errorf("typed census: %v", err)
		}
		sb.WriteString(typed.lean())
		sb.WriteString("\n")
		sb.WriteString(typed.leanLoops())
		sb.WriteString("end Qryn.Gen.ReadGoroutines\n")
		return sb.String(), nil
	})
}

// the functions called in a loop body (conversions to []byte / string left out), sorted
func rgLoopCalls(body *ast.BlockStmt) string {
	set := map[string]bool{}
	ast.Inspect(body, func(n ast.Node) bool {
		if ce, ok := n.(*ast.CallExpr); ok {
			switch f := ce.Fun.(type) {
			case *ast.ArrayType, *ast.MapType:
				return true
			case *ast.Ident:
				if rgBuiltinTypes[f.Name] {
					return true
				}
			}
			set[rgText(ce.Fun)] = true
		}
		return true
	})
	var xs []string
	for x := range set {
		xs = append(xs, x)
	}
	sort.Strings(xs)
	return rgLeanList(xs)
}

// rgHandlerLoops: `for x := range ch` over a channel and `for { select { case x := <-ch … } }` in reader/controller
func rgHandlerLoops() ([]string, error) {
	files, err := goFiles("reader/controller")
	if err != nil {
		return nil, err
	}
	var res []string
	for _, rel := range files {
		_, f, err := parseFile(rel)
		if err != nil {
			return nil, err
		}
		for _, decl := range f.Decls {
			fd, ok := decl.(*ast.FuncDecl)
			if !ok || fd.Body == nil {
				continue
			}
			// identifiers that hold a channel: first result of a two-result call (`ch, err := svc.F(…)`), a make(chan …),
			// a parameter of channel type
			chans := map[string]bool{}
			if fd.Type.Params != nil {
				for _, p := range fd.Type.Params.List {
					if _, ok := p.Type.(*ast.ChanType); ok {
						for _, n := range p.Names {
							chans[n.Name] = true
						}
					}
				}
			}
			slices := map[string]bool{}
			ast.Inspect(fd.Body, func(n ast.Node) bool {
				switch n := n.(type) {
				case *ast.AssignStmt:
					if len(n.Lhs) == 2 && len(n.Rhs) == 1 {
						if _, ok := n.Rhs[0].(*ast.CallExpr); ok {
							if id, ok := n.Lhs[0].(*ast.Ident); ok {
								chans[id.Name] = true
							}
						}
					}
					if len(n.Lhs) == 1 && len(n.Rhs) == 1 {
						if ce, ok := n.Rhs[0].(*ast.CallExpr); ok {
							if id, ok := ce.Fun.(*ast.Ident); ok && id.Name == "make" && len(ce.Args) > 0 {
								if lid, ok := n.Lhs[0].(*ast.Ident); ok {
									if _, ok := ce.Args[0].(*ast.ChanType); ok {
										chans[lid.Name] = true
									} else {
										slices[lid.Name] = true
									}
								}
							}
						}
					}
				case *ast.RangeStmt:
					// the element variable of a range over a channel of slices is a slice
					if n.Value == nil {
						if id, ok := n.Key.(*ast.Ident); ok {
							if x, ok := n.X.(*ast.Ident); ok && chans[x.Name] {
								slices[id.Name] = true
							}
						}
					}
				}
				return true
			})
			// what the function leaves behind when it returns: a deferred drain / a deferred cancel or Close
			drains, cancels := false, false
			ast.Inspect(fd.Body, func(n ast.Node) bool {
				ds, ok := n.(*ast.DeferStmt)
				if !ok {
					return true
				}
				ast.Inspect(ds.Call, func(m ast.Node) bool {
					if rs, ok := m.(*ast.RangeStmt); ok && len(rs.Body.List) == 0 {
						drains = true
					}
					return true
				})
				switch fn := ds.Call.Fun.(type) {
				case *ast.Ident:
					if fn.Name == "cancel" {
						cancels = true
					}
				case *ast.SelectorExpr:
					if fn.Sel.Name == "Close" || fn.Sel.Name == "Cancel" {
						if id, ok := fn.X.(*ast.Ident); ok && id.Name == "watcher" {
							cancels = true
						}
					}
				}
				return true
			})
			k := 0
			var failure error
			var visit func(n ast.Node) bool
			leaves := func(body *ast.BlockStmt, isSelectLoop bool) bool {
				early := false
				var walk func(n ast.Node, depth int)
				walk = func(n ast.Node, depth int) {
					ast.Inspect(n, func(m ast.Node) bool {
						if m == nil || m == n {
							return true
						}
						switch m := m.(type) {
						case *ast.FuncLit:
							return false
						case *ast.ReturnStmt:
							early = true
						case *ast.BranchStmt:
							if m.Tok == token.GOTO || m.Label != nil {
								early = true
							}
							if m.Tok == token.BREAK && depth == 0 {
								early = true
							}
						case *ast.ForStmt:
							walk(m.Body, depth+1)
							return false
						case *ast.RangeStmt:
							walk(m.Body, depth+1)
							return false
						case *ast.SwitchStmt:
							walk(m.Body, depth+1)
							return false
						case *ast.TypeSwitchStmt:
							walk(m.Body, depth+1)
							return false
						case *ast.SelectStmt:
							walk(m.Body, depth+1)
							return false
						case *ast.CallExpr:
							if id, ok := m.Fun.(*ast.Ident); ok && id.Name == "panic" {
								early = true
							}
						}
						return true
					})
				}
				walk(body, 0)
				return early
			}
			visit = func(n ast.Node) bool {
				switch s := n.(type) {
				case *ast.FuncLit:
					return false
				case *ast.RangeStmt:
					x, isId := s.X.(*ast.Ident)
					switch {
					case s.Value != nil:
						return true // two iteration variables: not a channel
					case isId && chans[x.Name]:
						k++
						res = append(res, fmt.Sprintf("(%s, %s, %v, %v, %v, %s)", leanStr(funcName(fd)), leanStr(fmt.Sprintf("#%d range %s", k, x.Name)),
							leaves(s.Body, false), drains, cancels, rgLoopCalls(s.Body)))
					case isId && slices[x.Name]:
					case s.Key == nil:
					default:
						if _, isCall := s.X.(*ast.CallExpr); isCall {
							// `for range watcher.GetRes() {}` and the like
							k++
							res = append(res, fmt.Sprintf("(%s, %s, %v, %v, %v, %s)", leanStr(funcName(fd)), leanStr(fmt.Sprintf("#%d range %s", k, rgText(s.X))),
								leaves(s.Body, false), drains, cancels, rgLoopCalls(s.Body)))
							return true
						}
						if _, isComp := s.X.(*ast.CompositeLit); isComp {
							return true
						}
						failure = fmt.Errorf("%s: cannot tell whether `for %s := range %s` ranges over a channel", funcName(fd), rgText(s.Key), rgText(s.X))
					}
				case *ast.ForStmt:
					if s.Cond == nil && len(s.Body.List) == 1 {
						if sel, ok := s.Body.List[0].(*ast.SelectStmt); ok {
							recv := ""
							for _, c := range sel.Body.List {
								cc := c.(*ast.CommClause)
								if cc.Comm == nil {
									continue
								}
								ast.Inspect(cc.Comm, func(m ast.Node) bool {
									if u, ok := m.(*ast.UnaryExpr); ok && u.Op == token.ARROW {
										t := rgText(u.X)
										if !strings.HasSuffix(t, ".Done()") && !strings.HasSuffix(t, ".C") {
											recv = t
										}
									}
									return true
								})
							}
							if recv != "" {
								k++
								res = append(res, fmt.Sprintf("(%s, %s, %v, %v, %v, %s)", leanStr(funcName(fd)), leanStr(fmt.Sprintf("#%d select <-%s", k, recv)),
									leaves(s.Body, true), drains, cancels, rgLoopCalls(s.Body)))
							}
						}
					}
				}
				return true
			}
			ast.Inspect(fd.Body, visit)
			if failure != nil {
				return nil, failure
			}
		}
	}
	if len(res) == 0 {
		return nil, fmt.Errorf("no receive loop found in reader/controller")
	}
	return res, nil
}
