package main

import (
	"fmt"
	"go/ast"
	"go/token"
	"sort"
	"strings"
)

// Gen.Tables: the table names registered in reader/utils/tables/tables.go (init) and the cluster naming
// scheme of PopulateTableNames (suffix `_dist`, prefix "`db`.").
func init() {
	register("Tables", func() (string, error) {
		_, f, err := parseFile("reader/utils/tables/tables.go")
		if err != nil {
			return "", err
		}
		var names []string
		for _, d := range f.Decls {
			fd, ok := d.(*ast.FuncDecl)
			if !ok || fd.Name.Name != "init" {
				continue
			}
			ast.Inspect(fd.Body, func(n ast.Node) bool {
				as, ok := n.(*ast.AssignStmt)
				if !ok || len(as.Lhs) != 1 || len(as.Rhs) != 1 || as.Tok != token.ASSIGN {
					return true
				}
				ix, ok := as.Lhs[0].(*ast.IndexExpr)
				if !ok {
					return true
				}
				if id, ok := ix.X.(*ast.Ident); !ok || id.Name != "tableNames" {
					return true
				}
				k, ok1 := strLit(ix.Index)
				v, ok2 := strLit(as.Rhs[0])
				if ok1 && ok2 && k == v {
					names = append(names, v)
				} else {
					names = append(names, "?"+k)
				}
				return true
			})
		}
		if len(names) == 0 {
			return "", fmt.Errorf("no tableNames[...] assignments found in init()")
		}
		for _, n := range names {
			if strings.HasPrefix(n, "?") {
				return "", fmt.Errorf("table %s is not registered under its own name", n[1:])
			}
		}
		sort.Strings(names)
		// cluster scheme: every Sprintf format in PopulateTableNames must be "`%s`.%s" or "`%s`.%s_dist"
		pf := findFunc(f, "", "PopulateTableNames")
		if pf == nil {
			return "", fmt.Errorf("PopulateTableNames not found")
		}
		bad := ""
		ast.Inspect(pf.Body, func(n ast.Node) bool {
			ce, ok := n.(*ast.CallExpr)
			if !ok {
				return true
			}
			se, ok := ce.Fun.(*ast.SelectorExpr)
			if !ok || se.Sel.Name != "Sprintf" || len(ce.Args) == 0 {
				return true
			}
			if s, ok := strLit(ce.Args[0]); ok && s != "`%s`.%s" && s != "`%s`.%s_dist" {
				bad = s
			}
			return true
		})
		if bad != "" {
			return "", fmt.Errorf("unexpected cluster table name format %q", bad)
		}
		s := "namespace Qryn.Gen\n/-- base table names registered by the reader (cluster layout: \"`db`.<name>\" or \"`db`.<name>_dist\") -/\ndef tableNames : List String :=\n  ["
		for i, n := range names {
			if i > 0 {
				s += ", "
			}
			s += leanStr(n)
		}
		s += "]\nend Qryn.Gen\n"
		return s, nil
	})
}
