package main

import (
	"fmt"
	"go/ast"
	"go/parser"
	"go/token"
	"os"
	"path/filepath"
	"sort"
	"strings"
)

// Gen.DateSites: every place in the reader where a date bound is rendered (`X.Format("2006-01-02")`), with
// whether X is normalised to UTC (`….UTC()` or `….UTC().Add(…)`), and every use of FormatFromDate with the
// END of a window (which renders end − 30 min: not a valid upper bound).
func init() {
	register("DateSites", func() (string, error) {
		root := filepath.Join(repo, "reader")
		type site struct {
			where string
			utc   bool
		}
		var sites []site
		var fromDateOfTo []string
		err := filepath.Walk(root, func(p string, info os.FileInfo, err error) error {
			if err != nil || info.IsDir() || !strings.HasSuffix(p, ".go") || strings.HasSuffix(p, "_test.go") {
				return err
			}
			fset := token.NewFileSet()
			f, perr := parser.ParseFile(fset, p, nil, 0)
			if perr != nil {
				return nil // files that do not parse are not part of the build either
			}
			rel, _ := filepath.Rel(repo, p)
			ast.Inspect(f, func(n ast.Node) bool {
				ce, ok := n.(*ast.CallExpr)
				if !ok {
					return true
				}
				if se, ok := ce.Fun.(*ast.SelectorExpr); ok && se.Sel.Name == "Format" && len(ce.Args) == 1 {
					if s, ok := strLit(ce.Args[0]); ok && s == "2006-01-02" {
						sites = append(sites, site{fmt.Sprintf("%s:%s", rel, dsExprText(se.X)), isUTC(se.X)})
					}
				}
				name := ""
				switch fn := ce.Fun.(type) {
				case *ast.Ident:
					name = fn.Name
				case *ast.SelectorExpr:
					name = fn.Sel.Name
				}
				if name == "FormatFromDate" && len(ce.Args) == 1 {
					t := dsExprText(ce.Args[0])
					if strings.HasSuffix(t, ".To") || strings.HasSuffix(t, "To") || strings.Contains(strings.ToLower(t), "end") {
						fromDateOfTo = append(fromDateOfTo, fmt.Sprintf("%s:%s", rel, t))
					}
				}
				return true
			})
			return nil
		})
		if err != nil {
			return "", err
		}
		if len(sites) == 0 {
			return "", fmt.Errorf("no date rendering site found")
		}
		sort.Slice(sites, func(i, j int) bool { return sites[i].where < sites[j].where })
		sort.Strings(fromDateOfTo)
		s := "namespace Qryn.Gen\n/-- (file:receiver, receiver is normalised to UTC) for every `Format(\"2006-01-02\")` in reader/ -/\ndef dateSites : List (String × Bool) :=\n  ["
		for i, x := range sites {
			if i > 0 {
				s += ",\n   "
			}
			s += fmt.Sprintf("(%s, %v)", leanStr(x.where), x.utc)
		}
		s += "]\n/-- uses of FormatFromDate on the end of a window -/\ndef fromDateOfEnd : List String := ["
		for i, x := range fromDateOfTo {
			if i > 0 {
				s += ", "
			}
			s += leanStr(x)
		}
		s += "]\nend Qryn.Gen\n"
		return s, nil
	})
}

func dsExprText(e ast.Expr) string {
	switch x := e.(type) {
	case *ast.Ident:
		return x.Name
	case *ast.SelectorExpr:
		return dsExprText(x.X) + "." + x.Sel.Name
	case *ast.CallExpr:
		return dsExprText(x.Fun) + "(…)"
	default:
		return "?"
	}
}

// isUTC: the receiver chain contains a call to .UTC()
func isUTC(e ast.Expr) bool {
	switch x := e.(type) {
	case *ast.CallExpr:
		if se, ok := x.Fun.(*ast.SelectorExpr); ok {
			if se.Sel.Name == "UTC" {
				return true
			}
			return isUTC(se.X)
		}
	case *ast.SelectorExpr:
		return isUTC(x.X)
	}
	return false
}
