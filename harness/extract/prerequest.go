package main

import (
	"fmt"
	"go/ast"
	"go/parser"
	"go/token"
	"os"
	"path/filepath"
	"sort"
	"strings"
)

// Gen.PreRequest: the decision structure of the ingest pre-request middleware (writer/controller/middleware.go)
// that the C05 model `Qryn.Ingest.PreRequest` is parameterised by.
//
//   - withUnsnappyRequest: the order of the third-party calls and size guards (io.ReadAll, snappy.DecodedLen,
//     the comparison with its constant, snappy.Decode), the constant, and which buffer becomes "bodyStream" on
//     error / on success;
//   - WithOverallContextMiddleware: the cases of `switch r.Header.Get("Content-Encoding")` with what each does to
//     r.Body, and the status of the default case;
//   - every io.ReadAll / ioutil.ReadAll call site under writer/controller and writer/utils/unmarshal with the
//     reader it drains.
//
// Fails closed: any statement shape that is not recognised is an error (the fact is then not written and every
// theorem importing it is a broken obligation).

type preEvent struct {
	pos  token.Pos
	text string
}

// varInit returns the initialiser expression of the package-level `var name = …`.
func varInit(f *ast.File, name string) ast.Expr {
	for _, d := range f.Decls {
		gd, ok := d.(*ast.GenDecl)
		if !ok || gd.Tok != token.VAR {
			continue
		}
		for _, sp := range gd.Specs {
			vs := sp.(*ast.ValueSpec)
			for i, n := range vs.Names {
				if n.Name == name && i < len(vs.Values) {
					return vs.Values[i]
				}
			}
		}
	}
	return nil
}

// preRequestFunc returns the function literal of `var name = WithPreRequest(func(w, r) error {…})`.
func preRequestFunc(f *ast.File, name string) (*ast.FuncLit, error) {
	init := varInit(f, name)
	call, ok := init.(*ast.CallExpr)
	if !ok || exprText(call.Fun) != "WithPreRequest" || len(call.Args) != 1 {
		return nil, fmt.Errorf("%s is not `WithPreRequest(func …)`", name)
	}
	fl, ok := call.Args[0].(*ast.FuncLit)
	if !ok {
		return nil, fmt.Errorf("%s: the argument of WithPreRequest is not a function literal", name)
	}
	return fl, nil
}

// constIntIn evaluates an integer constant expression; identifiers are looked up among the file's constants.
func constIntIn(f *ast.File, e ast.Expr) (int64, bool) {
	if v, ok := constInt(e); ok {
		return v, true
	}
	switch x := e.(type) {
	case *ast.Ident:
		for _, d := range f.Decls {
			gd, ok := d.(*ast.GenDecl)
			if !ok || gd.Tok != token.CONST {
				continue
			}
			for _, sp := range gd.Specs {
				vs := sp.(*ast.ValueSpec)
				for i, n := range vs.Names {
					if n.Name == x.Name && i < len(vs.Values) {
						return constIntIn(f, vs.Values[i])
					}
				}
			}
		}
	case *ast.ParenExpr:
		return constIntIn(f, x.X)
	case *ast.BinaryExpr:
		a, ok1 := constIntIn(f, x.X)
		b, ok2 := constIntIn(f, x.Y)
		if ok1 && ok2 {
			switch x.Op {
			case token.ADD:
				return a + b, true
			case token.SUB:
				return a - b, true
			case token.MUL:
				return a * b, true
			case token.SHL:
				return a << uint(b), true
			}
		}
	}
	return 0, false
}

func hasReturn(b *ast.BlockStmt) bool {
	found := false
	ast.Inspect(b, func(n ast.Node) bool {
		if _, ok := n.(*ast.FuncLit); ok {
			return false
		}
		if _, ok := n.(*ast.ReturnStmt); ok {
			found = true
		}
		return true
	})
	return found
}

// unsnappyFacts reads withUnsnappyRequest.
func unsnappyFacts(f *ast.File) (order []string, limit int64, onErr, onOk string, err error) {
	fl, err := preRequestFunc(f, "withUnsnappyRequest")
	if err != nil {
		return nil, 0, "", "", err
	}
	// which variable holds what: assigned from which call
	from := map[string]string{} // variable -> "ReadAll" | "DecodedLen" | "Decode"
	var events []preEvent
	limit = -1
	var ferr error
	fail := func(format string, a ...any) {
		if ferr == nil {
			ferr = fmt.Errorf("withUnsnappyRequest: "+format, a...)
		}
	}
	ast.Inspect(fl.Body, func(n ast.Node) bool {
		switch x := n.(type) {
		case *ast.AssignStmt:
			if len(x.Rhs) == 1 {
				if call, ok := x.Rhs[0].(*ast.CallExpr); ok {
					kind := ""
					switch exprText(call.Fun) {
					case "io.ReadAll", "ioutil.ReadAll":
						kind = "ReadAll"
						if len(call.Args) != 1 || exprText(call.Args[0]) != "r.Body" {
							fail("ReadAll of something else than r.Body")
						}
					case "snappy.DecodedLen":
						kind = "DecodedLen"
						if len(call.Args) != 1 || from[exprText(call.Args[0])] != "ReadAll" {
							fail("snappy.DecodedLen is not applied to the buffer read from r.Body")
						}
					case "snappy.Decode":
						kind = "Decode"
						if len(call.Args) != 2 || exprText(call.Args[0]) != "nil" || from[exprText(call.Args[1])] != "ReadAll" {
							fail("snappy.Decode is not `snappy.Decode(nil, <buffer read from r.Body>)`")
						}
					}
					if kind != "" {
						if id, ok := x.Lhs[0].(*ast.Ident); ok {
							from[id.Name] = kind
						}
						events = append(events, preEvent{call.Pos(), kind})
					}
				}
			}
		case *ast.CallExpr:
			// any other use of the snappy package or of a reader is outside the recognised shape
			t := exprText(x.Fun)
			if strings.HasPrefix(t, "snappy.") && t != "snappy.DecodedLen" && t != "snappy.Decode" {
				fail("unexpected call %s", t)
			}
		case *ast.IfStmt:
			be, ok := x.Cond.(*ast.BinaryExpr)
			if !ok {
				return true
			}
			if be.Op == token.NEQ || be.Op == token.EQL {
				return true // `err != nil`
			}
			if be.Op != token.GTR {
				fail("a comparison other than `>` (%s)", be.Op)
				return true
			}
			v, ok := constIntIn(f, be.Y)
			if !ok {
				fail("the right-hand side of the size guard is not an integer constant")
				return true
			}
			what := ""
			if id, ok := be.X.(*ast.Ident); ok && from[id.Name] == "DecodedLen" {
				what = "declared"
			} else if call, ok := be.X.(*ast.CallExpr); ok && exprText(call.Fun) == "len" && len(call.Args) == 1 {
				switch from[exprText(call.Args[0])] {
				case "Decode":
					what = "decoded"
				case "ReadAll":
					what = "compressed"
				}
			}
			if what == "" {
				fail("a size guard on an unrecognised quantity")
				return true
			}
			if !hasReturn(x.Body) {
				fail("the size guard does not return")
			}
			if limit >= 0 && limit != v {
				fail("two different limits")
			}
			limit = v
			events = append(events, preEvent{x.Pos(), what + ">limit"})
		}
		return true
	})
	if ferr != nil {
		return nil, 0, "", "", ferr
	}
	sort.Slice(events, func(i, j int) bool { return events[i].pos < events[j].pos })
	seen := map[string]int{}
	for _, e := range events {
		order = append(order, e.text)
		seen[e.text]++
	}
	if seen["ReadAll"] != 1 || seen["Decode"] != 1 || len(order) == 0 || order[0] != "ReadAll" {
		return nil, 0, "", "", fmt.Errorf("withUnsnappyRequest: expected one io.ReadAll(r.Body) first and one snappy.Decode, found %v", order)
	}
	if limit < 0 {
		return nil, 0, "", "", fmt.Errorf("withUnsnappyRequest: no size guard found")
	}
	// bodyStream: context.WithValue(ctx, "bodyStream", bytes.NewBuffer(X)) in `if err != nil {…} else {…}`
	var streams []string
	ast.Inspect(fl.Body, func(n ast.Node) bool {
		ifs, ok := n.(*ast.IfStmt)
		if !ok {
			return true
		}
		be, ok := ifs.Cond.(*ast.BinaryExpr)
		if !ok || be.Op != token.NEQ || exprText(be.X) != "err" || exprText(be.Y) != "nil" {
			return true
		}
		get := func(b ast.Node) string {
			res := ""
			if b == nil {
				return ""
			}
			ast.Inspect(b, func(m ast.Node) bool {
				call, ok := m.(*ast.CallExpr)
				if !ok || exprText(call.Fun) != "context.WithValue" || len(call.Args) != 3 {
					return true
				}
				if k, ok := strLit(call.Args[1]); !ok || k != "bodyStream" {
					return true
				}
				if inner, ok := call.Args[2].(*ast.CallExpr); ok && exprText(inner.Fun) == "bytes.NewBuffer" && len(inner.Args) == 1 {
					res = from[exprText(inner.Args[0])]
				} else {
					res = "?"
				}
				return true
			})
			return res
		}
		a := get(ifs.Body)
		if a == "" {
			return true
		}
		b := ""
		if ifs.Else != nil {
			b = get(ifs.Else)
		}
		streams = append(streams, a, b)
		return true
	})
	if len(streams) != 2 || streams[0] != "ReadAll" || streams[1] != "Decode" {
		return nil, 0, "", "", fmt.Errorf("withUnsnappyRequest: expected `if err != nil { bodyStream = compressed } else { bodyStream = uncompressed }`, found %v", streams)
	}
	// the only error returned to the client is the one of io.ReadAll: every other `return <non-nil>` at the level of
	// the middleware function (outside the closure that computes `uncompressed`) would change the outcome classes
	for _, st := range fl.Body.List {
		switch x := st.(type) {
		case *ast.ReturnStmt:
			if len(x.Results) != 1 || exprText(x.Results[0]) != "nil" {
				return nil, 0, "", "", fmt.Errorf("withUnsnappyRequest: returns something else than nil at the end")
			}
		case *ast.IfStmt:
			ast.Inspect(x, func(m ast.Node) bool {
				if _, ok := m.(*ast.FuncLit); ok {
					return false
				}
				if rs, ok := m.(*ast.ReturnStmt); ok {
					if len(rs.Results) != 1 || (exprText(rs.Results[0]) != "err" && exprText(rs.Results[0]) != "nil") {
						ferr = fmt.Errorf("withUnsnappyRequest: an error other than the one of io.ReadAll is returned to the client")
					}
					if exprText(rs.Results[0]) == "err" && x.Pos() > events[1].pos {
						ferr = fmt.Errorf("withUnsnappyRequest: an error of the snappy calls is returned to the client")
					}
				}
				return true
			})
		}
	}
	if ferr != nil {
		return nil, 0, "", "", ferr
	}
	return order, limit, "compressed", "uncompressed", nil
}

// encodingCases reads the Content-Encoding switch of WithOverallContextMiddleware.
func encodingCases(f *ast.File) (cases [][2]string, def int, err error) {
	fl, err := preRequestFunc(f, "WithOverallContextMiddleware")
	if err != nil {
		return nil, 0, err
	}
	var sw *ast.SwitchStmt
	for _, st := range fl.Body.List {
		if s, ok := st.(*ast.SwitchStmt); ok {
			if call, ok := s.Tag.(*ast.CallExpr); ok && exprText(call.Fun) == "r.Header.Get" && len(call.Args) == 1 {
				if k, ok := strLit(call.Args[0]); ok && k == "Content-Encoding" {
					if sw != nil {
						return nil, 0, fmt.Errorf("WithOverallContextMiddleware: two Content-Encoding switches")
					}
					sw = s
				}
			}
		}
	}
	if sw == nil {
		return nil, 0, fmt.Errorf("WithOverallContextMiddleware: no `switch r.Header.Get(\"Content-Encoding\")` at the top level")
	}
	def = -1
	for _, st := range sw.Body.List {
		cc := st.(*ast.CaseClause)
		// what the clause does: the constructor whose result replaces r.Body
		action := "identity"
		returnsStatus := -1
		var cerr error
		ast.Inspect(cc, func(n ast.Node) bool {
			switch x := n.(type) {
			case *ast.CallExpr:
				switch t := exprText(x.Fun); t {
				case "gzip.NewReader", "snappy.NewReader":
					if len(x.Args) != 1 || exprText(x.Args[0]) != "r.Body" {
						cerr = fmt.Errorf("%s is not applied to r.Body", t)
					}
					if action != "identity" {
						cerr = fmt.Errorf("two readers in one case")
					}
					action = t
				case "custom_errors.New400Error":
					returnsStatus = 400
				case "custom_errors.New500Error":
					returnsStatus = 500
				case "r.Header.Get", "fmt.Sprintf":
				default:
					if _, isConv := x.Fun.(*ast.Ident); !isConv {
						cerr = fmt.Errorf("unexpected call %s", t)
					}
				}
			case *ast.AssignStmt:
				for _, l := range x.Lhs {
					if exprText(l) == "r.Body" {
						cl, ok := x.Rhs[0].(*ast.CompositeLit)
						if !ok || exprText(cl.Type) != "readColser" || len(cl.Elts) != 1 || exprText(cl.Elts[0]) != "reader" {
							cerr = fmt.Errorf("r.Body is replaced by something else than readColser{reader}")
						}
					}
				}
			}
			return true
		})
		if cerr != nil {
			return nil, 0, fmt.Errorf("WithOverallContextMiddleware, Content-Encoding switch: %v", cerr)
		}
		if cc.List == nil {
			if returnsStatus < 0 || action != "identity" {
				return nil, 0, fmt.Errorf("WithOverallContextMiddleware: the default case of the Content-Encoding switch does not reject with a status")
			}
			def = returnsStatus
			continue
		}
		if returnsStatus >= 0 {
			return nil, 0, fmt.Errorf("WithOverallContextMiddleware: a listed Content-Encoding is rejected")
		}
		for _, e := range cc.List {
			s, ok := strLit(e)
			if !ok {
				return nil, 0, fmt.Errorf("WithOverallContextMiddleware: a Content-Encoding case that is not a string literal")
			}
			cases = append(cases, [2]string{s, action})
		}
	}
	if def < 0 {
		return nil, 0, fmt.Errorf("WithOverallContextMiddleware: the Content-Encoding switch has no default case")
	}
	return cases, def, nil
}

// readAllSites lists every ReadAll call of the non-test files of a package directory:
// (file, enclosing top-level declaration, drained reader).
func readAllSites(dir string) ([][3]string, error) {
	ents, err := os.ReadDir(filepath.Join(repo, dir))
	if err != nil {
		return nil, err
	}
	var out [][3]string
	for _, e := range ents {
		if e.IsDir() || !strings.HasSuffix(e.Name(), ".go") || strings.HasSuffix(e.Name(), "_test.go") {
			continue
		}
		fset := token.NewFileSet()
		f, err := parser.ParseFile(fset, filepath.Join(repo, dir, e.Name()), nil, 0)
		if err != nil {
			return nil, fmt.Errorf("%s/%s: %v", dir, e.Name(), err)
		}
		for _, d := range f.Decls {
			name := ""
			switch x := d.(type) {
			case *ast.FuncDecl:
				name = x.Name.Name
				if x.Recv != nil && len(x.Recv.List) == 1 {
					t := x.Recv.List[0].Type
					if st, ok := t.(*ast.StarExpr); ok {
						t = st.X
					}
					name = exprText(t) + "." + name
				}
			case *ast.GenDecl:
				if x.Tok != token.VAR {
					continue
				}
				for _, sp := range x.Specs {
					name = sp.(*ast.ValueSpec).Names[0].Name
				}
			}
			ast.Inspect(d, func(n ast.Node) bool {
				call, ok := n.(*ast.CallExpr)
				if !ok {
					return true
				}
				t := exprText(call.Fun)
				if t == "io.ReadAll" || t == "ioutil.ReadAll" {
					arg := "?"
					if len(call.Args) == 1 {
						arg = exprText(call.Args[0])
					}
					out = append(out, [3]string{dir + "/" + e.Name(), name, arg})
				}
				return true
			})
		}
	}
	sort.Slice(out, func(i, j int) bool {
		if out[i][0] != out[j][0] {
			return out[i][0] < out[j][0]
		}
		return out[i][1] < out[j][1]
	})
	return out, nil
}

// readerClass: what bounds the number of bytes a drained reader can yield.
func readerClass(arg string) (string, bool) {
	switch {
	case arg == "r.Body":
		// the request body as WithOverallContextMiddleware left it
		return "request-body: the socket bytes (Content-Encoding empty) or the gzip / snappy-framing stream over them", true
	case strings.HasSuffix(arg, "ctx.bodyReader"):
		// the parser's reader: r.Body or the \"bodyStream\" value of the context (a buffer filled by a pre-request step)
		return "parser-reader: the request body as above, or the buffer a pre-request step stored as bodyStream", true
	}
	return "", false
}

func init() {
	register("PreRequest", func() (string, error) {
		_, f, err := parseFile("writer/controller/middleware.go")
		if err != nil {
			return "", err
		}
		order, limit, onErr, onOk, err := unsnappyFacts(f)
		if err != nil {
			return "", err
		}
		cases, def, err := encodingCases(f)
		if err != nil {
			return "", err
		}
		var sites [][3]string
		for _, dir := range []string{"writer/controller", "writer/utils/unmarshal"} {
			s, err := readAllSites(dir)
			if err != nil {
				return "", err
			}
			sites = append(sites, s...)
		}
		var b strings.Builder
		b.WriteString("namespace Qryn.Gen.PreRequest\n")
		b.WriteString("/-- withUnsnappyRequest: the size limit its guard compares with -/\n")
		fmt.Fprintf(&b, "def unsnappyLimit : Nat := %d\n", limit)
		b.WriteString("/-- withUnsnappyRequest: third-party calls and size guards in source order\n    (`ReadAll` = io.ReadAll(r.Body); `DecodedLen`/`Decode` = the snappy block API on that buffer;\n    `declared>limit` = guard on the result of DecodedLen, `decoded>limit` = on len of the result of Decode,\n    `compressed>limit` = on len of the buffer read) -/\n")
		q := make([]string, len(order))
		for i, o := range order {
			q[i] = leanStr(o)
		}
		fmt.Fprintf(&b, "def unsnappyOrder : List String := [%s]\n", strings.Join(q, ", "))
		b.WriteString("/-- withUnsnappyRequest: the buffer stored as \"bodyStream\" when the closure returned an error / no error;\n    the only error returned to the client is the one of io.ReadAll -/\n")
		fmt.Fprintf(&b, "def unsnappyOnError : String := %s\ndef unsnappyOnSuccess : String := %s\n", leanStr(onErr), leanStr(onOk))
		b.WriteString("/-- WithOverallContextMiddleware: `switch r.Header.Get(\"Content-Encoding\")`, (value, what replaces r.Body) -/\n")
		cs := make([]string, len(cases))
		for i, c := range cases {
			cs[i] = "(" + leanStr(c[0]) + ", " + leanStr(c[1]) + ")"
		}
		fmt.Fprintf(&b, "def contentEncodingCases : List (String × String) := [%s]\n", strings.Join(cs, ", "))
		fmt.Fprintf(&b, "/-- status of the default case -/\ndef contentEncodingDefault : Nat := %d\n", def)
		b.WriteString("/-- every io.ReadAll / ioutil.ReadAll call under writer/controller and writer/utils/unmarshal:\n    (file, enclosing declaration, drained reader, what bounds the bytes it yields) -/\n")
		b.WriteString("def readAllSites : List (String × String × String × String) := [\n")
		for i, s := range sites {
			class, ok := readerClass(s[2])
			if !ok {
				return "", fmt.Errorf("%s %s: io.ReadAll drains %s, which is neither r.Body nor a parser's bodyReader", s[0], s[1], s[2])
			}
			sep := ","
			if i == len(sites)-1 {
				sep = ""
			}
			fmt.Fprintf(&b, "  (%s, %s, %s, %s)%s\n", leanStr(s[0]), leanStr(s[1]), leanStr(s[2]), leanStr(class), sep)
		}
		b.WriteString("]\nend Qryn.Gen.PreRequest\n")
		return b.String(), nil
	})
}
