package main

import (
	"fmt"
	"go/ast"
	"go/parser"
	"go/token"
	"os"
	"path/filepath"
	"sort"
	"strings"
)

// Gen.PlannerSelfWrites: every write a planner object performs on ITSELF while a prepared plan is executed.
//
// A prepared plan is a tree of planner objects; `Process(ctx)` is called on it once per execution (live tailing:
// every second). Re-execution yields the translation for the new context only if `Process` does not carry state
// from one call to the next, i.e. the planner objects are not modified by `Process` — except for memo fields that
// are reset at the start of every execution (modelled in LogQL/Process.lean). This fact lists, for every type of the
// translation packages that has a `Process` method, each field of the receiver that is assigned (also through an
// index or a dereference, `++`/`--`, `delete`, or whose address is taken) inside `Process` or inside a method of
// the same receiver reachable from `Process`. Entries: "<pkg>.<Type>.<method>:<field>".
func init() {
	register("PlannerSelfWrites", func() (string, error) {
		pkgs := []string{
			"reader/logql/logql_transpiler_v2", "reader/logql/logql_transpiler_v2/clickhouse_planner",
			"reader/logql/logql_transpiler_v2/internal_planner", "reader/logql/logql_transpiler_v2/shared",
			"reader/traceql/transpiler", "reader/traceql/transpiler/clickhouse_transpiler",
			"reader/promql/transpiler", "reader/prof/transpiler",
		}
		var out []string
		nProcess := 0
		for _, pkg := range pkgs {
			ents, err := os.ReadDir(filepath.Join(repo, pkg))
			if err != nil {
				return "", err
			}
			// methods[type][name] = decl
			methods := map[string]map[string]*ast.FuncDecl{}
			for _, e := range ents {
				if e.IsDir() || !strings.HasSuffix(e.Name(), ".go") || strings.HasSuffix(e.Name(), "_test.go") {
					continue
				}
				fset := token.NewFileSet()
				f, err := parser.ParseFile(fset, filepath.Join(repo, pkg, e.Name()), nil, 0)
				if err != nil {
					return "", fmt.Errorf("%s/%s: %v", pkg, e.Name(), err)
				}
				for _, d := range f.Decls {
					fd, ok := d.(*ast.FuncDecl)
					if !ok || fd.Recv == nil || len(fd.Recv.List) != 1 || fd.Body == nil {
						continue
					}
					t := fd.Recv.List[0].Type
					if st, ok := t.(*ast.StarExpr); ok {
						t = st.X
					}
					if ix, ok := t.(*ast.IndexExpr); ok { // generic receiver
						t = ix.X
					}
					id, ok := t.(*ast.Ident)
					if !ok {
						return "", fmt.Errorf("%s/%s: receiver of %s has an unrecognised shape", pkg, e.Name(), fd.Name.Name)
					}
					if methods[id.Name] == nil {
						methods[id.Name] = map[string]*ast.FuncDecl{}
					}
					methods[id.Name][fd.Name.Name] = fd
				}
			}
			var types []string
			for t := range methods {
				types = append(types, t)
			}
			sort.Strings(types)
			for _, t := range types {
				ms := methods[t]
				if ms["Process"] == nil {
					continue
				}
				nProcess++
				// methods of the same receiver reachable from Process
				reach := map[string]bool{}
				var visit func(name string)
				visit = func(name string) {
					if reach[name] || ms[name] == nil {
						return
					}
					reach[name] = true
					fd := ms[name]
					rn := swRecvName(fd)
					if rn == "" {
						return
					}
					ast.Inspect(fd.Body, func(n ast.Node) bool {
						if ce, ok := n.(*ast.CallExpr); ok {
							if se, ok := ce.Fun.(*ast.SelectorExpr); ok {
								if id, ok := se.X.(*ast.Ident); ok && id.Name == rn {
									visit(se.Sel.Name)
								}
							}
						}
						// method values (p.helper passed as a callback)
						if se, ok := n.(*ast.SelectorExpr); ok {
							if id, ok := se.X.(*ast.Ident); ok && id.Name == rn && ms[se.Sel.Name] != nil {
								visit(se.Sel.Name)
							}
						}
						return true
					})
				}
				visit("Process")
				var names []string
				for m := range reach {
					names = append(names, m)
				}
				sort.Strings(names)
				for _, m := range names {
					fd := ms[m]
					rn := swRecvName(fd)
					if rn == "" {
						continue
					}
					seen := map[string]bool{}
					add := func(e ast.Expr) {
						if f, ok := swRootField(e, rn); ok {
							k := pkg + "." + t + "." + m + ":" + f
							if !seen[k] {
								seen[k] = true
								out = append(out, k)
							}
						}
					}
					ast.Inspect(fd.Body, func(n ast.Node) bool {
						switch s := n.(type) {
						case *ast.AssignStmt:
							if s.Tok == token.DEFINE {
								return true
							}
							for _, l := range s.Lhs {
								add(l)
							}
						case *ast.IncDecStmt:
							add(s.X)
						case *ast.UnaryExpr:
							if s.Op == token.AND {
								add(s.X)
							}
						case *ast.CallExpr:
							if id, ok := s.Fun.(*ast.Ident); ok && (id.Name == "delete" || id.Name == "clear") && len(s.Args) > 0 {
								add(s.Args[0])
							}
						case *ast.RangeStmt:
							if s.Tok == token.ASSIGN {
								if s.Key != nil {
									add(s.Key)
								}
								if s.Value != nil {
									add(s.Value)
								}
							}
						}
						return true
					})
				}
			}
		}
		if nProcess < 40 {
			return "", fmt.Errorf("only %d types with a Process method found under the translation packages (expected the planner families)", nProcess)
		}
		sort.Strings(out)
		// which of the types that write to themselves are constructed anywhere in the reader (composite literal or new(T))
		uncon, err := swUnconstructed(out)
		if err != nil {
			return "", err
		}
		s := "namespace Qryn.Gen\n/-- fields of a planner object written by its own `Process` (or by a method of the same receiver reachable from it): \"pkg.Type.method:field\" -/\ndef plannerSelfWrites : List String :=\n  ["
		for i, v := range out {
			if i > 0 {
				s += ",\n   "
			}
			s += leanStr(v)
		}
		s += "]\n/-- number of types with a `Process` method that were scanned -/\ndef plannerProcessTypes : Nat := " + fmt.Sprint(nProcess) + "\n"
		s += "/-- the types of `plannerSelfWrites` of which no object is constructed anywhere under reader/ (no composite literal, no `new`) -/\ndef plannerSelfWriteUnconstructed : List String :=\n  ["
		for i, v := range uncon {
			if i > 0 {
				s += ",\n   "
			}
			s += leanStr(v)
		}
		s += "]\nend Qryn.Gen\n"
		return s, nil
	})
}

func swRecvName(fd *ast.FuncDecl) string {
	if len(fd.Recv.List[0].Names) != 1 {
		return ""
	}
	n := fd.Recv.List[0].Names[0].Name
	if n == "_" {
		return ""
	}
	return n
}

// swRootField: e is recv.f, recv.f.g, recv.f[i], *recv.f, (recv.f) … → "f" (the first field below the receiver);
// a write to the receiver variable itself (`*p = …`) is reported as "*".
func swRootField(e ast.Expr, recv string) (string, bool) {
	var first string
	for {
		switch x := e.(type) {
		case *ast.ParenExpr:
			e = x.X
		case *ast.StarExpr:
			e = x.X
		case *ast.IndexExpr:
			e = x.X
		case *ast.SliceExpr:
			e = x.X
		case *ast.SelectorExpr:
			first = x.Sel.Name
			e = x.X
		case *ast.Ident:
			if x.Name != recv {
				return "", false
			}
			if first == "" {
				return "*", true
			}
			return first, true
		default:
			return "", false
		}
	}
}

// swUnconstructed: of the types named in the entries ("pkg.Type.method:field"), those for which no non-test file under
// reader/ holds a composite literal `T{…}` / `&T{…}` / `pkgname.T{…}` or `new(T)`.
func swUnconstructed(entries []string) ([]string, error) {
	type key struct{ pkg, typ string }
	want := map[key]bool{}
	for _, e := range entries {
		colon := strings.LastIndex(e, ":")
		if colon < 0 {
			return nil, fmt.Errorf("entry %q", e)
		}
		parts := strings.Split(e[:colon], ".")
		if len(parts) < 3 {
			return nil, fmt.Errorf("entry %q", e)
		}
		want[key{strings.Join(parts[:len(parts)-2], "."), parts[len(parts)-2]}] = true
	}
	found := map[key]bool{}
	root := filepath.Join(repo, "reader")
	err := filepath.Walk(root, func(path string, info os.FileInfo, err error) error {
		if err != nil {
			return err
		}
		if info.IsDir() || !strings.HasSuffix(path, ".go") || strings.HasSuffix(path, "_test.go") {
			return nil
		}
		fset := token.NewFileSet()
		f, err := parser.ParseFile(fset, path, nil, 0)
		if err != nil {
			return fmt.Errorf("%s: %v", path, err)
		}
		rel, _ := filepath.Rel(repo, filepath.Dir(path))
		rel = filepath.ToSlash(rel)
		// import name -> package path (relative to the module) for selector literals
		imports := map[string]string{}
		for _, im := range f.Imports {
			p := strings.Trim(im.Path.Value, "\"")
			const mod = "github.com/metrico/qryn/"
			if !strings.HasPrefix(p, mod) {
				continue
			}
			p = strings.TrimPrefix(p, mod)
			name := p[strings.LastIndex(p, "/")+1:]
			if im.Name != nil {
				name = im.Name.Name
			}
			imports[name] = p
		}
		mark := func(t ast.Expr) {
			switch x := t.(type) {
			case *ast.Ident:
				if want[key{rel, x.Name}] {
					found[key{rel, x.Name}] = true
				}
			case *ast.SelectorExpr:
				if id, ok := x.X.(*ast.Ident); ok {
					if p, ok := imports[id.Name]; ok && want[key{p, x.Sel.Name}] {
						found[key{p, x.Sel.Name}] = true
					}
				}
			}
		}
		ast.Inspect(f, func(n ast.Node) bool {
			switch x := n.(type) {
			case *ast.CompositeLit:
				if x.Type != nil {
					mark(x.Type)
				}
			case *ast.CallExpr:
				if id, ok := x.Fun.(*ast.Ident); ok && id.Name == "new" && len(x.Args) == 1 {
					mark(x.Args[0])
				}
			}
			return true
		})
		return nil
	})
	if err != nil {
		return nil, err
	}
	var out []string
	for k := range want {
		if !found[k] {
			out = append(out, k.pkg+"."+k.typ)
		}
	}
	sort.Strings(out)
	return out, nil
}
