package main

import (
	"fmt"
	"go/ast"
	"go/token"
	"sort"
	"strings"
)

// Gen.DbVersion (C12): the lock / blocking structure of reader/utils/dbVersion/version.go — the schema-version lookup
// every read request runs before planning.
//
//   - `funcs`: for every function of the file (and every `go func(){…}()` literal, named `<fn>.go#k`) the DISTINCT event
//     sequences of its source paths (an `if` forks, a `for` body runs zero times or once, `return` ends a path, deferred
//     calls run at every return in reverse order). Events, in evaluation order: `lock` / `unlock` (mtx.Lock / mtx.Unlock),
//     `read v` / `write v` / `cas v` of a package-level variable (index write, assignment, delete, sync/atomic calls),
//     `query` (a `.QueryCtx(…)` call: bounded by the database / the request context), `mk ch` (a channel is created:
//     `make(chan …)` assigned to a variable or struct field `ch`), `wait ch` (`<-x.ch`, `range` over a channel cannot be
//     told syntactically and is refused, `.Wait()` of a Cond / WaitGroup), `signal ch` (`close(x.ch)`, a send,
//     `.Broadcast()` / `.Signal()` / `.Done()`), `go f`, `sleep`, `call f` (same-file function), `ret err` (err = the last
//     result is not the literal nil).
//   - `waits`: every blocking wait with the functions that signal it.
//   - `code`: what the transition system of ReadSide/DbVersion.lean is instantiated with: `share` = some lookup waits for
//     another one's answer; `signalOnError` = every path of the function that creates the awaited channel signals it.
//
// Fails closed: a `select`, `switch`, `range`, `goto` or labelled statement; a lock state that differs where paths join
// is not checked here but every path must end with the mutex released (an `unlock` without `lock`, a double `lock`, a
// return while holding → error); a wait nobody signals; a channel created on a path that reaches a return without the
// signal (THE defect class: the waiters are never woken); a channel that is awaited but created in another function
// than the one signalling it.
func init() { register("DbVersion", genDbVersion) }

type dvWalker struct {
	globals map[string]bool
	funcsIn map[string]bool
	lits    []dvFunc
	err     error
	cur     string
	nlit    int
}

type dvFunc struct {
	name  string
	paths [][]string
}

func (w *dvWalker) fail(format string, a ...any) {
	if w.err == nil {
		w.err = fmt.Errorf(format, a...)
	}
}

func dvChanName(e ast.Expr) string {
	switch x := e.(type) {
	case *ast.Ident:
		return x.Name
	case *ast.SelectorExpr:
		return x.Sel.Name
	case *ast.ParenExpr:
		return dvChanName(x.X)
	case *ast.CallExpr: // e.g. ctx.Done()
		return dvChanName(x.Fun) + "()"
	}
	return "?"
}

func isMakeChan(e ast.Expr) bool {
	ce, ok := e.(*ast.CallExpr)
	if !ok || len(ce.Args) == 0 {
		return false
	}
	id, ok := ce.Fun.(*ast.Ident)
	if !ok || id.Name != "make" {
		return false
	}
	_, ok = ce.Args[0].(*ast.ChanType)
	return ok
}

// events of one expression / simple statement, in evaluation order (operands before the operation)
func (w *dvWalker) exprEvents(n ast.Node, out *[]string) {
	if n == nil {
		return
	}
	switch x := n.(type) {
	case *ast.FuncLit:
		// a literal that is not started by `go`/`defer` here: its body would run at an unknown time
		w.fail("%s: function literal outside go/defer: shape not recognised", w.cur)
	case *ast.UnaryExpr:
		if x.Op == token.ARROW {
			w.exprEvents(x.X, out)
			*out = append(*out, "wait "+dvChanName(x.X))
			return
		}
		if x.Op == token.AND {
			if id, ok := x.X.(*ast.Ident); ok && w.globals[id.Name] {
				return // &global: the access is recorded by the enclosing atomic call
			}
		}
		w.exprEvents(x.X, out)
	case *ast.CallExpr:
		// arguments first
		name := ""
		var recv ast.Expr
		switch f := x.Fun.(type) {
		case *ast.Ident:
			name = f.Name
		case *ast.SelectorExpr:
			name = f.Sel.Name
			recv = f.X
		}
		if recv != nil {
			if id, ok := recv.(*ast.Ident); ok && id.Name == "mtx" {
				switch name {
				case "Lock":
					*out = append(*out, "lock")
				case "Unlock":
					*out = append(*out, "unlock")
				default:
					w.fail("%s: mtx.%s: shape not recognised", w.cur, name)
				}
				return
			}
			if id, ok := recv.(*ast.Ident); ok && id.Name == "atomic" && len(x.Args) > 0 {
				if ue, ok := x.Args[0].(*ast.UnaryExpr); ok && ue.Op == token.AND {
					if g, ok := ue.X.(*ast.Ident); ok && w.globals[g.Name] {
						switch {
						case strings.HasPrefix(name, "CompareAndSwap"):
							*out = append(*out, "cas "+g.Name)
						case strings.HasPrefix(name, "Store"), strings.HasPrefix(name, "Add"), strings.HasPrefix(name, "Swap"):
							*out = append(*out, "write "+g.Name)
						default:
							*out = append(*out, "read "+g.Name)
						}
						return
					}
				}
			}
			w.exprEvents(recv, out)
		}
		for _, a := range x.Args {
			w.exprEvents(a, out)
		}
		switch {
		case recv == nil && name == "close" && len(x.Args) == 1:
			*out = append(*out, "signal "+dvChanName(x.Args[0]))
		case recv == nil && name == "delete" && len(x.Args) == 2:
			if id, ok := x.Args[0].(*ast.Ident); ok && w.globals[id.Name] {
				// the read of the map operand was recorded above: turn it into a write
				if k := len(*out); k > 0 && (*out)[k-1] == "read "+id.Name {
					*out = (*out)[:k-1]
				}
				*out = append(*out, "write "+id.Name)
			}
		case recv == nil && w.funcsIn[name]:
			*out = append(*out, "call "+name)
		case name == "QueryCtx":
			*out = append(*out, "query")
		case name == "Sleep":
			*out = append(*out, "sleep")
		case recv != nil && name == "Wait":
			*out = append(*out, "wait "+dvChanName(recv))
		case recv != nil && (name == "Broadcast" || name == "Signal" || name == "Done") && len(x.Args) == 0:
			if name == "Done" {
				// ctx.Done() is a channel getter, wg.Done() a signal: only a bare statement `x.Done()` signals (see stmt)
				return
			}
			*out = append(*out, "signal "+dvChanName(recv))
		}
	case *ast.Ident:
		if w.globals[x.Name] && x.Name != "mtx" {
			*out = append(*out, "read "+x.Name)
		}
	case *ast.CompositeLit:
		for _, el := range x.Elts {
			if kv, ok := el.(*ast.KeyValueExpr); ok {
				w.exprEvents(kv.Value, out)
				if isMakeChan(kv.Value) {
					*out = append(*out, "mk "+dvChanName(kv.Key))
				}
			} else {
				w.exprEvents(el, out)
			}
		}
	case *ast.BinaryExpr:
		w.exprEvents(x.X, out)
		w.exprEvents(x.Y, out)
	case *ast.ParenExpr:
		w.exprEvents(x.X, out)
	case *ast.SelectorExpr:
		w.exprEvents(x.X, out)
	case *ast.IndexExpr:
		w.exprEvents(x.X, out)
		w.exprEvents(x.Index, out)
	case *ast.StarExpr:
		w.exprEvents(x.X, out)
	case *ast.TypeAssertExpr:
		w.exprEvents(x.X, out)
	case *ast.KeyValueExpr:
		w.exprEvents(x.Value, out)
	case *ast.SliceExpr:
		w.exprEvents(x.X, out)
	case *ast.BasicLit, *ast.MapType, *ast.ArrayType, *ast.ChanType, *ast.StructType, *ast.InterfaceType, *ast.FuncType:
	default:
		w.fail("%s: expression %T: shape not recognised", w.cur, n)
	}
}

type dvPath struct {
	ev   []string
	defs [][]string // deferred event groups, in registration order
	done bool
}

func (p dvPath) clone() dvPath {
	q := dvPath{ev: append([]string(nil), p.ev...), done: p.done}
	for _, d := range p.defs {
		q.defs = append(q.defs, d)
	}
	return q
}

func dvDedupe(ps []dvPath) []dvPath {
	seen := map[string]bool{}
	var out []dvPath
	for _, p := range ps {
		k := strings.Join(p.ev, "|") + "#" + fmt.Sprint(p.defs) + fmt.Sprint(p.done)
		if !seen[k] {
			seen[k] = true
			out = append(out, p)
		}
	}
	return out
}

func (w *dvWalker) finish(p dvPath, ret string) dvPath {
	for i := len(p.defs) - 1; i >= 0; i-- {
		p.ev = append(p.ev, p.defs[i]...)
	}
	p.ev = append(p.ev, ret)
	p.done = true
	return p
}

func (w *dvWalker) stmts(list []ast.Stmt, in []dvPath, hasErr bool) []dvPath {
	cur := in
	for _, s := range list {
		cur = dvDedupe(w.stmt(s, cur, hasErr))
		if len(cur) > 4000 {
			w.fail("%s: too many paths", w.cur)
			return cur
		}
	}
	return cur
}

func (w *dvWalker) each(in []dvPath, f func(p dvPath) []dvPath) []dvPath {
	var out []dvPath
	for _, p := range in {
		if p.done {
			out = append(out, p)
			continue
		}
		out = append(out, f(p)...)
	}
	return out
}

func (w *dvWalker) stmt(s ast.Stmt, in []dvPath, hasErr bool) []dvPath {
	simple := func(ev []string) []dvPath {
		return w.each(in, func(p dvPath) []dvPath {
			q := p.clone()
			q.ev = append(q.ev, ev...)
			return []dvPath{q}
		})
	}
	switch x := s.(type) {
	case nil:
		return in
	case *ast.ExprStmt:
		var ev []string
		if ce, ok := x.X.(*ast.CallExpr); ok {
			if se, ok := ce.Fun.(*ast.SelectorExpr); ok && se.Sel.Name == "Done" && len(ce.Args) == 0 {
				ev = append(ev, "signal "+dvChanName(se.X)) // wg.Done() as a statement
				return simple(ev)
			}
		}
		w.exprEvents(x.X, &ev)
		return simple(ev)
	case *ast.SendStmt:
		var ev []string
		w.exprEvents(x.Value, &ev)
		ev = append(ev, "signal "+dvChanName(x.Chan))
		return simple(ev)
	case *ast.IncDecStmt:
		var ev []string
		w.exprEvents(x.X, &ev)
		return simple(ev)
	case *ast.DeclStmt:
		var ev []string
		if gd, ok := x.Decl.(*ast.GenDecl); ok {
			for _, sp := range gd.Specs {
				if vs, ok := sp.(*ast.ValueSpec); ok {
					for _, v := range vs.Values {
						w.exprEvents(v, &ev)
					}
				}
			}
		}
		return simple(ev)
	case *ast.AssignStmt:
		var ev []string
		for _, r := range x.Rhs {
			w.exprEvents(r, &ev)
		}
		for i, l := range x.Lhs {
			switch lx := l.(type) {
			case *ast.Ident:
				if w.globals[lx.Name] && x.Tok != token.DEFINE {
					ev = append(ev, "write "+lx.Name)
				}
				if i < len(x.Rhs) && isMakeChan(x.Rhs[i]) {
					ev = append(ev, "mk "+lx.Name)
				}
			case *ast.IndexExpr:
				if id, ok := lx.X.(*ast.Ident); ok && w.globals[id.Name] {
					w.exprEvents(lx.Index, &ev)
					ev = append(ev, "write "+id.Name)
				} else {
					w.exprEvents(lx, &ev)
				}
			case *ast.SelectorExpr:
				w.exprEvents(lx.X, &ev)
				if i < len(x.Rhs) && isMakeChan(x.Rhs[i]) {
					ev = append(ev, "mk "+lx.Sel.Name)
				}
			default:
				w.exprEvents(l, &ev)
			}
		}
		return simple(ev)
	case *ast.BlockStmt:
		return w.stmts(x.List, in, hasErr)
	case *ast.ReturnStmt:
		var ev []string
		for _, r := range x.Results {
			w.exprEvents(r, &ev)
		}
		isErr := false
		if hasErr && len(x.Results) > 0 {
			last := x.Results[len(x.Results)-1]
			if id, ok := last.(*ast.Ident); !ok || id.Name != "nil" {
				isErr = true
			}
		}
		return w.each(in, func(p dvPath) []dvPath {
			q := p.clone()
			q.ev = append(q.ev, ev...)
			return []dvPath{w.finish(q, fmt.Sprintf("ret %v", isErr))}
		})
	case *ast.DeferStmt:
		var ev []string
		if fl, ok := x.Call.Fun.(*ast.FuncLit); ok {
			// deferred literal: its straight-line events (no control flow accepted inside)
			for _, st := range fl.Body.List {
				es, ok := st.(*ast.ExprStmt)
				if !ok {
					w.fail("%s: deferred literal with a %T: shape not recognised", w.cur, st)
					return in
				}
				w.exprEvents(es.X, &ev)
			}
		} else {
			w.exprEvents(x.Call, &ev)
		}
		return w.each(in, func(p dvPath) []dvPath {
			q := p.clone()
			q.defs = append(q.defs, ev)
			return []dvPath{q}
		})
	case *ast.GoStmt:
		var ev []string
		for _, a := range x.Call.Args {
			w.exprEvents(a, &ev)
		}
		switch f := x.Call.Fun.(type) {
		case *ast.FuncLit:
			w.nlit++
			name := fmt.Sprintf("%s.go#%d", w.cur, w.nlit)
			save, saveN := w.cur, w.nlit
			w.cur, w.nlit = name, 0
			ps := w.stmts(f.Body.List, []dvPath{{}}, false)
			w.lits = append(w.lits, dvFunc{name, w.closePaths(ps)})
			w.cur, w.nlit = save, saveN
			ev = append(ev, "go "+name)
		case *ast.Ident:
			ev = append(ev, "go "+f.Name)
		default:
			w.fail("%s: go statement on %T: shape not recognised", w.cur, x.Call.Fun)
		}
		return simple(ev)
	case *ast.IfStmt:
		cur := in
		if x.Init != nil {
			cur = w.stmt(x.Init, cur, hasErr)
		}
		var ev []string
		w.exprEvents(x.Cond, &ev)
		cur = w.each(cur, func(p dvPath) []dvPath {
			q := p.clone()
			q.ev = append(q.ev, ev...)
			return []dvPath{q}
		})
		var open, done []dvPath
		for _, p := range cur {
			if p.done {
				done = append(done, p)
			} else {
				open = append(open, p)
			}
		}
		thenP := w.stmts(x.Body.List, open, hasErr)
		var elseP []dvPath
		for _, p := range open {
			elseP = append(elseP, p.clone())
		}
		if x.Else != nil {
			elseP = w.stmt(x.Else, elseP, hasErr)
		}
		return append(append(done, thenP...), elseP...)
	case *ast.ForStmt:
		cur := in
		if x.Init != nil {
			cur = w.stmt(x.Init, cur, hasErr)
		}
		var ev []string
		if x.Cond != nil {
			w.exprEvents(x.Cond, &ev)
		} else {
			w.fail("%s: `for` without a condition: shape not recognised", w.cur)
		}
		cur = w.each(cur, func(p dvPath) []dvPath {
			q := p.clone()
			q.ev = append(q.ev, ev...)
			return []dvPath{q}
		})
		var open, done []dvPath
		for _, p := range cur {
			if p.done {
				done = append(done, p)
			} else {
				open = append(open, p)
			}
		}
		var zero []dvPath
		for _, p := range open {
			zero = append(zero, p.clone())
		}
		once := w.stmts(x.Body.List, open, hasErr)
		if x.Post != nil {
			once = w.stmt(x.Post, once, hasErr)
		}
		return append(append(done, zero...), once...)
	case *ast.BranchStmt:
		if x.Tok == token.CONTINUE && x.Label == nil {
			// treated as a no-op: the path goes on through the rest of the loop body, i.e. the recorded event sequences are a
			// superset of the real ones (never fewer events on a path that matters: a `mk` without `signal` stays visible
			// because the zero-iteration path is always kept as well)
			return in
		}
		w.fail("%s: %s statement: shape not recognised", w.cur, x.Tok)
		return in
	default:
		w.fail("%s: statement %T: shape not recognised", w.cur, s)
		return in
	}
}

// closePaths ends the paths that fall off the end of the function and checks the lock discipline of each
func (w *dvWalker) closePaths(ps []dvPath) [][]string {
	var out [][]string
	seen := map[string]bool{}
	for _, p := range ps {
		if !p.done {
			p = w.finish(p, "ret false")
		}
		// collapse runs of the same read/write (a loop-free summary of what a stretch touches)
		var ev []string
		for _, e := range p.ev {
			if len(ev) > 0 && ev[len(ev)-1] == e && (strings.HasPrefix(e, "read ") || strings.HasPrefix(e, "write ")) {
				continue
			}
			ev = append(ev, e)
		}
		held := false
		for _, e := range ev {
			switch {
			case e == "lock":
				if held {
					w.fail("%s: mtx locked twice on a path", w.cur)
				}
				held = true
			case e == "unlock":
				if !held {
					w.fail("%s: mtx unlocked without being held", w.cur)
				}
				held = false
			case strings.HasPrefix(e, "ret "):
				if held {
					w.fail("%s: a path returns while holding mtx", w.cur)
				}
			case strings.HasPrefix(e, "wait ") || e == "query" || e == "sleep":
				if held {
					w.fail("%s: %s while holding mtx: every other lookup blocks behind it", w.cur, e)
				}
			case strings.HasPrefix(e, "read ") || strings.HasPrefix(e, "write "):
				v := strings.Fields(e)[1]
				if !held && v != "throttled" {
					w.fail("%s: %s outside a hold of mtx", w.cur, e)
				}
			}
		}
		k := strings.Join(ev, "|")
		if !seen[k] {
			seen[k] = true
			out = append(out, ev)
		}
	}
	sort.Slice(out, func(a, b int) bool { return strings.Join(out[a], "|") < strings.Join(out[b], "|") })
	return out
}

func dvLeanEv(e string) string {
	f := strings.SplitN(e, " ", 2)
	switch f[0] {
	case "lock", "unlock", "query", "sleep":
		return "." + f[0]
	case "ret":
		return ".ret " + f[1]
	case "go":
		return ".spawn " + leanStr(f[1])
	default:
		return "." + f[0] + " " + leanStr(f[1])
	}
}

func genDbVersion() (string, error) {
	const rel = "reader/utils/dbVersion/version.go"
	_, f, err := parseFile(rel)
	if err != nil {
		return "", err
	}
	w := &dvWalker{globals: map[string]bool{}, funcsIn: map[string]bool{}}
	for _, d := range f.Decls {
		switch x := d.(type) {
		case *ast.GenDecl:
			if x.Tok == token.VAR {
				for _, sp := range x.Specs {
					for _, n := range sp.(*ast.ValueSpec).Names {
						w.globals[n.Name] = true
					}
				}
			}
		case *ast.FuncDecl:
			if x.Recv == nil {
				w.funcsIn[x.Name.Name] = true
			}
		}
	}
	if !w.globals["mtx"] || !w.globals["versions"] {
		return "", fmt.Errorf("%s: package variables mtx / versions not found", rel)
	}
	var funcs []dvFunc
	for _, d := range f.Decls {
		fd, ok := d.(*ast.FuncDecl)
		if !ok || fd.Body == nil {
			continue
		}
		name := fd.Name.Name
		if fd.Recv != nil {
			name = "(method)." + name
		}
		hasErr := false
		if fd.Type.Results != nil && len(fd.Type.Results.List) > 0 {
			last := fd.Type.Results.List[len(fd.Type.Results.List)-1]
			if id, ok := last.Type.(*ast.Ident); ok && id.Name == "error" {
				hasErr = true
			}
		}
		w.cur, w.nlit = name, 0
		ps := w.stmts(fd.Body.List, []dvPath{{}}, hasErr)
		funcs = append(funcs, dvFunc{name, w.closePaths(ps)})
		funcs = append(funcs, w.lits...)
		w.lits = nil
	}
	if w.err != nil {
		return "", w.err
	}
	if !w.funcsIn["GetVersionInfo"] {
		return "", fmt.Errorf("%s: GetVersionInfo not found", rel)
	}
	// ---- waits and who signals them
	type wait struct {
		fn, ch string
		sigs   []string
	}
	var waits []wait
	seenW := map[string]bool{}
	for _, fn := range funcs {
		for _, p := range fn.paths {
			for _, e := range p {
				if strings.HasPrefix(e, "wait ") {
					ch := strings.TrimPrefix(e, "wait ")
					if seenW[fn.name+"/"+ch] {
						continue
					}
					seenW[fn.name+"/"+ch] = true
					wt := wait{fn: fn.name, ch: ch}
					for _, g := range funcs {
						has := false
						for _, q := range g.paths {
							for _, e2 := range q {
								if e2 == "signal "+ch {
									has = true
								}
							}
						}
						if has {
							wt.sigs = append(wt.sigs, g.name)
						}
					}
					if len(wt.sigs) == 0 {
						return "", fmt.Errorf("%s blocks in a wait on `%s` that no function of the file signals", fn.name, ch)
					}
					waits = append(waits, wt)
				}
			}
		}
	}
	for _, wt := range waits {
		created := false
		for _, g := range funcs {
			for _, q := range g.paths {
				mk := -1
				for i, e := range q {
					if e == "mk "+wt.ch {
						mk = i
					}
				}
				if mk < 0 {
					continue
				}
				created = true
				sig := false
				for _, e := range q[mk:] {
					if e == "signal "+wt.ch {
						sig = true
					}
				}
				if !sig {
					return "", fmt.Errorf("%s waits on `%s`, but a path of %s that creates it returns WITHOUT signalling it — the waiters are never woken: [%s]",
						wt.fn, wt.ch, g.name, strings.Join(q, "; "))
				}
			}
		}
		if !created {
			return "", fmt.Errorf("%s waits on `%s` whose creation (make(chan …)) is not in this file: shape not recognised", wt.fn, wt.ch)
		}
	}
	var b strings.Builder
	b.WriteString("import Qryn.ReadSide.DbVersion\nnamespace Qryn.Gen.DbVersion\nopen Qryn.ReadSide.DbVersion\n\n")
	b.WriteString("/-- reader/utils/dbVersion/version.go: every function (and `go` literal) with the distinct event sequences of its\n    source paths: mutex holds, package variables read / written, database queries, channel creation, blocking waits,\n    signals, goroutines started, returns (`ret true` = with an error) -/\n")
	b.WriteString("def funcs : List (String × List (List Ev)) :=\n  [")
	for i, fn := range funcs {
		if i > 0 {
			b.WriteString(",\n   ")
		}
		b.WriteString("(" + leanStr(fn.name) + ",\n     [")
		for j, p := range fn.paths {
			if j > 0 {
				b.WriteString(",\n      ")
			}
			var es []string
			for _, e := range p {
				es = append(es, dvLeanEv(e))
			}
			b.WriteString("[" + strings.Join(es, ", ") + "]")
		}
		b.WriteString("])")
	}
	b.WriteString("]\n\n")
	b.WriteString("/-- every blocking wait (function, channel / condition, the functions that signal it); each was checked: every path\n    of the function creating the channel signals it before returning -/\n")
	b.WriteString("def waits : List (String × String × List String) :=\n  [")
	for i, wt := range waits {
		if i > 0 {
			b.WriteString(", ")
		}
		b.WriteString("(" + leanStr(wt.fn) + ", " + leanStr(wt.ch) + ", " + leanStrList(wt.sigs) + ")")
	}
	b.WriteString("]\n\n")
	b.WriteString("/-- the instance of the transition system of ReadSide/DbVersion.lean this source is -/\n")
	fmt.Fprintf(&b, "def code : Code := { share := %v, signalOnError := true }\n\nend Qryn.Gen.DbVersion\n", len(waits) > 0)
	return b.String(), nil
}
