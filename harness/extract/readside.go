package main

// Gen.ReadSide (C12): what the source says about the read side's fault handling —
//   * every `go` statement of the request path and whether its goroutine recovers (a *directly* deferred
//     function that calls recover(), or a directly deferred TamePanic/tamePanic);
//   * every HTTP handler method of reader/controller and whether its first statement is `defer tamePanic(w, r)`;
//   * the conditions (source text) guarding the arithmetic the model mirrors: FixPeriodPlanner.Process, the
//     aggregators' addValue/process, LimitPlanner;
//   * the constants: maxFixPeriodPoints, the aggregator's stream cap, the scanner's batch size.

import (
	"bytes"
	"fmt"
	"go/ast"
	"go/printer"
	"go/token"
	"os"
	"path/filepath"
	"sort"
	"strings"
)

func rsExprText(fset *token.FileSet, e ast.Node) string {
	var b bytes.Buffer
	printer.Fprint(&b, fset, e)
	return strings.Join(strings.Fields(b.String()), " ")
}

// callsRecoverDirectly: the function literal's own body (not nested literals) contains a call recover()
func callsRecoverDirectly(fl *ast.FuncLit) bool {
	found := false
	ast.Inspect(fl.Body, func(n ast.Node) bool {
		if inner, ok := n.(*ast.FuncLit); ok && inner != fl {
			return false
		}
		if ce, ok := n.(*ast.CallExpr); ok {
			if id, ok := ce.Fun.(*ast.Ident); ok && id.Name == "recover" {
				found = true
			}
		}
		return true
	})
	return found
}

// recovers: does this function body install a recover that works? (a deferred call made directly)
func recovers(body *ast.BlockStmt) bool {
	for _, st := range body.List {
		ds, ok := st.(*ast.DeferStmt)
		if !ok {
			continue
		}
		switch f := ds.Call.Fun.(type) {
		case *ast.Ident:
			if f.Name == "tamePanic" || f.Name == "TamePanic" {
				return true
			}
		case *ast.SelectorExpr:
			if f.Sel.Name == "TamePanic" {
				return true
			}
		case *ast.FuncLit:
			if callsRecoverDirectly(f) {
				return true
			}
		}
	}
	return false
}

func funcName(fd *ast.FuncDecl) string {
	if fd.Recv != nil && len(fd.Recv.List) == 1 {
		t := fd.Recv.List[0].Type
		if st, ok := t.(*ast.StarExpr); ok {
			t = st.X
		}
		if id, ok := t.(*ast.Ident); ok {
			return id.Name + "." + fd.Name.Name
		}
	}
	return fd.Name.Name
}

func goFiles(dir string) ([]string, error) {
	ents, err := os.ReadDir(filepath.Join(repo, dir))
	if err != nil {
		return nil, err
	}
	var res []string
	for _, e := range ents {
		if !e.IsDir() && strings.HasSuffix(e.Name(), ".go") && !strings.HasSuffix(e.Name(), "_test.go") {
			res = append(res, filepath.Join(dir, e.Name()))
		}
	}
	sort.Strings(res)
	return res, nil
}

// ifConds: source text of every `if` condition in the body, in source order (nested function literals included)
func ifConds(fset *token.FileSet, body *ast.BlockStmt) []string {
	var res []string
	ast.Inspect(body, func(n ast.Node) bool {
		if is, ok := n.(*ast.IfStmt); ok {
			res = append(res, rsExprText(fset, is.Cond))
		}
		return true
	})
	return res
}

func rsLeanStrList(xs []string) string {
	parts := make([]string, len(xs))
	for i, x := range xs {
		parts[i] = leanStr(x)
	}
	return "[" + strings.Join(parts, ",\n   ") + "]"
}

func init() {
	register("ReadSide", func() (string, error) {
		var sb strings.Builder
		sb.WriteString("namespace Qryn.Gen.ReadSide\n")

		// ---- goroutines of the request path
		dirs := []string{"reader/service", "reader/logql/logql_transpiler_v2", "reader/logql/logql_transpiler_v2/shared",
			"reader/logql/logql_transpiler_v2/internal_planner", "reader/traceql/transpiler"}
		var gos []string
		for _, d := range dirs {
			files, err := goFiles(d)
			if err != nil {
				return "", err
			}
			for _, rel := range files {
				fset, f, err := parseFile(rel)
				if err != nil {
					return "", err
				}
				_ = fset
				for _, decl := range f.Decls {
					fd, ok := decl.(*ast.FuncDecl)
					if !ok || fd.Body == nil {
						continue
					}
					k := 0
					var visit func(n ast.Node) bool
					visit = func(n ast.Node) bool {
						gs, ok := n.(*ast.GoStmt)
						if !ok {
							return true
						}
						k++
						name := fmt.Sprintf("%s:%s#%d", strings.TrimPrefix(rel, "reader/"), funcName(fd), k)
						rec := false
						kind := "call"
						if fl, ok := gs.Call.Fun.(*ast.FuncLit); ok {
							kind = "lit"
							rec = recovers(fl.Body)
							// a literal that only drains / closes needs no recover: record its shape
							if len(fl.Body.List) == 1 {
								if rs, ok := fl.Body.List[0].(*ast.RangeStmt); ok && len(rs.Body.List) == 0 {
									kind = "drain"
								}
								if es, ok := fl.Body.List[0].(*ast.ExprStmt); ok {
									if ce, ok := es.X.(*ast.CallExpr); ok {
										if id, ok := ce.Fun.(*ast.Ident); ok && id.Name == "close" {
											kind = "close"
										}
									}
								}
							}
						} else {
							// `go c.Scan(…)`, `go drainEntries(out)`: resolve a method/function of the same file
							target := ""
							switch fn := gs.Call.Fun.(type) {
							case *ast.SelectorExpr:
								target = fn.Sel.Name
							case *ast.Ident:
								target = fn.Name
							}
							kind = "call " + target
							for _, d2 := range f.Decls {
								if fd2, ok := d2.(*ast.FuncDecl); ok && fd2.Name.Name == target && fd2.Body != nil {
									rec = recovers(fd2.Body)
								}
							}
						}
						gos = append(gos, fmt.Sprintf("(%s, %s, %v)", leanStr(name), leanStr(kind), rec))
						return true
					}
					ast.Inspect(fd.Body, visit)
				}
			}
		}
		if len(gos) == 0 {
			return "", fmt.Errorf("no go statement found on the read path")
		}
		sb.WriteString("/-- (site, shape, recovers) for every `go` statement of the read request path -/\n")
		sb.WriteString("def goroutines : List (String × String × Bool) :=\n  [" + strings.Join(gos, ",\n   ") + "]\n\n")

		// ---- consumers: every function body that ranges over a pipeline channel; does it return from inside the
		// loop (stop reading early) and, if so, does it leave a drain behind?
		chanNames := map[string]bool{"out": true, "_in": true, "in": true, "req": true, "ch": true, "_res": true}
		var consumers []string
		for _, d := range dirs {
			files, err := goFiles(d)
			if err != nil {
				return "", err
			}
			for _, rel := range files {
				_, f, err := parseFile(rel)
				if err != nil {
					return "", err
				}
				for _, decl := range f.Decls {
					fd, ok := decl.(*ast.FuncDecl)
					if !ok || fd.Body == nil {
						continue
					}
					k := 0
					var bodies []*ast.BlockStmt
					bodies = append(bodies, fd.Body)
					ast.Inspect(fd.Body, func(n ast.Node) bool {
						if fl, ok := n.(*ast.FuncLit); ok {
							bodies = append(bodies, fl.Body)
						}
						return true
					})
					for bi, body := range bodies {
						ranges, early := false, false
						// direct statements only: do not descend into nested literals
						var walk func(n ast.Node, inRange bool)
						walk = func(n ast.Node, inRange bool) {
							ast.Inspect(n, func(m ast.Node) bool {
								if m == nil || m == n {
									return true
								}
								if _, ok := m.(*ast.FuncLit); ok {
									return false
								}
								if rs, ok := m.(*ast.RangeStmt); ok {
									if id, ok := rs.X.(*ast.Ident); ok && chanNames[id.Name] && rs.Value == nil && len(rs.Body.List) > 0 {
										ranges = true
										walk(rs.Body, true)
										return false
									}
								}
								if _, ok := m.(*ast.ReturnStmt); ok && inRange {
									early = true
								}
								return true
							})
						}
						walk(body, false)
						if !ranges {
							continue
						}
						k++
						drains := false
						ast.Inspect(body, func(m ast.Node) bool {
							if ce, ok := m.(*ast.CallExpr); ok {
								if id, ok := ce.Fun.(*ast.Ident); ok && id.Name == "drainEntries" {
									drains = true
								}
							}
							if rs, ok := m.(*ast.RangeStmt); ok && len(rs.Body.List) == 0 {
								drains = true
							}
							return true
						})
						_ = bi
						consumers = append(consumers, fmt.Sprintf("(%s, %v, %v)", leanStr(fmt.Sprintf("%s:%s#%d", strings.TrimPrefix(rel, "reader/"), funcName(fd), k)), early, drains))
					}
				}
			}
		}
		if len(consumers) == 0 {
			return "", fmt.Errorf("no function ranging over a pipeline channel found")
		}
		sb.WriteString("/-- (function body, returns from inside its `for … := range <channel>` loop, leaves a drain behind) -/\n")
		sb.WriteString("def consumers : List (String × Bool × Bool) :=\n  [" + strings.Join(consumers, ",\n   ") + "]\n\n")

		// ---- HTTP handlers
		files, err := goFiles("reader/controller")
		if err != nil {
			return "", err
		}
		var hs []string
		for _, rel := range files {
			_, f, err := parseFile(rel)
			if err != nil {
				return "", err
			}
			for _, decl := range f.Decls {
				fd, ok := decl.(*ast.FuncDecl)
				if !ok || fd.Body == nil || fd.Recv == nil || fd.Type.Params == nil || len(fd.Type.Params.List) != 2 {
					continue
				}
				p0, p1 := exprTextNoPos(fd.Type.Params.List[0].Type), exprTextNoPos(fd.Type.Params.List[1].Type)
				if p0 != "http.ResponseWriter" || p1 != "*http.Request" {
					continue
				}
				first := false
				if len(fd.Body.List) > 0 {
					if ds, ok := fd.Body.List[0].(*ast.DeferStmt); ok {
						if id, ok := ds.Call.Fun.(*ast.Ident); ok && id.Name == "tamePanic" {
							first = true
						}
					}
				}
				hs = append(hs, fmt.Sprintf("(%s, %v)", leanStr(funcName(fd)), first))
			}
		}
		if len(hs) == 0 {
			return "", fmt.Errorf("no HTTP handler method found in reader/controller")
		}
		sb.WriteString("/-- (handler, first statement is `defer tamePanic(w, r)`) -/\n")
		sb.WriteString("def handlers : List (String × Bool) :=\n  [" + strings.Join(hs, ",\n   ") + "]\n\n")

		// ---- the error answers of every handler (and of the helper writeResponse): status codes in source order
		{
			var hc []string
			for _, rel := range files {
				_, f, err := parseFile(rel)
				if err != nil {
					return "", err
				}
				for _, decl := range f.Decls {
					fd, ok := decl.(*ast.FuncDecl)
					if !ok || fd.Body == nil || fd.Recv == nil {
						continue
					}
					isHandler := false
					if fd.Type.Params != nil && len(fd.Type.Params.List) == 2 {
						p0, p1 := exprTextNoPos(fd.Type.Params.List[0].Type), exprTextNoPos(fd.Type.Params.List[1].Type)
						isHandler = p0 == "http.ResponseWriter" && p1 == "*http.Request"
					}
					if !isHandler && fd.Name.Name != "writeResponse" {
						continue
					}
					var codes []string
					bad := ""
					ast.Inspect(fd.Body, func(n ast.Node) bool {
						ce, ok := n.(*ast.CallExpr)
						if !ok {
							return true
						}
						id, ok := ce.Fun.(*ast.Ident)
						if !ok {
							return true
						}
						var arg ast.Expr
						switch id.Name {
						case "PromError":
							if len(ce.Args) > 0 {
								arg = ce.Args[0]
							}
						case "defaultError":
							if len(ce.Args) > 1 {
								arg = ce.Args[1]
							}
						default:
							return true
						}
						if bl, ok := arg.(*ast.BasicLit); ok && bl.Kind == token.INT {
							codes = append(codes, bl.Value)
						} else {
							bad = funcName(fd) + ": the status of an error answer is not a literal: " + exprTextNoPos(ce)
						}
						return true
					})
					if bad != "" {
						return "", fmt.Errorf("%s", bad)
					}
					hc = append(hc, fmt.Sprintf("(%s, [%s])", leanStr(funcName(fd)), strings.Join(codes, ", ")))
				}
			}
			sort.Strings(hc)
			sb.WriteString("/-- (handler, the status codes of its PromError / defaultError calls, in source order) -/\n")
			sb.WriteString("def handlerCodes : List (String × List Nat) :=\n  [" + strings.Join(hc, ",\n   ") + "]\n\n")
		}

		// ---- guard conditions mirrored by the model
		// only: "" = every condition; otherwise only the conditions mentioning it (the index/size guards — the
		// value comparisons of min/max/first belong to other properties)
		conds := []struct{ lean, file, recv, fn, only string }{
			{"fixPeriodConds", "reader/logql/logql_transpiler_v2/planner_from_fix.go", "FixPeriodPlanner", "Process", ""},
			{"aggProcessConds", "reader/logql/logql_transpiler_v2/internal_planner/planner_generic_aggregator.go", "AggregatorPlanner", "process", "streamLen"},
			{"lraAddValueConds", "reader/logql/logql_transpiler_v2/internal_planner/planner_lra.go", "LRAPlanner", "addValue", "len(stream.values)"},
			{"unwrapAddValueConds", "reader/logql/logql_transpiler_v2/internal_planner/planner_unwrap_agg.go", "UnwrapAggPlanner", "addValue", "len(stream.values)"},
			{"aggOpAddValueConds", "reader/logql/logql_transpiler_v2/internal_planner/planner_agg_op.go", "AggOpPlanner", "addValue", "len(stream.values)"},
			{"limitConds", "reader/logql/logql_transpiler_v2/internal_planner/planner_limit.go", "LimitPlanner", "Process", ""},
		}
		for _, c := range conds {
			fset, f, err := parseFile(c.file)
			if err != nil {
				return "", err
			}
			fd := findFunc(f, c.recv, c.fn)
			if fd == nil {
				return "", fmt.Errorf("%s.%s not found in %s", c.recv, c.fn, c.file)
			}
			var cs []string
			for _, x := range ifConds(fset, fd.Body) {
				if c.only == "" || strings.Contains(x, c.only) {
					cs = append(cs, x)
				}
			}
			sb.WriteString(fmt.Sprintf("/-- `if` conditions of %s.%s, in source order -/\ndef %s : List String :=\n  %s\n\n", c.recv, c.fn, c.lean, rsLeanStrList(cs)))
		}

		// ---- constants
		{
			_, f, err := parseFile("reader/logql/logql_transpiler_v2/planner_from_fix.go")
			if err != nil {
				return "", err
			}
			val := ""
			for _, d := range f.Decls {
				gd, ok := d.(*ast.GenDecl)
				if !ok || gd.Tok != token.CONST {
					continue
				}
				for _, sp := range gd.Specs {
					vs := sp.(*ast.ValueSpec)
					for i, n := range vs.Names {
						if n.Name == "maxFixPeriodPoints" && i < len(vs.Values) {
							if bl, ok := vs.Values[i].(*ast.BasicLit); ok && bl.Kind == token.INT {
								val = bl.Value
							}
						}
					}
				}
			}
			if val == "" {
				return "", fmt.Errorf("const maxFixPeriodPoints (integer literal) not found in planner_from_fix.go: FixPeriodPlanner has no bound on the slice it allocates")
			}
			sb.WriteString("def maxFixPeriodPoints : Int := " + val + "\n")
		}
		{
			_, f, err := parseFile("reader/logql/logql_transpiler_v2/internal_planner/planner_generic_aggregator.go")
			if err != nil {
				return "", err
			}
			fd := findFunc(f, "AggregatorPlanner", "process")
			if fd == nil {
				return "", fmt.Errorf("AggregatorPlanner.process not found")
			}
			val := ""
			ast.Inspect(fd.Body, func(n ast.Node) bool {
				if be, ok := n.(*ast.BinaryExpr); ok && be.Op == token.GTR {
					if id, ok := be.X.(*ast.Ident); ok && id.Name == "streamLen" {
						if bl, ok := be.Y.(*ast.BasicLit); ok && bl.Kind == token.INT {
							val = bl.Value
						}
					}
				}
				return true
			})
			if val == "" {
				return "", fmt.Errorf("`streamLen > <literal>` not found in AggregatorPlanner.process")
			}
			sb.WriteString("def aggStreamCap : Int := " + val + "\n")
		}
		{
			_, f, err := parseFile("reader/logql/logql_transpiler_v2/shared/planner_clickhouse_getter.go")
			if err != nil {
				return "", err
			}
			var lens []string
			for _, fn := range []string{"Scan", "ScanMatrix"} {
				fd := findFunc(f, "ClickhouseGetterPlanner", fn)
				if fd == nil {
					return "", fmt.Errorf("ClickhouseGetterPlanner.%s not found", fn)
				}
				mk, flush := "", ""
				ast.Inspect(fd.Body, func(n ast.Node) bool {
					if ce, ok := n.(*ast.CallExpr); ok {
						if id, ok := ce.Fun.(*ast.Ident); ok && id.Name == "make" && len(ce.Args) == 2 {
							if bl, ok := ce.Args[1].(*ast.BasicLit); ok && bl.Kind == token.INT {
								if mk != "" && mk != bl.Value {
									mk = "?"
								} else {
									mk = bl.Value
								}
							}
						}
					}
					if be, ok := n.(*ast.BinaryExpr); ok && be.Op == token.GEQ {
						if id, ok := be.X.(*ast.Ident); ok && id.Name == "i" {
							if bl, ok := be.Y.(*ast.BasicLit); ok && bl.Kind == token.INT {
								flush = bl.Value
							}
						}
					}
					return true
				})
				if mk == "" || mk == "?" || flush != mk {
					return "", fmt.Errorf("%s: batch buffer size (%q) and flush threshold (%q) not recognised or different", fn, mk, flush)
				}
				lens = append(lens, mk)
			}
			if lens[0] != lens[1] {
				return "", fmt.Errorf("Scan and ScanMatrix use different batch sizes")
			}
			sb.WriteString("def scanBufLen : Nat := " + lens[0] + "\n")
		}
		sb.WriteString("end Qryn.Gen.ReadSide\n")
		return sb.String(), nil
	})
}

func exprTextNoPos(e ast.Expr) string { return rsExprText(token.NewFileSet(), e) }
