package main

import (
	"fmt"
	"go/ast"
	"go/parser"
	"go/token"
	"os"
	"path/filepath"
	"sort"
	"strings"
)

// Gen.PreChains: the request-context discipline of the ingest handlers (writer/controller).
//
// A handler is `Build(append(cfg.ExtraMiddleware, <options>…)…)`: pre-request steps run in option order, then the
// parser selected by Content-Type (`doParse`), then the post-request steps. The steps communicate through
// `context.WithValue` / `ctx.Value(key)`; a value read with a bare type assertion `v.(T)` panics in the handler
// goroutine when the key is absent or holds another type. This fact lists
//   - for every named pre-request middleware of middleware.go: the (key, asserted type) of each bare assertion on a
//     context value and the keys it stores, both in source order;
//   - the same for `doParse` (+ the keys it reads through `getService`, which asserts only a non-nil value);
//   - the value of WithExtraMiddlewareDefault / WithExtraMiddlewareTempo;
//   - for every handler constructor: its pre-request steps in order (anonymous function literals with the keys they
//     store) and its parsers (content type, pre-request steps of a withComplexParser).
// Fails closed on: a bare assertion whose operand is not a context value with a literal key, a Build call of another
// shape, an option the extractor does not know.

type ctxFacts struct {
	asserts [][2]string // key, type
	writes  []string
}

// ctxFactsOf scans a function body (not descending into nested function literals unless told).
func ctxFactsOf(body ast.Node, where string) (ctxFacts, error) {
	var out ctxFacts
	var ferr error
	valueKey := func(e ast.Expr) (string, bool) { // X.Value("K")
		call, ok := e.(*ast.CallExpr)
		if !ok || len(call.Args) != 1 {
			return "", false
		}
		sel, ok := call.Fun.(*ast.SelectorExpr)
		if !ok || sel.Sel.Name != "Value" {
			return "", false
		}
		return strLit(call.Args[0])
	}
	varKey := map[string]string{}
	safe := map[*ast.TypeAssertExpr]bool{}
	type ev struct {
		pos  token.Pos
		kind int // 0 assert, 1 write
		a, b string
	}
	var evs []ev
	ast.Inspect(body, func(n ast.Node) bool {
		switch x := n.(type) {
		case *ast.AssignStmt:
			if len(x.Lhs) == 2 && len(x.Rhs) == 1 {
				if ta, ok := x.Rhs[0].(*ast.TypeAssertExpr); ok {
					safe[ta] = true // v, ok := e.(T)
				}
			}
			if len(x.Lhs) == 1 && len(x.Rhs) == 1 {
				if id, ok := x.Lhs[0].(*ast.Ident); ok {
					if k, ok := valueKey(x.Rhs[0]); ok {
						varKey[id.Name] = k
					}
				}
			}
		case *ast.TypeSwitchStmt:
			ast.Inspect(x.Assign, func(m ast.Node) bool {
				if ta, ok := m.(*ast.TypeAssertExpr); ok {
					safe[ta] = true
				}
				return true
			})
		case *ast.TypeAssertExpr:
			if safe[x] || x.Type == nil {
				return true
			}
			key := ""
			if id, ok := x.X.(*ast.Ident); ok {
				key = varKey[id.Name]
			} else if k, ok := valueKey(x.X); ok {
				key = k
			}
			if key == "" {
				if ferr == nil {
					ferr = fmt.Errorf("%s: a bare type assertion on %s, which is not a context value with a literal key", where, exprText(x.X))
				}
				return true
			}
			evs = append(evs, ev{x.Pos(), 0, key, exprText(x.Type)})
		case *ast.CallExpr:
			if exprText(x.Fun) == "context.WithValue" && len(x.Args) == 3 {
				k, ok := strLit(x.Args[1])
				if !ok {
					if ferr == nil {
						ferr = fmt.Errorf("%s: context.WithValue with a key that is not a string literal", where)
					}
					return true
				}
				evs = append(evs, ev{x.Pos(), 1, k, ""})
			}
		}
		return true
	})
	if ferr != nil {
		return out, ferr
	}
	sort.Slice(evs, func(i, j int) bool { return evs[i].pos < evs[j].pos })
	for _, e := range evs {
		if e.kind == 0 {
			out.asserts = append(out.asserts, [2]string{e.a, e.b})
		} else {
			out.writes = append(out.writes, e.a)
		}
	}
	return out, nil
}

type preStep struct {
	name   string
	writes []string
}

type preParser struct {
	contentType string
	pre         []preStep
}

type preHandler struct {
	name    string
	pre     []preStep
	parsers []preParser
}

func optionOf(e ast.Expr, where string) (step *preStep, pr *preParser, err error) {
	switch x := e.(type) {
	case *ast.Ident:
		return &preStep{name: x.Name}, nil, nil
	case *ast.CallExpr:
		switch fn := exprText(x.Fun); fn {
		case "withSimpleParser":
			ct, ok := strLit(x.Args[0])
			if !ok || len(x.Args) != 2 {
				return nil, nil, fmt.Errorf("%s: withSimpleParser of an unexpected shape", where)
			}
			return nil, &preParser{contentType: ct}, nil
		case "withComplexParser":
			ct, ok := strLit(x.Args[0])
			if !ok || len(x.Args) < 2 {
				return nil, nil, fmt.Errorf("%s: withComplexParser of an unexpected shape", where)
			}
			p := &preParser{contentType: ct}
			for _, o := range x.Args[2:] {
				st, ipr, err := optionOf(o, where)
				if err != nil {
					return nil, nil, err
				}
				if ipr != nil || st == nil {
					return nil, nil, fmt.Errorf("%s: a parser nested in withComplexParser", where)
				}
				if st.name != "post" {
					p.pre = append(p.pre, *st)
				}
			}
			return nil, p, nil
		case "withParserContext", "WithPreRequest":
			fl, ok := x.Args[0].(*ast.FuncLit)
			if !ok || len(x.Args) != 1 {
				return nil, nil, fmt.Errorf("%s: %s without a function literal", where, fn)
			}
			cf, err := ctxFactsOf(fl.Body, where)
			if err != nil {
				return nil, nil, err
			}
			if len(cf.asserts) > 0 {
				return nil, nil, fmt.Errorf("%s: a bare assertion on a context value inside an anonymous pre-request step", where)
			}
			return &preStep{name: "func", writes: cf.writes}, nil, nil
		case "withOkStatusAndBody", "withOkStatusAndJSONBody", "withPostRequest":
			return &preStep{name: "post"}, nil, nil
		}
	}
	return nil, nil, fmt.Errorf("%s: unknown build option %s", where, exprText(e))
}

func leanSteps(xs []preStep) string {
	q := make([]string, len(xs))
	for i, x := range xs {
		q[i] = "(" + leanStr(x.name) + ", " + leanStrList(x.writes) + ")"
	}
	return "[" + strings.Join(q, ", ") + "]"
}

func init() {
	register("PreChains", func() (string, error) {
		dir := "writer/controller"
		ents, err := os.ReadDir(filepath.Join(repo, dir))
		if err != nil {
			return "", err
		}
		files := map[string]*ast.File{}
		var names []string
		for _, e := range ents {
			if e.IsDir() || !strings.HasSuffix(e.Name(), ".go") || strings.HasSuffix(e.Name(), "_test.go") {
				continue
			}
			fset := token.NewFileSet()
			f, err := parser.ParseFile(fset, filepath.Join(repo, dir, e.Name()), nil, 0)
			if err != nil {
				return "", err
			}
			files[e.Name()] = f
			names = append(names, e.Name())
		}
		sort.Strings(names)
		// ---- named middlewares: package-level `var X = WithPreRequest(func …)`
		type mw struct {
			name string
			cf   ctxFacts
		}
		var mws []mw
		for _, fn := range names {
			for _, d := range files[fn].Decls {
				gd, ok := d.(*ast.GenDecl)
				if !ok || gd.Tok != token.VAR {
					continue
				}
				for _, sp := range gd.Specs {
					vs := sp.(*ast.ValueSpec)
					for i, n := range vs.Names {
						if i >= len(vs.Values) {
							continue
						}
						call, ok := vs.Values[i].(*ast.CallExpr)
						if !ok || exprText(call.Fun) != "WithPreRequest" || len(call.Args) != 1 {
							continue
						}
						fl, ok := call.Args[0].(*ast.FuncLit)
						if !ok {
							return "", fmt.Errorf("%s: WithPreRequest without a function literal", n.Name)
						}
						cf, err := ctxFactsOf(fl.Body, n.Name)
						if err != nil {
							return "", err
						}
						mws = append(mws, mw{n.Name, cf})
					}
				}
			}
		}
		sort.Slice(mws, func(i, j int) bool { return mws[i].name < mws[j].name })
		// ---- doParse and getService (builder.go)
		bf := files["builder.go"]
		if bf == nil {
			return "", fmt.Errorf("writer/controller/builder.go not found")
		}
		dp := findFunc(bf, "", "doParse")
		gs := findFunc(bf, "", "getService")
		gb := findFunc(bf, "", "getBodyStream")
		if dp == nil || gs == nil || gb == nil {
			return "", fmt.Errorf("doParse / getService / getBodyStream not found in builder.go")
		}
		dpf, err := ctxFactsOf(dp.Body, "doParse")
		if err != nil {
			return "", err
		}
		if gbf, err := ctxFactsOf(gb.Body, "getBodyStream"); err != nil || len(gbf.asserts) > 0 {
			return "", fmt.Errorf("getBodyStream: a bare assertion on a context value (%v)", err)
		}
		// getService: `svc := ctx.Value(name); if svc == nil { return nil }; return svc.(service.IInsertServiceV2)`
		nilChecked, asserted := false, ""
		for _, st := range gs.Body.List {
			switch x := st.(type) {
			case *ast.IfStmt:
				if be, ok := x.Cond.(*ast.BinaryExpr); ok && be.Op == token.EQL && exprText(be.X) == "svc" && exprText(be.Y) == "nil" && hasReturn(x.Body) {
					nilChecked = true
				}
			case *ast.ReturnStmt:
				if len(x.Results) == 1 {
					if ta, ok := x.Results[0].(*ast.TypeAssertExpr); ok && exprText(ta.X) == "svc" {
						if !nilChecked {
							return "", fmt.Errorf("getService: the assertion is not preceded by the nil check")
						}
						asserted = exprText(ta.Type)
					}
				}
			}
		}
		if asserted == "" {
			return "", fmt.Errorf("getService: shape not recognised")
		}
		var services []string
		ast.Inspect(dp.Body, func(n ast.Node) bool {
			if call, ok := n.(*ast.CallExpr); ok && exprText(call.Fun) == "getService" && len(call.Args) == 2 {
				if k, ok := strLit(call.Args[1]); ok {
					services = append(services, k)
				} else {
					err = fmt.Errorf("doParse: getService with a key that is not a literal")
				}
			}
			return true
		})
		if err != nil {
			return "", err
		}
		// ---- WithExtraMiddlewareDefault / Tempo
		extra := map[string][]string{}
		for _, fn := range names {
			for _, nm := range []string{"WithExtraMiddlewareDefault", "WithExtraMiddlewareTempo"} {
				if init := varInit(files[fn], nm); init != nil {
					cl, ok := init.(*ast.CompositeLit)
					if !ok {
						return "", fmt.Errorf("%s is not a slice literal", nm)
					}
					var xs []string
					for _, el := range cl.Elts {
						id, ok := el.(*ast.Ident)
						if !ok {
							return "", fmt.Errorf("%s: an element that is not a named middleware", nm)
						}
						xs = append(xs, id.Name)
					}
					extra[nm] = xs
				}
			}
		}
		if len(extra) != 2 {
			return "", fmt.Errorf("WithExtraMiddlewareDefault / WithExtraMiddlewareTempo not found")
		}
		// ---- handler constructors: func X(cfg MiddlewareConfig) … { return Build(append(cfg.ExtraMiddleware, …)…) }
		var handlers []preHandler
		for _, fn := range names {
			for _, d := range files[fn].Decls {
				fd, ok := d.(*ast.FuncDecl)
				if !ok || fd.Recv != nil || fd.Body == nil || fd.Type.Params == nil || len(fd.Type.Params.List) != 1 {
					continue
				}
				if exprText(fd.Type.Params.List[0].Type) != "MiddlewareConfig" {
					continue
				}
				where := fd.Name.Name
				if len(fd.Body.List) != 1 {
					return "", fmt.Errorf("%s: more than `return Build(…)`", where)
				}
				rs, ok := fd.Body.List[0].(*ast.ReturnStmt)
				if !ok || len(rs.Results) != 1 {
					return "", fmt.Errorf("%s: more than `return Build(…)`", where)
				}
				call, ok := rs.Results[0].(*ast.CallExpr)
				if !ok || exprText(call.Fun) != "Build" || len(call.Args) != 1 || call.Ellipsis == token.NoPos {
					return "", fmt.Errorf("%s: not `return Build(append(cfg.ExtraMiddleware, …)…)`", where)
				}
				app, ok := call.Args[0].(*ast.CallExpr)
				if !ok || exprText(app.Fun) != "append" || len(app.Args) < 1 || exprText(app.Args[0]) != "cfg.ExtraMiddleware" {
					return "", fmt.Errorf("%s: not `return Build(append(cfg.ExtraMiddleware, …)…)`", where)
				}
				hd := preHandler{name: where, pre: []preStep{{name: "cfg.ExtraMiddleware"}}}
				for _, o := range app.Args[1:] {
					st, pr, err := optionOf(o, where)
					if err != nil {
						return "", err
					}
					if st != nil && st.name != "post" {
						hd.pre = append(hd.pre, *st)
					}
					if pr != nil {
						hd.parsers = append(hd.parsers, *pr)
					}
				}
				if len(hd.parsers) == 0 {
					return "", fmt.Errorf("%s: a handler without a parser", where)
				}
				handlers = append(handlers, hd)
			}
		}
		sort.Slice(handlers, func(i, j int) bool { return handlers[i].name < handlers[j].name })
		if len(handlers) == 0 {
			return "", fmt.Errorf("no handler constructor found")
		}

		var b strings.Builder
		b.WriteString("namespace Qryn.Gen.PreChains\n")
		b.WriteString("/-- named pre-request middlewares: (name, bare assertions on context values (key, type), keys stored), source order -/\n")
		b.WriteString("def middlewares : List (String × List (String × String) × List String) := [\n")
		for i, m := range mws {
			as := make([]string, len(m.cf.asserts))
			for j, a := range m.cf.asserts {
				as[j] = "(" + leanStr(a[0]) + ", " + leanStr(a[1]) + ")"
			}
			sep := ","
			if i == len(mws)-1 {
				sep = ""
			}
			fmt.Fprintf(&b, "  (%s, [%s], %s)%s\n", leanStr(m.name), strings.Join(as, ", "), leanStrList(m.cf.writes), sep)
		}
		b.WriteString("]\n")
		as := make([]string, len(dpf.asserts))
		for j, a := range dpf.asserts {
			as[j] = "(" + leanStr(a[0]) + ", " + leanStr(a[1]) + ")"
		}
		fmt.Fprintf(&b, "/-- doParse: bare assertions on context values -/\ndef doParseAsserts : List (String × String) := [%s]\n", strings.Join(as, ", "))
		fmt.Fprintf(&b, "/-- doParse: keys read through getService (nil check, then `.(%s)`) -/\ndef doParseServices : List String := %s\n", asserted, leanStrList(services))
		fmt.Fprintf(&b, "def serviceType : String := %s\n", leanStr(asserted))
		fmt.Fprintf(&b, "def extraMiddlewareDefault : List String := %s\ndef extraMiddlewareTempo : List String := %s\n",
			leanStrList(extra["WithExtraMiddlewareDefault"]), leanStrList(extra["WithExtraMiddlewareTempo"]))
		b.WriteString("/-- handler constructors: (name, pre-request steps in order as (name | \"func\", keys an anonymous step stores),\n    parsers as (content type, pre-request steps of a withComplexParser)) -/\n")
		b.WriteString("def handlers : List (String × List (String × List String) × List (String × List (String × List String))) := [\n")
		for i, hd := range handlers {
			ps := make([]string, len(hd.parsers))
			for j, p := range hd.parsers {
				ps[j] = "(" + leanStr(p.contentType) + ", " + leanSteps(p.pre) + ")"
			}
			sep := ","
			if i == len(handlers)-1 {
				sep = ""
			}
			fmt.Fprintf(&b, "  (%s, %s, [%s])%s\n", leanStr(hd.name), leanSteps(hd.pre), strings.Join(ps, ", "), sep)
		}
		b.WriteString("]\nend Qryn.Gen.PreChains\n")
		return b.String(), nil
	})
}
