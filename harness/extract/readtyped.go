package main

// Typed part of Gen.ReadGoroutines (C12): the fault-site census on go/types + SSA + a CHA call graph.
//
// Loading: golang.org/x/tools/go/packages on /repo's own module (x/tools is an indirect requirement of /repo's go.mod,
// so it is in go.sum and in the module cache: works offline with GOFLAGS=-mod=mod GOPROXY=off). qryn's packages are
// type-checked from source, everything else comes from export data (`go list -export`), ≈ 5 s warm.
//
// Roots = goroutines whose stack starts in code under reader/:
//   * every `go` statement in a function of a package under reader/ (closures included);
//   * every function under reader/ (or the main package) with the signature of an http.HandlerFunc /
//     a ServeHTTP method: net/http runs it on the connection goroutine (handler goroutine).
// For each root: the qryn functions reachable on THAT stack through the call graph — static calls, deferred calls,
// interface calls resolved by CHA to the qryn types that implement the interface, calls of function values resolved to the
// address-taken qryn functions of identical signature, closures handed to a library function (callbacks) — and in
// each of them every SSA instruction that can panic and is not discharged by a local argument (see rtSites).
// A function with a DIRECT deferred recover (the deferred callee itself calls recover()) covers whatever is
// dominated by its defer statement, its callees included: nothing behind it is listed for that stack.
//
// What stays outside: code of other modules (listed by name as `externs` per uncovered function), qryn methods that
// a library calls back through an interface (json.Marshaler, the Prometheus engine's Queryable, database/sql
// drivers), reflection, the run time itself.

import (
	"bytes"
	"fmt"
	"go/ast"
	"go/constant"
	"go/printer"
	"go/token"
	"go/types"
	"os"
	"sort"
	"strings"

	"golang.org/x/tools/go/ast/astutil"
	"golang.org/x/tools/go/callgraph"
	"golang.org/x/tools/go/callgraph/cha"
	"golang.org/x/tools/go/packages"
	"golang.org/x/tools/go/ssa"
	"golang.org/x/tools/go/ssa/ssautil"
)

const rtModule = "github.com/metrico/qryn"

type rtSite struct {
	kind, text string
	guards     []string
	pos        token.Pos
	in         ssa.Instruction
}

type rtFunc struct {
	fn      *ssa.Function
	name    string
	sites   []rtSite // every undischarged panic site of the function, in source order
	recDef  *ssa.Defer
	externs map[string]bool
}

type rtRoot struct {
	name, kind string // kind: "go" | "handler"
	entry      []*ssa.Function
	recovers   bool
	fns        []string // uncovered qryn functions on its stack (sorted)
	wide       int      // > 0: a handler root that is not expanded (number of functions on its stack)
	direct     []string // wide roots: the qryn functions the entry function calls outside a recover
}

type rtWorld struct {
	fset  *token.FileSet
	prog  *ssa.Program
	files map[*token.File]*ast.File
	cg    *callgraph.Graph
	funcs map[*ssa.Function]*rtFunc
	// synthetic edges: closures / function values handed to a library call (callbacks run on the caller's stack)
	callbacks map[*ssa.Function][]rtEdge
}

type rtEdge struct {
	site   ssa.Instruction
	callee *ssa.Function
}

func rtLoad() (*rtWorld, error) {
	cfg := &packages.Config{
		Mode: packages.NeedName | packages.NeedFiles | packages.NeedCompiledGoFiles | packages.NeedImports | packages.NeedTypes |
			packages.NeedTypesSizes | packages.NeedSyntax | packages.NeedTypesInfo | packages.NeedModule,
		Dir: repo,
		Env: append(os.Environ(), "GOFLAGS=-mod=mod", "GOPROXY=off"),
	}
	pkgs, err := packages.Load(cfg, "./...")
	if err != nil {
		return nil, fmt.Errorf("go/packages: %v", err)
	}
	// only what the binary links: the import closure of the main package, restricted to the module
	byPath := map[string]*packages.Package{}
	for _, p := range pkgs {
		byPath[p.PkgPath] = p
	}
	root := byPath[rtModule]
	if root == nil {
		return nil, fmt.Errorf("main package %s not loaded", rtModule)
	}
	need := map[string]bool{}
	var visit func(p *packages.Package)
	visit = func(p *packages.Package) {
		if need[p.PkgPath] {
			return
		}
		need[p.PkgPath] = true
		for path := range p.Imports {
			if q := byPath[path]; q != nil {
				visit(q)
			}
		}
	}
	visit(root)
	var use []*packages.Package
	for _, p := range pkgs {
		if !need[p.PkgPath] {
			continue
		}
		if len(p.Errors) > 0 {
			return nil, fmt.Errorf("package %s does not type-check: %v", p.PkgPath, p.Errors[0])
		}
		use = append(use, p)
	}
	if len(use) < 10 {
		return nil, fmt.Errorf("only %d qryn packages in the import closure of the main package", len(use))
	}
	prog, _ := ssautil.Packages(use, ssa.InstantiateGenerics)
	prog.Build()
	w := &rtWorld{fset: prog.Fset, prog: prog, files: map[*token.File]*ast.File{}, funcs: map[*ssa.Function]*rtFunc{},
		callbacks: map[*ssa.Function][]rtEdge{}}
	for _, p := range use {
		for _, f := range p.Syntax {
			w.files[prog.Fset.File(f.Pos())] = f
		}
	}
	w.cg = cha.CallGraph(prog)
	return w, nil
}

func rtPkgPath(fn *ssa.Function) string {
	for f := fn; f != nil; f = f.Parent() {
		if f.Pkg != nil {
			return f.Pkg.Pkg.Path()
		}
		if o := f.Object(); o != nil && o.Pkg() != nil {
			return o.Pkg().Path()
		}
		if f.Origin() != nil && f.Origin() != f {
			return rtPkgPath(f.Origin())
		}
	}
	return ""
}

func rtIsQryn(fn *ssa.Function) bool {
	p := rtPkgPath(fn)
	return p == rtModule || strings.HasPrefix(p, rtModule+"/")
}

func rtUnderReader(fn *ssa.Function) bool {
	p := rtPkgPath(fn)
	return strings.HasPrefix(p, rtModule+"/reader/") || p == rtModule+"/reader"
}

func rtFnName(fn *ssa.Function) string {
	s := fn.RelString(nil)
	return strings.ReplaceAll(s, rtModule+"/", "")
}

func (w *rtWorld) text(pos token.Pos) string {
	if !pos.IsValid() {
		return "?"
	}
	tf := w.fset.File(pos)
	f := w.files[tf]
	if f == nil {
		return "?"
	}
	path, _ := astutil.PathEnclosingInterval(f, pos, pos)
	for _, n := range path {
		switch n.(type) {
		case *ast.IndexExpr, *ast.SliceExpr, *ast.BinaryExpr, *ast.CallExpr, *ast.TypeAssertExpr, *ast.SendStmt, *ast.StarExpr,
			*ast.SelectorExpr, *ast.AssignStmt, *ast.IncDecStmt, *ast.UnaryExpr, *ast.RangeStmt, *ast.CompositeLit, *ast.KeyValueExpr, *ast.Ident,
			*ast.DeferStmt, *ast.GoStmt, *ast.ExprStmt, *ast.CommClause, *ast.ReturnStmt:
			if ds, ok := n.(*ast.DeferStmt); ok {
				return w.nodeText(ds.Call)
			}
			if cc, ok := n.(*ast.CommClause); ok && cc.Comm != nil {
				return w.nodeText(cc.Comm)
			}
			if rs, ok := n.(*ast.RangeStmt); ok {
				return "range " + w.nodeText(rs.X)
			}
			return w.nodeText(n)
		}
	}
	return "?"
}

func (w *rtWorld) nodeText(n ast.Node) string {
	var b bytes.Buffer
	printer.Fprint(&b, w.fset, n)
	t := strings.Join(strings.Fields(b.String()), " ")
	if len(t) > 140 {
		t = t[:140] + "…"
	}
	return t
}

// ---------------------------------------------------------------------------------------------------------------
// facts that hold at a block: the conditions of the dominating `if`s

type rtFact struct {
	cond  ssa.Value
	truth bool
}

func rtFacts(b *ssa.BasicBlock) []rtFact {
	var res []rtFact
	for d := b; d != nil; {
		id := d.Idom()
		if id == nil {
			break
		}
		if len(id.Instrs) > 0 {
			if iff, ok := id.Instrs[len(id.Instrs)-1].(*ssa.If); ok && len(id.Succs) == 2 && id.Succs[0] != id.Succs[1] {
				for k := 0; k < 2; k++ {
					s := id.Succs[k]
					if len(s.Preds) == 1 && s.Dominates(b) {
						res = append(res, rtFact{iff.Cond, k == 0})
					}
				}
			}
		}
		d = id
	}
	return res
}

func rtStripConv(v ssa.Value) ssa.Value {
	for {
		switch x := v.(type) {
		case *ssa.Convert:
			if rtIsInt(x.X.Type()) && rtIsInt(x.Type()) {
				v = x.X
				continue
			}
		case *ssa.ChangeType:
			v = x.X
			continue
		}
		return v
	}
}

func rtIsInt(t types.Type) bool {
	b, ok := t.Underlying().(*types.Basic)
	return ok && b.Info()&types.IsInteger != 0
}

func rtIsUnsigned(t types.Type) bool {
	b, ok := t.Underlying().(*types.Basic)
	return ok && b.Info()&types.IsUnsigned != 0
}

func rtConstInt(v ssa.Value) (int64, bool) {
	c, ok := rtStripConv(v).(*ssa.Const)
	if !ok || c.Value == nil || c.Value.Kind() != constant.Int {
		return 0, false
	}
	return c.Int64(), true
}

// structural equality of two values: the same SSA value, or the same pure expression over equal operands; a load is
// equal to another load of a structurally equal address when the function never stores to such an address
func rtSame(a, b ssa.Value, depth int) bool {
	a, b = rtStripConv(a), rtStripConv(b)
	if a == b {
		return true
	}
	if depth > 6 {
		return false
	}
	switch x := a.(type) {
	case *ssa.Const:
		y, ok := b.(*ssa.Const)
		return ok && x.Value != nil && y.Value != nil && constant.Compare(x.Value, token.EQL, y.Value)
	case *ssa.UnOp:
		y, ok := b.(*ssa.UnOp)
		if !ok || x.Op != y.Op || x.CommaOk || y.CommaOk {
			return false
		}
		if x.Op == token.MUL {
			return rtSame(x.X, y.X, depth+1) && !rtStoredTo(x.Parent(), x.X)
		}
		if x.Op == token.ARROW {
			return false
		}
		return rtSame(x.X, y.X, depth+1)
	case *ssa.FieldAddr:
		y, ok := b.(*ssa.FieldAddr)
		return ok && x.Field == y.Field && rtSame(x.X, y.X, depth+1)
	case *ssa.Field:
		y, ok := b.(*ssa.Field)
		return ok && x.Field == y.Field && rtSame(x.X, y.X, depth+1)
	case *ssa.IndexAddr:
		y, ok := b.(*ssa.IndexAddr)
		return ok && rtSame(x.X, y.X, depth+1) && rtSame(x.Index, y.Index, depth+1)
	case *ssa.BinOp:
		y, ok := b.(*ssa.BinOp)
		return ok && x.Op == y.Op && rtSame(x.X, y.X, depth+1) && rtSame(x.Y, y.Y, depth+1)
	case *ssa.Call:
		y, ok := b.(*ssa.Call)
		if !ok {
			return false
		}
		bx, ok1 := x.Call.Value.(*ssa.Builtin)
		by, ok2 := y.Call.Value.(*ssa.Builtin)
		if ok1 && ok2 && bx.Name() == by.Name() && (bx.Name() == "len" || bx.Name() == "cap") {
			return rtSame(x.Call.Args[0], y.Call.Args[0], depth+1)
		}
	}
	return false
}

// does the function store to an address structurally equal to addr (other than through the identical value's
// initialisation)? Conservative: any store to the same field of any base counts.
func rtStoredTo(fn *ssa.Function, addr ssa.Value) bool {
	if fn == nil {
		return true
	}
	key := func(v ssa.Value) string {
		switch x := v.(type) {
		case *ssa.FieldAddr:
			return fmt.Sprintf("F%d:%s", x.Field, x.X.Type().String())
		case *ssa.IndexAddr:
			return "I:" + x.X.Type().String()
		case *ssa.Global:
			return "G:" + x.Name()
		case *ssa.Alloc, *ssa.Parameter, *ssa.FreeVar:
			return "V:" + v.Name()
		}
		return "?"
	}
	k := key(addr)
	if k == "?" {
		return true
	}
	for _, b := range fn.Blocks {
		for _, in := range b.Instrs {
			if st, ok := in.(*ssa.Store); ok && key(st.Addr) == k {
				return true
			}
		}
	}
	return false
}

func rtIsLenOf(v, x ssa.Value) bool {
	c, ok := rtStripConv(v).(*ssa.Call)
	if !ok {
		return false
	}
	b, ok := c.Call.Value.(*ssa.Builtin)
	return ok && b.Name() == "len" && rtSame(c.Call.Args[0], x, 0)
}

// a lower bound of an integer value, or (0,false). Cycles through phis are resolved optimistically only when every
// step on the cycle adds a non-negative constant (loop counters).
func rtLower(v ssa.Value, seen map[ssa.Value]bool, facts []rtFact) (int64, bool) {
	v = rtStripConvKeepUnsigned(v)
	if c, ok := rtConstInt(v); ok {
		return c, true
	}
	if rtIsUnsigned(v.Type()) {
		return 0, true
	}
	for _, f := range facts {
		if lo, ok := rtFactLower(f, v); ok {
			return lo, true
		}
	}
	switch x := v.(type) {
	case *ssa.Call:
		if b, ok := x.Call.Value.(*ssa.Builtin); ok && (b.Name() == "len" || b.Name() == "cap") {
			return 0, true
		}
		if b, ok := x.Call.Value.(*ssa.Builtin); ok && (b.Name() == "min" || b.Name() == "max") {
			best, have := int64(0), false
			for _, a := range x.Call.Args {
				lo, ok := rtLower(a, seen, facts)
				if b.Name() == "min" && !ok {
					return 0, false
				}
				if ok && (!have || (b.Name() == "min" && lo < best) || (b.Name() == "max" && lo > best)) {
					best, have = lo, true
				}
			}
			return best, have
		}
	case *ssa.BinOp:
		switch x.Op {
		case token.ADD:
			a, ok1 := rtLower(x.X, seen, facts)
			b, ok2 := rtLower(x.Y, seen, facts)
			if ok1 && ok2 && a >= -1<<40 && b >= -1<<40 {
				return a + b, true
			}
		case token.MUL:
			a, ok1 := rtLower(x.X, seen, facts)
			b, ok2 := rtLower(x.Y, seen, facts)
			if ok1 && ok2 && a >= 0 && b >= 0 {
				return 0, true
			}
		case token.QUO, token.REM:
			a, ok1 := rtLower(x.X, seen, facts)
			b, ok2 := rtLower(x.Y, seen, facts)
			if ok1 && ok2 && a >= 0 && b >= 0 {
				return 0, true
			}
		case token.SUB:
			a, ok1 := rtLower(x.X, seen, facts)
			if c, ok := rtConstInt(x.Y); ok && ok1 && !seen[nil] {
				return a - c, true
			}
		case token.AND:
			if c, ok := rtConstInt(x.Y); ok && c >= 0 {
				return 0, true
			}
		}
	case *ssa.Phi:
		if seen[x] {
			return 1 << 50, true // optimistic: checked below by rtMonotoneCycle
		}
		if !rtMonotoneCycle(x) {
			return 0, false
		}
		seen[x] = true
		defer delete(seen, x)
		best, have := int64(0), false
		for _, e := range x.Edges {
			lo, ok := rtLower(e, seen, nil)
			if !ok {
				return 0, false
			}
			if !have || lo < best {
				best, have = lo, true
			}
		}
		return best, have
	}
	return 0, false
}

func rtStripConvKeepUnsigned(v ssa.Value) ssa.Value {
	for {
		switch x := v.(type) {
		case *ssa.Convert:
			if rtIsInt(x.X.Type()) && rtIsInt(x.Type()) && !rtIsUnsigned(x.X.Type()) && !rtIsUnsigned(x.Type()) {
				v = x.X
				continue
			}
		case *ssa.ChangeType:
			v = x.X
			continue
		}
		return v
	}
}

// every path from the phi back to itself only adds non-negative constants (or passes through other phis / conversions)
func rtMonotoneCycle(p *ssa.Phi) bool {
	var ok func(v ssa.Value, depth int, seen map[ssa.Value]bool) bool
	ok = func(v ssa.Value, depth int, seen map[ssa.Value]bool) bool {
		v = rtStripConvKeepUnsigned(v)
		if v == p {
			return true
		}
		if seen[v] {
			return true
		}
		seen[v] = true
		if depth > 8 {
			return false
		}
		switch x := v.(type) {
		case *ssa.Phi:
			for _, e := range x.Edges {
				if !ok(e, depth+1, seen) {
					return false
				}
			}
			return true
		case *ssa.BinOp:
			if !rtReaches(x, p, 0) {
				return true
			}
			if x.Op == token.ADD {
				if c, isC := rtConstInt(x.Y); isC && c >= 0 {
					return ok(x.X, depth+1, seen)
				}
				if c, isC := rtConstInt(x.X); isC && c >= 0 {
					return ok(x.Y, depth+1, seen)
				}
			}
			return false
		default:
			return !rtReaches(v, p, 0)
		}
	}
	for _, e := range p.Edges {
		if !ok(e, 0, map[ssa.Value]bool{}) {
			return false
		}
	}
	return true
}

func rtReaches(v ssa.Value, p *ssa.Phi, depth int) bool {
	if v == p {
		return true
	}
	if depth > 8 {
		return true
	}
	in, ok := v.(ssa.Instruction)
	if !ok {
		return false
	}
	if _, isPhi := v.(*ssa.Phi); isPhi && depth > 0 {
		// another phi: look through (bounded)
	}
	for _, op := range in.Operands(nil) {
		if *op != nil && rtReaches(*op, p, depth+1) {
			return true
		}
	}
	return false
}

// normalised comparison  x OP y  that holds
type rtCmp struct {
	op   token.Token
	x, y ssa.Value
}

func rtAsCmp(f rtFact) (rtCmp, bool) {
	b, ok := f.cond.(*ssa.BinOp)
	if !ok {
		if u, isNot := f.cond.(*ssa.UnOp); isNot && u.Op == token.NOT {
			return rtAsCmp(rtFact{u.X, !f.truth})
		}
		return rtCmp{}, false
	}
	op := b.Op
	switch op {
	case token.LSS, token.LEQ, token.GTR, token.GEQ, token.EQL, token.NEQ:
	default:
		return rtCmp{}, false
	}
	if !f.truth {
		switch op {
		case token.LSS:
			op = token.GEQ
		case token.LEQ:
			op = token.GTR
		case token.GTR:
			op = token.LEQ
		case token.GEQ:
			op = token.LSS
		case token.EQL:
			op = token.NEQ
		case token.NEQ:
			op = token.EQL
		}
	}
	return rtCmp{op, b.X, b.Y}, true
}

func rtFlip(c rtCmp) rtCmp {
	op := c.op
	switch c.op {
	case token.LSS:
		op = token.GTR
	case token.LEQ:
		op = token.GEQ
	case token.GTR:
		op = token.LSS
	case token.GEQ:
		op = token.LEQ
	}
	return rtCmp{op, c.y, c.x}
}

// lower bound of v implied by one fact
func rtFactLower(f rtFact, v ssa.Value) (int64, bool) {
	c, ok := rtAsCmp(f)
	if !ok {
		return 0, false
	}
	for _, cc := range []rtCmp{c, rtFlip(c)} {
		if !rtSame(cc.x, v, 0) {
			continue
		}
		k, isC := rtConstInt(cc.y)
		if !isC {
			if lo, ok2 := rtLower(cc.y, map[ssa.Value]bool{}, nil); ok2 && (cc.op == token.GEQ || cc.op == token.GTR || cc.op == token.EQL) {
				if cc.op == token.GTR {
					return lo + 1, true
				}
				return lo, true
			}
			continue
		}
		switch cc.op {
		case token.GEQ, token.EQL:
			return k, true
		case token.GTR:
			return k + 1, true
		}
	}
	return 0, false
}

// i < len(x) follows from the facts
func rtBelowLen(i, x ssa.Value, facts []rtFact, strict bool) bool {
	i = rtStripConv(i)
	// i == len(x) - c, c > 0, with len(x) >= c known … handled by rtLenAtLeast below
	if b, ok := i.(*ssa.BinOp); ok && b.Op == token.SUB && rtIsLenOf(b.X, x) {
		if c, isC := rtConstInt(b.Y); isC && (c > 0 || (!strict && c >= 0)) {
			return true // the lower bound is checked separately (needs len(x) ≥ c)
		}
	}
	for _, f := range facts {
		c, ok := rtAsCmp(f)
		if !ok {
			continue
		}
		for _, cc := range []rtCmp{c, rtFlip(c)} {
			if !rtSame(cc.x, i, 0) {
				continue
			}
			switch cc.op {
			case token.LSS:
				if rtIsLenOf(cc.y, x) || rtLenMinus(cc.y, x, 0) {
					return true
				}
			case token.LEQ:
				if rtLenMinus(cc.y, x, 1) || (!strict && rtIsLenOf(cc.y, x)) {
					return true
				}
			case token.EQL:
				if rtLenMinus(cc.y, x, 1) || (!strict && rtIsLenOf(cc.y, x)) {
					return true
				}
			}
		}
	}
	// constant index against a known minimum length
	if k, isC := rtConstInt(i); isC {
		if n, ok := rtLenAtLeast(x, facts); ok && (k < n || (!strict && k <= n)) {
			return true
		}
	}
	return false
}

// v == len(x) - c' with c' ≥ c
func rtLenMinus(v, x ssa.Value, c int64) bool {
	b, ok := rtStripConv(v).(*ssa.BinOp)
	if !ok || b.Op != token.SUB || !rtIsLenOf(b.X, x) {
		return false
	}
	k, isC := rtConstInt(b.Y)
	return isC && k >= c
}

// the facts imply len(x) ≥ n
func rtLenAtLeast(x ssa.Value, facts []rtFact) (int64, bool) {
	best, have := int64(0), false
	upd := func(n int64) {
		if !have || n > best {
			best, have = n, true
		}
	}
	for _, f := range facts {
		c, ok := rtAsCmp(f)
		if !ok {
			continue
		}
		for _, cc := range []rtCmp{c, rtFlip(c)} {
			if !rtIsLenOf(cc.x, x) {
				continue
			}
			k, isC := rtConstInt(cc.y)
			if !isC {
				continue
			}
			switch cc.op {
			case token.GTR:
				upd(k + 1)
			case token.GEQ, token.EQL:
				upd(k)
			case token.NEQ:
				if k == 0 {
					upd(1)
				}
			}
		}
	}
	// a slice made with a constant length / a composite literal, never re-assigned (same SSA value)
	switch m := rtStripConv(x).(type) {
	case *ssa.MakeSlice:
		if k, ok := rtConstInt(m.Len); ok {
			upd(k)
		}
	case *ssa.Slice:
		if at, ok := m.X.Type().Underlying().(*types.Pointer); ok && m.Low == nil && m.High == nil {
			if arr, ok := at.Elem().Underlying().(*types.Array); ok {
				upd(arr.Len())
			}
		}
	}
	return best, have
}

func rtNonZero(v ssa.Value, facts []rtFact) bool {
	if c, ok := rtConstInt(v); ok {
		return c != 0
	}
	if cst, ok := rtStripConv(v).(*ssa.Const); ok && cst.Value != nil {
		return constant.Sign(cst.Value) != 0
	}
	if lo, ok := rtLower(v, map[ssa.Value]bool{}, facts); ok && lo > 0 {
		return true
	}
	for _, f := range facts {
		c, ok := rtAsCmp(f)
		if !ok {
			continue
		}
		for _, cc := range []rtCmp{c, rtFlip(c)} {
			if !rtSame(cc.x, v, 0) {
				continue
			}
			k, isC := rtConstInt(cc.y)
			if !isC {
				continue
			}
			switch cc.op {
			case token.NEQ:
				if k == 0 {
					return true
				}
			case token.GTR:
				if k >= 0 {
					return true
				}
			case token.GEQ:
				if k > 0 {
					return true
				}
			case token.LSS:
				if k <= 0 {
					return true
				}
			case token.LEQ:
				if k < 0 {
					return true
				}
			}
		}
	}
	return false
}

// the facts say v != nil (or err == nil for the error that came with v: the (value, error) convention is NOT assumed here)
func rtNonNilByFacts(v ssa.Value, facts []rtFact) bool {
	for _, f := range facts {
		c, ok := rtAsCmp(f)
		if !ok {
			continue
		}
		for _, cc := range []rtCmp{c, rtFlip(c)} {
			if cc.op != token.NEQ || !rtSame(cc.x, v, 0) {
				continue
			}
			if k, ok := cc.y.(*ssa.Const); ok && k.Value == nil {
				return true
			}
		}
	}
	return false
}

// x.(T) inside the `case T:` of a type switch over x (or after `_, ok := x.(T); ok`): a dominating comma-ok assertion of
// the same value to the same type succeeded
func rtAssertKnown(ta *ssa.TypeAssert, facts []rtFact) bool {
	for _, f := range facts {
		if !f.truth {
			continue
		}
		ex, ok := f.cond.(*ssa.Extract)
		if !ok || ex.Index != 1 {
			continue
		}
		t, ok := ex.Tuple.(*ssa.TypeAssert)
		if ok && t.CommaOk && types.Identical(t.AssertedType, ta.AssertedType) && rtSame(t.X, ta.X, 0) {
			return true
		}
	}
	return false
}

// guards as text, innermost last
func (w *rtWorld) guardTexts(b *ssa.BasicBlock) []string {
	fs := rtFacts(b)
	var res []string
	for i := len(fs) - 1; i >= 0; i-- {
		f := fs[i]
		t := w.condText(f.cond)
		if t == "" {
			continue
		}
		if f.truth {
			res = append(res, "if "+t)
		} else {
			res = append(res, "unless "+t)
		}
	}
	return res
}

func (w *rtWorld) condText(v ssa.Value) string {
	pos := v.Pos()
	if b, ok := v.(*ssa.BinOp); ok {
		pos = b.Pos()
	}
	if !pos.IsValid() {
		return ""
	}
	tf := w.fset.File(pos)
	f := w.files[tf]
	if f == nil {
		return ""
	}
	path, _ := astutil.PathEnclosingInterval(f, pos, pos)
	for _, n := range path {
		switch n.(type) {
		case *ast.BinaryExpr, *ast.UnaryExpr, *ast.CallExpr, *ast.Ident, *ast.SelectorExpr:
			return w.nodeText(n)
		}
	}
	return ""
}

// ---------------------------------------------------------------------------------------------------------------
// nil-ability of a pointer / interface / func value: where does it come from?

// origin classes that make a value suspicious
func (w *rtWorld) nilOrigin(v ssa.Value, seen map[ssa.Value]bool) string {
	if seen[v] {
		return ""
	}
	seen[v] = true
	switch x := v.(type) {
	case *ssa.Const:
		if x.Value == nil {
			return "nil literal"
		}
	case *ssa.Lookup:
		if _, ok := x.X.Type().Underlying().(*types.Map); ok {
			return "map lookup"
		}
	case *ssa.Extract:
		switch t := x.Tuple.(type) {
		case *ssa.Lookup:
			if x.Index == 0 {
				return "map lookup"
			}
		case *ssa.TypeAssert:
			if x.Index == 0 {
				return "comma-ok assertion"
			}
		case *ssa.Call:
			return w.nilReturn(t, x.Index)
		}
	case *ssa.Call:
		return w.nilReturn(x, 0)
	case *ssa.UnOp:
		if x.Op == token.ARROW {
			return "receive (zero value when the channel is closed)"
		}
	case *ssa.Phi:
		for _, e := range x.Edges {
			if o := w.nilOrigin(e, seen); o != "" {
				return o
			}
		}
	case *ssa.ChangeType:
		return w.nilOrigin(x.X, seen)
	case *ssa.ChangeInterface:
		return w.nilOrigin(x.X, seen)
	}
	return ""
}

// can the static qryn callee return a nil at result position idx WITHOUT a non-nil error next to it?
func (w *rtWorld) nilReturn(c *ssa.Call, idx int) string {
	callee := c.Call.StaticCallee()
	if callee == nil || !rtIsQryn(callee) || len(callee.Blocks) == 0 {
		return ""
	}
	res := callee.Signature.Results()
	if idx >= res.Len() {
		return ""
	}
	switch res.At(idx).Type().Underlying().(type) {
	case *types.Pointer, *types.Interface, *types.Signature, *types.Map, *types.Chan:
	default:
		return ""
	}
	errIdx := -1
	if res.Len() > 1 && types.Identical(res.At(res.Len()-1).Type(), types.Universe.Lookup("error").Type()) && idx != res.Len()-1 {
		errIdx = res.Len() - 1
	}
	for _, b := range callee.Blocks {
		for _, in := range b.Instrs {
			r, ok := in.(*ssa.Return)
			if !ok || idx >= len(r.Results) {
				continue
			}
			k, isC := r.Results[idx].(*ssa.Const)
			if !isC || k.Value != nil {
				continue
			}
			if errIdx < 0 {
				return "nil result of " + rtFnName(callee)
			}
			if ek, ok := r.Results[errIdx].(*ssa.Const); ok && ek.Value == nil {
				return "nil result with nil error of " + rtFnName(callee)
			}
		}
	}
	return ""
}

// ---------------------------------------------------------------------------------------------------------------
// the panic sites of one function

func (w *rtWorld) analyse(fn *ssa.Function) *rtFunc {
	if r, ok := w.funcs[fn]; ok {
		return r
	}
	rf := &rtFunc{fn: fn, name: rtFnName(fn), externs: map[string]bool{}}
	w.funcs[fn] = rf
	if len(fn.Blocks) == 0 {
		return rf
	}
	// direct deferred recover
	for _, b := range fn.Blocks {
		for _, in := range b.Instrs {
			if d, ok := in.(*ssa.Defer); ok && rf.recDef == nil && rtRecovers(d) {
				rf.recDef = d
			}
		}
	}
	var cur ssa.Instruction
	add := func(kind string, pos token.Pos, b *ssa.BasicBlock, extra ...string) {
		s := rtSite{kind: kind, text: w.text(pos), pos: pos, guards: append(w.guardTexts(b), extra...), in: cur}
		rf.sites = append(rf.sites, s)
	}
	closes := map[string]int{}
	for _, b := range fn.Blocks {
		for _, in := range b.Instrs {
			if c, ok := in.(ssa.CallInstruction); ok {
				if bi, ok := c.Common().Value.(*ssa.Builtin); ok && bi.Name() == "close" {
					closes[w.chanKey(c.Common().Args[0])]++
				}
			}
		}
	}
	for _, b := range fn.Blocks {
		var facts []rtFact
		factsDone := false
		getFacts := func() []rtFact {
			if !factsDone {
				facts, factsDone = rtFacts(b), true
			}
			return facts
		}
		for _, in := range b.Instrs {
			cur = in
			switch x := in.(type) {
			case *ssa.IndexAddr:
				w.checkIndex(rf, x.X, x.Index, x.Pos(), b, getFacts(), add)
			case *ssa.Index:
				w.checkIndex(rf, x.X, x.Index, x.Pos(), b, getFacts(), add)
			case *ssa.Lookup:
				if bt, ok := x.X.Type().Underlying().(*types.Basic); ok && bt.Info()&types.IsString != 0 {
					w.checkIndex(rf, x.X, x.Index, x.Pos(), b, getFacts(), add)
				}
			case *ssa.Slice:
				w.checkSlice(x, b, getFacts(), add)
			case *ssa.BinOp:
				switch x.Op {
				case token.QUO, token.REM:
					if rtIsInt(x.X.Type()) && !rtNonZero(x.Y, getFacts()) {
						add("div", x.Pos(), b)
					}
				case token.SHL, token.SHR:
					if !rtIsUnsigned(x.Y.Type()) {
						if lo, ok := rtLower(x.Y, map[ssa.Value]bool{}, getFacts()); !ok || lo < 0 {
							add("shift", x.Pos(), b)
						}
					}
				}
			case *ssa.MapUpdate:
				if !rtMapMade(x.Map, map[ssa.Value]bool{}) && !rtNonNilByFacts(x.Map, getFacts()) {
					add("mapwrite", x.Pos(), b)
				}
			case *ssa.TypeAssert:
				if !x.CommaOk && !rtAssertKnown(x, getFacts()) {
					add("assert", x.Pos(), b)
				}
			case *ssa.Panic:
				add("panic", x.Pos(), b)
			case *ssa.Send:
				add("send", x.Pos(), b)
			case *ssa.Select:
				for _, st := range x.States {
					if st.Dir == types.SendOnly {
						extra := []string{}
						if rtSelectHasDone(x) {
							extra = append(extra, "@select-done")
						}
						add("send", st.Pos, b, extra...)
					}
				}
			case *ssa.MakeSlice:
				if !rtLenDerived(x.Len, 0) || !rtLenDerived(x.Cap, 0) {
					add("make", x.Pos(), b)
				}
			case *ssa.MakeChan:
				if _, ok := rtConstInt(x.Size); !ok {
					add("make", x.Pos(), b)
				}
			case *ssa.SliceToArrayPointer:
				add("conv", x.Pos(), b)
			case *ssa.Convert:
				// slice → array conversion
				if _, ok := x.Type().Underlying().(*types.Array); ok {
					if _, ok := x.X.Type().Underlying().(*types.Slice); ok {
						add("conv", x.Pos(), b)
					}
				}
			case *ssa.FieldAddr:
				w.checkNil(x.X, x.Pos(), b, getFacts(), add)
			case *ssa.UnOp:
				if x.Op == token.MUL {
					switch x.X.(type) {
					case *ssa.FieldAddr, *ssa.IndexAddr, *ssa.Alloc, *ssa.Global, *ssa.FreeVar:
					default:
						w.checkNil(x.X, x.Pos(), b, getFacts(), add)
					}
				}
			case *ssa.Store:
				switch x.Addr.(type) {
				case *ssa.FieldAddr, *ssa.IndexAddr, *ssa.Alloc, *ssa.Global, *ssa.FreeVar:
				default:
					w.checkNil(x.Addr, x.Pos(), b, getFacts(), add)
				}
			}
			if c, ok := in.(ssa.CallInstruction); ok {
				com := c.Common()
				pos := in.Pos()
				if bi, ok := com.Value.(*ssa.Builtin); ok {
					if bi.Name() == "close" {
						extra := []string{}
						if closes[w.chanKey(com.Args[0])] == 1 {
							extra = append(extra, "@sole-close")
						}
						if _, isDefer := in.(*ssa.Defer); isDefer {
							extra = append(extra, "defer")
						}
						add("close", pos, b, extra...)
					}
					continue
				}
				if com.IsInvoke() {
					if o := w.nilOrigin(com.Value, map[ssa.Value]bool{}); o != "" && !rtNonNilByFacts(com.Value, getFacts()) {
						add("nilcall", pos, b, "@origin "+o)
					}
				} else if com.StaticCallee() == nil {
					// call of a function value
					if o := w.funcValueOrigin(com.Value); o != "" && !rtNonNilByFacts(com.Value, getFacts()) {
						add("nilcall", pos, b, "@origin "+o)
					}
				}
			}
		}
	}
	sort.SliceStable(rf.sites, func(i, j int) bool { return rf.sites[i].pos < rf.sites[j].pos })
	return rf
}

// a function value that may be nil: a struct field / map element / nil-able return (a closure or a named function never is)
func (w *rtWorld) funcValueOrigin(v ssa.Value) string {
	switch x := v.(type) {
	case *ssa.MakeClosure, *ssa.Function:
		return ""
	case *ssa.UnOp:
		if x.Op == token.MUL {
			if fa, ok := x.X.(*ssa.FieldAddr); ok {
				return "function-typed field " + rtFieldName(fa.X.Type(), fa.Field)
			}
			if _, ok := x.X.(*ssa.Global); ok {
				return "function-typed package variable"
			}
		}
	case *ssa.Field:
		return "function-typed field " + rtFieldName(x.X.Type(), x.Field)
	case *ssa.Parameter, *ssa.FreeVar:
		return ""
	}
	return w.nilOrigin(v, map[ssa.Value]bool{})
}

func rtFieldName(t types.Type, i int) string {
	if p, ok := t.Underlying().(*types.Pointer); ok {
		t = p.Elem()
	}
	if st, ok := t.Underlying().(*types.Struct); ok && i < st.NumFields() {
		return st.Field(i).Name()
	}
	return "?"
}

func (w *rtWorld) checkNil(p ssa.Value, pos token.Pos, b *ssa.BasicBlock, facts []rtFact, add func(string, token.Pos, *ssa.BasicBlock, ...string)) {
	if _, ok := p.Type().Underlying().(*types.Pointer); !ok {
		return
	}
	o := w.nilOrigin(p, map[ssa.Value]bool{})
	if o == "" || rtNonNilByFacts(p, facts) {
		return
	}
	add("nilderef", pos, b, "@origin "+o)
}

func rtMapMade(v ssa.Value, seen map[ssa.Value]bool) bool {
	if seen[v] {
		return true
	}
	seen[v] = true
	switch x := v.(type) {
	case *ssa.MakeMap:
		return true
	case *ssa.Phi:
		for _, e := range x.Edges {
			if !rtMapMade(e, seen) {
				return false
			}
		}
		return true
	case *ssa.ChangeType:
		return rtMapMade(x.X, seen)
	case *ssa.UnOp:
		// load of a local / field that is only ever assigned made maps in this function
		if x.Op == token.MUL {
			return rtOnlyMadeMapsStored(x.Parent(), x.X)
		}
	}
	return false
}

func rtOnlyMadeMapsStored(fn *ssa.Function, addr ssa.Value) bool {
	if _, ok := addr.(*ssa.Alloc); !ok {
		// a field: accept only when a store of a made map to the structurally same address exists in the function
		// and no other store to that field does
		fa, ok := addr.(*ssa.FieldAddr)
		if !ok {
			return false
		}
		good, bad := 0, 0
		for _, b := range fn.Blocks {
			for _, in := range b.Instrs {
				if st, ok := in.(*ssa.Store); ok {
					if sa, ok := st.Addr.(*ssa.FieldAddr); ok && sa.Field == fa.Field && types.Identical(sa.X.Type(), fa.X.Type()) {
						if _, ok := st.Val.(*ssa.MakeMap); ok && rtSame(sa.X, fa.X, 0) {
							good++
						} else {
							bad++
						}
					}
				}
			}
		}
		return good > 0 && bad == 0
	}
	good, bad := 0, 0
	for _, b := range fn.Blocks {
		for _, in := range b.Instrs {
			if st, ok := in.(*ssa.Store); ok && st.Addr == addr {
				if rtMapMade(st.Val, map[ssa.Value]bool{}) {
					good++
				} else {
					bad++
				}
			}
		}
	}
	return good > 0 && bad == 0
}

// size built from len()/cap(), constants, +, * only
func rtLenDerived(v ssa.Value, depth int) bool {
	if v == nil {
		return true
	}
	v = rtStripConv(v)
	if _, ok := rtConstInt(v); ok {
		return true
	}
	if depth > 4 {
		return false
	}
	switch x := v.(type) {
	case *ssa.Call:
		if b, ok := x.Call.Value.(*ssa.Builtin); ok && (b.Name() == "len" || b.Name() == "cap") {
			return true
		}
	case *ssa.BinOp:
		if x.Op == token.ADD || x.Op == token.MUL {
			return rtLenDerived(x.X, depth+1) && rtLenDerived(x.Y, depth+1)
		}
	}
	return false
}

func (w *rtWorld) chanKey(v ssa.Value) string {
	switch x := v.(type) {
	case *ssa.UnOp:
		if x.Op == token.MUL {
			return "*" + w.chanKey(x.X)
		}
	case *ssa.FieldAddr:
		return w.chanKey(x.X) + "." + rtFieldName(x.X.Type(), x.Field)
	case *ssa.Call:
		if c := x.Call.StaticCallee(); c != nil {
			return c.Name() + "()"
		}
		if x.Call.IsInvoke() {
			return "invoke " + x.Call.Method.Name() + "()"
		}
	}
	return v.Name()
}

// the select also receives from a Done() channel
func rtSelectHasDone(s *ssa.Select) bool {
	for _, st := range s.States {
		if st.Dir != types.RecvOnly {
			continue
		}
		if c, ok := st.Chan.(*ssa.Call); ok {
			if c.Call.IsInvoke() && c.Call.Method.Name() == "Done" {
				return true
			}
			if f := c.Call.StaticCallee(); f != nil && f.Name() == "Done" {
				return true
			}
		}
	}
	return false
}

func (w *rtWorld) checkIndex(rf *rtFunc, x, idx ssa.Value, pos token.Pos, b *ssa.BasicBlock, facts []rtFact,
	add func(string, token.Pos, *ssa.BasicBlock, ...string)) {
	t := x.Type().Underlying()
	if p, ok := t.(*types.Pointer); ok {
		t = p.Elem().Underlying()
	}
	if arr, ok := t.(*types.Array); ok {
		if k, isC := rtConstInt(idx); isC && k >= 0 && k < arr.Len() {
			return
		}
		lo, ok1 := rtLower(idx, map[ssa.Value]bool{}, facts)
		if ok1 && lo >= 0 && rtUpperConst(idx, facts, arr.Len()) {
			return
		}
		add("index", pos, b)
		return
	}
	lo, ok1 := rtLower(idx, map[ssa.Value]bool{}, facts)
	// len(x)-c needs len(x) ≥ c
	if bo, ok := rtStripConv(idx).(*ssa.BinOp); ok && bo.Op == token.SUB && rtIsLenOf(bo.X, x) {
		if c, isC := rtConstInt(bo.Y); isC && c > 0 {
			if n, ok := rtLenAtLeast(x, facts); ok && n >= c {
				return
			}
			add("index", pos, b)
			return
		}
	}
	if ok1 && lo >= 0 && rtBelowLen(idx, x, facts, true) {
		return
	}
	add("index", pos, b)
}

// idx < n (a constant) by a fact
func rtUpperConst(idx ssa.Value, facts []rtFact, n int64) bool {
	for _, f := range facts {
		c, ok := rtAsCmp(f)
		if !ok {
			continue
		}
		for _, cc := range []rtCmp{c, rtFlip(c)} {
			if !rtSame(cc.x, idx, 0) {
				continue
			}
			k, isC := rtConstInt(cc.y)
			if !isC {
				continue
			}
			if (cc.op == token.LSS && k <= n) || (cc.op == token.LEQ && k < n) || (cc.op == token.EQL && k < n) {
				return true
			}
		}
	}
	if bo, ok := rtStripConv(idx).(*ssa.BinOp); ok {
		if bo.Op == token.REM {
			if k, isC := rtConstInt(bo.Y); isC && k > 0 && k <= n {
				return true
			}
		}
		if bo.Op == token.AND {
			if k, isC := rtConstInt(bo.Y); isC && k >= 0 && k < n {
				return true
			}
		}
	}
	return false
}

func (w *rtWorld) checkSlice(s *ssa.Slice, b *ssa.BasicBlock, facts []rtFact, add func(string, token.Pos, *ssa.BasicBlock, ...string)) {
	t := s.X.Type().Underlying()
	if p, ok := t.(*types.Pointer); ok {
		if arr, ok := p.Elem().Underlying().(*types.Array); ok {
			// &[N]T{…}[lo:hi] — composite literals and variadic calls are lowered to this
			ok := true
			for _, v := range []ssa.Value{s.Low, s.High, s.Max} {
				if v == nil {
					continue
				}
				if k, isC := rtConstInt(v); !isC || k < 0 || k > arr.Len() {
					ok = false
				}
			}
			if ok {
				return
			}
			add("slice", s.Pos(), b)
			return
		}
	}
	if s.Max != nil {
		add("slice", s.Pos(), b)
		return
	}
	lowOK := s.Low == nil
	if !lowOK {
		if k, isC := rtConstInt(s.Low); isC && k == 0 {
			lowOK = true
		}
	}
	if lowOK && s.High == nil {
		return
	}
	_, isString := t.(*types.Basic)
	// x[:h]: 0 ≤ h ≤ len(x)   (for a slice h ≤ cap(x) suffices: len ≤ cap)
	if lowOK && s.High != nil {
		lo, ok := rtLower(s.High, map[ssa.Value]bool{}, facts)
		if ok && lo >= 0 && (rtBelowLen(s.High, s.X, facts, false) || rtIsLenOf(s.High, s.X)) {
			return
		}
		_ = isString
		add("slice", s.Pos(), b)
		return
	}
	// x[l:]: 0 ≤ l ≤ len(x)
	if s.High == nil {
		lo, ok := rtLower(s.Low, map[ssa.Value]bool{}, facts)
		if ok && lo >= 0 && (rtBelowLen(s.Low, s.X, facts, false) || rtIsLenOf(s.Low, s.X)) {
			return
		}
		add("slice", s.Pos(), b)
		return
	}
	add("slice", s.Pos(), b)
}

// the deferred call recovers: its callee itself calls recover()
func rtRecovers(d *ssa.Defer) bool {
	var fn *ssa.Function
	if f := d.Call.StaticCallee(); f != nil {
		fn = f
	}
	if fn == nil {
		return false
	}
	for _, b := range fn.Blocks {
		for _, in := range b.Instrs {
			if c, ok := in.(*ssa.Call); ok {
				if bi, ok := c.Call.Value.(*ssa.Builtin); ok && bi.Name() == "recover" {
					return true
				}
			}
		}
	}
	return false
}

// is the instruction executed after the function's recovering defer was installed?
func rtCoveredBy(rf *rtFunc, in ssa.Instruction) bool {
	d := rf.recDef
	if d == nil {
		return false
	}
	db, ib := d.Block(), in.Block()
	if db == ib {
		for _, x := range db.Instrs {
			if x == ssa.Instruction(d) {
				return true
			}
			if x == in {
				return false
			}
		}
	}
	return db.Dominates(ib)
}
