package main

// Gen.IngestCensus (C05): a TYPED fault-site census of every goroutine of the ingest side.
//
// Roots: the HTTP handler (the closure `controllerv1.Build` returns; it runs under net/http's per-connection recover)
// and every `go` statement under writer/ (the three parser goroutines of parserDoer with `defer p.tamePanic()`, the
// PreParse error sender, the drain goroutine of doParse, the doPush goroutines, the insert-service loops, the
// watchdog, the cache sweeper, the statistics and logger goroutines).
//
// For each root the translator walks, with go/types information (c05typed.go), what runs on that goroutine's stack:
// the body, deferred calls, applied literals, callbacks handed to library functions, and transitively every function of
// the module it can call —
//   * a static call goes to the declaration;
//   * an interface method call goes to the method of EVERY loaded type that implements the interface;
//   * a call through a function value (a parameter, a slice element, a field: `p(w, r)`, `l.onEntries(…)`) goes to EVERY
//     function value of the module with an identical signature; for a struct field whose every assignment in the module
//     is a literal, a function, a method value or another such field (`processRequest: svc.ProcessRequest`) it goes to
//     exactly the values that can reach the field;
//   * a nested `go` statement is a root of its own (its arguments are evaluated here);
//   * a function of another module, or of the generated protobuf packages, is a library call: listed in `externs`, the
//     census stops there.
// Every function (declaration or function-value literal) is walked once; its sites, its library calls and its call edges
// are recorded, and a goroutine reaches the closure of its root under the edges. There is no depth bound; a call through
// a function value that resolves to nothing is itself a site (`dyn`).
//
// Sites (every instruction that can panic, unless the types show it cannot):
//   index    a[i]        slice / string / pointer-to-array, or an array with a non-constant index
//                        (not: map reads; constant index into an array; i the key of an enclosing `range a`; `v, ok :=`)
//   slice    a[i:j]      (not: a[:], a[0:], a[:0]; constant bounds on an array)
//   store    a[i] = v    as index       mapstore  m[k] = v   nil map (not: m made by make / a literal in the same body)
//   assert   x.(T)       without `, ok` (not: type switches)
//   div      x / y, x % y  integers, divisor not a constant      shift   x << n with a signed non-constant count
//   make     make(T, n)  n neither constant nor built from len / cap and constants
//   deref    *p where p is not a plain variable; x.f where the pointer x is an element, a call result, or a field of a
//            struct declared by a library / generated package — a value that comes from a lookup or a decoder
//            (parameters, receivers, locals and the pointer fields of the module's own structs are not listed)
//   conv     slice-to-array conversion     panic   panic(…)     send   ch <- v     close   close(ch)
//   dyn      a call through a function value no function value of the module matches
// Each site carries the function it is in, its source text and the conditions that dominate it (as Gen.ReadGoroutines).
//
// Per root also: how a panic is caught — "tamePanic" (a directly deferred function of the module that calls recover()),
// "literal" (a directly deferred literal calling recover()), "net/http" (the handler), "" (nothing: the process dies).

import (
	"fmt"
	"go/ast"
	"go/constant"
	"go/token"
	"go/types"
	"sort"
	"strings"

	"golang.org/x/tools/go/packages"
)

type c5Site struct {
	kind, fn, text string
	guards         []string
}

// one walk = one function node (a declaration, or a literal used as a value)
type c5Walk struct {
	pr      *c5Prog
	sites   []c5Site
	externs map[string]bool
	visited map[ast.Node]bool // literals walked in place (callbacks, applied literals)
	edges   map[ast.Node]bool // *ast.FuncDecl / *ast.FuncLit nodes this function can call
	fail    error
	// other extractors: called for every assignment / declaration / inc-dec statement with its dominating conditions
	assignHook func(sc *c5Scope, st ast.Stmt, guards []string)
}

type c5Node struct {
	key     ast.Node
	label   string
	sites   []c5Site
	externs []string
	edges   []ast.Node
}

type c5Scope struct {
	pkg      *packages.Package
	file     *ast.File
	body     ast.Node // outermost body the current code is written in (for local closures / locally made maps)
	fn       string
	rangeKey map[types.Object]string
}

func (sc *c5Scope) info() *types.Info { return sc.pkg.TypesInfo }

func c5Text(n ast.Node) string { return rsExprText(token.NewFileSet(), n) }

func (w *c5Walk) site(sc *c5Scope, kind string, n ast.Node, guards []string) {
	txt := c5Text(n)
	if len(txt) > 160 {
		txt = txt[:160] + "…"
	}
	g := make([]string, len(guards))
	copy(g, guards)
	if kind == "close" {
		if ce, ok := n.(*ast.CallExpr); ok && len(ce.Args) == 1 {
			if c := c5CloseCount(sc.body, c5Text(ce.Args[0])); c == 1 {
				g = append(g, "@sole-close")
			}
		}
	}
	for _, o := range w.sites {
		if o.kind == kind && o.fn == sc.fn && o.text == txt && strings.Join(o.guards, "\x00") == strings.Join(g, "\x00") {
			return
		}
	}
	w.sites = append(w.sites, c5Site{kind, sc.fn, txt, g})
}

func c5CloseCount(body ast.Node, arg string) int {
	if body == nil {
		return 0
	}
	n := 0
	ast.Inspect(body, func(m ast.Node) bool {
		if ce, ok := m.(*ast.CallExpr); ok && len(ce.Args) == 1 {
			if id, ok := ce.Fun.(*ast.Ident); ok && id.Name == "close" && c5Text(ce.Args[0]) == arg {
				n++
			}
		}
		return true
	})
	return n
}

func (w *c5Walk) isConst(sc *c5Scope, e ast.Expr) bool {
	tv, ok := sc.info().Types[e]
	return ok && tv.Value != nil
}

func (w *c5Walk) constInt(sc *c5Scope, e ast.Expr) (int64, bool) {
	tv, ok := sc.info().Types[e]
	if !ok || tv.Value == nil {
		return 0, false
	}
	return constant.Int64Val(constant.ToInt(tv.Value))
}

// size built from len()/cap() and constants only
func (w *c5Walk) isLenSize(sc *c5Scope, e ast.Expr) bool {
	if w.isConst(sc, e) {
		return true
	}
	switch e := e.(type) {
	case *ast.ParenExpr:
		return w.isLenSize(sc, e.X)
	case *ast.CallExpr:
		if id, ok := e.Fun.(*ast.Ident); ok && (id.Name == "len" || id.Name == "cap") {
			if _, isB := sc.info().Uses[id].(*types.Builtin); isB {
				return true
			}
		}
	case *ast.BinaryExpr:
		if e.Op == token.ADD || e.Op == token.MUL {
			return w.isLenSize(sc, e.X) && w.isLenSize(sc, e.Y)
		}
	}
	return false
}

func c5Terminates(b *ast.BlockStmt) bool {
	if b == nil || len(b.List) == 0 {
		return false
	}
	switch s := b.List[len(b.List)-1].(type) {
	case *ast.ReturnStmt:
		return true
	case *ast.BranchStmt:
		return s.Tok == token.CONTINUE || s.Tok == token.BREAK || s.Tok == token.GOTO
	case *ast.ExprStmt:
		if ce, ok := s.X.(*ast.CallExpr); ok {
			if id, ok := ce.Fun.(*ast.Ident); ok && id.Name == "panic" {
				return true
			}
		}
	}
	return false
}

// was the map object created by make(map…) / a map literal in this body and never assigned anything else?
func c5MapMadeLocally(sc *c5Scope, obj types.Object) bool {
	if sc.body == nil || obj == nil {
		return false
	}
	info := sc.info()
	good, bad := 0, 0
	isMake := func(r ast.Expr) bool {
		switch r := r.(type) {
		case *ast.CompositeLit:
			_, ok := info.TypeOf(r).Underlying().(*types.Map)
			return ok
		case *ast.CallExpr:
			if f, ok := r.Fun.(*ast.Ident); ok && f.Name == "make" && len(r.Args) > 0 {
				if _, isB := info.Uses[f].(*types.Builtin); isB {
					_, ok := info.TypeOf(r).Underlying().(*types.Map)
					return ok
				}
			}
		}
		return false
	}
	ast.Inspect(sc.body, func(m ast.Node) bool {
		switch as := m.(type) {
		case *ast.AssignStmt:
			for i, l := range as.Lhs {
				id, ok := l.(*ast.Ident)
				if !ok {
					continue
				}
				o := info.Defs[id]
				if o == nil {
					o = info.Uses[id]
				}
				if o != obj {
					continue
				}
				if len(as.Lhs) != len(as.Rhs) {
					bad++
					continue
				}
				if isMake(as.Rhs[i]) {
					good++
				} else {
					bad++
				}
			}
		case *ast.ValueSpec:
			for i, id := range as.Names {
				if info.Defs[id] != obj {
					continue
				}
				if i < len(as.Values) && isMake(as.Values[i]) {
					good++
				} else {
					bad++
				}
			}
		}
		return true
	})
	return good > 0 && bad == 0
}

func c5With(guards []string, g string) []string {
	if len(g) > 120 {
		g = g[:120] + "…"
	}
	res := make([]string, len(guards)+1)
	copy(res, guards)
	res[len(guards)] = g
	return res
}

func (w *c5Walk) block(sc *c5Scope, list []ast.Stmt, guards []string) {
	for _, st := range list {
		w.stmt(sc, st, guards)
		if is, ok := st.(*ast.IfStmt); ok && is.Else == nil && c5Terminates(is.Body) {
			guards = c5With(guards, "unless "+c5Text(is.Cond))
		}
	}
}

func (w *c5Walk) stmt(sc *c5Scope, st ast.Stmt, guards []string) {
	switch s := st.(type) {
	case nil:
	case *ast.BlockStmt:
		w.block(sc, s.List, guards)
	case *ast.LabeledStmt:
		w.stmt(sc, s.Stmt, guards)
	case *ast.ExprStmt:
		w.expr(sc, s.X, guards)
	case *ast.IncDecStmt:
		if w.assignHook != nil {
			w.assignHook(sc, s, guards)
		}
		w.lhs(sc, s.X, guards)
	case *ast.SendStmt:
		w.site(sc, "send", s, guards)
		w.expr(sc, s.Chan, guards)
		w.expr(sc, s.Value, guards)
	case *ast.GoStmt:
		// a root of its own; function operand and arguments are evaluated here
		if _, isLit := s.Call.Fun.(*ast.FuncLit); !isLit {
			if sel, ok := s.Call.Fun.(*ast.SelectorExpr); ok {
				w.expr(sc, sel.X, guards)
			}
		}
		for _, a := range s.Call.Args {
			w.expr(sc, a, guards)
		}
	case *ast.DeferStmt:
		w.call(sc, s.Call, c5With(guards, "defer"))
	case *ast.ReturnStmt:
		for _, e := range s.Results {
			w.expr(sc, e, guards)
		}
	case *ast.BranchStmt, *ast.EmptyStmt:
	case *ast.DeclStmt:
		if w.assignHook != nil {
			w.assignHook(sc, s, guards)
		}
		if gd, ok := s.Decl.(*ast.GenDecl); ok {
			for _, sp := range gd.Specs {
				if vs, ok := sp.(*ast.ValueSpec); ok {
					w.assign(sc, vs.Values, len(vs.Names), guards)
				}
			}
		}
	case *ast.AssignStmt:
		if w.assignHook != nil {
			w.assignHook(sc, s, guards)
		}
		if s.Tok == token.QUO_ASSIGN || s.Tok == token.REM_ASSIGN {
			if w.isInteger(sc, s.Lhs[0]) && !w.isConst(sc, s.Rhs[0]) {
				w.site(sc, "div", s, guards)
			}
		}
		if s.Tok == token.SHL_ASSIGN || s.Tok == token.SHR_ASSIGN {
			if w.signedNonConst(sc, s.Rhs[0]) {
				w.site(sc, "shift", s, guards)
			}
		}
		for _, l := range s.Lhs {
			w.lhs(sc, l, guards)
		}
		w.assign(sc, s.Rhs, len(s.Lhs), guards)
	case *ast.IfStmt:
		w.stmt(sc, s.Init, guards)
		w.expr(sc, s.Cond, guards)
		c := c5Text(s.Cond)
		w.block(sc, s.Body.List, c5With(guards, "if "+c))
		if s.Else != nil {
			w.stmt(sc, s.Else, c5With(guards, "else "+c))
		}
	case *ast.ForStmt:
		w.stmt(sc, s.Init, guards)
		g := guards
		if s.Cond != nil {
			w.expr(sc, s.Cond, guards)
			g = c5With(guards, "for "+c5Text(s.Cond))
		} else {
			g = c5With(guards, "for")
		}
		w.stmt(sc, s.Post, g)
		w.block(sc, s.Body.List, g)
	case *ast.RangeStmt:
		w.expr(sc, s.X, guards)
		head := "range "
		if s.Key != nil {
			head += c5Text(s.Key)
			if s.Value != nil {
				head += ", " + c5Text(s.Value)
			}
			head += " := "
		}
		head += c5Text(s.X)
		saved := sc.rangeKey
		sc.rangeKey = map[types.Object]string{}
		for k, v := range saved {
			sc.rangeKey[k] = v
		}
		if id, ok := s.Key.(*ast.Ident); ok && id.Name != "_" {
			o := sc.info().Defs[id]
			if o == nil {
				o = sc.info().Uses[id]
			}
			if o != nil {
				// ranging over a map yields keys, not indexes: only slices, arrays, strings keep a[i] in range
				switch sc.info().TypeOf(s.X).Underlying().(type) {
				case *types.Slice, *types.Array, *types.Basic, *types.Pointer:
					sc.rangeKey[o] = c5Text(s.X)
				}
			}
		}
		w.block(sc, s.Body.List, c5With(guards, head))
		sc.rangeKey = saved
	case *ast.SwitchStmt:
		w.stmt(sc, s.Init, guards)
		tag := ""
		if s.Tag != nil {
			w.expr(sc, s.Tag, guards)
			tag = c5Text(s.Tag) + " "
		}
		for _, c := range s.Body.List {
			cc := c.(*ast.CaseClause)
			var vals []string
			for _, e := range cc.List {
				w.expr(sc, e, guards)
				vals = append(vals, c5Text(e))
			}
			g := "case " + tag + strings.Join(vals, ", ")
			if cc.List == nil {
				g = "case " + tag + "default"
			}
			w.block(sc, cc.Body, c5With(guards, g))
		}
	case *ast.TypeSwitchStmt:
		w.stmt(sc, s.Init, guards)
		ast.Inspect(s.Assign, func(n ast.Node) bool {
			if ta, ok := n.(*ast.TypeAssertExpr); ok {
				w.expr(sc, ta.X, guards)
				return false
			}
			return true
		})
		for _, c := range s.Body.List {
			cc := c.(*ast.CaseClause)
			var vals []string
			for _, e := range cc.List {
				vals = append(vals, c5Text(e))
			}
			g := "typecase " + strings.Join(vals, ", ")
			if cc.List == nil {
				g = "typecase default"
			}
			w.block(sc, cc.Body, c5With(guards, g))
		}
	case *ast.SelectStmt:
		var comms []string
		for _, c := range s.Body.List {
			cc := c.(*ast.CommClause)
			if cc.Comm == nil {
				comms = append(comms, "default")
			} else {
				comms = append(comms, c5Text(cc.Comm))
			}
		}
		in := c5With(guards, "select ["+strings.Join(comms, " | ")+"]")
		for _, c := range s.Body.List {
			cc := c.(*ast.CommClause)
			if cc.Comm != nil {
				w.stmt(sc, cc.Comm, in)
			}
			g := "default"
			if cc.Comm != nil {
				g = c5Text(cc.Comm)
			}
			w.block(sc, cc.Body, c5With(guards, "select case "+g))
		}
	default:
		w.site(sc, "dyn", st, c5With(guards, fmt.Sprintf("statement %T not recognised", st)))
	}
}

func (w *c5Walk) isInteger(sc *c5Scope, e ast.Expr) bool {
	t := sc.info().TypeOf(e)
	if t == nil {
		return true
	}
	if b, ok := t.Underlying().(*types.Basic); ok {
		return b.Info()&types.IsInteger != 0
	}
	// type parameters and anything else: keep the site
	return true
}

func (w *c5Walk) signedNonConst(sc *c5Scope, e ast.Expr) bool {
	if w.isConst(sc, e) {
		return false
	}
	t := sc.info().TypeOf(e)
	if t == nil {
		return true
	}
	if b, ok := t.Underlying().(*types.Basic); ok {
		return b.Info()&types.IsUnsigned == 0
	}
	return true
}

// right-hand sides; the comma-ok forms cannot fault
func (w *c5Walk) assign(sc *c5Scope, rhs []ast.Expr, nl int, guards []string) {
	if nl == 2 && len(rhs) == 1 {
		switch r := ast.Unparen(rhs[0]).(type) {
		case *ast.TypeAssertExpr:
			w.expr(sc, r.X, guards)
			return
		case *ast.IndexExpr:
			if _, isMap := sc.info().TypeOf(r.X).Underlying().(*types.Map); isMap {
				w.expr(sc, r.X, guards)
				w.expr(sc, r.Index, guards)
				return
			}
		case *ast.UnaryExpr:
			if r.Op == token.ARROW {
				w.expr(sc, r.X, guards)
				return
			}
		}
	}
	for _, r := range rhs {
		w.expr(sc, r, guards)
	}
}

func (w *c5Walk) objOf(sc *c5Scope, e ast.Expr) types.Object {
	if id, ok := ast.Unparen(e).(*ast.Ident); ok {
		if o := sc.info().Uses[id]; o != nil {
			return o
		}
		return sc.info().Defs[id]
	}
	return nil
}

// is a[i] in range by construction (types)?
func (w *c5Walk) indexSafe(sc *c5Scope, x *ast.IndexExpr) bool {
	if id, ok := ast.Unparen(x.Index).(*ast.Ident); ok {
		if o := w.objOf(sc, id); o != nil {
			if over, ok := sc.rangeKey[o]; ok && over == c5Text(x.X) {
				return true
			}
		}
	}
	t := sc.info().TypeOf(x.X)
	if t == nil {
		return false
	}
	if arr, ok := t.Underlying().(*types.Array); ok {
		if v, ok := w.constInt(sc, x.Index); ok && v >= 0 && v < arr.Len() {
			return true
		}
	}
	return false
}

func (w *c5Walk) lhs(sc *c5Scope, e ast.Expr, guards []string) {
	switch x := ast.Unparen(e).(type) {
	case *ast.IndexExpr:
		t := sc.info().TypeOf(x.X)
		if t != nil {
			if _, isMap := t.Underlying().(*types.Map); isMap {
				if !c5MapMadeLocally(sc, w.objOf(sc, x.X)) {
					w.site(sc, "mapstore", x, guards)
				}
				w.expr(sc, x.X, guards)
				w.expr(sc, x.Index, guards)
				return
			}
		}
		if !w.indexSafe(sc, x) {
			w.site(sc, "store", x, guards)
		}
		w.expr(sc, x.X, guards)
		w.expr(sc, x.Index, guards)
	case *ast.Ident:
	default:
		w.expr(sc, e, guards)
	}
}

// a pointer value that comes from a lookup: a struct field, an element, a call result (not a plain variable)
func (w *c5Walk) fromLookup(sc *c5Scope, e ast.Expr) bool {
	switch x := ast.Unparen(e).(type) {
	case *ast.SelectorExpr:
		if sel := sc.info().Selections[x]; sel != nil {
			if sel.Kind() != types.FieldVal {
				return false
			}
			// a pointer field of a struct the module declares itself is part of its own state (set where the struct is
			// built); a pointer field of a library / generated struct is data handed over by a decoder
			if v, ok := sel.Obj().(*types.Var); ok && c5IsQryn(v.Pkg()) && !c5IsBoundary(v.Pkg()) {
				return false
			}
			return true
		}
		return false // pkg.Var
	case *ast.IndexExpr:
		return true
	case *ast.CallExpr:
		if tv, ok := sc.info().Types[x.Fun]; ok && tv.IsType() {
			return w.fromLookup(sc, x.Args[0])
		}
		return true
	case *ast.TypeAssertExpr:
		return true
	case *ast.StarExpr:
		return true
	}
	return false
}

func (w *c5Walk) expr(sc *c5Scope, e ast.Expr, guards []string) {
	info := sc.info()
	switch x := e.(type) {
	case nil:
	case *ast.Ident, *ast.BasicLit:
	case *ast.ParenExpr:
		w.expr(sc, x.X, guards)
	case *ast.SelectorExpr:
		if sel := info.Selections[x]; sel != nil && sel.Kind() == types.FieldVal {
			if _, isPtr := info.TypeOf(x.X).Underlying().(*types.Pointer); isPtr && w.fromLookup(sc, x.X) {
				w.site(sc, "deref", x, guards)
			}
		}
		w.expr(sc, x.X, guards)
	case *ast.IndexExpr:
		if tv, ok := info.Types[x.X]; ok {
			if tv.IsType() {
				return // generic type instantiation
			}
			if _, isSig := tv.Type.Underlying().(*types.Signature); isSig {
				w.expr(sc, x.X, guards) // generic function instantiation
				return
			}
			if _, isMap := tv.Type.Underlying().(*types.Map); isMap {
				w.expr(sc, x.X, guards)
				w.expr(sc, x.Index, guards)
				return
			}
		}
		if !w.indexSafe(sc, x) {
			w.site(sc, "index", x, guards)
		}
		w.expr(sc, x.X, guards)
		w.expr(sc, x.Index, guards)
	case *ast.IndexListExpr:
		w.expr(sc, x.X, guards)
	case *ast.SliceExpr:
		if !w.sliceSafe(sc, x) {
			w.site(sc, "slice", x, guards)
		}
		w.expr(sc, x.X, guards)
		w.expr(sc, x.Low, guards)
		w.expr(sc, x.High, guards)
		w.expr(sc, x.Max, guards)
	case *ast.TypeAssertExpr:
		if x.Type != nil {
			w.site(sc, "assert", x, guards)
		}
		w.expr(sc, x.X, guards)
	case *ast.StarExpr:
		if tv, ok := info.Types[x]; ok && tv.IsType() {
			return
		}
		if _, plain := ast.Unparen(x.X).(*ast.Ident); !plain {
			w.site(sc, "deref", x, guards)
		}
		w.expr(sc, x.X, guards)
	case *ast.UnaryExpr:
		w.expr(sc, x.X, guards)
	case *ast.BinaryExpr:
		w.expr(sc, x.X, guards)
		switch x.Op {
		case token.LAND:
			w.expr(sc, x.Y, c5With(guards, "if "+c5Text(x.X)))
			return
		case token.LOR:
			w.expr(sc, x.Y, c5With(guards, "else "+c5Text(x.X)))
			return
		case token.QUO, token.REM:
			if w.isInteger(sc, x) && !w.isConst(sc, x.Y) {
				w.site(sc, "div", x, guards)
			}
		case token.SHL, token.SHR:
			if w.signedNonConst(sc, x.Y) {
				w.site(sc, "shift", x, guards)
			}
		}
		w.expr(sc, x.Y, guards)
	case *ast.KeyValueExpr:
		w.expr(sc, x.Value, guards)
	case *ast.CompositeLit:
		for _, el := range x.Elts {
			w.expr(sc, el, guards)
		}
	case *ast.FuncLit:
		// a value: walked where a call of its signature is met
	case *ast.CallExpr:
		w.call(sc, x, guards)
	case *ast.ArrayType, *ast.MapType, *ast.ChanType, *ast.FuncType, *ast.StructType, *ast.InterfaceType, *ast.Ellipsis:
	default:
		w.site(sc, "dyn", e, c5With(guards, fmt.Sprintf("expression %T not recognised", e)))
	}
}

func (w *c5Walk) sliceSafe(sc *c5Scope, x *ast.SliceExpr) bool {
	zeroOrNil := func(e ast.Expr) bool {
		if e == nil {
			return true
		}
		v, ok := w.constInt(sc, e)
		return ok && v == 0
	}
	t := sc.info().TypeOf(x.X)
	if t == nil {
		return false
	}
	if _, isPtr := t.Underlying().(*types.Pointer); isPtr {
		return false // nil pointer to array
	}
	if x.Max == nil && zeroOrNil(x.Low) && (x.High == nil || zeroOrNil(x.High)) {
		return true
	}
	if arr, ok := t.Underlying().(*types.Array); ok && x.Max == nil {
		lo, hi := int64(0), arr.Len()
		okc := true
		if x.Low != nil {
			lo, okc = w.constInt(sc, x.Low)
		}
		if okc && x.High != nil {
			hi, okc = w.constInt(sc, x.High)
		}
		if okc && 0 <= lo && lo <= hi && hi <= arr.Len() {
			return true
		}
	}
	return false
}

func (w *c5Walk) enterDecl(d *c5Decl, guards []string) {
	w.edges[d.fd] = true
}

func (w *c5Walk) enterLit(fv *c5FuncVal) {
	w.edges[fv.lit] = true
}

func (w *c5Walk) enterFunc(sc *c5Scope, fn *types.Func, ce *ast.CallExpr, guards []string) {
	fn = fn.Origin()
	if d, ok := w.pr.declOf[fn]; ok && !c5IsBoundary(fn.Pkg()) {
		w.enterDecl(d, guards)
		return
	}
	// library (or generated) function
	name := ""
	if sig, ok := fn.Type().(*types.Signature); ok && sig.Recv() != nil {
		name = "(" + c5TypeStr(sig.Recv().Type()) + ")." + fn.Name()
	} else if fn.Pkg() != nil {
		name = fn.Pkg().Name() + "." + fn.Name()
	} else {
		name = fn.Name()
	}
	w.externs[name] = true
}

// a call through a function value: every function value of the module with an identical signature
func (w *c5Walk) callValue(sc *c5Scope, ce *ast.CallExpr, guards []string) {
	info := sc.info()
	fun := ast.Unparen(ce.Fun)
	t := info.TypeOf(fun)
	if t == nil {
		w.site(sc, "dyn", ce.Fun, guards)
		return
	}
	if nt, ok := t.(*types.Named); ok && !c5IsQryn(nt.Obj().Pkg()) {
		// a function type of a library (context.CancelFunc, …): a library call
		w.externs["value of "+c5TypeStr(nt)] = true
		return
	}
	sig, ok := t.Underlying().(*types.Signature)
	if !ok {
		w.site(sc, "dyn", ce.Fun, guards)
		return
	}
	// a local variable holding one literal: that literal
	if id, ok := fun.(*ast.Ident); ok {
		if obj, ok := info.Uses[id].(*types.Var); ok && !obj.IsField() && sc.body != nil {
			if fl := c5LocalClosure(sc, obj); fl != nil {
				if fv := w.pr.litInfo[fl]; fv != nil {
					w.enterLit(fv)
					return
				}
			}
		}
	}
	// a struct field: what is assigned to it anywhere in the module, through other fields (`F: opts.F`) down to
	// literals / functions / method values; anything else (a parameter, a call result) falls back to the signature
	if sel, ok := fun.(*ast.SelectorExpr); ok {
		if s := info.Selections[sel]; s != nil && s.Kind() == types.FieldVal {
			if v, ok := s.Obj().(*types.Var); ok {
				if lits, fns, ok := w.pr.fieldTargets(v, map[*types.Var]bool{}); ok && len(lits)+len(fns) > 0 {
					for _, fl := range lits {
						if fv := w.pr.litInfo[fl]; fv != nil {
							w.enterLit(fv)
						}
					}
					for _, fn := range fns {
						if d, ok := w.pr.declOf[fn.Origin()]; ok {
							w.enterDecl(d, guards)
						}
					}
					return
				}
			}
		}
	}
	n := 0
	for i := range w.pr.fvals {
		fv := &w.pr.fvals[i]
		if !c5SigIdentical(fv.sig, sig) {
			continue
		}
		n++
		if fv.lit != nil {
			w.enterLit(fv)
		} else if d, ok := w.pr.declOf[fv.fn.Origin()]; ok {
			w.enterDecl(d, guards)
		}
	}
	if n == 0 {
		w.site(sc, "dyn", ce.Fun, guards)
	}
}

// fieldTargets: the function values that can sit in a function-typed struct field (ok = false: some source is not a
// literal, a function, a method value or another field)
func (pr *c5Prog) fieldTargets(v *types.Var, seen map[*types.Var]bool) (lits []*ast.FuncLit, fns []*types.Func, ok bool) {
	v = v.Origin()
	if seen[v] {
		return nil, nil, true
	}
	seen[v] = true
	srcs := pr.fieldSrc[v]
	if len(srcs) == 0 {
		return nil, nil, false
	}
	for _, src := range srcs {
		info := src.pkg.TypesInfo
		switch e := ast.Unparen(src.expr).(type) {
		case *ast.FuncLit:
			lits = append(lits, e)
		case *ast.Ident:
			if fn, isFn := info.Uses[e].(*types.Func); isFn {
				fns = append(fns, fn)
			} else if _, isNil := info.Uses[e].(*types.Nil); isNil {
				// nil: nothing to call
			} else {
				return nil, nil, false
			}
		case *ast.SelectorExpr:
			s := info.Selections[e]
			switch {
			case s != nil && s.Kind() == types.MethodVal:
				fns = append(fns, s.Obj().(*types.Func))
			case s != nil && s.Kind() == types.FieldVal:
				fv, _ := s.Obj().(*types.Var)
				l2, f2, ok2 := pr.fieldTargets(fv, seen)
				if !ok2 {
					return nil, nil, false
				}
				lits = append(lits, l2...)
				fns = append(fns, f2...)
			default:
				if fn, isFn := info.Uses[e.Sel].(*types.Func); isFn {
					fns = append(fns, fn)
				} else {
					return nil, nil, false
				}
			}
		default:
			return nil, nil, false
		}
	}
	return lits, fns, true
}

// the single literal a local variable is assigned (nil when it is assigned anything else)
func c5LocalClosure(sc *c5Scope, obj types.Object) *ast.FuncLit {
	info := sc.info()
	var res *ast.FuncLit
	n := 0
	ast.Inspect(sc.body, func(m ast.Node) bool {
		switch m := m.(type) {
		case *ast.AssignStmt:
			if len(m.Lhs) == len(m.Rhs) {
				for i, l := range m.Lhs {
					if id, ok := l.(*ast.Ident); ok && (info.Defs[id] == obj || info.Uses[id] == obj) {
						if fl, ok := m.Rhs[i].(*ast.FuncLit); ok {
							res = fl
							n++
						} else {
							n += 2
						}
					}
				}
			} else {
				for _, l := range m.Lhs {
					if id, ok := l.(*ast.Ident); ok && (info.Defs[id] == obj || info.Uses[id] == obj) {
						n += 2
					}
				}
			}
		case *ast.ValueSpec:
			for i, id := range m.Names {
				if info.Defs[id] == obj {
					if i < len(m.Values) {
						if fl, ok := m.Values[i].(*ast.FuncLit); ok {
							res = fl
							n++
							continue
						}
					}
					n += 2
				}
			}
		}
		return true
	})
	if n == 1 {
		return res
	}
	return nil
}

func (w *c5Walk) call(sc *c5Scope, ce *ast.CallExpr, guards []string) {
	info := sc.info()
	fun := ast.Unparen(ce.Fun)
	// generic instantiation f[T](…)
	if ix, ok := fun.(*ast.IndexExpr); ok {
		if tv, ok := info.Types[ix.X]; ok && !tv.IsType() {
			if _, isSig := tv.Type.Underlying().(*types.Signature); isSig {
				fun = ast.Unparen(ix.X)
			}
		}
	}
	if ix, ok := fun.(*ast.IndexListExpr); ok {
		fun = ast.Unparen(ix.X)
	}
	argsPlain := func() {
		for _, a := range ce.Args {
			w.expr(sc, a, guards)
		}
	}
	argsCallbacks := func(what string) {
		for _, a := range ce.Args {
			if fl, ok := ast.Unparen(a).(*ast.FuncLit); ok {
				// a callback handed to a library function: runs on this stack
				if !w.visited[fl] {
					w.visited[fl] = true
					saved := sc.rangeKey
					w.block(sc, fl.Body.List, c5With(guards, "callback of "+what))
					sc.rangeKey = saved
				}
				continue
			}
			w.expr(sc, a, guards)
		}
	}
	// conversion
	if tv, ok := info.Types[fun]; ok && tv.IsType() {
		if arr, ok := tv.Type.Underlying().(*types.Array); ok && len(ce.Args) == 1 {
			if _, fromSlice := info.TypeOf(ce.Args[0]).Underlying().(*types.Slice); fromSlice {
				_ = arr
				w.site(sc, "conv", ce, guards)
			}
		}
		if p, ok := tv.Type.Underlying().(*types.Pointer); ok && len(ce.Args) == 1 {
			if _, toArr := p.Elem().Underlying().(*types.Array); toArr {
				if _, fromSlice := info.TypeOf(ce.Args[0]).Underlying().(*types.Slice); fromSlice {
					w.site(sc, "conv", ce, guards)
				}
			}
		}
		argsPlain()
		return
	}
	switch f := fun.(type) {
	case *ast.FuncLit:
		argsPlain()
		if !w.visited[f] {
			w.visited[f] = true
			w.block(sc, f.Body.List, guards)
		}
		return
	case *ast.Ident:
		switch o := info.Uses[f].(type) {
		case *types.Builtin:
			switch o.Name() {
			case "make":
				for _, a := range ce.Args[1:] {
					if !w.isLenSize(sc, a) {
						w.site(sc, "make", ce, guards)
						break
					}
				}
				for _, a := range ce.Args[1:] {
					w.expr(sc, a, guards)
				}
			case "panic":
				w.site(sc, "panic", ce, guards)
				argsPlain()
			case "close":
				w.site(sc, "close", ce, guards)
				argsPlain()
			default:
				argsPlain()
			}
			return
		case *types.Func:
			if c5IsQryn(o.Pkg()) && !c5IsBoundary(o.Pkg()) {
				argsPlain()
			} else {
				argsCallbacks(c5Text(ce.Fun))
			}
			w.enterFunc(sc, o, ce, guards)
			return
		}
		argsPlain()
		w.callValue(sc, ce, guards)
		return
	case *ast.SelectorExpr:
		if sel := info.Selections[f]; sel != nil {
			switch sel.Kind() {
			case types.MethodVal:
				fn := sel.Obj().(*types.Func)
				w.expr(sc, f.X, guards)
				recv := fn.Type().(*types.Signature).Recv()
				if recv != nil && types.IsInterface(recv.Type()) {
					iface, _ := recv.Type().Underlying().(*types.Interface)
					// the static type of the operand may be a wider interface than the one declaring the method
					if it, ok := info.TypeOf(f.X).Underlying().(*types.Interface); ok {
						iface = it
					}
					impls := w.pr.implementors(iface, fn.Name(), sc.pkg.Types, info.TypeOf(f.X))
					n := 0
					for _, m := range impls {
						if d, ok := w.pr.declOf[m.Origin()]; ok && !c5IsBoundary(m.Pkg()) {
							n++
							argsPlain()
							w.enterDecl(d, guards)
						}
					}
					if n == 0 {
						argsCallbacks(c5Text(ce.Fun))
						w.externs["("+c5TypeStr(info.TypeOf(f.X))+")."+fn.Name()] = true
					} else if !c5IsQryn(fn.Pkg()) {
						// an interface of a library that types of the module implement: library types may as well
						w.externs["("+c5TypeStr(info.TypeOf(f.X))+")."+fn.Name()] = true
					}
					return
				}
				if c5IsQryn(fn.Pkg()) && !c5IsBoundary(fn.Pkg()) {
					argsPlain()
				} else {
					argsCallbacks(c5Text(ce.Fun))
				}
				w.enterFunc(sc, fn, ce, guards)
				return
			case types.FieldVal:
				w.expr(sc, f, guards)
				argsPlain()
				w.callValue(sc, ce, guards)
				return
			}
		}
		// qualified identifier pkg.F
		switch o := info.Uses[f.Sel].(type) {
		case *types.Builtin:
			// unsafe.Slice, unsafe.String, …: no run-time check the census knows of
			w.externs["unsafe."+o.Name()] = true
			argsPlain()
			return
		case *types.Func:
			if c5IsQryn(o.Pkg()) && !c5IsBoundary(o.Pkg()) {
				argsPlain()
			} else {
				argsCallbacks(c5Text(ce.Fun))
			}
			w.enterFunc(sc, o, ce, guards)
			return
		}
		argsPlain()
		w.callValue(sc, ce, guards)
		return
	default:
		w.expr(sc, fun, guards)
		argsPlain()
		w.callValue(sc, ce, guards)
	}
}

// how the goroutine whose body this is catches a panic: a DIRECTLY deferred function that calls recover()
func (pr *c5Prog) recoverOf(p *packages.Package, body *ast.BlockStmt) string {
	for _, st := range body.List {
		ds, ok := st.(*ast.DeferStmt)
		if !ok {
			continue
		}
		switch f := ast.Unparen(ds.Call.Fun).(type) {
		case *ast.FuncLit:
			if callsRecoverDirectly(f) {
				return "literal"
			}
		case *ast.Ident:
			if fn, ok := p.TypesInfo.Uses[f].(*types.Func); ok {
				if d, ok := pr.declOf[fn.Origin()]; ok && c5BodyRecovers(d.fd.Body) {
					return fn.Name()
				}
			}
		case *ast.SelectorExpr:
			var fn *types.Func
			if sel := p.TypesInfo.Selections[f]; sel != nil {
				fn, _ = sel.Obj().(*types.Func)
			} else {
				fn, _ = p.TypesInfo.Uses[f.Sel].(*types.Func)
			}
			if fn != nil {
				if d, ok := pr.declOf[fn.Origin()]; ok && c5BodyRecovers(d.fd.Body) {
					return fn.Name()
				}
			}
		}
	}
	return ""
}

func c5BodyRecovers(b *ast.BlockStmt) bool {
	found := false
	ast.Inspect(b, func(n ast.Node) bool {
		if _, ok := n.(*ast.FuncLit); ok {
			return false
		}
		if ce, ok := n.(*ast.CallExpr); ok {
			if id, ok := ce.Fun.(*ast.Ident); ok && id.Name == "recover" {
				found = true
			}
		}
		return true
	})
	return found
}

type c5Root struct {
	name, shape, recover string
	externs, funcs       []string
}

func c5Sorted(m map[string]bool) []string {
	var xs []string
	for x := range m {
		xs = append(xs, x)
	}
	sort.Strings(xs)
	return xs
}

type c5Graph struct {
	pr    *c5Prog
	nodes map[ast.Node]*c5Node
	fail  error
}

func (g *c5Graph) declByNode(fd *ast.FuncDecl) *c5Decl {
	for _, d := range g.pr.declOf {
		if d.fd == fd {
			return d
		}
	}
	return nil
}

// node walks a function once
func (g *c5Graph) node(key ast.Node) *c5Node {
	if n, ok := g.nodes[key]; ok {
		return n
	}
	n := &c5Node{key: key}
	g.nodes[key] = n
	w := &c5Walk{pr: g.pr, externs: map[string]bool{}, visited: map[ast.Node]bool{}, edges: map[ast.Node]bool{}}
	switch k := key.(type) {
	case *ast.FuncDecl:
		d := g.declByNode(k)
		if d == nil {
			g.fail = fmt.Errorf("declaration %s not indexed", k.Name.Name)
			return n
		}
		n.label = c5DeclLabel(d.pkg, d.fd)
		sc := &c5Scope{pkg: d.pkg, file: d.file, body: d.fd.Body, fn: n.label, rangeKey: map[types.Object]string{}}
		w.block(sc, d.fd.Body.List, nil)
	case *ast.FuncLit:
		fv := g.pr.litInfo[k]
		if fv == nil {
			g.fail = fmt.Errorf("literal not indexed")
			return n
		}
		n.label = fv.label
		var body ast.Node = fv.lit.Body
		if fv.encl != nil {
			body = fv.encl.Body
		}
		sc := &c5Scope{pkg: fv.pkg, file: fv.file, body: body, fn: n.label, rangeKey: map[types.Object]string{}}
		w.block(sc, fv.lit.Body.List, nil)
	}
	if w.fail != nil && g.fail == nil {
		g.fail = w.fail
	}
	n.sites = w.sites
	n.externs = c5Sorted(w.externs)
	for e := range w.edges {
		n.edges = append(n.edges, e)
	}
	sort.Slice(n.edges, func(i, j int) bool { return n.edges[i].Pos() < n.edges[j].Pos() })
	return n
}

// closure of a set of start nodes under the call edges
func (g *c5Graph) reach(start []ast.Node) []*c5Node {
	seen := map[ast.Node]bool{}
	var out []*c5Node
	var visit func(k ast.Node)
	visit = func(k ast.Node) {
		if seen[k] {
			return
		}
		seen[k] = true
		n := g.node(k)
		out = append(out, n)
		for _, e := range n.edges {
			visit(e)
		}
	}
	for _, k := range start {
		visit(k)
	}
	sort.Slice(out, func(i, j int) bool { return out[i].label < out[j].label })
	return out
}

func (g *c5Graph) rootOf(name, shape, rec string, start []ast.Node, extra map[string]bool) c5Root {
	r := c5Root{name: name, shape: shape, recover: rec}
	ext := map[string]bool{}
	for x := range extra {
		ext[x] = true
	}
	for _, n := range g.reach(start) {
		r.funcs = append(r.funcs, n.label)
		for _, x := range n.externs {
			ext[x] = true
		}
	}
	r.externs = c5Sorted(ext)
	return r
}

func (pr *c5Prog) roots() ([]c5Root, *c5Graph, error) {
	g := &c5Graph{pr: pr, nodes: map[ast.Node]*c5Node{}}
	var roots []c5Root
	// ---- the HTTP handler: the literal controllerv1.Build returns
	var handlerLit *c5FuncVal
	for _, p := range pr.pkgs {
		if !strings.HasSuffix(p.PkgPath, "/writer/controller") {
			continue
		}
		for fn, d := range pr.declOf {
			if d.pkg != p || fn.Name() != "Build" || d.fd.Recv != nil {
				continue
			}
			for _, st := range d.fd.Body.List {
				if rs, ok := st.(*ast.ReturnStmt); ok && len(rs.Results) == 1 {
					if fl, ok := rs.Results[0].(*ast.FuncLit); ok {
						handlerLit = pr.litInfo[fl]
					}
				}
			}
		}
	}
	if handlerLit == nil {
		return nil, nil, fmt.Errorf("writer/controller: `func Build(…)` returning a function literal not found")
	}
	rec := pr.recoverOf(handlerLit.pkg, handlerLit.lit.Body)
	if rec == "" {
		rec = "net/http"
	}
	roots = append(roots, g.rootOf("controller/builder.go:Build$handler", "http handler", rec, []ast.Node{handlerLit.lit}, nil))
	// ---- every go statement under writer/
	for _, p := range pr.pkgs {
		if _, bad := pr.broken[p]; bad {
			continue
		}
		for _, f := range p.Syntax {
			rel := pr.rel(f.Pos())
			if strings.HasSuffix(rel, "_test.go") {
				continue
			}
			short := strings.TrimPrefix(rel, "writer/")
			for _, decl := range f.Decls {
				fd, ok := decl.(*ast.FuncDecl)
				if !ok || fd.Body == nil {
					continue
				}
				k := 0
				ast.Inspect(fd.Body, func(n ast.Node) bool {
					gs, ok := n.(*ast.GoStmt)
					if !ok {
						return true
					}
					k++
					name := fmt.Sprintf("%s:%s#%d", short, c5FuncName(fd), k)
					switch fn := ast.Unparen(gs.Call.Fun).(type) {
					case *ast.FuncLit:
						roots = append(roots, g.rootOf(name, "lit", pr.recoverOf(p, fn.Body), []ast.Node{fn}, nil))
					default:
						// go f(…) / go x.M(…): resolved like a call; the operands were evaluated by the spawning goroutine
						sc := &c5Scope{pkg: p, file: f, body: fd.Body, fn: c5DeclLabel(p, fd), rangeKey: map[types.Object]string{}}
						w := &c5Walk{pr: pr, externs: map[string]bool{}, visited: map[ast.Node]bool{}, edges: map[ast.Node]bool{}}
						w.call(sc, &ast.CallExpr{Fun: gs.Call.Fun}, nil)
						var start []ast.Node
						for e := range w.edges {
							start = append(start, e)
						}
						sort.Slice(start, func(i, j int) bool { return start[i].Pos() < start[j].Pos() })
						if len(start) == 0 && g.fail == nil {
							g.fail = fmt.Errorf("%s: `go %s` starts nothing the census can follow", name, c5Text(gs.Call.Fun))
						}
						roots = append(roots, g.rootOf(name, "call "+c5Text(gs.Call.Fun), pr.goTargetRecover(sc, gs), start, w.externs))
					}
					return true
				})
			}
		}
	}
	if g.fail != nil {
		return nil, nil, g.fail
	}
	return roots, g, nil
}

// recover status of `go f(…)` / `go x.M(…)`: every possible target must recover for the root to count as recovered
func (pr *c5Prog) goTargetRecover(sc *c5Scope, gs *ast.GoStmt) string {
	info := sc.info()
	var fns []*types.Func
	switch f := ast.Unparen(gs.Call.Fun).(type) {
	case *ast.Ident:
		if fn, ok := info.Uses[f].(*types.Func); ok {
			fns = append(fns, fn)
		}
	case *ast.SelectorExpr:
		if sel := info.Selections[f]; sel != nil && sel.Kind() == types.MethodVal {
			fn := sel.Obj().(*types.Func)
			recv := fn.Type().(*types.Signature).Recv()
			if recv != nil && types.IsInterface(recv.Type()) {
				if it, ok := info.TypeOf(f.X).Underlying().(*types.Interface); ok {
					fns = pr.implementors(it, fn.Name(), sc.pkg.Types, info.TypeOf(f.X))
				}
			} else {
				fns = append(fns, fn)
			}
		} else if fn, ok := info.Uses[f.Sel].(*types.Func); ok {
			fns = append(fns, fn)
		}
	}
	if len(fns) == 0 {
		return ""
	}
	res := ""
	for i, fn := range fns {
		d, ok := pr.declOf[fn.Origin()]
		if !ok {
			return ""
		}
		r := pr.recoverOf(d.pkg, d.fd.Body)
		if r == "" {
			return ""
		}
		if i == 0 {
			res = r
		}
	}
	return res
}

func c5LeanList(xs []string) string {
	parts := make([]string, len(xs))
	for i, x := range xs {
		parts[i] = leanStr(x)
	}
	return "[" + strings.Join(parts, ", ") + "]"
}

func init() {
	register("IngestCensus", func() (string, error) {
		pr, err := c5Load()
		if err != nil {
			return "", err
		}
		roots, g, err := pr.roots()
		if err != nil {
			return "", err
		}
		if len(roots) < 2 {
			return "", fmt.Errorf("no go statement found under writer/")
		}
		var nodes []*c5Node
		labels := map[string]int{}
		for _, n := range g.nodes {
			nodes = append(nodes, n)
			labels[n.label]++
		}
		for l, c := range labels {
			if c > 1 {
				return "", fmt.Errorf("two functions are labelled %s", l)
			}
		}
		sort.Slice(nodes, func(i, j int) bool { return nodes[i].label < nodes[j].label })
		var sb strings.Builder
		sb.WriteString("namespace Qryn.Gen.IngestCensus\n")
		sb.WriteString("/-- every function of the module reached by one of the goroutines below that has a fault site:\n")
		sb.WriteString("    (function, sites (kind, source text, dominating conditions)) — typed census, see harness/extract/c05census.go -/\n")
		sb.WriteString("def functions : List (String × List (String × String × List String)) :=\n  [")
		first := true
		for _, n := range nodes {
			if len(n.sites) == 0 {
				continue
			}
			if !first {
				sb.WriteString(",\n   ")
			}
			first = false
			sb.WriteString(fmt.Sprintf("(%s,\n    [", leanStr(n.label)))
			for j, s := range n.sites {
				if j > 0 {
					sb.WriteString(",\n     ")
				}
				sb.WriteString(fmt.Sprintf("(%s, %s, %s)", leanStr(s.kind), leanStr(s.text), c5LeanList(s.guards)))
			}
			sb.WriteString("])")
		}
		sb.WriteString("]\n\n")
		// indexes: roots refer to functions (those with sites) and library calls by position, which keeps the kernel
		// evaluation of the per-goroutine checks cheap
		fnIdx := map[string]int{}
		k := 0
		for _, n := range nodes {
			if len(n.sites) > 0 {
				fnIdx[n.label] = k
				k++
			}
		}
		union := map[string]bool{}
		for _, e := range roots {
			for _, x := range e.externs {
				union[x] = true
			}
		}
		us := c5Sorted(union)
		exIdx := map[string]int{}
		for i, x := range us {
			exIdx[x] = i
		}
		nats := func(xs []int) string {
			parts := make([]string, len(xs))
			for i, x := range xs {
				parts[i] = fmt.Sprint(x)
			}
			return "[" + strings.Join(parts, ", ") + "]"
		}
		sb.WriteString("/-- (goroutine, shape, how a panic on it is caught (\"\" = not at all: the process dies), the functions WITH SITES that\n")
		sb.WriteString("    can run on its stack as positions in `functions`, the library functions called on its stack as positions in\n")
		sb.WriteString("    `externsUnion`) -/\n")
		sb.WriteString("def goroutines : List (String × String × String × List Nat × List Nat) :=\n  [")
		for i, e := range roots {
			if i > 0 {
				sb.WriteString(",\n   ")
			}
			var fi, xi []int
			for _, f := range e.funcs {
				if j, ok := fnIdx[f]; ok {
					fi = append(fi, j)
				}
			}
			for _, x := range e.externs {
				xi = append(xi, exIdx[x])
			}
			sb.WriteString(fmt.Sprintf("(%s, %s, %s,\n    %s,\n    %s)", leanStr(e.name), leanStr(e.shape), leanStr(e.recover), nats(fi), nats(xi)))
		}
		sb.WriteString("]\n\n")
		sb.WriteString("/-- for the reader: every function of the module that can run on the stack of each goroutine (with or without sites) -/\n")
		sb.WriteString("def reached : List (String × List String) :=\n  [")
		for i, e := range roots {
			if i > 0 {
				sb.WriteString(",\n   ")
			}
			sb.WriteString(fmt.Sprintf("(%s,\n    %s)", leanStr(e.name), c5LeanList(e.funcs)))
		}
		sb.WriteString("]\n\n")
		sb.WriteString("/-- every library function / method called on the stack of any of these goroutines (the boundary of the census) -/\n")
		sb.WriteString("def externsUnion : List String :=\n  [")
		for i, x := range us {
			if i > 0 {
				sb.WriteString(",\n   ")
			}
			sb.WriteString(leanStr(x))
		}
		sb.WriteString("]\n")
		var broken []string
		for p := range pr.broken {
			broken = append(broken, strings.TrimPrefix(p.PkgPath, c5ModPath))
		}
		sort.Strings(broken)
		sb.WriteString("\n/-- packages under writer/ that do not type-check (they cannot be linked into the binary): nothing of them is in the census -/\n")
		sb.WriteString("def excludedPackages : List String := " + c5LeanList(broken) + "\n")
		sb.WriteString("end Qryn.Gen.IngestCensus\n")
		return sb.String(), nil
	})
}
