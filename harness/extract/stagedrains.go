package main

// Gen.StageDrains (C12, L3): the drain discipline of every goroutine / function of the read side that RECEIVES from a
// channel in a loop — the in-process stages (GenericPlanner.WrapProcess), FixPeriodPlanner, the exporters of
// queryRangeService.go, the tail, the Tempo forwarders, the TraceQL collectors. Typed (SSA): the natural loop around the
// receive, every exit of the loop other than "the channel is closed", and for each such exit what happens to the channel
// on EVERY path from the exit to the end of the function:
//   drain   a drainer is started / run: `go drainEntries(ch)`, `go func(){ for range ch {} }()`, a call of a local
//           closure that does so (onErr), an inline `for range ch {}`;
//   cancel  the upstream is told to stop (ctx.CancelCtx(), a context.CancelFunc) but the channel is not read;
//   none    the function just returns: whoever sends on the channel blocks for ever.
// Plus: does the function recover (a recovered panic is one more way out of the loop), does it DEFER a drainer of that
// channel before the loop (covers every exit, the recovered panic included), is the receiver type of the enclosing
// method ever instantiated in the module (dead planners are listed, not judged).
// The channel is identified by the variable it lives in (closure captures are followed to the declaring function;
// a channel passed as an argument is followed to the parameter). Handlers (reader/controller) are not listed here:
// `typedHandlerLoops` of Gen.ReadGoroutines covers them.

import (
	"fmt"
	"go/token"
	"go/types"
	"sort"
	"strings"

	"golang.org/x/tools/go/ssa"
	"golang.org/x/tools/go/ssa/ssautil"
)

var rtCached *rtWorld

func rtWorldCached() (*rtWorld, error) {
	if rtCached != nil {
		return rtCached, nil
	}
	w, err := rtLoad()
	if err != nil {
		return nil, err
	}
	rtCached = w
	return w, nil
}

// the variable a channel value is read from: an Alloc (through closure captures), a parameter, or the value itself
func sdRoot(v ssa.Value) ssa.Value {
	for i := 0; i < 6; i++ {
		switch x := v.(type) {
		case *ssa.UnOp:
			if x.Op == token.MUL {
				if c := rtCell(x.X, 0); c != nil {
					return c
				}
				return x.X
			}
			return v
		case *ssa.ChangeType:
			v = x.X
		case *ssa.Phi:
			// `var c chan T` assigned on several paths: the phi itself is the variable
			return x
		default:
			return v
		}
	}
	return v
}

type sdDrained struct {
	param int       // ≥ 0: the function drains its parameter number `param`
	root  ssa.Value // otherwise: it drains this variable
}

// what channels does f (or a goroutine / callee it starts, two levels) read to the end in a loop?
func sdDrains(f *ssa.Function, depth int) []sdDrained {
	if f == nil || len(f.Blocks) == 0 || depth > 2 {
		return nil
	}
	var res []sdDrained
	add := func(r ssa.Value) {
		if p, ok := r.(*ssa.Parameter); ok && p.Parent() == f {
			for i, q := range f.Params {
				if q == p {
					res = append(res, sdDrained{param: i})
				}
			}
			return
		}
		res = append(res, sdDrained{param: -1, root: r})
	}
	for _, b := range f.Blocks {
		for _, in := range b.Instrs {
			switch x := in.(type) {
			case *ssa.UnOp:
				if x.Op == token.ARROW && rtInCycle(b) && sdPureDrainLoop(b) {
					add(sdRoot(x.X))
				}
			case ssa.CallInstruction:
				if _, isDefer := in.(*ssa.Defer); isDefer {
					continue
				}
				for _, d := range sdCallDrains(x, depth+1) {
					if p, ok := d.(*ssa.Parameter); ok && p.Parent() == f {
						add(p)
					} else {
						res = append(res, sdDrained{param: -1, root: d})
					}
				}
			}
		}
	}
	return res
}

// the loop around the receive does nothing but receive: `for range ch {}` (no send, no call, no exit but "closed")
func sdPureDrainLoop(hb *ssa.BasicBlock) bool {
	var loop map[*ssa.BasicBlock]bool
	for _, p := range hb.Preds {
		if hb.Dominates(p) {
			l := rtNaturalLoop(hb, p)
			if loop == nil {
				loop = l
			} else {
				for b := range l {
					loop[b] = true
				}
			}
		}
	}
	if loop == nil {
		return false
	}
	for b := range loop {
		for _, in := range b.Instrs {
			switch in.(type) {
			case *ssa.Send, *ssa.Call, *ssa.Go, *ssa.Defer, *ssa.Return, *ssa.Panic, *ssa.Select, *ssa.Store, *ssa.MapUpdate:
				return false
			}
		}
		if b != hb {
			for _, s := range b.Succs {
				if !loop[s] {
					return false
				}
			}
		}
	}
	return true
}

// the channel variables a call / go statement causes to be drained (in the caller's terms)
func sdCallDrains(ci ssa.CallInstruction, depth int) []ssa.Value {
	com := ci.Common()
	var callees []*ssa.Function
	if f := com.StaticCallee(); f != nil {
		callees = append(callees, f)
	} else if !com.IsInvoke() {
		if fs, ok := rtResolveFuncValue(com.Value, 0); ok {
			callees = fs
		}
	}
	var res []ssa.Value
	for _, f := range callees {
		if !rtIsQryn(f) {
			continue
		}
		for _, d := range sdDrains(f, depth) {
			if d.param >= 0 {
				if d.param < len(com.Args) {
					res = append(res, sdRoot(com.Args[d.param]))
				}
			} else {
				res = append(res, d.root)
			}
		}
	}
	return res
}

func sdIsCancel(ci ssa.CallInstruction) bool {
	com := ci.Common()
	if com.IsInvoke() || com.StaticCallee() != nil {
		return false
	}
	if rtLibraryResult(com.Value, 0) == "result of context.WithCancel" || strings.HasPrefix(rtLibraryResult(com.Value, 0), "result of context.With") {
		return true
	}
	switch x := com.Value.(type) {
	case *ssa.UnOp:
		if fa, ok := x.X.(*ssa.FieldAddr); ok && x.Op == token.MUL {
			n := rtFieldName(fa.X.Type(), fa.Field)
			return n == "CancelCtx" || n == "cancel"
		}
	case *ssa.Field:
		n := rtFieldName(x.X.Type(), x.Field)
		return n == "CancelCtx" || n == "cancel"
	}
	return false
}

type sdStage struct {
	name, ch     string
	recovers     bool
	deferred     bool
	instantiated bool
	exits        [][2]string
}

func sdBuild() ([]sdStage, error) {
	w, err := rtWorldCached()
	if err != nil {
		return nil, err
	}
	all := ssautil.AllFunctions(w.prog)
	var fns []*ssa.Function
	for f := range all {
		if rtUnderReader(f) && len(f.Blocks) > 0 && f.Synthetic == "" && rtPkgPath(f) != rtModule+"/reader/controller" {
			fns = append(fns, f)
		}
	}
	posKey := func(p token.Pos) string {
		if !p.IsValid() {
			return "~"
		}
		pp := w.fset.Position(p)
		return fmt.Sprintf("%s:%09d", pp.Filename, pp.Offset)
	}
	sort.Slice(fns, func(i, j int) bool {
		a, b := posKey(fns[i].Pos()), posKey(fns[j].Pos())
		if a != b {
			return a < b
		}
		return rtFnName(fns[i]) < rtFnName(fns[j])
	})
	// instantiated receiver types: an Alloc / composite literal of the named type anywhere in the module
	inst := map[string]bool{}
	for f := range all {
		if !rtIsQryn(f) {
			continue
		}
		for _, b := range f.Blocks {
			for _, in := range b.Instrs {
				if a, ok := in.(*ssa.Alloc); ok {
					if p, ok := a.Type().(*types.Pointer); ok {
						if n, ok := p.Elem().(*types.Named); ok {
							inst[n.String()] = true
						}
					}
				}
				if mi, ok := in.(*ssa.MakeInterface); ok {
					t := mi.X.Type()
					if p, ok := t.(*types.Pointer); ok {
						t = p.Elem()
					}
					if n, ok := t.(*types.Named); ok {
						if _, isStruct := n.Underlying().(*types.Struct); isStruct {
							if _, fromAlloc := mi.X.(*ssa.Alloc); fromAlloc || !isPointer(mi.X.Type()) {
								inst[n.String()] = true
							}
						}
					}
				}
			}
		}
	}
	// a type embedded (or held by value) in an instantiated struct is instantiated with it
	named := map[string]*types.Named{}
	for f := range all {
		if !rtIsQryn(f) || f.Signature.Recv() == nil {
			continue
		}
		t := f.Signature.Recv().Type()
		if p, ok := t.(*types.Pointer); ok {
			t = p.Elem()
		}
		if n, ok := t.(*types.Named); ok {
			named[n.String()] = n
		}
	}
	for changed := true; changed; {
		changed = false
		for name, n := range named {
			if !inst[name] {
				continue
			}
			if st, ok := n.Underlying().(*types.Struct); ok {
				for i := 0; i < st.NumFields(); i++ {
					if fn, ok := st.Field(i).Type().(*types.Named); ok && !inst[fn.String()] {
						inst[fn.String()] = true
						named[fn.String()] = fn
						changed = true
					}
				}
			}
		}
	}
	var res []sdStage
	for _, f := range fns {
		rf := w.analyse(f)
		k := 0
		for _, hb := range f.Blocks {
			var loop map[*ssa.BasicBlock]bool
			for _, p := range hb.Preds {
				if hb.Dominates(p) {
					l := rtNaturalLoop(hb, p)
					if loop == nil {
						loop = l
					} else {
						for b := range l {
							loop[b] = true
						}
					}
				}
			}
			if loop == nil {
				continue
			}
			// a receive directly in this loop's header (range over channel) or a select-receive in the loop
			var chv ssa.Value
			isRange := false
			for _, in := range hb.Instrs {
				if u, ok := in.(*ssa.UnOp); ok && u.Op == token.ARROW && u.CommaOk {
					chv, isRange = u.X, true
				}
			}
			if chv == nil {
				// `for { select { case x := <-ch … } }` / `for { x := <-ch }`: a receive in the loop, not in an inner loop's header
				for b := range loop {
					for _, in := range b.Instrs {
						switch x := in.(type) {
						case *ssa.Select:
							for _, st := range x.States {
								if st.Dir == types.RecvOnly {
									t := w.chanKey(st.Chan)
									if strings.HasSuffix(t, "Done()") || strings.HasSuffix(t, ".C") || strings.HasSuffix(t, "After()") {
										continue
									}
									chv = st.Chan
								}
							}
						}
					}
				}
			}
			if chv == nil {
				continue
			}
			key := w.chanKey(chv)
			if strings.HasSuffix(key, "Done()") || strings.HasSuffix(key, ".C") {
				continue // a ticker / a context: nobody blocks sending to it
			}
			if isRange && sdPureDrainLoop(hb) {
				continue // this IS a drainer
			}
			root := sdRoot(chv)
			k++
			st := sdStage{name: fmt.Sprintf("%s:%s#%d", w.relFile(f.Pos()), rtFnName(f), k), ch: w.chanText(chv, key), recovers: rf.recDef != nil}
			// receiver type of the enclosing declared method
			st.instantiated = true
			if top := rtTop(f); top.Signature.Recv() != nil {
				t := top.Signature.Recv().Type()
				if p, ok := t.(*types.Pointer); ok {
					t = p.Elem()
				}
				if n, ok := t.(*types.Named); ok {
					st.instantiated = inst[n.String()]
				}
			}
			// deferred drainer, installed before the loop
			for _, b := range f.Blocks {
				for _, in := range b.Instrs {
					d, ok := in.(*ssa.Defer)
					if !ok || !(b.Dominates(hb)) {
						continue
					}
					for _, r := range sdCallDrains(d, 0) {
						if r == root {
							st.deferred = true
						}
					}
				}
			}
			closedExit := map[*ssa.BasicBlock]bool{}
			if isRange {
				for _, s := range hb.Succs {
					if !loop[s] {
						closedExit[s] = true
					}
				}
			}
			type exitEdge struct{ from, to *ssa.BasicBlock }
			var exits []exitEdge
			for b := range loop {
				for _, s := range b.Succs {
					if !loop[s] && !(b == hb && closedExit[s]) {
						exits = append(exits, exitEdge{b, s})
					}
				}
			}
			sort.Slice(exits, func(i, j int) bool { return exits[i].to.Index < exits[j].to.Index })
			// a Return inside the loop cannot exist (it would not reach the back edge); exits lead outside
			for _, e := range exits {
				end := w.sdPathEnd(e.to, loop, root, map[*ssa.BasicBlock]bool{})
				gs := w.guardTexts(e.to)
				cond := "?"
				if len(gs) > 0 {
					cond = gs[len(gs)-1]
				}
				st.exits = append(st.exits, [2]string{cond, end})
			}
			res = append(res, st)
		}
	}
	if len(res) == 0 {
		return nil, fmt.Errorf("no receive loop found under reader/ (outside the controllers)")
	}
	return res, nil
}

func isPointer(t types.Type) bool { _, ok := t.Underlying().(*types.Pointer); return ok }

// worst end over all paths from b (outside the loop) to the end of the function
func (w *rtWorld) sdPathEnd(b *ssa.BasicBlock, loop map[*ssa.BasicBlock]bool, root ssa.Value, seen map[*ssa.BasicBlock]bool) string {
	if seen[b] {
		return "drain" // a cycle outside the loop adds nothing by itself
	}
	seen[b] = true
	cancelled := false
	for _, in := range b.Instrs {
		if ci, ok := in.(ssa.CallInstruction); ok {
			if _, isDefer := in.(*ssa.Defer); isDefer {
				continue
			}
			for _, r := range sdCallDrains(ci, 0) {
				if r == root {
					return "drain"
				}
			}
			if sdIsCancel(ci) {
				cancelled = true
			}
		}
		if u, ok := in.(*ssa.UnOp); ok && u.Op == token.ARROW && sdRoot(u.X) == root && rtInCycle(b) && sdPureDrainLoop(b) {
			return "drain"
		}
	}
	worst := "drain"
	ends := 0
	for _, s := range b.Succs {
		if loop[s] {
			continue
		}
		ends++
		switch w.sdPathEnd(s, loop, root, seen) {
		case "none":
			worst = "none"
		case "cancel":
			if worst != "none" {
				worst = "cancel"
			}
		}
	}
	if ends == 0 {
		worst = "none" // the function ends here
	}
	if cancelled && worst == "none" {
		return "cancel"
	}
	return worst
}

func init() {
	register("StageDrains", func() (string, error) {
		st, err := sdBuild()
		if err != nil {
			return "", err
		}
		var sb strings.Builder
		sb.WriteString("namespace Qryn.Gen.StageDrains\n")
		sb.WriteString("/-- every loop of the read side (outside reader/controller) that receives from a channel:\n")
		sb.WriteString("    (function#loop, channel, the function has a direct deferred recover, it defers a drainer of that channel before the\n")
		sb.WriteString("    loop, the receiver type of the enclosing method is instantiated somewhere in the module, the exits of the loop other\n")
		sb.WriteString("    than \"channel closed\": (dominating condition, what happens to the channel on the worst path: drain | cancel | none)) -/\n")
		sb.WriteString("def stages : List (String × String × Bool × Bool × Bool × List (String × String)) :=\n  [")
		for i, s := range st {
			if i > 0 {
				sb.WriteString(",\n   ")
			}
			var es []string
			for _, e := range s.exits {
				es = append(es, fmt.Sprintf("(%s, %s)", leanStr(e[0]), leanStr(e[1])))
			}
			sb.WriteString(fmt.Sprintf("(%s, %s, %v, %v, %v,\n    [%s])", leanStr(s.name), leanStr(s.ch), s.recovers, s.deferred, s.instantiated, strings.Join(es, ", ")))
		}
		sb.WriteString("]\nend Qryn.Gen.StageDrains\n")
		return sb.String(), nil
	})
}
