package main

import (
	"fmt"
	"go/ast"
	"strings"
)

// Gen.PromLabelsFetch: the "labels fetched afterwards" step of CLokiQuerier.Select (reader/service/promQueryable.go):
//   * labelsGetter.getFetchRequest: the statement — table (time_series / time_series_dist), the two selected columns, the
//     three conditions `fingerprint IN (…)`, `date >= FormatFromDate(<lower>)`, `date <= l.DateTo.UTC().Format("2006-01-02")`;
//     <lower> is recorded ("from" = l.DateFrom, "to" = l.DateTo: the last-day-only shape), every other shape fails closed;
//   * where DateFrom / DateTo come from: newLabelsGetter(time.UnixMilli(hints.Start), time.UnixMilli(hints.End), …) in Select,
//     `DateFrom: from, DateTo: to` in newLabelsGetter;
//   * Fetch: the request is built for l.fingerprintToFetch, a row assigns fingerprintsHas[fingerprint]; Get: a fingerprint
//     without an entry gets labels.Labels{}.
func init() {
	register("PromLabelsFetch", func() (string, error) {
		fset, f, err := parseFile("reader/service/promQueryable.go")
		if err != nil {
			return "", err
		}
		gfr := findFunc(f, "labelsGetter", "getFetchRequest")
		if gfr == nil {
			return "", fmt.Errorf("labelsGetter.getFetchRequest not found")
		}
		var reqText, loopOver string
		var tables []string
		ast.Inspect(gfr.Body, func(n ast.Node) bool {
			switch x := n.(type) {
			case *ast.AssignStmt:
				if len(x.Lhs) == 1 && len(x.Rhs) == 1 {
					if id, ok := x.Lhs[0].(*ast.Ident); ok {
						switch id.Name {
						case "req":
							reqText = promPrintNode(fset, x.Rhs[0])
						case "tableName":
							tables = append(tables, promPrintNode(fset, x.Rhs[0]))
						}
					}
				}
			case *ast.RangeStmt:
				loopOver = promPrintNode(fset, x.X) + " => " + promPrintNode(fset, x.Body)
			}
			return true
		})
		const shape = `sql.NewSelect(). Select(sql.NewRawObject("fingerprint"), sql.NewSimpleCol("JSONExtractKeysAndValues(labels, 'String')", "labels")). From(sql.NewRawObject(tableName)). AndWhere( sql.NewIn(sql.NewRawObject("fingerprint"), fps...), sql.Ge(sql.NewRawObject("date"), sql.NewStringVal(FormatFromDate(@LOWER@))), sql.Le(sql.NewRawObject("date"), sql.NewStringVal(l.DateTo.UTC().Format("2006-01-02"))))`
		lower := ""
		switch reqText {
		case strings.Replace(shape, "@LOWER@", "l.DateFrom", 1):
			lower = "from"
		case strings.Replace(shape, "@LOWER@", "l.DateTo", 1):
			lower = "to"
		default:
			return "", fmt.Errorf("getFetchRequest: statement not recognised: %s", reqText)
		}
		if len(tables) != 2 || tables[0] != `tables.GetTableName("time_series")` || tables[1] != `tables.GetTableName("time_series_dist")` {
			return "", fmt.Errorf("getFetchRequest: table names not recognised: %v", tables)
		}
		const loopBody = `{ fps = append(fps, sql.NewRawObject(strconv.FormatUint(fp, 10))) }`
		if loopOver != "l.fingerprintToFetch => "+loopBody && loopOver != "fingerprints => "+loopBody {
			return "", fmt.Errorf("getFetchRequest: fingerprint list not recognised: %s", loopOver)
		}
		// Fetch: the planned fingerprints are asked for, every row assigns the map entry
		fetch := findFunc(f, "labelsGetter", "Fetch")
		if fetch == nil {
			return "", fmt.Errorf("labelsGetter.Fetch not found")
		}
		ft := promPrintNode(fset, fetch.Body)
		for _, want := range []string{
			`req := l.getFetchRequest(l.fingerprintToFetch)`,
			`rows, err := l.Conn.Session.QueryCtx(l.Ctx, strReq)`,
			`err := rows.Scan(&fingerprint, &labels)`,
			`l.fingerprintsHas[fingerprint] = strLabels`,
		} {
			if !strings.Contains(ft, want) {
				return "", fmt.Errorf("labelsGetter.Fetch: %q not found", want)
			}
		}
		get := findFunc(f, "labelsGetter", "Get")
		if get == nil {
			return "", fmt.Errorf("labelsGetter.Get not found")
		}
		gt := promPrintNode(fset, get.Body)
		if !strings.Contains(gt, `strLabels, ok := l.fingerprintsHas[fingerprint] if !ok {`) || !strings.Contains(gt, `return labels.Labels{}`) {
			return "", fmt.Errorf("labelsGetter.Get: shape not recognised")
		}
		plan := findFunc(f, "labelsGetter", "Plan")
		if plan == nil || promPrintNode(fset, plan.Body) != `{ l.fingerprintToFetch[fingerprint] = true }` {
			return "", fmt.Errorf("labelsGetter.Plan: shape not recognised")
		}
		// where the two instants come from
		nlg := findFunc(f, "", "newLabelsGetter")
		if nlg == nil {
			return "", fmt.Errorf("newLabelsGetter not found")
		}
		nt := promPrintNode(fset, nlg)
		if !strings.Contains(nt, `func newLabelsGetter(from time.Time, to time.Time,`) || !strings.Contains(nt, `DateFrom: from, DateTo: to,`) {
			return "", fmt.Errorf("newLabelsGetter: shape not recognised")
		}
		sel := findFunc(f, "CLokiQuerier", "Select")
		if sel == nil {
			return "", fmt.Errorf("CLokiQuerier.Select not found")
		}
		st := promPrintNode(fset, sel.Body)
		for _, want := range []string{
			`lblsGetter := newLabelsGetter(time.UnixMilli(hints.Start), time.UnixMilli(hints.End), c.db, c.ctx)`,
			`if len(res.Series) == 0 || fp != lastLabels { lblsGetter.Plan(fp)`,
			`err = lblsGetter.Fetch() if err != nil { return &model.SeriesSet{Error: err} } res.Series = c.ReshuffleSeries(res.Series)`,
		} {
			if !strings.Contains(st, want) {
				return "", fmt.Errorf("CLokiQuerier.Select: %q not found", want)
			}
		}
		// FormatFromDate of reader/service is the planner's
		fsu, fu, err := parseFile("reader/service/utils.go")
		if err != nil {
			return "", err
		}
		ffd := findFunc(fu, "", "FormatFromDate")
		if ffd == nil || promPrintNode(fsu, ffd.Body) != `{ return clickhouse_planner.FormatFromDate(from) }` {
			return "", fmt.Errorf("service.FormatFromDate: shape not recognised")
		}
		fsm, fm, err := parseFile("reader/logql/logql_transpiler_v2/clickhouse_planner/sql_misc.go")
		if err != nil {
			return "", err
		}
		pffd := findFunc(fm, "", "FormatFromDate")
		if pffd == nil || promPrintNode(fsm, pffd.Body) != `{ return from.UTC().Add(time.Minute * -30).Format("2006-01-02") }` {
			return "", fmt.Errorf("clickhouse_planner.FormatFromDate: body changed")
		}
		var b strings.Builder
		b.WriteString("namespace Qryn.Gen.PromLabelsFetch\n")
		b.WriteString("/-- labelsGetter.getFetchRequest: the instant `FormatFromDate` is applied to in `date >= …`: \"from\" = l.DateFrom (= hints.Start), \"to\" = l.DateTo (= hints.End: only the last day is read) -/\n")
		fmt.Fprintf(&b, "def lowerOf : String := %s\n", leanStr(lower))
		b.WriteString("/-- FormatFromDate: `from.UTC().Add(time.Minute * -30).Format(\"2006-01-02\")` -/\ndef marginSec : Int := 1800\n")
		b.WriteString("/-- the upper bound is `l.DateTo.UTC().Format(\"2006-01-02\")`; DateFrom / DateTo = time.UnixMilli(hints.Start / hints.End) -/\ndef upperOf : String := \"to\"\n")
		b.WriteString("def table : String := \"time_series\"\ndef distTable : String := \"time_series_dist\"\n")
		b.WriteString("end Qryn.Gen.PromLabelsFetch\n")
		return b.String(), nil
	})
}
