package main

// Gen.CtxChains (C05): the request-context discipline of every ingest handler chain, WITH the dynamic types.
//
// For every handler constructor of writer/controller (`func X(cfg MiddlewareConfig) … { return Build(append(
// cfg.ExtraMiddleware, options…)…) }`), each value of cfg.ExtraMiddleware and each parser the Content-Type can select,
// the translator lists — in the order the code runs them — every operation on the request context:
//
//   store      context.WithValue(_, "K", v)            with the type of v (go/types)
//   assert     ctx.Value("K").(T)                      a bare assertion: panics when the key is absent or of another type
//   assertNil  x := ctx.Value("K"); if x != nil { x.(T) } / if x == nil { return }; x.(T)
//                                                      panics only when the key is present with another type
//   assertOk   v, ok := ctx.Value("K").(T)             never panics
//   mayFail    an early `return` of a non-nil error    the rest of the chain does not run
//
// through: the pre-request steps of the handler (named middlewares, function literals, cfg.ExtraMiddleware), the
// pre-request steps of a withComplexParser, `doParse` (with getBodyStream / getService inlined, the key parameter
// replaced by the literal of the call), the PreParse steps of the selected parser of writer/utils/unmarshal
// (`withStringValueFromCtx("k")` …), `doParseLogs/Spans/Profile`, and the `Decode` method of the decoder the parser
// builds (with the functions of the module it calls statically). Operations that run on the parser goroutine carry
// the tag "parser" (a failed assertion there is tamed into a 500, on the handler goroutine it aborts the connection).
//
// `assignable` lists the (stored type, asserted type) pairs of different types for which the assertion still succeeds
// (the asserted type is an interface the stored type implements).
//
// Fails closed on: a handler of another shape, an unknown build option, a context key that is neither a literal nor a
// parameter bound to a literal at the call, an assertion on something that is not a context value but looks like one.

import (
	"fmt"
	"go/ast"
	"go/constant"
	"go/token"
	"go/types"
	"sort"
	"strings"

	"golang.org/x/tools/go/packages"
)

type c5CtxOp struct {
	kind, key, typ, where, gor string
	pos                        token.Pos
}

type c5Ctx struct {
	pr     *c5Prog
	stored map[string]types.Type
	assert map[string]types.Type
	err    error
}

func (cx *c5Ctx) fail(format string, a ...any) {
	if cx.err == nil {
		cx.err = fmt.Errorf(format, a...)
	}
}

func c5IsContext(t types.Type) bool {
	if t == nil {
		return false
	}
	if n, ok := t.(*types.Named); ok {
		return n.Obj().Pkg() != nil && n.Obj().Pkg().Path() == "context" && n.Obj().Name() == "Context"
	}
	return false
}

// key of X.Value(k): literal → (k, true); identifier of a variable → ("$"+name, true)
func (cx *c5Ctx) keyOf(info *types.Info, e ast.Expr) (string, bool) {
	if tv, ok := info.Types[e]; ok && tv.Value != nil && tv.Value.Kind() == constant.String {
		return constant.StringVal(tv.Value), true
	}
	if id, ok := ast.Unparen(e).(*ast.Ident); ok {
		if _, isVar := info.Uses[id].(*types.Var); isVar {
			return "$" + id.Name, true
		}
	}
	return "", false
}

func (cx *c5Ctx) valueCall(info *types.Info, e ast.Expr) (string, bool) {
	call, ok := ast.Unparen(e).(*ast.CallExpr)
	if !ok || len(call.Args) != 1 {
		return "", false
	}
	sel, ok := call.Fun.(*ast.SelectorExpr)
	if !ok || sel.Sel.Name != "Value" || !c5IsContext(info.TypeOf(sel.X)) {
		return "", false
	}
	k, ok := cx.keyOf(info, call.Args[0])
	if !ok {
		cx.fail("a context key that is neither a string constant nor a variable: %s", c5Text(call.Args[0]))
		return "", false
	}
	return k, true
}

// opsOfBody: the context operations of a function body in source order; calls of functions of the module are inlined
// (their key parameters replaced by the arguments). `bind` maps "$param" keys to literals.
func (cx *c5Ctx) opsOfBody(p *packages.Package, body *ast.BlockStmt, fnType *ast.FuncType, where, gor string, bind map[string]string, depth int, seen map[ast.Node]bool) []c5CtxOp {
	info := p.TypesInfo
	var ops []c5CtxOp
	if body == nil || depth > 6 {
		return nil
	}
	varKey := map[types.Object]string{}
	commaOk := map[*ast.TypeAssertExpr]bool{}
	nilGuarded := map[types.Object][]ast.Node{} // blocks inside which the variable is known non-nil
	var nilReturn []struct {
		obj types.Object
		pos token.Pos
	}
	resolve := func(k string) string {
		if strings.HasPrefix(k, "$") {
			if v, ok := bind[k]; ok {
				return v
			}
		}
		return k
	}
	objOf := func(e ast.Expr) types.Object {
		if id, ok := ast.Unparen(e).(*ast.Ident); ok {
			if o := info.Uses[id]; o != nil {
				return o
			}
			return info.Defs[id]
		}
		return nil
	}
	// pass 1: variable ↔ key, comma-ok assertions, nil checks
	ast.Inspect(body, func(n ast.Node) bool {
		switch x := n.(type) {
		case *ast.AssignStmt:
			if len(x.Lhs) == 2 && len(x.Rhs) == 1 {
				if ta, ok := ast.Unparen(x.Rhs[0]).(*ast.TypeAssertExpr); ok {
					commaOk[ta] = true
				}
			}
			if len(x.Lhs) == 1 && len(x.Rhs) == 1 {
				if k, ok := cx.valueCall(info, x.Rhs[0]); ok {
					if o := objOf(x.Lhs[0]); o != nil {
						varKey[o] = k
					}
				}
			}
		case *ast.TypeSwitchStmt:
			ast.Inspect(x.Assign, func(m ast.Node) bool {
				if ta, ok := m.(*ast.TypeAssertExpr); ok {
					commaOk[ta] = true
				}
				return true
			})
		case *ast.IfStmt:
			if be, ok := ast.Unparen(x.Cond).(*ast.BinaryExpr); ok {
				if id, isNil := ast.Unparen(be.Y).(*ast.Ident); isNil && id.Name == "nil" {
					if o := objOf(be.X); o != nil {
						switch be.Op {
						case token.NEQ:
							nilGuarded[o] = append(nilGuarded[o], x.Body)
						case token.EQL:
							if c5Terminates(x.Body) {
								nilReturn = append(nilReturn, struct {
									obj types.Object
									pos token.Pos
								}{o, x.End()})
							}
						}
					}
				}
			}
		}
		return true
	})
	within := func(n ast.Node, blocks []ast.Node) bool {
		for _, b := range blocks {
			if b.Pos() <= n.Pos() && n.End() <= b.End() {
				return true
			}
		}
		return false
	}
	var lastStmt ast.Stmt
	if len(body.List) > 0 {
		lastStmt = body.List[len(body.List)-1]
	}
	// pass 2: the operations in source order
	var walk func(n ast.Node) bool
	walk = func(n ast.Node) bool {
		switch x := n.(type) {
		case *ast.FuncLit:
			// a nested literal: its operations belong to whoever calls it; a literal applied on the spot is walked
			return false
		case *ast.GoStmt:
			return false
		case *ast.ReturnStmt:
			if x != lastStmt && len(x.Results) > 0 {
				last := ast.Unparen(x.Results[len(x.Results)-1])
				if id, ok := last.(*ast.Ident); !ok || id.Name != "nil" {
					if t := info.TypeOf(last); t != nil && types.Identical(t, types.Universe.Lookup("error").Type()) || c5IsErrorish(info, last) {
						ops = append(ops, c5CtxOp{kind: "mayFail", where: where, gor: gor, pos: x.Pos()})
					}
				}
			}
		case *ast.TypeAssertExpr:
			if x.Type == nil {
				return true
			}
			key, isCtx := "", false
			if o := objOf(x.X); o != nil {
				key, isCtx = varKey[o], varKey[o] != ""
			} else if k, ok := cx.valueCall(info, x.X); ok {
				key, isCtx = k, true
			}
			if !isCtx {
				return true
			}
			kind := "assert"
			if commaOk[x] {
				kind = "assertOk"
			} else if o := objOf(x.X); o != nil {
				if within(x, nilGuarded[o]) {
					kind = "assertNil"
				}
				for _, nr := range nilReturn {
					if nr.obj == o && nr.pos <= x.Pos() {
						kind = "assertNil"
					}
				}
			}
			t := info.TypeOf(x.Type)
			ts := c5TypeStr(t)
			cx.assert[ts] = t
			ops = append(ops, c5CtxOp{kind: kind, key: resolve(key), typ: ts, where: where, gor: gor, pos: x.Pos()})
		case *ast.CallExpr:
			fun := ast.Unparen(x.Fun)
			// context.WithValue
			if sel, ok := fun.(*ast.SelectorExpr); ok {
				if fn, ok := info.Uses[sel.Sel].(*types.Func); ok && fn.Pkg() != nil && fn.Pkg().Path() == "context" && fn.Name() == "WithValue" && len(x.Args) == 3 {
					k, ok := cx.keyOf(info, x.Args[1])
					if !ok {
						cx.fail("%s: context.WithValue with a key that is neither a string constant nor a variable", where)
						return true
					}
					// the arguments first (they may read the context)
					for _, a := range x.Args {
						ast.Inspect(a, walk)
					}
					t := info.TypeOf(x.Args[2])
					ts := c5TypeStr(t)
					cx.stored[ts] = t
					ops = append(ops, c5CtxOp{kind: "store", key: resolve(k), typ: ts, where: where, gor: gor, pos: x.Pos()})
					return false
				}
			}
			// a literal applied on the spot
			if fl, ok := fun.(*ast.FuncLit); ok {
				for _, a := range x.Args {
					ast.Inspect(a, walk)
				}
				ops = append(ops, cx.opsOfBody(p, fl.Body, fl.Type, where, gor, bind, depth+1, seen)...)
				return false
			}
			// a static call of a function of the module: inline
			var callee *types.Func
			switch f := fun.(type) {
			case *ast.Ident:
				callee, _ = info.Uses[f].(*types.Func)
			case *ast.SelectorExpr:
				if s := info.Selections[f]; s != nil {
					if s.Kind() == types.MethodVal {
						callee, _ = s.Obj().(*types.Func)
					}
				} else {
					callee, _ = info.Uses[f.Sel].(*types.Func)
				}
			}
			if callee != nil {
				if d, ok := cx.pr.declOf[callee.Origin()]; ok && !c5IsBoundary(callee.Pkg()) && !seen[d.fd] {
					for _, a := range x.Args {
						ast.Inspect(a, walk)
					}
					nb := map[string]string{}
					sig := callee.Type().(*types.Signature)
					for i := 0; i < sig.Params().Len() && i < len(x.Args); i++ {
						if tv, ok := info.Types[x.Args[i]]; ok && tv.Value != nil && tv.Value.Kind() == constant.String {
							nb["$"+sig.Params().At(i).Name()] = constant.StringVal(tv.Value)
						} else if id, ok := ast.Unparen(x.Args[i]).(*ast.Ident); ok {
							if v, ok := bind["$"+id.Name]; ok {
								nb["$"+sig.Params().At(i).Name()] = v
							}
						}
					}
					seen[d.fd] = true
					inner := cx.opsOfBody(d.pkg, d.fd.Body, d.fd.Type, c5DeclLabel(d.pkg, d.fd), gor, nb, depth+1, seen)
					delete(seen, d.fd)
					ops = append(ops, inner...)
					return false
				}
			}
		}
		return true
	}
	ast.Inspect(body, walk)
	_ = fnType
	return ops
}

func c5IsErrorish(info *types.Info, e ast.Expr) bool {
	t := info.TypeOf(e)
	if t == nil {
		return false
	}
	errT := types.Universe.Lookup("error").Type().Underlying().(*types.Interface)
	return types.Implements(t, errT)
}

type c5Step struct {
	name string
	ops  []c5CtxOp
}

type c5ParserSel struct {
	contentType string
	pre         []c5Step
	parserVar   string // unmarshal.X
}

type c5Handler struct {
	name    string
	pre     []c5Step // "cfg.ExtraMiddleware" is a placeholder step
	parsers []c5ParserSel
}

func (cx *c5Ctx) pkgBySuffix(suffix string) *packages.Package {
	for _, p := range cx.pr.pkgs {
		if strings.HasSuffix(p.PkgPath, suffix) {
			if _, bad := cx.pr.broken[p]; !bad {
				return p
			}
		}
	}
	return nil
}

// package-level `var name = <init>`
func c5VarInit(p *packages.Package, name string) ast.Expr {
	for _, f := range p.Syntax {
		if e := varInit(f, name); e != nil {
			return e
		}
	}
	return nil
}

func (cx *c5Ctx) litStep(p *packages.Package, name string, fl *ast.FuncLit) c5Step {
	return c5Step{name: name, ops: cx.opsOfBody(p, fl.Body, fl.Type, name, "handler", map[string]string{}, 0, map[ast.Node]bool{})}
}

// a named pre-request middleware: `var X = WithPreRequest(func …)`
func (cx *c5Ctx) namedMiddleware(p *packages.Package, name string) (c5Step, bool) {
	init := c5VarInit(p, name)
	call, ok := init.(*ast.CallExpr)
	if !ok || len(call.Args) != 1 {
		return c5Step{}, false
	}
	if id, ok := call.Fun.(*ast.Ident); !ok || id.Name != "WithPreRequest" {
		return c5Step{}, false
	}
	fl, ok := call.Args[0].(*ast.FuncLit)
	if !ok {
		return c5Step{}, false
	}
	return cx.litStep(p, name, fl), true
}

func (cx *c5Ctx) option(p *packages.Package, e ast.Expr, where string) (step *c5Step, ps *c5ParserSel) {
	switch x := e.(type) {
	case *ast.Ident:
		st, ok := cx.namedMiddleware(p, x.Name)
		if !ok {
			cx.fail("%s: %s is not `var … = WithPreRequest(func …)`", where, x.Name)
			return nil, nil
		}
		return &st, nil
	case *ast.CallExpr:
		fn := c5Text(x.Fun)
		switch fn {
		case "withSimpleParser", "withComplexParser":
			if len(x.Args) < 2 {
				cx.fail("%s: %s of an unexpected shape", where, fn)
				return nil, nil
			}
			ct, ok := strLit(x.Args[0])
			pv := ""
			if conv, ok2 := x.Args[1].(*ast.CallExpr); ok2 && c5Text(conv.Fun) == "Parser" && len(conv.Args) == 1 {
				if sel, ok3 := conv.Args[0].(*ast.SelectorExpr); ok3 && c5Text(sel.X) == "unmarshal" {
					pv = sel.Sel.Name
				}
			}
			if !ok || pv == "" {
				cx.fail("%s: %s: content type or `Parser(unmarshal.X)` not recognised", where, fn)
				return nil, nil
			}
			sel := &c5ParserSel{contentType: ct, parserVar: pv}
			for _, o := range x.Args[2:] {
				st, inner := cx.option(p, o, where)
				if inner != nil {
					cx.fail("%s: a parser nested in withComplexParser", where)
					return nil, nil
				}
				if st != nil {
					sel.pre = append(sel.pre, *st)
				}
			}
			return nil, sel
		case "withParserContext", "WithPreRequest":
			if len(x.Args) != 1 {
				cx.fail("%s: %s of an unexpected shape", where, fn)
				return nil, nil
			}
			fl, ok := x.Args[0].(*ast.FuncLit)
			if !ok {
				cx.fail("%s: %s without a function literal", where, fn)
				return nil, nil
			}
			st := cx.litStep(p, where+"/"+fn, fl)
			if fn == "withParserContext" {
				// the wrapper: `parserCtx, err := fn(w, r, ctx); if err != nil { return err }`
				st.ops = append(st.ops, c5CtxOp{kind: "mayFail", where: "withParserContext", gor: "handler"})
			}
			return &st, nil
		case "withOkStatusAndBody", "withOkStatusAndJSONBody", "withPostRequest":
			return nil, nil
		}
	}
	cx.fail("%s: unknown build option %s", where, c5Text(e))
	return nil, nil
}

// the parser `var X = Build(options…)` of writer/utils/unmarshal: PreParse steps, the doParse* function, the decoder type
func (cx *c5Ctx) parserOps(up *packages.Package, name string) []c5CtxOp {
	init := c5VarInit(up, name)
	call, ok := init.(*ast.CallExpr)
	if !ok || c5Text(call.Fun) != "Build" {
		cx.fail("unmarshal.%s is not `Build(options…)`", name)
		return nil
	}
	info := up.TypesInfo
	var pre, dec []c5CtxOp
	kind := ""
	for _, o := range call.Args {
		switch x := ast.Unparen(o).(type) {
		case *ast.Ident:
			// a named option (`withBufferedBody`): the literals of its initialiser that run as PreParse steps
			if init := c5VarInit(up, x.Name); init != nil {
				ast.Inspect(init, func(n ast.Node) bool {
					if fl, ok := n.(*ast.FuncLit); ok && c5IsParserFn(info, fl) {
						pre = append(pre, cx.opsOfBody(up, fl.Body, fl.Type, "unmarshal."+x.Name, "handler", map[string]string{}, 0, map[ast.Node]bool{})...)
						return false
					}
					return true
				})
			} else {
				cx.fail("unmarshal.%s: option %s not found", name, x.Name)
			}
		case *ast.CallExpr:
			fn := c5Text(x.Fun)
			switch fn {
			case "withLogsParser", "withSpansParser", "withProfileParser":
				kind = strings.TrimSuffix(strings.TrimPrefix(fn, "with"), "Parser")
				fl, ok := x.Args[0].(*ast.FuncLit)
				if !ok {
					cx.fail("unmarshal.%s: %s without a function literal", name, fn)
					continue
				}
				// the decoder type: the composite literal the constructor returns
				var dt types.Type
				ast.Inspect(fl.Body, func(n ast.Node) bool {
					if cl, ok := n.(*ast.CompositeLit); ok && dt == nil {
						dt = info.TypeOf(cl)
					}
					return true
				})
				if dt == nil {
					cx.fail("unmarshal.%s: the decoder the constructor returns is not a composite literal", name)
					continue
				}
				obj, _, _ := types.LookupFieldOrMethod(types.NewPointer(dt), true, up.Types, "Decode")
				fnDec, ok := obj.(*types.Func)
				if !ok {
					cx.fail("unmarshal.%s: %s has no Decode method", name, c5TypeStr(dt))
					continue
				}
				d, ok := cx.pr.declOf[fnDec.Origin()]
				if !ok {
					cx.fail("unmarshal.%s: Decode of %s has no body", name, c5TypeStr(dt))
					continue
				}
				dec = cx.opsOfBody(d.pkg, d.fd.Body, d.fd.Type, c5DeclLabel(d.pkg, d.fd), "parser", map[string]string{}, 0, map[ast.Node]bool{d.fd: true})
			default:
				// withStringValueFromCtx("k"), withParsedBody(func…), withPayloadType(n): the PreParse literals of the option
				// function, its string parameters bound to the literals of this call
				id, ok := x.Fun.(*ast.Ident)
				if !ok {
					cx.fail("unmarshal.%s: option %s not recognised", name, fn)
					continue
				}
				callee, _ := info.Uses[id].(*types.Func)
				d, ok := cx.pr.declOf[callee]
				if callee == nil || !ok {
					cx.fail("unmarshal.%s: option %s not found", name, fn)
					continue
				}
				bind := map[string]string{}
				sig := callee.Type().(*types.Signature)
				for i := 0; i < sig.Params().Len() && i < len(x.Args); i++ {
					if tv, ok := info.Types[x.Args[i]]; ok && tv.Value != nil && tv.Value.Kind() == constant.String {
						bind["$"+sig.Params().At(i).Name()] = constant.StringVal(tv.Value)
					}
				}
				ast.Inspect(d.fd.Body, func(n ast.Node) bool {
					if fl, ok := n.(*ast.FuncLit); ok && c5IsParserFn(info, fl) {
						pre = append(pre, cx.opsOfBody(up, fl.Body, fl.Type, "unmarshal."+fn, "handler", bind, 0, map[ast.Node]bool{})...)
						return false
					}
					return true
				})
			}
		default:
			cx.fail("unmarshal.%s: option %s not recognised", name, c5Text(o))
		}
	}
	if kind == "" {
		cx.fail("unmarshal.%s: no withLogsParser / withSpansParser / withProfileParser", name)
		return nil
	}
	// parserDoer.doParse<Kind>: what runs before the `go` statement is on the handler goroutine
	var doer []c5CtxOp
	for fn, d := range cx.pr.declOf {
		if d.pkg == up && fn.Name() == "doParse"+kind {
			doer = cx.opsOfBody(up, d.fd.Body, d.fd.Type, c5DeclLabel(up, d.fd), "handler", map[string]string{}, 0, map[ast.Node]bool{d.fd: true})
		}
	}
	var ops []c5CtxOp
	ops = append(ops, pre...)
	ops = append(ops, doer...)
	ops = append(ops, dec...)
	return ops
}

// func(ctx *ParserCtx) error
func c5IsParserFn(info *types.Info, fl *ast.FuncLit) bool {
	sig, ok := info.TypeOf(fl).(*types.Signature)
	if !ok || sig.Params().Len() != 1 || sig.Results().Len() != 1 {
		return false
	}
	return strings.HasSuffix(c5TypeStr(sig.Params().At(0).Type()), "ParserCtx") && c5TypeStr(sig.Results().At(0).Type()) == "error"
}

func init() {
	register("CtxChains", func() (string, error) {
		pr, err := c5Load()
		if err != nil {
			return "", err
		}
		cx := &c5Ctx{pr: pr, stored: map[string]types.Type{}, assert: map[string]types.Type{}}
		cp := cx.pkgBySuffix("/writer/controller")
		up := cx.pkgBySuffix("/writer/utils/unmarshal")
		if cp == nil || up == nil {
			return "", fmt.Errorf("writer/controller or writer/utils/unmarshal not loaded")
		}
		// cfg.ExtraMiddleware
		extras := map[string][]c5Step{}
		for _, nm := range []string{"WithExtraMiddlewareDefault", "WithExtraMiddlewareTempo"} {
			cl, ok := c5VarInit(cp, nm).(*ast.CompositeLit)
			if !ok {
				return "", fmt.Errorf("%s is not a slice literal", nm)
			}
			var steps []c5Step
			for _, el := range cl.Elts {
				id, ok := el.(*ast.Ident)
				if !ok {
					return "", fmt.Errorf("%s: an element that is not a named middleware", nm)
				}
				st, ok := cx.namedMiddleware(cp, id.Name)
				if !ok {
					return "", fmt.Errorf("%s: %s is not `var … = WithPreRequest(func …)`", nm, id.Name)
				}
				steps = append(steps, st)
			}
			extras[nm] = steps
		}
		// doParse
		var doParse []c5CtxOp
		for fn, d := range pr.declOf {
			if d.pkg == cp && fn.Name() == "doParse" && d.fd.Recv == nil {
				doParse = cx.opsOfBody(cp, d.fd.Body, d.fd.Type, "controllerv1.doParse", "handler", map[string]string{}, 0, map[ast.Node]bool{d.fd: true})
			}
		}
		if len(doParse) == 0 {
			return "", fmt.Errorf("controllerv1.doParse: no context operation found")
		}
		// handler constructors
		var handlers []c5Handler
		for _, f := range cp.Syntax {
			if strings.HasSuffix(pr.rel(f.Pos()), "_test.go") {
				continue
			}
			for _, d := range f.Decls {
				fd, ok := d.(*ast.FuncDecl)
				if !ok || fd.Recv != nil || fd.Body == nil || fd.Type.Params == nil || len(fd.Type.Params.List) != 1 {
					continue
				}
				if c5Text(fd.Type.Params.List[0].Type) != "MiddlewareConfig" {
					continue
				}
				where := fd.Name.Name
				if len(fd.Body.List) != 1 {
					return "", fmt.Errorf("%s: more than `return Build(…)`", where)
				}
				rs, ok := fd.Body.List[0].(*ast.ReturnStmt)
				if !ok || len(rs.Results) != 1 {
					return "", fmt.Errorf("%s: more than `return Build(…)`", where)
				}
				call, ok := rs.Results[0].(*ast.CallExpr)
				if !ok || c5Text(call.Fun) != "Build" || len(call.Args) != 1 || call.Ellipsis == token.NoPos {
					return "", fmt.Errorf("%s: not `return Build(append(cfg.ExtraMiddleware, …)…)`", where)
				}
				app, ok := call.Args[0].(*ast.CallExpr)
				if !ok || c5Text(app.Fun) != "append" || len(app.Args) < 1 || c5Text(app.Args[0]) != "cfg.ExtraMiddleware" {
					return "", fmt.Errorf("%s: not `return Build(append(cfg.ExtraMiddleware, …)…)`", where)
				}
				hd := c5Handler{name: where, pre: []c5Step{{name: "cfg.ExtraMiddleware"}}}
				for _, o := range app.Args[1:] {
					st, ps := cx.option(cp, o, where)
					if st != nil {
						hd.pre = append(hd.pre, *st)
					}
					if ps != nil {
						hd.parsers = append(hd.parsers, *ps)
					}
				}
				if len(hd.parsers) == 0 {
					return "", fmt.Errorf("%s: a handler without a parser", where)
				}
				handlers = append(handlers, hd)
			}
		}
		sort.Slice(handlers, func(i, j int) bool { return handlers[i].name < handlers[j].name })
		if len(handlers) == 0 {
			return "", fmt.Errorf("no handler constructor found")
		}
		parserCache := map[string][]c5CtxOp{}
		type chain struct {
			handler, extra, ct, parser string
			ops                        []c5CtxOp
		}
		var chains []chain
		for _, hd := range handlers {
			for _, ex := range []string{"WithExtraMiddlewareDefault", "WithExtraMiddlewareTempo"} {
				for _, ps := range hd.parsers {
					var ops []c5CtxOp
					for _, st := range hd.pre {
						if st.name == "cfg.ExtraMiddleware" {
							for _, e := range extras[ex] {
								ops = append(ops, e.ops...)
							}
							continue
						}
						ops = append(ops, st.ops...)
					}
					for _, st := range ps.pre {
						ops = append(ops, st.ops...)
					}
					ops = append(ops, doParse...)
					po, ok := parserCache[ps.parserVar]
					if !ok {
						po = cx.parserOps(up, ps.parserVar)
						parserCache[ps.parserVar] = po
					}
					ops = append(ops, po...)
					chains = append(chains, chain{hd.name, ex, ps.contentType, ps.parserVar, ops})
				}
			}
		}
		if cx.err != nil {
			return "", cx.err
		}
		for _, c := range chains {
			for _, o := range c.ops {
				if strings.HasPrefix(o.key, "$") {
					return "", fmt.Errorf("%s (%s): the context key %s of an operation in %s is not bound to a literal", c.handler, c.ct, o.key, o.where)
				}
			}
		}
		var sb strings.Builder
		sb.WriteString("namespace Qryn.Gen.CtxChains\n")
		sb.WriteString("/-- every handler chain: (handler constructor, value of cfg.ExtraMiddleware, Content-Type prefix selecting the parser,\n")
		sb.WriteString("    parser of writer/utils/unmarshal, operations on the request context in execution order as\n")
		sb.WriteString("    (kind, key, Go type, function, goroutine)) — see harness/extract/c05ctxchains.go -/\n")
		sb.WriteString("def chains : List (String × String × String × String × List (String × String × String × String × String)) :=\n  [")
		for i, c := range chains {
			if i > 0 {
				sb.WriteString(",\n   ")
			}
			sb.WriteString(fmt.Sprintf("(%s, %s, %s, %s,\n    [", leanStr(c.handler), leanStr(c.extra), leanStr(c.ct), leanStr(c.parser)))
			for j, o := range c.ops {
				if j > 0 {
					sb.WriteString(",\n     ")
				}
				sb.WriteString(fmt.Sprintf("(%s, %s, %s, %s, %s)", leanStr(o.kind), leanStr(o.key), leanStr(o.typ), leanStr(o.where), leanStr(o.gor)))
			}
			sb.WriteString("])")
		}
		sb.WriteString("]\n\n")
		// assignability between stored and asserted types
		var pairs []string
		var ss, as []string
		for s := range cx.stored {
			ss = append(ss, s)
		}
		for a := range cx.assert {
			as = append(as, a)
		}
		sort.Strings(ss)
		sort.Strings(as)
		for _, s := range ss {
			for _, a := range as {
				if s == a {
					continue
				}
				at := cx.assert[a]
				if it, ok := at.Underlying().(*types.Interface); ok && types.Implements(cx.stored[s], it) {
					pairs = append(pairs, fmt.Sprintf("(%s, %s)", leanStr(s), leanStr(a)))
				}
			}
		}
		sb.WriteString("/-- (stored type, asserted type) of different types for which the assertion succeeds: the asserted type is an\n    interface the stored type implements -/\n")
		sb.WriteString("def assignable : List (String × String) := [" + strings.Join(pairs, ", ") + "]\n")
		sb.WriteString("end Qryn.Gen.CtxChains\n")
		return sb.String(), nil
	})
}
