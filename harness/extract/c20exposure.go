package main

// Gen.Exposure (C20): everything besides the router of main() that could put a handler on the network, and which route
// groups main() registers in which MODE.
//   * listenCalls   every call in non-test code whose method/function name says "open a listener or serve on one":
//                   Listen*, Serve, ServeTLS, ListenAndServe*, Accept*, NewServer, NewUnstartedServer (any package, any
//                   receiver) — broader than Gen.Routes.listenSites (which keys on package names);
//   * serveHandlers the handler argument of every http.Serve / http.ListenAndServe* call and of every
//                   (*http.Server) literal's Handler field;
//   * defaultMux    http.Handle / http.HandleFunc registrations (pattern and handler text) and every mention of
//                   http.DefaultServeMux: handlers reachable only if somebody serves the default mux;
//   * nilServes     Serve/ListenAndServe calls whose handler is nil or http.DefaultServeMux (those would serve it);
//   * sideImports   imports that register handlers on the default mux by side effect (net/http/pprof, expvar,
//                   golang.org/x/net/trace);
//   * serverLits    composite literals of http.Server;
//   * modeGuards    main(): for every `if <Mode == "a" || Mode == "b" …> { X.Init(cfg, app) … }` the calls that receive
//                   the router and the mode strings of the guard. A guard of another shape fails closed.

import (
	"fmt"
	"go/ast"
	"go/parser"
	"go/token"
	"os"
	"path/filepath"
	"sort"
	"strings"
)

func c20IsListenName(n string) bool {
	switch {
	case strings.HasPrefix(n, "Listen"), n == "Serve", n == "ServeTLS", strings.HasPrefix(n, "Accept"),
		n == "NewServer", n == "NewUnstartedServer", n == "NewTLSServer":
		return true
	}
	return false
}

func init() {
	register("Exposure", func() (string, error) {
		var listen, handlers, defMux, nilServes, sideImports, serverLits []string
		err := filepath.Walk(repo, func(path string, info os.FileInfo, e error) error {
			if e != nil {
				return e
			}
			if info.IsDir() {
				if n := info.Name(); n == ".git" || n == "node_modules" || n == "vendor" {
					return filepath.SkipDir
				}
				return nil
			}
			if !strings.HasSuffix(path, ".go") || strings.HasSuffix(path, "_test.go") {
				return nil
			}
			fset := token.NewFileSet()
			f, e := parser.ParseFile(fset, path, nil, 0)
			if e != nil {
				return nil // a file that does not parse cannot be part of the build
			}
			rel, _ := filepath.Rel(repo, path)
			for _, im := range f.Imports {
				p := strings.Trim(im.Path.Value, "\"")
				if p == "net/http/pprof" || p == "expvar" || p == "golang.org/x/net/trace" {
					sideImports = append(sideImports, rel+":"+p)
				}
			}
			for _, d := range f.Decls {
				site := rel + ":<package level>"
				if fd, ok := d.(*ast.FuncDecl); ok {
					site = rel + ":" + fd.Name.Name
				}
				ast.Inspect(d, func(n ast.Node) bool {
					switch x := n.(type) {
					case *ast.SelectorExpr:
						if exprText(x) == "http.DefaultServeMux" {
							defMux = append(defMux, site+":http.DefaultServeMux")
						}
					case *ast.CompositeLit:
						t := x.Type
						if t != nil && exprText(t) == "http.Server" {
							serverLits = append(serverLits, site)
							for _, el := range x.Elts {
								if kv, ok := el.(*ast.KeyValueExpr); ok && exprText(kv.Key) == "Handler" {
									handlers = append(handlers, site+":http.Server{Handler: "+exprText(kv.Value)+"}")
								}
							}
						}
					case *ast.CallExpr:
						name, recv := "", ""
						switch fn := x.Fun.(type) {
						case *ast.Ident:
							name = fn.Name
						case *ast.SelectorExpr:
							name, recv = fn.Sel.Name, acText(fn.X)
						default:
							return true
						}
						if recv == "http" && (name == "Handle" || name == "HandleFunc") && len(x.Args) == 2 {
							pat, _ := strLit(x.Args[0])
							defMux = append(defMux, site+":http."+name+"("+pat+", "+exprText(x.Args[1])+")")
						}
						if !c20IsListenName(name) {
							return true
						}
						// a method DECLARED in the repository with such a name (e.g. a service's own Serve) still counts:
						// the reviewed list below says which ones exist
						listen = append(listen, site+":"+strings.TrimPrefix(recv+".", ".")+name)
						if recv == "http" && (name == "Serve" || name == "ServeTLS") && len(x.Args) >= 2 {
							ha := exprText(x.Args[1])
							handlers = append(handlers, site+":http."+name+"(handler "+ha+")")
							if ha == "nil" || ha == "http.DefaultServeMux" {
								nilServes = append(nilServes, site)
							}
						}
						if strings.HasPrefix(name, "ListenAndServe") && recv == "http" && len(x.Args) >= 2 {
							ha := exprText(x.Args[len(x.Args)-1])
							if name == "ListenAndServe" {
								ha = exprText(x.Args[1])
							}
							handlers = append(handlers, site+":http."+name+"(handler "+ha+")")
							if ha == "nil" || ha == "http.DefaultServeMux" {
								nilServes = append(nilServes, site)
							}
						}
					}
					return true
				})
			}
			return nil
		})
		if err != nil {
			return "", err
		}
		for _, l := range []*[]string{&listen, &handlers, &defMux, &nilServes, &sideImports, &serverLits} {
			sort.Strings(*l)
		}

		// ---- main(): MODE guards of the calls that receive the router
		fset, f, err := parseFile("main.go")
		if err != nil {
			return "", err
		}
		mf := findFunc(f, "", "main")
		if mf == nil || mf.Body == nil {
			return "", fmt.Errorf("main.go: func main not found")
		}
		router, cfgName := "", ""
		type mg struct {
			call  string
			modes []string
		}
		var guards []mg
		var unconditional []string
		receives := func(ce *ast.CallExpr) bool {
			for _, a := range ce.Args {
				if id, ok := a.(*ast.Ident); ok && id.Name == router {
					return true
				}
			}
			return false
		}
		var modeList func(e ast.Expr) ([]string, error)
		modeList = func(e ast.Expr) ([]string, error) {
			switch x := e.(type) {
			case *ast.ParenExpr:
				return modeList(x.X)
			case *ast.BinaryExpr:
				if x.Op == token.LOR {
					a, err := modeList(x.X)
					if err != nil {
						return nil, err
					}
					b, err := modeList(x.Y)
					if err != nil {
						return nil, err
					}
					return append(a, b...), nil
				}
				if x.Op == token.EQL && exprText(x.X) == cfgName+".Setting.SYSTEM_SETTINGS.Mode" {
					if s, ok := strLit(x.Y); ok {
						return []string{s}, nil
					}
				}
			}
			return nil, fmt.Errorf("main: guard %q of a registration is not a disjunction of %s.Setting.SYSTEM_SETTINGS.Mode == \"…\"", exprStr(fset, e), cfgName)
		}
		for _, st := range mf.Body.List {
			if as, ok := st.(*ast.AssignStmt); ok && as.Tok == token.DEFINE && len(as.Lhs) == 1 && len(as.Rhs) == 1 {
				switch exprText(as.Rhs[0]) {
				case "mux.NewRouter()":
					router = exprText(as.Lhs[0])
				}
				if ce, ok := as.Rhs[0].(*ast.CallExpr); ok && exprText(ce.Fun) == "clconfig.New" {
					cfgName = exprText(as.Lhs[0])
				}
			}
			if router == "" {
				continue
			}
			switch x := st.(type) {
			case *ast.ExprStmt:
				if ce, ok := x.X.(*ast.CallExpr); ok && receives(ce) {
					unconditional = append(unconditional, exprText(ce.Fun))
				}
			case *ast.IfStmt:
				var calls []string
				var bad error
				ast.Inspect(x.Body, func(n ast.Node) bool {
					if ce, ok := n.(*ast.CallExpr); ok && receives(ce) {
						calls = append(calls, exprText(ce.Fun))
					}
					return true
				})
				if x.Else != nil {
					ast.Inspect(x.Else, func(n ast.Node) bool {
						if ce, ok := n.(*ast.CallExpr); ok && receives(ce) {
							bad = fmt.Errorf("main: a call receiving the router sits in an else branch")
						}
						return true
					})
				}
				if bad != nil {
					return "", bad
				}
				if len(calls) == 0 {
					continue
				}
				if strings.Contains(exprStr(fset, x.Cond), "AUTH_SETTINGS") || strings.Contains(exprStr(fset, x.Cond), "Cors") {
					continue // the conditional Use calls: Gen.Routes / Gen.AuthConfig
				}
				modes, err := modeList(x.Cond)
				if err != nil {
					return "", err
				}
				for _, c := range calls {
					guards = append(guards, mg{c, modes})
				}
			}
		}
		if router == "" || cfgName == "" {
			return "", fmt.Errorf("main: router or configuration variable not found")
		}

		var b strings.Builder
		b.WriteString("namespace Qryn.Gen.Exposure\n\n")
		fmt.Fprintf(&b, "/-- calls in non-test code named Listen*/Serve/ServeTLS/ListenAndServe*/Accept*/New(Unstarted|TLS)Server -/\ndef listenCalls : List String := %s\n", leanStrList(listen))
		fmt.Fprintf(&b, "/-- handler arguments of http.Serve / http.ListenAndServe* calls and Handler fields of http.Server literals -/\ndef serveHandlers : List String := %s\n", leanStrList(handlers))
		fmt.Fprintf(&b, "/-- registrations on / mentions of http.DefaultServeMux -/\ndef defaultMux : List String := %s\n", leanStrList(defMux))
		fmt.Fprintf(&b, "/-- serve calls with a nil / DefaultServeMux handler (would serve the default mux) -/\ndef nilServes : List String := %s\n", leanStrList(nilServes))
		fmt.Fprintf(&b, "/-- imports that register handlers on the default mux by side effect -/\ndef sideImports : List String := %s\n", leanStrList(sideImports))
		fmt.Fprintf(&b, "/-- http.Server composite literals -/\ndef serverLits : List String := %s\n", leanStrList(serverLits))
		fmt.Fprintf(&b, "/-- main(): calls outside any `if` that receive the router (after mux.NewRouter()) -/\ndef unconditionalRouterCalls : List String := %s\n", leanStrList(unconditional))
		b.WriteString("/-- main(): calls under a MODE guard that receive the router, with the mode strings of the guard -/\ndef modeGuards : List (String × List String) :=\n  [")
		for i, g := range guards {
			if i > 0 {
				b.WriteString(",\n   ")
			}
			fmt.Fprintf(&b, "(%s, %s)", leanStr(g.call), leanStrList(g.modes))
		}
		b.WriteString("]\n\nend Qryn.Gen.Exposure\n")
		return b.String(), nil
	})
}
