package main

import (
	"fmt"
	"go/ast"
	"go/parser"
	"go/printer"
	"go/token"
	"os"
	"path/filepath"
	"sort"
	"strings"
)

// Gen.CtxTypes (C13, signal half): which SIGNAL each reader entry point asks the planners for.
//   * plannerCtxLiterals: every composite literal `shared.PlannerContext{…}` under reader/ — file, enclosing function and the
//     text of its `Type:` field ("<unset>" when the literal has none), in source order per file;
//   * plannerCtxTypeWrites: every later assignment to a `.Type` field of a value named like a planner context;
//   * labelsTypeArgs: the last argument (labelsType) of every call of the label-service methods from reader/controller;
//   * sampleTypeConsts: SAMPLES_TYPE_LOGS / METRICS / BOTH of shared/types.go;
//   * getTypesBody: the body of clickhouse_planner.GetTypes as printed by go/printer (one line) — the function that turns
//     PlannerContext.Type into the `type IN (…)` list of every Loki scan; getTypesUnsetMeansLogs: whether the body has the one
//     known shape in which an unset Type (0 = BOTH) is rendered as LOGS.
// Fails closed: when a literal leaves Type unset (as the LogQL entry points do: they rely on the default) and GetTypes has not
// the known shape, the default is no longer known to be the safe one — no fact is written.
func init() {
	register("CtxTypes", func() (string, error) {
		root := filepath.Join(repo, "reader")
		type lit struct{ file, fn, tp string }
		var lits, writes, args []lit
		labelMethods := map[string]bool{"Labels": true, "Values": true, "Series": true, "PromLabels": true, "PromValues": true, "PromSeries": true}
		err := filepath.Walk(root, func(p string, info os.FileInfo, err error) error {
			if err != nil || info.IsDir() || !strings.HasSuffix(p, ".go") || strings.HasSuffix(p, "_test.go") {
				return err
			}
			fset := token.NewFileSet()
			f, perr := parser.ParseFile(fset, p, nil, 0)
			if perr != nil {
				return nil
			}
			rel, _ := filepath.Rel(repo, p)
			src := func(e ast.Expr) string {
				var b strings.Builder
				printer.Fprint(&b, fset, e)
				return strings.Join(strings.Fields(b.String()), " ")
			}
			inCtl := strings.HasPrefix(rel, "reader/controller/")
			for _, d := range f.Decls {
				fd, ok := d.(*ast.FuncDecl)
				if !ok || fd.Body == nil {
					continue
				}
				ast.Inspect(fd.Body, func(n ast.Node) bool {
					switch x := n.(type) {
					case *ast.CompositeLit:
						name := ""
						switch t := x.Type.(type) {
						case *ast.SelectorExpr:
							name = t.Sel.Name
						case *ast.Ident:
							name = t.Name
						}
						if name != "PlannerContext" {
							return true
						}
						tp := "<unset>"
						for _, el := range x.Elts {
							kv, ok := el.(*ast.KeyValueExpr)
							if !ok {
								// positional literal: the field cannot be told
								tp = "<positional>"
								break
							}
							if k, ok := kv.Key.(*ast.Ident); ok && k.Name == "Type" {
								tp = src(kv.Value)
							}
						}
						lits = append(lits, lit{rel, fd.Name.Name, tp})
					case *ast.AssignStmt:
						for i, l := range x.Lhs {
							se, ok := l.(*ast.SelectorExpr)
							if !ok || se.Sel.Name != "Type" {
								continue
							}
							recv := strings.ToLower(src(se.X))
							if !strings.Contains(recv, "ctx") && !strings.Contains(recv, "planner") {
								continue
							}
							v := "?"
							if i < len(x.Rhs) {
								v = src(x.Rhs[i])
							}
							writes = append(writes, lit{rel, fd.Name.Name, src(se.X) + ".Type = " + v})
						}
					case *ast.CallExpr:
						if !inCtl {
							return true
						}
						se, ok := x.Fun.(*ast.SelectorExpr)
						if !ok || !labelMethods[se.Sel.Name] || len(x.Args) < 4 {
							return true
						}
						if !strings.Contains(src(se.X), "QueryLabelsService") {
							return true
						}
						args = append(args, lit{rel, se.Sel.Name, src(x.Args[len(x.Args)-1])})
					}
					return true
				})
			}
			return nil
		})
		if err != nil {
			return "", err
		}
		if len(lits) == 0 {
			return "", fmt.Errorf("no PlannerContext literal found under reader/")
		}
		for _, l := range lits {
			if l.tp == "<positional>" {
				return "", fmt.Errorf("%s %s: a PlannerContext literal without field names: its Type cannot be read", l.file, l.fn)
			}
		}
		// constants
		_, tf, err := parseFile("reader/logql/logql_transpiler_v2/shared/types.go")
		if err != nil {
			return "", err
		}
		consts := map[string]string{}
		for _, d := range tf.Decls {
			gd, ok := d.(*ast.GenDecl)
			if !ok || gd.Tok != token.CONST {
				continue
			}
			for _, sp := range gd.Specs {
				vs := sp.(*ast.ValueSpec)
				for i, n := range vs.Names {
					if strings.HasPrefix(n.Name, "SAMPLES_TYPE_") && i < len(vs.Values) {
						if bl, ok := vs.Values[i].(*ast.BasicLit); ok && bl.Kind == token.INT {
							consts[n.Name] = bl.Value
						}
					}
				}
			}
		}
		for _, k := range []string{"SAMPLES_TYPE_LOGS", "SAMPLES_TYPE_METRICS", "SAMPLES_TYPE_BOTH"} {
			if _, ok := consts[k]; !ok {
				return "", fmt.Errorf("constant %s not found (or not an integer literal) in shared/types.go", k)
			}
		}
		// GetTypes
		fset, gf, err := parseFile("reader/logql/logql_transpiler_v2/clickhouse_planner/sql_misc.go")
		if err != nil {
			return "", err
		}
		fd := findFunc(gf, "", "GetTypes")
		if fd == nil || fd.Body == nil {
			return "", fmt.Errorf("clickhouse_planner.GetTypes not found")
		}
		var sb strings.Builder
		for i, st := range fd.Body.List {
			if i > 0 {
				sb.WriteString("; ")
			}
			var one strings.Builder
			printer.Fprint(&one, fset, st)
			sb.WriteString(strings.Join(strings.Fields(one.String()), " "))
		}
		body := sb.String()
		known := `tp := ctx.Type; if tp == shared.SAMPLES_TYPE_BOTH { tp = shared.SAMPLES_TYPE_LOGS }; return sql.NewIn(sql.NewRawObject("type"), sql.NewIntVal(int64(tp)), sql.NewIntVal(shared.SAMPLES_TYPE_BOTH))`
		unsetLogs := body == known
		if !unsetLogs {
			for _, l := range lits {
				if l.tp == "<unset>" {
					return "", fmt.Errorf("%s %s builds a PlannerContext without Type, and GetTypes has not the known shape in which an unset Type means logs (body: %s): the default is not known to be the safe one", l.file, l.fn, body)
				}
			}
		}
		sort.SliceStable(lits, func(i, j int) bool { return lits[i].file < lits[j].file })
		sort.SliceStable(writes, func(i, j int) bool { return writes[i].file < writes[j].file })
		sort.SliceStable(args, func(i, j int) bool { return args[i].file < args[j].file })
		triple := func(name, doc string, xs []lit) string {
			s := "/-- " + doc + " -/\ndef " + name + " : List (String × String × String) :=\n  ["
			for i, x := range xs {
				if i > 0 {
					s += ",\n   "
				}
				s += fmt.Sprintf("(%s, %s, %s)", leanStr(x.file), leanStr(x.fn), leanStr(x.tp))
			}
			return s + "]\n"
		}
		s := "namespace Qryn.Gen\n"
		s += triple("plannerCtxLiterals", "(file, function, text of the `Type:` field or \"<unset>\") of every `shared.PlannerContext{…}` literal under reader/, source order per file", lits)
		s += triple("plannerCtxTypeWrites", "(file, function, assignment) of every later write of a planner context's `.Type`", writes)
		s += triple("labelsTypeArgs", "(file, method, text of the labelsType argument) of every call of a `QueryLabelsService` label method from reader/controller", args)
		s += fmt.Sprintf("/-- SAMPLES_TYPE_LOGS, SAMPLES_TYPE_METRICS, SAMPLES_TYPE_BOTH (shared/types.go) -/\ndef sampleTypeConsts : Nat × Nat × Nat := (%s, %s, %s)\n",
			consts["SAMPLES_TYPE_LOGS"], consts["SAMPLES_TYPE_METRICS"], consts["SAMPLES_TYPE_BOTH"])
		s += "/-- the body of `clickhouse_planner.GetTypes`, statements joined by \"; \" -/\ndef getTypesBody : String := " + leanStr(body) + "\n"
		s += fmt.Sprintf("/-- the body has the known shape in which `ctx.Type == SAMPLES_TYPE_BOTH` (an unset Type) is rendered as SAMPLES_TYPE_LOGS -/\ndef getTypesUnsetMeansLogs : Bool := %v\n", unsetLogs)
		s += "end Qryn.Gen\n"
		return s, nil
	})
}
