package main

// Gen.JsonParser — the shape of `sqlJsonParser.String` / `path2Sql` (clickhouse_planner/planner_parser_json.go), the
// object that renders the parameters of `| json label="path"`: every label and EVERY part of every path is written
// through `sql.NewStringVal(..).String(..)`, and the two format strings. Fails closed when the loops contain
// anything but the declaration of `err`, ONE assignment of the escaped text to the slice element and the error
// return — e.g. a branch that copies a part verbatim.

import (
	"fmt"
	"go/ast"
	"go/printer"
	"go/token"
	"strings"
)

func nodeText(fset *token.FileSet, n ast.Node) string {
	var b strings.Builder
	printer.Fprint(&b, fset, n)
	return strings.Join(strings.Fields(b.String()), " ")
}

// the loop `for i, <v> := range <over>` in body
func rangeLoops(body *ast.BlockStmt) []*ast.RangeStmt {
	var res []*ast.RangeStmt
	ast.Inspect(body, func(n ast.Node) bool {
		if r, ok := n.(*ast.RangeStmt); ok {
			res = append(res, r)
		}
		return true
	})
	return res
}

// checks that a loop body consists of `var err error` declarations, assignments `<slice>[i], err = <rhs>` with rhs among
// the allowed texts (each allowed text exactly once), and `if err != nil { return "", err }`
func loopEscapes(fset *token.FileSet, r *ast.RangeStmt, allowed map[string]string) error {
	seen := map[string]bool{}
	for _, st := range r.Body.List {
		switch s := st.(type) {
		case *ast.DeclStmt:
			if nodeText(fset, s) != "var err error" {
				return fmt.Errorf("unexpected declaration %q", nodeText(fset, s))
			}
		case *ast.AssignStmt:
			if len(s.Lhs) != 2 || len(s.Rhs) != 1 || nodeText(fset, s.Lhs[1]) != "err" {
				return fmt.Errorf("unexpected assignment %q", nodeText(fset, s))
			}
			lhs, rhs := nodeText(fset, s.Lhs[0]), nodeText(fset, s.Rhs[0])
			want, ok := allowed[lhs]
			if !ok || want != rhs {
				return fmt.Errorf("%s is assigned %q (expected the escaped text %q)", lhs, rhs, want)
			}
			if seen[lhs] {
				return fmt.Errorf("%s assigned twice", lhs)
			}
			seen[lhs] = true
		case *ast.IfStmt:
			if nodeText(fset, s.Cond) != "err != nil" || s.Else != nil || len(s.Body.List) != 1 || nodeText(fset, s.Body.List[0]) != `return "", err` {
				return fmt.Errorf("unexpected branch %q in the loop (a part that is not escaped?)", nodeText(fset, s.Cond))
			}
		default:
			return fmt.Errorf("unexpected statement %q in the loop", nodeText(fset, st))
		}
	}
	for k := range allowed {
		if !seen[k] {
			return fmt.Errorf("%s is not assigned in the loop", k)
		}
	}
	return nil
}

func sprintfFormats(fset *token.FileSet, body *ast.BlockStmt) []string {
	var res []string
	ast.Inspect(body, func(n ast.Node) bool {
		c, ok := n.(*ast.CallExpr)
		if !ok || nodeText(fset, c.Fun) != "fmt.Sprintf" || len(c.Args) == 0 {
			return true
		}
		// a literal or a concatenation of literals
		var lit func(e ast.Expr) (string, bool)
		lit = func(e ast.Expr) (string, bool) {
			if s, ok := strLit(e); ok {
				return s, true
			}
			if be, ok := e.(*ast.BinaryExpr); ok && be.Op == token.ADD {
				a, ok1 := lit(be.X)
				b, ok2 := lit(be.Y)
				return a + b, ok1 && ok2
			}
			return "", false
		}
		if s, ok := lit(c.Args[0]); ok {
			args := []string{}
			for _, a := range c.Args[1:] {
				args = append(args, nodeText(fset, a))
			}
			res = append(res, s+" <- "+strings.Join(args, " | "))
		}
		return true
	})
	return res
}

func init() {
	register("JsonParser", func() (string, error) {
		const rel = "reader/logql/logql_transpiler_v2/clickhouse_planner/planner_parser_json.go"
		fset, f, err := parseFile(rel)
		if err != nil {
			return "", err
		}
		p2s := findFunc(f, "sqlJsonParser", "path2Sql")
		str := findFunc(f, "sqlJsonParser", "String")
		mk := findFunc(f, "ParserPlanner", "json")
		if p2s == nil || str == nil || mk == nil {
			return "", fmt.Errorf("%s: sqlJsonParser.path2Sql / String / ParserPlanner.json not found", rel)
		}
		// 1. the type of a path: []sql.SQLObject (field `paths [][]sql.SQLObject`, parameter `path []sql.SQLObject`)
		if len(p2s.Type.Params.List) < 1 || nodeText(fset, p2s.Type.Params.List[0].Type) != "[]sql.SQLObject" {
			return "", fmt.Errorf("path2Sql: the path parameter is not []sql.SQLObject")
		}
		// 2. where the parts are built (ParserPlanner.json): every assignment to jsonPaths[i][j] is a NewIntVal of the
		//    parsed int (guarded by the type assertion on typed[j]) or NewStringVal(name); nothing else stores a part
		nParts := 0
		var bad error
		ast.Inspect(mk.Body, func(n ast.Node) bool {
			as, ok := n.(*ast.AssignStmt)
			if !ok {
				return true
			}
			for k, l := range as.Lhs {
				lt := nodeText(fset, l)
				if !strings.HasPrefix(lt, "jsonPaths") {
					continue
				}
				rhs := ""
				if k < len(as.Rhs) {
					rhs = nodeText(fset, as.Rhs[k])
				}
				switch lt {
				case "jsonPaths":
					if rhs != "make([][]sql.SQLObject, len(p.Vals))" {
						bad = fmt.Errorf("json: jsonPaths is built as %q", rhs)
					}
				case "jsonPaths[i]":
					if rhs != "make([]sql.SQLObject, len(names))" {
						bad = fmt.Errorf("json: jsonPaths[i] is built as %q", rhs)
					}
				case "jsonPaths[i][j]":
					nParts++
					if rhs != "sql.NewIntVal(int64(idx) + 1)" && rhs != "sql.NewStringVal(name)" {
						bad = fmt.Errorf("json: a path part is built as %q (expected sql.NewStringVal(name) or sql.NewIntVal(int64(idx) + 1))", rhs)
					}
				default:
					bad = fmt.Errorf("json: unexpected store %q", lt)
				}
			}
			return true
		})
		if bad != nil {
			return "", bad
		}
		if nParts != 2 {
			return "", fmt.Errorf("json: %d stores of a path part (expected the int branch and the name branch)", nParts)
		}
		// the int branch is guarded by the type assertion on the typed path
		guard := false
		ast.Inspect(mk.Body, func(n ast.Node) bool {
			is, ok := n.(*ast.IfStmt)
			if ok && is.Init != nil && nodeText(fset, is.Init) == "idx, ok := typed[j].(int)" && nodeText(fset, is.Cond) == "ok" {
				guard = strings.Contains(nodeText(fset, is.Body), "jsonPaths[i][j] = sql.NewIntVal(int64(idx) + 1)") &&
					!strings.Contains(nodeText(fset, is.Body), "NewStringVal") && !strings.Contains(nodeText(fset, is.Body), "NewRawObject")
			}
			return true
		})
		if !guard {
			return "", fmt.Errorf("json: the NewIntVal store is not guarded by `if idx, ok := typed[j].(int); ok`")
		}
		if strings.Contains(nodeText(fset, mk.Body), "paths: jsonPaths") == false {
			return "", fmt.Errorf("json: the sqlJsonParser is not built with paths: jsonPaths")
		}
		// 3. the rendering loops
		loops := rangeLoops(p2s.Body)
		if len(loops) != 1 || nodeText(fset, loops[0].X) != "path" || nodeText(fset, loops[0].Value) != "part" {
			return "", fmt.Errorf("path2Sql: expected one loop `for i, part := range path`")
		}
		if err := loopEscapes(fset, loops[0], map[string]string{"res[i]": "part.String(ctx, opts...)"}); err != nil {
			return "", fmt.Errorf("path2Sql: %v", err)
		}
		loops = rangeLoops(str.Body)
		if len(loops) != 1 || nodeText(fset, loops[0].X) != "s.labels" || nodeText(fset, loops[0].Value) != "l" {
			return "", fmt.Errorf("sqlJsonParser.String: expected one loop `for i, l := range s.labels`")
		}
		if err := loopEscapes(fset, loops[0], map[string]string{
			"strLabels[i]": "(sql.NewStringVal(l)).String(ctx, opts...)",
			"strVals[i]":   "s.path2Sql(s.paths[i], ctx, opts...)"}); err != nil {
			return "", fmt.Errorf("sqlJsonParser.String: %v", err)
		}
		f1 := sprintfFormats(fset, p2s.Body)
		f2 := sprintfFormats(fset, str.Body)
		wantPath := "if(JSONType(%[2]s, %[1]s) == 'String', JSONExtractString(%[2]s, %[1]s), JSONExtractRaw(%[2]s, %[1]s)) <- strings.Join(res, \",\") | colName"
		wantMap := "mapFromArrays([%s], [%s]) <- strings.Join(strLabels, \",\") | strings.Join(strVals, \",\")"
		if len(f1) != 1 || f1[0] != wantPath {
			return "", fmt.Errorf("path2Sql: format strings changed: %q", f1)
		}
		if len(f2) != 1 || f2[0] != wantMap {
			return "", fmt.Errorf("sqlJsonParser.String: format string changed: %q", f2)
		}
		var b strings.Builder
		b.WriteString("namespace Qryn.Gen.JsonParser\n")
		b.WriteString("/-- ParserPlanner.json builds every path part as `sql.NewStringVal(name)` or, for a parsed `int`, `sql.NewIntVal(int64(idx)+1)`; path2Sql writes `part.String`; String writes every label through `NewStringVal` -/\n")
		b.WriteString("def partsEscaped : Bool := true\ndef labelsEscaped : Bool := true\n")
		fmt.Fprintf(&b, "def pathFormat : String := %s\ndef mapFormat : String := %s\n",
			leanStr(strings.SplitN(wantPath, " <- ", 2)[0]), leanStr("mapFromArrays([%s], [%s])"))
		b.WriteString("end Qryn.Gen.JsonParser\n")
		return b.String(), nil
	})
}
