package main

// Gen.JsonParser — the shape of `sqlJsonParser.String` / `path2Sql` (clickhouse_planner/planner_parser_json.go), the
// object that renders the parameters of `| json label="path"`: every label and EVERY part of every path is written
// through `sql.NewStringVal(..).String(..)`, and the two format strings. Fails closed when the loops contain
// anything but the declaration of `err`, ONE assignment of the escaped text to the slice element and the error
// return — e.g. a branch that copies a part verbatim.

import (
	"fmt"
	"go/ast"
	"go/printer"
	"go/token"
	"strings"
)

func nodeText(fset *token.FileSet, n ast.Node) string {
	var b strings.Builder
	printer.Fprint(&b, fset, n)
	return strings.Join(strings.Fields(b.String()), " ")
}

// the loop `for i, <v> := range <over>` in body
func rangeLoops(body *ast.BlockStmt) []*ast.RangeStmt {
	var res []*ast.RangeStmt
	ast.Inspect(body, func(n ast.Node) bool {
		if r, ok := n.(*ast.RangeStmt); ok {
			res = append(res, r)
		}
		return true
	})
	return res
}

// checks that a loop body consists of `var err error` declarations, assignments `<slice>[i], err = <rhs>` with rhs among
// the allowed texts (each allowed text exactly once), and `if err != nil { return "", err }`
func loopEscapes(fset *token.FileSet, r *ast.RangeStmt, allowed map[string]string) error {
	seen := map[string]bool{}
	for _, st := range r.Body.List {
		switch s := st.(type) {
		case *ast.DeclStmt:
			if nodeText(fset, s) != "var err error" {
				return fmt.Errorf("unexpected declaration %q", nodeText(fset, s))
			}
		case *ast.AssignStmt:
			if len(s.Lhs) != 2 || len(s.Rhs) != 1 || nodeText(fset, s.Lhs[1]) != "err" {
				return fmt.Errorf("unexpected assignment %q", nodeText(fset, s))
			}
			lhs, rhs := nodeText(fset, s.Lhs[0]), nodeText(fset, s.Rhs[0])
			want, ok := allowed[lhs]
			if !ok || want != rhs {
				return fmt.Errorf("%s is assigned %q (expected the escaped text %q)", lhs, rhs, want)
			}
			if seen[lhs] {
				return fmt.Errorf("%s assigned twice", lhs)
			}
			seen[lhs] = true
		case *ast.IfStmt:
			if nodeText(fset, s.Cond) != "err != nil" || s.Else != nil || len(s.Body.List) != 1 || nodeText(fset, s.Body.List[0]) != `return "", err` {
				return fmt.Errorf("unexpected branch %q in the loop (a part that is not escaped?)", nodeText(fset, s.Cond))
			}
		default:
			return fmt.Errorf("unexpected statement %q in the loop", nodeText(fset, st))
		}
	}
	for k := range allowed {
		if !seen[k] {
			return fmt.Errorf("%s is not assigned in the loop", k)
		}
	}
	return nil
}

func sprintfFormats(fset *token.FileSet, body *ast.BlockStmt) []string {
	var res []string
	ast.Inspect(body, func(n ast.Node) bool {
		c, ok := n.(*ast.CallExpr)
		if !ok || nodeText(fset, c.Fun) != "fmt.Sprintf" || len(c.Args) == 0 {
			return true
		}
		// a literal or a concatenation of literals
		var lit func(e ast.Expr) (string, bool)
		lit = func(e ast.Expr) (string, bool) {
			if s, ok := strLit(e); ok {
				return s, true
			}
			if be, ok := e.(*ast.BinaryExpr); ok && be.Op == token.ADD {
				a, ok1 := lit(be.X)
				b, ok2 := lit(be.Y)
				return a + b, ok1 && ok2
			}
			return "", false
		}
		if s, ok := lit(c.Args[0]); ok {
			args := []string{}
			for _, a := range c.Args[1:] {
				args = append(args, nodeText(fset, a))
			}
			res = append(res, s+" <- "+strings.Join(args, " | "))
		}
		return true
	})
	return res
}

func init() {
	register("JsonParser", func() (string, error) {
		const rel = "reader/logql/logql_transpiler_v2/clickhouse_planner/planner_parser_json.go"
		fset, f, err := parseFile(rel)
		if err != nil {
			return "", err
		}
		p2s := findFunc(f, "sqlJsonParser", "path2Sql")
		str := findFunc(f, "sqlJsonParser", "String")
		if p2s == nil || str == nil {
			return "", fmt.Errorf("%s: sqlJsonParser.path2Sql / String not found", rel)
		}
		loops := rangeLoops(p2s.Body)
		if len(loops) != 1 || nodeText(fset, loops[0].X) != "path" || nodeText(fset, loops[0].Value) != "part" {
			return "", fmt.Errorf("path2Sql: expected one loop `for i, part := range path`")
		}
		if err := loopEscapes(fset, loops[0], map[string]string{"res[i]": "(sql.NewStringVal(part)).String(ctx, opts...)"}); err != nil {
			return "", fmt.Errorf("path2Sql: %v", err)
		}
		loops = rangeLoops(str.Body)
		if len(loops) != 1 || nodeText(fset, loops[0].X) != "s.labels" || nodeText(fset, loops[0].Value) != "l" {
			return "", fmt.Errorf("sqlJsonParser.String: expected one loop `for i, l := range s.labels`")
		}
		if err := loopEscapes(fset, loops[0], map[string]string{
			"strLabels[i]": "(sql.NewStringVal(l)).String(ctx, opts...)",
			"strVals[i]":   "s.path2Sql(s.paths[i], ctx, opts...)"}); err != nil {
			return "", fmt.Errorf("sqlJsonParser.String: %v", err)
		}
		f1 := sprintfFormats(fset, p2s.Body)
		f2 := sprintfFormats(fset, str.Body)
		wantPath := "if(JSONType(%[3]s, %[1]s as %[2]s) == 'String', JSONExtractString(%[3]s, %[2]s), JSONExtractRaw(%[3]s, %[2]s)) <- strings.Join(res, \",\") | partId | colName"
		wantId := "jp_%d <- ctx.Id()"
		wantMap := "mapFromArrays([%s], [%s]) <- strings.Join(strLabels, \",\") | strings.Join(strVals, \",\")"
		if len(f1) != 2 || f1[0] != wantId || f1[1] != wantPath {
			return "", fmt.Errorf("path2Sql: format strings changed: %q", f1)
		}
		if len(f2) != 1 || f2[0] != wantMap {
			return "", fmt.Errorf("sqlJsonParser.String: format string changed: %q", f2)
		}
		var b strings.Builder
		b.WriteString("namespace Qryn.Gen.JsonParser\n")
		b.WriteString("/-- path2Sql: every part of a path is rendered by `(sql.NewStringVal(part)).String(ctx, opts...)`; String: every label likewise -/\n")
		b.WriteString("def partsEscaped : Bool := true\ndef labelsEscaped : Bool := true\n")
		fmt.Fprintf(&b, "def pathFormat : String := %s\ndef idFormat : String := %s\ndef mapFormat : String := %s\n",
			leanStr(strings.SplitN(wantPath, " <- ", 2)[0]), leanStr("jp_%d"), leanStr("mapFromArrays([%s], [%s])"))
		b.WriteString("end Qryn.Gen.JsonParser\n")
		return b.String(), nil
	})
}
