package main

import (
	"bytes"
	"fmt"
	"go/ast"
	"go/printer"
	"go/token"
	"strconv"
	"strings"
)

// Gen.Fingerprint: what the C04 model takes from the source —
//   * fingerprintLabels (writer/utils/unmarshal/unmarshal.go): seeds of `determs`, the three update
//     statements (operator and constants), the 24-byte view, the per-label hash expression;
//   * cityhash102.Hash128to64: kMul and the shift, body shape;
//   * onEntries (builder.go): whether the sample time is converted to UTC before Truncate(24h), whether the
//     parser itself sets the fingerprint cache (it must only read it), whether the cache key has the type;
//   * doParse (writer/controller/builder.go): the cache is set after every promise of the request was awaited;
//   * reader: FormatFromDate margin/zone, zone of the upper date bounds of the time_series reads;
//   * the cache TTL wired in qryn_writer_db.go.
// Every shape that is not recognised fails closed.

func exprStr(fset *token.FileSet, n ast.Node) string {
	var b bytes.Buffer
	printer.Fprint(&b, fset, n)
	var lines []string
	for _, l := range strings.Split(b.String(), "\n") {
		if i := strings.Index(l, "//"); i >= 0 && !strings.Contains(l[:i], "\"") {
			l = l[:i]
		}
		lines = append(lines, l)
	}
	return strings.Join(strings.Fields(strings.Join(lines, "\n")), " ")
}

func intLit(e ast.Expr) (uint64, bool) {
	bl, ok := e.(*ast.BasicLit)
	if !ok || bl.Kind != token.INT {
		return 0, false
	}
	v, err := strconv.ParseUint(bl.Value, 0, 64)
	return v, err == nil
}

func isIndex(e ast.Expr, name string, idx uint64) bool {
	ie, ok := e.(*ast.IndexExpr)
	if !ok {
		return false
	}
	id, ok := ie.X.(*ast.Ident)
	if !ok || id.Name != name {
		return false
	}
	v, ok := intLit(ie.Index)
	return ok && v == idx
}

func isIdent(e ast.Expr, name string) bool {
	id, ok := e.(*ast.Ident)
	return ok && id.Name == name
}

func init() {
	register("Fingerprint", func() (string, error) {
		var out strings.Builder
		out.WriteString("namespace Qryn.Gen.Fingerprint\n")
		// A shape that is not recognised does not remove the module (the driver must still build so that the
		// correspondence and the oracle can look for a failing input): it is recorded in `shapeProblems`,
		// `shapeOk` becomes false and the obligation C04.gen_shape_recognised fails. Defaults are the last
		// recognised values.
		var problems []string
		problem := func(format string, a ...any) { problems = append(problems, fmt.Sprintf(format, a...)) }

		// ---- fingerprintLabels
		fset, f, err := parseFile("writer/utils/unmarshal/unmarshal.go")
		if err != nil {
			return "", err
		}
		fd := findFunc(f, "", "fingerprintLabels")
		if fd == nil {
			return "", fmt.Errorf("fingerprintLabels not found")
		}
		var seeds []uint64
		var hashExpr string
		ops := map[uint64]string{}
		var mulAdd, mulScale uint64
		var nbytes uint64
		var rangeOverLbls bool
		ast.Inspect(fd.Body, func(n ast.Node) bool {
			switch x := n.(type) {
			case *ast.RangeStmt:
				if isIdent(x.X, "lbls") {
					rangeOverLbls = true
				}
			case *ast.AssignStmt:
				if len(x.Lhs) != 1 || len(x.Rhs) != 1 {
					return true
				}
				if isIdent(x.Lhs[0], "determs") && x.Tok == token.DEFINE {
					if cl, ok := x.Rhs[0].(*ast.CompositeLit); ok && exprStr(fset, cl.Type) == "[]uint64" {
						for _, el := range cl.Elts {
							if v, ok := intLit(el); ok {
								seeds = append(seeds, v)
							}
						}
					}
				}
				if isIdent(x.Lhs[0], "hash") && x.Tok == token.DEFINE {
					hashExpr = exprStr(fset, x.Rhs[0])
				}
				for i := uint64(0); i < 3; i++ {
					if isIndex(x.Lhs[0], "determs", i) && x.Tok == token.ASSIGN {
						be, ok := x.Rhs[0].(*ast.BinaryExpr)
						if !ok || !isIndex(be.X, "determs", i) {
							ops[i] = "?"
							continue
						}
						switch {
						case isIdent(be.Y, "hash"):
							ops[i] = be.Op.String()
						default:
							// determs[i] * (A + B*hash)
							pe, ok := be.Y.(*ast.ParenExpr)
							if !ok {
								ops[i] = "?"
								continue
							}
							sum, ok := pe.X.(*ast.BinaryExpr)
							if !ok || sum.Op != token.ADD {
								ops[i] = "?"
								continue
							}
							a, ok1 := intLit(sum.X)
							prod, ok2 := sum.Y.(*ast.BinaryExpr)
							if !ok1 || !ok2 || prod.Op != token.MUL || !isIdent(prod.Y, "hash") {
								ops[i] = "?"
								continue
							}
							b, ok3 := intLit(prod.X)
							if !ok3 {
								ops[i] = "?"
								continue
							}
							mulAdd, mulScale = a, b
							ops[i] = be.Op.String() + "(A+B*h)"
						}
					}
				}
			case *ast.CallExpr:
				if exprStr(fset, x.Fun) == "unsafe.Slice" && len(x.Args) == 2 {
					if strings.Contains(exprStr(fset, x.Args[0]), "&determs[0]") {
						if v, ok := intLit(x.Args[1]); ok {
							nbytes = v
						}
					}
				}
			}
			return true
		})
		if !rangeOverLbls {
			problem("fingerprintLabels: no `range lbls` loop")
		}
		if len(seeds) != 3 {
			return "", fmt.Errorf("fingerprintLabels: `determs := []uint64{a, b, c}` not found")
		}
		if ops[0] != "+" || ops[1] != "^" || ops[2] != "*(A+B*h)" {
			mulAdd, mulScale = 1779033703, 2 // last recognised values; the shape problem fails the obligation
			problem("fingerprintLabels: update statements are not `determs[0] + hash`, `determs[1] ^ hash`, `determs[2] * (A + B*hash)`: got %v", ops)
		}
		wantHash := "cityhash102.Hash128to64(cityhash102.Uint128{ city.CH64([]byte(lbl[0])), city.CH64([]byte(lbl[1])), })"
		if hashExpr != wantHash {
			problem("fingerprintLabels: per-label hash is %q, expected %q", hashExpr, wantHash)
		}
		if nbytes != 24 {
			problem("fingerprintLabels: the outer hash is not over unsafe.Slice(&determs[0], 24)")
		}
		fmt.Fprintf(&out, "/-- `determs := []uint64{…}` of fingerprintLabels -/\ndef seedSum : BitVec 64 := %d#64\ndef seedXor : BitVec 64 := %d#64\ndef seedProd : BitVec 64 := %d#64\n", seeds[0], seeds[1], seeds[2])
		fmt.Fprintf(&out, "/-- `determs[2] = determs[2] * (mulAdd + mulScale*hash)`; determs[0] uses `+`, determs[1] uses `^` (shape checked by the translator) -/\ndef mulAdd : BitVec 64 := %d#64\ndef mulScale : BitVec 64 := %d#64\n", mulAdd, mulScale)

		// ---- Hash128to64
		fset2, f2, err := parseFile("writer/utils/heputils/cityhash102/cityhash.go")
		if err != nil {
			return "", err
		}
		var kMul uint64
		found := false
		for _, d := range f2.Decls {
			gd, ok := d.(*ast.GenDecl)
			if !ok || gd.Tok != token.CONST {
				continue
			}
			for _, sp := range gd.Specs {
				vs := sp.(*ast.ValueSpec)
				for i, nm := range vs.Names {
					if nm.Name == "kMul" && i < len(vs.Values) {
						if v, ok := intLit(vs.Values[i]); ok {
							kMul, found = v, true
						}
					}
				}
			}
		}
		if !found {
			return "", fmt.Errorf("cityhash102: const kMul not found")
		}
		hd := findFunc(f2, "", "Hash128to64")
		if hd == nil {
			return "", fmt.Errorf("cityhash102.Hash128to64 not found")
		}
		wantBody := "{ var a = (x.Lower64() ^ x.Higher64()) * kMul a ^= (a >> 47) var b = (x.Higher64() ^ a) * kMul b ^= (b >> 47) b *= kMul return b }"
		if got := exprStr(fset2, hd.Body); got != wantBody {
			problem("Hash128to64 body changed: %s", got)
		}
		for _, m := range []struct{ name, want string }{{"Lower64", "{ return this[0] }"}, {"Higher64", "{ return this[1] }"}} {
			md := findFunc(f2, "Uint128", m.name)
			if md == nil || exprStr(fset2, md.Body) != m.want {
				problem("cityhash102.Uint128.%s changed", m.name)
			}
		}
		fmt.Fprintf(&out, "/-- cityhash102.kMul; Hash128to64 = the model's `hash128to64` with shift 47 (body text checked by the translator) -/\ndef kMul : BitVec 64 := %d#64\ndef shift : Nat := 47\n", kMul)

		// ---- onEntries: date of the series row, cache access
		fset3, f3, err := parseFile("writer/utils/unmarshal/builder.go")
		if err != nil {
			return "", err
		}
		oe := findFunc(f3, "parserDoer", "onEntries")
		if oe == nil {
			return "", fmt.Errorf("parserDoer.onEntries not found")
		}
		dateExpr := ""
		ast.Inspect(oe.Body, func(n ast.Node) bool {
			as, ok := n.(*ast.AssignStmt)
			if !ok || len(as.Lhs) != 1 {
				return true
			}
			ie, ok := as.Lhs[0].(*ast.IndexExpr)
			if ok && isIdent(ie.X, "dates") {
				dateExpr = exprStr(fset3, ie.Index)
			}
			return true
		})
		utc := false
		switch dateExpr {
		case "time.Unix(tsns/1000000000, 0).UTC().Truncate(time.Hour * 24)":
			utc = true
		case "time.Unix(tsns/1000000000, 0).Truncate(time.Hour * 24)":
			utc = false
		default:
			problem("onEntries: day expression not recognised: %q", dateExpr)
		}
		dateExpr = strings.ReplaceAll(dateExpr, "-/", "- /")
		fmt.Fprintf(&out, "/-- onEntries: `%s` -/\ndef seriesDateUTC : Bool := %v\n", dateExpr, utc)
		// cache: the parser package must not set the cache; maybeAddFp reads it with Has and hashes (date, fp, type)
		setInParser := false
		for _, d := range f3.Decls {
			fn, ok := d.(*ast.FuncDecl)
			if !ok || fn.Body == nil {
				continue
			}
			ast.Inspect(fn.Body, func(n ast.Node) bool {
				ce, ok := n.(*ast.CallExpr)
				if !ok {
					return true
				}
				if se, ok := ce.Fun.(*ast.SelectorExpr); ok && se.Sel.Name == "CheckAndSet" && strings.Contains(exprStr(fset3, se.X), "fpCache") {
					setInParser = true
				}
				return true
			})
		}
		ma := findFunc(f3, "parserDoer", "maybeAddFp")
		if ma == nil {
			ma = findFunc(f3, "", "maybeAddFp")
		}
		if ma == nil {
			return "", fmt.Errorf("maybeAddFp not found")
		}
		maSrc := exprStr(fset3, ma.Body)
		keyHasType := strings.Contains(maSrc, "var bs [17]byte") && strings.Contains(maSrc, "bs[16] = tp")
		if !keyHasType && !strings.Contains(maSrc, "var bs [16]byte") {
			problem("maybeAddFp: key layout not recognised")
		}
		// the caller must iterate types inside dates and ask per (date, fp, type)
		oeSrc := exprStr(fset3, oe.Body)
		perType := strings.Contains(oeSrc, "p.maybeAddFp(d, fp, uint8(t))")
		fmt.Fprintf(&out, "/-- the parser sets the fingerprint cache while parsing (it must only read it) -/\ndef cacheSetAtEmit : Bool := %v\n", setInParser)
		fmt.Fprintf(&out, "/-- the cache key covers (day, fingerprint, sample type) and is asked once per type -/\ndef cacheKeyHasType : Bool := %v\n", keyHasType && perType)

		// ---- doParse: keys are set after the loop that awaits the promises
		fset4, f4, err := parseFile("writer/controller/builder.go")
		if err != nil {
			return "", err
		}
		dp := findFunc(f4, "", "doParse")
		if dp == nil {
			return "", fmt.Errorf("controller doParse not found")
		}
		var awaitEnd, setPos token.Pos
		collects := false
		earlyReturnOnErr := false
		ast.Inspect(dp.Body, func(n ast.Node) bool {
			switch x := n.(type) {
			case *ast.RangeStmt:
				if isIdent(x.X, "promises") {
					awaitEnd = x.End()
					src := exprStr(fset4, x.Body)
					if strings.Contains(src, "p.Get()") && strings.Contains(src, "if err != nil { return err }") {
						earlyReturnOnErr = true
					}
				}
			case *ast.CallExpr:
				if se, ok := x.Fun.(*ast.SelectorExpr); ok && se.Sel.Name == "CheckAndSet" {
					setPos = x.Pos()
				}
			case *ast.AssignStmt:
				if strings.Contains(exprStr(fset4, x), "response.TimeSeriesFpKeys") {
					collects = true
				}
			}
			return true
		})
		after := awaitEnd.IsValid() && setPos.IsValid() && setPos > awaitEnd && collects && earlyReturnOnErr
		_ = fset4
		fmt.Fprintf(&out, "/-- doParse collects ParserResponse.TimeSeriesFpKeys and sets them in the cache after the loop that awaits every promise and returns on the first error -/\ndef cacheSetAfterAck : Bool := %v\n", after)

		// ---- reader bounds
		fset5, f5, err := parseFile("reader/logql/logql_transpiler_v2/clickhouse_planner/sql_misc.go")
		if err != nil {
			return "", err
		}
		ffd := findFunc(f5, "", "FormatFromDate")
		if ffd == nil {
			return "", fmt.Errorf("FormatFromDate not found")
		}
		if got := exprStr(fset5, ffd.Body); got != `{ return from.UTC().Add(time.Minute * -30).Format("2006-01-02") }` {
			problem("FormatFromDate body changed: %s", got)
		}
		fmt.Fprintf(&out, "/-- FormatFromDate: `from.UTC().Add(time.Minute * -30).Format(\"2006-01-02\")` -/\ndef fromDateMarginSec : Int := 1800\n")
		upperUTC := true
		nUpper := 0
		for _, rel := range []string{
			"reader/logql/logql_transpiler_v2/clickhouse_planner/planner_series.go",
			"reader/logql/logql_transpiler_v2/clickhouse_planner/planner_values.go",
			"reader/service/promQueryable.go",
			"reader/service/queryLabelsService.go",
		} {
			fs, ff, err := parseFile(rel)
			if err != nil {
				return "", err
			}
			ast.Inspect(ff, func(n ast.Node) bool {
				ce, ok := n.(*ast.CallExpr)
				if !ok || exprStr(fs, ce.Fun) != "sql.Le" || len(ce.Args) != 2 {
					return true
				}
				if !strings.Contains(exprStr(fs, ce.Args[0]), `"date"`) {
					return true
				}
				nUpper++
				arg := exprStr(fs, ce.Args[1])
				if !strings.HasSuffix(arg, `.UTC().Format("2006-01-02"))`) {
					upperUTC = false
				}
				return true
			})
		}
		if nUpper < 4 {
			problem("expected 4 upper date bounds on the series index (series, values, prom label fetch, label names), found %d", nUpper)
		}
		fmt.Fprintf(&out, "/-- every `date <= …` bound of the time_series / time_series_gin reads formats `To` in UTC -/\ndef upperBoundUTC : Bool := %v\n", upperUTC)

		// ---- cache TTL
		fset6, f6, err := parseFile("writer/plugin/qryn_writer_db.go")
		if err != nil {
			return "", err
		}
		ttl := ""
		ast.Inspect(f6, func(n ast.Node) bool {
			ce, ok := n.(*ast.CallExpr)
			if ok && strings.HasPrefix(exprStr(fset6, ce.Fun), "numbercache.NewCache") && len(ce.Args) > 0 {
				ttl = exprStr(fset6, ce.Args[0])
			}
			return true
		})
		if ttl != "time.Minute * 30" {
			problem("GoCache TTL not recognised: %q", ttl)
		}
		fmt.Fprintf(&out, "/-- GoCache = numbercache.NewCache(time.Minute * 30, …): the whole cache is cleared on that period -/\ndef cacheTTLSec : Nat := 1800\n")
		fmt.Fprintf(&out, "/-- every code shape the model relies on was recognised by the translator -/\ndef shapeOk : Bool := %v\n", len(problems) == 0)
		out.WriteString("def shapeProblems : List String := [")
		for i, pr := range problems {
			if i > 0 {
				out.WriteString(", ")
			}
			out.WriteString(leanStr(pr))
		}
		out.WriteString("]\n")
		out.WriteString("end Qryn.Gen.Fingerprint\n")
		return out.String(), nil
	})
}
