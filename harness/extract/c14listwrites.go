package main

import (
	"fmt"
	"go/ast"
	"go/parser"
	"go/token"
	"os"
	"path/filepath"
	"sort"
	"strings"
)

// Gen.PlannerListWrites (C14): the two halves of every aliasing defect between plan objects.
//
// A statement under construction is a tree of `sql.Select` objects; `Select(cols...)`, `GroupBy`, `OrderBy`, `Join`
// store the slice they are given AS IS and the getters hand the same slice out again. Two translations (or two
// executions of one plan) can influence each other through such a list only if
//
//	(1) a list that OUTLIVES the translation is stored into a plan object   — `plannerSpreadStores`: every call
//	    `f(x...)` (a slice handed over without copying) in the translation packages, with the ORIGIN of x; and
//	(2) somebody writes IN PLACE into a list he did not allocate             — `plannerInPlaceWrites`: every
//	    `x[i] = v`, `x[i] op= v`, `x[i]++`, `append(x, …)` (writes into the spare capacity of x's array),
//	    `copy(x, …)`, `delete(x, …)`, `clear(x)` whose target was not allocated by the same function.
//
// Origins (syntactic, per function, joined with `+` when a variable has several):
//
//	fresh                      make / composite literal / nil / append to a fresh slice / a function of the package all of
//	                           whose returns are fresh (e.g. patchCol)        — never listed as an in-place site
//	getter:<M>@own             result of a `.GetXxx()` method of an object this function created (`sql.NewSelect()` chain)
//	getter:<M>@input           … of an object another planner returned (`X.Process(ctx)`, or a chain ending in it)
//	getter:<M>@param|elem|other… of a parameter / an element of a slice / anything else
//	param:<name>  global:<name>  field:<f> (of another object than the receiver)  call:<callee>  other
//
// Writes whose target is a field of the function's OWN receiver are the business of `Gen.PlannerSelfWrites` (inside
// `Process`) or plan construction (the object is being built) and are not repeated here.
// Entries: "<pkg>.<Type.method|func>:<kind>:<origin>[ ×n]". Fails closed: an expression shape the origin analysis does
// not know is reported with origin `other`, which no reviewed class accepts silently — the table in Props/C14 pins the
// whole list.
func init() {
	register("PlannerListWrites", func() (string, error) {
		pkgs := []string{
			"reader/logql/logql_transpiler_v2", "reader/logql/logql_transpiler_v2/clickhouse_planner",
			"reader/logql/logql_transpiler_v2/shared",
			"reader/traceql/transpiler", "reader/traceql/transpiler/clickhouse_transpiler",
			"reader/promql/transpiler", "reader/prof/transpiler", "reader/utils/sql_select",
		}
		var writes, stores []string
		nFuncs := 0
		for _, pkg := range pkgs {
			ents, err := os.ReadDir(filepath.Join(repo, pkg))
			if err != nil {
				return "", err
			}
			var files []*ast.File
			for _, e := range ents {
				if e.IsDir() || !strings.HasSuffix(e.Name(), ".go") || strings.HasSuffix(e.Name(), "_test.go") {
					continue
				}
				fset := token.NewFileSet()
				f, err := parser.ParseFile(fset, filepath.Join(repo, pkg, e.Name()), nil, 0)
				if err != nil {
					return "", fmt.Errorf("%s/%s: %v", pkg, e.Name(), err)
				}
				files = append(files, f)
			}
			// package-level variable names (for origin `global:`)
			globals := map[string]bool{}
			var fds []*ast.FuncDecl
			for _, f := range files {
				for _, d := range f.Decls {
					switch x := d.(type) {
					case *ast.GenDecl:
						if x.Tok == token.VAR {
							for _, sp := range x.Specs {
								for _, n := range sp.(*ast.ValueSpec).Names {
									globals[n.Name] = true
								}
							}
						}
					case *ast.FuncDecl:
						if x.Body != nil {
							fds = append(fds, x)
						}
					}
				}
			}
			// summaries: plain functions of the package all of whose returns are fresh (first result)
			freshFn := map[string]bool{}
			for pass := 0; pass < 2; pass++ {
				for _, fd := range fds {
					if fd.Recv != nil || fd.Type.Results == nil || len(fd.Type.Results.List) == 0 {
						continue
					}
					a := newLwAnalysis(fd, globals, freshFn)
					ok, any := true, false
					ast.Inspect(fd.Body, func(n ast.Node) bool {
						if _, isLit := n.(*ast.FuncLit); isLit {
							return false
						}
						if rs, isRet := n.(*ast.ReturnStmt); isRet && len(rs.Results) > 0 {
							any = true
							if o := a.origin(rs.Results[0], 0); o != "fresh" {
								ok = false
							}
						}
						return true
					})
					if ok && any {
						freshFn[fd.Name.Name] = true
					}
				}
			}
			for _, fd := range fds {
				nFuncs++
				name := fd.Name.Name
				if fd.Recv != nil && len(fd.Recv.List) == 1 {
					t := fd.Recv.List[0].Type
					if st, ok := t.(*ast.StarExpr); ok {
						t = st.X
					}
					if ix, ok := t.(*ast.IndexExpr); ok {
						t = ix.X
					}
					id, ok := t.(*ast.Ident)
					if !ok {
						return "", fmt.Errorf("%s: receiver of %s has an unrecognised shape", pkg, fd.Name.Name)
					}
					name = id.Name + "." + name
				}
				a := newLwAnalysis(fd, globals, freshFn)
				w, s := a.sites()
				for _, x := range w {
					writes = append(writes, pkg+"."+name+":"+x)
				}
				for _, x := range s {
					stores = append(stores, pkg+"."+name+":"+x)
				}
			}
		}
		if nFuncs < 300 {
			return "", fmt.Errorf("only %d functions found under the translation packages", nFuncs)
		}
		writes, stores = lwCount(writes), lwCount(stores)
		s := "namespace Qryn.Gen\n/-- in-place writes (index assignment, append, copy, delete, clear) into a slice/map the function did not allocate: \"pkg.Func:kind:origin\" -/\ndef plannerInPlaceWrites : List String :=\n  [" + lwList(writes) + "]\n"
		s += "/-- slices handed over without copying (`f(x...)`) with the origin of x, fresh ones included: \"pkg.Func:callee:origin\" -/\ndef plannerSpreadStores : List String :=\n  [" + lwList(stores) + "]\n"
		// the stores that are neither a freshly allocated list nor a wrapper forwarding its own variadic parameter (whose
		// caller is listed with the real origin): the lists that travel between plan objects
		var shared, glob []string
		for _, x := range stores {
			org := lwOriginOf(x)
			if org == "fresh" || (strings.HasPrefix(org, "param:") && !strings.Contains(org, "+")) {
				continue
			}
			shared = append(shared, x)
		}
		for _, x := range append(append([]string(nil), writes...), stores...) {
			org := lwOriginOf(x)
			for _, part := range strings.Split(org, "+") {
				if strings.HasPrefix(part, "global:") || part == "other" || strings.HasSuffix(part, "@global") || strings.HasSuffix(part, "@other") {
					glob = append(glob, x)
					break
				}
			}
		}
		sort.Strings(glob)
		s += "/-- of `plannerSpreadStores`: neither a fresh list nor a wrapper forwarding its own variadic parameter -/\ndef plannerSpreadStoresShared : List String :=\n  [" + lwList(shared) + "]\n"
		s += "/-- in-place writes and stores whose list has a package-level origin, or an origin the analysis does not know -/\ndef plannerListGlobalOrigins : List String :=\n  [" + lwList(glob) + "]\n"
		s += "/-- functions scanned -/\ndef plannerListFuncs : Nat := " + fmt.Sprint(nFuncs) + "\nend Qryn.Gen\n"
		return s, nil
	})
}

// lwOriginOf: the origin part of an entry "pkg.Func:kind:origin[ ×n]" (the origin itself may contain ':')
func lwOriginOf(x string) string {
	if i := strings.Index(x, " ×"); i >= 0 {
		x = x[:i]
	}
	// pkg path has no ':'; entry = <pkg.Func>:<kind>:<origin>
	parts := strings.SplitN(x, ":", 3)
	if len(parts) < 3 {
		return "other"
	}
	return parts[2]
}

func lwList(xs []string) string {
	var ps []string
	for _, x := range xs {
		ps = append(ps, leanStr(x))
	}
	return strings.Join(ps, ",\n   ")
}

func lwCount(xs []string) []string {
	cnt := map[string]int{}
	for _, x := range xs {
		cnt[x]++
	}
	var out []string
	for x, n := range cnt {
		if n > 1 {
			x += fmt.Sprintf(" ×%d", n)
		}
		out = append(out, x)
	}
	sort.Strings(out)
	return out
}

type lwAnalysis struct {
	fd      *ast.FuncDecl
	recv    string
	params  map[string]bool
	globals map[string]bool
	freshFn map[string]bool
	assigns map[string][]ast.Expr // local name -> every expression assigned to it (nil entry: declared without a value)
	multi   map[string][]ast.Expr // local name -> call expressions of multi-value assignments it is the FIRST result of
	later   map[string]bool       // local name that is a non-first result of a multi-value assignment / a range variable
	basic   map[string]bool       // variadic parameter of a basic element type (`options ...int`, `alias ...string`): not a list of SQL objects
}

func newLwAnalysis(fd *ast.FuncDecl, globals, freshFn map[string]bool) *lwAnalysis {
	a := &lwAnalysis{fd: fd, params: map[string]bool{}, globals: globals, freshFn: freshFn,
		assigns: map[string][]ast.Expr{}, multi: map[string][]ast.Expr{}, later: map[string]bool{}, basic: map[string]bool{}}
	if fd.Recv != nil && len(fd.Recv.List) == 1 && len(fd.Recv.List[0].Names) == 1 {
		a.recv = fd.Recv.List[0].Names[0].Name
	}
	addParams := func(fl *ast.FieldList) {
		if fl == nil {
			return
		}
		for _, f := range fl.List {
			for _, n := range f.Names {
				a.params[n.Name] = true
				if el, ok := f.Type.(*ast.Ellipsis); ok {
					if id, ok := el.Elt.(*ast.Ident); ok && (id.Name == "int" || id.Name == "string") {
						a.basic[n.Name] = true
					}
				}
			}
		}
	}
	addParams(fd.Type.Params)
	addParams(fd.Type.Results) // named results start as zero values but may be assigned: handled through assigns
	ast.Inspect(fd.Body, func(n ast.Node) bool {
		switch s := n.(type) {
		case *ast.FuncLit:
			addParams(s.Type.Params)
		case *ast.AssignStmt:
			if len(s.Lhs) == len(s.Rhs) {
				for i, l := range s.Lhs {
					if id, ok := l.(*ast.Ident); ok && id.Name != "_" {
						a.assigns[id.Name] = append(a.assigns[id.Name], s.Rhs[i])
					}
				}
			} else if len(s.Rhs) == 1 {
				for i, l := range s.Lhs {
					if id, ok := l.(*ast.Ident); ok && id.Name != "_" {
						if i == 0 {
							a.multi[id.Name] = append(a.multi[id.Name], s.Rhs[0])
						} else {
							a.later[id.Name] = true
						}
					}
				}
			}
		case *ast.ValueSpec:
			for i, id := range s.Names {
				if i < len(s.Values) {
					a.assigns[id.Name] = append(a.assigns[id.Name], s.Values[i])
				} else {
					a.assigns[id.Name] = append(a.assigns[id.Name], nil)
				}
			}
		case *ast.RangeStmt:
			for _, e := range []ast.Expr{s.Key, s.Value} {
				if id, ok := e.(*ast.Ident); ok && id.Name != "_" {
					a.later[id.Name] = true
				}
			}
		}
		return true
	})
	return a
}

func lwCallee(e ast.Expr) string {
	switch x := e.(type) {
	case *ast.Ident:
		return x.Name
	case *ast.SelectorExpr:
		return x.Sel.Name
	case *ast.IndexExpr: // generic instantiation
		return lwCallee(x.X)
	case *ast.ParenExpr:
		return lwCallee(x.X)
	}
	return "?"
}

func lwJoin(parts ...string) string {
	set := map[string]bool{}
	for _, p := range parts {
		for _, q := range strings.Split(p, "+") {
			if q != "" {
				set[q] = true
			}
		}
	}
	if len(set) > 1 {
		delete(set, "fresh") // a variable that is sometimes fresh and sometimes not is not fresh
	}
	var out []string
	for q := range set {
		out = append(out, q)
	}
	sort.Strings(out)
	return strings.Join(out, "+")
}

// owner: who owns the object a getter is called on
func (a *lwAnalysis) owner(e ast.Expr, depth int) string {
	if depth > 8 {
		return "other"
	}
	switch x := e.(type) {
	case *ast.ParenExpr:
		return a.owner(x.X, depth+1)
	case *ast.Ident:
		if x.Name == a.recv {
			return "recv"
		}
		if a.params[x.Name] {
			return "param"
		}
		var parts []string
		for _, r := range a.assigns[x.Name] {
			if r != nil {
				parts = append(parts, a.owner(r, depth+1))
			}
		}
		for _, r := range a.multi[x.Name] {
			parts = append(parts, a.owner(r, depth+1))
		}
		if a.later[x.Name] {
			parts = append(parts, "elem")
		}
		if len(parts) == 0 {
			if a.globals[x.Name] {
				return "global"
			}
			return "other"
		}
		return lwJoin(parts...)
	case *ast.IndexExpr:
		return "elem"
	case *ast.SelectorExpr:
		if id, ok := x.X.(*ast.Ident); ok && id.Name == a.recv {
			return "recvfield"
		}
		return "field"
	case *ast.TypeAssertExpr:
		return a.owner(x.X, depth+1)
	case *ast.UnaryExpr:
		if _, ok := x.X.(*ast.CompositeLit); ok && x.Op == token.AND {
			return "own"
		}
	case *ast.CompositeLit:
		return "own"
	case *ast.CallExpr:
		switch f := x.Fun.(type) {
		case *ast.SelectorExpr:
			// constructor of the sql package, or a fluent chain on one
			if id, ok := f.X.(*ast.Ident); ok && id.Name == "sql" && strings.HasPrefix(f.Sel.Name, "New") {
				return "own"
			}
			if f.Sel.Name == "Process" {
				return "input"
			}
			if strings.HasPrefix(f.Sel.Name, "Get") {
				return "elem"
			}
			// fluent setter: the object is the receiver of the chain
			return a.owner(f.X, depth+1)
		case *ast.Ident:
			if strings.HasPrefix(f.Name, "New") {
				return "own"
			}
			return "call"
		}
	}
	return "other"
}

func (a *lwAnalysis) origin(e ast.Expr, depth int) string {
	if e == nil {
		return "fresh"
	}
	if depth > 8 {
		return "other"
	}
	switch x := e.(type) {
	case *ast.ParenExpr:
		return a.origin(x.X, depth+1)
	case *ast.CompositeLit:
		return "fresh"
	case *ast.FuncLit, *ast.BasicLit:
		return "fresh"
	case *ast.SliceExpr:
		return a.origin(x.X, depth+1)
	case *ast.Ident:
		if x.Name == "nil" {
			return "fresh"
		}
		if a.params[x.Name] {
			return "param:" + x.Name
		}
		if x.Name == a.recv {
			return "recv"
		}
		var parts []string
		for _, r := range a.assigns[x.Name] {
			if ce, ok := r.(*ast.CallExpr); ok {
				// x = append(x, …): contributes only what the first argument contributes
				if id, ok := ce.Fun.(*ast.Ident); ok && id.Name == "append" && len(ce.Args) > 0 {
					if id0, ok := ce.Args[0].(*ast.Ident); ok && id0.Name == x.Name {
						continue
					}
				}
			}
			parts = append(parts, a.origin(r, depth+1))
		}
		for _, r := range a.multi[x.Name] {
			parts = append(parts, a.origin(r, depth+1))
		}
		if a.later[x.Name] {
			parts = append(parts, "elem")
		}
		if len(parts) == 0 {
			if _, declared := a.assigns[x.Name]; declared {
				return "fresh" // only ever `x = append(x, …)` from its zero value
			}
			if a.globals[x.Name] {
				return "global:" + x.Name
			}
			return "other"
		}
		return lwJoin(parts...)
	case *ast.SelectorExpr:
		if id, ok := x.X.(*ast.Ident); ok {
			if id.Name == a.recv {
				return "recvfield:" + x.Sel.Name
			}
			if !a.params[id.Name] && len(a.assigns[id.Name]) == 0 && len(a.multi[id.Name]) == 0 && !a.later[id.Name] && !a.globals[id.Name] {
				return "global:" + id.Name + "." + x.Sel.Name // a package-qualified name
			}
		}
		return "field:" + x.Sel.Name
	case *ast.IndexExpr:
		return "elem@" + a.origin(x.X, depth+1)
	case *ast.CallExpr:
		switch f := x.Fun.(type) {
		case *ast.Ident:
			switch f.Name {
			case "make", "new":
				return "fresh"
			case "append":
				if len(x.Args) == 0 {
					return "other"
				}
				return a.origin(x.Args[0], depth+1)
			}
			if a.freshFn[f.Name] {
				return "fresh"
			}
			return "call:" + f.Name
		case *ast.ArrayType, *ast.MapType: // conversion []T(nil)
			if len(x.Args) == 1 {
				return a.origin(x.Args[0], depth+1)
			}
		case *ast.SelectorExpr:
			if strings.HasPrefix(f.Sel.Name, "Get") && len(x.Args) == 0 {
				return "getter:" + f.Sel.Name + "@" + a.owner(f.X, 0)
			}
			return "call:" + f.Sel.Name
		}
		return "call:" + lwCallee(x.Fun)
	}
	return "other"
}

func (a *lwAnalysis) sites() (writes, stores []string) {
	ownField := func(o string) bool {
		for _, p := range strings.Split(o, "+") {
			if !strings.HasPrefix(p, "recvfield:") && p != "fresh" {
				return false
			}
		}
		return true
	}
	addW := func(kind string, target ast.Expr) {
		o := a.origin(target, 0)
		if o == "fresh" || ownField(o) {
			return
		}
		writes = append(writes, kind+":"+o)
	}
	ast.Inspect(a.fd.Body, func(n ast.Node) bool {
		switch s := n.(type) {
		case *ast.AssignStmt:
			for _, l := range s.Lhs {
				if ix, ok := l.(*ast.IndexExpr); ok {
					addW("index", ix.X)
				}
			}
		case *ast.IncDecStmt:
			if ix, ok := s.X.(*ast.IndexExpr); ok {
				addW("index", ix.X)
			}
		case *ast.CallExpr:
			if id, ok := s.Fun.(*ast.Ident); ok && len(s.Args) > 0 {
				switch id.Name {
				case "append":
					addW("append", s.Args[0])
				case "copy", "delete", "clear":
					addW(id.Name, s.Args[0])
				}
			}
			if s.Ellipsis.IsValid() && len(s.Args) > 0 {
				if id, ok := s.Fun.(*ast.Ident); ok && id.Name == "append" {
					return true // append(x, y...) copies the elements of y
				}
				o := a.origin(s.Args[len(s.Args)-1], 0)
				if strings.HasPrefix(o, "param:") && a.basic[strings.TrimPrefix(o, "param:")] {
					return true // rendering options / names forwarded: not a list a plan object keeps SQL objects in
				}
				stores = append(stores, lwCallee(s.Fun)+":"+o)
			}
		}
		return true
	})
	return
}
