package main

import (
	"fmt"
	"go/ast"
	"go/token"
	"strings"
)

// Gen.Decoders: the SHAPE of the hand-written decoders of writer/utils/unmarshal that the decoder models of
// lean/Qryn/Ingest/WireDecode.lean mirror: for every decoder function the string cases of its `switch key`
// statements (in source order), the integer cases of the positional switch of decodeStreamValue, the character set and
// layout of parseTime, the kinds of the Influx field type switch and of SanitizeValue, the literals (label names) the
// Influx / Datadog / OTLP decoders write. A new case, a renamed key, another layout → the fact changes → the theorem
// `decoder_shape_source` no longer holds.

// c03KeySwitches: for every `switch <tag>` with tag identifier `key` inside fd (closures included), the string
// literals of its case clauses, in source order; ok=false when a case is not a string literal.
func c03KeySwitches(fd *ast.FuncDecl, tag string) ([][]string, error) {
	var out [][]string
	var err error
	ast.Inspect(fd.Body, func(n ast.Node) bool {
		sw, ok := n.(*ast.SwitchStmt)
		if !ok || sw.Tag == nil || exprText(sw.Tag) != tag {
			return true
		}
		var keys []string
		for _, st := range sw.Body.List {
			cc := st.(*ast.CaseClause)
			for _, e := range cc.List {
				s, ok := strLit(e)
				if !ok {
					if bl, isLit := e.(*ast.BasicLit); isLit && bl.Kind == token.INT {
						s = bl.Value
					} else {
						err = fmt.Errorf("%s: a case of `switch %s` is not a literal", fd.Name.Name, tag)
						return false
					}
				}
				keys = append(keys, s)
			}
		}
		out = append(out, keys)
		return true
	})
	return out, err
}

// c03TypeSwitchKinds: the type names of the case clauses of the (only) type switch in fd
func c03TypeSwitchKinds(fd *ast.FuncDecl) ([]string, error) {
	var out []string
	n := 0
	ast.Inspect(fd.Body, func(nd ast.Node) bool {
		ts, ok := nd.(*ast.TypeSwitchStmt)
		if !ok {
			return true
		}
		n++
		for _, st := range ts.Body.List {
			cc := st.(*ast.CaseClause)
			for _, e := range cc.List {
				if se, ok := e.(*ast.StarExpr); ok {
					out = append(out, exprText(se.X))
				} else {
					out = append(out, exprText(e))
				}
			}
		}
		return false
	})
	if n != 1 {
		return nil, fmt.Errorf("%s: %d type switches at the top, 1 expected", fd.Name.Name, n)
	}
	return out, nil
}

// c03StringLits: the distinct string literals of fd, in order of first appearance
func c03StringLits(fd *ast.FuncDecl) []string {
	var out []string
	seen := map[string]bool{}
	ast.Inspect(fd.Body, func(n ast.Node) bool {
		if s, ok := strLit2(n); ok && !seen[s] {
			seen[s] = true
			out = append(out, s)
		}
		return true
	})
	return out
}

func strLit2(n ast.Node) (string, bool) {
	e, ok := n.(ast.Expr)
	if !ok {
		return "", false
	}
	return strLit(e)
}

func init() {
	register("Decoders", func() (string, error) {
		var b strings.Builder
		b.WriteString("namespace Qryn.Gen\n")
		dir := "writer/utils/unmarshal/"
		emit := func(name, doc string, keys []string) {
			fmt.Fprintf(&b, "/-- %s -/\ndef %s : List (List UInt8) := %s\n", doc, name, leanBytesList(keys))
		}
		need := func(file, recv, fn string) (*ast.FuncDecl, error) {
			_, f, err := parseFile(dir + file)
			if err != nil {
				return nil, err
			}
			fd := findFunc(f, recv, fn)
			if fd == nil || fd.Body == nil {
				return nil, fmt.Errorf("%s: %s.%s not found", file, recv, fn)
			}
			return fd, nil
		}
		one := func(file, recv, fn, tag string, count int) ([][]string, error) {
			fd, err := need(file, recv, fn)
			if err != nil {
				return nil, err
			}
			sw, err := c03KeySwitches(fd, tag)
			if err != nil {
				return nil, err
			}
			if len(sw) != count {
				return nil, fmt.Errorf("%s.%s: %d `switch %s` statements, %d expected", recv, fn, len(sw), tag, count)
			}
			return sw, nil
		}
		// --- Loki JSON
		sw, err := one("unmarshal.go", "pushRequestDec", "Decode", "key", 1)
		if err != nil {
			return "", err
		}
		emit("lokiTopKeys", "`pushRequestDec.Decode`: cases of `switch key`", sw[0])
		if sw, err = one("unmarshal.go", "pushRequestDec", "decodeStream", "key", 1); err != nil {
			return "", err
		}
		emit("lokiStreamKeys", "`decodeStream`: cases of `switch key`", sw[0])
		if sw, err = one("unmarshal.go", "pushRequestDec", "decodeStreamEntry", "key", 1); err != nil {
			return "", err
		}
		emit("lokiEntryKeys", "`decodeStreamEntry`: cases of `switch key`", sw[0])
		if sw, err = one("unmarshal.go", "pushRequestDec", "decodeStreamValue", "j", 1); err != nil {
			return "", err
		}
		emit("lokiValuePositions", "`decodeStreamValue`: cases of `switch j` (decimal text)", sw[0])
		// parseTime: strings.ContainsAny(val, "<chars>") and time.Parse(<layout>, val)
		fd, err := need("unmarshal.go", "", "parseTime")
		if err != nil {
			return "", err
		}
		chars, layout := "", ""
		ast.Inspect(fd.Body, func(n ast.Node) bool {
			call, ok := n.(*ast.CallExpr)
			if !ok {
				return true
			}
			switch exprText(call.Fun) {
			case "strings.ContainsAny":
				if len(call.Args) == 2 {
					chars, _ = strLit(call.Args[1])
				}
			case "time.Parse":
				if len(call.Args) == 2 {
					layout = exprText(call.Args[0])
				}
			}
			return true
		})
		if chars == "" || layout == "" {
			return "", fmt.Errorf("parseTime: strings.ContainsAny(…, \"…\") / time.Parse(layout, …) not found")
		}
		emit("parseTimeChars", "`parseTime`: a string containing one of these bytes is handed to `time.Parse`", []string{chars})
		emit("parseTimeLayout", "`parseTime`: the layout expression", []string{layout})
		// --- Datadog logs
		if sw, err = one("datadogJsonUnmarshal.go", "datadogRequestDec", "DecodeEntry", "key", 1); err != nil {
			return "", err
		}
		emit("ddLogKeys", "`datadogRequestDec.DecodeEntry`: cases of `switch key`", sw[0])
		if fd, err = need("datadogJsonUnmarshal.go", "datadogRequestDec", "DecodeEntry"); err != nil {
			return "", err
		}
		// the fixed labels: for _, l := range [][]string{{"ddsource", d.Source}, …}
		var fixed []string
		ast.Inspect(fd.Body, func(n ast.Node) bool {
			rs, ok := n.(*ast.RangeStmt)
			if !ok {
				return true
			}
			cl, ok := rs.X.(*ast.CompositeLit)
			if !ok {
				return true
			}
			for _, el := range cl.Elts {
				inner, ok := el.(*ast.CompositeLit)
				if !ok || len(inner.Elts) != 2 {
					fixed = nil
					return false
				}
				name, ok := strLit(inner.Elts[0])
				if !ok {
					fixed = nil
					return false
				}
				val := exprText(inner.Elts[1])
				if s, ok := strLit(inner.Elts[1]); ok {
					val = "=" + s
				}
				fixed = append(fixed, name, val)
			}
			return false
		})
		if len(fixed) == 0 {
			return "", fmt.Errorf("datadogRequestDec.DecodeEntry: the range over the fixed label list was not recognised")
		}
		emit("ddLogFixed", "`DecodeEntry`: the fixed labels appended when not empty: name, source expression (`=text` for a literal), …", fixed)
		// --- Datadog series
		if sw, err = one("datadogMetricsJsonUnmarshal.go", "datadogMetricsRequestDec", "Decode", "key", 1); err != nil {
			return "", err
		}
		emit("ddSeriesTopKeys", "`datadogMetricsRequestDec.Decode`: cases of `switch key`", sw[0])
		if sw, err = one("datadogMetricsJsonUnmarshal.go", "datadogMetricsRequestDec", "DecodeSeriesItem", "key", 2); err != nil {
			return "", err
		}
		emit("ddSeriesItemKeys", "`DecodeSeriesItem`: cases of the outer `switch key`", sw[0])
		emit("ddSeriesPointKeys", "`DecodeSeriesItem`: cases of the `switch key` inside the points callback", sw[1])
		// the point defaults are declared inside the per-point callback (the fix): `tsNs := time.Now().UnixNano()` must be inside the
		// function literal passed to dec.Arr in the `points` case, not before it
		if fd, err = need("datadogMetricsJsonUnmarshal.go", "datadogMetricsRequestDec", "DecodeSeriesItem"); err != nil {
			return "", err
		}
		depthOfDefaults := -1
		var walk func(n ast.Node, depth int)
		walk = func(n ast.Node, depth int) {
			ast.Inspect(n, func(m ast.Node) bool {
				if m == n {
					return true
				}
				if fl, ok := m.(*ast.FuncLit); ok {
					walk(fl.Body, depth+1)
					return false
				}
				if as, ok := m.(*ast.AssignStmt); ok && as.Tok == token.DEFINE && len(as.Lhs) == 1 && exprText(as.Lhs[0]) == "tsNs" {
					depthOfDefaults = depth
				}
				return true
			})
		}
		walk(fd.Body, 0)
		if depthOfDefaults < 0 {
			return "", fmt.Errorf("DecodeSeriesItem: `tsNs := …` not found")
		}
		fmt.Fprintf(&b, "/-- `DecodeSeriesItem`: nesting depth (function literals) of the declaration `tsNs := time.Now()…`: 1 = inside the per-point callback -/\ndef ddSeriesPointDefaultsDepth : Nat := %d\n", depthOfDefaults)
		// --- Influx
		if fd, err = need("influxUnmarshal.go", "influxDec", "Decode"); err != nil {
			return "", err
		}
		kinds, err := c03TypeSwitchKinds(fd)
		if err != nil {
			return "", err
		}
		emit("influxNumericKinds", "`influxDec.Decode`: the field types converted to a sample value", kinds)
		emit("influxLiterals", "`influxDec.Decode`: its string literals in order of appearance", c03StringLits(fd))
		if fd, err = need("influxUnmarshal.go", "", "getMessage"); err != nil {
			return "", err
		}
		emit("influxMessageLiterals", "`getMessage`: its string literals", c03StringLits(fd))
		// --- OTLP
		if fd, err = need("otlplogs.go", "otlpLogDec", "Decode"); err != nil {
			return "", err
		}
		emit("otlpLiterals", "`otlpLogDec.Decode`: its string literals", c03StringLits(fd))
		// the line: message := SanitizeValue(logRecord.Body)
		msgExpr := ""
		ast.Inspect(fd.Body, func(n ast.Node) bool {
			if as, ok := n.(*ast.AssignStmt); ok && len(as.Lhs) == 1 && len(as.Rhs) == 1 && exprText(as.Lhs[0]) == "message" {
				msgExpr = exprText(as.Rhs[0])
			}
			return true
		})
		emit("otlpMessageExpr", "`otlpLogDec.Decode`: the expression the line is taken from", []string{msgExpr})
		if fd, err = need("otlplogs.go", "", "SanitizeValue"); err != nil {
			return "", err
		}
		if kinds, err = c03TypeSwitchKinds(fd); err != nil {
			return "", err
		}
		emit("otlpValueKinds", "`SanitizeValue`: the cases of its type switch", kinds)
		b.WriteString("end Qryn.Gen\n")
		return b.String(), nil
	})
}
