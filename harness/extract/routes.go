package main

// Gen.Routes (C20): how main.go assembles the HTTP front — the ordered Use / registration / serve events on
// the router created in main(), followed interprocedurally through every function the router value is passed
// to, down to the route tables (path template + methods). Fails closed: any use of the router value that is
// not one of the recognised shapes is an error.

import (
	"bytes"
	"fmt"
	"go/ast"
	"go/parser"
	"go/printer"
	"go/token"
	"os"
	"path/filepath"
	"sort"
	"strings"
)

const qrynMod = "github.com/metrico/qryn"

type rtEvent struct {
	kind  string // use | register | serve | hook
	name  string
	cond  bool
	own   bool   // only when the reader owns the http server
	guard string // innermost enclosing if-condition
}

type rtRoute struct {
	prefix  bool
	tpl     string
	methods []string
	src     string
	cond    bool
	own     bool
	dynamic string // non-empty: path expression that is not a constant
}

type rtPkg struct {
	dir   string // relative to repo
	fset  *token.FileSet
	files map[string]*ast.File
}

type rtWalker struct {
	pkgs        map[string]*rtPkg
	events      []rtEvent
	routes      []rtRoute
	facts       map[string]string
	visiting    map[string]bool
	authCond    string
	authArgs    []string
	ownAuthCond string
	ownAuthArgs []string
	problems    []string
}

func (w *rtWalker) pkg(dir string) (*rtPkg, error) {
	if p, ok := w.pkgs[dir]; ok {
		return p, nil
	}
	fset := token.NewFileSet()
	ents, err := os.ReadDir(filepath.Join(repo, dir))
	if err != nil {
		return nil, err
	}
	p := &rtPkg{dir: dir, fset: fset, files: map[string]*ast.File{}}
	for _, e := range ents {
		n := e.Name()
		if e.IsDir() || !strings.HasSuffix(n, ".go") || strings.HasSuffix(n, "_test.go") {
			continue
		}
		f, err := parser.ParseFile(fset, filepath.Join(repo, dir, n), nil, parser.ParseComments)
		if err != nil {
			return nil, err
		}
		p.files[n] = f
	}
	w.pkgs[dir] = p
	return p, nil
}

func (p *rtPkg) src(n ast.Node) string {
	var b bytes.Buffer
	printer.Fprint(&b, p.fset, n)
	return strings.Join(strings.Fields(b.String()), " ")
}

// findFuncs returns declarations named name; method=true → with receiver, false → without.
func (p *rtPkg) findFuncs(name string, method bool) (res []*ast.FuncDecl, files []*ast.File) {
	var names []string
	for n := range p.files {
		names = append(names, n)
	}
	sort.Strings(names)
	for _, n := range names {
		f := p.files[n]
		for _, d := range f.Decls {
			if fd, ok := d.(*ast.FuncDecl); ok && fd.Name.Name == name && (fd.Recv != nil) == method && fd.Body != nil {
				res = append(res, fd)
				files = append(files, f)
			}
		}
	}
	return
}

func (p *rtPkg) hasInterfaceMethod(name string) string {
	for _, f := range p.files {
		for _, d := range f.Decls {
			gd, ok := d.(*ast.GenDecl)
			if !ok {
				continue
			}
			for _, s := range gd.Specs {
				ts, ok := s.(*ast.TypeSpec)
				if !ok {
					continue
				}
				it, ok := ts.Type.(*ast.InterfaceType)
				if !ok {
					continue
				}
				for _, m := range it.Methods.List {
					for _, nm := range m.Names {
						if nm.Name == name {
							return ts.Name.Name
						}
					}
				}
			}
		}
	}
	return ""
}

func (p *rtPkg) constString(name string) (string, bool) {
	for _, f := range p.files {
		for _, d := range f.Decls {
			gd, ok := d.(*ast.GenDecl)
			if !ok || gd.Tok != token.CONST {
				continue
			}
			for _, s := range gd.Specs {
				vs := s.(*ast.ValueSpec)
				for i, nm := range vs.Names {
					if nm.Name == name && i < len(vs.Values) {
						return strLit(vs.Values[i])
					}
				}
			}
		}
	}
	return "", false
}

func importDir(f *ast.File, alias string) (string, bool) {
	for _, im := range f.Imports {
		path := strings.Trim(im.Path.Value, "\"")
		name := path[strings.LastIndex(path, "/")+1:]
		if im.Name != nil {
			name = im.Name.Name
		}
		if name != alias {
			continue
		}
		if path == qrynMod {
			return ".", true
		}
		if strings.HasPrefix(path, qrynMod+"/") {
			return strings.TrimPrefix(path, qrynMod+"/"), true
		}
		return "", false
	}
	return "", false
}

func mentions(n ast.Node, name string) bool {
	found := false
	ast.Inspect(n, func(x ast.Node) bool {
		if se, ok := x.(*ast.SelectorExpr); ok {
			// the field/method name of a selector is not a use of the variable
			if mentions(se.X, name) {
				found = true
			}
			return false
		}
		if id, ok := x.(*ast.Ident); ok && id.Name == name {
			found = true
		}
		return !found
	})
	return found
}

type chainCall struct {
	name string
	args []ast.Expr
}

// unchain peels x.A(..).B(..) into base x and [A, B]
func unchain(e ast.Expr) (ast.Expr, []chainCall) {
	var calls []chainCall
	for {
		ce, ok := e.(*ast.CallExpr)
		if !ok {
			break
		}
		se, ok := ce.Fun.(*ast.SelectorExpr)
		if !ok {
			break
		}
		calls = append([]chainCall{{se.Sel.Name, ce.Args}}, calls...)
		e = se.X
	}
	return e, calls
}

var httpMethodConst = map[string]string{"MethodGet": "GET", "MethodPost": "POST", "MethodPut": "PUT", "MethodDelete": "DELETE",
	"MethodHead": "HEAD", "MethodPatch": "PATCH", "MethodOptions": "OPTIONS"}

func (w *rtWalker) methodsOf(args []ast.Expr) ([]string, error) {
	var ms []string
	for _, a := range args {
		if s, ok := strLit(a); ok {
			ms = append(ms, s)
			continue
		}
		if se, ok := a.(*ast.SelectorExpr); ok {
			if id, ok := se.X.(*ast.Ident); ok && id.Name == "http" {
				if m, ok := httpMethodConst[se.Sel.Name]; ok {
					ms = append(ms, m)
					continue
				}
			}
		}
		return nil, fmt.Errorf("Methods(...) argument is not a literal method")
	}
	if len(ms) == 0 {
		return nil, fmt.Errorf("Methods() without arguments")
	}
	return ms, nil
}

func (w *rtWalker) pathOf(p *rtPkg, f *ast.File, e ast.Expr) (string, string) {
	if s, ok := strLit(e); ok {
		return s, ""
	}
	if id, ok := e.(*ast.Ident); ok {
		if s, ok := p.constString(id.Name); ok {
			return s, ""
		}
	}
	if se, ok := e.(*ast.SelectorExpr); ok {
		if id, ok := se.X.(*ast.Ident); ok {
			if dir, ok := importDir(f, id.Name); ok {
				if q, err := w.pkg(dir); err == nil {
					if s, ok := q.constString(se.Sel.Name); ok {
						return s, ""
					}
				}
			}
		}
	}
	return "", p.src(e)
}

type rtCtx struct {
	p     *rtPkg
	f     *ast.File
	fn    string // qualified name of the function being walked
	param string
	cond  bool
	own   bool
	guard string // source of the innermost enclosing if-condition
}

func isReturnOnly(b *ast.BlockStmt) bool {
	if len(b.List) != 1 {
		return false
	}
	rs, ok := b.List[0].(*ast.ReturnStmt)
	return ok && len(rs.Results) == 0
}

// walkBlock: an unrecognised use of the router in a statement is recorded as a problem (the theorem main_order_ok
// demands an empty problem list) and the walk goes on, so that the rest of the facts — and with them the model
// the correspondence harness runs against — are still produced.
func (w *rtWalker) walkBlock(c rtCtx, stmts []ast.Stmt) error {
	for _, st := range stmts {
		if err := w.walkStmt(&c, st); err != nil {
			w.problems = append(w.problems, err.Error())
		}
	}
	return nil
}

func (w *rtWalker) walkStmt(cp *rtCtx, st ast.Stmt) error {
	c := *cp
	{
		switch s := st.(type) {
		case *ast.IfStmt:
			condSrc := c.p.src(s.Cond)
			if s.Init != nil && mentions(s.Init, c.param) {
				return fmt.Errorf("%s: router used in an if-initialiser", c.fn)
			}
			// `if <cond> { return }`: the rest of the function is conditional
			if s.Else == nil && isReturnOnly(s.Body) && !mentions(s.Cond, c.param) {
				cp.cond = true
				if condSrc == "!ownHttpServer" {
					cp.own = true
					w.facts["readerApplyMiddlewaresGuarded:"+c.fn] = "1"
				}
				return nil
			}
			// reader.Init: `if app == nil { app = mux.NewRouter(); ownHttpServer = true }`
			if condSrc == c.param+" == nil" && s.Else == nil {
				ok := len(s.Body.List) == 2 &&
					c.p.src(s.Body.List[0]) == c.param+" = mux.NewRouter()" &&
					c.p.src(s.Body.List[1]) == "ownHttpServer = true"
				if !ok {
					return fmt.Errorf("%s: unrecognised body of `if %s == nil`", c.fn, c.param)
				}
				w.facts["ownRouterOnlyWhenNil:"+c.fn] = "1"
				return nil
			}
			if mentions(s.Cond, c.param) {
				return fmt.Errorf("%s: router used in condition %q", c.fn, condSrc)
			}
			c2 := c
			c2.cond = true
			c2.guard = condSrc
			if condSrc == "ownHttpServer" {
				c2.own = true
			}
			if err := w.walkBlock(c2, s.Body.List); err != nil {
				return err
			}
			if s.Else != nil {
				if mentions(s.Else, c.param) {
					return fmt.Errorf("%s: router used in an else branch", c.fn)
				}
			}
		case *ast.RangeStmt:
			if mentions(s.X, c.param) {
				return fmt.Errorf("%s: router used in a range expression", c.fn)
			}
			c2 := c
			c2.cond = true
			if err := w.walkBlock(c2, s.Body.List); err != nil {
				return err
			}
		case *ast.BlockStmt:
			if err := w.walkBlock(c, s.List); err != nil {
				return err
			}
		case *ast.ExprStmt:
			if !mentions(s, c.param) {
				return nil
			}
			if err := w.walkCall(c, s.X); err != nil {
				return err
			}
		default:
			if mentions(st, c.param) {
				return fmt.Errorf("%s: unrecognised use of the router in %q", c.fn, c.p.src(st))
			}
		}
	}
	return nil
}

func (w *rtWalker) walkCall(c rtCtx, e ast.Expr) error {
	base, calls := unchain(e)
	if id, ok := base.(*ast.Ident); ok && id.Name == c.param && len(calls) > 0 {
		// a method chain on the router; the router must not occur again in the arguments
		for _, cc := range calls {
			for _, a := range cc.args {
				if mentions(a, c.param) {
					return fmt.Errorf("%s: router passed into its own method call %q", c.fn, c.p.src(e))
				}
			}
		}
		switch calls[0].name {
		case "Use":
			if len(calls) != 1 || len(calls[0].args) != 1 {
				return fmt.Errorf("%s: unrecognised Use shape %q", c.fn, c.p.src(e))
			}
			arg := calls[0].args[0]
			var args []ast.Expr
			if ce, ok := arg.(*ast.CallExpr); ok {
				args = ce.Args
				arg = ce.Fun
			}
			se, ok := arg.(*ast.SelectorExpr)
			if !ok {
				return fmt.Errorf("%s: middleware %q is not a package-qualified name", c.fn, c.p.src(arg))
			}
			if x, ok := se.X.(*ast.Ident); !ok || x.Name != "middleware" {
				return fmt.Errorf("%s: middleware %q is not from package middleware", c.fn, c.p.src(arg))
			}
			if d, ok := importDir(c.f, "middleware"); !ok || d != "reader/utils/middleware" {
				return fmt.Errorf("%s: package middleware is not reader/utils/middleware", c.fn)
			}
			if se.Sel.Name == "BasicAuthMiddleware" {
				var as []string
				for _, a := range args {
					as = append(as, c.p.src(a))
				}
				if c.own {
					w.ownAuthArgs = as
					w.ownAuthCond = c.guard
				} else {
					w.authArgs = as
					w.authCond = c.guard
				}
			}
			w.events = append(w.events, rtEvent{"use", se.Sel.Name, c.cond, c.own, c.guard})
			return nil
		case "HandleFunc", "Handle":
			if len(calls[0].args) != 2 || len(calls) > 2 || (len(calls) == 2 && calls[1].name != "Methods") {
				return fmt.Errorf("%s: unrecognised route shape %q", c.fn, c.p.src(e))
			}
			tpl, dyn := w.pathOf(c.p, c.f, calls[0].args[0])
			r := rtRoute{tpl: tpl, dynamic: dyn, src: c.fn, cond: c.cond, own: c.own}
			if len(calls) == 2 {
				ms, err := w.methodsOf(calls[1].args)
				if err != nil {
					return fmt.Errorf("%s: %v in %q", c.fn, err, c.p.src(e))
				}
				r.methods = ms
			}
			w.routes = append(w.routes, r)
			return nil
		case "PathPrefix":
			if len(calls[0].args) != 1 || len(calls) < 2 || len(calls) > 3 || (calls[1].name != "Handler" && calls[1].name != "HandlerFunc") ||
				(len(calls) == 3 && calls[2].name != "Methods") {
				return fmt.Errorf("%s: unrecognised PathPrefix shape %q", c.fn, c.p.src(e))
			}
			tpl, dyn := w.pathOf(c.p, c.f, calls[0].args[0])
			r := rtRoute{prefix: true, tpl: tpl, dynamic: dyn, src: c.fn, cond: c.cond, own: c.own}
			if len(calls) == 3 {
				ms, err := w.methodsOf(calls[2].args)
				if err != nil {
					return err
				}
				r.methods = ms
			}
			w.routes = append(w.routes, r)
			return nil
		default:
			return fmt.Errorf("%s: unrecognised router method %q", c.fn, c.p.src(e))
		}
	}
	// a call that receives the router as an argument
	ce, ok := e.(*ast.CallExpr)
	if !ok {
		return fmt.Errorf("%s: unrecognised use of the router in %q", c.fn, c.p.src(e))
	}
	if mentions(ce.Fun, c.param) {
		return fmt.Errorf("%s: unrecognised use of the router in %q", c.fn, c.p.src(e))
	}
	idx := -1
	for i, a := range ce.Args {
		if id, ok := a.(*ast.Ident); ok && id.Name == c.param {
			if idx >= 0 {
				return fmt.Errorf("%s: router passed twice in %q", c.fn, c.p.src(e))
			}
			idx = i
		} else if mentions(a, c.param) {
			return fmt.Errorf("%s: router used inside an argument of %q", c.fn, c.p.src(e))
		}
	}
	if idx < 0 {
		return fmt.Errorf("%s: unrecognised use of the router in %q", c.fn, c.p.src(e))
	}
	return w.follow(c, ce, idx)
}

func paramName(fd *ast.FuncDecl, idx int) (string, bool) {
	i := 0
	for _, fl := range fd.Type.Params.List {
		if len(fl.Names) == 0 {
			i++
			continue
		}
		for _, n := range fl.Names {
			if i == idx {
				if se, ok := fl.Type.(*ast.StarExpr); ok {
					if s2, ok := se.X.(*ast.SelectorExpr); ok && s2.Sel.Name == "Router" {
						return n.Name, true
					}
				}
				return n.Name, false
			}
			i++
		}
	}
	return "", false
}

func (w *rtWalker) follow(c rtCtx, ce *ast.CallExpr, idx int) error {
	var target *rtPkg
	var fd *ast.FuncDecl
	var file *ast.File
	var qname string
	switch fn := ce.Fun.(type) {
	case *ast.Ident:
		fds, files := c.p.findFuncs(fn.Name, false)
		if len(fds) != 1 {
			return fmt.Errorf("%s: callee %s: %d declarations", c.fn, fn.Name, len(fds))
		}
		target, fd, file = c.p, fds[0], files[0]
	case *ast.SelectorExpr:
		x, ok := fn.X.(*ast.Ident)
		if !ok {
			return fmt.Errorf("%s: unrecognised callee %q", c.fn, c.p.src(ce.Fun))
		}
		if dir, ok := importDir(c.f, x.Name); ok && x.Name != c.param {
			q, err := w.pkg(dir)
			if err != nil {
				return err
			}
			fds, files := q.findFuncs(fn.Sel.Name, false)
			if len(fds) != 1 {
				return fmt.Errorf("%s: callee %s.%s: %d declarations", c.fn, x.Name, fn.Sel.Name, len(fds))
			}
			target, fd, file = q, fds[0], files[0]
		} else {
			// a method call on a value: the method is looked up by name in this package and the qryn packages it imports
			cands := []*rtPkg{c.p}
			for _, im := range c.f.Imports {
				path := strings.Trim(im.Path.Value, "\"")
				if strings.HasPrefix(path, qrynMod+"/") {
					q, err := w.pkg(strings.TrimPrefix(path, qrynMod+"/"))
					if err != nil {
						return err
					}
					cands = append(cands, q)
				}
			}
			n := 0
			iface := ""
			for _, q := range cands {
				fds, files := q.findFuncs(fn.Sel.Name, true)
				for i := range fds {
					n++
					target, fd, file = q, fds[i], files[i]
				}
				if it := q.hasInterfaceMethod(fn.Sel.Name); it != "" {
					iface = q.dir + "." + it + "." + fn.Sel.Name
				}
			}
			if n == 0 && iface != "" {
				// dynamic dispatch: route plugins
				w.events = append(w.events, rtEvent{"hook", iface, true, c.own, c.guard})
				return nil
			}
			if n != 1 {
				return fmt.Errorf("%s: method %s: %d declarations", c.fn, fn.Sel.Name, n)
			}
		}
	default:
		return fmt.Errorf("%s: unrecognised callee %q", c.fn, c.p.src(ce.Fun))
	}
	pn, isRouter := paramName(fd, idx)
	if pn == "" || !isRouter {
		return fmt.Errorf("%s: argument %d of %s is not a named *mux.Router parameter", c.fn, idx, fd.Name.Name)
	}
	qname = target.dir + "." + fd.Name.Name
	if target.dir == "." {
		qname = "main." + fd.Name.Name
	}
	if fd.Name.Name == "httpStart" {
		ok, err := servesParam(target, fd, pn)
		if err != nil {
			return err
		}
		if !ok {
			return fmt.Errorf("%s does not serve its router parameter", qname)
		}
		w.events = append(w.events, rtEvent{"serve", qname, c.cond, c.own, c.guard})
		return nil
	}
	if c.fn == "main.main" {
		w.events = append(w.events, rtEvent{"register", qname, c.cond, c.own, c.guard})
	}
	key := target.dir + ":" + fd.Name.Name
	if w.visiting[key] {
		return fmt.Errorf("recursive router flow through %s", key)
	}
	w.visiting[key] = true
	defer delete(w.visiting, key)
	c2 := rtCtx{p: target, f: file, fn: qname, param: pn, cond: c.cond, own: c.own, guard: c.guard}
	return w.walkBlock(c2, fd.Body.List)
}

// servesParam: the function's only use of its router parameter besides http.Handle("/", p) is as the handler of
// exactly one http.Serve call.
func servesParam(p *rtPkg, fd *ast.FuncDecl, param string) (bool, error) {
	serves := 0
	var bad error
	ast.Inspect(fd.Body, func(n ast.Node) bool {
		ce, ok := n.(*ast.CallExpr)
		if !ok {
			return true
		}
		se, ok := ce.Fun.(*ast.SelectorExpr)
		if !ok {
			return true
		}
		x, ok := se.X.(*ast.Ident)
		if !ok || x.Name != "http" {
			return true
		}
		switch se.Sel.Name {
		case "Serve":
			if len(ce.Args) == 2 {
				if id, ok := ce.Args[1].(*ast.Ident); ok && id.Name == param {
					serves++
					return true
				}
			}
			bad = fmt.Errorf("http.Serve with a handler other than the router parameter in %s", fd.Name.Name)
		case "ListenAndServe", "ListenAndServeTLS", "ServeTLS":
			bad = fmt.Errorf("%s in %s", se.Sel.Name, fd.Name.Name)
		}
		return true
	})
	if bad != nil {
		return false, bad
	}
	return serves == 1, nil
}

// listenSites: every place in non-test code of the module that opens an HTTP listener or creates a router
func listenSites() (listen []string, routers []string, plugins int, err error) {
	err = filepath.Walk(repo, func(path string, info os.FileInfo, e error) error {
		if e != nil {
			return e
		}
		if info.IsDir() {
			if n := info.Name(); n == ".git" || n == "node_modules" || n == "vendor" {
				return filepath.SkipDir
			}
			return nil
		}
		if !strings.HasSuffix(path, ".go") || strings.HasSuffix(path, "_test.go") {
			return nil
		}
		fset := token.NewFileSet()
		f, e := parser.ParseFile(fset, path, nil, 0)
		if e != nil {
			return nil // files that do not parse cannot be part of the build
		}
		rel, _ := filepath.Rel(repo, path)
		for _, d := range f.Decls {
			fd, ok := d.(*ast.FuncDecl)
			if !ok || fd.Body == nil {
				continue
			}
			ast.Inspect(fd.Body, func(n ast.Node) bool {
				ce, ok := n.(*ast.CallExpr)
				if !ok {
					return true
				}
				if id, ok := ce.Fun.(*ast.Ident); ok && id.Name == "RegisterRoutePlugin" {
					plugins++
				}
				se, ok := ce.Fun.(*ast.SelectorExpr)
				if !ok {
					return true
				}
				if se.Sel.Name == "RegisterRoutePlugin" {
					plugins++
				}
				x, ok := se.X.(*ast.Ident)
				if !ok {
					// (&http.Server{...}).ListenAndServe() and the like
					switch se.Sel.Name {
					case "ListenAndServe", "ListenAndServeTLS", "ServeTLS", "Serve":
						listen = append(listen, rel+":"+fd.Name.Name+":"+se.Sel.Name)
					}
					return true
				}
				switch {
				case x.Name == "http" && (se.Sel.Name == "Serve" || se.Sel.Name == "ListenAndServe" || se.Sel.Name == "ListenAndServeTLS" || se.Sel.Name == "ServeTLS"):
					listen = append(listen, rel+":"+fd.Name.Name+":http."+se.Sel.Name)
				case x.Name != "http" && (se.Sel.Name == "ListenAndServe" || se.Sel.Name == "ListenAndServeTLS" || se.Sel.Name == "ServeTLS"):
					listen = append(listen, rel+":"+fd.Name.Name+":"+se.Sel.Name)
				case x.Name == "fasthttp" && strings.HasPrefix(se.Sel.Name, "ListenAndServe"):
					listen = append(listen, rel+":"+fd.Name.Name+":fasthttp."+se.Sel.Name)
				case x.Name != "http" && se.Sel.Name == "Serve":
					listen = append(listen, rel+":"+fd.Name.Name+":"+x.Name+".Serve")
				case x.Name == "net" && strings.HasPrefix(se.Sel.Name, "Listen"):
					listen = append(listen, rel+":"+fd.Name.Name+":net."+se.Sel.Name)
				case x.Name == "mux" && se.Sel.Name == "NewRouter":
					routers = append(routers, rel+":"+fd.Name.Name)
				}
				return true
			})
		}
		return nil
	})
	sort.Strings(listen)
	sort.Strings(routers)
	return
}

// ownHttpServerAssignments: assignments to the reader's package variable ownHttpServer (besides its declaration)
func ownHttpServerAssignments(p *rtPkg) (n int, declFalse bool) {
	for _, f := range p.files {
		for _, d := range f.Decls {
			if gd, ok := d.(*ast.GenDecl); ok && gd.Tok == token.VAR {
				for _, s := range gd.Specs {
					vs := s.(*ast.ValueSpec)
					for i, nm := range vs.Names {
						if nm.Name == "ownHttpServer" {
							if i < len(vs.Values) {
								if id, ok := vs.Values[i].(*ast.Ident); ok && id.Name == "false" {
									declFalse = true
								}
							} else {
								declFalse = true
							}
						}
					}
				}
			}
		}
		ast.Inspect(f, func(x ast.Node) bool {
			switch s := x.(type) {
			case *ast.AssignStmt:
				for _, l := range s.Lhs {
					if id, ok := l.(*ast.Ident); ok && id.Name == "ownHttpServer" {
						n++
					}
				}
			case *ast.UnaryExpr:
				if s.Op == token.AND {
					if id, ok := s.X.(*ast.Ident); ok && id.Name == "ownHttpServer" {
						n += 100
					}
				}
			case *ast.IncDecStmt:
				if id, ok := s.X.(*ast.Ident); ok && id.Name == "ownHttpServer" {
					n += 100
				}
			}
			return true
		})
	}
	return
}

// template → Lean parts; variables must be whole path segments with the default pattern
func tplParts(tpl string) (string, error) {
	var parts []string
	lit := ""
	flush := func() {
		if lit != "" {
			parts = append(parts, ".lit "+leanBytes(lit))
			lit = ""
		}
	}
	for i := 0; i < len(tpl); {
		if tpl[i] == '{' {
			j := strings.IndexByte(tpl[i:], '}')
			if j < 0 {
				return "", fmt.Errorf("unbalanced { in %q", tpl)
			}
			name := tpl[i+1 : i+j]
			if strings.ContainsAny(name, ":{") {
				return "", fmt.Errorf("variable with a custom pattern in %q (not modelled)", tpl)
			}
			if i == 0 || tpl[i-1] != '/' {
				return "", fmt.Errorf("variable not at the start of a segment in %q", tpl)
			}
			if i+j+1 < len(tpl) && tpl[i+j+1] != '/' {
				return "", fmt.Errorf("variable not followed by / in %q", tpl)
			}
			flush()
			parts = append(parts, ".var")
			i += j + 1
			continue
		}
		if tpl[i] == '}' {
			return "", fmt.Errorf("unbalanced } in %q", tpl)
		}
		lit += string(tpl[i])
		i++
	}
	flush()
	return "[" + strings.Join(parts, ", ") + "]", nil
}


func init() {
	register("Routes", func() (string, error) {
		w := &rtWalker{pkgs: map[string]*rtPkg{}, facts: map[string]string{}, visiting: map[string]bool{}}
		mp, err := w.pkg(".")
		if err != nil {
			return "", err
		}
		fds, files := mp.findFuncs("main", false)
		if len(fds) != 1 {
			return "", fmt.Errorf("func main: %d declarations", len(fds))
		}
		mainFn, mainFile := fds[0], files[0]
		// the router variable: the single `x := mux.NewRouter()` at the top level of main()
		routerVar := ""
		start := -1
		for i, st := range mainFn.Body.List {
			as, ok := st.(*ast.AssignStmt)
			if !ok || as.Tok != token.DEFINE || len(as.Lhs) != 1 || len(as.Rhs) != 1 {
				continue
			}
			if mp.src(as.Rhs[0]) == "mux.NewRouter()" {
				if routerVar != "" {
					return "", fmt.Errorf("main creates more than one router")
				}
				routerVar = as.Lhs[0].(*ast.Ident).Name
				start = i
			}
		}
		if routerVar == "" {
			return "", fmt.Errorf("`x := mux.NewRouter()` not found at the top level of main()")
		}
		muxOK := false
		for _, im := range mainFile.Imports {
			if im.Path.Value == `"github.com/gorilla/mux"` && im.Name == nil {
				muxOK = true
			}
		}
		if !muxOK {
			return "", fmt.Errorf("main.go does not import github.com/gorilla/mux as mux")
		}
		for _, st := range mainFn.Body.List[:start] {
			if mentions(st, routerVar) {
				return "", fmt.Errorf("router variable used before its creation")
			}
		}
		c := rtCtx{p: mp, f: mainFile, fn: "main.main", param: routerVar}
		if err := w.walkBlock(c, mainFn.Body.List[start+1:]); err != nil {
			return "", err
		}
		listen, routers, plugins, err := listenSites()
		if err != nil {
			return "", err
		}
		rp, err := w.pkg("reader")
		if err != nil {
			return "", err
		}
		ownAssign, ownDeclFalse := ownHttpServerAssignments(rp)

		var b strings.Builder
		b.WriteString("import Qryn.Http.MainOrder\nnamespace Qryn.Gen.Routes\nopen Qryn.Http\n\n")
		evs := func(own bool) string {
			var xs []string
			for _, e := range w.events {
				if e.own != own {
					continue
				}
				switch e.kind {
				case "use":
					xs = append(xs, fmt.Sprintf(".use %s %s", leanStr(e.name), leanBool(e.cond)))
				case "register":
					xs = append(xs, fmt.Sprintf(".register %s %s", leanStr(e.name), leanBool(e.cond)))
				case "serve":
					xs = append(xs, fmt.Sprintf(".serve %s", leanStr(e.name)))
				case "hook":
					xs = append(xs, fmt.Sprintf(".hook %s", leanStr(e.name)))
				}
			}
			return "[" + strings.Join(xs, ",\n   ") + "]"
		}
		fmt.Fprintf(&b, "/-- main(): every statement after `%s := mux.NewRouter()` that touches the router, in program order,\n    followed into the functions the router is passed to (`use … true` = inside an `if`) -/\n", routerVar)
		fmt.Fprintf(&b, "def mainEvents : List Ev :=\n  %s\n\n", evs(false))
		fmt.Fprintf(&b, "/-- the events that only happen when the reader owns the HTTP server (`reader.Init(cfg, nil)`; not the all-in-one path) -/\n")
		fmt.Fprintf(&b, "def readerOwnEvents : List Ev :=\n  %s\n\n", evs(true))
		fmt.Fprintf(&b, "/-- uses of the router value that the extractor does not recognise (must be empty) -/\ndef problems : List String := %s\n", leanStrList(w.problems))
		fmt.Fprintf(&b, "def authGuard : String := %s\n", leanStr(w.authCond))
		fmt.Fprintf(&b, "def authArgs : List String := %s\n", leanStrList(w.authArgs))
		fmt.Fprintf(&b, "def readerOwnAuthGuard : String := %s\n", leanStr(w.ownAuthCond))
		fmt.Fprintf(&b, "def readerOwnAuthArgs : List String := %s\n", leanStrList(w.ownAuthArgs))
		fmt.Fprintf(&b, "/-- `mux.NewRouter()` call sites in non-test code -/\ndef routerSites : List String := %s\n", leanStrList(routers))
		fmt.Fprintf(&b, "/-- HTTP listener call sites in non-test code -/\ndef listenSites : List String := %s\n", leanStrList(listen))
		fmt.Fprintf(&b, "/-- `RegisterRoutePlugin` call sites in non-test code -/\ndef routePluginRegistrations : Nat := %d\n", plugins)
		fmt.Fprintf(&b, "/-- reader.Init creates its own router only under `if app == nil` and that is the only assignment of ownHttpServer -/\n")
		fmt.Fprintf(&b, "def readerOwnRouterOnlyWhenNil : Bool := %s\n", leanBool(w.facts["ownRouterOnlyWhenNil:reader.Init"] == "1" && ownAssign == 1 && ownDeclFalse))
		fmt.Fprintf(&b, "/-- reader.applyMiddlewares starts with `if !ownHttpServer { return }` -/\n")
		fmt.Fprintf(&b, "def readerApplyMiddlewaresGuarded : Bool := %s\n\n", leanBool(w.facts["readerApplyMiddlewaresGuarded:reader.applyMiddlewares"] == "1"))

		var rs, dyn []string
		for _, r := range w.routes {
			if r.own {
				w.problems = append(w.problems, fmt.Sprintf("route %q registered only when the reader owns the server", r.tpl))
				continue
			}
			if r.dynamic != "" {
				dyn = append(dyn, fmt.Sprintf("(%s, %s, %s)", leanStr(r.src), leanStr(r.dynamic), leanBool(r.prefix)))
				continue
			}
			parts, err := tplParts(r.tpl)
			if err != nil {
				w.problems = append(w.problems, err.Error())
				continue
			}
			rs = append(rs, fmt.Sprintf("⟨%s, %s, %s, %s, %s, %s⟩", leanBool(r.prefix), parts, leanStr(r.tpl), leanStrList(r.methods), leanStr(r.src), leanBool(r.cond)))
		}
		fmt.Fprintf(&b, "/-- the route table in registration order: (prefix?, template parts, template, methods, registering function, conditional) -/\n")
		fmt.Fprintf(&b, "def routes : List RouteSpec :=\n  [%s]\n\n", strings.Join(rs, ",\n   "))
		fmt.Fprintf(&b, "/-- routes whose path is computed at run time: (function, path expression, prefix?) -/\n")
		fmt.Fprintf(&b, "def dynamicRoutes : List (String × String × Bool) :=\n  [%s]\n\n", strings.Join(dyn, ",\n   "))
		b.WriteString("end Qryn.Gen.Routes\n")
		return b.String(), nil
	})
}
