package main

// Typed census, part 3 (L2): the receive loops of the handlers, with what can take the handler out of them.
//
// For every function under reader/controller that receives from a channel inside a loop (`for x := range ch`,
// `for { select { case x := <-ch … } }`): the natural loop in the SSA control-flow graph, whether it has an exit other
// than "the channel is closed", whether the function leaves a drain behind (a deferred function — or a goroutine it
// starts — that itself receives in a loop), the undischarged panic sites INSIDE the loop, the qryn functions reachable
// from calls inside the loop (a panic in any of them unwinds through the loop: the handler's tamePanic answers 500 and the
// producer stays blocked in its send) with their sites, and the library calls made from the loop.

import (
	"fmt"
	"go/token"
	"sort"
	"strings"

	"golang.org/x/tools/go/ssa"
)

type rtLoop struct {
	fn, id          string
	leavable        bool
	drains          bool
	sites           []rtSite // in the loop body itself
	callees         []string // qryn functions reachable from the loop body (outside their own recover)
	calleeSites     []string // "function: kind text" for every undischarged site in those
	externs         []string
}

// natural loop of a back edge tail→head
func rtNaturalLoop(head, tail *ssa.BasicBlock) map[*ssa.BasicBlock]bool {
	loop := map[*ssa.BasicBlock]bool{head: true}
	var stack []*ssa.BasicBlock
	if !loop[tail] {
		loop[tail] = true
		stack = append(stack, tail)
	}
	for len(stack) > 0 {
		b := stack[len(stack)-1]
		stack = stack[:len(stack)-1]
		for _, p := range b.Preds {
			if !loop[p] {
				loop[p] = true
				stack = append(stack, p)
			}
		}
	}
	return loop
}

// does the function (or a literal / goroutine it starts) receive from a channel inside a loop?
func rtReceivesInLoop(fn *ssa.Function, depth int) bool {
	if fn == nil || depth > 3 {
		return false
	}
	for _, b := range fn.Blocks {
		for _, in := range b.Instrs {
			if u, ok := in.(*ssa.UnOp); ok && u.Op == token.ARROW {
				// inside a cycle?
				for _, p := range b.Preds {
					if b.Dominates(p) {
						return true
					}
				}
				for _, s := range b.Succs {
					for _, p := range b.Preds {
						if s.Dominates(p) || s == b {
							return true
						}
					}
				}
				if rtInCycle(b) {
					return true
				}
			}
			if g, ok := in.(*ssa.Go); ok {
				if mc, ok := g.Call.Value.(*ssa.MakeClosure); ok {
					if f, ok := mc.Fn.(*ssa.Function); ok && rtReceivesInLoop(f, depth+1) {
						return true
					}
				}
				if f := g.Call.StaticCallee(); f != nil && rtReceivesInLoop(f, depth+1) {
					return true
				}
			}
		}
	}
	return false
}

func rtInCycle(b *ssa.BasicBlock) bool {
	seen := map[*ssa.BasicBlock]bool{}
	var stack []*ssa.BasicBlock
	stack = append(stack, b.Succs...)
	for len(stack) > 0 {
		x := stack[len(stack)-1]
		stack = stack[:len(stack)-1]
		if x == b {
			return true
		}
		if seen[x] {
			continue
		}
		seen[x] = true
		stack = append(stack, x.Succs...)
	}
	return false
}

func (w *rtWorld) handlerLoops(fns []*ssa.Function) ([]rtLoop, error) {
	var res []rtLoop
	for _, f := range fns {
		if rtPkgPath(f) != rtModule+"/reader/controller" || f.Synthetic != "" || len(f.Blocks) == 0 {
			continue
		}
		rf := w.analyse(f)
		// the function leaves a drain behind
		drains := false
		for _, b := range f.Blocks {
			for _, in := range b.Instrs {
				if d, ok := in.(*ssa.Defer); ok {
					if mc, ok := d.Call.Value.(*ssa.MakeClosure); ok {
						if cf, ok := mc.Fn.(*ssa.Function); ok && rtReceivesInLoop(cf, 0) {
							drains = true
						}
					}
					if cf := d.Call.StaticCallee(); cf != nil && rtIsQryn(cf) && rtReceivesInLoop(cf, 0) {
						drains = true
					}
				}
			}
		}
		k := 0
		seenHead := map[*ssa.BasicBlock]bool{}
		for _, hb := range f.Blocks {
			// a loop header: has a predecessor it dominates
			var loop map[*ssa.BasicBlock]bool
			for _, p := range hb.Preds {
				if hb.Dominates(p) {
					l := rtNaturalLoop(hb, p)
					if loop == nil {
						loop = l
					} else {
						for b := range l {
							loop[b] = true
						}
					}
				}
			}
			if loop == nil || seenHead[hb] {
				continue
			}
			seenHead[hb] = true
			// does the loop receive from a channel (outside nested function literals)? which?
			recv, closedExit := "", map[*ssa.BasicBlock]bool{}
			isRange := false
			for b := range loop {
				for _, in := range b.Instrs {
					switch x := in.(type) {
					case *ssa.UnOp:
						if x.Op == token.ARROW {
							t := w.chanKey(x.X)
							if strings.HasSuffix(t, "Done()") || strings.HasSuffix(t, ".C") {
								continue
							}
							recv = w.chanText(x.X, t)
							if x.CommaOk && b == hb {
								isRange = true
							}
						}
					case *ssa.Select:
						for _, st := range x.States {
							if st.Dir == 2 /* types.RecvOnly */ {
								t := w.chanKey(st.Chan)
								if strings.HasSuffix(t, "Done()") || strings.HasSuffix(t, ".C") {
									continue
								}
								recv = w.chanText(st.Chan, t)
							}
						}
					}
				}
			}
			if recv == "" {
				continue
			}
			// nested loops inside a receive loop are part of it; a loop that merely CONTAINS a receive loop is reported
			// through the inner one as well (both are listed)
			k++
			lp := rtLoop{fn: rtFnName(f), drains: drains}
			if isRange {
				lp.id = fmt.Sprintf("#%d range %s", k, recv)
				// the regular exit: the header's branch taken when the channel is closed
				for _, s := range hb.Succs {
					if !loop[s] {
						closedExit[s] = true
					}
				}
			} else {
				lp.id = fmt.Sprintf("#%d select <-%s", k, recv)
			}
			for b := range loop {
				for _, s := range b.Succs {
					if !loop[s] && !(b == hb && closedExit[s]) {
						lp.leavable = true
					}
				}
				for _, in := range b.Instrs {
					switch in.(type) {
					case *ssa.Return, *ssa.Panic:
						lp.leavable = true
					}
				}
			}
			// sites of the loop body
			for _, s := range rf.sites {
				if s.in != nil && loop[s.in.Block()] && !rtCoveredByInner(rf, s.in) {
					if p, ok := s.in.(*ssa.Panic); ok && rtSelectPanic(p) {
						continue
					}
					lp.sites = append(lp.sites, s)
				}
			}
			// what the loop body calls
			reach := map[*ssa.Function]bool{}
			var visit func(fn *ssa.Function)
			visit = func(fn *ssa.Function) {
				if reach[fn] {
					return
				}
				reach[fn] = true
				crf := w.analyse(fn)
				for _, e := range w.stackEdges(fn) {
					if e.site != ssa.Instruction(crf.recDef) && rtCoveredBy(crf, e.site) {
						continue
					}
					visit(e.callee)
				}
			}
			ext := map[string]bool{}
			for _, e := range w.stackEdges(f) {
				if loop[e.site.Block()] {
					if _, isDefer := e.site.(*ssa.Defer); isDefer {
						continue
					}
					visit(e.callee)
				}
			}
			for b := range loop {
				for _, in := range b.Instrs {
					if ci, ok := in.(ssa.CallInstruction); ok {
						for _, n := range w.externNames(f, ci) {
							ext[n] = true
						}
					}
				}
			}
			var cs []*ssa.Function
			for c := range reach {
				cs = append(cs, c)
			}
			sort.Slice(cs, func(i, j int) bool { return rtFnName(cs[i]) < rtFnName(cs[j]) })
			for _, c := range cs {
				crf := w.analyse(c)
				lp.callees = append(lp.callees, crf.name)
				for _, s := range crf.sites {
					if rtCoveredBy(crf, s.in) {
						continue
					}
					if p, ok := s.in.(*ssa.Panic); ok && rtSelectPanic(p) {
						continue
					}
					lp.calleeSites = append(lp.calleeSites, crf.name+": "+s.kind+" "+s.text)
				}
				for _, b := range c.Blocks {
					for _, in := range b.Instrs {
						if ci, ok := in.(ssa.CallInstruction); ok {
							if in != ssa.Instruction(crf.recDef) && rtCoveredBy(crf, in) {
								continue
							}
							for _, n := range w.externNames(c, ci) {
								ext[n] = true
							}
						}
					}
				}
			}
			for n := range ext {
				lp.externs = append(lp.externs, n)
			}
			sort.Strings(lp.externs)
			res = append(res, lp)
		}
	}
	if len(res) == 0 {
		return nil, fmt.Errorf("no receive loop found in reader/controller (typed)")
	}
	return res, nil
}

// a stable name for the channel a loop receives from: the source text of the variable / call, not the SSA register
func (w *rtWorld) chanText(v ssa.Value, key string) string {
	switch x := v.(type) {
	case *ssa.UnOp:
		if x.Op == token.MUL {
			return w.chanText(x.X, key)
		}
	case *ssa.Alloc:
		if x.Comment != "" {
			return x.Comment
		}
	case *ssa.FreeVar:
		return x.Name()
	case *ssa.Parameter:
		return x.Name()
	case *ssa.Phi:
		if x.Comment != "" {
			return x.Comment
		}
	case *ssa.Extract:
		if c, ok := x.Tuple.(*ssa.Call); ok {
			if f := c.Call.StaticCallee(); f != nil {
				return "result of " + f.Name()
			}
			if c.Call.IsInvoke() {
				return "result of " + c.Call.Method.Name()
			}
		}
	case *ssa.Call:
		if f := x.Call.StaticCallee(); f != nil {
			return f.Name() + "()"
		}
		if x.Call.IsInvoke() {
			return x.Call.Method.Name() + "()"
		}
	}
	return key
}

// inside the handler the recover (tamePanic) does not keep the handler IN the loop: for the loop analysis nothing is covered
func rtCoveredByInner(rf *rtFunc, in ssa.Instruction) bool { return false }

// the panic the SSA builder emits for a `select` without default whose cases are exhausted: unreachable
func rtSelectPanic(p *ssa.Panic) bool {
	if mi, ok := p.X.(*ssa.MakeInterface); ok {
		if c, ok := mi.X.(*ssa.Const); ok && c.Value != nil && strings.Contains(c.Value.ExactString(), "blocking select matched no case") {
			return true
		}
	}
	return false
}

func (r *rtResult) leanLoops() string {
	var sb strings.Builder
	sb.WriteString("/-- TYPED: every loop of reader/controller that receives from a channel: (handler, loop, it has an exit other than\n")
	sb.WriteString("    \"channel closed\", the function leaves a drain behind, panic sites inside the loop (kind, text), qryn functions reachable\n")
	sb.WriteString("    from calls inside the loop, their panic sites, library calls made from the loop and from those functions) -/\n")
	sb.WriteString("def typedHandlerLoops : List (String × String × Bool × Bool × List (String × String) × List String × List String × List String) :=\n  [")
	for i, l := range r.loops {
		if i > 0 {
			sb.WriteString(",\n   ")
		}
		var ss []string
		for _, s := range l.sites {
			ss = append(ss, fmt.Sprintf("(%s, %s)", leanStr(s.kind), leanStr(s.text)))
		}
		sb.WriteString(fmt.Sprintf("(%s, %s, %v, %v,\n    [%s],\n    %s,\n    %s,\n    %s)", leanStr(l.fn), leanStr(l.id), l.leavable, l.drains,
			strings.Join(ss, ", "), rgLeanList(l.callees), rgLeanList(l.calleeSites), rgLeanList(l.externs)))
	}
	sb.WriteString("]\n")
	return sb.String()
}
