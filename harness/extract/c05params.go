package main

// Gen.IngestParams (C05): every request header and query parameter the ingest side reads, and how.
//
//   reads       (function, kind, name) for every `X.Header.Get("N")` (kind header) and `X.URL.Query().Get("n")`
//               (kind query) in writer/controller, writer/utils/unmarshal, writer/service — receivers identified by
//               their types (http.Header, url.Values). A name that is not a string constant fails the extraction.
//   ttlParse    the arguments of the strconv call that parses X-Ttl-Days: (function, base, bit size), and what the code
//               does on an error ("keep 0": the `if err == nil` form)
//   asyncCases  the `switch` of getAsyncMode: (header value, constant name) + the default
//   precisionCases  the `switch strPrecision` of PushInfluxV2: (value, time constant), the default status, the value an
//               empty parameter is replaced by
//   profileRequired  the query parameters PushProfileV2 refuses to be empty, in source order
//   ddsourceDefault  what an empty `ddsource` becomes
//   parserKeys  per handler constructor the Content-Type prefixes of its parsers (from the Build options)
//
// go/types throughout (c05typed.go). Fails closed on every shape it does not recognise.

import (
	"fmt"
	"go/ast"
	"go/constant"
	"go/token"
	"go/types"
	"sort"
	"strings"
)

func c5RecvIs(info *types.Info, e ast.Expr, pkg, name string) bool {
	t := info.TypeOf(e)
	if t == nil {
		return false
	}
	if p, ok := t.(*types.Pointer); ok {
		t = p.Elem()
	}
	n, ok := t.(*types.Named)
	return ok && n.Obj().Pkg() != nil && n.Obj().Pkg().Path() == pkg && n.Obj().Name() == name
}

func c5ConstStr(info *types.Info, e ast.Expr) (string, bool) {
	if tv, ok := info.Types[e]; ok && tv.Value != nil && tv.Value.Kind() == constant.String {
		return constant.StringVal(tv.Value), true
	}
	return "", false
}

func init() {
	register("IngestParams", func() (string, error) {
		pr, err := c5Load()
		if err != nil {
			return "", err
		}
		var reads []string
		var ferr error
		var ttl, async, prec, profReq []string
		asyncDefault, precDefault, precEmpty, ddDefault, ttlOnErr := "", "", "", "", ""
		for _, p := range pr.pkgs {
			if _, bad := pr.broken[p]; bad {
				continue
			}
			rel := strings.TrimPrefix(p.PkgPath, c5ModPath)
			if rel != "writer/controller" && rel != "writer/utils/unmarshal" && !strings.HasPrefix(rel, "writer/service") {
				continue
			}
			info := p.TypesInfo
			for _, f := range p.Syntax {
				if strings.HasSuffix(pr.rel(f.Pos()), "_test.go") {
					continue
				}
				for _, d := range f.Decls {
					label := ""
					switch x := d.(type) {
					case *ast.FuncDecl:
						label = c5DeclLabel(p, x)
					case *ast.GenDecl:
						label = p.Name + ".init"
						if x.Tok == token.VAR && len(x.Specs) == 1 {
							if vs, ok := x.Specs[0].(*ast.ValueSpec); ok && len(vs.Names) == 1 {
								label = p.Name + "." + vs.Names[0].Name
							}
						}
					}
					ast.Inspect(d, func(n ast.Node) bool {
						call, ok := n.(*ast.CallExpr)
						if !ok {
							return true
						}
						sel, ok := call.Fun.(*ast.SelectorExpr)
						if !ok {
							return true
						}
						if sel.Sel.Name == "Get" && len(call.Args) == 1 {
							kind := ""
							if c5RecvIs(info, sel.X, "net/http", "Header") {
								kind = "header"
							} else if c5RecvIs(info, sel.X, "net/url", "Values") {
								kind = "query"
							}
							if kind != "" {
								name, ok := c5ConstStr(info, call.Args[0])
								if !ok {
									if ferr == nil {
										ferr = fmt.Errorf("%s: a %s read with a name that is not a string constant: %s", label, kind, c5Text(call))
									}
									return true
								}
								reads = append(reads, fmt.Sprintf("(%s, %s, %s)", leanStr(label), leanStr(kind), leanStr(name)))
							}
						}
						return true
					})
				}
			}
			if rel != "writer/controller" {
				continue
			}
			// ---- X-Ttl-Days: strconv.ParseUint(strTTLDays, 10, 16) / `if err == nil { TTLDays = … }`
			if init := c5VarInit(p, "WithOverallContextMiddleware"); init != nil {
				ast.Inspect(init, func(n ast.Node) bool {
					as, ok := n.(*ast.AssignStmt)
					if !ok || len(as.Rhs) != 1 {
						return true
					}
					call, ok := as.Rhs[0].(*ast.CallExpr)
					if !ok || !strings.HasPrefix(c5Text(call.Fun), "strconv.Parse") || len(call.Args) != 3 {
						return true
					}
					b, ok1 := constant.Int64Val(constant.ToInt(info.Types[call.Args[1]].Value))
					s, ok2 := constant.Int64Val(constant.ToInt(info.Types[call.Args[2]].Value))
					if !ok1 || !ok2 {
						ferr = fmt.Errorf("WithOverallContextMiddleware: base / bit size of %s are not constants", c5Text(call))
						return true
					}
					ttl = append(ttl, fmt.Sprintf("(%s, %d, %d)", leanStr(c5Text(call.Fun)), b, s))
					return true
				})
				ast.Inspect(init, func(n ast.Node) bool {
					is, ok := n.(*ast.IfStmt)
					if ok && c5Text(is.Cond) == "err == nil" && is.Else == nil && len(is.Body.List) == 1 && strings.HasPrefix(c5Text(is.Body.List[0]), "TTLDays = uint16(") {
						ttlOnErr = "keep 0"
					}
					return true
				})
			}
			// ---- getAsyncMode
			for fn, d := range pr.declOf {
				if d.pkg != p {
					continue
				}
				switch fn.Name() {
				case "getAsyncMode":
					ast.Inspect(d.fd.Body, func(n ast.Node) bool {
						sw, ok := n.(*ast.SwitchStmt)
						if !ok {
							return true
						}
						for _, c := range sw.Body.List {
							cc := c.(*ast.CaseClause)
							if len(cc.Body) != 1 {
								ferr = fmt.Errorf("getAsyncMode: a case that is not a single return")
								continue
							}
							rs, ok := cc.Body[0].(*ast.ReturnStmt)
							if !ok || len(rs.Results) != 1 {
								ferr = fmt.Errorf("getAsyncMode: a case that is not a single return")
								continue
							}
							v, ok := constant.Int64Val(constant.ToInt(info.Types[rs.Results[0]].Value))
							if !ok {
								ferr = fmt.Errorf("getAsyncMode: a case returning a non-constant")
								continue
							}
							if cc.List == nil {
								asyncDefault = fmt.Sprint(v)
								continue
							}
							for _, e := range cc.List {
								s, ok := c5ConstStr(info, e)
								if !ok {
									ferr = fmt.Errorf("getAsyncMode: a case value that is not a string constant")
									continue
								}
								async = append(async, fmt.Sprintf("(%s, %d)", leanStr(s), v))
							}
						}
						return false
					})
				case "PushInfluxV2":
					ast.Inspect(d.fd.Body, func(n ast.Node) bool {
						switch x := n.(type) {
						case *ast.IfStmt:
							if c5Text(x.Cond) == `strPrecision == ""` && len(x.Body.List) == 1 {
								if as, ok := x.Body.List[0].(*ast.AssignStmt); ok && len(as.Rhs) == 1 {
									if s, ok := c5ConstStr(info, as.Rhs[0]); ok {
										precEmpty = s
									}
								}
							}
						case *ast.SwitchStmt:
							if x.Tag == nil || c5Text(x.Tag) != "strPrecision" {
								return true
							}
							for _, c := range x.Body.List {
								cc := c.(*ast.CaseClause)
								if cc.List == nil {
									// default: return nil, custom_errors.New400Error(…)
									txt := c5Text(&ast.BlockStmt{List: cc.Body})
									switch {
									case strings.Contains(txt, "New400Error"):
										precDefault = "400"
									default:
										ferr = fmt.Errorf("PushInfluxV2: the default of the precision switch is not a 400 error: %s", txt)
									}
									continue
								}
								if len(cc.Body) != 1 {
									ferr = fmt.Errorf("PushInfluxV2: a precision case that is not one assignment")
									continue
								}
								as, ok := cc.Body[0].(*ast.AssignStmt)
								if !ok || len(as.Rhs) != 1 {
									ferr = fmt.Errorf("PushInfluxV2: a precision case that is not one assignment")
									continue
								}
								v, ok := constant.Int64Val(constant.ToInt(info.Types[as.Rhs[0]].Value))
								if !ok {
									ferr = fmt.Errorf("PushInfluxV2: a precision that is not a constant duration")
									continue
								}
								for _, e := range cc.List {
									s, ok := c5ConstStr(info, e)
									if !ok {
										ferr = fmt.Errorf("PushInfluxV2: a precision case value that is not a string constant")
										continue
									}
									prec = append(prec, fmt.Sprintf("(%s, %d)", leanStr(s), v))
								}
							}
							return false
						}
						return true
					})
				case "PushProfileV2":
					// `x := req.URL.Query().Get("n"); if x == "" { return nil, errors.New(…) }`
					vars := map[string]string{}
					ast.Inspect(d.fd.Body, func(n ast.Node) bool {
						switch x := n.(type) {
						case *ast.AssignStmt:
							if len(x.Lhs) == 1 && len(x.Rhs) == 1 {
								if call, ok := x.Rhs[0].(*ast.CallExpr); ok && len(call.Args) == 1 {
									if sel, ok := call.Fun.(*ast.SelectorExpr); ok && sel.Sel.Name == "Get" && c5RecvIs(info, sel.X, "net/url", "Values") {
										if s, ok := c5ConstStr(info, call.Args[0]); ok {
											vars[c5Text(x.Lhs[0])] = s
										}
									}
								}
							}
						case *ast.IfStmt:
							if be, ok := x.Cond.(*ast.BinaryExpr); ok && be.Op == token.EQL && c5Text(be.Y) == `""` && c5Terminates(x.Body) {
								if nm, ok := vars[c5Text(be.X)]; ok {
									profReq = append(profReq, leanStr(nm))
								}
							}
						}
						return true
					})
				case "PushDatadogV2", "PushCfDatadogV2":
					ast.Inspect(d.fd.Body, func(n ast.Node) bool {
						is, ok := n.(*ast.IfStmt)
						if ok && c5Text(is.Cond) == `ddsource == ""` && len(is.Body.List) == 1 {
							if as, ok := is.Body.List[0].(*ast.AssignStmt); ok && len(as.Rhs) == 1 {
								if s, ok := c5ConstStr(info, as.Rhs[0]); ok {
									if ddDefault != "" && ddDefault != s {
										ferr = fmt.Errorf("the two Datadog handlers replace an empty ddsource by different values")
									}
									ddDefault = s
								}
							}
						}
						return true
					})
				}
			}
		}
		if ferr != nil {
			return "", ferr
		}
		if len(ttl) != 1 || ttlOnErr == "" {
			return "", fmt.Errorf("WithOverallContextMiddleware: the X-Ttl-Days parse (`strconv.Parse…(…, base, bits)` + `if err == nil { TTLDays = uint16(…) }`) not recognised (%d calls)", len(ttl))
		}
		if len(async) == 0 || asyncDefault == "" {
			return "", fmt.Errorf("getAsyncMode: switch not recognised")
		}
		if len(prec) == 0 || precDefault == "" || precEmpty == "" {
			return "", fmt.Errorf("PushInfluxV2: precision handling not recognised")
		}
		if len(profReq) == 0 {
			return "", fmt.Errorf("PushProfileV2: required query parameters not recognised")
		}
		if ddDefault == "" {
			return "", fmt.Errorf("Datadog handlers: default of ddsource not recognised")
		}
		sort.Strings(reads)
		var sb strings.Builder
		sb.WriteString("namespace Qryn.Gen.IngestParams\n")
		sb.WriteString("/-- every header / query-parameter read of writer/controller, writer/utils/unmarshal, writer/service: (function, kind, name) -/\n")
		sb.WriteString("def reads : List (String × String × String) :=\n  [" + strings.Join(reads, ",\n   ") + "]\n")
		sb.WriteString("/-- the strconv call parsing X-Ttl-Days: (function, base, bit size) -/\n")
		sb.WriteString("def ttlParse : String × Nat × Nat := " + ttl[0] + "\n")
		sb.WriteString("def ttlOnError : String := " + leanStr(ttlOnErr) + "\n")
		sb.WriteString("/-- getAsyncMode: (value of X-Async-Insert, insert mode) and the default -/\n")
		sb.WriteString("def asyncCases : List (String × Nat) := [" + strings.Join(async, ", ") + "]\n")
		sb.WriteString("def asyncDefault : Nat := " + asyncDefault + "\n")
		sb.WriteString("/-- PushInfluxV2: (value of ?precision=, nanoseconds per unit), the status of any other value, what an empty value is read as -/\n")
		sb.WriteString("def precisionCases : List (String × Nat) := [" + strings.Join(prec, ", ") + "]\n")
		sb.WriteString("def precisionDefaultStatus : Nat := " + precDefault + "\n")
		sb.WriteString("def precisionEmpty : String := " + leanStr(precEmpty) + "\n")
		sb.WriteString("/-- PushProfileV2: query parameters that must not be empty, in the order they are checked -/\n")
		sb.WriteString("def profileRequired : List String := [" + strings.Join(profReq, ", ") + "]\n")
		sb.WriteString("def ddsourceDefault : String := " + leanStr(ddDefault) + "\n")
		sb.WriteString("end Qryn.Gen.IngestParams\n")
		return sb.String(), nil
	})
}
