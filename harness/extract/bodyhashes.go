package main

// Gen.BodyHashes (C05): for every function of the ingest side in which fault sites were placed by hand in
// lean/Qryn/Ingest/Faults.lean, a hash of its body as it is in /repo now. The theorems do not depend on the
// hashes; `Qryn.Ingest.stalePlacements` compares them with the hashes recorded when the placement was made
// (lean/Qryn/Ingest/FaultPlacement.lean) and the C05 check multiplies the exploration quota of the decoder
// groups whose functions changed, and says so in the evidence. A listed function that no longer exists is a
// failed obligation (fail closed): the placement talks about code that is gone.

import (
	"bytes"
	"crypto/sha256"
	"encoding/hex"
	"fmt"
	"go/ast"
	"go/printer"
	"go/token"
	"strings"
)

type placedFn struct {
	file  string
	recv  string // receiver type without *, "" for a function, "var" for a package-level `var name = func…`
	name  string
	group string // decoder group whose exploration quota a change boosts; "common" boosts all
}

var placedFns = []placedFn{
	// handler side
	{"writer/controller/builder.go", "", "doPush", "common"},
	{"writer/controller/builder.go", "", "doParse", "common"},
	{"writer/controller/builder.go", "", "getService", "common"},
	{"writer/controller/builder.go", "", "getBodyStream", "common"},
	{"writer/controller/builder.go", "", "ErrorHandler", "common"},
	{"writer/controller/builder.go", "", "Build", "common"},
	{"writer/controller/builder.go", "PusherCtx", "Do", "common"},
	{"writer/controller/builder.go", "PusherCtx", "DoParse", "common"},
	{"writer/controller/middleware.go", "var", "withUnsnappyRequest", "common"},
	{"writer/controller/middleware.go", "var", "WithOverallContextMiddleware", "common"},
	{"writer/controller/middleware.go", "var", "withTSAndSampleService", "common"},
	{"writer/controller/middleware.go", "var", "withTracesService", "common"},
	{"writer/controller/middleware.go", "", "withSimpleParser", "common"},
	{"writer/controller/middleware.go", "", "withComplexParser", "common"},
	{"writer/controller/middleware.go", "", "withParserContext", "common"},
	{"writer/controller/insertController.go", "", "PushStreamV2", "loki"},
	{"writer/controller/insertController.go", "", "PushInfluxV2", "influx"},
	{"writer/controller/insertController.go", "", "OTLPLogsV2", "otlplogs"},
	{"writer/controller/tempoController.go", "", "PushV2", "zipkin"},
	{"writer/controller/tempoController.go", "", "OTLPPushV2", "otlptraces"},
	{"writer/controller/profileController.go", "", "PushProfileV2", "profile"},
	{"writer/controller/promController.go", "", "WriteStreamV2", "prom"},
	{"writer/controller/elasticController.go", "", "TargetDocV2", "elastic"},
	{"writer/controller/elasticController.go", "", "TargetBulkV2", "elastic"},
	// parser goroutine: builder
	{"writer/utils/unmarshal/builder.go", "parserDoer", "Do", "common"},
	{"writer/utils/unmarshal/builder.go", "parserDoer", "doParseProfile", "profile"},
	{"writer/utils/unmarshal/builder.go", "parserDoer", "doParseLogs", "common"},
	{"writer/utils/unmarshal/builder.go", "parserDoer", "doParseSpans", "common"},
	{"writer/utils/unmarshal/builder.go", "parserDoer", "tamePanic", "common"},
	{"writer/utils/unmarshal/builder.go", "parserDoer", "onProfile", "profile"},
	{"writer/utils/unmarshal/builder.go", "parserDoer", "calculateProfileSize", "profile"},
	{"writer/utils/unmarshal/builder.go", "parserDoer", "onEntries", "common"},
	{"writer/utils/unmarshal/builder.go", "parserDoer", "onSpan", "common"},
	{"writer/utils/unmarshal/builder.go", "parserDoer", "maybeAddFp", "common"},
	{"writer/utils/unmarshal/builder.go", "", "validUTF8Labels", "common"},
	{"writer/utils/unmarshal/builder.go", "", "Build", "common"},
	{"writer/utils/unmarshal/builder.go", "var", "withBufferedBody", "common"},
	{"writer/utils/unmarshal/builder.go", "", "withParsedBody", "common"},
	{"writer/utils/unmarshal/shared.go", "", "fastFillArray", "common"},
	{"writer/utils/unmarshal/shared.go", "timeSeriesAndSamples", "flush", "common"},
	// decoders
	{"writer/utils/unmarshal/unmarshal.go", "pushRequestDec", "Decode", "loki"},
	{"writer/utils/unmarshal/unmarshal.go", "pushRequestDec", "decodeStream", "loki"},
	{"writer/utils/unmarshal/unmarshal.go", "pushRequestDec", "decodeStreamStream", "loki"},
	{"writer/utils/unmarshal/unmarshal.go", "pushRequestDec", "decodeStreamLabels", "loki"},
	{"writer/utils/unmarshal/unmarshal.go", "pushRequestDec", "decodeStreamValue", "loki"},
	{"writer/utils/unmarshal/unmarshal.go", "pushRequestDec", "decodeStreamEntry", "loki"},
	{"writer/utils/unmarshal/unmarshal.go", "", "parseLabelsLokiFormat", "loki"},
	{"writer/utils/unmarshal/unmarshal.go", "", "sanitizeLabels", "common"},
	{"writer/utils/unmarshal/unmarshal.go", "", "fingerprintLabels", "common"},
	{"writer/utils/unmarshal/unmarshal.go", "", "encodeLabels", "common"},
	{"writer/utils/unmarshal/logsProtobuf.go", "logsProtoDec", "Decode", "loki"},
	{"writer/utils/unmarshal/metricsProtobuf.go", "promMetricsProtoDec", "Decode", "prom"},
	{"writer/utils/unmarshal/influxUnmarshal.go", "influxDec", "Decode", "influx"},
	{"writer/utils/unmarshal/influxUnmarshal.go", "", "getMessage", "influx"},
	{"writer/utils/unmarshal/otlplogs.go", "otlpLogDec", "Decode", "otlplogs"},
	{"writer/utils/unmarshal/otlplogs.go", "otlpLogDec", "initAttributesMap", "otlplogs"},
	{"writer/utils/unmarshal/otlplogs.go", "otlpLogDec", "writeAttrValue", "otlplogs"},
	{"writer/utils/unmarshal/otlplogs.go", "", "SanitizeValue", "otlplogs"},
	{"writer/utils/unmarshal/otlplogs.go", "", "SanitizeKey", "otlplogs"},
	{"writer/utils/unmarshal/zipkinJsonUnmarshal.go", "zipkinDecoderV2", "Decode", "zipkin"},
	{"writer/utils/unmarshal/zipkinJsonUnmarshal.go", "zipkinDecoderV2", "decodeSpan", "zipkin"},
	{"writer/utils/unmarshal/zipkinJsonUnmarshal.go", "zipkinDecoderV2", "decodeHexStr", "zipkin"},
	{"writer/utils/unmarshal/zipkinJsonUnmarshal.go", "zipkinDecoderV2", "parseTags", "zipkin"},
	{"writer/utils/unmarshal/zipkinJsonUnmarshal.go", "zipkinDecoderV2", "parseEndpoint", "zipkin"},
	{"writer/utils/unmarshal/zipkinJsonUnmarshal.go", "zipkinDecoderV2", "stringOrInt64", "zipkin"},
	{"writer/utils/unmarshal/zipkinJsonUnmarshal.go", "zipkinNDDecoderV2", "Decode", "zipkin"},
	{"writer/utils/unmarshal/otlpUnmarshal.go", "OTLPDecoder", "Decode", "otlptraces"},
	{"writer/utils/unmarshal/otlpUnmarshal.go", "OTLPDecoder", "writeAttrValue", "otlptraces"},
	{"writer/utils/unmarshal/otlpUnmarshal.go", "OTLPDecoder", "initAttributesMap", "otlptraces"},
	{"writer/utils/unmarshal/otlpUnmarshal.go", "", "otlpGetServiceNames", "otlptraces"},
	{"writer/utils/unmarshal/otlpUnmarshal.go", "", "populateServiceNames", "otlptraces"},
	{"writer/utils/unmarshal/otlpUnmarshal.go", "", "getOtlpAttr", "otlptraces"},
	{"writer/utils/unmarshal/otlpUnmarshal.go", "", "otlpAttrIdx", "otlptraces"},
	{"writer/utils/unmarshal/golangPprof.go", "pProfProtoDec", "Decode", "profile"},
	{"writer/utils/unmarshal/golangPprof.go", "Decompressor", "Decompress", "profile"},
	{"writer/utils/unmarshal/golangPprof.go", "Decompressor", "readBytes", "profile"},
	{"writer/utils/unmarshal/golangPprof.go", "", "Parse", "profile"},
	{"writer/utils/unmarshal/golangPprof.go", "", "calculateSumAndCount", "profile"},
	{"writer/utils/unmarshal/golangPprof.go", "", "postProcessProf", "profile"},
	{"writer/utils/unmarshal/golangPprof.go", "", "processMIMEData", "profile"},
	{"writer/utils/unmarshal/golangPprof.go", "", "findBoundary", "profile"},
	{"writer/utils/unmarshal/binaryPprof.go", "binaryStreamPProfProtoDec", "Decode", "profile"},
	{"writer/utils/unmarshal/binaryPprof.go", "", "ns", "profile"},
	{"writer/utils/unmarshal/elasticUnmarshal.go", "ElasticUnmarshal", "Decode", "elastic"},
	{"writer/utils/unmarshal/elasticUnmarshal.go", "elasticBulkDec", "Decode", "elastic"},
	{"writer/utils/unmarshal/elasticUnmarshal.go", "elasticBulkDec", "decodeLine", "elastic"},
	{"writer/utils/unmarshal/elasticUnmarshal.go", "elasticBulkDec", "decodeCreateObj", "elastic"},
	// detached goroutine (doPush) and the insert services below it
	{"writer/service/genericInsertService.go", "InsertServiceV2", "Request", "common"},
	{"writer/service/genericInsertService.go", "InsertServiceV2", "swapBuffers", "common"},
	{"writer/service/genericInsertService.go", "InsertServiceV2", "fetchLoopIteration", "common"},
	{"writer/service/genericInsertService.go", "InsertServiceV2", "Run", "common"},
	{"writer/service/genericInsertService.go", "InsertServiceV2RoundRobin", "Request", "common"},
	{"writer/service/genericInsertService.go", "InsertServiceV2Multimodal", "Request", "common"},
	{"writer/service/colAdaptors.go", "FixedStrAdaptor", "AppendArr", "tempo"},
	{"writer/service/impl/tempoInsertService.go", "", "NewTempoSamplesInsertService", "tempo"},
	{"writer/service/impl/tempoInsertService.go", "", "NewTempoTagsInsertService", "tempo"},
	{"writer/service/impl/tempoInsertService.go", "", "checkIdSizes", "tempo"},
	{"writer/service/impl/tempoInsertService.go", "tempoSamplesAcquirer", "fromIFace", "tempo"},
	{"writer/service/impl/tempoInsertService.go", "tempoTagsAcquirer", "fromIFace", "tempo"},
	{"writer/service/impl/samplesInsertService.go", "", "NewSamplesInsertService", "common"},
	{"writer/service/impl/timeSeriesInsertService.go", "", "NewTimeSeriesInsertService", "common"},
	{"writer/service/impl/profileInsertService.go", "", "NewProfileSamplesInsertService", "profile"},
}

func findVarValue(f *ast.File, name string) ast.Expr {
	for _, d := range f.Decls {
		gd, ok := d.(*ast.GenDecl)
		if !ok || gd.Tok != token.VAR {
			continue
		}
		for _, s := range gd.Specs {
			vs := s.(*ast.ValueSpec)
			for i, n := range vs.Names {
				if n.Name == name && i < len(vs.Values) {
					return vs.Values[i]
				}
			}
		}
	}
	return nil
}

// hashNode prints the node without comments (gofmt layout) and hashes the text.
func hashNode(fset *token.FileSet, n ast.Node) (string, error) {
	var buf bytes.Buffer
	cfg := printer.Config{Mode: printer.RawFormat, Tabwidth: 1}
	if err := cfg.Fprint(&buf, fset, n); err != nil {
		return "", err
	}
	// the printer drops free-floating comments of a sub-node; normalise runs of white space as well
	text := strings.Join(strings.Fields(buf.String()), " ")
	sum := sha256.Sum256([]byte(text))
	return hex.EncodeToString(sum[:8]), nil
}

func placedKey(p placedFn) string {
	switch p.recv {
	case "":
		return p.file + ":" + p.name
	case "var":
		return p.file + ":var " + p.name
	}
	return p.file + ":" + p.recv + "." + p.name
}

func init() {
	register("BodyHashes", func() (string, error) {
		type parsed struct {
			fset *token.FileSet
			f    *ast.File
		}
		files := map[string]parsed{}
		var b strings.Builder
		b.WriteString("namespace Qryn.Gen\n\n")
		b.WriteString("/-- (function, decoder group, hash of the body in /repo now) for every function in which C05/C12 fault sites were placed by hand -/\n")
		b.WriteString("def bodyHashes : List (String × String × String) := [\n")
		for i, p := range placedFns {
			pf, ok := files[p.file]
			if !ok {
				fset, f, err := parseFile(p.file)
				if err != nil {
					return "", fmt.Errorf("%s: %v", p.file, err)
				}
				// comments must not influence the hash
				f.Comments = nil
				pf = parsed{fset, f}
				files[p.file] = pf
			}
			var node ast.Node
			if p.recv == "var" {
				if v := findVarValue(pf.f, p.name); v != nil {
					node = v
				}
			} else if fd := findFunc(pf.f, p.recv, p.name); fd != nil && fd.Body != nil {
				node = fd.Body
			}
			if node == nil {
				return "", fmt.Errorf("%s: fault sites were placed in this function, which no longer exists", placedKey(p))
			}
			hsh, err := hashNode(pf.fset, node)
			if err != nil {
				return "", fmt.Errorf("%s: %v", placedKey(p), err)
			}
			sep := ","
			if i == len(placedFns)-1 {
				sep = ""
			}
			fmt.Fprintf(&b, "  (%s, %s, %s)%s\n", leanStr(placedKey(p)), leanStr(p.group), leanStr(hsh), sep)
		}
		b.WriteString("]\n\nend Qryn.Gen\n")
		return b.String(), nil
	})
}
