package main

// Gen.BatcherAlias (C01/C02): which backing arrays the promise bookkeeping of InsertServiceV2 shares between the open
// batch (svc.results) and the portion whose INSERT is in flight. Three facts of writer/service/genericInsertService.go:
//
//   afterSwap   what swapBuffers assigns to svc.results after saving it: nil | a fresh array | a re-slice of the OLD
//               array (`results[:0]`, `svc.results[:0]`)
//   portionRes  the `res` of the requestPortion it returns: the saved slice itself (moved) or a copy made in the hold
//   release     what fetchLoopIteration's releaseWaiting ranges over: a local copy `append([]T{}, portion.res...)`
//               made before client.Do, or portion.res itself
//
// Fails closed: any other statement that mentions svc.results in swapBuffers, any other shape of the assignment, of the
// returned portion, of releaseWaiting, or a write through portion.res in fetchLoopIteration is a GENFAIL.

import (
	"fmt"
	"go/ast"
	"go/token"
	"strings"
)

func init() { register("BatcherAlias", genBatcherAlias) }

// c02IsCopyOf: `append([]T{}, <src>...)`
func c02IsCopyOf(e ast.Expr, src string) bool {
	call, ok := e.(*ast.CallExpr)
	if !ok || len(call.Args) != 2 || !call.Ellipsis.IsValid() {
		return false
	}
	if id, ok := call.Fun.(*ast.Ident); !ok || id.Name != "append" {
		return false
	}
	cl, ok := call.Args[0].(*ast.CompositeLit)
	if !ok || len(cl.Elts) != 0 {
		return false
	}
	if _, ok := cl.Type.(*ast.ArrayType); !ok {
		return false
	}
	return exprTextNoPos(call.Args[1]) == src
}

func genBatcherAlias() (string, error) {
	_, f, err := parseFile("writer/service/genericInsertService.go")
	if err != nil {
		return "", err
	}
	swap := findFunc(f, "InsertServiceV2", "swapBuffers")
	iter := findFunc(f, "InsertServiceV2", "fetchLoopIteration")
	if swap == nil || iter == nil || swap.Body == nil || iter.Body == nil {
		return "", fmt.Errorf("InsertServiceV2.swapBuffers / fetchLoopIteration not found")
	}
	if len(swap.Recv.List[0].Names) != 1 || len(iter.Recv.List[0].Names) != 1 {
		return "", fmt.Errorf("swapBuffers / fetchLoopIteration without a receiver name")
	}

	// ---- swapBuffers
	r := swap.Recv.List[0].Names[0].Name
	field := r + ".results"
	saved, portionRes, afterSwap, assignTxt, saveTxt := "", "", "", "", ""
	var retTxt string
	for _, s := range swap.Body.List {
		txt := exprTextNoPosStmt(s)
		if !strings.Contains(txt, field) && !strings.Contains(txt, "requestPortion{") {
			continue
		}
		switch st := s.(type) {
		case *ast.AssignStmt:
			if len(st.Lhs) != 1 || len(st.Rhs) != 1 {
				return "", fmt.Errorf("swapBuffers: unrecognised statement on %s: `%s`", field, txt)
			}
			l := exprTextNoPos(st.Lhs[0])
			switch {
			case st.Tok == token.DEFINE && exprTextNoPos(st.Rhs[0]) == field:
				if saved != "" {
					return "", fmt.Errorf("swapBuffers saves %s twice", field)
				}
				saved, portionRes, saveTxt = l, ".moved", txt
			case st.Tok == token.DEFINE && c02IsCopyOf(st.Rhs[0], field):
				if saved != "" {
					return "", fmt.Errorf("swapBuffers saves %s twice", field)
				}
				saved, portionRes, saveTxt = l, ".copied", txt
			case st.Tok == token.ASSIGN && l == field:
				if afterSwap != "" {
					return "", fmt.Errorf("swapBuffers assigns %s twice", field)
				}
				if saved == "" {
					return "", fmt.Errorf("swapBuffers replaces %s before saving it: `%s`", field, txt)
				}
				assignTxt = txt
				switch e := st.Rhs[0].(type) {
				case *ast.Ident:
					if e.Name != "nil" {
						return "", fmt.Errorf("swapBuffers: unrecognised new value of %s: `%s`", field, txt)
					}
					afterSwap = ".nil"
				case *ast.CallExpr:
					if id, ok := e.Fun.(*ast.Ident); !ok || id.Name != "make" {
						return "", fmt.Errorf("swapBuffers: unrecognised new value of %s: `%s`", field, txt)
					}
					afterSwap = ".fresh"
				case *ast.CompositeLit:
					if _, ok := e.Type.(*ast.ArrayType); !ok || len(e.Elts) != 0 {
						return "", fmt.Errorf("swapBuffers: unrecognised new value of %s: `%s`", field, txt)
					}
					afterSwap = ".fresh"
				case *ast.SliceExpr:
					base := exprTextNoPos(e.X)
					zero := func(x ast.Expr) bool { return x == nil || exprTextNoPos(x) == "0" }
					if !(base == field || (base == saved && portionRes == ".moved")) || !zero(e.Low) || e.High == nil || exprTextNoPos(e.High) != "0" || e.Slice3 {
						return "", fmt.Errorf("swapBuffers: unrecognised new value of %s: `%s`", field, txt)
					}
					afterSwap = ".reslice" // the array that was just handed to the flusher, length 0
				default:
					return "", fmt.Errorf("swapBuffers: unrecognised new value of %s: `%s`", field, txt)
				}
			default:
				return "", fmt.Errorf("swapBuffers: unrecognised statement on %s: `%s`", field, txt)
			}
		case *ast.ReturnStmt:
			if !strings.Contains(txt, "requestPortion{") {
				return "", fmt.Errorf("swapBuffers: unrecognised statement on %s: `%s`", field, txt)
			}
			retTxt = txt
			if len(st.Results) != 2 {
				return "", fmt.Errorf("swapBuffers: unrecognised return `%s`", txt)
			}
			ue, ok := st.Results[0].(*ast.UnaryExpr)
			if !ok {
				return "", fmt.Errorf("swapBuffers: unrecognised return `%s`", txt)
			}
			cl, ok := ue.X.(*ast.CompositeLit)
			if !ok {
				return "", fmt.Errorf("swapBuffers: unrecognised return `%s`", txt)
			}
			res := ""
			for i, el := range cl.Elts {
				if kv, ok := el.(*ast.KeyValueExpr); ok {
					if exprTextNoPos(kv.Key) == "res" {
						res = exprTextNoPos(kv.Value)
					}
				} else if i == 1 { // requestPortion{cols, res, size}
					res = exprTextNoPos(el)
				}
			}
			if res == "" || res != saved {
				return "", fmt.Errorf("swapBuffers returns `%s`: its res is not the local that saved %s (%q)", txt, field, saved)
			}
		default:
			return "", fmt.Errorf("swapBuffers: unrecognised statement on %s: `%s`", field, txt)
		}
	}
	if saved == "" || afterSwap == "" || retTxt == "" {
		return "", fmt.Errorf("swapBuffers: %s is not saved / replaced / returned in a requestPortion", field)
	}
	// the order of the fields of requestPortion (the positional literal above relies on it)
	okOrder := false
	ast.Inspect(f, func(n ast.Node) bool {
		ts, ok := n.(*ast.TypeSpec)
		if !ok || ts.Name.Name != "requestPortion" {
			return true
		}
		if st, ok := ts.Type.(*ast.StructType); ok {
			var names []string
			for _, fl := range st.Fields.List {
				for _, nm := range fl.Names {
					names = append(names, nm.Name)
				}
			}
			okOrder = strings.Join(names, ",") == "cols,res,size"
		}
		return false
	})
	if !okOrder {
		return "", fmt.Errorf("type requestPortion is not {cols, res, size}")
	}

	// ---- fetchLoopIteration
	copyLocal, copyTxt, relTxt, release := "", "", "", ""
	sawDo, sawRelease := false, false
	for _, s := range iter.Body.List {
		txt := exprTextNoPosStmt(s)
		if strings.Contains(txt, ".client.Do(") {
			sawDo = true
		}
		if txt == "releaseWaiting(err)" {
			if !sawDo {
				return "", fmt.Errorf("fetchLoopIteration releases the waiting promises before client.Do")
			}
			sawRelease = true
			continue
		}
		if !strings.Contains(txt, "portion.res") && !strings.Contains(txt, "releaseWaiting") && (copyLocal == "" || !strings.Contains(txt, copyLocal)) {
			continue
		}
		as, ok := s.(*ast.AssignStmt)
		if !ok || len(as.Lhs) != 1 || len(as.Rhs) != 1 || as.Tok != token.DEFINE {
			return "", fmt.Errorf("fetchLoopIteration: unrecognised statement on the waiting promises: `%s`", txt)
		}
		l := exprTextNoPos(as.Lhs[0])
		switch {
		case c02IsCopyOf(as.Rhs[0], "portion.res"):
			if sawDo || copyLocal != "" {
				return "", fmt.Errorf("fetchLoopIteration: the copy of portion.res is made twice or after client.Do: `%s`", txt)
			}
			copyLocal, copyTxt = l, txt
		case l == "releaseWaiting":
			fl, ok := as.Rhs[0].(*ast.FuncLit)
			if !ok || len(fl.Body.List) != 1 {
				return "", fmt.Errorf("fetchLoopIteration: unrecognised releaseWaiting: `%s`", txt)
			}
			rs, ok := fl.Body.List[0].(*ast.RangeStmt)
			if !ok || len(rs.Body.List) != 1 || rs.Value == nil {
				return "", fmt.Errorf("fetchLoopIteration: unrecognised releaseWaiting: `%s`", txt)
			}
			if exprTextNoPosStmt(rs.Body.List[0]) != exprTextNoPos(rs.Value)+".Done(0, err)" {
				return "", fmt.Errorf("fetchLoopIteration: unrecognised releaseWaiting: `%s`", txt)
			}
			over := exprTextNoPos(rs.X)
			switch {
			case over == "portion.res":
				release = ".portion"
			case copyLocal != "" && over == copyLocal:
				release = ".copy"
			default:
				return "", fmt.Errorf("fetchLoopIteration: releaseWaiting ranges over `%s`", over)
			}
			relTxt = txt
		default:
			return "", fmt.Errorf("fetchLoopIteration: unrecognised statement on the waiting promises: `%s`", txt)
		}
	}
	if release == "" || !sawRelease {
		return "", fmt.Errorf("fetchLoopIteration: releaseWaiting is not defined / not called after client.Do")
	}

	var b strings.Builder
	b.WriteString("import Qryn.Ingest.BatcherAlias\nnamespace Qryn.Gen.BatcherAlias\nopen Qryn.Ingest.BatcherAlias\n\n")
	b.WriteString("/-- writer/service/genericInsertService.go: what `swapBuffers` leaves in `svc.results`, what it hands to the\n    flusher, and what `releaseWaiting` of `fetchLoopIteration` ranges over -/\n")
	fmt.Fprintf(&b, "def cfg : Cfg := { afterSwap := %s, portionRes := %s, release := %s }\n\n", afterSwap, portionRes, release)
	b.WriteString("/-- the statements the three facts were read from -/\n")
	fmt.Fprintf(&b, "def sources : List String :=\n  [%s,\n   %s,\n   %s,\n   %s,\n   %s]\n\n", leanStr(saveTxt), leanStr(assignTxt), leanStr(retTxt), leanStr(copyTxt), leanStr(relTxt))
	b.WriteString("end Qryn.Gen.BatcherAlias\n")
	return b.String(), nil
}
