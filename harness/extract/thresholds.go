package main

import (
	"fmt"
	"go/ast"
	"go/token"
	"strconv"
	"strings"
)

// Gen.Thresholds: the constants of the log/metric ingest path that the C03 model is parameterised by:
// remote-write flush limit, the byte threshold and per-row size constants of onEntries, the label sanitiser
// (regexp source, value truncation), the sample type constants of writer and reader.

// constInt evaluates an integer constant expression made of literals, + - * and parentheses.
func constInt(e ast.Expr) (int64, bool) {
	switch x := e.(type) {
	case *ast.BasicLit:
		if x.Kind != token.INT {
			return 0, false
		}
		v, err := strconv.ParseInt(x.Value, 0, 64)
		return v, err == nil
	case *ast.ParenExpr:
		return constInt(x.X)
	case *ast.BinaryExpr:
		a, ok1 := constInt(x.X)
		b, ok2 := constInt(x.Y)
		if !ok1 || !ok2 {
			return 0, false
		}
		switch x.Op {
		case token.ADD:
			return a + b, true
		case token.SUB:
			return a - b, true
		case token.MUL:
			return a * b, true
		}
	}
	return 0, false
}

func exprText(e ast.Expr) string {
	switch x := e.(type) {
	case *ast.Ident:
		return x.Name
	case *ast.SelectorExpr:
		return exprText(x.X) + "." + x.Sel.Name
	case *ast.BinaryExpr:
		return exprText(x.X) + x.Op.String() + exprText(x.Y)
	case *ast.CallExpr:
		args := make([]string, len(x.Args))
		for i, a := range x.Args {
			args[i] = exprText(a)
		}
		return exprText(x.Fun) + "(" + strings.Join(args, ",") + ")"
	case *ast.IndexExpr:
		return exprText(x.X) + "[" + exprText(x.Index) + "]"
	case *ast.BasicLit:
		return x.Value
	case *ast.ParenExpr:
		return "(" + exprText(x.X) + ")"
	}
	return "?"
}

// regexpVar finds `var name = regexp.MustCompile("...")` at file level, or `name := regexp.MustCompile(...)` in fn.
func regexpSource(f *ast.File, fn *ast.FuncDecl, name string) (string, bool) {
	get := func(rhs ast.Expr) (string, bool) {
		call, ok := rhs.(*ast.CallExpr)
		if !ok || exprText(call.Fun) != "regexp.MustCompile" || len(call.Args) != 1 {
			return "", false
		}
		return strLit(call.Args[0])
	}
	if fn == nil {
		for _, d := range f.Decls {
			gd, ok := d.(*ast.GenDecl)
			if !ok || gd.Tok != token.VAR {
				continue
			}
			for _, sp := range gd.Specs {
				vs := sp.(*ast.ValueSpec)
				for i, n := range vs.Names {
					if n.Name == name && i < len(vs.Values) {
						return get(vs.Values[i])
					}
				}
			}
		}
		return "", false
	}
	res, found := "", false
	ast.Inspect(fn.Body, func(n ast.Node) bool {
		as, ok := n.(*ast.AssignStmt)
		if !ok || len(as.Lhs) != 1 || len(as.Rhs) != 1 {
			return true
		}
		if id, ok := as.Lhs[0].(*ast.Ident); ok && id.Name == name {
			if s, ok := get(as.Rhs[0]); ok {
				res, found = s, true
			}
		}
		return true
	})
	return res, found
}

func constDecls(f *ast.File) map[string]int64 {
	out := map[string]int64{}
	for _, d := range f.Decls {
		gd, ok := d.(*ast.GenDecl)
		if !ok || gd.Tok != token.CONST {
			continue
		}
		for _, sp := range gd.Specs {
			vs := sp.(*ast.ValueSpec)
			for i, n := range vs.Names {
				if i < len(vs.Values) {
					if v, ok := constInt(vs.Values[i]); ok {
						out[n.Name] = v
					}
				}
			}
		}
	}
	return out
}

func init() {
	register("Thresholds", func() (string, error) {
		var b strings.Builder
		b.WriteString("namespace Qryn.Gen\n")
		// --- remote-write flush limit
		_, f, err := parseFile("writer/utils/unmarshal/metricsProtobuf.go")
		if err != nil {
			return "", err
		}
		fd := findFunc(f, "promMetricsProtoDec", "Decode")
		if fd == nil {
			return "", fmt.Errorf("promMetricsProtoDec.Decode not found")
		}
		flushLimit, found := int64(0), false
		ast.Inspect(fd.Body, func(n ast.Node) bool {
			gd, ok := n.(*ast.GenDecl)
			if !ok || gd.Tok != token.CONST {
				return true
			}
			for _, sp := range gd.Specs {
				vs := sp.(*ast.ValueSpec)
				for i, nm := range vs.Names {
					if nm.Name == "flushLimit" && i < len(vs.Values) {
						if v, ok := constInt(vs.Values[i]); ok {
							flushLimit, found = v, true
						}
					}
				}
			}
			return true
		})
		if !found {
			return "", fmt.Errorf("const flushLimit not found in promMetricsProtoDec.Decode")
		}
		// the comparison that uses it: `points >= flushLimit` (or >)
		pointsOp := ""
		ast.Inspect(fd.Body, func(n ast.Node) bool {
			if is, ok := n.(*ast.IfStmt); ok {
				if be, ok := is.Cond.(*ast.BinaryExpr); ok && (be.Op == token.GEQ || be.Op == token.GTR) && exprText(be.X) == "points" && exprText(be.Y) == "flushLimit" {
					pointsOp = map[token.Token]string{token.GEQ: "≥", token.GTR: ">"}[be.Op]
				}
			}
			return true
		})
		if pointsOp == "" {
			return "", fmt.Errorf("`if points >= flushLimit` (or >) not found in promMetricsProtoDec.Decode")
		}
		fmt.Fprintf(&b, "/-- remote-write: `flushLimit` -/\ndef flushPoints : Nat := %d\n", flushLimit)
		fmt.Fprintf(&b, "/-- remote-write: the test on the point counter (after `points++`) that flushes the open series -/\ndef pointsHit (points : Nat) : Bool := decide (points %s flushPoints)\n", pointsOp)
		// --- onEntries: byte threshold and per-row constants
		_, f, err = parseFile("writer/utils/unmarshal/builder.go")
		if err != nil {
			return "", err
		}
		fd = findFunc(f, "parserDoer", "onEntries")
		if fd == nil {
			return "", fmt.Errorf("parserDoer.onEntries not found")
		}
		var flushBytes, rowBytes, seriesBytes int64 = -1, -1, -1
		bytesOp := ""
		ast.Inspect(fd.Body, func(n ast.Node) bool {
			switch x := n.(type) {
			case *ast.IfStmt:
				if be, ok := x.Cond.(*ast.BinaryExpr); ok && (be.Op == token.GTR || be.Op == token.GEQ) && exprText(be.X) == "p.tsSpl.spl.Size+p.tsSpl.ts.Size" {
					if v, ok := constInt(be.Y); ok {
						flushBytes = v
						bytesOp = map[token.Token]string{token.GEQ: "≥", token.GTR: ">"}[be.Op]
					}
				}
			case *ast.AssignStmt:
				if x.Tok == token.ADD_ASSIGN && len(x.Lhs) == 1 && len(x.Rhs) == 1 {
					be, ok := x.Rhs[0].(*ast.BinaryExpr)
					if !ok || be.Op != token.ADD {
						return true
					}
					switch exprText(x.Lhs[0]) {
					case "p.tsSpl.spl.Size":
						if exprText(be.X) == "len(message[i])" {
							if v, ok := constInt(be.Y); ok {
								rowBytes = v
							}
						}
					case "p.tsSpl.ts.Size":
						if exprText(be.Y) == "len(_labels)" {
							if v, ok := constInt(be.X); ok {
								seriesBytes = v
							}
						}
					}
				}
			}
			return true
		})
		if flushBytes < 0 {
			return "", fmt.Errorf("`if p.tsSpl.spl.Size+p.tsSpl.ts.Size > <const>` not found in onEntries")
		}
		if rowBytes < 0 {
			return "", fmt.Errorf("`p.tsSpl.spl.Size += len(message[i]) + <const>` not found in onEntries")
		}
		if seriesBytes < 0 {
			return "", fmt.Errorf("`p.tsSpl.ts.Size += <const> + len(_labels)` not found in onEntries")
		}
		fmt.Fprintf(&b, "/-- onEntries: byte threshold -/\ndef flushBytes : Nat := %d\n", flushBytes)
		fmt.Fprintf(&b, "/-- onEntries: the test on `spl.Size + ts.Size` that emits the open requests -/\ndef bytesHit (size : Nat) : Bool := decide (size %s flushBytes)\n", bytesOp)
		fmt.Fprintf(&b, "/-- onEntries: `spl.Size += len(message[i]) + rowBytes` -/\ndef rowBytes : Nat := %d\n", rowBytes)
		fmt.Fprintf(&b, "/-- onEntries: `ts.Size += seriesBytes + len(labels document)` -/\ndef seriesBytes : Nat := %d\n", seriesBytes)
		// --- sanitiser
		_, f, err = parseFile("writer/utils/unmarshal/unmarshal.go")
		if err != nil {
			return "", err
		}
		re, ok := regexpSource(f, nil, "sanitizeRe")
		if !ok {
			return "", fmt.Errorf("var sanitizeRe = regexp.MustCompile(\"…\") not found")
		}
		fd = findFunc(f, "", "sanitizeLabels")
		if fd == nil {
			return "", fmt.Errorf("sanitizeLabels not found")
		}
		var vmax, vcut int64 = -1, -1
		suffix, sufOK := "", false
		replOK := false
		ast.Inspect(fd.Body, func(n ast.Node) bool {
			switch x := n.(type) {
			case *ast.IfStmt:
				if be, ok := x.Cond.(*ast.BinaryExpr); ok && be.Op == token.GTR && exprText(be.X) == "len(lbls[i][1])" {
					if v, ok := constInt(be.Y); ok {
						vmax = v
					}
				}
			case *ast.BinaryExpr:
				if x.Op == token.ADD {
					if se, ok := x.X.(*ast.SliceExpr); ok && se.Low == nil && se.High != nil && exprText(se.X) == "lbls[i][1]" {
						if v, ok := constInt(se.High); ok {
							vcut = v
						}
						if s, ok := strLit(x.Y); ok {
							suffix, sufOK = s, true
						}
					}
				}
			case *ast.CallExpr:
				if exprText(x.Fun) == "sanitizeRe.ReplaceAllString" && len(x.Args) == 2 && exprText(x.Args[0]) == "lbls[i][0]" {
					if s, ok := strLit(x.Args[1]); ok && s == "_" {
						replOK = true
					}
				}
			}
			return true
		})
		if vmax < 0 || vcut < 0 || !sufOK {
			return "", fmt.Errorf("value truncation `if len(lbls[i][1]) > N { … [:M] + \"…\" }` not found in sanitizeLabels")
		}
		if !replOK {
			return "", fmt.Errorf("`sanitizeRe.ReplaceAllString(lbls[i][0], \"_\")` not found in sanitizeLabels")
		}
		fmt.Fprintf(&b, "/-- source text of `sanitizeRe` (label names; every match is replaced by \"_\") -/\ndef sanitizeRe : String := %s\n", leanStr(re))
		fmt.Fprintf(&b, "def labelValueMax : Nat := %d\ndef labelValueCut : Nat := %d\ndef labelValueSuffix : List UInt8 := %s\n", vmax, vcut, leanBytes(suffix))
		_, f2, err := parseFile("writer/utils/unmarshal/influxUnmarshal.go")
		if err != nil {
			return "", err
		}
		re2, ok := regexpSource(f2, nil, "metricNameSanitizer")
		if !ok {
			return "", fmt.Errorf("var metricNameSanitizer not found")
		}
		fmt.Fprintf(&b, "/-- source text of the Influx `metricNameSanitizer` -/\ndef metricNameRe : String := %s\n", leanStr(re2))
		_, f3, err := parseFile("writer/utils/unmarshal/otlplogs.go")
		if err != nil {
			return "", err
		}
		fd = findFunc(f3, "", "SanitizeKey")
		if fd == nil {
			return "", fmt.Errorf("SanitizeKey not found")
		}
		re3, ok := regexpSource(f3, fd, "re")
		if !ok {
			return "", fmt.Errorf("re := regexp.MustCompile(…) not found in SanitizeKey")
		}
		fmt.Fprintf(&b, "/-- source text of the expression in OTLP `SanitizeKey` -/\ndef otlpKeyRe : String := %s\n", leanStr(re3))
		// --- sample types
		_, f4, err := parseFile("writer/model/insertRequestModel.go")
		if err != nil {
			return "", err
		}
		cs := constDecls(f4)
		for _, n := range []string{"SAMPLE_TYPE_LOG", "SAMPLE_TYPE_METRIC", "SAMPLE_TYPE_UNDEF"} {
			if _, ok := cs[n]; !ok {
				return "", fmt.Errorf("const %s not found in writer/model", n)
			}
		}
		fmt.Fprintf(&b, "def sampleTypeLog : Nat := %d\ndef sampleTypeMetric : Nat := %d\ndef sampleTypeUndef : Nat := %d\n",
			cs["SAMPLE_TYPE_LOG"], cs["SAMPLE_TYPE_METRIC"], cs["SAMPLE_TYPE_UNDEF"])
		_, f5, err := parseFile("reader/logql/logql_transpiler_v2/shared/types.go")
		if err != nil {
			return "", err
		}
		cs = constDecls(f5)
		for _, n := range []string{"SAMPLES_TYPE_LOGS", "SAMPLES_TYPE_METRICS", "SAMPLES_TYPE_BOTH"} {
			if _, ok := cs[n]; !ok {
				return "", fmt.Errorf("const %s not found in reader shared/types.go", n)
			}
		}
		fmt.Fprintf(&b, "/-- reader: `GetTypes` selects `type IN (wanted, SAMPLES_TYPE_BOTH)` -/\ndef readerTypeLogs : Nat := %d\ndef readerTypeMetrics : Nat := %d\ndef readerTypeBoth : Nat := %d\n",
			cs["SAMPLES_TYPE_LOGS"], cs["SAMPLES_TYPE_METRICS"], cs["SAMPLES_TYPE_BOTH"])
		// the collapse `if tp == 3 { tp = 0 }` of the Loki JSON decoder
		fdv := findFunc(f, "pushRequestDec", "decodeStreamValue")
		fde := findFunc(f, "pushRequestDec", "decodeStreamEntry")
		if fdv == nil || fde == nil {
			return "", fmt.Errorf("pushRequestDec.decodeStreamValue/decodeStreamEntry not found")
		}
		var collapse [][2]int64
		for _, fn := range []*ast.FuncDecl{fdv, fde} {
			ok := false
			ast.Inspect(fn.Body, func(n ast.Node) bool {
				is, isIf := n.(*ast.IfStmt)
				if !isIf {
					return true
				}
				be, isBin := is.Cond.(*ast.BinaryExpr)
				if !isBin || be.Op != token.EQL || exprText(be.X) != "tp" || len(is.Body.List) != 1 {
					return true
				}
				as, isAs := is.Body.List[0].(*ast.AssignStmt)
				if !isAs || len(as.Lhs) != 1 || exprText(as.Lhs[0]) != "tp" {
					return true
				}
				a, ok1 := constInt(be.Y)
				c, ok2 := constInt(as.Rhs[0])
				if ok1 && ok2 {
					collapse = append(collapse, [2]int64{a, c})
					ok = true
				}
				return true
			})
			if !ok {
				return "", fmt.Errorf("`if tp == N { tp = M }` not found in %s", fn.Name.Name)
			}
		}
		if collapse[0] != collapse[1] {
			return "", fmt.Errorf("the two Loki JSON entry decoders collapse the type differently: %v", collapse)
		}
		fmt.Fprintf(&b, "/-- Loki JSON: `if tp == typeCollapseFrom { tp = typeCollapseTo }` (line and value present) -/\ndef typeCollapseFrom : Nat := %d\ndef typeCollapseTo : Nat := %d\n", collapse[0][0], collapse[0][1])
		b.WriteString("end Qryn.Gen\n")
		return b.String(), nil
	})
}
