package main

import (
	"bytes"
	"fmt"
	"go/ast"
	"go/printer"
	"go/token"
	"regexp"
	"strings"

	"github.com/go-faster/city"
)

// Gen.ProfTree: what the C16 model takes from the source of the profile tree builder and merger —
// the bit layout of getNodeId, the name used for frames without line info (and its function id), whether a
// sample without a stack is kept in the tree, the order of the stored rows, the caps of MergeTrie.
// Fails closed: the statements the model mirrors must be present in the recognised form.

func printNode(fset *token.FileSet, n ast.Node) string {
	var b bytes.Buffer
	printer.Fprint(&b, fset, n)
	return b.String()
}

func squeeze(s string) string { return strings.Join(strings.Fields(s), " ") }

func num(s string) string { return strings.ReplaceAll(s, "_", "") }

// shared recognisers ------------------------------------------------------------------------------------------

type profSrc struct {
	pb string // postProcessProf body, whitespace squeezed
	mb string // MergeTrie body
	gb string // getNodeId body
	gn int    // number of statements of getNodeId
}

func loadProfSrc() (*profSrc, error) {
	fset, f, err := parseFile("writer/utils/unmarshal/golangPprof.go")
	if err != nil {
		return nil, err
	}
	fd := findFunc(f, "", "getNodeId")
	if fd == nil {
		return nil, fmt.Errorf("getNodeId not found")
	}
	pp := findFunc(f, "", "postProcessProf")
	if pp == nil {
		return nil, fmt.Errorf("postProcessProf not found")
	}
	fset2, f2, err := parseFile("reader/service/profTree.go")
	if err != nil {
		return nil, err
	}
	mt := findFunc(f2, "Tree", "MergeTrie")
	if mt == nil {
		return nil, fmt.Errorf("Tree.MergeTrie not found")
	}
	return &profSrc{pb: squeeze(printNode(fset, pp.Body)), mb: squeeze(printNode(fset2, mt.Body)),
		gb: squeeze(printNode(fset, fd.Body)), gn: len(fd.Body.List)}, nil
}

func (p *profSrc) need(where, body, what, pat string) ([]string, error) {
	all := regexp.MustCompile(pat).FindAllStringSubmatch(body, -1)
	if len(all) != 1 {
		return nil, fmt.Errorf("%s: %s: expected exactly one match of %q, found %d", where, what, pat, len(all))
	}
	return all[0], nil
}

// which list the stack walk runs over: sample.Location, or `locations` (an empty stack replaced by one frame)
func (p *profSrc) walkVar() (string, error) {
	walk := regexp.MustCompile(`for i := len\((sample\.Location|locations)\) - 1; i >= 0; i-- \{ loc := (sample\.Location|locations)\[i\]`).FindStringSubmatch(p.pb)
	if walk == nil || walk[1] != walk[2] {
		return "", fmt.Errorf("postProcessProf: stack walk (root first, from the end of the location list) not recognised")
	}
	return walk[1], nil
}

func init() {
	// Gen.ProfTree: the constants the executable model is parameterised with.
	register("ProfTree", func() (string, error) {
		src, err := loadProfSrc()
		if err != nil {
			return "", err
		}
		m := regexp.MustCompile(`if traceLevel > (\d+) \{ traceLevel = (\d+) \} return city\.CH64\(buf\)>>(\d+) \| \(uint64\(traceLevel\) << (\d+)\) \}$`).FindStringSubmatch(src.gb)
		if m == nil {
			return "", fmt.Errorf("getNodeId: clamp and bit layout not in the recognised form: %s", src.gb)
		}
		if m[1] != m[2] {
			return "", fmt.Errorf("getNodeId clamps %s to %s", m[1], m[2])
		}
		clamp, hshift, dshift := m[1], m[3], m[4]
		nm, err := src.need("postProcessProf", src.pb, "name of a frame without line info", `name := ("[^"]*") if len\(loc\.Line\) > 0 \{`)
		if err != nil {
			return "", err
		}
		naName := nm[1][1 : len(nm[1])-1]
		c1 := regexp.MustCompile(`if t\.NodesNum >= ([0-9_]+) \{ return \}`).FindStringSubmatch(src.mb)
		c2 := regexp.MustCompile(`if len\(t\.NamesMap\) < ([0-9_]+) \{`).FindStringSubmatch(src.mb)
		if c1 == nil || c2 == nil {
			return "", fmt.Errorf("MergeTrie: node/name caps not recognised")
		}
		s := "namespace Qryn.Gen.ProfTree\n"
		s += "/-- getNodeId: `city.CH64(parent ‖ fn) >> hashShift | min(depth, depthClamp) << depthShift` -/\n"
		s += fmt.Sprintf("def hashShift : Nat := %s\ndef depthShift : Nat := %s\ndef depthClamp : Nat := %s\n", hshift, dshift, clamp)
		s += fmt.Sprintf("/-- name given to a frame without line info, and `city.CH64` of it -/\ndef naName : String := %s\ndef naFnId : Nat := %d\n", leanStr(naName), city.CH64([]byte(naName)))
		s += fmt.Sprintf("/-- MergeTrie stops adding nodes / names beyond these counts -/\ndef maxNodes : Nat := %s\ndef maxNames : Nat := %s\n", num(c1[1]), num(c2[1]))
		s += "end Qryn.Gen.ProfTree\n"
		return s, nil
	})
	// Gen.ProfTreeShape: the statements the model mirrors are present in the recognised form. Imported by the
	// property module only (the driver still builds when the shape changes, so the search can run).
	register("ProfTreeShape", func() (string, error) {
		src, err := loadProfSrc()
		if err != nil {
			return "", err
		}
		if src.gn != 5 {
			return "", fmt.Errorf("getNodeId has %d statements, the model mirrors 5", src.gn)
		}
		if !regexp.MustCompile(`^\{ buf := make\(\[\]byte, 16\) binary\.LittleEndian\.PutUint64\(buf\[0:8\], parentId\) binary\.LittleEndian\.PutUint64\(buf\[8:16\], funcId\) if traceLevel > \d+ \{ traceLevel = \d+ \} return city\.CH64\(buf\)>>\d+ \| \(uint64\(traceLevel\) << \d+\) \}$`).MatchString(src.gb) {
			return "", fmt.Errorf("getNodeId body not in the recognised form: %s", src.gb)
		}
		wv, err := src.walkVar()
		if err != nil {
			return "", err
		}
		emptyFrame := "false"
		if wv == "locations" {
			if _, err := src.need("postProcessProf", src.pb, "empty stack replaced by one frame without line info",
				`locations := sample\.Location if len\(locations\) == 0 \{ locations = \[\]\*pprof_proto\.Location\{\{\}\} \} for i := len\(locations\) - 1`); err != nil {
				return "", err
			}
			emptyFrame = "true"
		}
		checks := [][2]string{
			{"per-sample parent reset", `for _, sample := range profile\.Sample \{ parentId := uint64\(0\)`},
			{"function id of a frame", `name := "[^"]*" if len\(loc\.Line\) > 0 \{ name = loc\.Line\[0\]\.Function\.Name \} fnId := city\.CH64\(\[\]byte\(name\)\)`},
			{"node id from parent, function and depth", `nodeId := getNodeId\(parentId, fnId, len\(` + regexp.QuoteMeta(wv) + `\)-i\) node := tree\[nodeId\]`},
			{"new node fields", `node = &profTrieNode\{ parentId: parentId, funcId: fnId, nodeId: nodeId, values: values, \}`},
			{"total on every frame, self on the leaf", `for j := range node\.values \{ node\.values\[j\]\.total \+= sample\.Value\[j\] if i == 0 \{ node\.values\[j\]\.self \+= sample\.Value\[j\] \} \} parentId = nodeId`},
			{"rows ordered by node id, descending", `for tId := range tree \{ indices = append\(indices, tId\) \} sort\.Slice\(indices, func\(i, j int\) bool \{ return indices\[i\] > indices\[j\] \}\)`},
		}
		for _, c := range checks {
			if _, err := src.need("postProcessProf", src.pb, c[0], c[1]); err != nil {
				return "", err
			}
		}
		if !strings.Contains(src.mb, "if pos := findNode(nodeID, children); pos != -1 { node := children[pos].Clone() node.Self[sampleTypeIndex] += selfValue node.Total[sampleTypeIndex] += totalValue children[pos] = node continue }") {
			return "", fmt.Errorf("MergeTrie: merge of an existing child (by node id under the same parent) not recognised")
		}
		if !strings.Contains(src.mb, "t.Nodes[parentID] = append(t.Nodes[parentID], &TreeNodeV2{ FnID: fnID, NodeID: nodeID, Self: slf, Total: total, })") {
			return "", fmt.Errorf("MergeTrie: append of a new child not recognised")
		}
		// BFS
		fset3, f3, err := parseFile("reader/service/profTree.go")
		if err != nil {
			return "", err
		}
		bf := findFunc(f3, "Tree", "BFS")
		if bf == nil {
			return "", fmt.Errorf("Tree.BFS not found")
		}
		bb := squeeze(printNode(fset3, bf.Body))
		for _, frag := range []string{
			"res = append(res, &prof.Level{Values: []int64{0, total, 0, 0}})",
			"for _, parent := range currentLevelNodes { prepend += prependMap[parent.NodeID] children, ok := t.Nodes[parent.NodeID] if !ok { prepend += parent.Total[sampleTypeIndex] continue }",
			"for _, child := range children { if reviewed[child.NodeID] { return res } reviewed[child.NodeID] = true prependMap[child.NodeID] = prepend nextLevelNodes = append(nextLevelNodes, child) lvl.Values = append(lvl.Values, prepend, child.Total[sampleTypeIndex], child.Self[sampleTypeIndex], int64(t.NamesMap[child.FnID]), ) prepend = 0 } prepend += parent.Self[sampleTypeIndex] }",
			"res = append(res, &lvl) currentLevelNodes = nextLevelNodes",
		} {
			if !strings.Contains(bb, frag) {
				return "", fmt.Errorf("BFS: statement group not recognised: %s", frag)
			}
		}
		s := "namespace Qryn.Gen.ProfTreeShape\n/-- the loops of postProcessProf, getNodeId, MergeTrie and BFS have the statement shape the model mirrors -/\ndef recognised : Bool := true\n/-- postProcessProf keeps a sample without a stack in the tree (as one frame without line info) -/\ndef emptyStackFrame : Bool := " + emptyFrame + "\nend Qryn.Gen.ProfTreeShape\n"
		return s, nil
	})
}
