package main

import (
	"strconv"
	"bytes"
	"fmt"
	"go/ast"
	"go/printer"
	"go/token"
	"strings"
)

// Gen.InternalPlanner: constants and decisive conditions of reader/logql/logql_transpiler_v2/internal_planner
// (C09): optimizer flush threshold, series cap, the `case` names of the three addValue switches, the
// conditions under which min/max/first replace the bucket value, the bucket bounds checks, the limit-0 test,
// what the fingerprint hashes per label, and the stages GetBreakpoint splits at.

const ipDir = "reader/logql/logql_transpiler_v2/internal_planner/"

func ipExprText(fset *token.FileSet, e ast.Node) string {
	var b bytes.Buffer
	printer.Fprint(&b, fset, e)
	return strings.Join(strings.Fields(b.String()), " ")
}

// intCompared finds `<lhs text> <op> <int literal>` anywhere in the file and returns the literal.
func intCompared(fset *token.FileSet, f *ast.File, lhs string, op token.Token) (string, bool) {
	res, found := "", false
	ast.Inspect(f, func(n ast.Node) bool {
		be, ok := n.(*ast.BinaryExpr)
		if !ok || be.Op != op || ipExprText(fset, be.X) != lhs {
			return true
		}
		if bl, ok := be.Y.(*ast.BasicLit); ok && bl.Kind == token.INT {
			res, found = bl.Value, true
			return false
		}
		return true
	})
	return res, found
}

// switchCases returns, for the first `switch <tag>` in fn, the case strings in order and each case's body.
func switchCases(fset *token.FileSet, fn *ast.FuncDecl, tag string) ([]string, map[string][]ast.Stmt, bool) {
	var names []string
	bodies := map[string][]ast.Stmt{}
	found := false
	ast.Inspect(fn.Body, func(n ast.Node) bool {
		sw, ok := n.(*ast.SwitchStmt)
		if !ok || found || sw.Tag == nil || ipExprText(fset, sw.Tag) != tag {
			return true
		}
		found = true
		for _, st := range sw.Body.List {
			cc := st.(*ast.CaseClause)
			for _, e := range cc.List {
				if s, ok := strLit(e); ok {
					names = append(names, s)
					bodies[s] = cc.Body
				}
			}
		}
		return false
	})
	return names, bodies, found
}

// firstIfCond: the condition of the first `if` statement among stmts
func firstIfCond(fset *token.FileSet, stmts []ast.Stmt) (string, bool) {
	for _, s := range stmts {
		if is, ok := s.(*ast.IfStmt); ok {
			return ipExprText(fset, is.Cond), true
		}
	}
	return "", false
}

func ipLeanStrList(xs []string) string {
	q := make([]string, len(xs))
	for i, x := range xs {
		q[i] = leanStr(x)
	}
	return "[" + strings.Join(q, ", ") + "]"
}

func init() {
	register("InternalPlanner", func() (string, error) {
		var sb strings.Builder
		sb.WriteString("namespace Qryn.Gen.InternalPlanner\n")

		// optimizer threshold
		fset, f, err := parseFile(ipDir + "planner_fingerprint_optimizer.go")
		if err != nil {
			return "", err
		}
		v, ok := intCompared(fset, f, "size", token.LSS)
		if !ok {
			// `size <= N` keeps buffering up to N + 1
			if v2, ok2 := intCompared(fset, f, "size", token.LEQ); ok2 {
				v, ok = v2+" + 1", true
			}
		}
		if !ok {
			return "", fmt.Errorf("`size < N` not found in planner_fingerprint_optimizer.go")
		}
		fmt.Fprintf(&sb, "/-- entries buffered by the response optimizer before it flushes -/\ndef optimizerFlush : Nat := %s\n", v)

		// series cap
		fset, f, err = parseFile(ipDir + "planner_generic_aggregator.go")
		if err != nil {
			return "", err
		}
		v, ok = intCompared(fset, f, "len(res)", token.GEQ)
		if !ok {
			return "", fmt.Errorf("`len(res) >= N` not found in planner_generic_aggregator.go")
		}
		fmt.Fprintf(&sb, "/-- series an aggregator accepts before it answers `Too many time-series` -/\ndef maxSeries : Nat := %s\n", v)
		// emission test
		emit := ""
		ast.Inspect(f, func(n ast.Node) bool {
			is, ok := n.(*ast.IfStmt)
			if ok && strings.HasPrefix(ipExprText(fset, is.Cond), "v.values[i+1]") {
				emit = ipExprText(fset, is.Cond)
				return false
			}
			return true
		})
		if emit == "" {
			return "", fmt.Errorf("emission test on v.values[i+1] not found")
		}
		fmt.Fprintf(&sb, "def emitCond : String := %s\n", leanStr(emit))

		type agg struct{ file, recv, tag, name string }
		for _, a := range []agg{
			{"planner_lra.go", "LRAPlanner", "l.Func", "lra"},
			{"planner_unwrap_agg.go", "UnwrapAggPlanner", "l.Function", "unwrap"},
			{"planner_agg_op.go", "AggOpPlanner", "a.Func", "vec"},
		} {
			fset, f, err = parseFile(ipDir + a.file)
			if err != nil {
				return "", err
			}
			fd := findFunc(f, a.recv, "addValue")
			if fd == nil {
				return "", fmt.Errorf("%s.addValue not found", a.recv)
			}
			names, bodies, ok := switchCases(fset, fd, a.tag)
			if !ok {
				return "", fmt.Errorf("switch %s not found in %s.addValue", a.tag, a.recv)
			}
			fmt.Fprintf(&sb, "def %sCases : List String := %s\n", a.name, ipLeanStrList(names))
			if a.name != "vec" {
				// Process admits exactly the names addValue has a case for: one case clause listing them (empty body),
				// the default clause answers NotSupported
				pd := findFunc(f, a.recv, "Process")
				if pd == nil {
					return "", fmt.Errorf("%s.Process not found", a.recv)
				}
				var admitted, deflt []string
				okSw := false
				ast.Inspect(pd.Body, func(n ast.Node) bool {
					sw, isSw := n.(*ast.SwitchStmt)
					if !isSw || okSw || sw.Tag == nil || ipExprText(fset, sw.Tag) != a.tag {
						return true
					}
					okSw = true
					for _, st := range sw.Body.List {
						cc := st.(*ast.CaseClause)
						if cc.List == nil {
							for _, b := range cc.Body {
								deflt = append(deflt, ipExprText(fset, b))
							}
							continue
						}
						if len(cc.Body) != 0 {
							continue
						}
						for _, e := range cc.List {
							if bl, isLit := e.(*ast.BasicLit); isLit {
								if v, err := strconv.Unquote(bl.Value); err == nil {
									admitted = append(admitted, v)
								}
							}
						}
					}
					return false
				})
				if !okSw {
					return "", fmt.Errorf("switch %s not found in %s.Process", a.tag, a.recv)
				}
				fmt.Fprintf(&sb, "/-- the function names `Process` admits (every other name: the default clause) -/\ndef %sAdmitted : List String := %s\n", a.name, ipLeanStrList(admitted))
				fmt.Fprintf(&sb, "def %sRefusal : List String := %s\n", a.name, ipLeanStrList(deflt))
			}
			bound, ok := firstIfCond(fset, fd.Body.List)
			if !ok {
				bound = ""
			}
			fmt.Fprintf(&sb, "/-- the test that skips an entry whose bucket is outside the array (empty: no test) -/\ndef %sBounds : String := %s\n", a.name, leanStr(bound))
			for _, c := range names {
				if cond, ok := firstIfCond(fset, bodies[c]); ok {
					fmt.Fprintf(&sb, "def %sCond_%s : String := %s\n", a.name, c, leanStr(cond))
				}
			}
		}

		// limit
		fset, f, err = parseFile(ipDir + "planner_limit.go")
		if err != nil {
			return "", err
		}
		var conds []string
		ast.Inspect(f, func(n ast.Node) bool {
			if is, ok := n.(*ast.IfStmt); ok {
				conds = append(conds, ipExprText(fset, is.Cond))
			}
			return true
		})
		fmt.Fprintf(&sb, "/-- the tests of LimitPlanner in source order -/\ndef limitConds : List String := %s\n", ipLeanStrList(conds))

		// hash
		fset, f, err = parseFile(ipDir + "hash.go")
		if err != nil {
			return "", err
		}
		fd := findFunc(f, "", "fingerprint")
		if fd == nil {
			return "", fmt.Errorf("fingerprint not found")
		}
		hashed := ""
		ast.Inspect(fd.Body, func(n ast.Node) bool {
			as, ok := n.(*ast.AssignStmt)
			if ok && len(as.Lhs) == 1 && ipExprText(fset, as.Lhs[0]) == "a" && len(as.Rhs) == 1 {
				hashed = ipExprText(fset, as.Rhs[0])
				return false
			}
			return true
		})
		if hashed == "" {
			return "", fmt.Errorf("the hashed text `a := ...` not found in fingerprint")
		}
		fmt.Fprintf(&sb, "/-- what is hashed for one label -/\ndef hashedText : String := %s\n", leanStr(hashed))

		// breakpoint
		fset, f, err = parseFile("reader/logql/logql_transpiler_v2/planner.go")
		if err != nil {
			return "", err
		}
		fd = findFunc(f, "", "GetBreakpoint")
		if fd == nil {
			return "", fmt.Errorf("GetBreakpoint not found")
		}
		var bconds []string
		ast.Inspect(fd.Body, func(n ast.Node) bool {
			rs, ok := n.(*ast.RangeStmt)
			if !ok {
				return true
			}
			for _, st := range rs.Body.List {
				if is, ok := st.(*ast.IfStmt); ok {
					bconds = append(bconds, ipExprText(fset, is.Cond))
				}
			}
			return false
		})
		if len(bconds) == 0 {
			return "", fmt.Errorf("the pipeline loop of GetBreakpoint not found")
		}
		fmt.Fprintf(&sb, "/-- the tests under which GetBreakpoint returns the index of a pipeline element -/\ndef breakConds : List String := %s\n", ipLeanStrList(bconds))
		sb.WriteString("end Qryn.Gen.InternalPlanner\n")
		return sb.String(), nil
	})
}
