package main

import (
	"fmt"
	"go/ast"
	"go/token"
	"strconv"
	"strings"
)

// Gen.SpanText (C06): what the text-level model of the span writers and readers takes from the source text —
//   * the member names of the `switch key` of zipkinDecoderV2.decodeSpan and of parseEndpoint, in source order;
//   * that decodeSpan refuses a text with anything after the object (`dec.Skip()` compared with io.EOF);
//   * the split function and the buffer limit of the line scanner of the newline-delimited framing;
//   * the member names parseZipkinJSON looks up (arguments of fastjson Get* calls, the two []string loops);
//   * the byte on which parseOTLP hands a payload to parseOTLPJson;
//   * the two attribute-name lists, the absence of `break` and the default of the JSON otlpGetServiceNames;
//   * the parent id SpanToJSONSpan does not show, and the nil-safe getters it goes through.
// Fails closed when a shape is not recognised.

func c06CaseStrings(body ast.Node) (keys []string, hasDefault bool) {
	ast.Inspect(body, func(n ast.Node) bool {
		sw, ok := n.(*ast.SwitchStmt)
		if !ok {
			return true
		}
		if id, ok := sw.Tag.(*ast.Ident); !ok || id.Name != "key" {
			return true
		}
		if keys != nil {
			return false // the first switch on key only (nested callbacks have their own)
		}
		for _, st := range sw.Body.List {
			cc := st.(*ast.CaseClause)
			if cc.List == nil {
				hasDefault = true
			}
			for _, e := range cc.List {
				if s, ok := strLit(e); ok {
					keys = append(keys, s)
				}
			}
		}
		return false
	})
	return
}

func c06LeanStrList(l []string) string {
	parts := make([]string, len(l))
	for i, s := range l {
		parts[i] = leanStr(s)
	}
	return "[" + strings.Join(parts, ", ") + "]"
}

func c06StringLists(fd *ast.FuncDecl) [][]string {
	var out [][]string
	ast.Inspect(fd.Body, func(n ast.Node) bool {
		cl, ok := n.(*ast.CompositeLit)
		if !ok {
			return true
		}
		at, ok := cl.Type.(*ast.ArrayType)
		if !ok {
			return true
		}
		if id, ok := at.Elt.(*ast.Ident); !ok || id.Name != "string" {
			return true
		}
		var l []string
		for _, el := range cl.Elts {
			s, ok := strLit(el)
			if !ok {
				return true
			}
			l = append(l, s)
		}
		out = append(out, l)
		return true
	})
	return out
}

func init() {
	register("SpanText", func() (string, error) {
		_, zf, err := parseFile("writer/utils/unmarshal/zipkinJsonUnmarshal.go")
		if err != nil {
			return "", err
		}
		ds := findFunc(zf, "zipkinDecoderV2", "decodeSpan")
		if ds == nil {
			return "", fmt.Errorf("zipkinDecoderV2.decodeSpan not found")
		}
		wkeys, wdef := c06CaseStrings(ds.Body)
		if len(wkeys) == 0 || !wdef {
			return "", fmt.Errorf("decodeSpan: no `switch key` with string cases and a default (skip) clause")
		}
		// `if err := dec.Skip(); err != io.EOF { return ... }` in the function body proper (not inside the callback)
		tail := false
		for _, st := range ds.Body.List {
			is, ok := st.(*ast.IfStmt)
			if !ok || is.Init == nil {
				continue
			}
			as, ok := is.Init.(*ast.AssignStmt)
			if !ok || len(as.Rhs) != 1 {
				continue
			}
			call, ok := as.Rhs[0].(*ast.CallExpr)
			if !ok {
				continue
			}
			se, ok := call.Fun.(*ast.SelectorExpr)
			if !ok || se.Sel.Name != "Skip" {
				continue
			}
			be, ok := is.Cond.(*ast.BinaryExpr)
			if !ok || be.Op != token.NEQ || c06Sel(be.Y) != "io.EOF" {
				continue
			}
			if len(is.Body.List) == 1 {
				if _, ok := is.Body.List[0].(*ast.ReturnStmt); ok {
					tail = true
				}
			}
		}
		pe := findFunc(zf, "zipkinDecoderV2", "parseEndpoint")
		if pe == nil {
			return "", fmt.Errorf("zipkinDecoderV2.parseEndpoint not found")
		}
		ekeys, edef := c06CaseStrings(pe.Body)
		if len(ekeys) == 0 || !edef {
			return "", fmt.Errorf("parseEndpoint: no `switch key` with string cases and a default (skip) clause")
		}
		// line scanner of the newline-delimited framing
		nd := findFunc(zf, "zipkinNDDecoderV2", "Decode")
		if nd == nil {
			return "", fmt.Errorf("zipkinNDDecoderV2.Decode not found")
		}
		split, bufMax := "", ""
		ast.Inspect(nd.Body, func(n ast.Node) bool {
			c, ok := n.(*ast.CallExpr)
			if !ok {
				return true
			}
			se, ok := c.Fun.(*ast.SelectorExpr)
			if !ok {
				return true
			}
			switch {
			case se.Sel.Name == "Split" && len(c.Args) == 1:
				split = c06Sel(c.Args[0])
			case se.Sel.Name == "Buffer" && len(c.Args) == 2:
				bufMax = c06Sel(c.Args[1])
				if v, ok := c06IntLit(c.Args[1]); ok {
					bufMax = strconv.FormatInt(v, 10)
				}
			}
			return true
		})
		if split == "" {
			return "", fmt.Errorf("zipkinNDDecoderV2.Decode: no scanner.Split(..)")
		}
		if bufMax == "" {
			bufMax = "bufio.MaxScanTokenSize"
		}
		// reader: parseZipkinJSON
		_, rf, err := parseFile("reader/service/tempoService.go")
		if err != nil {
			return "", err
		}
		pz := findFunc(rf, "", "parseZipkinJSON")
		if pz == nil {
			return "", fmt.Errorf("parseZipkinJSON not found")
		}
		var gets []string
		ast.Inspect(pz.Body, func(n ast.Node) bool {
			c, ok := n.(*ast.CallExpr)
			if !ok {
				return true
			}
			se, ok := c.Fun.(*ast.SelectorExpr)
			if !ok || !strings.HasPrefix(se.Sel.Name, "Get") {
				return true
			}
			for _, a := range c.Args {
				if s, ok := strLit(a); ok {
					gets = append(gets, se.Sel.Name+":"+s)
				}
			}
			return true
		})
		lists := c06StringLists(pz)
		if len(lists) != 2 {
			return "", fmt.Errorf("parseZipkinJSON: expected the two []string loops (endpoints, endpoint attributes), found %d", len(lists))
		}
		// parseOTLP: payload.payload[0] == '<c>'
		po := findFunc(rf, "", "parseOTLP")
		if po == nil {
			return "", fmt.Errorf("parseOTLP not found")
		}
		lead := int64(-1)
		leadCall := ""
		ast.Inspect(po.Body, func(n ast.Node) bool {
			is, ok := n.(*ast.IfStmt)
			if !ok {
				return true
			}
			be, ok := is.Cond.(*ast.BinaryExpr)
			if !ok || be.Op != token.EQL {
				return true
			}
			ix, ok := be.X.(*ast.IndexExpr)
			if !ok {
				return true
			}
			if v, ok := c06IntLit(ix.Index); !ok || v != 0 {
				return true
			}
			bl, ok := be.Y.(*ast.BasicLit)
			if !ok || bl.Kind != token.CHAR {
				return true
			}
			r, _, _, err := strconv.UnquoteChar(bl.Value[1:len(bl.Value)-1], '\'')
			if err != nil {
				return true
			}
			lead = int64(r)
			ast.Inspect(is.Body, func(m ast.Node) bool {
				if c, ok := m.(*ast.CallExpr); ok {
					if id, ok := c.Fun.(*ast.Ident); ok && strings.HasPrefix(id.Name, "parse") {
						leadCall = id.Name
					}
				}
				return true
			})
			return false
		})
		if lead < 0 || leadCall == "" {
			return "", fmt.Errorf("parseOTLP: no `if payload[0] == '<c>' { … parseX(..) }`")
		}
		// parseOTLPJson.go: otlpGetServiceNames
		_, jf, err := parseFile("reader/service/parseOTLPJson.go")
		if err != nil {
			return "", err
		}
		jn := findFunc(jf, "", "otlpGetServiceNames")
		if jn == nil {
			return "", fmt.Errorf("reader otlpGetServiceNames not found")
		}
		jl := c06StringLists(jn)
		if len(jl) != 2 {
			return "", fmt.Errorf("reader otlpGetServiceNames: expected two []string loops, found %d", len(jl))
		}
		jbreak := false
		jdef := ""
		ast.Inspect(jn.Body, func(n ast.Node) bool {
			switch x := n.(type) {
			case *ast.BranchStmt:
				if x.Tok == token.BREAK {
					jbreak = true
				}
			case *ast.IfStmt:
				if be, ok := x.Cond.(*ast.BinaryExpr); ok && be.Op == token.EQL {
					if s, ok := strLit(be.Y); ok && s == "" && len(x.Body.List) == 1 {
						if as, ok := x.Body.List[0].(*ast.AssignStmt); ok && len(as.Rhs) == 1 {
							if d, ok := strLit(as.Rhs[0]); ok {
								jdef = d
							}
						}
					}
				}
			}
			return true
		})
		// SpanToJSONSpan
		_, cf, err := parseFile("reader/utils/unmarshal/convert.go")
		if err != nil {
			return "", err
		}
		sj := findFunc(cf, "", "SpanToJSONSpan")
		if sj == nil {
			return "", fmt.Errorf("SpanToJSONSpan not found")
		}
		zero := ""
		safeSwitch := false
		ast.Inspect(sj.Body, func(n ast.Node) bool {
			switch x := n.(type) {
			case *ast.BinaryExpr:
				if x.Op == token.NEQ {
					if s, ok := strLit(x.Y); ok && s != "" {
						zero = s
					}
				}
			case *ast.TypeSwitchStmt:
				// switch attr.GetValue().GetValue().(type)
				if es, ok := x.Assign.(*ast.ExprStmt); ok {
					if ta, ok := es.X.(*ast.TypeAssertExpr); ok {
						if c, ok := ta.X.(*ast.CallExpr); ok {
							if se, ok := c.Fun.(*ast.SelectorExpr); ok && se.Sel.Name == "GetValue" {
								if c2, ok := se.X.(*ast.CallExpr); ok {
									if se2, ok := c2.Fun.(*ast.SelectorExpr); ok && se2.Sel.Name == "GetValue" {
										safeSwitch = true
									}
								}
							}
						}
					}
				}
			}
			return true
		})
		if zero == "" {
			return "", fmt.Errorf("SpanToJSONSpan: no comparison of the parent id with a string literal")
		}
		var b strings.Builder
		b.WriteString("namespace Qryn.Gen.SpanText\n")
		fmt.Fprintf(&b, "/-- decodeSpan: the cases of `switch key`, in source order (anything else is skipped) -/\ndef writerKeys : List String := %s\n", c06LeanStrList(wkeys))
		fmt.Fprintf(&b, "/-- decodeSpan returns an error unless `dec.Skip()` reports io.EOF after the object -/\ndef writerTailCheck : Bool := %v\n", tail)
		fmt.Fprintf(&b, "/-- parseEndpoint: the cases of `switch key` -/\ndef endpointKeys : List String := %s\n", c06LeanStrList(ekeys))
		fmt.Fprintf(&b, "/-- zipkinNDDecoderV2.Decode: scanner.Split(..) and the second argument of scanner.Buffer(..) -/\ndef ndSplit : String := %s\ndef ndBufferMax : String := %s\n", leanStr(split), leanStr(bufMax))
		fmt.Fprintf(&b, "/-- parseZipkinJSON: every fastjson Get* call with a literal member name, in source order -/\ndef readerGets : List String := %s\n", c06LeanStrList(gets))
		fmt.Fprintf(&b, "/-- parseZipkinJSON: the endpoint loop and the endpoint-attribute loop -/\ndef readerEndpoints : List String := %s\ndef readerEndpointAttrs : List String := %s\n", c06LeanStrList(lists[0]), c06LeanStrList(lists[1]))
		fmt.Fprintf(&b, "/-- parseOTLP: `payload[0] == c` sends the payload to this function -/\ndef otlpJsonLead : Nat := %d\ndef otlpJsonCall : String := %s\n", lead, leanStr(leadCall))
		fmt.Fprintf(&b, "/-- reader/service/parseOTLPJson.go otlpGetServiceNames: the two name lists, whether a loop has a break, the default -/\ndef jsonLocalNames : List String := %s\ndef jsonRemoteNames : List String := %s\ndef jsonBreak : Bool := %v\ndef jsonDefault : String := %s\n",
			c06LeanStrList(jl[0]), c06LeanStrList(jl[1]), jbreak, leanStr(jdef))
		fmt.Fprintf(&b, "/-- SpanToJSONSpan: the parent id that is not shown; the attribute switch goes through the nil-safe getters -/\ndef zeroParent : String := %s\ndef viewNilSafe : Bool := %v\n", leanStr(zero), safeSwitch)
		b.WriteString("end Qryn.Gen.SpanText\n")
		return b.String(), nil
	})
}
