package main

import (
	"fmt"
	"go/ast"
	"go/token"
	"strings"
)

// Gen.InternalAgg (C09, extension c09y): what the cross-engine theorems of the aggregations rely on in
// internal_planner — the divisor of the three per-second functions (`finalize` of LRAPlanner / UnwrapAggPlanner),
// the grouping `planAggregators` plans in front of a vector aggregation without by/without, and the refusals
// (functions only ClickHouse implements: stddev, stdvar, topk, quantile_over_time).
func init() {
	register("InternalAgg", func() (string, error) {
		var sb strings.Builder
		sb.WriteString("namespace Qryn.Gen.InternalAgg\n")
		// 1. rate divisors
		var divs []string
		for _, a := range []struct{ file, recv string }{{"planner_lra.go", "LRAPlanner"}, {"planner_unwrap_agg.go", "UnwrapAggPlanner"}} {
			fset, f, err := parseFile(ipDir + a.file)
			if err != nil {
				return "", err
			}
			fd := findFunc(f, a.recv, "finalize")
			if fd == nil {
				return "", fmt.Errorf("%s.finalize not found", a.recv)
			}
			ast.Inspect(fd.Body, func(n ast.Node) bool {
				cc, ok := n.(*ast.CaseClause)
				if !ok {
					return true
				}
				for _, e := range cc.List {
					name, ok := strLit(e)
					if !ok || !strings.Contains(name, "rate") {
						continue
					}
					ast.Inspect(cc, func(m ast.Node) bool {
						as, ok := m.(*ast.AssignStmt)
						if ok && len(as.Rhs) == 1 && as.Tok == token.QUO_ASSIGN {
							divs = append(divs, a.recv+":"+name+":"+ipExprText(fset, as.Lhs[0])+" "+as.Tok.String()+" "+ipExprText(fset, as.Rhs[0]))
						}
						return true
					})
				}
				return true
			})
		}
		if len(divs) != 3 {
			return "", fmt.Errorf("expected the three per-second divisions (rate, bytes_rate, unwrapped rate), found %v", divs)
		}
		fmt.Fprintf(&sb, "/-- the per-second division of `finalize`, per planner and function -/\ndef rateDivisions : List String := %s\n", ipLeanStrList(divs))

		// 2. planAggregators: the AggOperator case and the refusals
		fset, f, err := parseFile(ipDir + "planner.go")
		if err != nil {
			return "", err
		}
		fd := findFunc(f, "", "planAggregators")
		if fd == nil {
			return "", fmt.Errorf("planAggregators not found")
		}
		var vecIf, vecThen, vecElse string
		var refusals []string
		found := false
		ast.Inspect(fd.Body, func(n ast.Node) bool {
			ts, ok := n.(*ast.TypeSwitchStmt)
			if !ok || found {
				return true
			}
			found = true
			for _, st := range ts.Body.List {
				cc := st.(*ast.CaseClause)
				if len(cc.List) != 1 {
					continue
				}
				ty := ipExprText(fset, cc.List[0])
				switch ty {
				case "*logql_parser.AggOperator":
					for _, b := range cc.Body {
						is, ok := b.(*ast.IfStmt)
						if !ok || !strings.Contains(ipExprText(fset, is.Cond), "ByOrWithout") {
							continue
						}
						vecIf = ipExprText(fset, is.Cond)
						if len(is.Body.List) == 1 {
							vecThen = ipExprText(fset, is.Body.List[0])
						}
						if eb, ok := is.Else.(*ast.BlockStmt); ok && len(eb.List) == 1 {
							vecElse = ipExprText(fset, eb.List[0])
						}
					}
				case "*logql_parser.QuantileOverTime", "*logql_parser.TopK":
					if len(cc.Body) == 1 {
						refusals = append(refusals, ty+": "+ipExprText(fset, cc.Body[0]))
					}
				}
			}
			return false
		})
		if vecIf == "" || vecThen == "" || vecElse == "" {
			return "", fmt.Errorf("the grouping of a vector aggregation (if no by/without { by () } else { planByWithout }) not found in planAggregators")
		}
		if len(refusals) != 2 {
			return "", fmt.Errorf("the refusals of quantile_over_time and topk not found in planAggregators: %v", refusals)
		}
		fmt.Fprintf(&sb, "/-- the grouping planned in front of `AggOpPlanner`: test, no clause written, a clause written -/\ndef vecGrouping : List String := %s\n", ipLeanStrList([]string{vecIf, vecThen, vecElse}))
		fmt.Fprintf(&sb, "/-- the metric shapes `planAggregators` refuses -/\ndef planRefusals : List String := %s\n", ipLeanStrList(refusals))

		// 3. AggOpPlanner.Process: the refused functions
		fset, f, err = parseFile(ipDir + "planner_agg_op.go")
		if err != nil {
			return "", err
		}
		pd := findFunc(f, "AggOpPlanner", "Process")
		if pd == nil {
			return "", fmt.Errorf("AggOpPlanner.Process not found")
		}
		var vecRef []string
		ast.Inspect(pd.Body, func(n ast.Node) bool {
			cc, ok := n.(*ast.CaseClause)
			if !ok {
				return true
			}
			for _, e := range cc.List {
				if name, ok := strLit(e); ok && len(cc.Body) == 1 {
					if rs, ok := cc.Body[0].(*ast.ReturnStmt); ok && strings.Contains(ipExprText(fset, rs), "NotSupportedError") {
						vecRef = append(vecRef, name)
					}
				}
			}
			return true
		})
		fmt.Fprintf(&sb, "/-- the vector aggregations `AggOpPlanner.Process` answers NotSupported -/\ndef vecRefused : List String := %s\n", ipLeanStrList(vecRef))
		sb.WriteString("end Qryn.Gen.InternalAgg\n")
		return sb.String(), nil
	})
}
