package main

import (
	"fmt"
	"go/ast"
	"go/token"
	"os"
	"path/filepath"
	"regexp"
	"strconv"
	"strings"

	"verif/harness/ddl"
)

// Gen.Migrations: the statements schema initialisation executes, per mode, as `Qryn.Ctrl.Migrate.Stmt` values.
//
// Sources (all re-read on every run, fail closed on an unexpected shape):
//   ctrl/qryn/maintenance/update.go  getSQLFile   -> the splitting rule (two regexps, separator, trim set)
//                                    updateScripts -> bootstrap statements, template variables, the shape of the
//                                                     version loop (script first, version row second, `k, i+1`)
//                                    Update        -> order of the streams, their keys, which are cluster-only
//   ctrl/qryn/sql/sql.go             go:embed      -> which file each script variable holds
//   ctrl/qryn/sql/*.sql                            -> split with the extracted rule, instantiated per mode with
//                                                     text/template exactly as getDBExec does, classified by ddl.Parse
//   ctrl/maintenance/shared.go       InitDBTry     -> the CREATE DATABASE statement
//   ctrl/main.go, maintain.go                      -> init (InitDB -> InitDBTry) precedes upgrade (-> Update)
func init() { register("Migrations", genMigrations) }

type migMode = ddl.Mode

var migModes = ddl.Modes

func envFor(m migMode) map[string]string { return ddl.EnvFor(m) }

func renderTpl(q string, env map[string]string) (string, error) { return ddl.Render(q, env) }

func callName(e ast.Expr) string {
	c, ok := e.(*ast.CallExpr)
	if !ok {
		return ""
	}
	switch f := c.Fun.(type) {
	case *ast.Ident:
		return f.Name
	case *ast.SelectorExpr:
		if x, ok := f.X.(*ast.Ident); ok {
			return x.Name + "." + f.Sel.Name
		}
		if x, ok := f.X.(*ast.CallExpr); ok { // regexp.MustCompile(..).ReplaceAllString
			return callName(x) + "()." + f.Sel.Name
		}
	}
	return ""
}


func extractSplitRule(f *ast.File) (ddl.SplitRule, error) {
	var r ddl.SplitRule
	fd := findFunc(f, "", "getSQLFile")
	if fd == nil {
		return r, fmt.Errorf("getSQLFile not found")
	}
	var regs []string
	var seps, trims []string
	other := 0
	ast.Inspect(fd.Body, func(n ast.Node) bool {
		c, ok := n.(*ast.CallExpr)
		if !ok {
			return true
		}
		switch callName(c) {
		case "regexp.MustCompile().ReplaceAllString":
			inner := c.Fun.(*ast.SelectorExpr).X.(*ast.CallExpr)
			pat, ok1 := strLit(inner.Args[0])
			rep, ok2 := strLit(c.Args[1])
			if !ok1 || !ok2 || rep != "" || len(c.Args) != 2 {
				other++
				return true
			}
			regs = append(regs, pat)
		case "strings.Split":
			if s, ok := strLit(c.Args[1]); ok {
				seps = append(seps, s)
			} else {
				other++
			}
		case "strings.Trim":
			if s, ok := strLit(c.Args[1]); ok {
				trims = append(trims, s)
			} else {
				other++
			}
		case "regexp.MustCompile", "append":
		default:
			other++
		}
		return true
	})
	if len(regs) != 2 || len(seps) != 1 || len(trims) != 1 || other != 0 {
		return r, fmt.Errorf("getSQLFile: expected two regexp replacements by \"\", one strings.Split and one strings.Trim with literal arguments (found %d/%d/%d, %d other calls)", len(regs), len(seps), len(trims), other)
	}
	// the loop must skip exactly the empty strings
	src := nodeSrc(fd.Body)
	if !strings.Contains(src, `if _req == "" {`) || !strings.Contains(src, "continue") {
		return r, fmt.Errorf("getSQLFile: the `if _req == \"\" { continue }` filter is not there")
	}
	return ddl.SplitRule{Blank: regs[0], Comment: regs[1], Sep: seps[0], Trim: trims[0]}, nil
}

var migFset *token.FileSet
var migSrc []byte

func nodeSrc(n ast.Node) string {
	return string(migSrc[migFset.Position(n.Pos()).Offset:migFset.Position(n.End()).Offset])
}

type streamCall struct {
	k        int
	varName  string
	distOnly bool
}

func isUpdateScriptsAssign(s ast.Stmt) (*ast.CallExpr, bool) {
	as, ok := s.(*ast.AssignStmt)
	if !ok || len(as.Rhs) != 1 {
		return nil, false
	}
	c, ok := as.Rhs[0].(*ast.CallExpr)
	if !ok || callName(c) != "updateScripts" {
		return nil, false
	}
	return c, true
}

func extractStreams(f *ast.File) ([]streamCall, error) {
	fd := findFunc(f, "", "Update")
	if fd == nil {
		return nil, fmt.Errorf("Update not found")
	}
	var res []streamCall
	add := func(c *ast.CallExpr, dist bool) error {
		if len(c.Args) < 6 {
			return fmt.Errorf("updateScripts call with %d arguments", len(c.Args))
		}
		kl, ok := c.Args[3].(*ast.BasicLit)
		if !ok || kl.Kind != token.INT {
			return fmt.Errorf("updateScripts: stream key is not an integer literal")
		}
		k, _ := strconv.Atoi(kl.Value)
		sel, ok := c.Args[4].(*ast.SelectorExpr)
		if !ok {
			return fmt.Errorf("updateScripts: script argument is not sql.<Var>")
		}
		if x, ok := sel.X.(*ast.Ident); !ok || x.Name != "sql" {
			return fmt.Errorf("updateScripts: script argument is not sql.<Var>")
		}
		if nodeSrc(c.Args[5]) != "checkMode(CLUST_MODE_CLOUD)" {
			return fmt.Errorf("updateScripts: replicated argument is %s", nodeSrc(c.Args[5]))
		}
		res = append(res, streamCall{k, sel.Sel.Name, dist})
		return nil
	}
	for _, st := range fd.Body.List {
		if c, ok := isUpdateScriptsAssign(st); ok {
			if err := add(c, false); err != nil {
				return nil, err
			}
			continue
		}
		if is, ok := st.(*ast.IfStmt); ok {
			cond := nodeSrc(is.Cond)
			if cond == "err != nil" {
				if strings.Join(strings.Fields(nodeSrc(is.Body)), " ") != "{ return err }" {
					return nil, fmt.Errorf("Update: `if err != nil` does not return the error")
				}
				continue
			}
			if cond == "checkMode(CLUST_MODE_DISTRIBUTED)" && is.Else == nil {
				for _, inner := range is.Body.List {
					if c, ok := isUpdateScriptsAssign(inner); ok {
						if err := add(c, true); err != nil {
							return nil, err
						}
						continue
					}
					if ii, ok := inner.(*ast.IfStmt); ok && nodeSrc(ii.Cond) == "err != nil" &&
						strings.Join(strings.Fields(nodeSrc(ii.Body)), " ") == "{ return err }" {
						continue
					}
					return nil, fmt.Errorf("Update: unexpected statement in the distributed branch: %s", nodeSrc(inner))
				}
				continue
			}
			return nil, fmt.Errorf("Update: unexpected condition %s", cond)
		}
		src := strings.Join(strings.Fields(nodeSrc(st)), " ")
		switch {
		case strings.HasPrefix(src, "checkMode := func(m int) bool { return mode&m == m }"):
		case src == "var err error":
		case strings.HasPrefix(src, "err = Cleanup("):
		case src == "return err":
		default:
			return nil, fmt.Errorf("Update: unexpected statement %s", src)
		}
	}
	if len(res) == 0 {
		return nil, fmt.Errorf("Update: no updateScripts call")
	}
	// (a key used twice is not an extraction failure: `stream_keys_distinct` in Props/C18 is the obligation)
	return res, nil
}

type bootLit struct {
	tpl     string
	cluster bool // only when clusterName != ""
}

// extractUpdateScripts: bootstrap literals, env keys, and the shape of the version loop.
func extractUpdateScripts(f *ast.File) ([]bootLit, error) {
	fd := findFunc(f, "", "updateScripts")
	if fd == nil {
		return nil, fmt.Errorf("updateScripts not found")
	}
	// env keys
	keys := map[string]bool{}
	ast.Inspect(fd.Body, func(n ast.Node) bool {
		switch x := n.(type) {
		case *ast.AssignStmt:
			for _, l := range x.Lhs {
				if ix, ok := l.(*ast.IndexExpr); ok {
					if id, ok := ix.X.(*ast.Ident); ok && id.Name == "env" {
						if s, ok := strLit(ix.Index); ok {
							keys[s] = true
						}
					}
				}
			}
			if len(x.Lhs) == 1 && len(x.Rhs) == 1 {
				if id, ok := x.Lhs[0].(*ast.Ident); ok && id.Name == "env" {
					if cl, ok := x.Rhs[0].(*ast.CompositeLit); ok {
						for _, el := range cl.Elts {
							if kv, ok := el.(*ast.KeyValueExpr); ok {
								if s, ok := strLit(kv.Key); ok {
									keys[s] = true
								}
							}
						}
					}
				}
			}
		}
		return true
	})
	want := envFor(migModes[0])
	for k := range want {
		if !keys[k] {
			return nil, fmt.Errorf("updateScripts: template variable %s is no longer set", k)
		}
	}
	for k := range keys {
		if _, ok := want[k]; !ok {
			return nil, fmt.Errorf("updateScripts: new template variable %s (the translator does not instantiate it)", k)
		}
	}
	// the conditions that decide the instantiation
	src := nodeSrc(fd.Body)
	for _, frag := range []string{
		"if clusterName != \"\" {\n\t\tenv[\"OnCluster\"] = \"ON CLUSTER `\" + clusterName + \"`\"\n\t}",
		"env[\"ReplacingMergeTree\"] = \"ReplicatedReplacingMergeTree\"",
		"env[\"MergeTree\"] = \"ReplicatedMergeTree\"",
		"env[\"AggregatingMergeTree\"] = \"ReplicatedAggregatingMergeTree\"",
		"scripts, err := getSQLFile(file)",
		"exec := getDBExec(db, env, logger)",
	} {
		if !strings.Contains(src, frag) {
			return nil, fmt.Errorf("updateScripts: expected fragment not found: %s", frag)
		}
	}
	nsrc := normSpace(src)
	for _, frag := range migParamFragments {
		if !strings.Contains(nsrc, frag) {
			return nil, fmt.Errorf("updateScripts: expected fragment (template parameter) not found: %s", frag)
		}
	}
	// bootstrap statements, version read, loop — in this order at the top level of the body.
	// The shape of the version read and of the loop is emitted as a fact (`versionRead`, `loopShape`) that
	// Props/C18 compares with the shape the model was written for: a deviation breaks that obligation while
	// the driver still builds, so the correspondence run can exhibit a concrete failing schedule.
	var boots []bootLit
	stage := 0 // 0 boot, 1 after version read, 2 after loop
	execLit := func(s ast.Stmt) (string, bool) {
		as, ok := s.(*ast.AssignStmt)
		if !ok || len(as.Rhs) != 1 {
			return "", false
		}
		c, ok := as.Rhs[0].(*ast.CallExpr)
		if !ok || callName(c) != "exec" || len(c.Args) != 1 {
			return "", false
		}
		return strLit(c.Args[0])
	}
	migVerTables = [2]string{"", ""}
	ast.Inspect(fd.Body, func(n ast.Node) bool {
		if as, ok := n.(*ast.AssignStmt); ok && as.Tok == token.DEFINE && len(as.Lhs) == 1 && len(as.Rhs) == 1 {
			if id, ok := as.Lhs[0].(*ast.Ident); ok && id.Name == "verTable" {
				if s, ok := strLit(as.Rhs[0]); ok {
					migVerTables[0] = s
				}
			}
		}
		return true
	})
	for _, st := range fd.Body.List {
		if lit, ok := execLit(st); ok {
			if stage != 0 {
				return nil, fmt.Errorf("updateScripts: a bootstrap statement after the version read")
			}
			boots = append(boots, bootLit{lit, false})
			continue
		}
		switch x := st.(type) {
		case *ast.IfStmt:
			cond := nodeSrc(x.Cond)
			if cond == "clusterName != \"\"" && stage == 0 {
				for _, inner := range x.Body.List {
					if lit, ok := execLit(inner); ok {
						boots = append(boots, bootLit{lit, true})
					}
					if as, ok := inner.(*ast.AssignStmt); ok && len(as.Lhs) == 1 && len(as.Rhs) == 1 {
						if id, ok := as.Lhs[0].(*ast.Ident); ok && id.Name == "verTable" {
							if s, ok := strLit(as.Rhs[0]); ok {
								migVerTables[1] = s
							}
						}
					}
				}
			}
			if cond == "k >= 0" && stage == 0 {
				ast.Inspect(x.Body, func(n ast.Node) bool {
					if c, ok := n.(*ast.CallExpr); ok && callName(c) == "fmt.Sprintf" && len(c.Args) >= 1 {
						if s, ok := strLit(c.Args[0]); ok {
							migVersionRead = s
						}
					}
					return true
				})
				if !strings.Contains(nodeSrc(x.Body), "rows.Scan(&ver)") {
					migVersionRead += " (not scanned into ver)"
				}
				stage = 1
			}
		case *ast.ForStmt:
			if stage == 2 {
				return nil, fmt.Errorf("updateScripts: more than one loop")
			}
			hdr := strings.Join(strings.Fields(nodeSrc(x.Init)+"; "+nodeSrc(x.Cond)+"; "+nodeSrc(x.Post)), " ")
			if stage == 0 {
				hdr = "(before the version read) " + hdr
			}
			migLoopShape = []string{hdr}
			for _, bs := range x.Body.List {
				s := strings.Join(strings.Fields(nodeSrc(bs)), " ")
				switch {
				case strings.HasPrefix(s, "logger."):
				case strings.HasPrefix(s, "if err != nil {") && strings.HasSuffix(s, "return err }"):
					migLoopShape = append(migLoopShape, "if err != nil { return err }")
				default:
					migLoopShape = append(migLoopShape, s)
				}
			}
			stage = 2
		}
	}
	if len(boots) == 0 {
		return nil, fmt.Errorf("updateScripts: no bootstrap statement")
	}
	return boots, nil
}

var migVersionRead string
var migLoopShape []string
var migVerTables [2]string // the table the version is read from: without / with a configured cluster

func extractEmbeds() (map[string]string, error) {
	b, err := os.ReadFile(filepath.Join(repo, "ctrl/qryn/sql/sql.go"))
	if err != nil {
		return nil, err
	}
	res := map[string]string{}
	re := regexp.MustCompile(`(?m)^//go:embed (\S+)\nvar (\w+) string$`)
	for _, m := range re.FindAllStringSubmatch(string(b), -1) {
		res[m[2]] = m[1]
	}
	if len(res) == 0 {
		return nil, fmt.Errorf("sql.go: no go:embed variable")
	}
	return res, nil
}

func extractInitDB() (string, error) {
	fset, f, err := parseFile("ctrl/maintenance/shared.go")
	if err != nil {
		return "", err
	}
	_ = fset
	fd := findFunc(f, "", "InitDBTry")
	if fd == nil {
		return "", fmt.Errorf("InitDBTry not found")
	}
	var format string
	n := 0
	ast.Inspect(fd.Body, func(nd ast.Node) bool {
		if c, ok := nd.(*ast.CallExpr); ok && callName(c) == "fmt.Sprintf" && len(c.Args) == 4 {
			if s, ok := strLit(c.Args[0]); ok && strings.HasPrefix(s, "CREATE DATABASE") {
				format = s
				n++
			}
		}
		return true
	})
	if n != 1 {
		return "", fmt.Errorf("InitDBTry: CREATE DATABASE format not found")
	}
	// order of initialisation: ctrl.Init runs proj.init for every database, then proj.upgrade
	b, err := os.ReadFile(filepath.Join(repo, "ctrl/main.go"))
	if err != nil {
		return "", err
	}
	src := string(b)
	i0 := strings.Index(src, "func Init(")
	i1 := strings.Index(src, "func Rotate(")
	if i0 < 0 || i1 < i0 {
		return "", fmt.Errorf("ctrl/main.go: Init not found")
	}
	body := src[i0:i1]
	a, c := strings.Index(body, "proj.init(&db, logger.Logger)"), strings.Index(body, "proj.upgrade(config.Setting.DATABASE_DATA, logger.Logger)")
	if a < 0 || c < a {
		return "", fmt.Errorf("ctrl/main.go Init: proj.init no longer precedes proj.upgrade")
	}
	if !regexp.MustCompile(`"qryn": \{\s*maintenance\.InitDB,\s*maintenance\.UpgradeAll,`).MatchString(src) {
		return "", fmt.Errorf("ctrl/main.go: project qryn is not {InitDB, UpgradeAll, …}")
	}
	mb, err := os.ReadFile(filepath.Join(repo, "ctrl/qryn/maintenance/maintain.go"))
	if err != nil {
		return "", err
	}
	ms := string(mb)
	if !strings.Contains(ms, "maintenance.InitDBTry(conn, dbObject.ClusterName, dbObject.Name, dbObject.Cloud, logger)") {
		return "", fmt.Errorf("maintain.go InitDB does not call InitDBTry(conn, ClusterName, Name, Cloud, logger)")
	}
	if !strings.Contains(ms, "return Update(conn, dbObject.Name, dbObject.ClusterName, mode, dbObject.TTLDays,") ||
		!strings.Contains(ms, "mode := CLUST_MODE_SINGLE\n\tif dbObject.Cloud {\n\t\tmode = CLUST_MODE_CLOUD\n\t}\n\tif dbObject.ClusterName != \"\" {\n\t\tmode |= CLUST_MODE_DISTRIBUTED\n\t}") {
		return "", fmt.Errorf("maintain.go upgradeDB: mode computation / Update call changed")
	}
	return format, nil
}

type nameTable struct {
	ids   map[string]int
	names []string
}

func (t *nameTable) id(n string) int {
	if i, ok := t.ids[n]; ok {
		return i
	}
	i := len(t.names)
	t.ids[n] = i
	t.names = append(t.names, n)
	return i
}
func (t *nameTable) list(ns []string) string {
	p := make([]string, len(ns))
	for i, n := range ns {
		p[i] = strconv.Itoa(t.id(n))
	}
	return "[" + strings.Join(p, ", ") + "]"
}

func leanBool(b bool) string {
	if b {
		return "true"
	}
	return "false"
}

func (t *nameTable) leanStmt(s ddl.Stmt) string {
	switch s.Op {
	case "createDatabase":
		return ".createDatabase " + leanBool(s.Guarded)
	case "create":
		return fmt.Sprintf(".create .%s %d %s %s %d %s", s.Kind, t.id(s.Name), leanBool(s.Guarded), t.list(s.Cols), s.Body, t.list(s.Needs))
	case "drop":
		return fmt.Sprintf(".drop %d %s", t.id(s.Name), leanBool(s.Guarded))
	case "rename":
		return fmt.Sprintf(".rename %d %d %s", t.id(s.Name), t.id(s.Dst), leanBool(s.Guarded))
	case "alter":
		var ops []string
		for _, o := range s.Ops {
			if o.Add {
				ops = append(ops, fmt.Sprintf(".addColumn %d %s", t.id(o.Col), leanBool(o.Guarded)))
			} else {
				ops = append(ops, fmt.Sprintf(".modifyOrderBy %d", o.Order))
			}
		}
		return fmt.Sprintf(".alter %d [%s]", t.id(s.Name), strings.Join(ops, ", "))
	case "insert":
		return fmt.Sprintf(".insert %d", t.id(s.Name))
	}
	panic("unknown op")
}

func genMigrations() (string, error) {
	var err error
	migFset = token.NewFileSet()
	rel := "ctrl/qryn/maintenance/update.go"
	migSrc, err = os.ReadFile(filepath.Join(repo, rel))
	if err != nil {
		return "", err
	}
	fset, f, err := parseFile(rel)
	if err != nil {
		return "", err
	}
	migFset = fset
	rule, err := extractSplitRule(f)
	if err != nil {
		return "", err
	}
	streams, err := extractStreams(f)
	if err != nil {
		return "", err
	}
	migVersionRead, migLoopShape = "", nil
	migResetInventory()
	boots, err := extractUpdateScripts(f)
	if err != nil {
		return "", err
	}
	embeds, err := extractEmbeds()
	if err != nil {
		return "", err
	}
	dbFormat, err := extractInitDB()
	if err != nil {
		return "", err
	}
	nt := &nameTable{ids: map[string]int{}}
	var b strings.Builder
	b.WriteString("import Qryn.Ctrl.MigrateCluster\nnamespace Qryn.Gen.Migrations\nopen Qryn.Ctrl.Migrate\n\n")
	fmt.Fprintf(&b, "/-- the four literals of `getSQLFile`: every match of the first two regular expressions is deleted, the text is split\n    on the third, every piece is trimmed of the characters of the fourth, empty pieces are dropped -/\n")
	fmt.Fprintf(&b, "def splitRule : List String := [%s, %s, %s, %s]\n\n", leanStr(rule.Blank), leanStr(rule.Comment), leanStr(rule.Sep), leanStr(rule.Trim))

	var shape []string
	for _, x := range migLoopShape {
		shape = append(shape, leanStr(x))
	}
	fmt.Fprintf(&b, "/-- `updateScripts`: the format of the version read, and the script loop (header, then its statements with\n    logger calls dropped and `if err != nil { …; return err }` normalised) -/\ndef versionRead : String := %s\ndef loopShape : List String := [%s]\n\n", leanStr(migVersionRead), strings.Join(shape, ",\n  "))
	if migVerTables[1] == "" {
		migVerTables[1] = migVerTables[0] // no assignment in the cluster branch: the local table is read
	}
	fmt.Fprintf(&b, "/-- the table the version is read from (`verTable`): without a cluster, with a configured cluster -/\ndef verTables : List String := [%s, %s]\n\n", leanStr(migVerTables[0]), leanStr(migVerTables[1]))
	// CREATE DATABASE (cluster clause instantiated like InitDBTry does)
	var body strings.Builder
	for _, m := range migModes {
		on := ""
		if m.Cluster != "" {
			on = fmt.Sprintf("ON CLUSTER `%s`", m.Cluster)
		}
		q := fmt.Sprintf(dbFormat, ddl.DBName, on, "")
		st, err := ddl.Parse(q, ddl.DBName)
		if err != nil {
			return "", fmt.Errorf("InitDBTry statement %q: %v", q, err)
		}
		fmt.Fprintf(&body, "def initdb_%s : List Stmt := [%s]\n", m.Name, nt.leanStmt(st))
		fmt.Fprintf(&body, "def createDb_%s : CStmt := ⟨%s, %s⟩\n", m.Name, nt.leanStmt(st), leanBool(st.OnCluster))
	}
	// bootstrap statements per mode
	for _, m := range migModes {
		env := envFor(m)
		var items, ocs []string
		for _, bl := range boots {
			if bl.cluster && m.Cluster == "" {
				continue
			}
			q, err := renderTpl(bl.tpl, env)
			if err != nil {
				return "", err
			}
			st, err := ddl.Parse(q, ddl.DBName)
			if err != nil {
				return "", fmt.Errorf("bootstrap statement %q: %v", q, err)
			}
			items = append(items, nt.leanStmt(st))
			ocs = append(ocs, leanBool(st.OnCluster))
			migUse(fmt.Sprintf("bootstrap#%d", len(items)), bl.tpl)
			if err := migGridCheck(bl.tpl, m, st, fmt.Sprintf("bootstrap#%d", len(items))); err != nil {
				return "", err
			}
		}
		fmt.Fprintf(&body, "def boot_%s : List Stmt := [%s]\n", m.Name, strings.Join(items, ",\n  "))
		fmt.Fprintf(&body, "def boot_oc_%s : List Bool := [%s]\n", m.Name, strings.Join(ocs, ", "))
	}
	// script files
	type fileInfo struct{ v, file, base string }
	var files []fileInfo
	for _, s := range streams {
		file, ok := embeds[s.varName]
		if !ok {
			return "", fmt.Errorf("sql.%s is not a go:embed variable of sql.go", s.varName)
		}
		files = append(files, fileInfo{s.varName, file, strings.TrimSuffix(file, ".sql")})
	}
	if len(embeds) != len(streams) {
		return "", fmt.Errorf("sql.go embeds %d files, Update runs %d streams", len(embeds), len(streams))
	}
	counts := map[string]int{}
	for _, fi := range files {
		raw, err := os.ReadFile(filepath.Join(repo, "ctrl/qryn/sql", fi.file))
		if err != nil {
			return "", err
		}
		scripts, err := ddl.Split(string(raw), rule)
		if err != nil {
			return "", err
		}
		if len(scripts) == 0 {
			return "", fmt.Errorf("%s: no statement", fi.file)
		}
		counts[fi.file] = len(scripts)
		for _, m := range migModes {
			env := envFor(m)
			var items, ocs []string
			for i, sc := range scripts {
				q, err := renderTpl(sc, env)
				if err != nil {
					return "", fmt.Errorf("%s#%d: %v", fi.file, i+1, err)
				}
				st, err := ddl.Parse(q, ddl.DBName)
				if err != nil {
					return "", fmt.Errorf("%s#%d (%s): %v", fi.file, i+1, m.Name, err)
				}
				items = append(items, fmt.Sprintf("/- %s#%d -/ %s", fi.file, i+1, nt.leanStmt(st)))
				ocs = append(ocs, leanBool(st.OnCluster))
				migUse(fmt.Sprintf("%s#%d", fi.file, i+1), sc)
				// the parameters may change the identity of an object's text and nothing else
				if err := migGridCheck(sc, m, st, fmt.Sprintf("%s#%d", fi.file, i+1)); err != nil {
					return "", err
				}
				if st.Op == "create" {
					if prev, dup := migBodies[m.Name][st.Body]; dup {
						return "", fmt.Errorf("%s#%d (%s): text identity %d collides with %s", fi.file, i+1, m.Name, st.Body, prev)
					}
					migBodies[m.Name][st.Body] = fmt.Sprintf("%s#%d", fi.file, i+1)
				}
			}
			fmt.Fprintf(&body, "def %s_%s : List Stmt := [\n  %s]\n", fi.base, m.Name, strings.Join(items, ",\n  "))
			fmt.Fprintf(&body, "def %s_oc_%s : List Bool := [%s]\n", fi.base, m.Name, strings.Join(ocs, ", "))
		}
	}
	// names
	var ns []string
	for _, n := range nt.names {
		ns = append(ns, leanStr(n))
	}
	fmt.Fprintf(&b, "/-- object and column names; statements refer to them by index -/\ndef names : List String := [%s]\n\n", strings.Join(ns, ", "))
	b.WriteString(body.String())
	b.WriteString("\n")
	sel := func(prefix string) string {
		var arms []string
		for _, m := range migModes {
			arms = append(arms, fmt.Sprintf("| .%s => %s_%s", m.Ctor, prefix, m.Name))
		}
		return "match m with " + strings.Join(arms, " ")
	}
	fmt.Fprintf(&b, "def initdb (m : Mode) : List Stmt := %s\n", sel("initdb"))
	fmt.Fprintf(&b, "def boot (m : Mode) : List Stmt := %s\n", sel("boot"))
	fmt.Fprintf(&b, "def createDb (m : Mode) : CStmt := %s\n", sel("createDb"))
	fmt.Fprintf(&b, "def boot_oc (m : Mode) : List Bool := %s\n", sel("boot_oc"))
	for _, fi := range files {
		fmt.Fprintf(&b, "def %s (m : Mode) : List Stmt := %s\n", fi.base, sel(fi.base))
		fmt.Fprintf(&b, "def %s_oc (m : Mode) : List Bool := %s\n", fi.base, sel(fi.base+"_oc"))
	}
	// streams in the order of Update: (key, file, cluster-only)
	var sl []string
	for i, s := range streams {
		sl = append(sl, fmt.Sprintf("(%d, %s, %s)", s.k, leanStr(files[i].file), leanBool(s.distOnly)))
	}
	fmt.Fprintf(&b, "\n/-- the `updateScripts` calls of `Update` in order: stream key, file, only when a cluster is configured -/\ndef streams : List (Nat × String × Bool) := [%s]\n", strings.Join(sl, ", "))
	// every statement of every file, whether or not the mode runs it
	var all []string
	for _, fi := range files {
		all = append(all, fi.base+" m")
	}
	fmt.Fprintf(&b, "\n/-- the whole extracted table for a mode: CREATE DATABASE, bootstrap statements, all six files -/\ndef table (m : Mode) : List Stmt := initdb m ++ boot m ++ %s\n", strings.Join(all, " ++ "))
	// the program
	b.WriteString("\n/-- `InitDBTry` followed by `Update` without a configured cluster -/\ndef program (m : Mode) : List Phase :=\n  [⟨initdb m, none⟩")
	for i, s := range streams {
		if s.distOnly {
			continue
		}
		fmt.Fprintf(&b, ",\n   ⟨boot m, some (%d, %s m)⟩", s.k, files[i].base)
	}
	b.WriteString("]\n")
	// with a cluster: all streams in order
	b.WriteString("\n/-- … and with one (`CLUST_MODE_DISTRIBUTED`) -/\ndef programClustered (m : Mode) : List Phase :=\n  [⟨initdb m, none⟩")
	for i, s := range streams {
		fmt.Fprintf(&b, ",\n   ⟨boot m, some (%d, %s m)⟩", s.k, files[i].base)
	}
	b.WriteString("]\n\n/-- a cluster name is configured -/\ndef isDist : Mode → Bool\n")
	for _, m := range migModes {
		fmt.Fprintf(&b, "  | .%s => %s\n", m.Ctor, leanBool(m.Cluster != ""))
	}
	b.WriteString("\n/-- what a start executes in each mode -/\ndef prog (m : Mode) : List Phase := if isDist m then programClustered m else program m\n")
	// the same with the ON CLUSTER flags: what the cluster model executes
	b.WriteString("\ndef cz (ss : List Stmt) (oc : List Bool) : List CStmt := List.zipWith CStmt.mk ss oc\n")
	b.WriteString("\n/-- the `updateScripts` calls of `Update` with, for every statement, whether its instantiated text carries `ON CLUSTER` -/\ndef cphases (m : Mode) : List CPhase :=\n  if isDist m then [")
	for i, s := range streams {
		if i > 0 {
			b.WriteString(",\n    ")
		}
		fmt.Fprintf(&b, "⟨cz (boot m) (boot_oc m), some (%d, cz (%s m) (%s_oc m))⟩", s.k, files[i].base, files[i].base)
	}
	b.WriteString("]\n  else [")
	first := true
	for i, s := range streams {
		if s.distOnly {
			continue
		}
		if !first {
			b.WriteString(",\n    ")
		}
		first = false
		fmt.Fprintf(&b, "⟨cz (boot m) (boot_oc m), some (%d, cz (%s m) (%s_oc m))⟩", s.k, files[i].base, files[i].base)
	}
	b.WriteString("]\n\n/-- `ctrl.Init` for one database: `skip` = the database name is \"\" or `default` (InitDB returns at once) -/\n")
	b.WriteString("def cprog (m : Mode) (skip : Bool) : CProg := ⟨isDist m, skip, createDb m, cphases m⟩\n")
	b.WriteString(migInventory())
	b.WriteString("end Qryn.Gen.Migrations\n")
	return b.String(), nil
}
