package main

// Gen.AuthConfig (C20): the configuration path that decides WHICH credentials main() hands to BasicAuthMiddleware and
// WHETHER the middleware is installed:
//   * main.go portEnv: every statement that touches cfg.Setting.AUTH_SETTINGS.BASIC.{Username,Password}, in program
//     order, as a plan of `if cond { field = value; … }` statements in the language of Qryn.Http.AuthConfig
//     (values: os.Getenv("K"), string literals, the two fields; conditions: ==/!= "", len(..) ==/!=/> 0, && || !).
//     A `for _, x := range []string{…}` loop over literals is unrolled (constant string concatenation folded,
//     `if c { continue }` turned into a guard of the rest of the body). Anything else that mentions the credentials
//     fails closed. Statements that do not mention them must not return before the last credential statement except
//     as `if err != nil { return err }` (main() panics on that error: nothing is served).
//   * main.go main: cfg := clconfig.New(…); cfg.ReadConfig(); err := portEnv(cfg); if err != nil { panic(err) };
//     … ; app := mux.NewRouter(); if GUARD { app.Use(middleware.BasicAuthMiddleware(A, B)) } — that order, nothing
//     in between mentioning the credentials; GUARD / A / B as plan terms, and GUARD's text (= Gen.Routes.authGuard).
//   * reader/main.go applyMiddlewares: the guard/arguments of the reader-owned server path, over config.Cloki which
//     reader.Init assigns from its parameter first.
//   * module-wide (non-test code): every write of (or address taken inside) AUTH_SETTINGS, every assignment to a
//     `.Setting` field or through a dereferenced pointer named like the config, every os.Setenv/Unsetenv/Clearenv,
//     every assignment of config.Cloki, every read of the credentials — so that nothing outside the plan changes or
//     consumes them.

import (
	"fmt"
	"go/ast"
	"go/parser"
	"go/token"
	"os"
	"path/filepath"
	"sort"
	"strings"
)

type acVal struct {
	kind string // "env" "lit" "field"
	s    string // variable name / literal / "user"|"pass"
}

func (v acVal) lean() string {
	switch v.kind {
	case "env":
		return ".env " + leanStr(v.s)
	case "lit":
		return ".lit " + leanBytes(v.s)
	}
	return ".field ." + v.s
}

type acCond struct {
	op   string // "tt" "nonEmpty" "isEmpty" "and" "or" "not"
	v    acVal
	a, b *acCond
}

func (c *acCond) lean() string {
	switch c.op {
	case "tt":
		return ".tt"
	case "nonEmpty", "isEmpty":
		return "." + c.op + " (" + c.v.lean() + ")"
	case "not":
		return ".not (" + c.a.lean() + ")"
	}
	return "." + c.op + " (" + c.a.lean() + ") (" + c.b.lean() + ")"
}

func (c *acCond) mentionsField() bool {
	switch c.op {
	case "tt":
		return false
	case "nonEmpty", "isEmpty":
		return c.v.kind == "field"
	case "not":
		return c.a.mentionsField()
	}
	return c.a.mentionsField() || c.b.mentionsField()
}

func acAnd(a, b *acCond) *acCond {
	if a.op == "tt" {
		return b
	}
	if b.op == "tt" {
		return a
	}
	return &acCond{op: "and", a: a, b: b}
}

type acAssign struct {
	field string
	v     acVal
}

type acStmt struct {
	guard   *acCond
	assigns []acAssign
}

func (s acStmt) lean() string {
	var as []string
	for _, a := range s.assigns {
		as = append(as, "(."+a.field+", "+a.v.lean()+")")
	}
	return "⟨" + s.guard.lean() + ", [" + strings.Join(as, ", ") + "]⟩"
}

// acCtx: translation context of one function
type acCtx struct {
	fset   *token.FileSet
	base   string            // text of the expression holding the *ClokiConfig ("cfg", "config.Cloki")
	locals map[string]acVal  // string locals bound to an env / literal value
	consts map[string]string // loop variables bound to a literal (while unrolling)
}

func acMentionsCreds(n ast.Node) bool {
	found := false
	ast.Inspect(n, func(m ast.Node) bool {
		if se, ok := m.(*ast.SelectorExpr); ok && (se.Sel.Name == "AUTH_SETTINGS" || se.Sel.Name == "BASIC") {
			found = true
		}
		return !found
	})
	return found
}

// constStr folds a constant string expression: literals, loop constants, +
func (c *acCtx) constStr(e ast.Expr) (string, bool) {
	switch x := e.(type) {
	case *ast.BasicLit:
		return strLit(x)
	case *ast.ParenExpr:
		return c.constStr(x.X)
	case *ast.Ident:
		s, ok := c.consts[x.Name]
		return s, ok
	case *ast.BinaryExpr:
		if x.Op == token.ADD {
			a, ok1 := c.constStr(x.X)
			b, ok2 := c.constStr(x.Y)
			return a + b, ok1 && ok2
		}
	}
	return "", false
}

func (c *acCtx) field(e ast.Expr) (string, bool) {
	se, ok := e.(*ast.SelectorExpr)
	if !ok {
		return "", false
	}
	var f string
	switch se.Sel.Name {
	case "Username":
		f = "user"
	case "Password":
		f = "pass"
	default:
		return "", false
	}
	if exprText(se.X) != c.base+".Setting.AUTH_SETTINGS.BASIC" {
		return "", false
	}
	return f, true
}

func (c *acCtx) val(e ast.Expr) (acVal, error) {
	if p, ok := e.(*ast.ParenExpr); ok {
		return c.val(p.X)
	}
	if f, ok := c.field(e); ok {
		return acVal{"field", f}, nil
	}
	if s, ok := c.constStr(e); ok {
		return acVal{"lit", s}, nil
	}
	if id, ok := e.(*ast.Ident); ok {
		if v, ok := c.locals[id.Name]; ok {
			return v, nil
		}
	}
	if ce, ok := e.(*ast.CallExpr); ok && exprText(ce.Fun) == "os.Getenv" && len(ce.Args) == 1 {
		if k, ok := c.constStr(ce.Args[0]); ok {
			return acVal{"env", k}, nil
		}
	}
	return acVal{}, fmt.Errorf("value %q is not os.Getenv(<constant>), a string constant, a credential field or a local bound to one of these", exprStr(c.fset, e))
}

func (c *acCtx) cond(e ast.Expr) (*acCond, error) {
	switch x := e.(type) {
	case *ast.ParenExpr:
		return c.cond(x.X)
	case *ast.UnaryExpr:
		if x.Op == token.NOT {
			a, err := c.cond(x.X)
			if err != nil {
				return nil, err
			}
			return &acCond{op: "not", a: a}, nil
		}
	case *ast.BinaryExpr:
		switch x.Op {
		case token.LAND, token.LOR:
			a, err := c.cond(x.X)
			if err != nil {
				return nil, err
			}
			b, err := c.cond(x.Y)
			if err != nil {
				return nil, err
			}
			op := "and"
			if x.Op == token.LOR {
				op = "or"
			}
			return &acCond{op: op, a: a, b: b}, nil
		case token.EQL, token.NEQ, token.GTR:
			// len(v) ==/!=/> 0
			if ce, ok := x.X.(*ast.CallExpr); ok && exprText(ce.Fun) == "len" && len(ce.Args) == 1 {
				if bl, ok := x.Y.(*ast.BasicLit); ok && bl.Kind == token.INT && bl.Value == "0" {
					v, err := c.val(ce.Args[0])
					if err != nil {
						return nil, err
					}
					if x.Op == token.EQL {
						return &acCond{op: "isEmpty", v: v}, nil
					}
					return &acCond{op: "nonEmpty", v: v}, nil
				}
			}
			if x.Op == token.GTR {
				break
			}
			// v ==/!= ""   or   "" ==/!= v
			l, r := x.X, x.Y
			if s, ok := strLit(l); ok && s == "" {
				l, r = r, l
			}
			if s, ok := strLit(r); ok && s == "" {
				v, err := c.val(l)
				if err != nil {
					return nil, err
				}
				if x.Op == token.EQL {
					return &acCond{op: "isEmpty", v: v}, nil
				}
				return &acCond{op: "nonEmpty", v: v}, nil
			}
		}
	}
	return nil, fmt.Errorf("condition %q is not built from v == \"\", v != \"\", len(v) ==/!=/> 0, &&, ||, !", exprStr(c.fset, e))
}

// define records `x := <value>` / `x, y := a, b` / `var x = …` of env/literal values; reports whether st was one.
func (c *acCtx) define(st ast.Stmt) bool {
	as, ok := st.(*ast.AssignStmt)
	if !ok || as.Tok != token.DEFINE || len(as.Lhs) != len(as.Rhs) {
		return false
	}
	vals := make([]acVal, len(as.Rhs))
	for i, r := range as.Rhs {
		v, err := c.val(r)
		if err != nil || v.kind == "field" {
			return false
		}
		if _, ok := as.Lhs[i].(*ast.Ident); !ok {
			return false
		}
		vals[i] = v
	}
	for i, l := range as.Lhs {
		c.locals[l.(*ast.Ident).Name] = vals[i]
	}
	return true
}

// poison: a statement that is not a recognised definition assigns to a tracked local → forget it
func (c *acCtx) poison(st ast.Stmt) {
	ast.Inspect(st, func(n ast.Node) bool {
		switch x := n.(type) {
		case *ast.AssignStmt:
			for _, l := range x.Lhs {
				if id, ok := l.(*ast.Ident); ok {
					delete(c.locals, id.Name)
				}
			}
		case *ast.IncDecStmt:
			if id, ok := x.X.(*ast.Ident); ok {
				delete(c.locals, id.Name)
			}
		case *ast.UnaryExpr:
			if id, ok := x.X.(*ast.Ident); ok && x.Op == token.AND {
				delete(c.locals, id.Name)
			}
		case *ast.RangeStmt:
			for _, e := range []ast.Expr{x.Key, x.Value} {
				if id, ok := e.(*ast.Ident); ok {
					delete(c.locals, id.Name)
				}
			}
		}
		return true
	})
}

// assigns translates a block consisting only of `field = value` statements
func (c *acCtx) assignList(list []ast.Stmt) ([]acAssign, error) {
	var out []acAssign
	for _, st := range list {
		as, ok := st.(*ast.AssignStmt)
		if !ok || as.Tok != token.ASSIGN || len(as.Lhs) != len(as.Rhs) {
			return nil, fmt.Errorf("statement %q next to a credential assignment is not a plain assignment of a credential field", exprStr(c.fset, st))
		}
		// a tuple assignment evaluates all right-hand sides first: only accepted when no right-hand side reads a field
		var vs []acVal
		for _, r := range as.Rhs {
			v, err := c.val(r)
			if err != nil {
				return nil, err
			}
			if v.kind == "field" && len(as.Lhs) > 1 {
				return nil, fmt.Errorf("tuple assignment %q reads a credential field", exprStr(c.fset, st))
			}
			vs = append(vs, v)
		}
		for i, l := range as.Lhs {
			f, ok := c.field(l)
			if !ok {
				return nil, fmt.Errorf("assignment target %q is not %s.Setting.AUTH_SETTINGS.BASIC.Username/Password", exprStr(c.fset, l), c.base)
			}
			out = append(out, acAssign{f, vs[i]})
		}
	}
	return out, nil
}

func acIsContinueIf(st ast.Stmt) (ast.Expr, bool) {
	is, ok := st.(*ast.IfStmt)
	if !ok || is.Init != nil || is.Else != nil || len(is.Body.List) != 1 {
		return nil, false
	}
	bs, ok := is.Body.List[0].(*ast.BranchStmt)
	if !ok || bs.Tok != token.CONTINUE || bs.Label != nil {
		return nil, false
	}
	return is.Cond, true
}

func acHasJump(n ast.Node) bool {
	found := false
	ast.Inspect(n, func(m ast.Node) bool {
		switch x := m.(type) {
		case *ast.ReturnStmt, *ast.BranchStmt, *ast.GoStmt, *ast.DeferStmt, *ast.LabeledStmt:
			found = true
		case *ast.CallExpr:
			if id, ok := x.Fun.(*ast.Ident); ok && id.Name == "panic" {
				found = true
			}
			if t := exprText(x.Fun); t == "os.Exit" || strings.HasPrefix(t, "log.Fatal") {
				found = true
			}
		case *ast.FuncLit:
			return false
		}
		return !found
	})
	return found
}

// stmts translates a statement list under an outer guard. inLoop: `if c { continue }` allowed.
func (c *acCtx) stmts(list []ast.Stmt, outer *acCond, inLoop bool) ([]acStmt, error) {
	var out []acStmt
	for i := 0; i < len(list); i++ {
		st := list[i]
		if inLoop {
			if ce, ok := acIsContinueIf(st); ok {
				cc, err := c.cond(ce)
				if err != nil {
					return nil, err
				}
				if cc.mentionsField() {
					return nil, fmt.Errorf("`continue` condition %q reads a credential field", exprStr(c.fset, ce))
				}
				outer = acAnd(outer, &acCond{op: "not", a: cc})
				continue
			}
		}
		if !acMentionsCreds(st) {
			if c.define(st) {
				continue
			}
			if inLoop && acHasJump(st) {
				return nil, fmt.Errorf("loop body statement %q leaves the iteration", exprStr(c.fset, st))
			}
			c.poison(st)
			continue
		}
		switch x := st.(type) {
		case *ast.AssignStmt:
			// a run of consecutive plain assignments is ONE statement of the plan (the guard is evaluated once)
			j := i
			for j+1 < len(list) {
				if as, ok := list[j+1].(*ast.AssignStmt); ok && as.Tok == token.ASSIGN && acMentionsCreds(as) {
					j++
				} else {
					break
				}
			}
			as, err := c.assignList(list[i : j+1])
			if err != nil {
				return nil, err
			}
			out = append(out, acStmt{outer, as})
			if outer.mentionsField() && j+1 < len(list) {
				for _, rest := range list[j+1:] {
					if acMentionsCreds(rest) {
						return nil, fmt.Errorf("credential statements after %q under a guard that reads a credential field", exprStr(c.fset, st))
					}
				}
			}
			i = j
		case *ast.IfStmt:
			if x.Else != nil {
				return nil, fmt.Errorf("credential statement with an else branch: %q", exprStr(c.fset, st))
			}
			saved := map[string]acVal{}
			for k, v := range c.locals {
				saved[k] = v
			}
			if x.Init != nil && !c.define(x.Init) {
				return nil, fmt.Errorf("if-initialiser %q is not a definition of string locals from os.Getenv/constants", exprStr(c.fset, x.Init))
			}
			g, err := c.cond(x.Cond)
			if err != nil {
				return nil, err
			}
			if outer.mentionsField() {
				return nil, fmt.Errorf("nested credential statement under a guard that reads a credential field: %q", exprStr(c.fset, st))
			}
			as, err := c.assignList(x.Body.List)
			if err != nil {
				return nil, err
			}
			out = append(out, acStmt{acAnd(outer, g), as})
			c.locals = saved
		case *ast.RangeStmt:
			if inLoop {
				return nil, fmt.Errorf("nested loop over credential statements")
			}
			cl, ok := x.X.(*ast.CompositeLit)
			if !ok {
				return nil, fmt.Errorf("loop %q does not range over a slice literal of string constants", exprStr(c.fset, x.X))
			}
			if k, ok := x.Key.(*ast.Ident); x.Key != nil && (!ok || k.Name != "_") {
				return nil, fmt.Errorf("loop over credential statements uses its index")
			}
			v, ok := x.Value.(*ast.Ident)
			if !ok {
				return nil, fmt.Errorf("loop over credential statements has no value variable")
			}
			if outer.op != "tt" {
				return nil, fmt.Errorf("loop over credential statements under a guard")
			}
			for _, el := range cl.Elts {
				s, ok := c.constStr(el)
				if !ok {
					return nil, fmt.Errorf("loop element %q is not a string constant", exprStr(c.fset, el))
				}
				saved := map[string]acVal{}
				for k, vv := range c.locals {
					saved[k] = vv
				}
				c.consts[v.Name] = s
				sub, err := c.stmts(x.Body.List, &acCond{op: "tt"}, true)
				delete(c.consts, v.Name)
				c.locals = saved
				if err != nil {
					return nil, err
				}
				out = append(out, sub...)
			}
		default:
			return nil, fmt.Errorf("unrecognised statement touching the credentials: %q", exprStr(c.fset, st))
		}
	}
	return out, nil
}

func acIsErrReturn(st ast.Stmt) bool {
	is, ok := st.(*ast.IfStmt)
	if !ok || is.Init != nil || is.Else != nil || exprText(is.Cond) != "err!=nil" || len(is.Body.List) != 1 {
		return false
	}
	rs, ok := is.Body.List[0].(*ast.ReturnStmt)
	if !ok || len(rs.Results) != 1 {
		return false
	}
	if id, ok := rs.Results[0].(*ast.Ident); ok && id.Name == "nil" {
		return false
	}
	return true
}

func acIsErrPanic(st ast.Stmt) bool {
	is, ok := st.(*ast.IfStmt)
	if !ok || is.Init != nil || is.Else != nil || exprText(is.Cond) != "err!=nil" || len(is.Body.List) != 1 {
		return false
	}
	es, ok := is.Body.List[0].(*ast.ExprStmt)
	if !ok {
		return false
	}
	ce, ok := es.X.(*ast.CallExpr)
	return ok && exprText(ce.Fun) == "panic"
}

// acInstall: `if GUARD { router.Use(middleware.BasicAuthMiddleware(A, B)) }`
func (c *acCtx) install(st ast.Stmt) (string, string, error) {
	is, ok := st.(*ast.IfStmt)
	if !ok || is.Init != nil || is.Else != nil || len(is.Body.List) != 1 {
		return "", "", fmt.Errorf("the statement installing BasicAuthMiddleware is not `if guard { x.Use(…) }`: %q", exprStr(c.fset, st))
	}
	es, ok := is.Body.List[0].(*ast.ExprStmt)
	if !ok {
		return "", "", fmt.Errorf("auth install body is not a call")
	}
	use, ok := es.X.(*ast.CallExpr)
	if !ok || len(use.Args) != 1 {
		return "", "", fmt.Errorf("auth install body is not x.Use(one argument)")
	}
	if se, ok := use.Fun.(*ast.SelectorExpr); !ok || se.Sel.Name != "Use" {
		return "", "", fmt.Errorf("auth install body is not x.Use(…)")
	}
	mw, ok := use.Args[0].(*ast.CallExpr)
	if !ok || exprText(mw.Fun) != "middleware.BasicAuthMiddleware" || len(mw.Args) != 2 {
		return "", "", fmt.Errorf("auth install does not call middleware.BasicAuthMiddleware(login, pass)")
	}
	g, err := c.cond(is.Cond)
	if err != nil {
		return "", "", err
	}
	a, err := c.val(mw.Args[0])
	if err != nil {
		return "", "", err
	}
	b, err := c.val(mw.Args[1])
	if err != nil {
		return "", "", err
	}
	text := strings.Join(strings.Fields(exprStr(c.fset, is.Cond)), " ")
	return "⟨" + g.lean() + ", " + a.lean() + ", " + b.lean() + "⟩", text, nil
}

func acInstallsAuth(st ast.Stmt) bool {
	found := false
	ast.Inspect(st, func(n ast.Node) bool {
		if ce, ok := n.(*ast.CallExpr); ok && strings.HasSuffix(exprText(ce.Fun), "BasicAuthMiddleware") {
			found = true
		}
		return !found
	})
	return found
}

// acModuleScan: module-wide census (non-test code)
type acCensus struct {
	credWrites, settingWrites, setenv, clokiAssign, credReads []string
}

func acScan() (*acCensus, error) {
	res := &acCensus{}
	err := filepath.Walk(repo, func(path string, info os.FileInfo, e error) error {
		if e != nil {
			return e
		}
		if info.IsDir() {
			if n := info.Name(); n == ".git" || n == "node_modules" || n == "vendor" {
				return filepath.SkipDir
			}
			return nil
		}
		if !strings.HasSuffix(path, ".go") || strings.HasSuffix(path, "_test.go") {
			return nil
		}
		fset := token.NewFileSet()
		f, e := parser.ParseFile(fset, path, nil, 0)
		if e != nil {
			return nil // a file that does not parse cannot be part of the build
		}
		rel, _ := filepath.Rel(repo, path)
		for _, d := range f.Decls {
			site := rel + ":<package level>"
			if fd, ok := d.(*ast.FuncDecl); ok {
				site = rel + ":" + fd.Name.Name
			}
			written := map[ast.Node]bool{}
			markWrite := func(e ast.Expr) {
				if acMentionsCreds(e) {
					res.credWrites = append(res.credWrites, site)
					ast.Inspect(e, func(n ast.Node) bool { written[n] = true; return true })
				}
				switch x := e.(type) {
				case *ast.SelectorExpr:
					if x.Sel.Name == "Setting" {
						res.settingWrites = append(res.settingWrites, site+": "+exprText(x))
					}
				case *ast.StarExpr:
					t := strings.ToLower(exprText(x.X))
					if strings.Contains(t, "cfg") || strings.Contains(t, "cnf") || strings.Contains(t, "config") || strings.Contains(t, "cloki") || strings.Contains(t, "setting") {
						res.settingWrites = append(res.settingWrites, site+": *"+exprText(x.X))
					}
				}
			}
			ast.Inspect(d, func(n ast.Node) bool {
				switch x := n.(type) {
				case *ast.AssignStmt:
					for _, l := range x.Lhs {
						markWrite(l)
						if exprText(l) == "config.Cloki" && len(x.Lhs) == len(x.Rhs) {
							for i := range x.Lhs {
								if exprText(x.Lhs[i]) == "config.Cloki" {
									res.clokiAssign = append(res.clokiAssign, site+": "+exprText(x.Rhs[i]))
								}
							}
						}
					}
				case *ast.IncDecStmt:
					markWrite(x.X)
				case *ast.UnaryExpr:
					if x.Op == token.AND {
						markWrite(x.X)
					}
				case *ast.CallExpr:
					switch exprText(x.Fun) {
					case "os.Setenv", "os.Unsetenv", "os.Clearenv", "syscall.Setenv", "syscall.Unsetenv", "syscall.Clearenv":
						res.setenv = append(res.setenv, site+":"+exprText(x.Fun))
					}
				}
				return true
			})
			ast.Inspect(d, func(n ast.Node) bool {
				if se, ok := n.(*ast.SelectorExpr); ok && se.Sel.Name == "AUTH_SETTINGS" && !written[se] {
					res.credReads = append(res.credReads, site)
				}
				return true
			})
		}
		return nil
	})
	for _, l := range []*[]string{&res.credWrites, &res.settingWrites, &res.setenv, &res.clokiAssign, &res.credReads} {
		sort.Strings(*l)
		// de-duplicate
		var out []string
		for i, s := range *l {
			if i == 0 || s != (*l)[i-1] {
				out = append(out, s)
			}
		}
		*l = out
	}
	return res, err
}

func acText(e ast.Expr) string {
	if se, ok := e.(*ast.StarExpr); ok {
		return "*" + acText(se.X)
	}
	return exprText(e)
}

func acUsesIdent(n ast.Node, name string) bool {
	found := false
	ast.Inspect(n, func(m ast.Node) bool {
		if id, ok := m.(*ast.Ident); ok && id.Name == name {
			found = true
		}
		return !found
	})
	return found
}

func acParam(fd *ast.FuncDecl) (string, bool) {
	if fd.Type.Params == nil {
		return "", false
	}
	for _, p := range fd.Type.Params.List {
		if se, ok := p.Type.(*ast.StarExpr); ok && exprText(se.X) == "clconfig.ClokiConfig" && len(p.Names) == 1 {
			return p.Names[0].Name, true
		}
	}
	return "", false
}

func init() {
	register("AuthConfig", func() (string, error) {
		fset, f, err := parseFile("main.go")
		if err != nil {
			return "", err
		}
		// ---- portEnv
		pe := findFunc(f, "", "portEnv")
		if pe == nil || pe.Body == nil {
			return "", fmt.Errorf("main.go: func portEnv not found")
		}
		cfgName, ok := acParam(pe)
		if !ok {
			return "", fmt.Errorf("portEnv has no *clconfig.ClokiConfig parameter")
		}
		ctx := &acCtx{fset: fset, base: cfgName, locals: map[string]acVal{}, consts: map[string]string{}}
		last := -1
		for i, st := range pe.Body.List {
			if acMentionsCreds(st) {
				last = i
			}
		}
		if last < 0 {
			return "", fmt.Errorf("portEnv no longer touches AUTH_SETTINGS")
		}
		var prefix []string
		for _, st := range pe.Body.List[:last] {
			if acMentionsCreds(st) {
				continue
			}
			if acIsErrReturn(st) {
				prefix = append(prefix, "if err != nil { return err }")
				continue
			}
			if acHasJump(st) {
				return "", fmt.Errorf("portEnv: statement %q before the last credential statement can leave the function", exprStr(fset, st))
			}
			// a call that receives the configuration: the callee (package main) must not mention the credentials
			var bad error
			ast.Inspect(st, func(n ast.Node) bool {
				ce, ok := n.(*ast.CallExpr)
				if !ok {
					return true
				}
				for _, a := range ce.Args {
					if exprText(a) == cfgName {
						id, ok := ce.Fun.(*ast.Ident)
						if !ok {
							bad = fmt.Errorf("portEnv passes the configuration to %s before the credential statements", exprText(ce.Fun))
							return false
						}
						callee := findFunc(f, "", id.Name)
						if callee == nil || callee.Body == nil {
							bad = fmt.Errorf("portEnv: callee %s not found in main.go", id.Name)
							return false
						}
						if acMentionsCreds(callee.Body) {
							bad = fmt.Errorf("%s (called by portEnv with the configuration) mentions the credentials", id.Name)
							return false
						}
						prefix = append(prefix, "call "+id.Name+"("+cfgName+")")
					}
				}
				return true
			})
			if bad != nil {
				return "", bad
			}
		}
		// the configuration parameter itself must not be re-bound in portEnv
		var rebind error
		ast.Inspect(pe.Body, func(n ast.Node) bool {
			if as, ok := n.(*ast.AssignStmt); ok {
				for _, l := range as.Lhs {
					if t := acText(l); t == cfgName || t == cfgName+".Setting" || t == "*"+cfgName {
						rebind = fmt.Errorf("portEnv re-binds %s", t)
					}
				}
			}
			return true
		})
		if rebind != nil {
			return "", rebind
		}
		plan, err := ctx.stmts(pe.Body.List[:last+1], &acCond{op: "tt"}, false)
		if err != nil {
			return "", fmt.Errorf("portEnv: %v", err)
		}
		if len(plan) == 0 {
			return "", fmt.Errorf("portEnv: no credential statement recognised")
		}

		// ---- main(): New → ReadConfig → portEnv → panic on error → … → NewRouter → guarded Use
		mf := findFunc(f, "", "main")
		if mf == nil || mf.Body == nil {
			return "", fmt.Errorf("main.go: func main not found")
		}
		var seq []string
		mainCfg := ""
		var installLean, guardText string
		stage := 0
		for i, st := range mf.Body.List {
			txt := exprStr(fset, st)
			switch {
			case stage == 0:
				if as, ok := st.(*ast.AssignStmt); ok && as.Tok == token.DEFINE && len(as.Lhs) == 1 && len(as.Rhs) == 1 {
					if ce, ok := as.Rhs[0].(*ast.CallExpr); ok && exprText(ce.Fun) == "clconfig.New" {
						mainCfg = exprText(as.Lhs[0])
						seq = append(seq, "clconfig.New")
						stage = 1
					}
				}
			case stage == 1:
				if es, ok := st.(*ast.ExprStmt); ok && exprText(es.X) == mainCfg+".ReadConfig()" {
					seq = append(seq, "ReadConfig")
					stage = 2
				} else if acUsesIdent(st, mainCfg) {
					return "", fmt.Errorf("main: statement %q uses the configuration before ReadConfig", txt)
				}
			case stage == 2:
				if as, ok := st.(*ast.AssignStmt); ok && len(as.Rhs) == 1 && exprText(as.Rhs[0]) == "portEnv("+mainCfg+")" && len(as.Lhs) == 1 && exprText(as.Lhs[0]) == "err" {
					if i+1 >= len(mf.Body.List) || !acIsErrPanic(mf.Body.List[i+1]) {
						return "", fmt.Errorf("main: the error of portEnv is not answered with panic")
					}
					seq = append(seq, "portEnv", "panic on error")
					stage = 3
				} else if acUsesIdent(st, mainCfg) {
					return "", fmt.Errorf("main: statement %q uses the configuration between ReadConfig and portEnv", txt)
				}
			case stage == 3 || stage == 4:
				if acInstallsAuth(st) {
					if stage != 4 {
						return "", fmt.Errorf("main: BasicAuthMiddleware installed before mux.NewRouter()")
					}
					mc := &acCtx{fset: fset, base: mainCfg, locals: map[string]acVal{}, consts: map[string]string{}}
					installLean, guardText, err = mc.install(st)
					if err != nil {
						return "", fmt.Errorf("main: %v", err)
					}
					seq = append(seq, "guarded Use(BasicAuthMiddleware)")
					stage = 5
					break
				}
				if acMentionsCreds(st) {
					return "", fmt.Errorf("main: statement %q touches the credentials between portEnv and the auth guard", txt)
				}
				if as, ok := st.(*ast.AssignStmt); ok {
					for _, l := range as.Lhs {
						if t := acText(l); t == mainCfg || t == mainCfg+".Setting" || t == "*"+mainCfg {
							return "", fmt.Errorf("main re-binds %s", t)
						}
					}
					if len(as.Rhs) == 1 && exprText(as.Rhs[0]) == "mux.NewRouter()" {
						seq = append(seq, "mux.NewRouter")
						stage = 4
					}
				}
			case stage == 5:
				if acInstallsAuth(st) {
					return "", fmt.Errorf("main: BasicAuthMiddleware installed twice")
				}
			}
		}
		if stage != 5 {
			return "", fmt.Errorf("main: expected cfg := clconfig.New; cfg.ReadConfig(); err := portEnv(cfg); if err != nil { panic }; …; mux.NewRouter(); if guard { Use(BasicAuthMiddleware) } — recognised only %v", seq)
		}

		// ---- reader-owned server path
		rfset, rf, err := parseFile("reader/main.go")
		if err != nil {
			return "", err
		}
		ri := findFunc(rf, "", "Init")
		if ri == nil || ri.Body == nil || len(ri.Body.List) == 0 {
			return "", fmt.Errorf("reader/main.go: Init not found")
		}
		rparam, ok := acParam(ri)
		if !ok {
			return "", fmt.Errorf("reader.Init has no *clconfig.ClokiConfig parameter")
		}
		if as, ok := ri.Body.List[0].(*ast.AssignStmt); !ok || len(as.Lhs) != 1 || exprText(as.Lhs[0]) != "config.Cloki" || exprText(as.Rhs[0]) != rparam {
			return "", fmt.Errorf("reader.Init does not start with config.Cloki = %s", rparam)
		}
		am := findFunc(rf, "", "applyMiddlewares")
		if am == nil || am.Body == nil {
			return "", fmt.Errorf("reader/main.go: applyMiddlewares not found")
		}
		readerLean := ""
		for _, st := range am.Body.List {
			if acInstallsAuth(st) {
				if readerLean != "" {
					return "", fmt.Errorf("reader.applyMiddlewares installs BasicAuthMiddleware twice")
				}
				rc := &acCtx{fset: rfset, base: "config.Cloki", locals: map[string]acVal{}, consts: map[string]string{}}
				readerLean, _, err = rc.install(st)
				if err != nil {
					return "", fmt.Errorf("reader.applyMiddlewares: %v", err)
				}
			} else if acMentionsCreds(st) {
				return "", fmt.Errorf("reader.applyMiddlewares: statement %q touches the credentials", exprStr(rfset, st))
			}
		}
		if readerLean == "" {
			return "", fmt.Errorf("reader.applyMiddlewares no longer installs BasicAuthMiddleware")
		}

		// ---- module-wide census
		cs, err := acScan()
		if err != nil {
			return "", err
		}

		var b strings.Builder
		b.WriteString("import Qryn.Http.AuthConfig\nnamespace Qryn.Gen.AuthConfig\nopen Qryn.Http.AuthConfig\n\n")
		b.WriteString("/-- main.go portEnv: the statements touching cfg.Setting.AUTH_SETTINGS.BASIC, in program order -/\ndef plan : List Stmt :=\n  [")
		for i, s := range plan {
			if i > 0 {
				b.WriteString(",\n   ")
			}
			b.WriteString(s.lean())
		}
		b.WriteString("]\n\n")
		fmt.Fprintf(&b, "/-- what portEnv does before its last credential statement besides them (error returns make main() panic) -/\ndef portEnvPrefix : List String := %s\n", leanStrList(prefix))
		fmt.Fprintf(&b, "/-- main(): the configuration steps in program order -/\ndef mainSequence : List String := %s\n", leanStrList(seq))
		fmt.Fprintf(&b, "/-- main(): `if guard { app.Use(middleware.BasicAuthMiddleware(login, pass)) }` -/\ndef install : Install := %s\n", installLean)
		fmt.Fprintf(&b, "/-- the source text of that guard (the statement Gen.Routes.authGuard is taken from) -/\ndef installGuardText : String := %s\n", leanStr(guardText))
		fmt.Fprintf(&b, "/-- reader/main.go applyMiddlewares (reader-owned server path), over config.Cloki = Init's parameter -/\ndef readerInstall : Install := %s\n", readerLean)
		fmt.Fprintf(&b, "/-- non-test functions that write (or take the address of something inside) AUTH_SETTINGS -/\ndef credentialWriters : List String := %s\n", leanStrList(cs.credWrites))
		fmt.Fprintf(&b, "/-- non-test functions that read AUTH_SETTINGS -/\ndef credentialReaders : List String := %s\n", leanStrList(cs.credReads))
		fmt.Fprintf(&b, "/-- assignments to a `.Setting` field or through a dereferenced configuration pointer -/\ndef settingWrites : List String := %s\n", leanStrList(cs.settingWrites))
		fmt.Fprintf(&b, "/-- assignments of the package variable config.Cloki -/\ndef clokiAssignments : List String := %s\n", leanStrList(cs.clokiAssign))
		fmt.Fprintf(&b, "/-- os.Setenv / Unsetenv / Clearenv call sites in non-test code -/\ndef setenvSites : List String := %s\n", leanStrList(cs.setenv))
		b.WriteString("\nend Qryn.Gen.AuthConfig\n")
		return b.String(), nil
	})
}
