package main

import (
	"fmt"
	"os"
	"path/filepath"
	"regexp"
	"sort"
	"strings"

	"verif/harness/ddl"
)

// Additions to Gen.Migrations for the cluster model (c18z):
//   * per statement: does the instantiated text carry ON CLUSTER (emitted next to the statement lists by migrations.go)
//   * the template variable inventory: which variable occurs in which script, which variables are never used, and
//     which variables can change the SHAPE of a statement (everything but the identity of an object's text) when their
//     value is varied alone over the alternatives updateScripts can produce — expected: OnCluster only.
// Gen.CtrlFlow: the control flow of InitDB / ctrl.Init / ctrl.Rotate / rotateDB / ConnectV2 as normalised statements.

var migUses map[string][]string             // template id -> variables, in order of first occurrence
var migUseOrder []string                    // template ids in file order
var migShapeVars map[string][]string        // variable -> template ids whose shape it changed
var migBodies map[string]map[uint32]string  // mode -> text identity -> template id (collision check)
var migGridDone map[string]bool             // template text + mode already checked
var reTplVar = regexp.MustCompile(`\{\{\s*\.(\w+)\s*\}\}`)

func migResetInventory() {
	migUses = map[string][]string{}
	migUseOrder = nil
	migShapeVars = map[string][]string{}
	migBodies = map[string]map[uint32]string{}
	for _, m := range migModes {
		migBodies[m.Name] = map[uint32]string{}
	}
	migGridDone = map[string]bool{}
}

func migUse(id, tpl string) {
	if _, ok := migUses[id]; ok {
		return
	}
	var vs []string
	seen := map[string]bool{}
	for _, m := range reTplVar.FindAllStringSubmatch(tpl, -1) {
		if !seen[m[1]] {
			seen[m[1]] = true
			vs = append(vs, m[1])
		}
	}
	migUses[id] = vs
	migUseOrder = append(migUseOrder, id)
}

// the alternatives of every template variable: all the forms updateScripts can assign (unbounded ones sampled:
// numbers incl. negative and 2^31-1, names and policies without quote characters)
var migAlternatives = []struct {
	v    string
	alts []string
}{
	{"OnCluster", []string{" ", "ON CLUSTER `" + ddl.ClusterName + "`", "ON CLUSTER `other-cluster`"}},
	{"CLUSTER", []string{"", ddl.ClusterName, "other-cluster"}},
	{"DefaultTtlDays", []string{"30", "1", "7", "2147483647", "-5"}},
	{"CREATE_SETTINGS", []string{"", "SETTINGS storage_policy = 'tiered'", "SETTINGS storage_policy = 'hot cold 2'"}},
	{"SAMPLES_ORDER_RUL", []string{"timestamp_ns", "fingerprint, timestamp_ns", "timestamp_ns, fingerprint"}},
	{"DIST_CREATE_SETTINGS", []string{"", " SETTINGS skip_unavailable_shards = 1"}},
	{"ReplacingMergeTree", []string{"ReplacingMergeTree", "ReplicatedReplacingMergeTree"}},
	{"MergeTree", []string{"MergeTree", "ReplicatedMergeTree"}},
	{"AggregatingMergeTree", []string{"AggregatingMergeTree", "ReplicatedAggregatingMergeTree"}},
	{"DB", []string{ddl.DBName, "default", "cloki_7"}},
}

// migGridCheck re-instantiates one script with every variable varied alone and records the variables that change
// the statement's shape. A variant that no longer parses is an extraction failure (fail closed).
func migGridCheck(tpl string, m migMode, base ddl.Stmt, where string) error {
	key := m.Name + "\x00" + tpl
	if migGridDone[key] {
		return nil
	}
	migGridDone[key] = true
	for _, alt := range migAlternatives {
		for _, val := range alt.alts {
			env := envFor(m)
			if env[alt.v] == val {
				continue
			}
			env[alt.v] = val
			q, err := renderTpl(tpl, env)
			if err != nil {
				return fmt.Errorf("%s with %s=%q: %v", where, alt.v, val, err)
			}
			st, err := ddl.Parse(q, env["DB"])
			if err != nil {
				return fmt.Errorf("%s with %s=%q no longer parses: %v", where, alt.v, val, err)
			}
			if st.Shape() != base.Shape() {
				found := false
				for _, w := range migShapeVars[alt.v] {
					if w == where {
						found = true
					}
				}
				if !found {
					migShapeVars[alt.v] = append(migShapeVars[alt.v], where)
				}
			}
		}
	}
	return nil
}

func migInventory() string {
	var b strings.Builder
	b.WriteString("\n/-! ## template variables -/\n\n")
	b.WriteString("/-- which template variables occur in which statement (bootstrap statements and scripts, file order) -/\ndef tplUses : List (String × List String) := [")
	for i, id := range migUseOrder {
		if i > 0 {
			b.WriteString(",\n  ")
		}
		fmt.Fprintf(&b, "(%s, %s)", leanStr(id), leanStrList(migUses[id]))
	}
	b.WriteString("]\n\n")
	used := map[string]bool{}
	for _, vs := range migUses {
		for _, v := range vs {
			used[v] = true
		}
	}
	var all, unused []string
	for _, a := range migAlternatives {
		all = append(all, a.v)
		if !used[a.v] {
			unused = append(unused, a.v)
		}
	}
	fmt.Fprintf(&b, "/-- the variables of `updateScripts`' environment -/\ndef tplVars : List String := %s\n", leanStrList(all))
	fmt.Fprintf(&b, "/-- … of which no statement uses -/\ndef tplUnused : List String := %s\n", leanStrList(unused))
	var alts []string
	for _, a := range migAlternatives {
		alts = append(alts, fmt.Sprintf("(%s, %s)", leanStr(a.v), leanStrList(a.alts)))
	}
	fmt.Fprintf(&b, "/-- the alternatives every variable was varied over, alone, in every statement of every mode -/\ndef tplAlternatives : List (String × List String) := [%s]\n", strings.Join(alts, ",\n  "))
	var sv []string
	for _, a := range migAlternatives {
		if len(migShapeVars[a.v]) > 0 {
			sv = append(sv, a.v)
		}
	}
	fmt.Fprintf(&b, "/-- the variables whose value changed anything but the identity of an object's text in some statement -/\ndef shapeVars : List String := %s\n", leanStrList(sv))
	var sw []string
	for _, a := range migAlternatives {
		ws := append([]string(nil), migShapeVars[a.v]...)
		sort.Strings(ws)
		if len(ws) > 0 && a.v != "OnCluster" {
			sw = append(sw, fmt.Sprintf("(%s, %s)", leanStr(a.v), leanStrList(ws)))
		}
	}
	fmt.Fprintf(&b, "/-- … and where, for the variables other than OnCluster -/\ndef shapeVarsWhere : List (String × List String) := [%s]\n", strings.Join(sw, ", "))
	return b.String()
}

// extra conditions of updateScripts that decide the parameter-dependent variables (checked by extractUpdateScripts)
var migParamFragments = []string{
	`"DefaultTtlDays": "30",`,
	`"CREATE_SETTINGS": "",`,
	`"SAMPLES_ORDER_RUL": "timestamp_ns",`,
	`"DIST_CREATE_SETTINGS": "",`,
	`"OnCluster": " ",`,
	`if storagePolicy != "" { env["CREATE_SETTINGS"] = fmt.Sprintf("SETTINGS storage_policy = '%s'", storagePolicy) }`,
	`if advancedSamplesOrdering != "" { env["SAMPLES_ORDER_RUL"] = advancedSamplesOrdering }`,
	`if skipUnavailableShards { env["DIST_CREATE_SETTINGS"] += fmt.Sprintf(" SETTINGS skip_unavailable_shards = 1") }`,
	`if ttlDays != 0 { env["DefaultTtlDays"] = strconv.FormatInt(int64(ttlDays), 10) }`,
}

func normSpace(s string) string { return strings.Join(strings.Fields(s), " ") }

// ---- Gen.CtrlFlow

func init() { register("CtrlFlow", genCtrlFlow) }

func genCtrlFlow() (string, error) {
	var b strings.Builder
	b.WriteString("namespace Qryn.Gen.CtrlFlow\n\n")
	emit := func(rel, fn, def, doc string) error {
		src, err := os.ReadFile(filepath.Join(repo, rel))
		if err != nil {
			return err
		}
		fset, f, err := parseFile(rel)
		if err != nil {
			return err
		}
		fd := findFunc(f, "", fn)
		if fd == nil || fd.Body == nil {
			return fmt.Errorf("%s: func %s not found", rel, fn)
		}
		var items []string
		for _, st := range fd.Body.List {
			items = append(items, leanStr(normSpace(string(src[fset.Position(st.Pos()).Offset:fset.Position(st.End()).Offset]))))
		}
		fmt.Fprintf(&b, "/-- %s -/\ndef %s : List String := [%s]\n\n", doc, def, strings.Join(items, ",\n  "))
		return nil
	}
	if err := emit("ctrl/qryn/maintenance/maintain.go", "InitDB", "initDB",
		"`InitDB` (ctrl/qryn/maintenance/maintain.go), statement by statement, white space normalised"); err != nil {
		return "", err
	}
	if err := emit("ctrl/maintenance/shared.go", "InitDBTry", "initDBTry", "`InitDBTry` (ctrl/maintenance/shared.go)"); err != nil {
		return "", err
	}
	if err := emit("ctrl/main.go", "Init", "ctrlInit", "`ctrl.Init` (ctrl/main.go): init of every database (an error panics), then upgrade"); err != nil {
		return "", err
	}
	if err := emit("ctrl/main.go", "Rotate", "ctrlRotate", "`ctrl.Rotate` (ctrl/main.go): init of every database, then rotate"); err != nil {
		return "", err
	}
	if err := emit("ctrl/qryn/maintenance/maintain.go", "rotateDB", "rotateDB", "`rotateDB` (maintain.go): the arguments `Rotate` is called with"); err != nil {
		return "", err
	}
	if err := emit("ctrl/qryn/maintenance/maintain.go", "upgradeDB", "upgradeDB", "`upgradeDB` (maintain.go): the arguments `Update` is called with"); err != nil {
		return "", err
	}
	if err := emit("ctrl/qryn/maintenance/rotate.go", "getSetting", "getSetting", "`getSetting` (rotate.go): which table the record is read from"); err != nil {
		return "", err
	}
	if err := emit("ctrl/qryn/maintenance/rotate.go", "putSetting", "putSetting", "`putSetting` (rotate.go): which table the record is written to"); err != nil {
		return "", err
	}
	// the project table and the address list of the connection
	mb, err := os.ReadFile(filepath.Join(repo, "ctrl/main.go"))
	if err != nil {
		return "", err
	}
	m := regexp.MustCompile(`"qryn": \{\s*([\w.]+),\s*([\w.]+),\s*([\w.]+),\s*\}`).FindStringSubmatch(string(mb))
	if m == nil {
		return "", fmt.Errorf("ctrl/main.go: the projects table entry \"qryn\" is not {init, upgrade, rotate}")
	}
	fmt.Fprintf(&b, "/-- `projects[\"qryn\"]` = {init, upgrade, rotate} -/\ndef project : List String := %s\n\n", leanStrList(m[1:]))
	sb, err := os.ReadFile(filepath.Join(repo, "ctrl/maintenance/shared.go"))
	if err != nil {
		return "", err
	}
	am := regexp.MustCompile(`Addr:\s*(\[\]string\{[^\n]*\}),`).FindStringSubmatch(string(sb))
	if am == nil {
		return "", fmt.Errorf("shared.go ConnectV2: Addr not found")
	}
	fmt.Fprintf(&b, "/-- `ConnectV2`: the address list of the connection (one `host:port`: which node of a cluster answers is decided\n    by what that name resolves to, outside qryn) -/\ndef connectAddr : String := %s\n\n", leanStr(normSpace(am[1])))
	b.WriteString("end Qryn.Gen.CtrlFlow\n")
	return b.String(), nil
}
