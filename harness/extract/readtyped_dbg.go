package main

import (
	"fmt"
	"os"
)

func init() {
	if len(os.Args) > 1 && os.Args[1] == "-typed" {
		repo = os.Args[2]
		if os.Getenv("C12_TYPED_DEBUG") == "" {
			os.Setenv("C12_TYPED_DEBUG", "1")
		}
		r, err := rtBuild()
		if err != nil {
			fmt.Println("ERR", err)
			os.Exit(1)
		}
		if len(os.Args) > 3 {
			os.WriteFile(os.Args[3], []byte(r.lean()), 0o644)
		}
		os.Exit(0)
	}
}
