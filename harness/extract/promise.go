package main

import (
	"fmt"
	"go/ast"
	"strings"
)

// Gen.Promise (C01): writer/utils/promise/promise.go statement by statement — the order of the statements of Done
// (compare-and-swap guard, res, err, close), what Get / GetCtx do after the receive from p.lock, and the initial
// values New / Fulfilled give `pending` and the channel. Fails closed on any other statement.

func init() { register("Promise", genPromise) }

func genPromise() (string, error) {
	_, f, err := parseFile("writer/utils/promise/promise.go")
	if err != nil {
		return "", err
	}
	method := func(name string) (*ast.FuncDecl, string, error) {
		fd := findFunc(f, "Promise", name)
		if fd == nil {
			// generic receiver Promise[T]: findFunc compares identifiers only
			for _, d := range f.Decls {
				x, ok := d.(*ast.FuncDecl)
				if !ok || x.Name.Name != name || x.Recv == nil || len(x.Recv.List) != 1 {
					continue
				}
				if strings.HasPrefix(strings.TrimPrefix(exprTextNoPos(x.Recv.List[0].Type), "*"), "Promise[") {
					fd = x
				}
			}
		}
		if fd == nil || fd.Body == nil || len(fd.Recv.List[0].Names) != 1 {
			return nil, "", fmt.Errorf("method Promise.%s not found", name)
		}
		return fd, fd.Recv.List[0].Names[0].Name, nil
	}
	// Done
	done, p, err := method("Done")
	if err != nil {
		return "", err
	}
	if done.Type.Params == nil || len(done.Type.Params.List) != 2 {
		return "", fmt.Errorf("Done does not take (res, err)")
	}
	resN, errN := done.Type.Params.List[0].Names[0].Name, done.Type.Params.List[1].Names[0].Name
	var dprog []string
	for _, st := range done.Body.List {
		switch txt := exprTextNoPosStmt(st); txt {
		case "if !atomic.CompareAndSwapInt32(&" + p + ".pending, 1, 0) { return }":
			dprog = append(dprog, ".cas")
		case p + ".res = " + resN:
			dprog = append(dprog, ".setRes")
		case p + ".err = " + errN:
			dprog = append(dprog, ".setErr")
		case "close(" + p + ".lock)":
			dprog = append(dprog, ".close")
		default:
			return "", fmt.Errorf("Done: unrecognised statement `%s`", txt)
		}
	}
	// Get
	get, p, err := method("Get")
	if err != nil {
		return "", err
	}
	var gprog []string
	for _, st := range get.Body.List {
		switch txt := exprTextNoPosStmt(st); txt {
		case "<-" + p + ".lock":
			gprog = append(gprog, ".wait")
		case "return " + p + ".res, " + p + ".err":
			gprog = append(gprog, ".readRes", ".readErr")
		default:
			return "", fmt.Errorf("Get: unrecognised statement `%s`", txt)
		}
	}
	// GetCtx: a select whose lock branch returns the fields and whose ctx branch returns the timeout error
	getCtx, p, err := method("GetCtx")
	if err != nil {
		return "", err
	}
	ctxOK := false
	if len(getCtx.Body.List) == 1 {
		if sel, ok := getCtx.Body.List[0].(*ast.SelectStmt); ok && len(sel.Body.List) == 2 {
			seenLock, seenCtx := false, false
			for _, c := range sel.Body.List {
				cc := c.(*ast.CommClause)
				comm := ""
				if cc.Comm != nil {
					comm = exprTextNoPosStmt(cc.Comm)
				}
				var body []string
				for _, s := range cc.Body {
					body = append(body, exprTextNoPosStmt(s))
				}
				switch comm {
				case "<-" + p + ".lock":
					seenLock = strings.Join(body, "; ") == "return "+p+".res, "+p+".err"
				case "<-ctx.Done()":
					seenCtx = len(body) == 2 && body[1] == "return res, GetContextTimeout"
				}
			}
			ctxOK = seenLock && seenCtx
		}
	}
	if !ctxOK {
		return "", fmt.Errorf("GetCtx is not `select { case <-ctx.Done(): …GetContextTimeout; case <-p.lock: return p.res, p.err }`")
	}
	// New: pending 1, an open channel; Fulfilled: pending 0, a closed channel, the given fields
	nw := findFunc(f, "", "New")
	fu := findFunc(f, "", "Fulfilled")
	if nw == nil || fu == nil {
		return "", fmt.Errorf("New / Fulfilled not found")
	}
	nt := exprTextNoPosStmt(nw.Body)
	if !strings.Contains(nt, "lock: make(chan any)") || !strings.Contains(nt, "pending: 1") || strings.Contains(nt, "close(") {
		return "", fmt.Errorf("New does not build {lock: make(chan any), pending: 1}: %s", nt)
	}
	ft := exprTextNoPosStmt(fu.Body)
	if !strings.Contains(ft, "close(l)") || !strings.Contains(ft, "pending: 0") || !strings.Contains(ft, "err: err") || !strings.Contains(ft, "res: res") {
		return "", fmt.Errorf("Fulfilled does not build a closed promise with the given fields: %s", ft)
	}
	var b strings.Builder
	b.WriteString("import Qryn.Ingest.PromiseModel\nnamespace Qryn.Gen.Promise\nopen Qryn.Ingest.PromiseModel\n\n")
	b.WriteString("/-- the statements of `Promise.Done` in source order -/\ndef doneProgram : List DPc := [" + strings.Join(dprog, ", ") + "]\n\n")
	b.WriteString("/-- the statements of `Promise.Get` in source order -/\ndef getProgram : List GPc := [" + strings.Join(gprog, ", ") + "]\n\n")
	b.WriteString("/-- `GetCtx` reads the fields only in the branch that received from `p.lock` -/\ndef getCtxReadsAfterLock : Bool := true\n\n")
	b.WriteString("/-- `New()`: pending = 1 and an open channel; `Fulfilled`: pending = 0, a closed channel, the given fields -/\ndef newIsPendingOpen : Bool := true\n\n")
	b.WriteString("end Qryn.Gen.Promise\n")
	return b.String(), nil
}
