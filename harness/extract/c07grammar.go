package main

// Gen.C07Grammar — the productions of the LogQL log-query grammar (logql_parser/model_v2.go: everything reachable from
// StrSelector), read from the participle struct tags: per struct its rule (the concatenated tags) and per field the value
// classes the rule allows it to take (`harness/ptag`). The C07 generator is derived from the same tags at run time (by
// reflection on the compiled types); `LogQL.GrammarC07.classTable` must classify every production listed here — a
// production the grammar gains or loses breaks `Qryn.C07.grammar_classified`.

import (
	"fmt"
	"go/ast"
	"strconv"
	"strings"

	"verif/harness/ptag"
)

func c07gStructs(rel string) (map[string]ptag.Struct, error) {
	_, f, err := parseFile(rel)
	if err != nil {
		return nil, err
	}
	res := map[string]ptag.Struct{}
	for _, d := range f.Decls {
		gd, ok := d.(*ast.GenDecl)
		if !ok {
			continue
		}
		for _, sp := range gd.Specs {
			ts, ok := sp.(*ast.TypeSpec)
			if !ok {
				continue
			}
			st, ok := ts.Type.(*ast.StructType)
			if !ok {
				continue
			}
			s := ptag.Struct{Name: ts.Name.Name}
			for _, fl := range st.Fields.List {
				if len(fl.Names) != 1 {
					return nil, fmt.Errorf("%s: a field list with %d names", s.Name, len(fl.Names))
				}
				pf := ptag.Field{Name: fl.Names[0].Name}
				if fl.Tag == nil {
					return nil, fmt.Errorf("%s.%s has no grammar tag", s.Name, pf.Name)
				}
				tag, err := strconv.Unquote(fl.Tag.Value)
				if err != nil {
					return nil, fmt.Errorf("%s.%s: %v", s.Name, pf.Name, err)
				}
				pf.Tag = tag
				switch t := fl.Type.(type) {
				case *ast.Ident:
					if t.Name == "string" {
						pf.Kind = "string"
					} else {
						pf.Kind, pf.Elem = "struct", t.Name
					}
				case *ast.StarExpr:
					id, ok := t.X.(*ast.Ident)
					if !ok {
						return nil, fmt.Errorf("%s.%s: pointer to a non-local type", s.Name, pf.Name)
					}
					pf.Kind, pf.Elem = "ptr", id.Name
				case *ast.ArrayType:
					id, ok := t.Elt.(*ast.Ident)
					if !ok || t.Len != nil {
						return nil, fmt.Errorf("%s.%s: slice of a non-local type", s.Name, pf.Name)
					}
					pf.Kind, pf.Elem = "slice", id.Name
				default:
					return nil, fmt.Errorf("%s.%s: field type not understood", s.Name, pf.Name)
				}
				s.Fields = append(s.Fields, pf)
			}
			res[s.Name] = s
		}
	}
	return res, nil
}

func init() {
	register("C07Grammar", func() (string, error) {
		all, err := c07gStructs("reader/logql/logql_parser/model_v2.go")
		if err != nil {
			return "", err
		}
		g, err := ptag.Build(all, "StrSelector")
		if err != nil {
			return "", err
		}
		var sb strings.Builder
		sb.WriteString("namespace Qryn.Gen.C07Grammar\n")
		sb.WriteString("/-- struct ↦ its grammar rule (the participle tags of its fields, in order) -/\ndef rules : List (String × String) := [\n")
		for i, n := range g.Order {
			var tags []string
			for _, f := range all[n].Fields {
				tags = append(tags, strings.Join(strings.Fields(f.Tag), " "))
			}
			sep := ","
			if i == len(g.Order)-1 {
				sep = ""
			}
			fmt.Fprintf(&sb, "  (%s, %s)%s\n", leanStr(n), leanStr(strings.Join(tags, " ")), sep)
		}
		sb.WriteString("]\n/-- (struct, field, value class): `=lit` an enumerated literal, `tok:Rule` text of a token rule, `seq:…` several tokens\n    captured as one string, `set`/`absent` for pointers and optional captures, `0`/`1`/`many` for lists -/\ndef productions : List (String × String × String) := [\n")
		for i, p := range g.Prods {
			sep := ","
			if i == len(g.Prods)-1 {
				sep = ""
			}
			fmt.Fprintf(&sb, "  (%s, %s, %s)%s\n", leanStr(p.Struct), leanStr(p.Field), leanStr(p.Class), sep)
		}
		sb.WriteString("]\nend Qryn.Gen.C07Grammar\n")
		return sb.String(), nil
	})
}
