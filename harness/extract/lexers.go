package main

// Gen.Lexers — the byte classes of the label-name lexer rules of the three query languages whose identifiers
// are embedded in SQL: the regex source text of the rules is read from the lexer tables and compiled (with
// regexp/syntax) to the set of bytes a token of the rule can contain. Fails closed on anything but literals,
// character classes, concatenation, alternation, repetition and groups over ASCII.

import (
	"fmt"
	"go/ast"
	"regexp/syntax"
	"sort"
	"strings"
)

// lexerRule finds {"name", `pattern`} in the composite literal assigned to varName in file rel
func lexerRule(rel, varName, rule string) (string, error) {
	_, f, err := parseFile(rel)
	if err != nil {
		return "", err
	}
	var lit *ast.CompositeLit
	for _, d := range f.Decls {
		gd, ok := d.(*ast.GenDecl)
		if !ok {
			continue
		}
		for _, sp := range gd.Specs {
			vs, ok := sp.(*ast.ValueSpec)
			if !ok {
				continue
			}
			for i, n := range vs.Names {
				if n.Name == varName && i < len(vs.Values) {
					if cl, ok := vs.Values[i].(*ast.CompositeLit); ok {
						lit = cl
					}
				}
			}
		}
	}
	if lit == nil {
		return "", fmt.Errorf("%s: variable %s with a rule table not found", rel, varName)
	}
	found := ""
	n := 0
	for _, el := range lit.Elts {
		cl, ok := el.(*ast.CompositeLit)
		if !ok || len(cl.Elts) != 2 {
			return "", fmt.Errorf("%s: rule table entry of unexpected shape", rel)
		}
		name, ok1 := strLit(cl.Elts[0])
		pat, ok2 := strLit(cl.Elts[1])
		if !ok1 || !ok2 {
			return "", fmt.Errorf("%s: rule table entry is not {\"name\", `pattern`}", rel)
		}
		if name == rule {
			found = pat
			n++
		}
	}
	if n != 1 {
		return "", fmt.Errorf("%s: rule %s found %d times", rel, rule, n)
	}
	return found, nil
}

// regexBytes: the set of bytes occurring in any string matched by the pattern
func regexBytes(pat string) ([]bool, error) {
	re, err := syntax.Parse(pat, syntax.Perl)
	if err != nil {
		return nil, err
	}
	set := make([]bool, 256)
	var walk func(r *syntax.Regexp) error
	walk = func(r *syntax.Regexp) error {
		switch r.Op {
		case syntax.OpLiteral:
			if r.Flags&syntax.FoldCase != 0 {
				return fmt.Errorf("case-folded literal")
			}
			for _, c := range r.Rune {
				if c > 127 {
					return fmt.Errorf("non-ASCII literal")
				}
				set[c] = true
			}
		case syntax.OpCharClass:
			for i := 0; i+1 < len(r.Rune); i += 2 {
				lo, hi := r.Rune[i], r.Rune[i+1]
				if hi > 127 {
					return fmt.Errorf("character class beyond ASCII (negated class, \\W, …)")
				}
				for c := lo; c <= hi; c++ {
					set[c] = true
				}
			}
		case syntax.OpConcat, syntax.OpAlternate, syntax.OpCapture, syntax.OpStar, syntax.OpPlus, syntax.OpQuest, syntax.OpRepeat:
			for _, s := range r.Sub {
				if err := walk(s); err != nil {
					return err
				}
			}
		case syntax.OpEmptyMatch:
		default:
			return fmt.Errorf("regex operator %v not supported (only simple classes)", r.Op)
		}
		return nil
	}
	if err := walk(re); err != nil {
		return nil, fmt.Errorf("pattern %q: %v", pat, err)
	}
	return set, nil
}

func byteRanges(set []bool) string {
	var parts []string
	for i := 0; i < 256; {
		if !set[i] {
			i++
			continue
		}
		j := i
		for j+1 < 256 && set[j+1] {
			j++
		}
		parts = append(parts, fmt.Sprintf("(%d, %d)", i, j))
		i = j + 1
	}
	return "[" + strings.Join(parts, ", ") + "]"
}

func init() {
	register("Lexers", func() (string, error) {
		type rl struct{ lean, file, varName, rule string }
		rules := []rl{
			{"logqlLabelName", "reader/logql/logql_parser/lexer_rules v2.go", "LogQLLexerRulesV2", "Label_name"},
			{"logqlMacrosFunction", "reader/logql/logql_parser/lexer_rules v2.go", "LogQLLexerRulesV2", "Macros_function"},
			{"traceqlLabelName", "reader/traceql/parser/lexer_rules v2.go", "TraceQLLexerRulesV2", "Label_name"},
			{"profLabelName", "reader/prof/parser/lexer.go", "LogQLLexerRulesV2", "Label_name"},
		}
		// the grammar positions that take these tokens: LabelName.Name `@(Macros_function|Label_name)` (LogQL)
		_, f, err := parseFile("reader/logql/logql_parser/model_v2.go")
		if err != nil {
			return "", err
		}
		tag := ""
		ast.Inspect(f, func(n ast.Node) bool {
			ts, ok := n.(*ast.TypeSpec)
			if !ok || ts.Name.Name != "LabelName" {
				return true
			}
			if st, ok := ts.Type.(*ast.StructType); ok && len(st.Fields.List) == 1 && st.Fields.List[0].Tag != nil {
				tag = st.Fields.List[0].Tag.Value
			}
			return false
		})
		if tag != "`@(Macros_function|Label_name)`" {
			return "", fmt.Errorf("logql_parser.LabelName is no longer `@(Macros_function|Label_name)` (found %s)", tag)
		}
		var b strings.Builder
		b.WriteString("namespace Qryn.Gen\n/-! byte ranges (lo, hi) of the bytes a token of the lexer rule can contain; regex sources as read -/\n")
		var names []string
		for _, r := range rules {
			pat, err := lexerRule(r.file, r.varName, r.rule)
			if err != nil {
				return "", err
			}
			set, err := regexBytes(pat)
			if err != nil {
				return "", fmt.Errorf("%s %s: %v", r.file, r.rule, err)
			}
			fmt.Fprintf(&b, "/-- %s, rule %s: %s -/\ndef %s : List (UInt8 × UInt8) := %s\n", r.file, r.rule, strings.ReplaceAll(pat, "-/", "- /"), r.lean, byteRanges(set))
			fmt.Fprintf(&b, "def %sSrc : String := %s\n", r.lean, leanStr(pat))
			names = append(names, r.lean)
		}
		sort.Strings(names)
		b.WriteString("end Qryn.Gen\n")
		return b.String(), nil
	})
}
