package main

// Gen.ChunkReset and Gen.RequestCopy (property C02): the aliasing discipline between the parser's chunk
// buffers and the request objects it has handed to doParse/doPush.
//
// Gen.ChunkReset, from writer/utils/unmarshal/{shared,builder}.go and writer/model/insertRequestModel.go:
//   * the "current chunk" pointers: fields of type *model.<Request> of timeSeriesAndSamples and parserDoer;
//   * every send of a ParserResponse carrying such pointers (flush sites) and the statement that follows it
//     (a reset call that re-assigns every pointer sent, or close of the channel);
//   * for every reset: whether the pointer gets a new object (&model.T{…}) or fields of the old object are
//     assigned in place, and for every slice-typed field of the request struct how the next chunk's field is
//     produced: `fresh` (make(…), nil, left out of the literal, a []T{…} literal — nothing of the old object
//     in the expression) or `reslice` (anything mentioning the old object: old.F[:0], f(old.F, …), a local
//     copied from the old pointer, or a field simply kept);
//   * every write through a current pointer outside the resets (append to the same field / plain assignment /
//     Size accounting), and that the pointers themselves never leave (no copy into a variable, no argument).
// Gen.RequestCopy, from writer/service/{genericInsertService,colAdaptors,helper}.go: what the three Request
// methods do with `req` (GetSize / processRequest / forwarded to a sub-service) and the shape of every
// Append/AppendArr adaptor (element-wise Append or append(col, arr...): both copy into the column).
// Fails closed on anything else.

import (
	"fmt"
	"go/ast"
	"go/token"
	"sort"
	"strings"
)

const (
	c02SharedFile  = "writer/utils/unmarshal/shared.go"
	c02BuilderFile = "writer/utils/unmarshal/builder.go"
	c02ModelFile   = "writer/model/insertRequestModel.go"
)

var c02ReqTypes = []string{"TimeSeriesData", "TimeSamplesData", "TempoSamples", "TempoTag", "ProfileData"}

// slice-typed fields of the request structs, in declaration order
func c02RequestStructs() (map[string][]string, map[string]map[string]bool, error) {
	_, f, err := parseFile(c02ModelFile)
	if err != nil {
		return nil, nil, err
	}
	slices := map[string][]string{}
	all := map[string]map[string]bool{}
	for _, d := range f.Decls {
		gd, ok := d.(*ast.GenDecl)
		if !ok || gd.Tok != token.TYPE {
			continue
		}
		for _, sp := range gd.Specs {
			ts := sp.(*ast.TypeSpec)
			st, ok := ts.Type.(*ast.StructType)
			if !ok {
				continue
			}
			want := false
			for _, n := range c02ReqTypes {
				if n == ts.Name.Name {
					want = true
				}
			}
			if !want {
				continue
			}
			all[ts.Name.Name] = map[string]bool{}
			for _, fl := range st.Fields.List {
				at, isArr := fl.Type.(*ast.ArrayType)
				for _, n := range fl.Names {
					all[ts.Name.Name][n.Name] = true
					if isArr && at.Len == nil {
						slices[ts.Name.Name] = append(slices[ts.Name.Name], n.Name)
					} else if _, isMap := fl.Type.(*ast.MapType); isMap {
						return nil, nil, fmt.Errorf("%s.%s is a map: reference type not covered by the model", ts.Name.Name, n.Name)
					} else if _, isPtr := fl.Type.(*ast.StarExpr); isPtr {
						return nil, nil, fmt.Errorf("%s.%s is a pointer: reference type not covered by the model", ts.Name.Name, n.Name)
					}
				}
			}
		}
	}
	for _, n := range c02ReqTypes {
		if len(slices[n]) == 0 {
			return nil, nil, fmt.Errorf("struct model.%s with slice fields not found in %s", n, c02ModelFile)
		}
	}
	return slices, all, nil
}

// *model.T -> "T"
func c02ModelPtr(e ast.Expr) string {
	st, ok := e.(*ast.StarExpr)
	if !ok {
		return ""
	}
	se, ok := st.X.(*ast.SelectorExpr)
	if !ok {
		return ""
	}
	if id, ok := se.X.(*ast.Ident); !ok || id.Name != "model" {
		return ""
	}
	for _, n := range c02ReqTypes {
		if n == se.Sel.Name {
			return n
		}
	}
	return ""
}

type c02Ptr struct {
	holder string // struct holding the pointer field
	field  string
	typ    string // request type
}

func c02StructFields(f *ast.File, name string) *ast.StructType {
	for _, d := range f.Decls {
		gd, ok := d.(*ast.GenDecl)
		if !ok || gd.Tok != token.TYPE {
			continue
		}
		for _, sp := range gd.Specs {
			ts := sp.(*ast.TypeSpec)
			if st, ok := ts.Type.(*ast.StructType); ok && ts.Name.Name == name {
				return st
			}
		}
	}
	return nil
}

type c02Func struct {
	file string
	fd   *ast.FuncDecl
	recv string // receiver type name ("" for functions)
	rv   string // receiver variable
	// ptrs: rendered pointer expression -> pointer
	ptrs map[string]c02Ptr
}

func c02Recv(fd *ast.FuncDecl) (string, string) {
	if fd.Recv == nil || len(fd.Recv.List) != 1 {
		return "", ""
	}
	t := fd.Recv.List[0].Type
	if st, ok := t.(*ast.StarExpr); ok {
		t = st.X
	}
	id, ok := t.(*ast.Ident)
	if !ok {
		return "", ""
	}
	rv := ""
	if len(fd.Recv.List[0].Names) == 1 {
		rv = fd.Recv.List[0].Names[0].Name
	}
	return id.Name, rv
}

// parents of every node of a function body
func c02Parents(root ast.Node) map[ast.Node]ast.Node {
	par := map[ast.Node]ast.Node{}
	var stack []ast.Node
	ast.Inspect(root, func(n ast.Node) bool {
		if n == nil {
			stack = stack[:len(stack)-1]
			return true
		}
		if len(stack) > 0 {
			par[n] = stack[len(stack)-1]
		}
		stack = append(stack, n)
		return true
	})
	return par
}

func c02FuncName(fn *c02Func) string {
	if fn.recv != "" {
		return fn.recv + "." + fn.fd.Name.Name
	}
	return fn.fd.Name.Name
}

type c02Site struct {
	fn     string
	sent   []string // request types sent
	next   string   // reset function called next, or "close"
	resets []string // request types whose pointer that reset function re-creates or re-fills
}

type c02Write struct{ fn, typ, field, kind string }

type c02Cfg struct {
	resetFn string
	ptr     string
	obj     string // newObj | sameObj
	fields  [][2]string
}

// mentions: does the expression mention a current pointer or a tainted local?
func c02Mentions(e ast.Node, fn *c02Func, tainted map[string]bool) bool {
	hit := false
	ast.Inspect(e, func(n ast.Node) bool {
		switch v := n.(type) {
		case *ast.SelectorExpr:
			if _, ok := fn.ptrs[selPath(v)]; ok {
				hit = true
			}
		case *ast.Ident:
			if tainted[v.Name] {
				hit = true
			}
		}
		return true
	})
	return hit
}

func c02ClassifyField(e ast.Expr, fn *c02Func, tainted map[string]bool) (string, error) {
	if e == nil {
		return "fresh", nil
	}
	if c02Mentions(e, fn, tainted) {
		return "reslice", nil
	}
	switch v := e.(type) {
	case *ast.Ident:
		if v.Name == "nil" {
			return "fresh", nil
		}
	case *ast.CallExpr:
		if id, ok := v.Fun.(*ast.Ident); ok && id.Name == "make" {
			return "fresh", nil
		}
	case *ast.CompositeLit:
		if _, ok := v.Type.(*ast.ArrayType); ok {
			return "fresh", nil
		}
	}
	return "", fmt.Errorf("unrecognised expression %q for a per-row array of the next chunk", exprText(e))
}

func c02ChunkReset() (string, error) {
	slices, allFields, err := c02RequestStructs()
	if err != nil {
		return "", err
	}
	_, shared, err := parseFile(c02SharedFile)
	if err != nil {
		return "", err
	}
	_, builder, err := parseFile(c02BuilderFile)
	if err != nil {
		return "", err
	}
	// ---- the current-chunk pointers
	var tsSplPtrs, doerPtrs []c02Ptr
	st := c02StructFields(shared, "timeSeriesAndSamples")
	if st == nil {
		return "", fmt.Errorf("struct timeSeriesAndSamples not found")
	}
	for _, fl := range st.Fields.List {
		if t := c02ModelPtr(fl.Type); t != "" {
			for _, n := range fl.Names {
				tsSplPtrs = append(tsSplPtrs, c02Ptr{"timeSeriesAndSamples", n.Name, t})
			}
		}
	}
	sd := c02StructFields(builder, "parserDoer")
	if sd == nil {
		return "", fmt.Errorf("struct parserDoer not found")
	}
	tsSplField := ""
	for _, fl := range sd.Fields.List {
		if t := c02ModelPtr(fl.Type); t != "" {
			for _, n := range fl.Names {
				doerPtrs = append(doerPtrs, c02Ptr{"parserDoer", n.Name, t})
			}
		}
		if se, ok := fl.Type.(*ast.StarExpr); ok {
			if id, ok := se.X.(*ast.Ident); ok && id.Name == "timeSeriesAndSamples" && len(fl.Names) == 1 {
				tsSplField = fl.Names[0].Name
			}
		}
	}
	if len(tsSplPtrs) != 2 || len(doerPtrs) != 3 || tsSplField == "" {
		return "", fmt.Errorf("expected 2 request pointers in timeSeriesAndSamples, 3 in parserDoer and one *timeSeriesAndSamples field; found %d, %d, %q",
			len(tsSplPtrs), len(doerPtrs), tsSplField)
	}
	seenT := map[string]bool{}
	for _, p := range append(append([]c02Ptr{}, tsSplPtrs...), doerPtrs...) {
		if seenT[p.typ] {
			return "", fmt.Errorf("two current pointers of type *model.%s", p.typ)
		}
		seenT[p.typ] = true
	}
	// ---- functions of the two files
	var funcs []*c02Func
	for _, pf := range []struct {
		name string
		f    *ast.File
	}{{c02SharedFile, shared}, {c02BuilderFile, builder}} {
		for _, d := range pf.f.Decls {
			fd, ok := d.(*ast.FuncDecl)
			if !ok || fd.Body == nil {
				continue
			}
			recv, rv := c02Recv(fd)
			fn := &c02Func{file: pf.name, fd: fd, recv: recv, rv: rv, ptrs: map[string]c02Ptr{}}
			switch recv {
			case "timeSeriesAndSamples":
				for _, p := range tsSplPtrs {
					fn.ptrs[rv+"."+p.field] = p
				}
			case "parserDoer":
				for _, p := range doerPtrs {
					fn.ptrs[rv+"."+p.field] = p
				}
				for _, p := range tsSplPtrs {
					fn.ptrs[rv+"."+tsSplField+"."+p.field] = p
				}
			}
			funcs = append(funcs, fn)
		}
	}
	byName := map[string]*c02Func{}
	for _, fn := range funcs {
		byName[c02FuncName(fn)] = fn
	}
	// a holder struct that escapes as a whole would carry its pointers with it
	for _, fn := range funcs {
		if fn.recv != "parserDoer" || fn.rv == "" {
			continue
		}
		par := c02Parents(fn.fd.Body)
		var bad error
		ast.Inspect(fn.fd.Body, func(n ast.Node) bool {
			se, ok := n.(*ast.SelectorExpr)
			if !ok || selPath(se) != fn.rv+"."+tsSplField {
				return true
			}
			switch p := par[se].(type) {
			case *ast.SelectorExpr:
				if p.X == se {
					return true
				}
			case *ast.AssignStmt:
				if len(p.Lhs) == 1 && p.Lhs[0] == se {
					if c, ok := p.Rhs[0].(*ast.CallExpr); ok && exprText(c.Fun) == "newTimeSeriesAndSamples" {
						return true
					}
				}
			}
			bad = fmt.Errorf("%s: %s.%s used as a value (the chunk buffers could be reached from elsewhere)", c02FuncName(fn), fn.rv, tsSplField)
			return true
		})
		if bad != nil {
			return "", bad
		}
	}

	// ---- the resets: functions that assign a current pointer, or that are called right after a send
	type resetInfo struct {
		cfgs map[string]*c02Cfg // by request type
	}
	resets := map[string]*resetInfo{}
	analyseReset := func(fn *c02Func, want []c02Ptr) (*resetInfo, error) {
		ri := &resetInfo{cfgs: map[string]*c02Cfg{}}
		tainted := map[string]bool{}
		// locals copied from the old pointers (to a fixpoint, in source order)
		for changed := true; changed; {
			changed = false
			ast.Inspect(fn.fd.Body, func(n ast.Node) bool {
				as, ok := n.(*ast.AssignStmt)
				if !ok {
					return true
				}
				for i, l := range as.Lhs {
					id, ok := l.(*ast.Ident)
					if !ok || id.Name == "_" {
						continue
					}
					var r ast.Expr
					if len(as.Rhs) == len(as.Lhs) {
						r = as.Rhs[i]
					} else if len(as.Rhs) == 1 {
						r = as.Rhs[0]
					}
					if r != nil && c02Mentions(r, fn, tainted) && !tainted[id.Name] {
						tainted[id.Name] = true
						changed = true
					}
				}
				return true
			})
		}
		for _, p := range want {
			var expr string
			for k, q := range fn.ptrs {
				if q == p {
					expr = k
				}
			}
			if expr == "" {
				return nil, fmt.Errorf("%s has no access path to the *model.%s pointer", c02FuncName(fn), p.typ)
			}
			cfg := &c02Cfg{resetFn: c02FuncName(fn), ptr: expr}
			// pointer assignments
			var lits []*ast.CompositeLit
			var bad error
			fieldAssign := map[string][]ast.Expr{}
			ast.Inspect(fn.fd.Body, func(n ast.Node) bool {
				as, ok := n.(*ast.AssignStmt)
				if !ok {
					return true
				}
				for i, l := range as.Lhs {
					lp := selPath(l)
					if lp == expr {
						if len(as.Rhs) != len(as.Lhs) {
							bad = fmt.Errorf("%s: %s assigned from a multi-value expression", c02FuncName(fn), expr)
							continue
						}
						ue, ok := as.Rhs[i].(*ast.UnaryExpr)
						var cl *ast.CompositeLit
						if ok && ue.Op == token.AND {
							cl, _ = ue.X.(*ast.CompositeLit)
						}
						if cl == nil || exprText(cl.Type) != "model."+p.typ {
							bad = fmt.Errorf("%s: %s = %s is not &model.%s{…}", c02FuncName(fn), expr, exprText(as.Rhs[i]), p.typ)
							continue
						}
						lits = append(lits, cl)
					} else if strings.HasPrefix(lp, expr+".") && len(as.Rhs) == len(as.Lhs) {
						f := strings.TrimPrefix(lp, expr+".")
						fieldAssign[f] = append(fieldAssign[f], as.Rhs[i])
					}
				}
				return true
			})
			if bad != nil {
				return nil, bad
			}
			switch {
			case len(lits) == 1:
				cfg.obj = "newObj"
				given := map[string]ast.Expr{}
				for _, el := range lits[0].Elts {
					kv, ok := el.(*ast.KeyValueExpr)
					if !ok {
						return nil, fmt.Errorf("%s: positional composite literal for model.%s", c02FuncName(fn), p.typ)
					}
					k, ok := kv.Key.(*ast.Ident)
					if !ok || !allFields[p.typ][k.Name] {
						return nil, fmt.Errorf("%s: unknown field in the model.%s literal", c02FuncName(fn), p.typ)
					}
					given[k.Name] = kv.Value
				}
				if len(fieldAssign) > 0 {
					return nil, fmt.Errorf("%s: fields of %s are also assigned one by one", c02FuncName(fn), expr)
				}
				for _, f := range slices[p.typ] {
					cls, err := c02ClassifyField(given[f], fn, tainted)
					if err != nil {
						return nil, fmt.Errorf("%s: %s.%s: %v", c02FuncName(fn), p.typ, f, err)
					}
					cfg.fields = append(cfg.fields, [2]string{f, cls})
				}
			case len(lits) == 0:
				// the object that was handed off is refilled in place
				cfg.obj = "sameObj"
				for _, f := range slices[p.typ] {
					cls := "reslice" // a field that is not assigned keeps the old slice
					if es := fieldAssign[f]; len(es) == 1 {
						c, err := c02ClassifyField(es[0], fn, tainted)
						if err != nil {
							return nil, fmt.Errorf("%s: %s.%s: %v", c02FuncName(fn), p.typ, f, err)
						}
						cls = c
					} else if len(es) > 1 {
						return nil, fmt.Errorf("%s: %s.%s assigned more than once", c02FuncName(fn), expr, f)
					}
					cfg.fields = append(cfg.fields, [2]string{f, cls})
				}
			default:
				return nil, fmt.Errorf("%s: %s assigned %d times", c02FuncName(fn), expr, len(lits))
			}
			ri.cfgs[p.typ] = cfg
		}
		return ri, nil
	}

	// ---- flush sites
	var sites []c02Site
	// the send inside timeSeriesAndSamples.flush, and direct sends in builder.go
	type sendInfo struct {
		fn   *c02Func
		stmt ast.Stmt
		sent []c02Ptr
	}
	var sends []sendInfo
	for _, fn := range funcs {
		var bad error
		ast.Inspect(fn.fd.Body, func(n ast.Node) bool {
			ss, ok := n.(*ast.SendStmt)
			if !ok {
				return true
			}
			ue, ok := ss.Value.(*ast.UnaryExpr)
			var cl *ast.CompositeLit
			if ok && ue.Op == token.AND {
				cl, _ = ue.X.(*ast.CompositeLit)
			}
			if cl == nil || exprText(cl.Type) != "model.ParserResponse" {
				if c02Mentions(ss.Value, fn, nil) {
					bad = fmt.Errorf("%s: a current pointer is sent in an unrecognised value", c02FuncName(fn))
				}
				return true
			}
			var sent []c02Ptr
			for _, el := range cl.Elts {
				kv, ok := el.(*ast.KeyValueExpr)
				if !ok {
					bad = fmt.Errorf("%s: positional ParserResponse literal", c02FuncName(fn))
					return true
				}
				key := exprText(kv.Key)
				if key == "Error" {
					continue
				}
				if p, ok := fn.ptrs[selPath(kv.Value)]; ok {
					sent = append(sent, p)
				} else if strings.HasSuffix(key, "Request") {
					bad = fmt.Errorf("%s: ParserResponse.%s = %s is not a current-chunk pointer", c02FuncName(fn), key, exprText(kv.Value))
				} else if c02Mentions(kv.Value, fn, nil) {
					bad = fmt.Errorf("%s: ParserResponse.%s carries a current pointer", c02FuncName(fn), key)
				}
			}
			if len(sent) > 0 {
				sends = append(sends, sendInfo{fn, ss, sent})
			}
			return true
		})
		if bad != nil {
			return "", bad
		}
	}
	// what follows a statement: the next statement of its block, else what follows the enclosing statement
	var following func(par map[ast.Node]ast.Node, s ast.Node) ast.Stmt
	following = func(par map[ast.Node]ast.Node, s ast.Node) ast.Stmt {
		p := par[s]
		switch b := p.(type) {
		case *ast.BlockStmt:
			for i, x := range b.List {
				if x == s {
					if i+1 < len(b.List) {
						return b.List[i+1]
					}
					return following(par, b)
				}
			}
		case *ast.IfStmt:
			if b.Else == nil {
				return following(par, b)
			}
		}
		return nil
	}
	callName := func(s ast.Stmt) (string, string) { // (receiver path, method) of `x.y.m()` / `m(args)`
		es, ok := s.(*ast.ExprStmt)
		if !ok {
			return "", ""
		}
		c, ok := es.X.(*ast.CallExpr)
		if !ok {
			return "", ""
		}
		switch f := c.Fun.(type) {
		case *ast.Ident:
			if f.Name == "close" && len(c.Args) == 1 {
				return "", "close"
			}
		case *ast.SelectorExpr:
			if len(c.Args) == 0 {
				return selPath(f.X), f.Sel.Name
			}
		}
		return "", ""
	}
	typesOf := func(ps []c02Ptr) []string {
		var out []string
		for _, p := range ps {
			out = append(out, p.typ)
		}
		sort.Strings(out)
		return out
	}
	addSite := func(fn *c02Func, after ast.Stmt, sent []c02Ptr, holderPath string, holderType string) error {
		if after == nil {
			return fmt.Errorf("%s: nothing follows the send of the chunk (neither a reset nor close)", c02FuncName(fn))
		}
		rp, m := callName(after)
		site := c02Site{fn: c02FuncName(fn), sent: typesOf(sent)}
		if m == "close" {
			site.next = "close"
			sites = append(sites, site)
			return nil
		}
		if m == "" || rp != holderPath {
			return fmt.Errorf("%s: the statement after the send of the chunk is neither a reset call on %s nor close", c02FuncName(fn), holderPath)
		}
		rf := byName[holderType+"."+m]
		if rf == nil {
			return fmt.Errorf("%s: %s.%s not found", c02FuncName(fn), holderType, m)
		}
		ri := resets[c02FuncName(rf)]
		if ri == nil {
			var err error
			ri, err = analyseReset(rf, sent)
			if err != nil {
				return err
			}
			resets[c02FuncName(rf)] = ri
		} else {
			for _, p := range sent {
				if ri.cfgs[p.typ] == nil {
					more, err := analyseReset(rf, []c02Ptr{p})
					if err != nil {
						return err
					}
					ri.cfgs[p.typ] = more.cfgs[p.typ]
				}
			}
		}
		site.next = c02FuncName(rf)
		for t := range ri.cfgs {
			site.resets = append(site.resets, t)
		}
		sort.Strings(site.resets)
		sites = append(sites, site)
		return nil
	}
	flushFn := byName["timeSeriesAndSamples.flush"]
	for _, s := range sends {
		if s.fn == flushFn {
			if len(flushFn.fd.Body.List) != 1 {
				return "", fmt.Errorf("timeSeriesAndSamples.flush: expected the send to be its only statement")
			}
			continue
		}
		if s.fn.recv != "parserDoer" {
			return "", fmt.Errorf("%s sends a chunk: unrecognised sender", c02FuncName(s.fn))
		}
		// the send may sit inside a `go func(){…}()` literal: parents are computed over the whole declaration
		par := c02Parents(s.fn.fd.Body)
		if err := addSite(s.fn, following(par, s.stmt), s.sent, s.fn.rv, "parserDoer"); err != nil {
			return "", err
		}
	}
	// call sites of flush()
	nFlushCalls := 0
	if flushFn != nil {
		var flushSent []c02Ptr
		for _, s := range sends {
			if s.fn == flushFn {
				flushSent = s.sent
			}
		}
		for _, fn := range funcs {
			par := c02Parents(fn.fd.Body)
			var bad error
			ast.Inspect(fn.fd.Body, func(n ast.Node) bool {
				es, ok := n.(*ast.ExprStmt)
				if !ok {
					return true
				}
				rp, m := callName(es)
				if m != "flush" {
					return true
				}
				if fn.recv != "parserDoer" || rp != fn.rv+"."+tsSplField {
					bad = fmt.Errorf("%s: flush() called on %q", c02FuncName(fn), rp)
					return true
				}
				nFlushCalls++
				if err := addSite(fn, following(par, es), flushSent, rp, "timeSeriesAndSamples"); err != nil {
					bad = err
				}
				return true
			})
			if bad != nil {
				return "", bad
			}
		}
	}
	if len(sites) == 0 || (flushFn != nil && nFlushCalls == 0) {
		return "", fmt.Errorf("no flush site found")
	}
	// every request type must have exactly one reset configuration
	cfgByType := map[string]*c02Cfg{}
	for _, ri := range resets {
		for t, c := range ri.cfgs {
			if old := cfgByType[t]; old != nil && old.resetFn != c.resetFn {
				return "", fmt.Errorf("*model.%s is reset by both %s and %s", t, old.resetFn, c.resetFn)
			}
			cfgByType[t] = c
		}
	}
	for _, t := range c02ReqTypes {
		if cfgByType[t] == nil {
			return "", fmt.Errorf("no reset found for *model.%s (it is never sent and reset?)", t)
		}
	}
	isReset := map[*c02Func]bool{}
	for name := range resets {
		isReset[byName[name]] = true
	}

	// ---- writes and escapes outside the resets
	var writes []c02Write
	for _, fn := range funcs {
		if len(fn.ptrs) == 0 {
			continue
		}
		par := c02Parents(fn.fd.Body)
		var bad error
		fail := func(format string, a ...any) {
			if bad == nil {
				bad = fmt.Errorf("%s: "+format, append([]any{c02FuncName(fn)}, a...)...)
			}
		}
		ast.Inspect(fn.fd.Body, func(n ast.Node) bool {
			se, ok := n.(*ast.SelectorExpr)
			if !ok {
				return true
			}
			p, ok := fn.ptrs[selPath(se)]
			if !ok {
				return true
			}
			ptrExpr := selPath(se)
			switch q := par[se].(type) {
			case *ast.SelectorExpr:
				if q.X != se {
					fail("%s in an unrecognised position", ptrExpr)
					return true
				}
				// q = ptr.Field: how is it used?
				field := q.Sel.Name
				switch u := par[q].(type) {
				case *ast.AssignStmt:
					isLhs := false
					for i, l := range u.Lhs {
						if l != q {
							continue
						}
						isLhs = true
						if isReset[fn] {
							continue // classified by analyseReset
						}
						if len(u.Rhs) != len(u.Lhs) {
							fail("%s.%s assigned from a multi-value expression", ptrExpr, field)
							continue
						}
						kind := ""
						switch {
						case field == "Size" && (u.Tok == token.ADD_ASSIGN || u.Tok == token.ASSIGN):
							kind = "size"
						case u.Tok == token.ASSIGN:
							if c, ok := u.Rhs[i].(*ast.CallExpr); ok && exprText(c.Fun) == "append" && len(c.Args) >= 1 && selPath(c.Args[0]) == selPath(q) {
								kind = "append"
							} else if !c02Mentions(u.Rhs[i], fn, nil) {
								kind = "assign"
							}
						}
						if kind == "" {
							fail("unrecognised write %s.%s %s %s", ptrExpr, field, u.Tok, exprText(u.Rhs[i]))
							continue
						}
						writes = append(writes, c02Write{c02FuncName(fn), p.typ, field, kind})
					}
					if !isLhs && !isReset[fn] {
						fail("%s.%s copied into another variable", ptrExpr, field)
					}
				case *ast.CallExpr:
					fname := exprText(u.Fun)
					if fname == "len" || fname == "cap" {
						return true
					}
					if fname == "append" && len(u.Args) >= 1 && u.Args[0] == ast.Expr(q) {
						if as, ok := par[u].(*ast.AssignStmt); ok && len(as.Lhs) == 1 && selPath(as.Lhs[0]) == selPath(q) {
							return true
						}
					}
					if isReset[fn] {
						return true // an argument inside a reset: classified as reslice by analyseReset
					}
					fail("%s.%s passed to %s", ptrExpr, field, fname)
				case *ast.RangeStmt:
					if u.X != ast.Expr(q) {
						fail("%s.%s in a range clause", ptrExpr, field)
					}
				case *ast.ReturnStmt, *ast.BinaryExpr:
					// the int field Size may be read as a value; a slice field may not be copied out
					if field != "Size" && !isReset[fn] {
						fail("%s.%s used as a value", ptrExpr, field)
					}
				default:
					if isReset[fn] {
						return true
					}
					if _, isIdx := par[q].(*ast.IndexExpr); isIdx {
						fail("%s.%s[…]: element access through the current pointer", ptrExpr, field)
					} else if _, isSl := par[q].(*ast.SliceExpr); isSl {
						fail("%s.%s[:]: re-slicing through the current pointer", ptrExpr, field)
					} else {
						fail("%s.%s in an unrecognised position (%T)", ptrExpr, field, par[q])
					}
				}
			case *ast.KeyValueExpr: // inside the ParserResponse literal
				if q.Value != ast.Expr(se) {
					fail("%s as a key", ptrExpr)
				}
			case *ast.AssignStmt:
				onLhs := false
				for _, l := range q.Lhs {
					if l == ast.Expr(se) {
						onLhs = true
					}
				}
				if !(isReset[fn] || (onLhs && isReset[fn])) {
					if onLhs {
						fail("%s assigned outside a reset function", ptrExpr)
					} else {
						fail("%s copied into another variable", ptrExpr)
					}
				}
			case *ast.BinaryExpr: // nil checks
				other := q.X
				if other == ast.Expr(se) {
					other = q.Y
				}
				if id, ok := other.(*ast.Ident); !ok || id.Name != "nil" {
					fail("%s compared with something other than nil", ptrExpr)
				}
			default:
				if !isReset[fn] {
					fail("%s leaves through %T", ptrExpr, par[se])
				}
			}
			return true
		})
		if bad != nil {
			return "", bad
		}
	}
	sort.Slice(writes, func(i, j int) bool {
		a, b := writes[i], writes[j]
		if a.fn != b.fn {
			return a.fn < b.fn
		}
		if a.typ != b.typ {
			return a.typ < b.typ
		}
		if a.field != b.field {
			return a.field < b.field
		}
		return a.kind < b.kind
	})
	// dedupe
	var uw []c02Write
	for i, w := range writes {
		if i == 0 || w != writes[i-1] {
			uw = append(uw, w)
		}
	}
	sort.Slice(sites, func(i, j int) bool { return sites[i].fn < sites[j].fn })

	// ---- render
	var b strings.Builder
	b.WriteString("import Qryn.Ingest.Handoff\nnamespace Qryn.Gen.ChunkReset\nopen Qryn.Ingest.Handoff Qryn.Ingest.Batcher\n\n")
	for _, t := range c02ReqTypes {
		c := cfgByType[t]
		fmt.Fprintf(&b, "/-- `*model.%s`: pointer `%s`, next chunk produced by `%s` -/\n", t, c.ptr, c.resetFn)
		var fs []string
		for _, f := range c.fields {
			fs = append(fs, fmt.Sprintf("(%s, .%s)", leanStr(f[0]), f[1]))
		}
		fmt.Fprintf(&b, "def %s : Cfg :=\n  { obj := .%s\n    fields := [%s] }\n\n", insPTypes[t], c.obj, strings.Join(fs, ", "))
	}
	b.WriteString("def cfgOf : PType → Cfg\n")
	for _, t := range c02ReqTypes {
		fmt.Fprintf(&b, "  | .%s => %s\n", insPTypes[t], insPTypes[t])
	}
	b.WriteString("\n/-- every send of a response that carries request objects, with what the parser does next -/\ndef flushSites : List FlushSite :=\n  [")
	for i, s := range sites {
		if i > 0 {
			b.WriteString(",\n   ")
		}
		fmt.Fprintf(&b, "{ fn := %s, sent := %s, next := %s, resets := %s }", leanStr(s.fn), leanStrList(s.sent), leanStr(s.next), leanStrList(s.resets))
	}
	b.WriteString("]\n\n/-- every write through a current-chunk pointer outside the resets: (function, request type, field, kind) -/\ndef writes : List (String × String × String × String) :=\n  [")
	for i, w := range uw {
		if i > 0 {
			b.WriteString(",\n   ")
		}
		fmt.Fprintf(&b, "(%s, %s, %s, %s)", leanStr(w.fn), leanStr(w.typ), leanStr(w.field), leanStr(w.kind))
	}
	b.WriteString("]\n\nend Qryn.Gen.ChunkReset\n")
	return b.String(), nil
}

// ---------------------------------------------------------------- the insert-service side

func c02RequestCopy() (string, error) {
	_, gen, err := parseFile("writer/service/genericInsertService.go")
	if err != nil {
		return "", err
	}
	type use struct {
		recv string
		uses []string
	}
	var uses []use
	for _, d := range gen.Decls {
		fd, ok := d.(*ast.FuncDecl)
		if !ok || fd.Name.Name != "Request" || fd.Body == nil {
			continue
		}
		recv, _ := c02Recv(fd)
		if recv == "" || fd.Type.Params == nil || len(fd.Type.Params.List) < 1 || len(fd.Type.Params.List[0].Names) != 1 {
			return "", fmt.Errorf("Request of %q: unexpected signature", recv)
		}
		req := fd.Type.Params.List[0].Names[0].Name
		par := c02Parents(fd.Body)
		u := use{recv: recv}
		var bad error
		ast.Inspect(fd.Body, func(n ast.Node) bool {
			id, ok := n.(*ast.Ident)
			if !ok || id.Name != req {
				return true
			}
			switch p := par[id].(type) {
			case *ast.SelectorExpr:
				if c, ok := par[p].(*ast.CallExpr); ok && p.X == ast.Expr(id) && p.Sel.Name == "GetSize" && c.Fun == ast.Expr(p) {
					u.uses = append(u.uses, "getSize")
					return true
				}
			case *ast.CallExpr:
				if len(p.Args) >= 1 && p.Args[0] == ast.Expr(id) {
					if se, ok := p.Fun.(*ast.SelectorExpr); ok {
						if se.Sel.Name == "processRequest" {
							u.uses = append(u.uses, "process")
							return true
						}
						if se.Sel.Name == "Request" {
							u.uses = append(u.uses, "forward")
							return true
						}
					}
				}
			}
			bad = fmt.Errorf("%s.Request: unrecognised use of %s (it may be retained)", recv, req)
			return true
		})
		if bad != nil {
			return "", bad
		}
		uses = append(uses, u)
	}
	if len(uses) != 3 {
		return "", fmt.Errorf("expected 3 Request methods in genericInsertService.go, found %d", len(uses))
	}
	sort.Slice(uses, func(i, j int) bool { return uses[i].recv < uses[j].recv })
	// adaptors
	type ad struct{ name, shape string }
	var ads []ad
	for _, file := range []string{"writer/service/colAdaptors.go", "writer/service/helper.go"} {
		_, f, err := parseFile(file)
		if err != nil {
			return "", err
		}
		for _, d := range f.Decls {
			fd, ok := d.(*ast.FuncDecl)
			if !ok || fd.Body == nil || (fd.Name.Name != "Append" && fd.Name.Name != "AppendArr") {
				continue
			}
			recv, _ := c02Recv(fd)
			if fd.Type.Params == nil || len(fd.Type.Params.List) != 1 || len(fd.Type.Params.List[0].Names) != 1 {
				return "", fmt.Errorf("%s.%s: unexpected signature", recv, fd.Name.Name)
			}
			arg := fd.Type.Params.List[0].Names[0].Name
			// calls `x.Append(<expr rooted at root>)` only
			appendsOf := func(stmts []ast.Stmt, root string) bool {
				if len(stmts) == 0 {
					return false
				}
				for _, s := range stmts {
					es, ok := s.(*ast.ExprStmt)
					if !ok {
						return false
					}
					c, ok := es.X.(*ast.CallExpr)
					if !ok || len(c.Args) != 1 {
						return false
					}
					se, ok := c.Fun.(*ast.SelectorExpr)
					if !ok || se.Sel.Name != "Append" {
						return false
					}
					p := selPath(c.Args[0])
					if p != root && !strings.HasPrefix(p, root+".") {
						return false
					}
				}
				return true
			}
			shape := ""
			body := fd.Body.List
			if len(body) == 1 {
				switch s := body[0].(type) {
				case *ast.RangeStmt:
					if selPath(s.X) == arg && s.Value != nil && appendsOf(s.Body.List, exprText(s.Value)) {
						shape = "rangeAppend"
					}
				case *ast.AssignStmt:
					if len(s.Lhs) == 1 && len(s.Rhs) == 1 && s.Tok == token.ASSIGN {
						if c, ok := s.Rhs[0].(*ast.CallExpr); ok && exprText(c.Fun) == "append" && len(c.Args) == 2 && c.Ellipsis != token.NoPos {
							l, isStar := s.Lhs[0].(*ast.StarExpr)
							a0, isStar0 := c.Args[0].(*ast.StarExpr)
							if isStar && isStar0 && selPath(l.X) != "" && selPath(l.X) == selPath(a0.X) && selPath(c.Args[1]) == arg {
								shape = "spread"
							}
						}
					}
				}
			}
			if shape == "" && fd.Name.Name == "Append" && appendsOf(body, arg) {
				shape = "fieldAppend"
			}
			if shape == "" {
				return "", fmt.Errorf("%s.%s in %s: unrecognised shape (the column may keep a reference to the caller's slice)", recv, fd.Name.Name, file)
			}
			ads = append(ads, ad{recv + "." + fd.Name.Name, shape})
		}
	}
	if len(ads) < 10 {
		return "", fmt.Errorf("only %d Append/AppendArr adaptors found", len(ads))
	}
	sort.Slice(ads, func(i, j int) bool { return ads[i].name < ads[j].name })
	var b strings.Builder
	b.WriteString("namespace Qryn.Gen.RequestCopy\n\n/-- what each `Request` method of genericInsertService.go does with `req` -/\ndef requestUses : List (String × List String) :=\n  [")
	for i, u := range uses {
		if i > 0 {
			b.WriteString(",\n   ")
		}
		fmt.Fprintf(&b, "(%s, %s)", leanStr(u.recv), leanStrList(u.uses))
	}
	b.WriteString("]\n\n/-- shape of every column adaptor that receives request data -/\ndef adaptors : List (String × String) :=\n  [")
	for i, a := range ads {
		if i > 0 {
			b.WriteString(",\n   ")
		}
		fmt.Fprintf(&b, "(%s, %s)", leanStr(a.name), leanStr(a.shape))
	}
	b.WriteString("]\n\nend Qryn.Gen.RequestCopy\n")
	return b.String(), nil
}

func init() {
	register("ChunkReset", c02ChunkReset)
	register("RequestCopy", c02RequestCopy)
}
