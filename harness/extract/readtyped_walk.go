package main

// Typed census, part 2: roots, the walk over the call graph, the Lean text.

import (
	"fmt"
	"go/token"
	"go/types"
	"os"
	"path/filepath"
	"sort"
	"strings"

	"golang.org/x/tools/go/ssa"
	"golang.org/x/tools/go/ssa/ssautil"
)

func rtTop(fn *ssa.Function) *ssa.Function {
	for fn.Parent() != nil {
		fn = fn.Parent()
	}
	return fn
}

// "Recv.Name" / "Name" of a declared function, as the syntactic census names it
func rtDeclName(fn *ssa.Function) string {
	if o, ok := fn.Object().(*types.Func); ok && o != nil {
		if sig, ok := o.Type().(*types.Signature); ok && sig.Recv() != nil {
			t := sig.Recv().Type()
			if p, ok := t.(*types.Pointer); ok {
				t = p.Elem()
			}
			if n, ok := t.(*types.Named); ok {
				return n.Obj().Name() + "." + o.Name()
			}
		}
		return o.Name()
	}
	return fn.Name()
}

func (w *rtWorld) relFile(pos token.Pos) string {
	if !pos.IsValid() {
		return "?"
	}
	name := w.fset.File(pos).Name()
	rel, err := filepath.Rel(repo, name)
	if err != nil {
		return name
	}
	return strings.TrimPrefix(rel, "reader/")
}

// out-edges of fn that run on fn's own stack: calls and deferred calls (not `go`), restricted to qryn callees with a
// body; plus the callbacks handed to library functions
func (w *rtWorld) stackEdges(fn *ssa.Function) []rtEdge {
	var res []rtEdge
	seen := map[string]bool{}
	add := func(site ssa.Instruction, c *ssa.Function) {
		if c == nil {
			return
		}
		k := fmt.Sprintf("%p/%p", site, c)
		if seen[k] {
			return
		}
		seen[k] = true
		res = append(res, rtEdge{site, c})
	}
	precise := map[ssa.Instruction]bool{}
	for _, b := range fn.Blocks {
		for _, in := range b.Instrs {
			ci, ok := in.(ssa.CallInstruction)
			if !ok {
				continue
			}
			com := ci.Common()
			if com.IsInvoke() || com.StaticCallee() != nil {
				continue
			}
			if _, isB := com.Value.(*ssa.Builtin); isB {
				continue
			}
			if rtLibraryResult(com.Value, 0) != "" {
				precise[in] = true
				continue
			}
			if fs, ok := rtResolveFuncValue(com.Value, 0); ok {
				precise[in] = true
				if _, isGo := in.(*ssa.Go); isGo {
					continue
				}
				for _, f := range fs {
					if rtIsQryn(f) && len(f.Blocks) > 0 {
						add(in, f)
					}
				}
			}
		}
	}
	if n := w.cg.Nodes[fn]; n != nil {
		for _, e := range n.Out {
			if e.Site == nil || precise[e.Site] {
				continue
			}
			if _, isGo := e.Site.(*ssa.Go); isGo {
				continue
			}
			c := e.Callee.Func
			if c.Synthetic != "" && !rtIsQryn(c) {
				// wrapper ($bound, $thunk, promoted method): look through it
				if m := w.cg.Nodes[c]; m != nil {
					for _, e2 := range m.Out {
						if rtIsQryn(e2.Callee.Func) && len(e2.Callee.Func.Blocks) > 0 {
							add(e.Site, e2.Callee.Func)
						}
					}
				}
				continue
			}
			if rtIsQryn(c) && len(c.Blocks) > 0 {
				add(e.Site, c)
			}
		}
	}
	// callbacks
	for _, b := range fn.Blocks {
		for _, in := range b.Instrs {
			ci, ok := in.(ssa.CallInstruction)
			if !ok {
				continue
			}
			if _, isGo := in.(*ssa.Go); isGo {
				continue
			}
			com := ci.Common()
			if callee := com.StaticCallee(); callee != nil && rtIsQryn(callee) && len(callee.Blocks) > 0 {
				continue // the qryn callee calls its parameter: resolved by signature in the call graph
			}
			for _, a := range com.Args {
				switch x := a.(type) {
				case *ssa.MakeClosure:
					if f, ok := x.Fn.(*ssa.Function); ok {
						if rtIsQryn(f) && len(f.Blocks) > 0 {
							add(in, f)
						} else if f.Synthetic != "" {
							if m := w.cg.Nodes[f]; m != nil {
								for _, e2 := range m.Out {
									if rtIsQryn(e2.Callee.Func) && len(e2.Callee.Func.Blocks) > 0 {
										add(in, e2.Callee.Func)
									}
								}
							}
						}
					}
				case *ssa.Function:
					if rtIsQryn(x) && len(x.Blocks) > 0 {
						add(in, x)
					}
				}
			}
		}
	}
	return res
}

// the functions a function value can be, when every assignment to the variable it is read from is a closure or a
// named function (local closures such as `exportEntries := func(){…}` captured by a goroutine literal)
func rtResolveFuncValue(v ssa.Value, depth int) ([]*ssa.Function, bool) {
	if depth > 5 {
		return nil, false
	}
	switch x := v.(type) {
	case *ssa.MakeClosure:
		if f, ok := x.Fn.(*ssa.Function); ok {
			return []*ssa.Function{f}, true
		}
	case *ssa.Function:
		return []*ssa.Function{x}, true
	case *ssa.ChangeType:
		return rtResolveFuncValue(x.X, depth+1)
	case *ssa.Phi:
		var res []*ssa.Function
		for _, e := range x.Edges {
			fs, ok := rtResolveFuncValue(e, depth+1)
			if !ok {
				return nil, false
			}
			res = append(res, fs...)
		}
		return res, true
	case *ssa.UnOp:
		if x.Op != token.MUL {
			return nil, false
		}
		cell := rtCell(x.X, 0)
		if cell == nil {
			return nil, false
		}
		// every store to the cell, in the function that owns it and in its nested literals
		var res []*ssa.Function
		ok := true
		var scan func(f *ssa.Function)
		scan = func(f *ssa.Function) {
			for _, b := range f.Blocks {
				for _, in := range b.Instrs {
					if st, isSt := in.(*ssa.Store); isSt && rtCell(st.Addr, 0) == cell {
						fs, r := rtResolveFuncValue(st.Val, depth+1)
						if !r {
							ok = false
						}
						res = append(res, fs...)
					}
				}
			}
			for _, a := range f.AnonFuncs {
				scan(a)
			}
		}
		scan(cell.Parent())
		if ok && len(res) > 0 {
			return res, true
		}
	}
	return nil, false
}

// a function value that a library function returned (context.WithCancel's cancel): the library's own code
func rtLibraryResult(v ssa.Value, depth int) string {
	if depth > 4 {
		return ""
	}
	switch x := v.(type) {
	case *ssa.Extract:
		if c, ok := x.Tuple.(*ssa.Call); ok {
			if f := c.Call.StaticCallee(); f != nil && !rtIsQryn(f) {
				return "result of " + f.RelString(nil)
			}
		}
	case *ssa.Call:
		if f := x.Call.StaticCallee(); f != nil && !rtIsQryn(f) {
			return "result of " + f.RelString(nil)
		}
	case *ssa.ChangeType:
		return rtLibraryResult(x.X, depth+1)
	case *ssa.UnOp:
		if x.Op != token.MUL {
			return ""
		}
		cell := rtCell(x.X, 0)
		if cell == nil {
			return ""
		}
		res, ok, n := "", true, 0
		var scan func(f *ssa.Function)
		scan = func(f *ssa.Function) {
			for _, b := range f.Blocks {
				for _, in := range b.Instrs {
					if st, isSt := in.(*ssa.Store); isSt && rtCell(st.Addr, 0) == cell {
						n++
						r := rtLibraryResult(st.Val, depth+1)
						if r == "" {
							ok = false
						}
						res = r
					}
				}
			}
			for _, a := range f.AnonFuncs {
				scan(a)
			}
		}
		scan(cell.Parent())
		if ok && n > 0 {
			return res
		}
	}
	return ""
}

// the local variable (Alloc) an address denotes, looking through closure captures
func rtCell(addr ssa.Value, depth int) *ssa.Alloc {
	if depth > 6 {
		return nil
	}
	switch x := addr.(type) {
	case *ssa.Alloc:
		return x
	case *ssa.FreeVar:
		fn := x.Parent()
		idx := -1
		for i, fv := range fn.FreeVars {
			if fv == x {
				idx = i
			}
		}
		if idx < 0 || fn.Parent() == nil {
			return nil
		}
		var cell *ssa.Alloc
		n := 0
		for _, b := range fn.Parent().Blocks {
			for _, in := range b.Instrs {
				if mc, ok := in.(*ssa.MakeClosure); ok && mc.Fn == ssa.Value(fn) && idx < len(mc.Bindings) {
					n++
					cell = rtCell(mc.Bindings[idx], depth+1)
				}
			}
		}
		if n == 1 {
			return cell
		}
	}
	return nil
}

// the names of what an uncovered call site reaches outside the module (or cannot be resolved at all)
func (w *rtWorld) externNames(fn *ssa.Function, in ssa.CallInstruction) []string {
	com := in.Common()
	if _, ok := com.Value.(*ssa.Builtin); ok {
		return nil
	}
	if c := com.StaticCallee(); c != nil {
		if rtIsQryn(c) {
			return nil
		}
		if c.Synthetic != "" {
			// bound method wrapper of a library method
			return []string{strings.TrimSuffix(strings.TrimSuffix(c.RelString(nil), "$bound"), "$thunk")}
		}
		return []string{c.RelString(nil)}
	}
	// dynamic: how many qryn callees did CHA find?
	n := 0
	if !com.IsInvoke() {
		if r := rtLibraryResult(com.Value, 0); r != "" {
			return []string{r}
		}
	}
	if fs, ok := rtResolveFuncValue(com.Value, 0); ok && !com.IsInvoke() {
		ext := []string{}
		for _, f := range fs {
			if !rtIsQryn(f) {
				ext = append(ext, f.RelString(nil))
			}
		}
		return ext
	}
	if node := w.cg.Nodes[fn]; node != nil {
		for _, e := range node.Out {
			if e.Site == ssa.CallInstruction(in) && rtIsQryn(e.Callee.Func) && len(e.Callee.Func.Blocks) > 0 {
				n++
			}
		}
	}
	if com.IsInvoke() {
		recv := types.TypeString(com.Value.Type(), func(p *types.Package) string {
			return strings.TrimPrefix(p.Path(), rtModule+"/")
		})
		name := "invoke " + recv + "." + com.Method.Name()
		if n == 0 {
			return []string{name}
		}
		// an interface declared outside the module may also be implemented by library types
		if named, ok := com.Value.Type().(*types.Named); ok && named.Obj().Pkg() != nil && !strings.HasPrefix(named.Obj().Pkg().Path(), rtModule) {
			return []string{name}
		}
		if _, ok := com.Value.Type().(*types.Named); !ok {
			return []string{name}
		}
		return nil
	}
	if n == 0 {
		return []string{"dyn " + types.TypeString(com.Value.Type().Underlying(), func(p *types.Package) string { return p.Name() })}
	}
	return nil
}

// an un-recovered HANDLER goroutine with more functions than this on its stack is not expanded: net/http's own
// recover keeps the process alive, what is lost is the response; the root is reported as `wide` with the calls its
// entry function makes, and the Lean side must name it. A `go` root is always expanded.
const rtWideHandler = 40

type rtResult struct {
	roots []*rtRoot
	fns   []*rtOut
	loops []rtLoop
}

type rtOut struct {
	name    string
	sites   []rtSite
	externs []string
}

func (w *rtWorld) walkRoot(r *rtRoot, uncovered map[*ssa.Function]bool) {
	var visit func(fn *ssa.Function)
	visit = func(fn *ssa.Function) {
		if uncovered[fn] {
			return
		}
		uncovered[fn] = true
		rf := w.analyse(fn)
		if os.Getenv("C12_TYPED_DEBUG") == "2" {
			cnt := map[ssa.Instruction]int{}
			for _, e := range w.stackEdges(fn) {
				cnt[e.site]++
			}
			for in, n := range cnt {
				if n > 8 {
					fmt.Fprintf(os.Stderr, "    fanout %d in %s at %s: %s\n", n, rtFnName(fn), w.fset.Position(in.Pos()), in.String())
				}
			}
		}
		for _, e := range w.stackEdges(fn) {
			if e.site != ssa.Instruction(rf.recDef) && rtCoveredBy(rf, e.site) {
				continue
			}
			visit(e.callee)
		}
	}
	for _, e := range r.entry {
		visit(e)
	}
}

func rtBuild() (*rtResult, error) {
	w, err := rtWorldCached()
	if err != nil {
		return nil, err
	}
	all := ssautil.AllFunctions(w.prog)
	var fns []*ssa.Function
	for f := range all {
		if rtIsQryn(f) && len(f.Blocks) > 0 {
			fns = append(fns, f)
		}
	}
	// token.Pos values depend on the order in which the loader added the files: order by (file, offset)
	posKey := func(p token.Pos) string {
		if !p.IsValid() {
			return "~"
		}
		pp := w.fset.Position(p)
		return fmt.Sprintf("%s:%09d", pp.Filename, pp.Offset)
	}
	sort.Slice(fns, func(i, j int) bool {
		a, b := posKey(fns[i].Pos()), posKey(fns[j].Pos())
		if a != b {
			return a < b
		}
		return rtFnName(fns[i]) < rtFnName(fns[j])
	})
	// ---- roots: go statements under reader/
	type goSite struct {
		in  *ssa.Go
		fn  *ssa.Function
		top *ssa.Function
	}
	var gos []goSite
	for _, f := range fns {
		if !rtUnderReader(f) || f.Synthetic != "" {
			continue
		}
		for _, b := range f.Blocks {
			for _, in := range b.Instrs {
				if g, ok := in.(*ssa.Go); ok {
					gos = append(gos, goSite{g, f, rtTop(f)})
				}
			}
		}
	}
	sort.Slice(gos, func(i, j int) bool { return posKey(gos[i].in.Pos()) < posKey(gos[j].in.Pos()) })
	ord := map[*ssa.Function]int{}
	var roots []*rtRoot
	for _, g := range gos {
		ord[g.top]++
		r := &rtRoot{kind: "go", name: fmt.Sprintf("%s:%s#%d", w.relFile(g.in.Pos()), rtDeclName(g.top), ord[g.top])}
		if n := w.cg.Nodes[g.fn]; n != nil {
			for _, e := range n.Out {
				if e.Site == ssa.CallInstruction(g.in) {
					c := e.Callee.Func
					if c.Synthetic != "" && !rtIsQryn(c) {
						if m := w.cg.Nodes[c]; m != nil {
							for _, e2 := range m.Out {
								if rtIsQryn(e2.Callee.Func) {
									r.entry = append(r.entry, e2.Callee.Func)
								}
							}
						}
						continue
					}
					r.entry = append(r.entry, c)
				}
			}
		}
		if len(r.entry) == 0 {
			return nil, fmt.Errorf("%s: the function started by the go statement cannot be resolved", r.name)
		}
		for _, e := range r.entry {
			if !rtIsQryn(e) || len(e.Blocks) == 0 {
				return nil, fmt.Errorf("%s: starts %s, which is outside the module", r.name, e.RelString(nil))
			}
		}
		roots = append(roots, r)
	}
	if len(roots) == 0 {
		return nil, fmt.Errorf("no go statement found under reader/")
	}
	// ---- roots: handler goroutines (functions of the HandlerFunc signature, ServeHTTP methods)
	// only functions that are used as VALUES somewhere (registered with the router, returned by a middleware
	// constructor): a helper such as tamePanic(w, r) has the signature but is only ever called
	taken := map[*ssa.Function]bool{}
	for _, f := range fns {
		for _, b := range f.Blocks {
			for _, in := range b.Instrs {
				var skip ssa.Value
				if ci, ok := in.(ssa.CallInstruction); ok && !ci.Common().IsInvoke() {
					skip = ci.Common().Value
				}
				for _, op := range in.Operands(nil) {
					if *op == nil || *op == skip {
						continue
					}
					switch x := (*op).(type) {
					case *ssa.Function:
						taken[x] = true
					case *ssa.MakeClosure:
						if fn, ok := x.Fn.(*ssa.Function); ok {
							taken[fn] = true
							// a bound-method wrapper stands for its method
							if fn.Synthetic != "" {
								if m := w.cg.Nodes[fn]; m != nil {
									for _, e := range m.Out {
										taken[e.Callee.Func] = true
									}
								}
							}
						}
					}
				}
				if mc, ok := in.(*ssa.MakeClosure); ok {
					if fn, ok := mc.Fn.(*ssa.Function); ok {
						taken[fn] = true
						if fn.Synthetic != "" {
							if m := w.cg.Nodes[fn]; m != nil {
								for _, e := range m.Out {
									taken[e.Callee.Func] = true
								}
							}
						}
					}
				}
			}
		}
	}
	for _, f := range fns {
		if !taken[f] && !(f.Name() == "ServeHTTP") {
			continue
		}
		if !(rtUnderReader(f) || rtPkgPath(f) == rtModule) || f.Synthetic != "" {
			continue
		}
		if !rtIsHandlerSig(f.Signature) {
			continue
		}
		name := rtDeclName(f)
		if f.Parent() != nil {
			name = rtFnName(f)
		}
		roots = append(roots, &rtRoot{kind: "handler", name: w.relFile(f.Pos()) + ":" + name, entry: []*ssa.Function{f}})
	}
	// ---- walk
	res := &rtResult{}
	union := map[*ssa.Function]bool{}
	for _, r := range roots {
		unc := map[*ssa.Function]bool{}
		w.walkRoot(r, unc)
		if r.kind == "handler" && len(unc) > rtWideHandler {
			r.wide = len(unc)
			ent := r.entry[0]
			rf := w.analyse(ent)
			direct := map[*ssa.Function]bool{}
			for _, e := range w.stackEdges(ent) {
				if e.site != ssa.Instruction(rf.recDef) && rtCoveredBy(rf, e.site) {
					continue
				}
				direct[e.callee] = true
			}
			unc = map[*ssa.Function]bool{ent: true}
			for f := range direct {
				r.direct = append(r.direct, rtFnName(f))
			}
			sort.Strings(r.direct)
		}
		r.recovers = true
		for _, e := range r.entry {
			if w.analyse(e).recDef == nil {
				r.recovers = false
			}
		}
		for f := range unc {
			union[f] = true
			r.fns = append(r.fns, rtFnName(f))
		}
		sort.Strings(r.fns)
		res.roots = append(res.roots, r)
	}
	var ufs []*ssa.Function
	for f := range union {
		ufs = append(ufs, f)
	}
	sort.Slice(ufs, func(i, j int) bool { return rtFnName(ufs[i]) < rtFnName(ufs[j]) })
	for _, f := range ufs {
		rf := w.analyse(f)
		o := &rtOut{name: rf.name}
		for _, s := range rf.sites {
			if rtCoveredBy(rf, s.in) {
				continue
			}
			if p, ok := s.in.(*ssa.Panic); ok && rtSelectPanic(p) {
				continue
			}
			o.sites = append(o.sites, s)
		}
		ext := map[string]bool{}
		for _, b := range f.Blocks {
			for _, in := range b.Instrs {
				ci, ok := in.(ssa.CallInstruction)
				if !ok {
					continue
				}
				if in != ssa.Instruction(rf.recDef) && rtCoveredBy(rf, in) {
					continue
				}
				for _, n := range w.externNames(f, ci) {
					ext[n] = true
				}
			}
		}
		for n := range ext {
			o.externs = append(o.externs, n)
		}
		sort.Strings(o.externs)
		res.fns = append(res.fns, o)
	}
	loops, err := w.handlerLoops(fns)
	if err != nil {
		return nil, err
	}
	res.loops = loops
	if os.Getenv("C12_TYPED_DEBUG") != "" {
		for _, l := range loops {
			fmt.Fprintf(os.Stderr, "  loop %s %s leavable=%v drains=%v sites=%d callees=%d calleeSites=%d externs=%v\n", l.fn, l.id, l.leavable, l.drains, len(l.sites), len(l.callees), len(l.calleeSites), l.externs)
		}
		ns, ne := 0, map[string]bool{}
		kinds := map[string]int{}
		for _, o := range res.fns {
			ns += len(o.sites)
			for _, s := range o.sites {
				kinds[s.kind]++
			}
			for _, e := range o.externs {
				ne[e] = true
			}
		}
		fmt.Fprintf(os.Stderr, "typed census: %d roots, %d uncovered functions, %d sites %v, %d extern names\n", len(res.roots), len(res.fns), ns, kinds, len(ne))
		for _, r := range res.roots {
			fmt.Fprintf(os.Stderr, "  %-8s rec=%-5v fns=%-4d %s\n", r.kind, r.recovers, len(r.fns), r.name)
		}
	}
	return res, nil
}

func rtIsHandlerSig(sig *types.Signature) bool {
	if sig.Params().Len() != 2 || sig.Results().Len() != 0 {
		return false
	}
	return types.TypeString(sig.Params().At(0).Type(), nil) == "net/http.ResponseWriter" &&
		types.TypeString(sig.Params().At(1).Type(), nil) == "*net/http.Request"
}

func (r *rtResult) lean() string {
	var sb strings.Builder
	sb.WriteString("/-- TYPED census (go/types + SSA + CHA call graph). Every goroutine whose stack starts under reader/ — the `go`\n")
	sb.WriteString("    statements and the handler goroutines net/http starts (functions of the HandlerFunc signature that are used as\n")
	sb.WriteString("    values): (root, kind, its entry function has a direct deferred recover, wide = an un-recovered handler whose stack\n")
	sb.WriteString("    is not expanded, the qryn functions that run on its stack outside every direct deferred recover — for a wide\n")
	sb.WriteString("    root: the functions its entry function calls) -/\n")
	sb.WriteString("def typedRoots : List (String × String × Bool × Bool × List String) :=\n  [")
	for i, g := range r.roots {
		if i > 0 {
			sb.WriteString(",\n   ")
		}
		fns := g.fns
		if g.wide > 0 {
			fns = g.direct
		}
		sb.WriteString(fmt.Sprintf("(%s, %s, %v, %v,\n    %s)", leanStr(g.name), leanStr(g.kind), g.recovers, g.wide > 0, rgLeanList(fns)))
	}
	sb.WriteString("]\n\n")
	sb.WriteString("/-- the functions of the expanded roots, each with the SSA instructions that can panic and are not discharged by a\n")
	sb.WriteString("    dominating guard: (function, sites (kind, source text, dominating conditions and markers), calls that leave the module) -/\n")
	sb.WriteString("def typedFunctions : List (String × List (String × String × List String) × List String) :=\n  [")
	for i, f := range r.fns {
		if i > 0 {
			sb.WriteString(",\n   ")
		}
		sb.WriteString("(" + leanStr(f.name) + ",\n    [")
		for j, s := range f.sites {
			if j > 0 {
				sb.WriteString(",\n     ")
			}
			sb.WriteString(fmt.Sprintf("(%s, %s, %s)", leanStr(s.kind), leanStr(s.text), rgLeanList(s.guards)))
		}
		sb.WriteString("],\n    " + rgLeanList(f.externs) + ")")
	}
	sb.WriteString("]\n\n")
	union := map[string]bool{}
	for _, f := range r.fns {
		for _, e := range f.externs {
			union[e] = true
		}
	}
	var us []string
	for e := range union {
		us = append(us, e)
	}
	sort.Strings(us)
	sb.WriteString("/-- every call that leaves the module from a function of `typedFunctions` (outside its recover): the boundary of the typed census -/\n")
	sb.WriteString("def typedExternsUnion : List String :=\n  " + rgLeanList(us) + "\n")
	return sb.String()
}
