package main

import (
	"fmt"
	"go/ast"
	"go/token"
	"os"
	"path/filepath"
	"sort"
	"strings"
)

// Gen.LabelPipeline: the ORDER in which the writer turns the label list of a stream into the series fingerprint and
// the stored label document —
//   * parserDoer.onEntries (writer/utils/unmarshal/builder.go): every event on the parameter `labels` in source order:
//     ("assign", f, wrappers) for `labels = f(w…(labels))` (the `__ttl_days__` block is the pseudo function `ttlStrip`),
//     ("use", f, wrappers) for a call `f(w…(labels))` whose result is not assigned to `labels`; so the value that flows
//     into `fingerprintLabels` and the one that flows into `encodeLabels` can be read off; any other mention of the
//     variable is listed as ("other", text, []) which the model does not recognise (fails closed);
//   * where the two results go: the fingerprint into MFingerprint of the samples AND of the series rows, the document
//     into MLabels of the series rows;
//   * validUTF8Labels: body shape, the replacement string;
//   * every decoder handing a label list to onEntries: the expression handed over, whether `sanitizeLabels` was applied
//     to it before, and every other statement writing to it;
//   * every call site of fingerprintLabels / encodeLabels / validUTF8Labels / sanitizeLabels in the repository;
//   * maybeAddFp: the byte layout of the series cache key.
// An unrecognised shape does not delete the module (the driver must build for the search): it sets shapeOk := false.

func c04CallName(fset *token.FileSet, e ast.Expr) string { return exprStr(fset, e) }

// c04Chain: e = f1(f2(…fn(ident)…)) with single-argument calls → ([fn … f2] innermost first, f1, true)
func c04Chain(fset *token.FileSet, e ast.Expr, ident string) (wrappers []string, outer string, ok bool) {
	ce, isCall := e.(*ast.CallExpr)
	if !isCall {
		return nil, "", false
	}
	var names []string
	cur := ast.Expr(ce)
	for {
		c, isCall := cur.(*ast.CallExpr)
		if !isCall {
			break
		}
		if len(c.Args) != 1 {
			return nil, "", false
		}
		names = append(names, c04CallName(fset, c.Fun))
		cur = c.Args[0]
	}
	if !isIdent(cur, ident) {
		return nil, "", false
	}
	// names = [outer … inner]
	outer = names[0]
	for i := len(names) - 1; i >= 1; i-- {
		wrappers = append(wrappers, names[i])
	}
	return wrappers, outer, true
}

func c04Mentions(n ast.Node, ident string) bool {
	found := false
	ast.Inspect(n, func(x ast.Node) bool {
		if id, ok := x.(*ast.Ident); ok && id.Name == ident {
			found = true
		}
		return !found
	})
	return found
}

func c04LeanStrList(l []string) string {
	parts := make([]string, len(l))
	for i, s := range l {
		parts[i] = leanStr(s)
	}
	return "[" + strings.Join(parts, ", ") + "]"
}

func init() {
	register("LabelPipeline", func() (string, error) {
		var out strings.Builder
		var problems []string
		problem := func(f string, a ...any) { problems = append(problems, fmt.Sprintf(f, a...)) }
		out.WriteString("namespace Qryn.Gen.LabelPipeline\n")

		fset, f, err := parseFile("writer/utils/unmarshal/builder.go")
		if err != nil {
			return "", err
		}
		oe := findFunc(f, "parserDoer", "onEntries")
		if oe == nil {
			return "", fmt.Errorf("parserDoer.onEntries not found")
		}
		if len(oe.Type.Params.List) == 0 || len(oe.Type.Params.List[0].Names) != 1 || oe.Type.Params.List[0].Names[0].Name != "labels" {
			return "", fmt.Errorf("onEntries: first parameter is not `labels`")
		}

		// ---- events on `labels`, in source order
		type ev struct {
			kind, fn string
			wrap     []string
		}
		var evs []ev
		fpVar, docVar := "", ""
		var walk func(n ast.Node)
		walkList := func(l []ast.Stmt) {
			for _, s := range l {
				walk(s)
			}
		}
		// the `__ttl_days__` block: if ttlDays == 0 { var _labels …; for _, lbl := range labels { if lbl[0] == "__ttl_days__" {…; continue}; _labels = append(_labels, lbl) }; labels = _labels }
		isTTLBlock := func(is *ast.IfStmt) bool {
			if exprStr(fset, is.Cond) != "ttlDays == 0" || is.Else != nil || len(is.Body.List) != 3 {
				return false
			}
			if exprStr(fset, is.Body.List[0]) != "var _labels [][]string" {
				return false
			}
			rs, ok := is.Body.List[1].(*ast.RangeStmt)
			if !ok || !isIdent(rs.X, "labels") || exprStr(fset, rs.Value) != "lbl" || len(rs.Body.List) != 2 {
				return false
			}
			inner, ok := rs.Body.List[0].(*ast.IfStmt)
			if !ok || exprStr(fset, inner.Cond) != `lbl[0] == "__ttl_days__"` || len(inner.Body.List) == 0 {
				return false
			}
			if _, ok := inner.Body.List[len(inner.Body.List)-1].(*ast.BranchStmt); !ok {
				return false
			}
			for _, s := range inner.Body.List {
				if c04Mentions(s, "labels") || c04Mentions(s, "_labels") {
					return false
				}
			}
			if exprStr(fset, rs.Body.List[1]) != "_labels = append(_labels, lbl)" {
				return false
			}
			return exprStr(fset, is.Body.List[2]) == "labels = _labels"
		}
		var handleExpr func(e ast.Node)
		handleExpr = func(e ast.Node) {
			// every maximal call chain over `labels` inside e is a use; any other mention is "other"
			ast.Inspect(e, func(x ast.Node) bool {
				switch v := x.(type) {
				case *ast.CallExpr:
					if w, outer, ok := c04Chain(fset, v, "labels"); ok {
						evs = append(evs, ev{"use", outer, w})
						return false
					}
				case *ast.FuncLit:
					if c04Mentions(v, "labels") {
						evs = append(evs, ev{"other", "closure: " + exprStr(fset, v), nil})
					}
					return false
				case *ast.Ident:
					if v.Name == "labels" {
						evs = append(evs, ev{"other", "bare mention", nil})
					}
				}
				return true
			})
		}
		walk = func(n ast.Node) {
			switch s := n.(type) {
			case nil:
			case *ast.BlockStmt:
				walkList(s.List)
			case *ast.IfStmt:
				if isTTLBlock(s) {
					evs = append(evs, ev{"assign", "ttlStrip", nil})
					return
				}
				if s.Init != nil {
					walk(s.Init)
				}
				handleExpr(s.Cond)
				walk(s.Body)
				if s.Else != nil {
					walk(s.Else)
				}
			case *ast.ForStmt:
				if s.Init != nil {
					walk(s.Init)
				}
				if s.Cond != nil {
					handleExpr(s.Cond)
				}
				if s.Post != nil {
					walk(s.Post)
				}
				walk(s.Body)
			case *ast.RangeStmt:
				handleExpr(s.X)
				walk(s.Body)
			case *ast.AssignStmt:
				if len(s.Lhs) == 1 && len(s.Rhs) == 1 && isIdent(s.Lhs[0], "labels") {
					if w, outer, ok := c04Chain(fset, s.Rhs[0], "labels"); ok {
						evs = append(evs, ev{"assign", outer, w})
					} else {
						evs = append(evs, ev{"other", exprStr(fset, s), nil})
					}
					return
				}
				for _, l := range s.Lhs {
					if c04Mentions(l, "labels") {
						evs = append(evs, ev{"other", exprStr(fset, s), nil})
						return
					}
				}
				before := len(evs)
				for _, r := range s.Rhs {
					handleExpr(r)
				}
				// remember the variables that receive the two results
				if len(s.Lhs) == 1 && len(evs) == before+1 && evs[before].kind == "use" {
					if id, ok := s.Lhs[0].(*ast.Ident); ok {
						switch evs[before].fn {
						case "fingerprintLabels":
							fpVar = id.Name
						case "encodeLabels":
							docVar = id.Name
						}
					}
				}
			case *ast.ExprStmt:
				handleExpr(s.X)
			case *ast.DeclStmt, *ast.IncDecStmt, *ast.ReturnStmt, *ast.BranchStmt, *ast.GoStmt, *ast.DeferStmt, *ast.SwitchStmt, *ast.TypeSwitchStmt, *ast.SelectStmt, *ast.SendStmt, *ast.LabeledStmt:
				if c04Mentions(s, "labels") {
					evs = append(evs, ev{"other", exprStr(fset, s), nil})
				}
			default:
				if c04Mentions(n, "labels") {
					evs = append(evs, ev{"other", exprStr(fset, n), nil})
				}
			}
		}
		walk(oe.Body)
		var evParts []string
		for _, e := range evs {
			evParts = append(evParts, fmt.Sprintf("(%s, %s, %s)", leanStr(e.kind), leanStr(e.fn), c04LeanStrList(e.wrap)))
		}
		fmt.Fprintf(&out, "/-- parserDoer.onEntries: every event on the parameter `labels`, in source order. (\"assign\", f, w): `labels = f(w…(labels))`\n    (`ttlStrip` = the `if ttlDays == 0 {…}` block that removes the `__ttl_days__` labels); (\"use\", f, w): a call `f(w…(labels))`\n    (wrappers innermost first); (\"other\", text, []): a mention of the variable the translator does not recognise -/\n")
		fmt.Fprintf(&out, "def onEntriesSteps : List (String × String × List String) := [%s]\n", strings.Join(evParts, ", "))

		// ---- where the results go
		src := exprStr(fset, oe.Body)
		fpSamples := fpVar != "" && strings.Contains(src, "p.tsSpl.spl.MFingerprint = append(p.tsSpl.spl.MFingerprint, fastFillArray(len(timestampsNS), "+fpVar+")...)")
		fpSeries := fpVar != "" && strings.Contains(src, "p.tsSpl.ts.MFingerprint = append(p.tsSpl.ts.MFingerprint, "+fpVar+")")
		docSeries := docVar != "" && strings.Contains(src, "p.tsSpl.ts.MLabels = append(p.tsSpl.ts.MLabels, "+docVar+")")
		fpKey := fpVar != "" && strings.Contains(src, "p.maybeAddFp(d, "+fpVar+", uint8(t))")
		// no other write to the three columns, and the two variables are assigned once
		for _, col := range []string{"p.tsSpl.spl.MFingerprint = ", "p.tsSpl.ts.MFingerprint = ", "p.tsSpl.ts.MLabels = "} {
			if strings.Count(src, col) != 1 {
				problem("onEntries: %q written %d times", strings.TrimSuffix(col, " = "), strings.Count(src, col))
			}
		}
		for _, v := range []string{fpVar, docVar} {
			if v == "" {
				continue
			}
			n := 0
			ast.Inspect(oe.Body, func(x ast.Node) bool {
				if is, ok := x.(*ast.IfStmt); ok && isTTLBlock(is) {
					return false // its `_labels` is a variable of that block
				}
				if as, ok := x.(*ast.AssignStmt); ok {
					for _, l := range as.Lhs {
						if isIdent(l, v) {
							n++
						}
					}
				}
				return true
			})
			if n != 1 {
				problem("onEntries: variable %s assigned %d times", v, n)
			}
		}
		if fpVar == "" {
			problem("onEntries: the result of fingerprintLabels is not assigned to a variable")
		}
		if docVar == "" {
			problem("onEntries: the result of encodeLabels is not assigned to a variable")
		}
		fmt.Fprintf(&out, "/-- the variable holding the fingerprint is what is appended (once per timestamp) to the samples' MFingerprint -/\ndef fpFlowsToSamples : Bool := %v\n", fpSamples)
		fmt.Fprintf(&out, "/-- … and what is appended to the series rows' MFingerprint and handed to maybeAddFp -/\ndef fpFlowsToSeries : Bool := %v\n", fpSeries && fpKey)
		fmt.Fprintf(&out, "/-- the variable holding the result of encodeLabels is what is appended to the series rows' MLabels -/\ndef docFlowsToSeries : Bool := %v\n", docSeries)

		// ---- validUTF8Labels
		vd := findFunc(f, "", "validUTF8Labels")
		if vd == nil {
			return "", fmt.Errorf("validUTF8Labels not found")
		}
		wantV := `{ for i, l := range lbls { if !utf8.ValidString(l[0]) || !utf8.ValidString(l[1]) { lbls[i] = []string{strings.ToValidUTF8(l[0], "\uFFFD"), strings.ToValidUTF8(l[1], "\uFFFD")} } } return lbls }`
		gotV := exprStr(fset, vd.Body)
		if gotV != wantV {
			problem("validUTF8Labels body changed: %s", gotV)
		}
		repl := ""
		ast.Inspect(vd.Body, func(x ast.Node) bool {
			if ce, ok := x.(*ast.CallExpr); ok && exprStr(fset, ce.Fun) == "strings.ToValidUTF8" && len(ce.Args) == 2 {
				if s, ok := strLit(ce.Args[1]); ok {
					repl = s
				}
			}
			return true
		})
		fmt.Fprintf(&out, "/-- validUTF8Labels: a label whose name or value is not `utf8.ValidString` gets both replaced by `strings.ToValidUTF8(·, replacement)` (body text checked by the translator) -/\ndef validUTF8BodyOk : Bool := %v\ndef replacement : List UInt8 := %s\n", gotV == wantV, leanBytes(repl))

		// ---- decoders
		dir := filepath.Join(repo, "writer/utils/unmarshal")
		ents, err := os.ReadDir(dir)
		if err != nil {
			return "", err
		}
		type site struct{ fn, file, decl string }
		var sites []site
		type dec struct {
			typ, expr string
			sanit     bool
			other     []string
		}
		var decs []dec
		var files []string
		filepath.Walk(repo, func(p string, info os.FileInfo, err error) error {
			if err != nil {
				return nil
			}
			if info.IsDir() {
				n := info.Name()
				if n == ".git" || n == "node_modules" || n == "vendor" {
					return filepath.SkipDir
				}
				return nil
			}
			if strings.HasSuffix(p, ".go") && !strings.HasSuffix(p, "_test.go") {
				rel, _ := filepath.Rel(repo, p)
				files = append(files, rel)
			}
			return nil
		})
		sort.Strings(files)
		tracked := map[string]bool{"fingerprintLabels": true, "encodeLabels": true, "validUTF8Labels": true, "sanitizeLabels": true}
		for _, rel := range files {
			inPkg := filepath.Dir(rel) == "writer/utils/unmarshal"
			fs2, f2, err := parseFile(rel)
			if err != nil {
				continue // files of other build configurations that do not parse are outside the census
			}
			for _, d := range f2.Decls {
				fd, ok := d.(*ast.FuncDecl)
				if !ok || fd.Body == nil {
					continue
				}
				declName := fd.Name.Name
				if fd.Recv != nil && len(fd.Recv.List) == 1 {
					t := fd.Recv.List[0].Type
					if st, ok := t.(*ast.StarExpr); ok {
						t = st.X
					}
					declName = exprStr(fs2, t) + "." + declName
				}
				ast.Inspect(fd.Body, func(x ast.Node) bool {
					ce, ok := x.(*ast.CallExpr)
					if !ok {
						return true
					}
					name := ""
					switch fn := ce.Fun.(type) {
					case *ast.Ident:
						if inPkg {
							name = fn.Name
						}
					case *ast.SelectorExpr:
						if isIdent(fn.X, "unmarshal") {
							name = fn.Sel.Name
						}
					}
					if tracked[name] {
						sites = append(sites, site{name, rel, declName})
					}
					return true
				})
			}
		}
		_ = ents
		// decoders: per receiver type, the first argument of every `.onEntries(` call and the statements writing to it
		for _, rel := range files {
			if filepath.Dir(rel) != "writer/utils/unmarshal" {
				continue
			}
			fs2, f2, err := parseFile(rel)
			if err != nil {
				return "", err
			}
			byType := map[string][]*ast.FuncDecl{}
			var order []string
			for _, d := range f2.Decls {
				fd, ok := d.(*ast.FuncDecl)
				if !ok || fd.Body == nil || fd.Recv == nil || len(fd.Recv.List) != 1 {
					continue
				}
				t := fd.Recv.List[0].Type
				if st, ok := t.(*ast.StarExpr); ok {
					t = st.X
				}
				tn := exprStr(fs2, t)
				if _, ok := byType[tn]; !ok {
					order = append(order, tn)
				}
				byType[tn] = append(byType[tn], fd)
			}
			for _, tn := range order {
				if tn == "parserDoer" {
					continue
				}
				exprs := map[string]bool{}
				var exprOrder []string
				for _, fd := range byType[tn] {
					ast.Inspect(fd.Body, func(x ast.Node) bool {
						ce, ok := x.(*ast.CallExpr)
						if !ok {
							return true
						}
						se, ok := ce.Fun.(*ast.SelectorExpr)
						if !ok || se.Sel.Name != "onEntries" || len(ce.Args) != 5 {
							return true
						}
						e := exprStr(fs2, ce.Args[0])
						if !exprs[e] {
							exprs[e] = true
							exprOrder = append(exprOrder, e)
						}
						return true
					})
				}
				for _, e := range exprOrder {
					d := dec{typ: tn, expr: e}
					for _, fd := range byType[tn] {
						ast.Inspect(fd.Body, func(x ast.Node) bool {
							as, ok := x.(*ast.AssignStmt)
							if !ok {
								return true
							}
							for _, l := range as.Lhs {
								lt := exprStr(fs2, l)
								if lt != e && !strings.HasPrefix(lt, e+"[") {
									continue
								}
								txt := exprStr(fs2, as)
								switch {
								case txt == e+" = sanitizeLabels("+e+")":
									d.sanit = true
								case txt == e+" = "+e+"[:0]", strings.HasPrefix(txt, e+" = make("):
									// reset of the reused buffer
								default:
									d.other = append(d.other, txt)
								}
							}
							return true
						})
					}
					decs = append(decs, d)
				}
			}
		}
		var dparts []string
		for _, d := range decs {
			dparts = append(dparts, fmt.Sprintf("  (%s, %s, %v, %s)", leanStr(d.typ), leanStr(d.expr), d.sanit, c04LeanStrList(d.other)))
		}
		fmt.Fprintf(&out, "/-- every decoder type of writer/utils/unmarshal that calls `onEntries`: (type, the expression handed over as the label list,\n    `X = sanitizeLabels(X)` occurs in the type's methods, every other assignment to X or its elements) -/\n")
		fmt.Fprintf(&out, "def decoders : List (String × String × Bool × List String) := [\n%s\n]\n", strings.Join(dparts, ",\n"))
		var sparts []string
		for _, s := range sites {
			sparts = append(sparts, fmt.Sprintf("  (%s, %s, %s)", leanStr(s.fn), leanStr(s.file), leanStr(s.decl)))
		}
		fmt.Fprintf(&out, "/-- every call of fingerprintLabels / encodeLabels / validUTF8Labels / sanitizeLabels in the non-test Go files of the repository:\n    (function, file, enclosing declaration) -/\n")
		fmt.Fprintf(&out, "def callSites : List (String × String × String) := [\n%s\n]\n", strings.Join(sparts, ",\n"))

		// ---- maybeAddFp: layout of the cache key
		ma := findFunc(f, "parserDoer", "maybeAddFp")
		if ma == nil {
			return "", fmt.Errorf("maybeAddFp not found")
		}
		maSrc := exprStr(fset, ma.Body)
		wantKey := []string{
			"dateTS := date.Unix()",
			"var bs [17]byte",
			"copy(bs[0:8], unsafe.Slice((*byte)(unsafe.Pointer(&dateTS)), 16))",
			"copy(bs[8:16], unsafe.Slice((*byte)(unsafe.Pointer(&fp)), 16))",
			"bs[16] = tp",
			"_fp := city.CH64(bs[:])",
		}
		keyOk := true
		pos := 0
		for _, w := range wantKey {
			i := strings.Index(maSrc[pos:], w)
			if i < 0 {
				keyOk = false
				problem("maybeAddFp: statement %q not found in order", w)
				break
			}
			pos += i + len(w)
		}
		fmt.Fprintf(&out, "/-- maybeAddFp: the cache key is CH64 of 17 bytes: bytes 0–7 the day (`date.Unix()`, int64 little endian), bytes 8–15 the\n    fingerprint (little endian), byte 16 the sample type (statements checked in order by the translator) -/\n")
		fmt.Fprintf(&out, "def keyLayoutOk : Bool := %v\ndef keyLayout : List (String × Nat × Nat) := [(\"day\", 0, 8), (\"fp\", 8, 16), (\"type\", 16, 17)]\n", keyOk)

		fmt.Fprintf(&out, "/-- every code shape the model relies on was recognised by the translator -/\ndef shapeOk : Bool := %v\ndef shapeProblems : List String := %s\n", len(problems) == 0, c04LeanStrList(problems))
		out.WriteString("end Qryn.Gen.LabelPipeline\n")
		return out.String(), nil
	})
}
