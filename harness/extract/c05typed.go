package main

// Typed view of /repo's writer packages for the C05 extractors (Gen.IngestCensus, Gen.CtxChains, Gen.IngestParams):
// golang.org/x/tools/go/packages (the version /repo's go.mod pins; export data of the dependencies comes from the
// build cache, nothing is fetched) gives syntax + go/types information for every package under writer/.
//
// On top of it: the declarations with bodies, every function VALUE of the loaded packages (function literals that
// are not applied / spawned / deferred on the spot, named functions and method values used as values) with its
// signature — a call through a function value is resolved to all values of an identical signature — and the named
// types (an interface method call is resolved to the methods of every loaded type that implements the interface).

import (
	"fmt"
	"go/ast"
	"go/token"
	"go/types"
	"os"
	"path/filepath"
	"sort"
	"strings"
	"sync"

	"golang.org/x/tools/go/packages"
)

const c5ModPath = "github.com/metrico/qryn/"

type c5Decl struct {
	pkg  *packages.Package
	file *ast.File
	fd   *ast.FuncDecl
}

type c5FuncVal struct {
	sig   *types.Signature
	lit   *ast.FuncLit // a literal …
	fn    *types.Func  // … or a named function / method used as a value
	pkg   *packages.Package
	file  *ast.File
	encl  *ast.FuncDecl // declaration the literal is written in (nil: package-level initialiser)
	label string
}

type c5Prog struct {
	pkgs    []*packages.Package
	fset    *token.FileSet
	byTypes map[*types.Package]*packages.Package
	declOf  map[*types.Func]*c5Decl
	fvals   []c5FuncVal
	litInfo map[*ast.FuncLit]*c5FuncVal // every literal (also applied / spawned ones): where it is written
	named   []*types.Named
	broken  map[*packages.Package]string // packages with type errors: nothing of them is indexed
	// what is assigned to a function-typed struct field anywhere in the module: `T{F: e}` and `x.F = e`
	fieldSrc map[*types.Var][]c5FieldSrc
}

type c5FieldSrc struct {
	pkg  *packages.Package
	expr ast.Expr
}

var (
	c5Once sync.Once
	c5P    *c5Prog
	c5Err  error
)

func c5Load() (*c5Prog, error) {
	c5Once.Do(func() { c5P, c5Err = c5DoLoad() })
	return c5P, c5Err
}

func c5IsQryn(p *types.Package) bool {
	return p != nil && strings.HasPrefix(p.Path(), c5ModPath)
}

// generated protobuf code inside the module: treated like a library (the census stops there)
func c5IsBoundary(p *types.Package) bool {
	return p != nil && strings.Contains(p.Path(), "/utils/proto/")
}

func c5DoLoad() (*c5Prog, error) {
	cfg := &packages.Config{
		Mode: packages.NeedName | packages.NeedFiles | packages.NeedSyntax | packages.NeedTypes | packages.NeedTypesInfo | packages.NeedImports,
		Dir:  repo,
		Env:  append(os.Environ(), "GOFLAGS=-mod=mod", "GOPROXY=off"),
	}
	pkgs, err := packages.Load(cfg, "./writer/...")
	if err != nil {
		return nil, fmt.Errorf("go/packages: %v", err)
	}
	if len(pkgs) == 0 {
		return nil, fmt.Errorf("go/packages: no package under writer/")
	}
	sort.Slice(pkgs, func(i, j int) bool { return pkgs[i].PkgPath < pkgs[j].PkgPath })
	pr := &c5Prog{pkgs: pkgs, fset: pkgs[0].Fset, byTypes: map[*types.Package]*packages.Package{}, declOf: map[*types.Func]*c5Decl{},
		litInfo: map[*ast.FuncLit]*c5FuncVal{}, broken: map[*packages.Package]string{}, fieldSrc: map[*types.Var][]c5FieldSrc{}}
	for _, p := range pkgs {
		if p.Types == nil || p.TypesInfo == nil {
			return nil, fmt.Errorf("go/packages: no type information for %s", p.PkgPath)
		}
		if len(p.Errors) > 0 {
			// a package that does not compile cannot be part of the binary: nothing of it is indexed (no declaration, no
			// function value, no implementing type); it is listed in the census as excluded
			pr.broken[p] = strings.Join(strings.Fields(p.Errors[0].Error()), " ")
			continue
		}
		pr.byTypes[p.Types] = p
		scope := p.Types.Scope()
		for _, n := range scope.Names() {
			if tn, ok := scope.Lookup(n).(*types.TypeName); ok && !tn.IsAlias() {
				if nt, ok := tn.Type().(*types.Named); ok {
					pr.named = append(pr.named, nt)
				}
			}
		}
		for _, f := range p.Syntax {
			if strings.HasSuffix(pr.fset.Position(f.Pos()).Filename, "_test.go") {
				continue
			}
			pr.indexFile(p, f)
		}
	}
	return pr, nil
}

func (pr *c5Prog) rel(pos token.Pos) string {
	fn := pr.fset.Position(pos).Filename
	if r, err := filepath.Rel(repo, fn); err == nil {
		return r
	}
	return fn
}

func c5DeclLabel(p *packages.Package, fd *ast.FuncDecl) string {
	return p.Name + "." + c5FuncName(fd)
}

// Recv.Name, also for receivers of generic types (`func (c *colPool[T]) Acquire`)
func c5FuncName(fd *ast.FuncDecl) string {
	if fd.Recv != nil && len(fd.Recv.List) == 1 {
		t := fd.Recv.List[0].Type
		for {
			switch x := t.(type) {
			case *ast.StarExpr:
				t = x.X
				continue
			case *ast.IndexExpr:
				t = x.X
				continue
			case *ast.IndexListExpr:
				t = x.X
				continue
			case *ast.ParenExpr:
				t = x.X
				continue
			}
			break
		}
		if id, ok := t.(*ast.Ident); ok {
			return id.Name + "." + fd.Name.Name
		}
	}
	return fd.Name.Name
}

// indexFile records declarations and function values of one file
func (pr *c5Prog) indexFile(p *packages.Package, f *ast.File) {
	info := p.TypesInfo
	for _, d := range f.Decls {
		var encl *ast.FuncDecl
		label := ""
		switch d := d.(type) {
		case *ast.FuncDecl:
			if d.Body == nil {
				continue
			}
			if fn, ok := info.Defs[d.Name].(*types.Func); ok {
				pr.declOf[fn] = &c5Decl{p, f, d}
			}
			encl = d
			label = c5DeclLabel(p, d)
		case *ast.GenDecl:
			label = p.Name + ".init"
		}
		nlit := 0
		// literals that are called / spawned / deferred where they are written are not values
		applied := map[*ast.FuncLit]bool{}
		inCallPos := map[ast.Expr]bool{}
		ast.Inspect(d, func(n ast.Node) bool {
			switch x := n.(type) {
			case *ast.ValueSpec:
				if encl == nil && len(x.Names) > 0 {
					label = p.Name + ".var " + x.Names[0].Name
				}
			case *ast.CallExpr:
				fun := ast.Unparen(x.Fun)
				inCallPos[fun] = true
				if ix, ok := fun.(*ast.IndexExpr); ok {
					inCallPos[ast.Unparen(ix.X)] = true
				}
				if fl, ok := fun.(*ast.FuncLit); ok {
					applied[fl] = true
				}
			}
			return true
		})
		isFuncField := func(v *types.Var) bool {
			if v == nil || !v.IsField() {
				return false
			}
			_, ok := v.Type().Underlying().(*types.Signature)
			return ok
		}
		ast.Inspect(d, func(n ast.Node) bool {
			switch x := n.(type) {
			case *ast.CompositeLit:
				for _, el := range x.Elts {
					if kv, ok := el.(*ast.KeyValueExpr); ok {
						if id, ok := kv.Key.(*ast.Ident); ok {
							if v, ok := info.Uses[id].(*types.Var); ok && isFuncField(v) {
								pr.fieldSrc[v.Origin()] = append(pr.fieldSrc[v.Origin()], c5FieldSrc{p, kv.Value})
							}
						}
					}
				}
			case *ast.AssignStmt:
				if len(x.Lhs) == len(x.Rhs) {
					for i, l := range x.Lhs {
						if sel, ok := ast.Unparen(l).(*ast.SelectorExpr); ok {
							if s := info.Selections[sel]; s != nil && s.Kind() == types.FieldVal {
								if v, ok := s.Obj().(*types.Var); ok && isFuncField(v) {
									pr.fieldSrc[v.Origin()] = append(pr.fieldSrc[v.Origin()], c5FieldSrc{p, x.Rhs[i]})
								}
							}
						}
					}
				}
			}
			return true
		})
		ast.Inspect(d, func(n ast.Node) bool {
			switch x := n.(type) {
			case *ast.ValueSpec:
				if encl == nil && len(x.Names) > 0 {
					label = p.Name + ".var " + x.Names[0].Name
					nlit = 0
				}
			case *ast.FuncLit:
				nlit++
				sig, _ := info.TypeOf(x).(*types.Signature)
				fv := &c5FuncVal{sig: sig, lit: x, pkg: p, file: f, encl: encl, label: fmt.Sprintf("%s$%d", label, nlit)}
				pr.litInfo[x] = fv
				if !applied[x] && sig != nil {
					pr.fvals = append(pr.fvals, *fv)
				}
			case *ast.Ident:
				if inCallPos[x] {
					return true
				}
				if fn, ok := info.Uses[x].(*types.Func); ok && c5IsQryn(fn.Pkg()) {
					if sig, ok := info.TypeOf(x).(*types.Signature); ok && sig.Recv() == nil {
						pr.fvals = append(pr.fvals, c5FuncVal{sig: sig, fn: fn, pkg: p, file: f, encl: encl})
					}
				}
			case *ast.SelectorExpr:
				if inCallPos[x] {
					return true
				}
				if sel := info.Selections[x]; sel != nil {
					if sel.Kind() == types.MethodVal {
						if fn, ok := sel.Obj().(*types.Func); ok && c5IsQryn(fn.Pkg()) {
							if sig, ok := info.TypeOf(x).(*types.Signature); ok {
								pr.fvals = append(pr.fvals, c5FuncVal{sig: sig, fn: fn, pkg: p, file: f, encl: encl})
							}
						}
					}
					return true
				}
				if fn, ok := info.Uses[x.Sel].(*types.Func); ok && c5IsQryn(fn.Pkg()) {
					if sig, ok := info.TypeOf(x).(*types.Signature); ok {
						pr.fvals = append(pr.fvals, c5FuncVal{sig: sig, fn: fn, pkg: p, file: f, encl: encl})
					}
				}
				return false // do not visit x.Sel as a bare identifier
			}
			return true
		})
	}
}

// sigKey: a signature without parameter names and without receiver
func c5SigIdentical(a, b *types.Signature) bool {
	if a == nil || b == nil {
		return false
	}
	strip := func(s *types.Signature) *types.Signature {
		return types.NewSignatureType(nil, nil, nil, s.Params(), s.Results(), s.Variadic())
	}
	return types.Identical(strip(a), strip(b))
}

// implementations of an interface method among the loaded named types; `recv` is the static type of the operand (for an
// instantiated generic interface its type arguments instantiate the generic candidates)
func (pr *c5Prog) implementors(iface *types.Interface, name string, from *types.Package, recv ...types.Type) []*types.Func {
	var out []*types.Func
	seen := map[*types.Func]bool{}
	var targs []types.Type
	if len(recv) == 1 {
		if rn, ok := recv[0].(*types.Named); ok && rn.TypeArgs().Len() > 0 {
			for i := 0; i < rn.TypeArgs().Len(); i++ {
				targs = append(targs, rn.TypeArgs().At(i))
			}
		}
	}
	for _, nt := range pr.named {
		if types.IsInterface(nt) {
			continue
		}
		var cand types.Type = nt
		if nt.TypeParams().Len() > 0 {
			if len(targs) != nt.TypeParams().Len() {
				continue
			}
			inst, err := types.Instantiate(nil, nt, targs, true)
			if err != nil {
				continue
			}
			cand = inst
		}
		for _, t := range []types.Type{cand, types.NewPointer(cand)} {
			if !types.Implements(t, iface) {
				continue
			}
			obj, _, _ := types.LookupFieldOrMethod(t, true, from, name)
			if fn, ok := obj.(*types.Func); ok && !seen[fn.Origin()] {
				seen[fn.Origin()] = true
				out = append(out, fn.Origin())
			}
			break
		}
	}
	sort.Slice(out, func(i, j int) bool { return out[i].FullName() < out[j].FullName() })
	return out
}

func c5TypeStr(t types.Type) string {
	return types.TypeString(t, func(p *types.Package) string { return p.Name() })
}
