package main

import (
	"fmt"
	"go/ast"
	"os"
	"path/filepath"
	"sort"
	"strings"
)

// Gen.PostChains (C01): who writes the HTTP status of an ingest request (writer/controller).
//
//   - `pusherDo`: PusherCtx.Do statement by statement — the PreRequest loop, DoParse, the PostRequest loop, each
//     returning the first error;
//   - `writeSites`: EVERY call of a method of an http.ResponseWriter parameter (and http.Error on one) in the package,
//     with the context it sits in: "writeErrorResponse", "post:<builder>" (the function appended to PostRequest by
//     withOkStatusAndBody / withOkStatusAndJSONBody, or the function literal handed to withPostRequest), or "other".
//     net/http keeps the FIRST status written: a write in a pre-request step or a parser would shadow ErrorHandler's;
//   - `handlers`: per handler constructor (every `Build(...)` of the package) its post-request steps in order as
//     (builder, status written).
//
// Fails closed on an option of Build that is neither a known pre-request/parser builder nor a post-request builder.

func init() { register("PostChains", genPostChains) }

var pcNotPost = map[string]bool{
	"cfg.ExtraMiddleware": true, "withTSAndSampleService": true, "withTracesService": true, "withSimpleParser": true,
	"withComplexParser": true, "withParserContext": true, "WithPreRequest": true, "withUnsnappyRequest": true,
	"WithOverallContextMiddleware": true,
}

// pcWriterParams: names of the parameters of type http.ResponseWriter of a function type
func pcWriterParams(ft *ast.FuncType) []string {
	var res []string
	if ft == nil || ft.Params == nil {
		return nil
	}
	for _, p := range ft.Params.List {
		if exprTextNoPos(p.Type) == "http.ResponseWriter" {
			for _, n := range p.Names {
				res = append(res, n.Name)
			}
		}
	}
	return res
}

type pcSite struct{ ctx, call, where string }

func genPostChains() (string, error) {
	dir := filepath.Join(repo, "writer/controller")
	ents, err := os.ReadDir(dir)
	if err != nil {
		return "", err
	}
	var files []*ast.File
	var names []string
	for _, e := range ents {
		if !strings.HasSuffix(e.Name(), ".go") || strings.HasSuffix(e.Name(), "_test.go") {
			continue
		}
		_, f, err := parseFile(filepath.Join("writer/controller", e.Name()))
		if err != nil {
			return "", err
		}
		files = append(files, f)
		names = append(names, e.Name())
	}
	var sites []pcSite
	type handler struct {
		name  string
		steps []string
	}
	var handlers []handler
	var failure error

	// walk: ctx = context label for writer calls; writers = names bound to a ResponseWriter in scope
	var walk func(n ast.Node, ctx string, writers map[string]bool, file string)
	walk = func(n ast.Node, ctx string, writers map[string]bool, file string) {
		ast.Inspect(n, func(x ast.Node) bool {
			switch v := x.(type) {
			case *ast.FuncLit:
				if v == n {
					return true
				}
				ws := map[string]bool{}
				for k := range writers {
					ws[k] = true
				}
				for _, p := range pcWriterParams(v.Type) {
					ws[p] = true
				}
				walk(v, ctx, ws, file)
				return false
			case *ast.CallExpr:
				fn := exprTextNoPos(v.Fun)
				// a post-request builder call: its function-literal argument is a post step
				if fn == "withPostRequest" && len(v.Args) == 1 {
					if fl, ok := v.Args[0].(*ast.FuncLit); ok {
						ws := map[string]bool{}
						for _, p := range pcWriterParams(fl.Type) {
							ws[p] = true
						}
						walk(fl, "post:withPostRequest", ws, file)
						return false
					}
				}
				if se, ok := v.Fun.(*ast.SelectorExpr); ok {
					if id, ok := se.X.(*ast.Ident); ok && writers[id.Name] {
						sites = append(sites, pcSite{ctx, exprTextNoPos(v), file})
					}
				}
				if fn == "http.Error" && len(v.Args) > 0 {
					if id, ok := v.Args[0].(*ast.Ident); ok && writers[id.Name] {
						sites = append(sites, pcSite{ctx, exprTextNoPos(v), file})
					}
				}
			}
			return true
		})
	}

	statusOf := func(fl *ast.FuncLit) (int64, error) {
		var st []int64
		ast.Inspect(fl, func(x ast.Node) bool {
			if c, ok := x.(*ast.CallExpr); ok && strings.HasSuffix(exprTextNoPos(c.Fun), ".WriteHeader") && len(c.Args) == 1 {
				if v, ok := ehCode(c.Args[0]); ok {
					st = append(st, v)
				} else {
					st = append(st, -1)
				}
			}
			return true
		})
		if len(st) != 1 || st[0] < 0 {
			return 0, fmt.Errorf("a withPostRequest function does not call WriteHeader exactly once with a constant: %v", st)
		}
		return st[0], nil
	}

	for fi, f := range files {
		for _, d := range f.Decls {
			switch fd := d.(type) {
			case *ast.FuncDecl:
				if fd.Body == nil {
					continue
				}
				ctx := "other"
				switch fd.Name.Name {
				case "writeErrorResponse":
					ctx = "writeErrorResponse"
				case "withOkStatusAndBody", "withOkStatusAndJSONBody":
					ctx = "post:" + fd.Name.Name
				}
				ws := map[string]bool{}
				for _, p := range pcWriterParams(fd.Type) {
					ws[p] = true
				}
				walk(fd.Body, ctx, ws, names[fi])
			case *ast.GenDecl:
				for _, sp := range fd.Specs {
					if vs, ok := sp.(*ast.ValueSpec); ok {
						for _, v := range vs.Values {
							walk(v, "other", map[string]bool{}, names[fi])
						}
					}
				}
			}
		}
		// handler constructors: every Build(...) call
		ast.Inspect(f, func(x ast.Node) bool {
			var name string
			var body ast.Node
			switch v := x.(type) {
			case *ast.FuncDecl:
				if v.Body == nil || v.Name.Name == "Build" {
					return false
				}
				name, body = v.Name.Name, v.Body
			case *ast.ValueSpec:
				if len(v.Names) == 1 && len(v.Values) == 1 {
					name, body = v.Names[0].Name, v.Values[0]
				}
			}
			if body == nil {
				return true
			}
			ast.Inspect(body, func(y ast.Node) bool {
				call, ok := y.(*ast.CallExpr)
				if !ok || exprTextNoPos(call.Fun) != "Build" {
					return true
				}
				opts := call.Args
				if len(opts) == 1 && call.Ellipsis.IsValid() {
					if ap, ok := opts[0].(*ast.CallExpr); ok && exprTextNoPos(ap.Fun) == "append" {
						opts = ap.Args
					}
				}
				h := handler{name: name}
				for _, o := range opts {
					on := exprTextNoPos(o)
					var oc *ast.CallExpr
					if c, ok := o.(*ast.CallExpr); ok {
						oc = c
						on = exprTextNoPos(c.Fun)
					}
					switch {
					case pcNotPost[on]:
					case (on == "withOkStatusAndBody" || on == "withOkStatusAndJSONBody") && oc != nil && len(oc.Args) == 2:
						c, ok := ehCode(oc.Args[0])
						if !ok {
							failure = fmt.Errorf("%s: status of %s is not a constant", name, on)
							return false
						}
						h.steps = append(h.steps, fmt.Sprintf("(%s, %d)", leanStr(on), c))
					case on == "withPostRequest" && oc != nil && len(oc.Args) == 1:
						fl, ok := oc.Args[0].(*ast.FuncLit)
						if !ok {
							failure = fmt.Errorf("%s: withPostRequest without a function literal", name)
							return false
						}
						c, err := statusOf(fl)
						if err != nil {
							failure = fmt.Errorf("%s: %v", name, err)
							return false
						}
						h.steps = append(h.steps, fmt.Sprintf("(%s, %d)", leanStr(on), c))
					default:
						failure = fmt.Errorf("%s: unknown option of Build: %s", name, on)
						return false
					}
				}
				handlers = append(handlers, h)
				return false
			})
			return false
		})
	}
	if failure != nil {
		return "", failure
	}
	if len(handlers) == 0 {
		return "", fmt.Errorf("no Build(...) call found in writer/controller")
	}

	// PusherCtx.Do
	var do *ast.FuncDecl
	for _, f := range files {
		if fd := findFunc(f, "PusherCtx", "Do"); fd != nil {
			do = fd
		}
	}
	if do == nil {
		return "", fmt.Errorf("PusherCtx.Do not found")
	}
	var doProg []string
	for _, st := range do.Body.List {
		switch txt := exprTextNoPosStmt(st); {
		case txt == "var err error":
		case txt == "for _, p := range pusherCtx.PreRequest { err = p(w, r) if err != nil { return err } }":
			doProg = append(doProg, "preRequestsUntilError")
		case txt == "err = pusherCtx.DoParse(r, w)":
			doProg = append(doProg, "doParse")
		case txt == "if err != nil { return err }":
			doProg = append(doProg, "returnOnError")
		case txt == "for _, p := range pusherCtx.PostRequest { err = p(w, r) if err != nil { return err } }":
			doProg = append(doProg, "postRequestsUntilError")
		case txt == "return nil":
			doProg = append(doProg, "returnNil")
		default:
			return "", fmt.Errorf("PusherCtx.Do: unrecognised statement `%s`", txt)
		}
	}
	// the post-request builders do what their name says
	for _, want := range []struct{ fn, body string }{
		{"withOkStatusAndBody", "w.WriteHeader(status) w.Write(body) return nil"},
		{"withOkStatusAndJSONBody", "respBody, err := json.Marshal(body) if err != nil { return err } w.WriteHeader(status) w.Write(respBody) return nil"},
	} {
		var fd *ast.FuncDecl
		for _, f := range files {
			if x := findFunc(f, "", want.fn); x != nil {
				fd = x
			}
		}
		if fd == nil {
			return "", fmt.Errorf("%s not found", want.fn)
		}
		txt := exprTextNoPosStmt(fd.Body)
		if !strings.Contains(txt, "ctx.PostRequest = append(ctx.PostRequest, func(w http.ResponseWriter, r *http.Request) error {") ||
			!strings.Contains(strings.ReplaceAll(txt, "// Marshal the JSON body ", ""), want.body) {
			return "", fmt.Errorf("%s does not append `%s` to PostRequest: %s", want.fn, want.body, txt)
		}
	}

	sort.Slice(handlers, func(i, j int) bool { return handlers[i].name < handlers[j].name })
	var b strings.Builder
	b.WriteString("namespace Qryn.Gen.PostChains\n")
	b.WriteString("/-- PusherCtx.Do, statement by statement -/\ndef pusherDo : List String := " + leanStrList(doProg) + "\n\n")
	b.WriteString("/-- every call on an http.ResponseWriter in writer/controller: (context, call, file) -/\ndef writeSites : List (String × String × String) := [\n")
	for i, s := range sites {
		sep := ","
		if i == len(sites)-1 {
			sep = ""
		}
		fmt.Fprintf(&b, "  (%s, %s, %s)%s\n", leanStr(s.ctx), leanStr(s.call), leanStr(s.where), sep)
	}
	b.WriteString("]\n\n/-- handler constructors: the post-request steps of every `Build(...)`, in order, as (builder, status written) -/\n")
	b.WriteString("def handlers : List (String × List (String × Nat)) := [\n")
	for i, h := range handlers {
		sep := ","
		if i == len(handlers)-1 {
			sep = ""
		}
		fmt.Fprintf(&b, "  (%s, [%s])%s\n", leanStr(h.name), strings.Join(h.steps, ", "), sep)
	}
	b.WriteString("]\nend Qryn.Gen.PostChains\n")
	return b.String(), nil
}
