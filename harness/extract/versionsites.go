package main

import (
	"fmt"
	"go/ast"
	"go/parser"
	"go/printer"
	"go/token"
	"os"
	"path/filepath"
	"sort"
	"strings"
)

// Gen.VersionSites (C13): every place under reader/ where the database VERSION STATE decides something —
// each call of `IsVersionSupported` with the function it is in, the feature name and the two window arguments, and every
// other read of a `VersionInfo` field (`x.VersionInfo` outside type references). Code in comments is not code.
// Props/C13 `version_gates_inventory` pins the list to the gates the planner models have; a new gate changes the list.
func init() {
	register("VersionSites", func() (string, error) {
		root := filepath.Join(repo, "reader")
		type gate struct{ file, fn, feature, a1, a2 string }
		var gates []gate
		var reads [][2]string
		err := filepath.Walk(root, func(p string, info os.FileInfo, err error) error {
			if err != nil || info.IsDir() || !strings.HasSuffix(p, ".go") || strings.HasSuffix(p, "_test.go") {
				return err
			}
			fset := token.NewFileSet()
			f, perr := parser.ParseFile(fset, p, nil, 0)
			if perr != nil {
				return nil
			}
			rel, _ := filepath.Rel(repo, p)
			for _, d := range f.Decls {
				fd, ok := d.(*ast.FuncDecl)
				if !ok || fd.Body == nil {
					continue
				}
				callRecv := map[ast.Expr]bool{}
				ast.Inspect(fd.Body, func(n ast.Node) bool {
					ce, ok := n.(*ast.CallExpr)
					if !ok {
						return true
					}
					se, ok := ce.Fun.(*ast.SelectorExpr)
					if !ok || se.Sel.Name != "IsVersionSupported" {
						return true
					}
					callRecv[se.X] = true
					g := gate{file: rel, fn: fd.Name.Name, feature: "?", a1: "?", a2: "?"}
					if len(ce.Args) == 3 {
						if s, ok := strLit(ce.Args[0]); ok {
							g.feature = s
						}
						g.a1, g.a2 = dsExprText(ce.Args[1]), dsExprText(ce.Args[2])
					}
					gates = append(gates, g)
					return true
				})
				ast.Inspect(fd.Body, func(n ast.Node) bool {
					se, ok := n.(*ast.SelectorExpr)
					if !ok || se.Sel.Name != "VersionInfo" || callRecv[se] {
						return true
					}
					if id, ok := se.X.(*ast.Ident); ok && id.Name == "dbVersion" {
						return true // the type dbVersion.VersionInfo
					}
					reads = append(reads, [2]string{rel, fd.Name.Name})
					return true
				})
			}
			return nil
		})
		if err != nil {
			return "", err
		}
		// the decision itself: the single return expression of VersionInfo.IsVersionSupported
		fset, vf, err := parseFile("reader/utils/dbVersion/version.go")
		if err != nil {
			return "", err
		}
		fd := findFunc(vf, "VersionInfo", "IsVersionSupported")
		if fd == nil || fd.Body == nil {
			return "", fmt.Errorf("VersionInfo.IsVersionSupported not found")
		}
		var rets []string
		ast.Inspect(fd.Body, func(n ast.Node) bool {
			if rs, ok := n.(*ast.ReturnStmt); ok && len(rs.Results) == 1 {
				var sb strings.Builder
				printer.Fprint(&sb, fset, rs.Results[0])
				rets = append(rets, sb.String())
			}
			return true
		})
		if len(rets) != 1 {
			return "", fmt.Errorf("IsVersionSupported: expected one return, found %d", len(rets))
		}
		sort.SliceStable(gates, func(i, j int) bool { return gates[i].file < gates[j].file })
		sort.Slice(reads, func(i, j int) bool { return reads[i][0]+reads[i][1] < reads[j][0]+reads[j][1] })
		s := "namespace Qryn.Gen\n/-- (file, function, feature, window-start argument, window-end argument) of every call of `IsVersionSupported` under reader/, in source order per file -/\ndef versionGates : List (String × String × String × String × String) :=\n  ["
		for i, g := range gates {
			if i > 0 {
				s += ",\n   "
			}
			s += fmt.Sprintf("(%s, %s, %s, %s, %s)", leanStr(g.file), leanStr(g.fn), leanStr(g.feature), leanStr(g.a1), leanStr(g.a2))
		}
		s += "]\n/-- (file, function) of every other read of a `VersionInfo` field -/\ndef versionInfoReads : List (String × String) := ["
		for i, x := range reads {
			if i > 0 {
				s += ", "
			}
			s += fmt.Sprintf("(%s, %s)", leanStr(x[0]), leanStr(x[1]))
		}
		s += "]\n/-- the expression `VersionInfo.IsVersionSupported(ver, fromNS, toNS)` returns (`time, ok := v[ver]`) -/\ndef versionDecision : String := " + leanStr(rets[0]) + "\nend Qryn.Gen\n"
		return s, nil
	})
}
