package main

import (
	"bytes"
	"fmt"
	"go/ast"
	"go/parser"
	"go/printer"
	"go/token"
	"os"
	"os/exec"
	"path/filepath"
	"regexp"
	"sort"
	"strings"
)

// Gen.C15Enc: facts about the response encoders the C15 model relies on.
//  * jsoniterSafe: the `safeSet` table of the json-iterator version pinned in /repo's go.mod (bytes < 0x80 that
//    Stream.WriteString copies unescaped);
//  * per encoder (exportStreamsValue, QueryRange, QueryInstant, Tail, writeMap): the jsoniter Stream methods it calls,
//    as constructors of Qryn.Gen.StreamCall — a method the model does not know fails the extraction;
//  * the condition under which each series encoder opens a new series object.
var c15StreamCalls = map[string]string{
	"WriteObjectStart": "objStart", "WriteObjectEnd": "objEnd", "WriteObjectField": "field", "WriteString": "str",
	"WriteMore": "more", "WriteArrayStart": "arrStart", "WriteArrayEnd": "arrEnd", "WriteRaw": "raw", "WriteInt64": "int64",
	"Buffer": "buffer", "Reset": "reset",
}

func c15ModDir(mod string) (string, error) {
	gomod, err := os.ReadFile(filepath.Join(repo, "go.mod"))
	if err != nil {
		return "", err
	}
	m := regexp.MustCompile(`(?m)^\s*` + regexp.QuoteMeta(mod) + `\s+(v\S+)`).FindSubmatch(gomod)
	if m == nil {
		return "", fmt.Errorf("%s not required by go.mod", mod)
	}
	cache := os.Getenv("GOMODCACHE")
	if cache == "" {
		out, err := exec.Command("go", "env", "GOMODCACHE").Output()
		if err != nil {
			return "", fmt.Errorf("go env GOMODCACHE: %v", err)
		}
		cache = strings.TrimSpace(string(out))
	}
	dir := filepath.Join(cache, mod+"@"+string(m[1]))
	if _, err := os.Stat(dir); err != nil {
		return "", err
	}
	return dir, nil
}

func c15SafeSet() ([]bool, error) {
	dir, err := c15ModDir("github.com/json-iterator/go")
	if err != nil {
		return nil, err
	}
	fset := token.NewFileSet()
	f, err := parser.ParseFile(fset, filepath.Join(dir, "stream_str.go"), nil, 0)
	if err != nil {
		return nil, err
	}
	var tbl []bool
	ast.Inspect(f, func(n ast.Node) bool {
		vs, ok := n.(*ast.ValueSpec)
		if !ok || len(vs.Names) != 1 || vs.Names[0].Name != "safeSet" || len(vs.Values) != 1 {
			return true
		}
		cl, ok := vs.Values[0].(*ast.CompositeLit)
		if !ok {
			return true
		}
		t := make([]bool, 128)
		for _, el := range cl.Elts {
			kv, ok := el.(*ast.KeyValueExpr)
			if !ok {
				return true
			}
			k, ok1 := kv.Key.(*ast.BasicLit)
			v, ok2 := kv.Value.(*ast.Ident)
			if !ok1 || !ok2 || k.Kind != token.CHAR {
				return true
			}
			r, _, _, err := strconvUnquoteChar(k.Value)
			if err != nil || r >= 128 {
				return true
			}
			t[r] = v.Name == "true"
		}
		tbl = t
		return false
	})
	if tbl == nil {
		return nil, fmt.Errorf("safeSet table not found in %s/stream_str.go", dir)
	}
	// WriteString must use safeSet (and not the HTML table) in its slow path
	src, _ := os.ReadFile(filepath.Join(dir, "stream_str.go"))
	i := bytes.Index(src, []byte("func writeStringSlowPath(stream"))
	if i < 0 || !bytes.Contains(src[i:], []byte("if safeSet[b] {")) {
		return nil, fmt.Errorf("writeStringSlowPath does not consult safeSet as expected")
	}
	return tbl, nil
}

func strconvUnquoteChar(lit string) (rune, bool, string, error) {
	s, err := strconvUnquote(lit)
	if err != nil || len([]rune(s)) != 1 {
		return 0, false, "", fmt.Errorf("bad char literal %s", lit)
	}
	return []rune(s)[0], false, "", nil
}

func strconvUnquote(lit string) (string, error) {
	// char literal → string literal
	if len(lit) >= 2 && lit[0] == '\'' {
		body := lit[1 : len(lit)-1]
		if body == `"` {
			body = `\"`
		}
		if body == `\'` {
			body = `'`
		}
		lit = `"` + body + `"`
	}
	s, ok := strLit(&ast.BasicLit{Kind: token.STRING, Value: lit})
	if !ok {
		return "", fmt.Errorf("unquote %s", lit)
	}
	return s, nil
}

// stream methods called on an identifier named `stream` inside a node
func c15Calls(n ast.Node) ([]string, error) {
	set := map[string]bool{}
	var bad error
	ast.Inspect(n, func(x ast.Node) bool {
		ce, ok := x.(*ast.CallExpr)
		if !ok {
			return true
		}
		se, ok := ce.Fun.(*ast.SelectorExpr)
		if !ok {
			return true
		}
		id, ok := se.X.(*ast.Ident)
		if !ok || id.Name != "stream" {
			return true
		}
		c, known := c15StreamCalls[se.Sel.Name]
		if !known {
			bad = fmt.Errorf("encoder calls stream.%s, which the model does not cover", se.Sel.Name)
			return true
		}
		set[c] = true
		return true
	})
	if bad != nil {
		return nil, bad
	}
	var out []string
	for c := range set {
		out = append(out, c)
	}
	sort.Strings(out)
	return out, nil
}

// the condition of the `if` statement whose body contains `lastFp = e.Fingerprint`
func c15OpenCond(n ast.Node) (string, error) {
	var conds []string
	ast.Inspect(n, func(x ast.Node) bool {
		is, ok := x.(*ast.IfStmt)
		if !ok {
			return true
		}
		for _, st := range is.Body.List {
			as, ok := st.(*ast.AssignStmt)
			if !ok || len(as.Lhs) != 1 {
				continue
			}
			if id, ok := as.Lhs[0].(*ast.Ident); ok && id.Name == "lastFp" {
				var b bytes.Buffer
				printer.Fprint(&b, token.NewFileSet(), is.Cond)
				conds = append(conds, b.String())
			}
		}
		return true
	})
	if len(conds) != 1 {
		return "", fmt.Errorf("expected one `if … { … lastFp = e.Fingerprint … }`, found %d", len(conds))
	}
	return conds[0], nil
}

func init() {
	register("C15Enc", func() (string, error) {
		tbl, err := c15SafeSet()
		if err != nil {
			return "", err
		}
		_, f, err := parseFile("reader/service/queryRangeService.go")
		if err != nil {
			return "", err
		}
		var sb strings.Builder
		sb.WriteString("namespace Qryn.Gen\n")
		sb.WriteString("/-- jsoniter Stream methods the C15 model covers -/\ninductive StreamCall where\n  | objStart | objEnd | field | str | more | arrStart | arrEnd | raw | int64 | buffer | reset\n  deriving DecidableEq, Repr\n\n")
		sb.WriteString("/-- jsoniter `safeSet` (bytes < 0x80 copied unescaped by `WriteString`) -/\ndef jsoniterSafeSet : List Bool :=\n  [")
		for i, b := range tbl {
			if i > 0 {
				sb.WriteString(", ")
			}
			fmt.Fprintf(&sb, "%v", b)
		}
		sb.WriteString("]\n\n")
		const want = "i == 0 || lastFp != e.Fingerprint"
		for _, fn := range []struct{ lean, recv, name string }{
			{"streams", "QueryRangeService", "exportStreamsValue"}, {"matrix", "QueryRangeService", "QueryRange"},
			{"vector", "QueryRangeService", "QueryInstant"}, {"tail", "QueryRangeService", "Tail"}, {"writeMap", "", "writeMap"}} {
			fd := findFunc(f, fn.recv, fn.name)
			if fd == nil {
				return "", fmt.Errorf("function %s not found", fn.name)
			}
			calls, err := c15Calls(fd.Body)
			if err != nil {
				return "", fmt.Errorf("%s: %v", fn.name, err)
			}
			for i := range calls {
				calls[i] = "." + calls[i]
			}
			fmt.Fprintf(&sb, "/-- Stream methods called by `%s` -/\ndef %sCalls : List StreamCall := [%s]\n", fn.name, fn.lean, strings.Join(calls, ", "))
			if fn.lean == "streams" || fn.lean == "matrix" || fn.lean == "tail" {
				cond, err := c15OpenCond(fd.Body)
				if err != nil {
					return "", fmt.Errorf("%s: %v", fn.name, err)
				}
				fmt.Fprintf(&sb, "/-- `%s` opens a series object under the condition `%s`; true iff that is `%s` -/\ndef %sOpensOnFirst : Bool := %v\n",
					fn.name, cond, want, fn.lean, cond == want)
			}
		}
		// ResponseOptimizerPlanner: the condition under which OnAfterEntriesSlice returns without sending
		_, fo, err := parseFile("reader/logql/logql_transpiler_v2/internal_planner/planner_fingerprint_optimizer.go")
		if err != nil {
			return "", err
		}
		fdo := findFunc(fo, "ResponseOptimizerPlanner", "Process")
		if fdo == nil {
			return "", fmt.Errorf("ResponseOptimizerPlanner.Process not found")
		}
		var holds []string
		ast.Inspect(fdo.Body, func(x ast.Node) bool {
			kv, ok := x.(*ast.KeyValueExpr)
			if !ok {
				return true
			}
			if k, ok := kv.Key.(*ast.Ident); !ok || k.Name != "OnAfterEntriesSlice" {
				return true
			}
			fl, ok := kv.Value.(*ast.FuncLit)
			if !ok || len(fl.Body.List) == 0 {
				return true
			}
			if is, ok := fl.Body.List[0].(*ast.IfStmt); ok && len(is.Body.List) == 1 {
				if _, ok := is.Body.List[0].(*ast.ReturnStmt); ok {
					var b bytes.Buffer
					printer.Fprint(&b, token.NewFileSet(), is.Cond)
					holds = append(holds, b.String())
				}
			}
			return true
		})
		if len(holds) != 1 {
			return "", fmt.Errorf("ResponseOptimizerPlanner.Process: expected OnAfterEntriesSlice to start with `if <cond> { return nil }`, found %d", len(holds))
		}
		fmt.Fprintf(&sb, "/-- `ResponseOptimizerPlanner` keeps collecting (sends nothing after an input batch) under this condition -/\ndef optimizerHoldCond : String := %s\n", leanStr(holds[0]))
		sb.WriteString("end Qryn.Gen\n")
		return sb.String(), nil
	})
}
