package main

import (
	"fmt"
	"go/ast"
	"go/token"
	"strings"
)

// Gen.LogQLOps: the function-name → SQL maps of the switches in planner_lra.go, planner_unwrap_function.go,
// planner_agg_op.go, planner_metrics15s_shortcut.go (case label ↦ the SQL text or format written in that case)
// and planner_comparison.go composed with sql_select/condition.go (LogQL operator ↦ SQL operator).

// lqSwitchOn finds, in the method recv.name of file rel, the switch statement whose tag is `<x>.<field>`.
func lqSwitchOn(rel, recv, name, field string) (*ast.SwitchStmt, error) {
	_, f, err := parseFile(rel)
	if err != nil {
		return nil, err
	}
	fd := findFunc(f, recv, name)
	if fd == nil {
		return nil, fmt.Errorf("%s: method %s.%s not found", rel, recv, name)
	}
	var res *ast.SwitchStmt
	n := 0
	ast.Inspect(fd.Body, func(nd ast.Node) bool {
		sw, ok := nd.(*ast.SwitchStmt)
		if !ok {
			return true
		}
		if sel, ok := sw.Tag.(*ast.SelectorExpr); ok && sel.Sel.Name == field {
			res = sw
			n++
		}
		return true
	})
	if n != 1 {
		return nil, fmt.Errorf("%s: %d switch statements on .%s in %s.%s (expected 1)", rel, n, field, recv, name)
	}
	return res, nil
}

// caseTexts: for every `case "lit":` the single string literal written in its body
func caseTexts(sw *ast.SwitchStmt) ([][2]string, error) {
	var res [][2]string
	for _, st := range sw.Body.List {
		cc, ok := st.(*ast.CaseClause)
		if !ok {
			return nil, fmt.Errorf("unexpected statement in switch")
		}
		if cc.List == nil {
			return nil, fmt.Errorf("default clause: the model has none")
		}
		if len(cc.List) != 1 {
			return nil, fmt.Errorf("case with %d labels", len(cc.List))
		}
		label, ok := strLit(cc.List[0])
		if !ok {
			return nil, fmt.Errorf("case label is not a string literal")
		}
		var lits []string
		for _, b := range cc.Body {
			ast.Inspect(b, func(nd ast.Node) bool {
				if bl, ok := nd.(*ast.BasicLit); ok && bl.Kind == token.STRING {
					if s, ok := strLit(bl); ok {
						lits = append(lits, s)
					}
				}
				return true
			})
		}
		if len(lits) != 1 {
			return nil, fmt.Errorf("case %q writes %d string literals (expected exactly one SQL text)", label, len(lits))
		}
		res = append(res, [2]string{label, lits[0]})
	}
	return res, nil
}

func lqLeanPairs(name, doc string, ps [][2]string) string {
	var b strings.Builder
	fmt.Fprintf(&b, "/-- %s -/\ndef %s : List (String × String) :=\n  [", doc, name)
	for i, p := range ps {
		if i > 0 {
			b.WriteString(",\n   ")
		}
		fmt.Fprintf(&b, "(%s, %s)", leanStr(p[0]), leanStr(p[1]))
	}
	b.WriteString("]\n")
	return b.String()
}

func init() {
	register("LogQLOps", func() (string, error) {
		dir := "reader/logql/logql_transpiler_v2/clickhouse_planner/"
		out := "namespace Qryn.Gen.LogQLOps\n"
		for _, t := range []struct{ file, recv, field, name, doc string }{
			{"planner_lra.go", "LRAPlanner", "Func", "lraOps", "`switch l.Func` of LRAPlanner.Process: range function ↦ SQL text (`%f` = range seconds)"},
			{"planner_unwrap_function.go", "UnwrapFunctionPlanner", "Func", "unwrapOps", "`switch u.Func` of UnwrapFunctionPlanner.Process"},
			{"planner_agg_op.go", "AggOpPlanner", "Func", "aggOps", "`switch b.Func` of AggOpPlanner.Process"},
			{"planner_metrics15s_shortcut.go", "Metrics15ShortcutPlanner", "Function", "shortcutOps", "`switch m.Function` of Metrics15ShortcutPlanner.Process"},
		} {
			sw, err := lqSwitchOn(dir+t.file, t.recv, "Process", t.field)
			if err != nil {
				return "", err
			}
			ps, err := caseTexts(sw)
			if err != nil {
				return "", fmt.Errorf("%s: %w", t.file, err)
			}
			out += lqLeanPairs(t.name, t.doc, ps)
		}
		// comparison: case ">" → fn = sql.Gt, and sql_select.Gt → BinaryLogicalOp(">", …)
		sw, err := lqSwitchOn(dir+"planner_comparison.go", "ComparisonPlanner", "Process", "Fn")
		if err != nil {
			return "", err
		}
		_, cf, err := parseFile("reader/utils/sql_select/condition.go")
		if err != nil {
			return "", err
		}
		var cmp [][2]string
		for _, st := range sw.Body.List {
			cc, ok := st.(*ast.CaseClause)
			if !ok || len(cc.List) != 1 || len(cc.Body) != 1 {
				return "", fmt.Errorf("planner_comparison.go: unexpected case shape")
			}
			label, ok := strLit(cc.List[0])
			if !ok {
				return "", fmt.Errorf("planner_comparison.go: case label")
			}
			as, ok := cc.Body[0].(*ast.AssignStmt)
			if !ok || len(as.Rhs) != 1 {
				return "", fmt.Errorf("planner_comparison.go: case %q is not one assignment", label)
			}
			sel, ok := as.Rhs[0].(*ast.SelectorExpr)
			if !ok {
				return "", fmt.Errorf("planner_comparison.go: case %q does not assign sql.<Fn>", label)
			}
			fd := findFunc(cf, "", sel.Sel.Name)
			if fd == nil || len(fd.Body.List) != 1 {
				return "", fmt.Errorf("condition.go: %s not found or not a single return", sel.Sel.Name)
			}
			ret, ok := fd.Body.List[0].(*ast.ReturnStmt)
			if !ok || len(ret.Results) != 1 {
				return "", fmt.Errorf("condition.go: %s shape", sel.Sel.Name)
			}
			call, ok := ret.Results[0].(*ast.CallExpr)
			if !ok || len(call.Args) != 3 {
				return "", fmt.Errorf("condition.go: %s is not BinaryLogicalOp(op, l, r)", sel.Sel.Name)
			}
			if id, ok := call.Fun.(*ast.Ident); !ok || id.Name != "BinaryLogicalOp" {
				return "", fmt.Errorf("condition.go: %s is not BinaryLogicalOp(op, l, r)", sel.Sel.Name)
			}
			op, ok := strLit(call.Args[0])
			if !ok {
				return "", fmt.Errorf("condition.go: %s operator", sel.Sel.Name)
			}
			cmp = append(cmp, [2]string{label, op})
		}
		out += lqLeanPairs("cmpOps", "`switch c.Fn` of ComparisonPlanner.Process composed with sql_select's constructors: LogQL operator ↦ SQL operator", cmp)
		out += "end Qryn.Gen.LogQLOps\n"
		return out, nil
	})
}
