package main

// Gen.BuilderCalls (C05): where the request objects of the ingest side get their rows.
//
//   calls        every call through a field of type onEntriesHandler / onSpanHandler / onProfileHandler in
//                writer/utils/unmarshal: (function, handler type, source text of every argument)
//   argWrites    for every slice-typed argument of such a call that is a variable or a field: every statement of the
//                package that assigns to that variable / field (function, left-hand side, right-hand side, the conditions
//                that dominate the statement — as in the census), in source order — the appends, re-slices and makes
//                that decide its length
//   builderWrites  every assignment to a field of the open request objects of parserDoer (p.spans.…, p.attrs.…,
//                p.profile.…, p.tsSpl.spl.…, p.tsSpl.ts.…) in builder.go: (function, left-hand side, right-hand side,
//                dominating conditions)
//
// The three lists are pinned by `C05.builder_calls_pinned`: an edit that changes what a decoder passes to a builder
// callback, how it grows an argument array, or which columns a builder callback appends to, has to be re-read against
// the rectangularity argument (`parser_rect_*`). go/types (c05typed.go): arguments and left-hand sides are matched by
// object identity, not by name.

import (
	"fmt"
	"go/ast"
	"go/token"
	"go/types"
	"sort"
	"strings"
)

func init() {
	register("BuilderCalls", func() (string, error) {
		pr, err := c5Load()
		if err != nil {
			return "", err
		}
		cx := &c5Ctx{pr: pr}
		up := cx.pkgBySuffix("/writer/utils/unmarshal")
		if up == nil {
			return "", fmt.Errorf("writer/utils/unmarshal not loaded")
		}
		info := up.TypesInfo
		handlerTypes := map[string]bool{"onEntriesHandler": true, "onSpanHandler": true, "onProfileHandler": true}
		type site struct {
			pos  token.Pos
			text string
		}
		var calls, argW, bW []site
		tracked := map[types.Object]bool{}
		objOfExpr := func(e ast.Expr) types.Object {
			switch x := ast.Unparen(e).(type) {
			case *ast.Ident:
				if o := info.Uses[x]; o != nil {
					return o
				}
				return info.Defs[x]
			case *ast.SelectorExpr:
				if s := info.Selections[x]; s != nil && s.Kind() == types.FieldVal {
					return s.Obj()
				}
			}
			return nil
		}
		type fnBody struct {
			label string
			body  *ast.BlockStmt
		}
		var bodies []fnBody
		for _, f := range up.Syntax {
			if strings.HasSuffix(pr.rel(f.Pos()), "_test.go") {
				continue
			}
			for _, d := range f.Decls {
				if fd, ok := d.(*ast.FuncDecl); ok && fd.Body != nil {
					bodies = append(bodies, fnBody{c5DeclLabel(up, fd), fd.Body})
				}
			}
		}
		// pass 1: the call sites and the objects of their slice arguments
		for _, fb := range bodies {
			ast.Inspect(fb.body, func(n ast.Node) bool {
				call, ok := n.(*ast.CallExpr)
				if !ok {
					return true
				}
				sel, ok := call.Fun.(*ast.SelectorExpr)
				if !ok {
					return true
				}
				s := info.Selections[sel]
				if s == nil || s.Kind() != types.FieldVal {
					return true
				}
				nt, ok := s.Obj().Type().(*types.Named)
				if !ok || !handlerTypes[nt.Obj().Name()] {
					return true
				}
				args := make([]string, len(call.Args))
				for i, a := range call.Args {
					args[i] = leanStr(c5Text(a))
					if _, isSlice := info.TypeOf(a).Underlying().(*types.Slice); isSlice {
						if o := objOfExpr(a); o != nil {
							tracked[o] = true
						}
						// a re-slice `x[:n]` of a variable: its length depends on the variable as well
						if se, ok := ast.Unparen(a).(*ast.SliceExpr); ok {
							if o := objOfExpr(se.X); o != nil {
								tracked[o] = true
							}
						}
					}
				}
				calls = append(calls, site{call.Pos(), fmt.Sprintf("(%s, %s, [%s])", leanStr(fb.label), leanStr(nt.Obj().Name()), strings.Join(args, ", "))})
				return true
			})
		}
		if len(calls) == 0 {
			return "", fmt.Errorf("no call through an onEntriesHandler / onSpanHandler / onProfileHandler field found")
		}
		// pass 2: every assignment to a tracked object; every assignment to a field of the builder's open requests
		isBuilderField := func(lhs string) bool {
			for _, p := range []string{"p.spans.", "p.attrs.", "p.profile.", "p.tsSpl.spl.", "p.tsSpl.ts."} {
				if strings.HasPrefix(lhs, p) {
					return true
				}
			}
			return false
		}
		// walked with the census walker so that every write carries the conditions that dominate it (callbacks handed to
		// library functions — d.Obj(func…), d.Arr(func…) — are walked in place; nested literal values on their own)
		guardsOf := func(gs []string) string {
			return c5LeanList(gs)
		}
		record := func(label string) func(sc *c5Scope, st ast.Stmt, guards []string) {
			return func(sc *c5Scope, st ast.Stmt, guards []string) {
				switch x := st.(type) {
				case *ast.AssignStmt:
					for i, l := range x.Lhs {
						rhs := ""
						if len(x.Lhs) == len(x.Rhs) {
							rhs = c5Text(x.Rhs[i])
						} else if len(x.Rhs) == 1 {
							rhs = c5Text(x.Rhs[0])
						}
						if x.Tok != token.ASSIGN && x.Tok != token.DEFINE {
							rhs = x.Tok.String() + " " + rhs
						}
						lt := c5Text(l)
						if o := objOfExpr(l); o != nil && tracked[o] {
							argW = append(argW, site{x.Pos(), fmt.Sprintf("(%s, %s, %s, %s)", leanStr(label), leanStr(lt), leanStr(rhs), guardsOf(guards))})
						}
						if strings.HasPrefix(label, "unmarshal.parserDoer.") && isBuilderField(lt) {
							bW = append(bW, site{x.Pos(), fmt.Sprintf("(%s, %s, %s, %s)", leanStr(label), leanStr(lt), leanStr(rhs), guardsOf(guards))})
						}
					}
				case *ast.DeclStmt:
					if gd, ok := x.Decl.(*ast.GenDecl); ok {
						for _, sp := range gd.Specs {
							vs, ok := sp.(*ast.ValueSpec)
							if !ok {
								continue
							}
							for i, id := range vs.Names {
								if o := info.Defs[id]; o != nil && tracked[o] {
									rhs := ""
									if i < len(vs.Values) {
										rhs = c5Text(vs.Values[i])
									}
									argW = append(argW, site{x.Pos(), fmt.Sprintf("(%s, %s, %s, %s)", leanStr(label), leanStr(id.Name), leanStr("var "+rhs), guardsOf(guards))})
								}
							}
						}
					}
				case *ast.IncDecStmt:
					if o := objOfExpr(x.X); o != nil && tracked[o] {
						argW = append(argW, site{x.Pos(), fmt.Sprintf("(%s, %s, %s, %s)", leanStr(label), leanStr(c5Text(x.X)), leanStr(x.Tok.String()), guardsOf(guards))})
					}
				}
			}
		}
		walkBody := func(label string, body *ast.BlockStmt, file *ast.File) {
			w := &c5Walk{pr: pr, externs: map[string]bool{}, visited: map[ast.Node]bool{}, edges: map[ast.Node]bool{}}
			w.assignHook = record(label)
			sc := &c5Scope{pkg: up, file: file, body: body, fn: label, rangeKey: map[types.Object]string{}}
			w.block(sc, body.List, nil)
			// literal VALUES written in this body (stored closures): their statements, under the guard "closure"
			ast.Inspect(body, func(n ast.Node) bool {
				if fl, ok := n.(*ast.FuncLit); ok && !w.visited[fl] {
					w.visited[fl] = true
					w.block(sc, fl.Body.List, []string{"closure"})
				}
				return true
			})
		}
		for _, f := range up.Syntax {
			if strings.HasSuffix(pr.rel(f.Pos()), "_test.go") {
				continue
			}
			for _, d := range f.Decls {
				if fd, ok := d.(*ast.FuncDecl); ok && fd.Body != nil {
					walkBody(c5DeclLabel(up, fd), fd.Body, f)
				}
			}
		}
		emit := func(xs []site) string {
			// by file name and offset: raw token.Pos values depend on the order in which the files were parsed
			sort.Slice(xs, func(i, j int) bool {
				a, b := pr.fset.Position(xs[i].pos), pr.fset.Position(xs[j].pos)
				if a.Filename != b.Filename {
					return a.Filename < b.Filename
				}
				return a.Offset < b.Offset
			})
			ss := make([]string, len(xs))
			for i, x := range xs {
				ss[i] = x.text
			}
			return "[" + strings.Join(ss, ",\n   ") + "]"
		}
		var sb strings.Builder
		sb.WriteString("namespace Qryn.Gen.BuilderCalls\n")
		sb.WriteString("/-- every call of a builder callback: (function, handler type, argument texts) -/\n")
		sb.WriteString("def calls : List (String × String × List String) :=\n  " + emit(calls) + "\n")
		sb.WriteString("/-- every assignment to a variable / field that is passed as a slice argument to a builder callback:\n    (function, left-hand side, right-hand side, dominating conditions) -/\n")
		sb.WriteString("def argWrites : List (String × String × String × List String) :=\n  " + emit(argW) + "\n")
		sb.WriteString("/-- every assignment to a field of parserDoer's open request objects: (function, left-hand side, right-hand side) -/\n")
		sb.WriteString("def builderWrites : List (String × String × String × List String) :=\n  " + emit(bW) + "\n")
		sb.WriteString("end Qryn.Gen.BuilderCalls\n")
		return sb.String(), nil
	})
}
