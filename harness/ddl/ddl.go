// Package ddl: the ClickHouse DDL subset that qryn's schema initialisation issues.
//
//   - Split: the statement splitting rule of ctrl/qryn/maintenance/update.go getSQLFile
//     (whitespace-only lines emptied, `##` comment lines emptied, split on ";\n\n", trim "\n ", drop empties).
//   - Parse: classification of one statement into the shapes the Lean model knows (Qryn.Ctrl.Migrate.Stmt).
//     Anything else is an error (fail closed).
//   - Catalog.Exec: the same DDL outcome table as the Lean `exec`.
//
// Used by the translator (Gen.Migrations) on the .sql files and by the fake clickhouse.Conn on the text
// the real code sends.
package ddl

import (
	"bytes"
	"crypto/sha256"
	"encoding/binary"
	"fmt"
	"regexp"
	"sort"
	"strings"
	"text/template"
)

// Placeholder instance names shared by the translator and the harness (the model keeps them symbolic:
// they only enter object "body" identities).
const (
	DBName      = "qryn"
	ClusterName = "c1"
)

// SplitRule holds the four literals of getSQLFile.
type SplitRule struct {
	Blank, Comment, Sep, Trim string
}

// PinnedRule is the rule of the pinned tree (and the one documented in log.sql's header).
var PinnedRule = SplitRule{Blank: `(?m)^\s+$`, Comment: `(?m)^##.*$`, Sep: ";\n\n", Trim: "\n "}

// Split mirrors getSQLFile.
func Split(content string, r SplitRule) ([]string, error) {
	b, err := regexp.Compile(r.Blank)
	if err != nil {
		return nil, err
	}
	c, err := regexp.Compile(r.Comment)
	if err != nil {
		return nil, err
	}
	content = b.ReplaceAllString(content, "")
	content = c.ReplaceAllString(content, "")
	var res []string
	for _, req := range strings.Split(content, r.Sep) {
		q := strings.Trim(req, r.Trim)
		if q == "" {
			continue
		}
		res = append(res, q)
	}
	return res, nil
}

type AlterOp struct {
	Add     bool   // ADD COLUMN (else MODIFY ORDER BY)
	Col     string // ADD COLUMN
	Guarded bool   // IF NOT EXISTS
	Order   uint32 // MODIFY ORDER BY: identity of the expression text
}

type Stmt struct {
	Op        string // createDatabase | create | drop | rename | alter | insert
	Kind      string // table | view | mview (create)
	Name      string
	Dst       string // rename
	Guarded   bool
	Cols      []string
	Body      uint32
	Needs     []string
	Ops       []AlterOp
	OnCluster bool // the text carries ON CLUSTER (the cluster model's CStmt.oc)
}

// Canon renders a statement in the form the model driver prints (`c18prog`).
func (s Stmt) Canon() string {
	g := "0"
	if s.Guarded {
		g = "1"
	}
	switch s.Op {
	case "createDatabase":
		return "createDatabase/" + g
	case "create":
		return fmt.Sprintf("create/%s/%s/%s/%s/%d/%s", s.Kind, s.Name, g, strings.Join(s.Cols, ","), s.Body, strings.Join(s.Needs, ","))
	case "drop":
		return fmt.Sprintf("drop/%s/%s", s.Name, g)
	case "rename":
		return fmt.Sprintf("rename/%s/%s/%s", s.Name, s.Dst, g)
	case "alter":
		var ops []string
		for _, o := range s.Ops {
			if o.Add {
				og := "0"
				if o.Guarded {
					og = "1"
				}
				ops = append(ops, "add:"+o.Col+":"+og)
			} else {
				ops = append(ops, fmt.Sprintf("order:%d", o.Order))
			}
		}
		return fmt.Sprintf("alter/%s/%s", s.Name, strings.Join(ops, ","))
	case "insert":
		return "insert/" + s.Name
	}
	return "?"
}

// ---- tokens

type tok struct {
	kind byte // 'i' identifier/keyword, 'q' back-quoted identifier, 's' string, 'n' number, 'p' punctuation
	text string
	pos  int // byte offset of the token start
	end  int
}

func lex(s string) ([]tok, error) {
	var out []tok
	i := 0
	for i < len(s) {
		c := s[i]
		switch {
		case c == ' ' || c == '\n' || c == '\t' || c == '\r':
			i++
		case c == '`':
			j := strings.IndexByte(s[i+1:], '`')
			if j < 0 {
				return nil, fmt.Errorf("unterminated back-quote")
			}
			out = append(out, tok{'q', s[i+1 : i+1+j], i, i + j + 2})
			i += j + 2
		case c == '\'':
			j := i + 1
			for {
				if j >= len(s) {
					return nil, fmt.Errorf("unterminated string literal")
				}
				if s[j] == '\\' {
					j += 2
					continue
				}
				if s[j] == '\'' {
					if j+1 < len(s) && s[j+1] == '\'' {
						j += 2
						continue
					}
					break
				}
				j++
			}
			out = append(out, tok{'s', s[i+1 : j], i, j + 1})
			i = j + 1
		case c == '_' || c >= 'a' && c <= 'z' || c >= 'A' && c <= 'Z':
			j := i
			for j < len(s) && (s[j] == '_' || s[j] == '$' || s[j] >= 'a' && s[j] <= 'z' || s[j] >= 'A' && s[j] <= 'Z' || s[j] >= '0' && s[j] <= '9') {
				j++
			}
			out = append(out, tok{'i', s[i:j], i, j})
			i = j
		case c >= '0' && c <= '9':
			j := i
			for j < len(s) && (s[j] >= '0' && s[j] <= '9' || s[j] == '.') {
				j++
			}
			out = append(out, tok{'n', s[i:j], i, j})
			i = j
		case c == '{' || c == '}':
			return nil, fmt.Errorf("template remnant %q at %d", c, i)
		case c < 0x20 || c >= 0x7f:
			return nil, fmt.Errorf("unexpected byte 0x%02x at %d", c, i)
		default:
			out = append(out, tok{'p', string(c), i, i + 1})
			i++
		}
	}
	return out, nil
}

type parser struct {
	src string
	t   []tok
	i   int
	db  string
}

func (p *parser) peek() *tok {
	if p.i < len(p.t) {
		return &p.t[p.i]
	}
	return nil
}
func (p *parser) kw(words ...string) bool {
	if p.i+len(words) > len(p.t) {
		return false
	}
	for j, w := range words {
		t := p.t[p.i+j]
		if t.kind != 'i' || !strings.EqualFold(t.text, w) {
			return false
		}
	}
	p.i += len(words)
	return true
}
func (p *parser) punct(c string) bool {
	if t := p.peek(); t != nil && t.kind == 'p' && t.text == c {
		p.i++
		return true
	}
	return false
}
func (p *parser) ident() (string, bool) {
	if t := p.peek(); t != nil && (t.kind == 'i' || t.kind == 'q') {
		p.i++
		return t.text, true
	}
	return "", false
}

// qname: [db.]name; the database must be the configured one (the connection's default database).
func (p *parser) qname() (string, error) {
	a, ok := p.ident()
	if !ok {
		return "", fmt.Errorf("object name expected at token %d", p.i)
	}
	if p.punct(".") {
		b, ok := p.ident()
		if !ok {
			return "", fmt.Errorf("name expected after %q.", a)
		}
		if a != p.db {
			return "", fmt.Errorf("object %s.%s is outside database %s", a, b, p.db)
		}
		return b, nil
	}
	return a, nil
}
func (p *parser) onCluster() (bool, error) {
	if p.kw("ON", "CLUSTER") {
		if _, ok := p.ident(); !ok {
			return false, fmt.Errorf("cluster name expected")
		}
		return true, nil
	}
	return false, nil
}
func (p *parser) end() error {
	p.punct(";")
	if p.i != len(p.t) {
		return fmt.Errorf("unexpected text after the statement: %q", p.src[p.t[p.i].pos:])
	}
	return nil
}

// group returns the token index range (exclusive of the parentheses) of the parenthesised group
// starting at the current "(" and moves past it.
func (p *parser) group() (int, int, error) {
	if !p.punct("(") {
		return 0, 0, fmt.Errorf("( expected at token %d", p.i)
	}
	start := p.i
	depth := 1
	for p.i < len(p.t) {
		t := p.t[p.i]
		if t.kind == 'p' && t.text == "(" {
			depth++
		}
		if t.kind == 'p' && t.text == ")" {
			depth--
			if depth == 0 {
				p.i++
				return start, p.i - 1, nil
			}
		}
		p.i++
	}
	return 0, 0, fmt.Errorf("unbalanced parentheses")
}

// splitTop splits the token range [a,b) on top-level commas.
func (p *parser) splitTop(a, b int) [][2]int {
	var res [][2]int
	depth, s := 0, a
	for i := a; i < b; i++ {
		t := p.t[i]
		if t.kind == 'p' {
			switch t.text {
			case "(", "[":
				depth++
			case ")", "]":
				depth--
			case ",":
				if depth == 0 {
					res = append(res, [2]int{s, i})
					s = i + 1
				}
			}
		}
	}
	res = append(res, [2]int{s, b})
	return res
}

func hash32(s string) uint32 {
	h := sha256.Sum256([]byte(strings.Join(strings.Fields(s), " ")))
	v := binary.BigEndian.Uint32(h[:4])
	if v == 0 {
		v = 1
	}
	return v
}

func (p *parser) text(a, b int) string {
	if a >= b {
		return ""
	}
	return p.src[p.t[a].pos:p.t[b-1].end]
}

// fromTable finds the single top-level FROM of a SELECT in tokens [a,b) and returns the table it names.
func (p *parser) fromTable(a, b int) (string, error) {
	depth, found := 0, -1
	for i := a; i < b; i++ {
		t := p.t[i]
		if t.kind == 'p' && (t.text == "(" || t.text == "[") {
			depth++
		}
		if t.kind == 'p' && (t.text == ")" || t.text == "]") {
			depth--
		}
		if depth == 0 && t.kind == 'i' && strings.EqualFold(t.text, "FROM") {
			if found >= 0 {
				return "", fmt.Errorf("more than one top-level FROM")
			}
			found = i
		}
	}
	if found < 0 {
		return "", fmt.Errorf("no top-level FROM in the view's SELECT")
	}
	save := p.i
	p.i = found + 1
	n, err := p.qname()
	p.i = save
	return n, err
}

var colKeywords = map[string]bool{"INDEX": true, "CONSTRAINT": true, "PROJECTION": true, "PRIMARY": true}

// Parse classifies one statement. db is the database the connection is bound to.
func Parse(sql string, db string) (Stmt, error) {
	toks, err := lex(sql)
	if err != nil {
		return Stmt{}, err
	}
	p := &parser{src: sql, t: toks, db: db}
	body := hash32(strings.TrimRight(strings.TrimSpace(sql), ";"))
	switch {
	case p.kw("CREATE", "DATABASE"):
		s := Stmt{Op: "createDatabase"}
		s.Guarded = p.kw("IF", "NOT", "EXISTS")
		n, ok := p.ident()
		if !ok {
			return s, fmt.Errorf("database name expected")
		}
		if n != db {
			return s, fmt.Errorf("CREATE DATABASE %s: not the configured database %s", n, db)
		}
		if s.OnCluster, err = p.onCluster(); err != nil {
			return s, err
		}
		return s, p.end()
	case p.kw("CREATE", "TABLE"):
		s := Stmt{Op: "create", Kind: "table", Body: body}
		s.Guarded = p.kw("IF", "NOT", "EXISTS")
		if s.Name, err = p.qname(); err != nil {
			return s, err
		}
		if s.OnCluster, err = p.onCluster(); err != nil {
			return s, err
		}
		a, b, err := p.group()
		if err != nil {
			return s, err
		}
		for _, r := range p.splitTop(a, b) {
			if r[0] >= r[1] {
				return s, fmt.Errorf("empty column definition in %s", s.Name)
			}
			t := p.t[r[0]]
			if t.kind != 'i' && t.kind != 'q' || t.kind == 'i' && colKeywords[strings.ToUpper(t.text)] || r[1]-r[0] < 2 {
				return s, fmt.Errorf("unrecognised column definition %q in %s", p.text(r[0], r[1]), s.Name)
			}
			s.Cols = append(s.Cols, t.text)
		}
		if !p.kw("ENGINE") {
			return s, fmt.Errorf("ENGINE expected after the column list of %s", s.Name)
		}
		// the rest (engine, keys, settings) is part of the body identity; it must not start another statement
		for ; p.i < len(p.t); p.i++ {
			if t := p.t[p.i]; t.kind == 'p' && t.text == ";" && p.i != len(p.t)-1 {
				return s, fmt.Errorf("more than one statement in a script: %q", sql)
			}
		}
		return s, nil
	case p.kw("CREATE", "MATERIALIZED", "VIEW"), p.kw("CREATE", "VIEW"):
		s := Stmt{Op: "create", Kind: "view", Body: body}
		if strings.EqualFold(toks[1].text, "MATERIALIZED") {
			s.Kind = "mview"
		}
		s.Guarded = p.kw("IF", "NOT", "EXISTS")
		if s.Name, err = p.qname(); err != nil {
			return s, err
		}
		if s.OnCluster, err = p.onCluster(); err != nil {
			return s, err
		}
		if s.Kind == "mview" {
			if !p.kw("TO") {
				return s, fmt.Errorf("materialized view %s without TO <table>", s.Name)
			}
			to, err := p.qname()
			if err != nil {
				return s, err
			}
			s.Needs = append(s.Needs, to)
		}
		if !p.kw("AS", "SELECT") {
			return s, fmt.Errorf("AS SELECT expected in view %s", s.Name)
		}
		end := len(p.t)
		if t := p.t[end-1]; t.kind == 'p' && t.text == ";" {
			end--
		}
		for i := p.i; i < end; i++ {
			if t := p.t[i]; t.kind == 'p' && t.text == ";" {
				return s, fmt.Errorf("more than one statement in a script: %q", sql)
			}
		}
		from, err := p.fromTable(p.i, end)
		if err != nil {
			return s, err
		}
		s.Needs = append(s.Needs, from)
		return s, nil
	case p.kw("DROP", "TABLE"):
		s := Stmt{Op: "drop"}
		s.Guarded = p.kw("IF", "EXISTS")
		if s.Name, err = p.qname(); err != nil {
			return s, err
		}
		if s.OnCluster, err = p.onCluster(); err != nil {
			return s, err
		}
		return s, p.end()
	case p.kw("RENAME", "TABLE"):
		s := Stmt{Op: "rename"}
		s.Guarded = p.kw("IF", "EXISTS")
		if s.Name, err = p.qname(); err != nil {
			return s, err
		}
		if !p.kw("TO") {
			return s, fmt.Errorf("TO expected in RENAME")
		}
		if s.Dst, err = p.qname(); err != nil {
			return s, err
		}
		if s.OnCluster, err = p.onCluster(); err != nil {
			return s, err
		}
		return s, p.end()
	case p.kw("ALTER", "TABLE"):
		s := Stmt{Op: "alter"}
		if s.Name, err = p.qname(); err != nil {
			return s, err
		}
		if s.OnCluster, err = p.onCluster(); err != nil {
			return s, err
		}
		a, b := p.i, len(p.t)
		if t := p.t[b-1]; t.kind == 'p' && t.text == ";" {
			b--
		}
		if t := p.peek(); t != nil && t.kind == 'p' && t.text == "(" {
			var err error
			if a, b, err = p.group(); err != nil {
				return s, err
			}
			if err := p.end(); err != nil {
				return s, err
			}
		}
		for _, r := range p.splitTop(a, b) {
			p.i = r[0]
			switch {
			case p.kw("ADD", "COLUMN"):
				op := AlterOp{Add: true}
				op.Guarded = p.kw("IF", "NOT", "EXISTS")
				var ok bool
				if op.Col, ok = p.ident(); !ok || p.i >= r[1] {
					return s, fmt.Errorf("unrecognised ADD COLUMN in %q", p.text(r[0], r[1]))
				}
				for i := p.i; i < r[1]; i++ {
					if t := p.t[i]; t.kind == 'i' && (strings.EqualFold(t.text, "AFTER") || strings.EqualFold(t.text, "FIRST")) || t.kind == 'p' && t.text == ";" {
						return s, fmt.Errorf("unsupported ADD COLUMN form %q", p.text(r[0], r[1]))
					}
				}
				s.Ops = append(s.Ops, op)
			case p.kw("MODIFY", "ORDER", "BY"):
				if p.i >= r[1] {
					return s, fmt.Errorf("empty MODIFY ORDER BY")
				}
				s.Ops = append(s.Ops, AlterOp{Order: hash32(p.text(p.i, r[1]))})
			default:
				return s, fmt.Errorf("unsupported ALTER command %q", p.text(r[0], r[1]))
			}
		}
		return s, nil
	case p.kw("INSERT", "INTO"):
		s := Stmt{Op: "insert"}
		if s.Name, err = p.qname(); err != nil {
			return s, err
		}
		if _, _, err := p.group(); err != nil {
			return s, err
		}
		if !p.kw("VALUES") {
			return s, fmt.Errorf("INSERT without VALUES")
		}
		if _, _, err := p.group(); err != nil {
			return s, err
		}
		return s, p.end()
	}
	return Stmt{}, fmt.Errorf("unrecognised statement shape: %.60q", sql)
}

// ---- catalogue with the DDL outcome table of the Lean model (`Qryn.Ctrl.Migrate.exec`)

type Obj struct {
	Name  string
	Kind  string
	Cols  []string
	Body  uint32
	Order uint32
}
type Catalog struct {
	DB   bool
	Objs []Obj
}

type Err struct {
	Code string // noDatabase databaseExists exists missing dupColumn notTable
	Name string
	Col  string
}

func (e *Err) Error() string {
	switch e.Code {
	case "noDatabase":
		return "code: 81, message: Database " + DBName + " does not exist"
	case "databaseExists":
		return "code: 82, message: Database " + DBName + " already exists"
	case "exists":
		return "code: 57, message: Table " + DBName + "." + e.Name + " already exists"
	case "missing":
		return "code: 60, message: Table " + DBName + "." + e.Name + " does not exist"
	case "dupColumn":
		return "code: 15, message: Cannot add column " + e.Col + ": column with this name already exists"
	case "notTable":
		return "code: 48, message: Alter of type 'ADD_COLUMN' is not supported by storage of " + e.Name
	}
	return e.Code
}
func (e *Err) Canon() string {
	s := e.Code
	if e.Name != "" {
		s += ":" + e.Name
	}
	if e.Col != "" {
		s += ":" + e.Col
	}
	return s
}

func (c *Catalog) Clone() *Catalog {
	n := &Catalog{DB: c.DB, Objs: make([]Obj, len(c.Objs))}
	copy(n.Objs, c.Objs) // Cols slices are never mutated in place (ADD COLUMN builds a new slice)
	return n
}
func (c *Catalog) find(n string) int {
	for i := range c.Objs {
		if c.Objs[i].Name == n {
			return i
		}
	}
	return -1
}
func (c *Catalog) Has(n string) bool { return c.find(n) >= 0 }

// Exec applies a statement atomically: on error nothing changes.
func (c *Catalog) Exec(s Stmt) *Err {
	if s.Op == "createDatabase" {
		if c.DB {
			if s.Guarded {
				return nil
			}
			return &Err{Code: "databaseExists"}
		}
		c.DB = true
		return nil
	}
	if !c.DB {
		return &Err{Code: "noDatabase"}
	}
	switch s.Op {
	case "create":
		if c.Has(s.Name) {
			if s.Guarded {
				return nil
			}
			return &Err{Code: "exists", Name: s.Name}
		}
		for _, n := range s.Needs {
			if !c.Has(n) {
				return &Err{Code: "missing", Name: n}
			}
		}
		c.Objs = append(c.Objs, Obj{Name: s.Name, Kind: s.Kind, Cols: append([]string(nil), s.Cols...), Body: s.Body})
	case "drop":
		i := c.find(s.Name)
		if i < 0 {
			if s.Guarded {
				return nil
			}
			return &Err{Code: "missing", Name: s.Name}
		}
		c.Objs = append(c.Objs[:i:i], c.Objs[i+1:]...)
	case "rename":
		i := c.find(s.Name)
		if i < 0 {
			if s.Guarded {
				return nil
			}
			return &Err{Code: "missing", Name: s.Name}
		}
		if c.Has(s.Dst) {
			return &Err{Code: "exists", Name: s.Dst}
		}
		c.Objs[i].Name = s.Dst
	case "alter":
		i := c.find(s.Name)
		if i < 0 {
			return &Err{Code: "missing", Name: s.Name}
		}
		if c.Objs[i].Kind != "table" {
			return &Err{Code: "notTable", Name: s.Name}
		}
		cols := append([]string(nil), c.Objs[i].Cols...)
		order := c.Objs[i].Order
		for _, op := range s.Ops {
			if !op.Add {
				order = op.Order
				continue
			}
			dup := false
			for _, x := range cols {
				if x == op.Col {
					dup = true
				}
			}
			if dup {
				if op.Guarded {
					continue
				}
				return &Err{Code: "dupColumn", Name: s.Name, Col: op.Col}
			}
			cols = append(cols, op.Col)
		}
		c.Objs[i].Cols, c.Objs[i].Order = cols, order
	case "insert":
		if !c.Has(s.Name) {
			return &Err{Code: "missing", Name: s.Name}
		}
	default:
		panic("ddl: unknown statement op " + s.Op)
	}
	return nil
}

// Canon: objects sorted by name, `kind:name(col,col)#body#order`, preceded by the database flag.
func (c *Catalog) Canon() string {
	var parts []string
	for _, o := range c.Objs {
		parts = append(parts, fmt.Sprintf("%s:%s(%s)#%d#%d", o.Kind, o.Name, strings.Join(o.Cols, ","), o.Body, o.Order))
	}
	sort.Strings(parts)
	db := "db0"
	if c.DB {
		db = "db1"
	}
	return db + " " + strings.Join(parts, " ")
}

// ---- modes and template instantiation (what updateScripts/getDBExec do with text/template)

type Mode struct {
	Name       string
	Cluster    string // clusterName ("" = none)
	Replicated bool   // CLUST_MODE_CLOUD
	Ctor       string // constructor of Qryn.Ctrl.Migrate.Mode
}

// The four combinations upgradeDB can compute: mode = SINGLE|CLOUD, |DISTRIBUTED when a cluster name is configured.
var Modes = []Mode{{"single", "", false, "single"}, {"replicated", "", true, "replicated"},
	{"clustered", ClusterName, false, "clustered"}, {"clustered_replicated", ClusterName, true, "clusteredReplicated"}}

// Params: every value updateScripts can be called with that enters the template environment.
type Params struct {
	DB       string // dbname
	TTLDays  int    // ttlDays (0 keeps the literal "30")
	Policy   string // storagePolicy ("" = no CREATE_SETTINGS)
	Ordering string // advancedSamplesOrdering ("" = "timestamp_ns")
	SkipUnav bool   // skipUnavailableShards
}

// DefaultParams: the instance the translator numbers the object texts with.
var DefaultParams = Params{DB: DBName, TTLDays: 30}

// EnvFor replicates the template environment updateScripts builds for the default parameters.
func EnvFor(m Mode) map[string]string { return EnvForParams(m, DefaultParams) }

// EnvForParams replicates the template environment updateScripts builds (the translator checks the key set and the
// conditions against the source).
func EnvForParams(m Mode, p Params) map[string]string {
	env := map[string]string{
		"DB": p.DB, "CLUSTER": m.Cluster, "OnCluster": " ", "DefaultTtlDays": "30", "CREATE_SETTINGS": "",
		"SAMPLES_ORDER_RUL": "timestamp_ns", "DIST_CREATE_SETTINGS": "",
		"ReplacingMergeTree": "ReplacingMergeTree", "MergeTree": "MergeTree", "AggregatingMergeTree": "AggregatingMergeTree",
	}
	if p.Policy != "" {
		env["CREATE_SETTINGS"] = fmt.Sprintf("SETTINGS storage_policy = '%s'", p.Policy)
	}
	if p.Ordering != "" {
		env["SAMPLES_ORDER_RUL"] = p.Ordering
	}
	if p.SkipUnav {
		env["DIST_CREATE_SETTINGS"] += " SETTINGS skip_unavailable_shards = 1"
	}
	if p.TTLDays != 0 {
		env["DefaultTtlDays"] = fmt.Sprintf("%d", p.TTLDays)
	}
	if m.Cluster != "" {
		env["OnCluster"] = "ON CLUSTER `" + m.Cluster + "`"
	}
	if m.Replicated {
		env["ReplacingMergeTree"] = "ReplicatedReplacingMergeTree"
		env["MergeTree"] = "ReplicatedMergeTree"
		env["AggregatingMergeTree"] = "ReplicatedAggregatingMergeTree"
	}
	return env
}

// Shape renders everything of a statement but the identity of its text (what the parameters may not change).
func (s Stmt) Shape() string {
	t := s
	t.Body = 0
	oc := "0"
	if s.OnCluster {
		oc = "1"
	}
	return t.Canon() + "@oc" + oc
}

func Render(q string, env map[string]string) (string, error) {
	tpl, err := template.New("t").Parse(q)
	if err != nil {
		return "", err
	}
	buf := bytes.NewBuffer(nil)
	if err := tpl.Execute(buf, env); err != nil {
		return "", err
	}
	return buf.String(), nil
}
