// sqldump: prints the SQL the real LogQL clickhouse planner renders for the queries given as arguments.
package main

import (
	"fmt"
	"os"
	"time"

	"github.com/metrico/qryn/reader/logql/logql_parser"
	"github.com/metrico/qryn/reader/logql/logql_transpiler_v2/clickhouse_planner"
	"github.com/metrico/qryn/reader/logql/logql_transpiler_v2/shared"
	sql "github.com/metrico/qryn/reader/utils/sql_select"
)

func Ctx() *shared.PlannerContext {
	return &shared.PlannerContext{
		From: time.Unix(1700000000, 0).UTC(), To: time.Unix(1700003600, 0).UTC(), Limit: 100,
		TimeSeriesGinTableName: "time_series_gin", SamplesTableName: "samples_v3", TimeSeriesTableName: "time_series",
		TimeSeriesDistTableName: "time_series", Metrics15sTableName: "metrics_15s", Step: 5 * time.Second,
		CHSqlCtx: sql.DefaultCtx(), CHFinalize: true,
	}
}

func main() {
	for _, q := range os.Args[1:] {
		s, err := logql_parser.Parse(q)
		if err != nil {
			fmt.Println("PARSE-ERR", err)
			continue
		}
		p, err := clickhouse_planner.Plan(s, true)
		if err != nil {
			fmt.Println("PLAN-ERR", err)
			continue
		}
		sel, err := p.Process(Ctx())
		if err != nil {
			fmt.Println("PROCESS-ERR", err)
			continue
		}
		str, err := sel.String(sql.DefaultCtx())
		fmt.Println("Q:", q)
		fmt.Println("SQL:", str, err)
	}
}
