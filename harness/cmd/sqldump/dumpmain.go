package main

import (
	"fmt"
	"os"

	"github.com/metrico/qryn/reader/logql/logql_parser"
	"github.com/metrico/qryn/reader/logql/logql_transpiler_v2/clickhouse_planner"
	"verif/harness/sqldump"
)

func init() {
	if len(os.Args) > 2 && os.Args[1] == "-ast" {
		s, err := logql_parser.Parse(os.Args[2])
		if err != nil {
			panic(err)
		}
		p, _ := clickhouse_planner.Plan(s, true)
		sel, err := p.Process(Ctx())
		if err != nil {
			panic(err)
		}
		fmt.Println(sqldump.Dump(sel))
		os.Exit(0)
	}
}
