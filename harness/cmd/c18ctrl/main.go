//go:build c18overlay

// c18ctrl: runs the REAL ctrl.Init / ctrl.Rotate (ctrl/main.go → InitDB, UpgradeAll → upgradeDB → Update; RotateAll →
// rotateDB → Rotate) against the fake clusters. The only thing replaced is where maintenance.ConnectV2 gets its
// connection from: this program is built by vcheck with `go build -overlay`, the overlay being the repository's own
// ctrl/maintenance/shared.go with three lines added at the top of ConnectV2 (`if VerifConnect != nil { return … }`) and
// the variable VerifConnect. Nothing is written into the repository. One JSON request per line on stdin, one JSON answer
// per line on stdout; the formatting of states/logs is done by vcheck with the functions it uses for the in-process runs.
package main

import (
	"bufio"
	"context"
	"encoding/json"
	"errors"
	"fmt"
	"io"
	"os"
	"strings"

	clickhouse_v2 "github.com/ClickHouse/clickhouse-go/v2"
	"github.com/ClickHouse/clickhouse-go/v2/lib/driver"
	clconfig "github.com/metrico/cloki-config"
	"github.com/metrico/cloki-config/config"
	"github.com/metrico/qryn/ctrl"
	"github.com/metrico/qryn/ctrl/logger"
	"github.com/metrico/qryn/ctrl/maintenance"
	qsql "github.com/metrico/qryn/ctrl/qryn/sql"

	"verif/harness/ddl"
	"verif/harness/fakes"
)

type start struct {
	Conn  int                 `json:"conn"`
	Fault *fakes.ClusterFault `json:"fault,omitempty"`
}

type initReq struct {
	Mode   string     `json:"mode"`
	N      int        `json:"n"`
	Params ddl.Params `json:"params"`
	Prefix []int      `json:"prefix,omitempty"`
	Starts []start    `json:"starts"`
}

type startOut struct {
	Status string `json:"status"`
	Calls  int    `json:"calls"`
	State  string `json:"state"`
}

type tier struct {
	Ns   int64  `json:"ns"`
	Disk string `json:"disk"`
}
type rotCfg struct {
	Cluster string `json:"cluster"`
	Dist    bool   `json:"dist"`
	Policy  string `json:"policy"`
	Days    int    `json:"days"`
	Tiers   []tier `json:"tiers"`
}
type rotStep struct {
	Cfg   rotCfg           `json:"cfg"`
	Conn  int              `json:"conn"`
	Fault *fakes.C19CFault `json:"fault,omitempty"`
}
type rotReq struct {
	N      int       `json:"n"`
	Tables []string  `json:"tables"`
	Init   [2]string `json:"init"` // initial TTL, initial policy
	Steps  []rotStep `json:"steps"`
}
type rotOut struct {
	Ok    bool             `json:"ok"`
	Panic string           `json:"panic,omitempty"`
	Log   []fakes.C19Stmt  `json:"log"`
	State *fakes.C19Cluster `json:"state"`
}

type req struct {
	Init   *initReq `json:"init,omitempty"`
	Rotate *rotReq  `json:"rotate,omitempty"`
}

var streams = []struct {
	file string
	v    *string
}{{"log.sql", &qsql.LogScript}, {"log_dist.sql", &qsql.LogDistScript}, {"traces.sql", &qsql.TracesScript},
	{"traces_dist.sql", &qsql.TracesDistScript}, {"profiles.sql", &qsql.ProfilesScript}, {"profiles_dist.sql", &qsql.ProfilesDistScript}}
var full = map[string]string{}

func setPrefix(prefix []int) {
	for i, st := range streams {
		if prefix == nil {
			*st.v = full[st.file]
			continue
		}
		parts, _ := ddl.Split(full[st.file], ddl.PinnedRule)
		n := prefix[i]
		if n > len(parts) {
			n = len(parts)
		}
		*st.v = strings.Join(parts[:n], ";\n\n")
	}
}

func modeByName(n string) ddl.Mode {
	for _, m := range ddl.Modes {
		if m.Name == n {
			return m
		}
	}
	panic("unknown mode " + n)
}

func statusOf(err error, killed bool) string {
	switch {
	case killed:
		return "died"
	case err == nil:
		return "done"
	case errors.Is(err, fakes.ErrInjected), errors.Is(err, fakes.ErrNoRoute):
		return "died"
	}
	var de *ddl.Err
	if errors.As(err, &de) {
		return "failed:" + de.Canon()
	}
	return "failed:other:" + err.Error()
}

// protect: run f; a panic with ErrKilled = the process was killed; a panic with an error = ctrl.Init's panic(err)
func protect(f func() error) (err error, killed bool) {
	defer func() {
		if r := recover(); r != nil {
			if r == fakes.ErrKilled {
				killed = true
				return
			}
			if e, ok := r.(error); ok {
				err = e
				return
			}
			panic(r)
		}
	}()
	return f(), false
}

func doInit(q *initReq) []startOut {
	m := modeByName(q.Mode)
	p := q.Params
	skip := p.DB == "" || p.DB == "default"
	cl := fakes.NewCHCluster(p.DB, q.N, skip)
	cfg := &clconfig.ClokiConfig{Setting: &config.ClokiBaseSettingServer{}}
	cfg.Setting.DATABASE_DATA = []config.ClokiBaseDataBase{{Name: p.DB, Host: "cluster.example", Port: 9000, ClusterName: m.Cluster,
		Cloud: m.Replicated, TTLDays: p.TTLDays, StoragePolicy: p.Policy, SamplesOrdering: p.Ordering, SkipUnavailableShards: p.SkipUnav}}
	var outs []startOut
	one := func(conn int, f *fakes.ClusterFault) {
		cc := cl.Connect(conn, f)
		maintenance.VerifConnect = func(db *config.ClokiBaseDataBase, database bool) (clickhouse_v2.Conn, error) { return cc, nil }
		err, killed := protect(func() error { return ctrl.Init(cfg, "qryn") })
		outs = append(outs, startOut{statusOf(err, killed), cc.Calls, cl.StateCanon()})
	}
	if q.Prefix != nil {
		setPrefix(q.Prefix)
		one(0, nil)
		setPrefix(nil)
	}
	for _, s := range q.Starts {
		one(s.Conn, s.Fault)
	}
	return outs
}

// the connection InitDB opens (without database): CREATE DATABASE and SHOW CREATE DATABASE succeed
type initStub struct{ fakes.CHConn }

func (s *initStub) Exec(ctx context.Context, query string, args ...any) error { return nil }
func (s *initStub) Query(ctx context.Context, query string, args ...any) (driver.Rows, error) {
	return fakes.OneStringRow("statement", "CREATE DATABASE qryn ENGINE = Atomic"), nil
}

func doRotate(q *rotReq) []rotOut {
	cl := fakes.NewC19Cluster(q.N, q.Tables, q.Init[0], q.Init[1])
	var outs []rotOut
	for _, s := range q.Steps {
		cc := cl.Connect(s.Conn, s.Fault)
		maintenance.VerifConnect = func(db *config.ClokiBaseDataBase, database bool) (clickhouse_v2.Conn, error) {
			if !database {
				return &initStub{}, nil
			}
			return cc, nil
		}
		d := config.ClokiBaseDataBase{Name: "qryn", Host: "cluster.example", Port: 9000, ClusterName: s.Cfg.Cluster,
			TTLDays: s.Cfg.Days, StoragePolicy: s.Cfg.Policy}
		for _, t := range s.Cfg.Tiers {
			d.TTLPolicy = append(d.TTLPolicy, struct {
				Timeout string `json:"ttl_policy" mapstructure:"ttl_policy" default:""`
				MoveTo  string `json:"move_to" mapstructure:"move_to" default:""`
			}{fmt.Sprintf("%dns", t.Ns), t.Disk})
		}
		cfg := &clconfig.ClokiConfig{Setting: &config.ClokiBaseSettingServer{}}
		cfg.Setting.DATABASE_DATA = []config.ClokiBaseDataBase{d}
		o := rotOut{}
		func() {
			defer func() {
				if r := recover(); r != nil {
					o.Panic = fmt.Sprint(r)
				}
			}()
			o.Ok = ctrl.Rotate(cfg, "qryn") == nil
		}()
		o.Log = cc.Log
		o.State = cl.Clone()
		outs = append(outs, o)
	}
	return outs
}

func main() {
	logger.Logger.SetOutput(io.Discard)
	for _, st := range streams {
		full[st.file] = *st.v
	}
	in := bufio.NewReaderSize(os.Stdin, 1<<20)
	out := bufio.NewWriter(os.Stdout)
	for {
		line, err := in.ReadBytes('\n')
		if len(line) > 0 {
			var q req
			if e := json.Unmarshal(line, &q); e != nil {
				fmt.Fprintf(out, "{\"error\":%q}\n", e.Error())
			} else if q.Init != nil {
				b, _ := json.Marshal(map[string]any{"init": doInit(q.Init)})
				out.Write(b)
				out.WriteByte('\n')
			} else if q.Rotate != nil {
				b, _ := json.Marshal(map[string]any{"rotate": doRotate(q.Rotate)})
				out.Write(b)
				out.WriteByte('\n')
			} else {
				out.WriteString("{\"error\":\"empty request\"}\n")
			}
			out.Flush()
		}
		if err != nil {
			return
		}
	}
}
